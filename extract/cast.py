"""clang-14 JSON AST access shared by the translator (c2lean) and the effect census.

The synthesised configuration headers (configuration.h from configuration.h.in + the
CMakeLists.txt cache defaults, cbor_export.h, and an assert.h shadow that keeps
CBOR_ASSERT conditions visible as calls to __verif_assert) live in <workdir>/cfg.
Nothing under /repo/_build is read.
"""
import json, os, re, subprocess, hashlib
from concurrent.futures import ThreadPoolExecutor

EXPORT_H = '''#ifndef CBOR_EXPORT_H
#define CBOR_EXPORT_H
#define CBOR_EXPORT
#define CBOR_NO_EXPORT
#define CBOR_DEPRECATED __attribute__ ((__deprecated__))
#define CBOR_DEPRECATED_EXPORT CBOR_EXPORT CBOR_DEPRECATED
#define CBOR_DEPRECATED_NO_EXPORT CBOR_NO_EXPORT CBOR_DEPRECATED
#endif
'''
ASSERT_H = '''/* shadow of <assert.h>: keeps assertion conditions visible in the AST */
#ifndef VERIF_ASSERT_H
#define VERIF_ASSERT_H
void __verif_assert(int);
#undef assert
#define assert(e) __verif_assert((e) != 0)
#endif
'''


def cmake_defaults(repo):
    """CACHE/option defaults from CMakeLists.txt (what a plain `cmake` configure produces)."""
    txt = open(os.path.join(repo, 'CMakeLists.txt')).read()
    vals = {}
    for m in re.finditer(r'set\(\s*(CBOR_\w+)\s+"?([^"\s)]+)"?', txt):
        vals.setdefault(m.group(1), m.group(2))
    for m in re.finditer(r'option\(\s*(CBOR_\w+)\s+"[^"]*"\s+(\w+)\s*\)', txt):
        vals.setdefault(m.group(1), m.group(2))
    return vals


def write_cfg(repo, cfgdir, overrides=None, with_assert_shadow=True):
    """Synthesise cbor/configuration.h + cbor/cbor_export.h (+ assert.h shadow). Returns the dict of values."""
    vals = cmake_defaults(repo)
    vals.setdefault('CBOR_RESTRICT_SPECIFIER', 'restrict')
    vals.setdefault('CBOR_INLINE_SPECIFIER', '')
    if overrides: vals.update(overrides)
    tpl = open(os.path.join(repo, 'src/cbor/configuration.h.in')).read()
    def rep(m): return str(vals.get(m.group(1), ''))
    out = re.sub(r'\$\{(\w+)\}', rep, tpl)
    def cmdef(m):
        v = str(vals.get(m.group(1), 'OFF')).upper()
        return '#define %s %d' % (m.group(1), 1 if v in ('ON', '1', 'TRUE', 'YES') else 0)
    out = re.sub(r'#cmakedefine01\s+(\w+)', cmdef, out)
    os.makedirs(os.path.join(cfgdir, 'cbor'), exist_ok=True)
    _write_if_changed(os.path.join(cfgdir, 'cbor/configuration.h'), out)
    _write_if_changed(os.path.join(cfgdir, 'cbor/cbor_export.h'), EXPORT_H)
    if with_assert_shadow:
        _write_if_changed(os.path.join(cfgdir, 'assert.h'), ASSERT_H)
    return vals


def _write_if_changed(path, content):
    try:
        if open(path).read() == content: return False
    except OSError:
        pass
    os.makedirs(os.path.dirname(path), exist_ok=True)
    with open(path, 'w') as f: f.write(content)
    return True


def dump_tu(repo, cfgdir, cfile, defines=('-DDEBUG=1',)):
    cmd = ['clang-14', '-std=c99', '-I%s/src' % repo, '-I' + cfgdir, *defines, '-fsyntax-only', '-w',
           '-Xclang', '-ast-dump=json', os.path.join(repo, cfile)]
    p = subprocess.run(cmd, capture_output=True, text=True)
    if p.returncode != 0:
        raise RuntimeError('clang failed on %s: %s' % (cfile, p.stderr[:2000]))
    return json.loads(p.stdout)


def dump_many(repo, cfgdir, cfiles, defines=('-DDEBUG=1',)):
    with ThreadPoolExecutor(max_workers=8) as ex:
        res = list(ex.map(lambda f: dump_tu(repo, cfgdir, f, defines), cfiles))
    return dict(zip(cfiles, res))


def little_endian():
    """byte order of the target clang-14 compiles for (the harness runs on the same target)"""
    p = subprocess.run(['clang-14', '-dM', '-E', '-x', 'c', '/dev/null'], capture_output=True, text=True)
    return p.returncode == 0 and re.search(r'#define __BYTE_ORDER__ __ORDER_LITTLE_ENDIAN__\b', p.stdout) is not None


def src_files(repo):
    out = []
    for d, _, fs in os.walk(os.path.join(repo, 'src')):
        for f in sorted(fs):
            if f.endswith('.c'):
                out.append(os.path.relpath(os.path.join(d, f), repo))
    return sorted(out)


def file_of(node, cur):
    """track clang's sticky 'file' attribute in loc records"""
    loc = node.get('loc') or {}
    for k in ('file',):
        if k in loc: return loc[k]
    if 'expansionLoc' in loc and 'file' in loc['expansionLoc']: return loc['expansionLoc']['file']
    if 'spellingLoc' in loc and 'file' in loc['spellingLoc']: return loc['spellingLoc']['file']
    return cur


def sha(s):
    return hashlib.sha256(s.encode() if isinstance(s, str) else s).hexdigest()[:16]

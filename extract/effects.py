"""Effect census of the library sources (clang-14 JSON AST) -> lean/Cbor/Gen/Effects.lean, regenerated on every run.

For every function defined under src/ (tests excluded):
  * calls        — direct callees, and calls through the three allocator hooks (_cbor_malloc, _cbor_realloc, _cbor_free)
  * allocator call sites with the text of their size arguments
  * const locals — block-scope variables of a `const`-qualified non-pointer type with an initialiser, whose name is declared
                   only once in the function (no parameter or other local of that name) and which are passed as an argument of an
                   allocator call site listed above: (function, name, text of the initialiser).
                   Pure extraction; C20 uses it to read an allocator argument `n` as the expression `n` was initialised with.
  * item stores  — assignments / ++ / -- / compound assignments / memcpy-memset-memmove destinations whose target is reached
                   through a pointer and has a non-byte type (item headers, slot arrays, pairs, metadata, chunk bookkeeping ...)
                   i.e. everything except writes into `unsigned char` / `char` output buffers and into locals
  * global reads / writes of file-scope variables; static locals
and for the translation units: every file-scope variable with its constness.

The theorems over these tables are in lean/Cbor/Props/C13.lean, C17.lean, C18.lean, C20.lean.
"""
import os, json, re, hashlib
import cast

LIBC_HEAP = {'malloc', 'calloc', 'realloc', 'free', 'strdup', 'strndup', 'aligned_alloc', 'posix_memalign', 'reallocarray', 'valloc', 'memalign', 'alloca'}
HOOKS = {'_cbor_malloc', '_cbor_realloc', '_cbor_free'}
BYTE_TYPES = {'unsigned char', 'char', 'uint8_t', 'signed char', 'const unsigned char', 'const char', 'void', 'cbor_data', 'cbor_mutable_data', 'wchar_t'}


def lean_str(s): return '"' + s.replace('\\', '\\\\').replace('"', '\\"') + '"'


def source_text(cache, path, rng):
    b, e = rng.get('begin', {}), rng.get('end', {})
    def off(x):
        if 'offset' in x: return x['offset'], x.get('tokLen', 0)
        if 'expansionLoc' in x: return x['expansionLoc'].get('offset'), x['expansionLoc'].get('tokLen', 0)
        if 'spellingLoc' in x: return x['spellingLoc'].get('offset'), x['spellingLoc'].get('tokLen', 0)
        return None, 0
    bo, _ = off(b); eo, el = off(e)
    if bo is None or eo is None: return '?'
    if path not in cache: cache[path] = open(path, 'rb').read()
    return re.sub(r'\s+', ' ', cache[path][bo:eo + el].decode(errors='replace')).strip()


def strip(e):
    while e and e.get('kind') in ('ImplicitCastExpr', 'ParenExpr', 'CStyleCastExpr', 'ConstantExpr'):
        e = e['inner'][0]
    return e


def qual(e):
    t = e.get('type', {})
    return t.get('desugaredQualType', t.get('qualType', '?'))


def through_pointer(e):
    """is the lvalue e reached through a pointer dereference (->, *, [] on a pointer)? returns (bool, root variable name)"""
    e = strip(e)
    k = e.get('kind')
    if k == 'MemberExpr':
        if e.get('isArrow'): return True, root_of(e['inner'][0])
        return through_pointer(e['inner'][0])
    if k == 'ArraySubscriptExpr':
        base = strip(e['inner'][0])
        bt = qual(base)
        if '[' in bt and '*' not in bt:      # genuine array object
            return through_pointer(base)
        return True, root_of(base)
    if k == 'UnaryOperator' and e.get('opcode') == '*': return True, root_of(e['inner'][0])
    if k == 'DeclRefExpr': return False, e.get('referencedDecl', {}).get('name', '?')
    if k == 'CompoundLiteralExpr': return False, '(literal)'
    return False, '?'


def root_of(e):
    e = strip(e)
    k = e.get('kind')
    if k == 'DeclRefExpr': return e.get('referencedDecl', {}).get('name', '?')
    if k in ('MemberExpr', 'ArraySubscriptExpr', 'UnaryOperator', 'BinaryOperator', 'CallExpr'):
        for c in e.get('inner', []):
            r = root_of(c)
            if r != '?': return r
    return '?'


ITEMISH = ('cbor_item_t', 'cbor_pair', '_metadata', 'cbor_indefinite_string_data')


def touches_item(e):
    """does the lvalue expression mention an object of an item type anywhere on its access path?"""
    t = qual(e)
    if any(x in t for x in ITEMISH): return True
    return any(touches_item(c) for c in e.get('inner', []))


def pointee_class(t):
    """'byte' for writes into character buffers, else the (normalised) type written"""
    t = t.replace('const ', '').replace('volatile ', '').replace('restrict', '').strip()
    if t in BYTE_TYPES: return 'byte'
    return t


class Census:
    def __init__(self, repo):
        self.repo = repo
        self.funcs = {}      # name -> dict(file, calls:set, hooks:list, stores:set, gwrites:set, greads:set, statics:list, ro_params)
        self.globals = {}    # name -> (file, const?, type)
        self.srccache = {}

    def walk_tu(self, cfile, tu):
        cur = None
        gl = set()
        for n in tu.get('inner', []):
            cur = cast.file_of(n, cur)
            if cur is None or '/src/' not in (cur or '') and not (cur or '').startswith('src/'):
                pass
            k = n.get('kind')
            infile = cur is not None and os.path.abspath(cur).startswith(os.path.join(self.repo, 'src'))
            if k == 'VarDecl' and infile:
                t = qual(n)
                is_def = n.get('storageClass') != 'extern' or 'inner' in n
                if is_def:
                    const = bool(re.match(r'^(static )?const ', t)) or t.endswith('const') or ' const' in t.split('(')[0] and '*' not in t.split('(')[0]
                    self.globals[n['name']] = (os.path.relpath(os.path.abspath(cur), self.repo), const, t)
                gl.add(n['name'])
            if k == 'FunctionDecl' and infile and any(c.get('kind') == 'CompoundStmt' for c in n.get('inner', [])):
                self.func(cfile, os.path.abspath(cur), n)
        return gl

    def func(self, cfile, path, fn):
        name = fn['name']
        info = {'file': os.path.relpath(path, self.repo), 'calls': set(), 'hooks': [], 'stores': set(), 'gwrites': set(), 'greads': set(),
                'statics': [], 'other': set(), 'params': [], 'returns': qual(fn).split('(')[0].strip(), 'constlocals': []}
        declared = []      # every name declared in the function (parameters and locals, all scopes), with repetitions
        const_cand = []    # (name, initialiser text) of const-qualified, non-pointer, non-static, initialised locals
        alloc_arg_names = set()   # variables passed, as a whole argument, to an allocator hook / *_multiple helper
        params = {}
        for c in fn.get('inner', []):
            if c.get('kind') == 'ParmVarDecl':
                params[c.get('name', '')] = qual(c); info['params'].append((c.get('name', ''), qual(c))); declared.append(c.get('name', ''))
        locals_ = set()

        def lhs_store(e, why):
            thr, root = through_pointer(e)
            t = pointee_class(qual(strip(e)))
            if thr:
                if touches_item(e): info['stores'].add('%s' % t)
                elif t != 'byte': info['other'].add('%s' % t)
            else:
                if root in self.globals_all and root not in locals_ and root not in params: info['gwrites'].add(root)
                elif root in info['statics']: info['gwrites'].add(name + '.' + root)

        callee_nodes = set()

        def visit(e):
            k = e.get('kind')
            if k == 'VarDecl':
                locals_.add(e.get('name'))
                declared.append(e.get('name'))
                if e.get('storageClass') == 'static': info['statics'].append(e.get('name'))
                else:
                    qt = e.get('type', {}).get('qualType', '')
                    init = [x for x in e.get('inner', []) if not x.get('kind', '').endswith('Attr')]
                    if qt.startswith('const ') and '*' not in qt and '[' not in qt and init:
                        const_cand.append((e.get('name'), source_text(self.srccache, path, init[0].get('range', {}))))
            if k == 'DeclRefExpr':
                rd = e.get('referencedDecl', {})
                if rd.get('kind') == 'FunctionDecl' and id(e) not in callee_nodes:
                    info.setdefault('fnrefs', set()).add(rd.get('name', '?'))      # a function named other than as the callee of a direct call (address taken)
                if rd.get('kind') == 'VarDecl' and rd.get('name') in self.globals_all and rd.get('name') not in locals_ and rd.get('name') not in params:
                    info['greads'].add(rd['name'])
            if k == 'CallExpr':
                callee = strip(e['inner'][0])
                callee_nodes.add(id(callee))
                cname = callee.get('referencedDecl', {}).get('name') if callee.get('kind') == 'DeclRefExpr' else None
                if cname:
                    info['calls'].add(cname)
                    if cname in HOOKS or cname in ('_cbor_alloc_multiple', '_cbor_realloc_multiple'):
                        args = [source_text(self.srccache, path, a.get('range', {})) for a in e['inner'][1:]]
                        info['hooks'].append((cname, args))
                        for a in e['inner'][1:]:
                            sa = strip(a)
                            if sa.get('kind') == 'DeclRefExpr': alloc_arg_names.add(sa.get('referencedDecl', {}).get('name'))
                    if cname in ('memcpy', 'memset', 'memmove', 'strcpy', 'strncpy') and len(e['inner']) > 1:
                        d = strip(e['inner'][1])
                        pt = qual(d)
                        pt = pt[:-1].strip() if pt.endswith('*') else pt
                        if touches_item(e['inner'][1]): info['stores'].add(pointee_class(pt))
                        elif pointee_class(pt) != 'byte': info['other'].add(pointee_class(pt))
                else:
                    info['calls'].add('(indirect)')
            if k == 'BinaryOperator' and e.get('opcode') == '=': lhs_store(e['inner'][0], '=')
            if k == 'CompoundAssignOperator': lhs_store(e['inner'][0], 'op=')
            if k == 'UnaryOperator' and e.get('opcode') in ('++', '--'): lhs_store(e['inner'][0], '++')
            for c in e.get('inner', []): visit(c)

        for c in fn.get('inner', []):
            if c.get('kind') == 'CompoundStmt': visit(c)
        info['constlocals'] = [(n, t) for n, t in const_cand if declared.count(n) == 1 and n in alloc_arg_names]
        self.funcs[name] = info


def census(repo, cfgdir):
    cast.write_cfg(repo, cfgdir)
    files = [f for f in cast.src_files(repo) if '/test' not in f and not f.endswith('_test.c')]
    tus = cast.dump_many(repo, cfgdir, files)
    C = Census(repo)
    # first pass: names of all file-scope variables
    C.globals_all = set()
    for f in files:
        cur = None
        for n in tus[f].get('inner', []):
            cur = cast.file_of(n, cur)
            if n.get('kind') == 'VarDecl' and cur and os.path.abspath(cur).startswith(os.path.join(repo, 'src')): C.globals_all.add(n['name'])
    for f in files: C.walk_tu(f, tus[f])
    return C, files


def generate(repo, cfgdir):
    C, files = census(repo, cfgdir)
    fs = sorted(C.funcs)
    ext = sorted({c for f in fs for c in C.funcs[f]['calls']} - set(fs))
    names = fs + ext
    ix = {n: i for i, n in enumerate(names)}
    def ids(xs): return '[' + ', '.join(str(ix[x]) for x in xs) + ']'
    L = ['/- GENERATED by extract/effects.py from %d translation units under src/ — do not edit; regenerated on every check run. -/' % len(files),
         '', 'namespace Gen.Effects', '',
         '/-- every function defined under src/ (ids 0 .. %d), then every external callee -/' % (len(fs) - 1),
         'def names : List String := [' + ', '.join(lean_str(n) for n in names) + ']',
         'def nDefined : Nat := %d' % len(fs), '',
         '/-- file of each defined function -/',
         'def files : List String := [' + ', '.join(lean_str(C.funcs[f]['file']) for f in fs) + ']', '',
         '/-- direct call graph by id: row i = callees of function i; a call through a function pointer other than the allocator hooks is "(indirect)" -/',
         'def calls : List (List Nat) := [' + ',\n  '.join(ids(sorted(C.funcs[f]['calls'])) for f in fs) + ']', '',
         '/-- file-scope variables defined in the library: (name, file, const-qualified?) -/',
         'def globals : List (String × String × Bool) := [' + ', '.join('(%s, %s, %s)' % (lean_str(g), lean_str(v[0]), 'true' if v[1] else 'false') for g, v in sorted(C.globals.items())) + ']', '',
         '/-- (function, global or "function.static-local" it assigns) -/',
         'def globalWrites : List (String × String) := [' + ', '.join('(%s, %s)' % (lean_str(f), lean_str(g)) for f in fs for g in sorted(C.funcs[f]['gwrites'])) + ']', '',
         '/-- (function, static local) -/',
         'def staticLocals : List (String × String) := [' + ', '.join('(%s, %s)' % (lean_str(f), lean_str(g)) for f in fs for g in C.funcs[f]['statics']) + ']', '',
         '/-- (function, function whose address it takes): every mention of a function other than as the callee of a direct call -/',
         'def fnRefs : List (String × String) := [' + ', '.join('(%s, %s)' % (lean_str(f), lean_str(g)) for f in fs for g in sorted(C.funcs[f].get('fnrefs', ()))) + ']', '',
         '/-- ids of functions that store, through a pointer, into an object reached via an item (header, payload, slot array, pair, metadata, chunk bookkeeping) -/',
         'def itemStorers : List Nat := ' + ids([f for f in fs if C.funcs[f]['stores']]), '',
         '/-- the same with the types written, for the reader -/',
         'def itemStores : List (String × String) := [' + ',\n  '.join('(%s, %s)' % (lean_str(f), lean_str(t)) for f in fs for t in sorted(C.funcs[f]['stores'])) + ']', '',
         '/-- allocator call sites: (function, callee, argument texts) -/',
         'def allocSites : List (String × String × List String) := [' + ',\n  '.join('(%s, %s, [%s])' % (lean_str(f), lean_str(c), ', '.join(lean_str(a) for a in args))
                                                                                     for f in fs for c, args in C.funcs[f]['hooks']) + ']', '',
         '/-- `const`-qualified non-pointer locals with an initialiser, declared exactly once (by name) in the function and passed as an argument at one of the allocator call sites above: (function, local, initialiser text) -/',
         'def constLocals : List (String × String × String) := [' + ',\n  '.join('(%s, %s, %s)' % (lean_str(f), lean_str(n), lean_str(t)) for f in fs for n, t in C.funcs[f]['constlocals']) + ']', '',
         '/-- ids of functions all of whose item parameters are `const cbor_item_t *` and which do not return an item: the read-only API surface -/',
         'def constItemApi : List Nat := ' + ids([f for f in fs if readonly_sig(C.funcs[f])]), '',
         'end Gen.Effects', '']
    return '\n'.join(L)


def readonly_sig(info):
    ps = info['params']
    items = [t for _, t in ps if 'cbor_item_t' in t]
    if not items: return False
    if not all(re.match(r'^const (struct )?cbor_item_t \*', t) for t in items): return False
    r = info['returns']
    if re.match(r'^(struct )?cbor_item_t \*$', r.strip()): return False
    return True


if __name__ == '__main__':
    import sys
    print(generate(sys.argv[1] if len(sys.argv) > 1 else '/repo', '/verif/build/cfg-ast'))

#!/usr/bin/env python3
"""c2lean: clang JSON AST (Mini-C subset) -> Lean 4 definitions by symbolic execution.

Every translated C function f becomes, in namespace Gen,

   def f    (args) : Ret     value semantics, total   (return value x final buffer x final out-struct
                                                        x final out-scalars x emitted callback events)
   def f.ok (args) : Bool    conjunction, along the executed path, of every side condition:
                             read/write index inside the array, signed result fits, shift amount in range,
                             narrowing conversion in range, divisor non-zero, callee's .ok, loop fuel sufficed,
                             CBOR_ASSERT conditions.

Scalars  : uintN_t/size_t -> UIntN (wrapping);  int/int8_t -> Int (+ side conditions);  bool -> Bool;
           float/double  -> UInt32/UInt64 bit patterns (moved, punned through same-width unions, isnan, widened with Prelude.f32ToF64,
                            compared with ==/!= as IEEE values C.feq32/64; any other floating operation is Unsupported)
Pointers : const unsigned char* p -> (p : Array UInt8) (p_off : Nat); read  p.getD (off+k) 0 + bounds obligation
           unsigned char* buf     -> (buf : Array UInt8) (buf_off : Nat) threaded; write setIfInBounds + obligation
           struct T* out-param    -> value in, value out;   uintN_t* -> value in, value out
           callbacks->slot(ctx, a..) -> emitted `Event.slot a..` (payload pointers become offsets)
A construct outside the subset raises Unsupported; the caller reports a broken proof obligation.
"""
import json, os, re, sys

sys.path.insert(0, os.path.dirname(os.path.abspath(__file__)))
import cast


class Unsupported(Exception):
    pass


INT_T = {'unsigned char': 'u8', 'unsigned short': 'u16', 'unsigned int': 'u32',
         'unsigned long': 'u64', 'unsigned long long': 'u64', 'int': 'i32',
         'signed char': 'i8', 'char': 'i8', '_Bool': 'bool', 'bool': 'bool', 'float': 'f32', 'double': 'f64',
         'long': 'i64', 'short': 'i16'}
LEAN_T = {'u8': 'UInt8', 'u16': 'UInt16', 'u32': 'UInt32', 'u64': 'UInt64', 'i32': 'Int', 'i8': 'Int', 'i16': 'Int',
          'i64': 'Int', 'bool': 'Bool', 'f32': 'UInt32', 'f64': 'UInt64', 'unit': 'Unit'}
BITS = {'u8': 8, 'u16': 16, 'u32': 32, 'u64': 64, 'i32': 32, 'i8': 8, 'i16': 16, 'i64': 64}
TYPEDEFS = {'size_t': 'unsigned long', 'uint8_t': 'unsigned char', 'uint16_t': 'unsigned short',
            'uint32_t': 'unsigned int', 'uint64_t': 'unsigned long', 'int8_t': 'signed char',
            'cbor_data': 'const unsigned char *', 'cbor_mutable_data': 'unsigned char *',
            'uintmax_t': 'unsigned long'}
ENUM_TYPEDEFS = set()    # typedef names of (anonymous) enums, filled by Translator.index_tu: `typedef enum {..} cbor_int_width;`


def ctype(t):
    q = t.get('desugaredQualType', t.get('qualType')) if isinstance(t, dict) else t
    q = re.sub(r'\b(const|volatile|restrict)\b', '', q).strip()
    q = re.sub(r'\s+', ' ', q)
    q = TYPEDEFS.get(q, q)
    q = re.sub(r'\b(const|volatile|restrict)\b', '', q).strip()
    q = re.sub(r'\s+', ' ', q)
    if q in INT_T: return INT_T[q]
    if q.startswith('enum ') or q in ENUM_TYPEDEFS: return 'u32'  # enums without negative enumerators are unsigned int under clang/gcc
    if q in ('cbor_item_t *', 'struct cbor_item_t *'): return 'sptr:cbor_item_t'
    if q in ('unsigned char *', 'unsigned char *restrict'): return 'ptr'
    m = re.fullmatch(r'(unsigned (?:char|short|int|long)|uint(?:8|16|32|64)_t|size_t) \*', q)
    if m: return 'sref:' + ctype(m.group(1))
    if q.startswith('struct ') and q.endswith('*'): return 'sptr:' + q[7:-1].strip()
    if q.startswith('struct '): return 'struct:' + q[7:].strip()
    if q.startswith('union '): return 'union:' + q[6:].strip()
    if q == 'void *': return 'voidp'
    if q == 'void': return 'unit'
    raise Unsupported('type ' + q)


def float_ptr(tj):
    """'f32' / 'f64' if the C type is `float *` / `double *` (qualifiers ignored), else None.  Such a type is only ever accepted as the
    result of reinterpreting `item->data` (BitCast) or as the type of a local alias of that; it is deliberately not a `ctype`."""
    q = tj.get('desugaredQualType', tj.get('qualType')) if isinstance(tj, dict) else tj
    q = re.sub(r'\s+', ' ', re.sub(r'\b(const|volatile|restrict)\b', '', q or '')).strip()
    return {'float *': 'f32', 'double *': 'f64'}.get(q)


def is_float(t): return t in ('f32', 'f64')
def is_unsigned(t): return t in ('u8', 'u16', 'u32', 'u64')
def is_signed(t): return t in ('i8', 'i16', 'i32', 'i64')


class V:
    """symbolic value: Lean expression text + C type (+ pointer base/offset)"""
    def __init__(self, lean, t, base=None, off=None):
        self.lean, self.t, self.base, self.off = lean, t, base, off


LIT_RE = re.compile(r'\((-?\d+) : (\w+)\)')


def lit(n, t):
    if is_signed(t): return V('(%d : Int)' % n, t)
    if t == 'bool': return V('true' if n else 'false', t)
    return V('(%d : %s)' % (n % (2 ** BITS[t]) if t in BITS else n, LEAN_T[t]), t)


def lit_val(v):
    m = LIT_RE.fullmatch(v.lean)
    return int(m.group(1)) if m else None


def paren(x):
    x = x.strip()
    if re.fullmatch(r'[\w.]+', x) or (x.startswith('(') and x.endswith(')') and balanced(x[1:-1])): return x
    return '(' + x + ')'


def balanced(s):
    d = 0
    for ch in s:
        if ch == '(': d += 1
        elif ch == ')':
            d -= 1
            if d < 0: return False
    return d == 0


def indent(s, n): return '\n'.join(' ' * n + l for l in s.split('\n'))
def lean_struct(n): return 'S_' + n


def proj(r, i, n):
    """i-th component (0-based) of an n-tuple expression r (right-nested pairs)"""
    if n == 1: return r
    return '%s.%s' % (r, '.'.join(['2'] * i + (['1'] if i < n - 1 else [])))


# ------------------------------------------------------------------ symbolic state / trees
class St:
    def __init__(self):
        self.vars, self.structs, self.bufs, self.obl, self.events, self.pending = {}, {}, {}, [], [], []

    def copy(self):
        s = St(); s.vars = dict(self.vars); s.structs = {k: dict(v) for k, v in self.structs.items()}
        s.bufs = dict(self.bufs); s.obl = list(self.obl); s.events = list(self.events); s.pending = []
        return s


class Let:
    def __init__(s, n, e, body): s.n, s.e, s.body = n, e, body
class If:
    def __init__(s, c, a, b): s.c, s.a, s.b = c, a, b
class Leaf:
    def __init__(s, val, ok): s.val, s.ok = val, ok


class Fn:
    def __init__(self, decl):
        self.decl = decl
        self.name = decl['name']
        self.params = [c for c in decl.get('inner', []) if c['kind'] == 'ParmVarDecl']
        self.body = [c for c in decl['inner'] if c['kind'] == 'CompoundStmt'][0]
        self.rett = ctype(decl['type']['qualType'].split('(')[0].strip())
        self.fresh = 0
        self.loops = []
        self.labels = {}
        self.loop_ctx = None

    def gensym(self, base):
        self.fresh += 1
        return '%s_%d' % (re.sub(r'\W', '_', base), self.fresh)


class LoopCtx:
    def __init__(self, carried):
        self.carried = carried
        self.exits = []  # list of ('goto', label) / ('return', stmt) / ('break',)


class Translator:
    def __init__(self):
        self.sigs = {}
        self.structs = {}    # struct name -> [(field, typejson)]
        self.enums = {}      # enumerator -> int
        self.globals_ = {}   # name -> V  (const scalars) or ('table', elem_t, size)
        self.externs = {}    # name -> (ret ctype)
        self.out = []        # Lean text chunks of the current file
        self.log = []
        self.item_fields = None   # flat model of cbor_item_t: [(flat name, ctype, C access path)]  (build_item_model)
        self.item_paths = {}      # C access path (tuple of member names) -> (flat name, ctype, union member or None)
        self.ser_mode = False     # leaf serializers (SER_JOBS): a writable byte pointer next to an item is the OUTPUT buffer (threaded), the item is read-only
        self.assume = []          # stated assumptions of the function being translated (SER_ASSUME): branches pruned under them
        self.assume_hits = {}
        self.fndecls = {}         # every function definition of the indexed TUs (for inlining pointer-returning handle getters)

    # ---------------------------------------------------------------- declarations from a TU
    def index_tu(self, tu):
        fns, cur = {}, None
        for d in tu.get('inner', []):
            k = d.get('kind')
            if k == 'RecordDecl' and d.get('completeDefinition') and d.get('name'):
                self.structs[d['name']] = [(f['name'], f['type']) for f in d.get('inner', []) if f['kind'] == 'FieldDecl']
            elif k == 'EnumDecl':
                v = -1
                for c in d.get('inner', []):
                    if c['kind'] == 'EnumConstantDecl':
                        ins = [x for x in c.get('inner', []) if not x['kind'].endswith('Comment')]
                        v = self.const_int(ins[0]) if ins else v + 1
                        self.enums[c['name']] = v
            elif k == 'TypedefDecl':
                und = d.get('inner', [{}])[0]
                while und.get('kind') == 'ElaboratedType' and und.get('inner'): und = und['inner'][0]
                if und.get('kind') == 'EnumType': ENUM_TYPEDEFS.add(d['name'])
            elif k == 'FunctionDecl' and any(c.get('kind') == 'CompoundStmt' for c in d.get('inner', [])):
                fns[d['name']] = d
            elif k == 'VarDecl' and d.get('inner'):
                self.global_var(d)
        return fns

    def global_var(self, d):
        q = d['type'].get('qualType', '')
        if 'const' not in q: return
        init = [x for x in d['inner'] if not x['kind'].endswith('Attr')]
        if not init: return
        init = init[0]
        try:
            if init['kind'] == 'InitListExpr' and '[' in q:
                vals = [self.const_int(e) for e in init['inner']]
                et = ctype(q[:q.index('[')])
                self.globals_[d['name']] = ('table', et, vals)
            else:
                t = ctype(d['type'])
                if t in BITS: self.globals_[d['name']] = lit(self.const_int(init), t)
        except Unsupported:
            pass

    def const_int(self, e):
        if e['kind'] == 'IntegerLiteral': return int(e['value'])
        if e['kind'] == 'ConstantExpr' and 'value' in e: return int(e['value'])
        if e['kind'] == 'UnaryOperator' and e.get('opcode') == '-': return -self.const_int(e['inner'][0])
        if e['kind'] == 'DeclRefExpr' and e['referencedDecl']['kind'] == 'EnumConstantDecl':
            return self.enums[e['referencedDecl']['name']]
        if e['kind'] in ('ImplicitCastExpr', 'ParenExpr', 'CStyleCastExpr', 'ConstantExpr') and e.get('inner'):
            return self.const_int(e['inner'][0])
        raise Unsupported('const ' + e['kind'])

    # ---------------------------------------------------------------- cbor_item_t as a flat record (ItemRec)
    # union cbor_item_metadata: member -> (prefix of the flat field names, enumerators of cbor_type that select the member).
    # Which tag selects which member is libcbor's representation invariant (every constructor initialises exactly that member
    # together with .type); it is not derivable from a single accessor and is therefore fixed here.
    ITEM_MEMBERS = {
        'int_metadata': ('int', ['CBOR_TYPE_UINT', 'CBOR_TYPE_NEGINT']),
        'bytestring_metadata': ('bs', ['CBOR_TYPE_BYTESTRING']),
        'string_metadata': ('str', ['CBOR_TYPE_STRING']),
        'array_metadata': ('arr', ['CBOR_TYPE_ARRAY']),
        'map_metadata': ('map', ['CBOR_TYPE_MAP']),
        'tag_metadata': ('tag', ['CBOR_TYPE_TAG']),
        'float_ctrl_metadata': ('float', ['CBOR_TYPE_FLOAT_CTRL']),
    }
    ITEM_FLAT_OVERRIDE = {('float_ctrl_metadata', 'ctrl'): 'ctrl', ('string_metadata', 'codepoint_count'): 'str_codepoints',
                          ('tag_metadata', 'tagged_item'): 'tagged_item'}
    ITEM_LEAN_T = dict(LEAN_T, bytes='Array UInt8', handle='Nat')

    def build_item_model(self):
        """flatten `struct cbor_item_t` (as declared in the TU) into the fields of the Lean structure ItemRec"""
        if 'cbor_item_t' not in self.structs: raise Unsupported('struct cbor_item_t is not declared')
        scal, meta, data = [], [], []
        for f, ft in self.structs['cbor_item_t']:
            q = ft.get('qualType', '')
            if f == 'metadata':
                u = ctype(ft)
                if not u.startswith('union:') or u[6:] not in self.structs: raise Unsupported('cbor_item_t.metadata is not a known union')
                for m, mt in self.structs[u[6:]]:
                    if m not in self.ITEM_MEMBERS: continue            # unknown union member: not modelled, any access is Unsupported
                    st_ = ctype(mt)
                    if not st_.startswith('struct:') or st_[7:] not in self.structs: raise Unsupported('union member ' + m)
                    for g, gt in self.structs[st_[7:]]:
                        flat = self.ITEM_FLAT_OVERRIDE.get((m, g), '%s_%s' % (self.ITEM_MEMBERS[m][0], g))
                        try:
                            t = ctype(gt)
                        except Unsupported:
                            continue
                        if t == 'sptr:cbor_item_t': t = 'handle'       # abstract handle; never dereferenced by translated code
                        if t not in self.ITEM_LEAN_T: continue
                        meta.append((flat, t, ('metadata', m, g), m))
            elif f == 'data':
                if ctype(ft) != 'ptr': raise Unsupported('cbor_item_t.data is not unsigned char*')
                data.append((f, 'bytes', (f,), None))
            else:
                t = ctype(ft)
                if t not in BITS: raise Unsupported('cbor_item_t.%s : %s' % (f, q))
                scal.append((f, t, (f,), None))
        scal.sort(key=lambda x: {'type': 0, 'refcount': 1}.get(x[0], 2))
        self.item_fields = scal + meta + data
        names = [x[0] for x in self.item_fields]
        if len(set(names)) != len(names): raise Unsupported('flat item field names collide')
        self.item_paths = {x[2]: (x[0], x[1], x[3]) for x in self.item_fields}
        for m, (_, tags) in self.ITEM_MEMBERS.items():
            for tg in tags:
                if tg not in self.enums: raise Unsupported('enumerator %s is not declared' % tg)

    def item_decl(self):
        """Lean text: structure ItemRec + the union-member selector used by the side condition on writes to `.type`"""
        L = ['/-- `struct cbor_item_t` (src/cbor/data.h) as a flat record.  The members of `union cbor_item_metadata` overlap in C; here every member has',
             'its own fields, and every access to a member carries (in `.ok`) the side condition that `type` selects that member.  `data` is the',
             'byte sequence `item->data` points to (multi-byte integers are stored in host byte order: little-endian). -/',
             'structure ItemRec where']
        for flat, t, path, m in self.item_fields:
            L.append('  %s : %s' % (flat, self.ITEM_LEAN_T[t]))
        L.append('deriving Repr, DecidableEq, Inhabited\n')
        L.append('/-- representative type tag of the union member selected by type tag `t` (two tags select the same member iff `memberOf` agrees) -/')
        e = 't'
        for m, (_, tags) in self.ITEM_MEMBERS.items():
            rep0 = self.enums[tags[0]]
            for tg in tags[1:]:
                e = '(if %s == (%d : UInt32) then (%d : UInt32) else %s)' % ('t', self.enums[tg], rep0, e)
        L.append('def ItemRec.memberOf (t : UInt32) : UInt32 := %s\n' % e)
        L.append('/-- result type of an accessor the translator could NOT translate (construct outside its subset): nothing can be proved about it,')
        L.append('its `.ok` is `false`, and every typing check / theorem / correspondence line that mentions it fails -/')
        L.append('structure Untranslated where\n  why : String\nderiving Repr\n')
        return '\n'.join(L)

    def stub(self, decl, why):
        """placeholder for an accessor that raised Unsupported: same parameters, result `Untranslated`, `.ok = false`"""
        ps = []
        for p_ in decl.get('inner', []):
            if p_['kind'] != 'ParmVarDecl': continue
            t = ctype(p_['type'])
            if t == 'sptr:cbor_item_t': ps.append('(%s : ItemRec)' % p_['name'])
            elif t == 'ptr':
                q = p_['type'].get('qualType', '')
                has_item = any(self.is_item_param(x) for x in decl.get('inner', []) if x['kind'] == 'ParmVarDecl')
                handle = has_item and not ('const' in q or q == 'cbor_data') and not self.ser_mode      # same rule as function1
                ps.append('(%s : Array UInt8)' % p_['name'] if handle else '(%s : Array UInt8) (%s_off : Nat)' % (p_['name'], p_['name']))
            elif t in LEAN_T and t != 'unit': ps.append('(%s : %s)' % (p_['name'], LEAN_T[t]))
            else: raise Unsupported('parameter type ' + t)
        P = ' '.join(ps)
        why = re.sub(r'[^\w .:,>*()/-]', '?', why)
        return ('/-- NOT TRANSLATED — outside the translator\'s subset: %s -/\ndef %s %s : Untranslated := ⟨"%s"⟩\n\ndef %s.ok %s : Bool := false\n'
                % (why, decl['name'], P, why, decl['name'], P))

    def item_path(self, e, st, fn):
        """e: MemberExpr.  If it denotes `p->a.b.c` with p a pointer to cbor_item_t that aliases an item parameter, return
        (item key, path tuple); None if the base is not an item pointer (the caller falls back to the plain struct rules)."""
        names = []; cur = e
        while True:
            if cur['kind'] != 'MemberExpr': return None
            names.append(cur['name']); arrow = cur.get('isArrow'); cur = cur['inner'][0]
            if arrow: break
            while cur['kind'] == 'ParenExpr': cur = cur['inner'][0]
        b = self.strip(cur)
        if b['kind'] == 'DeclRefExpr' and getattr(st.vars.get(b['referencedDecl']['name']), 't', None) == 'ialias':
            # `md->f…` with md a local alias of `item->…member` (see DeclStmt): the lvalue `item->…member.f…`
            av = st.vars[b['referencedDecl']['name']]
            return av.lean, av.base + tuple(reversed(names))
        try:
            if ctype(cur['type']) != 'sptr:cbor_item_t': return None
        except Unsupported:
            return None
        pv = self.expr(cur, st, fn)
        if pv.t != 'sptr:cbor_item_t' or pv.lean not in st.structs or st.structs[pv.lean].get('__type') != '__item':
            raise Unsupported('item pointer that is not a parameter')
        return pv.lean, tuple(reversed(names))

    def member_addr(self, e, st, fn):
        """(item key, path) if e is `&item->a.b` / `&(item->a.b)` (parentheses / qualifier-only casts allowed) with item an item parameter and
        `a.b` a proper prefix of the access path of a modelled field, i.e. a struct-typed member; else None"""
        while e['kind'] == 'ParenExpr' or (e['kind'] in ('ImplicitCastExpr', 'CStyleCastExpr') and e.get('castKind') == 'NoOp'): e = e['inner'][0]
        if e['kind'] != 'UnaryOperator' or e.get('opcode') != '&': return None
        m = e['inner'][0]
        while m['kind'] == 'ParenExpr': m = m['inner'][0]
        if m['kind'] != 'MemberExpr': return None
        ip = self.item_path(m, st, fn)
        if ip is None: return None
        key, path = ip
        if not any(len(q) > len(path) and q[:len(path)] == path for q in self.item_paths): return None
        return key, path

    def item_field(self, key, path, st, write):
        """flat field of an access path + the side condition that the type tag selects the union member accessed"""
        if path not in self.item_paths: raise Unsupported('access to item member ' + '.'.join(path))
        flat, t, member = self.item_paths[path]
        if t == 'handle': raise Unsupported('access to item pointer member ' + '.'.join(path))
        if member is not None:
            ty = st.structs[key]['type'].lean
            tags = [self.enums[x] for x in self.ITEM_MEMBERS[member][1]]
            c = ' || '.join('%s == (%d : UInt32)' % (ty, v) for v in tags)
            st.obl.append('(%s)' % c)
        return flat, t

    def item_read(self, key, path, st):
        if path == ('data',):
            v = V(key, 'ptr', base=None, off='0'); v.item = key
            return v
        flat, t = self.item_field(key, path, st, False)
        return st.structs[key][flat]

    def item_write(self, key, path, v, st, fn):
        if path == ('data',):
            # `item->data = p`: only for p a byte-pointer *parameter* of this function, unmodified (offset 0).  From here on `data` of the
            # record is the byte sequence p points to.  Value semantics stays exact because neither name can be stored through afterwards:
            # p is not a store buffer (`store through read-only pointer`), and stores through item->data are refused below (set_bytes).
            if v.t != 'ptr' or getattr(v, 'handle', None) is None or v.off != '0':
                raise Unsupported('store to item->data of anything but a byte-pointer parameter')
            st.structs[key]['data'] = V(v.handle, 'bytes'); st.structs[key]['__alias'] = V(v.handle, 'alias')
            fn.stored.add(key); return
        flat, t = self.item_field(key, path, st, True)
        v = self.conv(v, t, st)
        if path == ('type',):
            # changing the tag to one that selects another union member would make that member's (stale, in C: overlapping)
            # fields readable: demand that old and new tag select the same member
            st.obl.append('(ItemRec.memberOf %s == ItemRec.memberOf %s)' % (v.lean, st.structs[key]['type'].lean))
        nn = fn.gensym(key + '_' + flat); st.pending.append((nn, v.lean))
        st.structs[key][flat] = V(nn, t)
        fn.stored.add(key)

    def item_lit(self, key, st):
        s_ = st.structs[key]; base = s_['__base'].lean
        ch = ['%s := %s' % (flat, s_[flat].lean) for flat, t, _, _ in self.item_fields if s_[flat].lean != '%s.%s' % (base, flat)]
        if not ch: return base
        return '{ %s with %s }' % (base, ', '.join(ch))

    WIDE = {'u16': 2, 'u32': 4, 'u64': 8, 'f32': 4, 'f64': 8}    # f32 / f64: the IEEE-754 bit pattern is what is loaded / stored

    def wide_read(self, p, st):
        """`*(uintN_t*)q` with q a byte pointer: the N/8 bytes at q, assembled in host (little-endian) order"""
        t = p.t[5:]; n = self.WIDE[t]
        arr = self.bytes_of(p, st)
        st.obl.append(self.wide_bound(p, n, arr))
        return V('(C.loadLE%d %s %s)' % (8 * n, arr, paren(p.off)), t)

    def wide_store(self, p, v, st, fn):
        t = p.t[5:]; n = self.WIDE[t]
        v = self.conv(v, t, st)
        arr = self.bytes_of(p, st)
        st.obl.append(self.wide_bound(p, n, arr))
        self.set_bytes(p, '(C.storeLE%d %s %s %s)' % (8 * n, arr, paren(p.off), v.lean), st, fn)

    def wide_bound(self, p, n, arr):
        # only `item->data` itself (offset 0) is known to be suitably aligned for uint64_t: the constructors let it point just behind the
        # malloc'ed item header; a fixed-width access through any other byte pointer is outside the subset
        if getattr(p, 'item', None) is None or p.off != '0':
            raise Unsupported('fixed-width access through a reinterpreted byte pointer other than item->data (alignment unknown)')
        return 'decide (%d ≤ %s.size)' % (n, arr)

    def bytes_of(self, p, st):
        if getattr(p, 'item', None) is not None: return st.structs[p.item]['data'].lean
        return st.bufs.get(p.base, p.base)

    def set_bytes(self, p, e, st, fn):
        if getattr(p, 'item', None) is not None:
            if '__alias' in st.structs[p.item]:
                raise Unsupported('store through item->data after it was set to a pointer parameter (the two names alias)')
            nn = fn.gensym(p.item + '_data'); st.pending.append((nn, e))
            st.structs[p.item]['data'] = V(nn, 'bytes'); fn.stored.add(p.item); return
        if p.base not in st.bufs: raise Unsupported('store through read-only pointer')
        nb = fn.gensym(p.base); st.pending.append((nb, e)); st.bufs[p.base] = nb

    # ---------------------------------------------------------------- conversions
    def conv(self, v, to, st):
        f = v.t
        if f == to: return v
        if 'ialias' in (f, to): raise Unsupported('use of a member-alias pointer other than p->member')
        L = v.lean
        if to in ('bool', 'i32b') and getattr(v, 'boolsrc', None) is not None:
            return V(v.boolsrc, to)
        if f == 'i32b':
            if to == 'bool': return V(L, 'bool')
            r = self.conv(V('(if %s then (1 : Int) else (0 : Int))' % L, 'i32'), to, st)
            if to == 'i32': r.boolsrc = L
            return r
        if to == 'i32b':
            return V(self.conv(v, 'bool', st).lean, 'i32b')
        if f == 'f32' and to == 'f64':
            # C11 6.3.1.5p1: float -> double is value preserving; on bit patterns: Prelude.f32ToF64 (NaN: what x86-64 cvtss2sd produces)
            return V('(Prelude.f32ToF64 %s)' % L, 'f64')
        if f in ('f32', 'f64') or to in ('f32', 'f64'):
            raise Unsupported('floating conversion %s -> %s' % (f, to))
        n = lit_val(v)
        if n is not None and to != 'bool' and f != 'bool':
            if is_unsigned(to): return lit(n % (2 ** BITS[to]), to)
            if is_signed(to) and -(2 ** (BITS[to] - 1)) <= n < 2 ** (BITS[to] - 1): return lit(n, to)
        if to == 'bool':
            if n is not None: return V('true' if n != 0 else 'false', 'bool')
            if is_signed(f): return V('(%s != (0 : Int))' % L, 'bool')
            return V('(%s != (0 : %s))' % (L, LEAN_T[f]), 'bool')
        if f == 'bool':
            if is_signed(to):
                r = V('(if %s then (1 : Int) else (0 : Int))' % L, to); r.boolsrc = L
                return r
            return V('(if %s then (1 : %s) else (0 : %s))' % (L, LEAN_T[to], LEAN_T[to]), to)
        if is_unsigned(f) and is_unsigned(to):
            return V('%s.to%s' % (paren(L), LEAN_T[to]), to)
        if is_unsigned(f) and is_signed(to):
            if BITS[f] < BITS[to]:
                return V('(%s.toNat : Int)' % paren(L), to)
            st.obl.append('decide ((%s.toNat : Int) < %d)' % (paren(L), 2 ** (BITS[to] - 1)))
            return V('(C.wrapS %d (%s.toNat : Int))' % (BITS[to], paren(L)), to)
        if is_signed(f) and is_unsigned(to):
            return V('(C.toU%d %s)' % (BITS[to], L), to)   # well defined: modulo 2^N
        if is_signed(f) and is_signed(to):
            if BITS[f] <= BITS[to]: return V(L, to)
            st.obl.append('C.fitsS %d %s' % (BITS[to], L))  # narrowing: implementation-defined when out of range
            return V('(C.wrapS %d %s)' % (BITS[to], L), to)
        raise Unsupported('conv %s -> %s' % (f, to))

    # ---------------------------------------------------------------- expressions
    def strip_all(self, e):
        while e['kind'] in ('ParenExpr', 'ImplicitCastExpr', 'ConstantExpr') and e.get('inner'):
            if e['kind'] == 'ImplicitCastExpr' and e.get('castKind') not in ('LValueToRValue', 'NoOp', 'IntegralCast'): break
            if e['kind'] == 'ImplicitCastExpr' and e.get('castKind') == 'IntegralCast' and \
                    ctype(e['type']) != ctype(e['inner'][0]['type']): break
            e = e['inner'][0]
        return e

    def has_call(self, e):
        if not isinstance(e, dict): return False
        if e.get('kind') == 'CallExpr': return True
        return any(self.has_call(c) for c in e.get('inner', []))

    def strip(self, e):
        while e['kind'] in ('ParenExpr', 'ImplicitCastExpr') and e.get('castKind', 'NoOp') in ('LValueToRValue', 'NoOp'):
            e = e['inner'][0]
        return e

    def expr(self, e, st, fn):
        k = e['kind']
        if k in ('ParenExpr', 'ConstantExpr'):
            return self.expr(e['inner'][0], st, fn)
        if k == 'IntegerLiteral':
            return lit(int(e['value']), ctype(e['type']))
        if k == 'CXXBoolLiteralExpr':
            return V('true' if e['value'] else 'false', 'bool')
        if k in ('ImplicitCastExpr', 'CStyleCastExpr'):
            ck = e['castKind']; sub = e['inner'][0]
            if ck in ('LValueToRValue', 'NoOp', 'FunctionToPointerDecay', 'BuiltinFnToFnPtr', 'ArrayToPointerDecay'):
                return self.expr(sub, st, fn)
            if ck in ('IntegralCast', 'IntegralToBoolean', 'BooleanToSignedIntegral'):
                return self.conv(self.expr(sub, st, fn), ctype(e['type']), st)
            if ck == 'BitCast':
                v = self.expr(sub, st, fn)
                if v.t in ('ptr',) or v.t.startswith('wptr:'):
                    # reinterpretation of a byte pointer: only to another byte pointer (no change) or to uint16/32/64_t*
                    # (fixed-width access in host byte order, see wide_read / wide_store); anything else is outside the subset
                    try:
                        tt = ctype(e['type'])
                    except Unsupported:
                        tt = None
                    if tt == 'ptr' or tt == 'voidp':
                        if v.t != 'ptr': raise Unsupported('cast of a wide pointer back to a byte pointer')
                        return v
                    wt = tt[5:] if tt is not None and tt.startswith('sref:') else float_ptr(e['type'])
                    if wt in self.WIDE and v.t == 'ptr':
                        w = V(v.lean, 'wptr:' + wt, base=v.base, off=v.off)
                        if getattr(v, 'item', None) is not None: w.item = v.item
                        return w
                    raise Unsupported('pointer cast to ' + e['type'].get('qualType', '?'))
                return v
            if ck == 'FloatingCast':
                return self.conv(self.expr(sub, st, fn), ctype(e['type']), st)     # float -> double only (conv); narrowing is Unsupported
            if ck == 'IntegralToFloating':
                # only integer *constants* that the target type represents exactly (|n| < 2^24 / 2^53): the bit pattern is computed here
                lit_e = sub
                while lit_e['kind'] == 'ParenExpr': lit_e = lit_e['inner'][0]
                neg = lit_e['kind'] == 'UnaryOperator' and lit_e.get('opcode') == '-'
                if neg: lit_e = lit_e['inner'][0]
                if lit_e['kind'] != 'IntegerLiteral': raise Unsupported('conversion of a non-literal integer to a floating type')
                n = -int(lit_e['value']) if neg else int(lit_e['value'])
                t = ctype(e['type'])
                if t not in ('f32', 'f64') or abs(n) >= (2 ** 24 if t == 'f32' else 2 ** 53):
                    raise Unsupported('integer constant %d to %s' % (n, t))
                import struct
                bits = struct.unpack('<I', struct.pack('<f', float(n)))[0] if t == 'f32' else struct.unpack('<Q', struct.pack('<d', float(n)))[0]
                return lit(bits, t)
            if ck == 'ToVoid':
                self.expr(sub, st, fn); return V('()', 'unit')
            raise Unsupported('cast ' + ck)
        if k == 'DeclRefExpr':
            r = e['referencedDecl']
            if r['kind'] == 'EnumConstantDecl':
                return lit(self.enums[r['name']], 'i32')
            n = r['name']
            if n == '_cbor_enable_assert': return V('true', 'bool')
            if n in st.vars: return st.vars[n]
            if n in st.structs: return V(self.struct_lit(n, st), 'struct:' + st.structs[n]['__type'])
            if r['kind'] == 'FunctionDecl': return V(n, 'fn')
            if n in self.globals_:
                g = self.globals_[n]
                if isinstance(g, tuple): return V(n, 'table', base=g[1], off=len(g[2]))
                return g
            raise Unsupported('ref ' + n)
        if k == 'MemberExpr':
            ip = self.item_path(e, st, fn)
            if ip is not None: return self.item_read(ip[0], ip[1], st)
            b = self.strip(e['inner'][0])
            if b['kind'] == 'DeclRefExpr':
                bn = b['referencedDecl']['name']
                if bn in st.structs: return st.structs[bn][e['name']]
                bv = st.vars.get(bn)
                if bv is not None and bv.t.startswith('sptr:') and bv.lean in st.structs:
                    return st.structs[bv.lean][e['name']]
                if bv is not None and bv.t == 'unionval':
                    return V(bv.lean, ctype(e['type']))
                if bv is not None and bv.t == 'callbacks':
                    return V(e['name'], 'callback')
            if b['kind'] == 'CompoundLiteralExpr' and ctype(b['type']).startswith('union:'):
                init = b['inner'][0]['inner'][0]      # ((union H){.as_float = v}).as_uint : identity on bit patterns
                v = self.expr(init, st, fn)
                return V(v.lean, ctype(e['type']))
            raise Unsupported('member access ' + e.get('name', '?'))
        if k == 'UnaryOperator':
            op = e['opcode']; sub = e['inner'][0]
            if op == '*':
                p = self.expr(sub, st, fn)
                if p.t.startswith('sref:'): return st.vars[p.lean]
                if p.t.startswith('wptr:'): return self.wide_read(p, st)
                if p.t == 'tableelt':
                    # `*(T + i)` on a constant table T is, by definition of the subscript operator (C11 6.5.2.1p2: "E1[E2] is
                    # identical to (*((E1)+(E2)))"), the same expression as `T[i]`: emit exactly what ArraySubscriptExpr emits
                    # (same element, same in-range obligation).  Purely syntactic; `tableelt` values can only be dereferenced.
                    tbl, i = p.base, p.off
                    idx = self.nat_of(i, st)
                    st.obl.append('decide (%s < %d)' % (idx, tbl.off))
                    return V('(%s %s)' % (tbl.lean, paren(idx)), tbl.base)
                return self.read(p, st)
            if op == '&':
                s = self.strip(sub)
                if s['kind'] == 'DeclRefExpr':
                    n = s['referencedDecl']['name']
                    if n in st.structs: return V(n, 'sptr:local')
                    if n in st.vars and st.vars[n].t in BITS: return V(n, 'addr:' + st.vars[n].t)
                if s['kind'] == 'ArraySubscriptExpr':
                    # `&E1[E2]` is `E1 + E2` (C11 6.5.3.2p3: neither `&` nor the implied `*` is evaluated): the pointer, no access, no obligation
                    p = self.expr(s['inner'][0], st, fn); i = self.expr(s['inner'][1], st, fn)
                    if p.t == 'ptr': return self.padd(p, i, st)
                raise Unsupported('address-of')
            if op == '-':
                v = self.expr(sub, st, fn)
                if is_float(v.t): raise Unsupported('floating-point negation')
                if is_signed(v.t):
                    n = lit_val(v)
                    if n is not None: return lit(-n, v.t)
                    st.obl.append('C.fitsS %d (-%s)' % (BITS[v.t], v.lean))
                    return V('(-%s)' % v.lean, v.t)
                return V('((0 : %s) - %s)' % (LEAN_T[v.t], v.lean), v.t)
            if op == '!':
                sv = self.expr(sub, st, fn)
                if getattr(sv, 'cmp', None) is not None:
                    # `!(a < b)` ==> `a >= b` etc.: the integers of one C type are totally ordered, so the negation of a
                    # comparison is the complementary comparison of the same (already evaluated, side-effect-free) operand values
                    cop, ca, cb = sv.cmp
                    return self.compare(self.NEGATED[cop], ca, cb)
                v = self.conv(sv, 'bool', st)
                if v.lean in ('true', 'false'): return V('false' if v.lean == 'true' else 'true', 'i32b')
                return V('(!%s)' % v.lean, 'i32b')
            if op == '~':
                v = self.expr(sub, st, fn)
                if is_unsigned(v.t): return V('(~~~%s)' % v.lean, v.t)
            if op in ('++', '--'):
                # value of x++ / ++x used as an expression
                cur = self.expr(sub, st, fn)
                if is_float(cur.t): raise Unsupported('floating-point increment / decrement')
                one = lit(1, cur.t)
                o = '+' if op == '++' else '-'
                if is_signed(cur.t): st.obl.append('C.fitsS %d (%s %s 1)' % (BITS[cur.t], cur.lean, o))
                newv = V('(%s %s %s)' % (cur.lean, o, one.lean), cur.t)
                self.assign(sub, newv, st, fn)
                return cur if e.get('isPostfix') else self.expr(sub, st, fn)
            raise Unsupported('unary ' + op)
        if k == 'BinaryOperator':
            if e['opcode'] == '=':
                v = self.expr(e['inner'][1], st, fn); self.assign(e['inner'][0], v, st, fn)
                return v
            return self.binop(e, st, fn)
        if k == 'ConditionalOperator':
            c = self.cond(e['inner'][0], st, fn)
            n0 = len(st.obl)
            snap = (dict(st.bufs), len(st.events), {k2: dict(v2) for k2, v2 in st.structs.items()}, dict(st.vars))
            a = self.expr(e['inner'][1], st, fn)
            n1 = len(st.obl)
            b = self.expr(e['inner'][2], st, fn)
            if st.bufs != snap[0] or len(st.events) != snap[1] or any(st.vars[k2].lean != v2.lean for k2, v2 in snap[3].items()) or \
                    any(st.structs[k2][f].lean != v2[f].lean for k2, v2 in snap[2].items() for f in v2 if f != '__type'):
                raise Unsupported('conditional expression whose branches have side effects')
            st.obl[n1:] = ['(%s || %s)' % (c, o) for o in st.obl[n1:]]
            st.obl[n0:n1] = ['(!%s || %s)' % (c, o) for o in st.obl[n0:n1]]
            t = ctype(e['type'])
            if t in BITS or t == 'bool':
                a = self.conv(a, t, st); b = self.conv(b, t, st)
            return V('(if %s then %s else %s)' % (c, a.lean, b.lean), a.t)
        if k == 'ArraySubscriptExpr':
            p = self.expr(e['inner'][0], st, fn); i = self.expr(e['inner'][1], st, fn)
            if p.t == 'table':
                idx = self.nat_of(i, st)
                st.obl.append('decide (%s < %d)' % (idx, p.off))
                return V('(%s %s)' % (p.lean, paren(idx)), p.base)
            return self.read(self.padd(p, i, st), st)
        if k == 'UnaryExprOrTypeTraitExpr' and e.get('name') == 'sizeof':
            q = e.get('argType', {}).get('qualType')
            sz = {'size_t': 8, 'uint64_t': 8, 'uint32_t': 4, 'uint16_t': 2, 'uint8_t': 1}.get(q)
            if sz is None:
                # `sizeof(T)` / `sizeof expr` for any other scalar type of the model (float = 4, double = 8, the integer types = BITS / 8: the
                # widths this model assumes throughout); the operand of `sizeof expr` is not evaluated (C11 6.5.3.4p2; no VLAs in the subset)
                try:
                    tj = e['argType'] if 'argType' in e else e['inner'][0]['type']
                    st_ = ctype(tj)
                except (Unsupported, KeyError, IndexError):
                    st_ = None
                sz = self.WIDE.get(st_) or (BITS[st_] // 8 if st_ in BITS else None)
            if sz is None: raise Unsupported('sizeof ' + str(q))
            return lit(sz, 'u64')
        if k == 'CallExpr':
            return self.call(e, st, fn)
        if k == 'CompoundLiteralExpr' and ctype(e['type']).startswith('struct:'):
            sname = ctype(e['type'])[7:]
            vals = self.init_struct(sname, e['inner'][0], st, fn)
            return V('{ %s : %s }' % (', '.join('%s := %s' % (f, vals[f].lean) for f, _ in self.structs[sname]),
                                     lean_struct(sname)), 'struct:' + sname, base=vals)
        raise Unsupported('expr ' + k)

    def nat_of(self, i, st):
        n = lit_val(i)
        if n is not None:
            if n < 0: raise Unsupported('negative index')
            return str(n)
        if is_unsigned(i.t): return '%s.toNat' % paren(i.lean)
        if is_signed(i.t):
            st.obl.append('decide (0 ≤ %s)' % i.lean)
            return '%s.toNat' % paren(i.lean)
        raise Unsupported('index type ' + i.t)

    def padd(self, p, i, st):
        if p.t != 'ptr': raise Unsupported('pointer arithmetic on ' + p.t)
        idx = self.nat_of(i, st)
        if idx == '0': return p
        if getattr(p, 'item', None) is not None: raise Unsupported('pointer arithmetic on item->data')
        return V(p.lean, 'ptr', base=p.base, off='(%s + %s)' % (p.off, idx) if p.off != '0' else idx)

    def read(self, p, st):
        if p.t != 'ptr': raise Unsupported('dereference of ' + p.t)
        cur = self.bytes_of(p, st)
        st.obl.append('decide (%s < %s.size)' % (p.off, cur))
        return V('(%s.getD %s 0)' % (cur, paren(p.off)), 'u8')

    def cond(self, e, st, fn):
        v = self.expr(e, st, fn)
        if v.t in ('bool', 'i32b'): return v.lean
        return self.conv(v, 'bool', st).lean

    NEGATED = {'==': '!=', '!=': '==', '<': '>=', '>=': '<', '>': '<=', '<=': '>'}

    def compare(self, op, a, b):
        """comparison of two integer values of the same C type, in canonical spelling.  The result remembers (op, a, b) so that
        a logical negation applied to it can be pushed inside (see unary `!`)."""
        if a.t != b.t: raise Unsupported('comparison of %s with %s' % (a.t, b.t))
        r = self.compare0(op, a, b)
        r.cmp = (op, a, b)
        return r

    def compare0(self, op, a, b):
        if op in ('==', '!=') and getattr(a, 'boolsrc', None) is not None and lit_val(b) == 0:
            return V(a.boolsrc if op == '!=' else '(!%s)' % a.boolsrc, 'i32b')
        if op in ('==', '!='): return V('(%s %s %s)' % (a.lean, op, b.lean), 'i32b')
        # canonical spelling of comparisons against a literal, so that equivalent rewrites of the source (`x < 24` for
        # `x <= 23`, `n > 0` / `n >= 1` for `n != 0` on unsigned operands, `x > 8` for `x >= 9`) regenerate the identical model.
        # Each rule is an equivalence of integer comparisons that holds for every value of the operand type:
        #   x <  k  <=>  x <= k-1   (k-1 representable: k >= 1 for unsigned, k-1 >= INT_MIN for signed)
        #   x >  k  <=>  x >= k+1   (k+1 representable)
        #   unsigned only:  x > 0 <=> x >= 1 <=> x != 0 ;   x < 1 <=> x <= 0 <=> x == 0
        lb = lit_val(b)
        if lb is not None and is_unsigned(a.t) and lit_val(a) is None:
            if op == '<' and lb >= 1: op, b = '<=', lit(lb - 1, a.t)
            elif op == '>' and lb + 1 < 2 ** BITS[a.t]: op, b = '>=', lit(lb + 1, a.t)
            lb = lit_val(b)
            if op == '>=' and lb == 1: return V('(%s != %s)' % (a.lean, lit(0, a.t).lean), 'i32b')
            if op == '<=' and lb == 0: return V('(%s == %s)' % (a.lean, b.lean), 'i32b')
        elif lb is not None and is_signed(a.t) and lit_val(a) is None:
            if op == '<' and lb - 1 >= -(2 ** (BITS[a.t] - 1)): op, b = '<=', lit(lb - 1, a.t)
            elif op == '>' and lb + 1 < 2 ** (BITS[a.t] - 1): op, b = '>=', lit(lb + 1, a.t)
        return V('(decide (%s %s %s))' % (a.lean, op, b.lean), 'i32b')

    def binop(self, e, st, fn):
        op = e['opcode']
        if op == ',': raise Unsupported('comma operator')
        if op in ('&&', '||'):
            a = self.cond(e['inner'][0], st, fn)
            n0 = len(st.obl)
            snap = (dict(st.bufs), len(st.events), {k2: dict(v2) for k2, v2 in st.structs.items()}, dict(st.vars))
            b = self.cond(e['inner'][1], st, fn)
            if a not in ('true', 'false'):
                # the right operand is evaluated only for some values of the left one: a store in it is conditional.  Stores into an
                # item record are merged (`if <rhs evaluated> then <record after> else <record before>`); any other effect is outside the subset
                changed = [k2 for k2, v2 in snap[2].items() if any(st.structs[k2][f].lean != v2[f].lean for f in v2 if f != '__type')]
                if st.bufs != snap[0] or len(st.events) != snap[1] or any(st.vars[k2].lean != v2.lean for k2, v2 in snap[3].items()) or \
                        any(snap[2][k2]['__type'] != '__item' for k2 in changed):
                    raise Unsupported('short-circuit operand with side effects')
                for k2 in changed:
                    before = St(); before.structs = {k2: snap[2][k2]}
                    old_lit = self.item_lit(k2, before); new_lit = self.item_lit(k2, st)
                    nn = fn.gensym(k2)
                    st.pending.append((nn, 'if %s then %s else %s' % (a if op == '&&' else '(!%s)' % a, new_lit, old_lit)))
                    st.structs[k2]['__base'] = V(nn, 'rec')
                    for flat, t, _, _ in self.item_fields: st.structs[k2][flat] = V('%s.%s' % (nn, flat), t)
            if (op == '&&' and a == 'true') or (op == '||' and a == 'false'):
                return V(b, 'i32b')          # rhs always evaluated: its obligations stay unguarded
            if (op == '&&' and a == 'false') or (op == '||' and a == 'true'):
                del st.obl[n0:]; return V(a, 'i32b')
            guard = ('(!%s)' % a) if op == '&&' else a      # rhs evaluated iff a (&&) / !a (||)
            st.obl[n0:] = ['(%s || %s)' % (guard, o) for o in st.obl[n0:]]
            return V('(%s %s %s)' % (a, op, b), 'i32b')
        a = self.expr(e['inner'][0], st, fn); b = self.expr(e['inner'][1], st, fn)
        if a.t == 'i32b': a = self.conv(a, 'i32', st)
        if b.t == 'i32b': b = self.conv(b, 'i32', st)
        if a.t == 'bool': a = self.conv(a, 'i32', st)
        if b.t == 'bool': b = self.conv(b, 'i32', st)
        if is_float(a.t) or is_float(b.t):
            # values of floating type are bit patterns here: no arithmetic, no ordering.  `==` / `!=` of two values of the same type is the
            # IEEE-754 comparison, exact on bit patterns: a NaN is unequal to everything (itself included), +0 equals -0 (C.feq32 / C.feq64)
            if op in ('==', '!=') and a.t == b.t:
                r = '(C.feq%s %s %s)' % (a.t[1:], a.lean, b.lean)
                return V(r if op == '==' else '(!%s)' % r, 'i32b')
            raise Unsupported('floating-point operation %s' % op)
        if a.t == 'ptr' and op == '+': return self.padd(a, b, st)
        if a.t == 'table' and op == '+' and (is_unsigned(b.t) or is_signed(b.t)):
            return V(a.lean, 'tableelt', base=a, off=b)      # address of element b of a constant table; see unary `*`
        if op in ('==', '!=', '<', '>', '<=', '>='):
            return self.compare(op, a, b)
        t = ctype(e['type'])
        if op in ('<<', '>>'):
            amt_lit = lit_val(b)
            if is_unsigned(a.t):
                w = BITS[a.t]
                if amt_lit is not None:
                    if not (0 <= amt_lit < w): raise Unsupported('constant shift amount out of range')
                    if lit_val(a) is not None:
                        # both operands literal: evaluate, as for `+ - * & | ^` on literals below (unsigned `<<` is modulo 2^w,
                        # `lit` reduces; the amount was just checked to be < w), so `sizeof(size_t) << 3` and `sizeof(size_t) * 8` agree
                        return lit((lit_val(a) << amt_lit) if op == '<<' else (lit_val(a) >> amt_lit), a.t)
                    amt = '(%d : %s)' % (amt_lit, LEAN_T[a.t])
                else:
                    n = self.nat_of(b, st)
                    st.obl.append('decide (%s < %d)' % (n, w))
                    amt = '(%s.ofNat (%s))' % (LEAN_T[a.t], n)
                return V('(%s %s %s)' % (a.lean, '<<<' if op == '<<' else '>>>', amt), a.t)
            if is_signed(a.t):
                w = BITS[a.t]
                if amt_lit is not None:
                    if not (0 <= amt_lit < w): raise Unsupported('constant shift amount out of range')
                    amt = str(amt_lit)
                else:
                    amt = self.nat_of(b, st)
                    st.obl.append('decide (%s < %d)' % (amt, w))
                la = lit_val(a)
                if la is None: st.obl.append('decide (0 ≤ %s)' % a.lean)
                elif la < 0: raise Unsupported('shift of negative constant')
                if op == '<<':
                    if la is not None and amt_lit is not None:
                        r = la << amt_lit
                        if r >= 2 ** (w - 1): raise Unsupported('constant shift overflows int')
                        return lit(r, a.t)
                    r = '(%s * 2 ^ %s)' % (a.lean, paren(amt))
                    st.obl.append('C.fitsS %d %s' % (w, r))
                    return V(r, a.t)
                return V('(%s / 2 ^ %s)' % (a.lean, paren(amt)), a.t)
            raise Unsupported('shift on ' + a.t)
        if a.t != b.t: raise Unsupported('arithmetic on %s and %s (%s)' % (a.t, b.t, op))
        if is_unsigned(t):
            lop = {'+': '+', '-': '-', '*': '*', '/': '/', '%': '%', '&': '&&&', '|': '|||', '^': '^^^'}[op]
            la, lb = lit_val(a), lit_val(b)
            if la is not None and lb is not None and op in ('+', '-', '*', '&', '|', '^'):
                return lit({'+': la + lb, '-': la - lb, '*': la * lb, '&': la & lb, '|': la | lb, '^': la ^ lb}[op], t)
            if op in ('/', '%'): st.obl.append('(%s != (0 : %s))' % (b.lean, LEAN_T[t]))
            return V('(%s %s %s)' % (a.lean, lop, b.lean), t)
        if is_signed(t):
            la, lb = lit_val(a), lit_val(b)
            if op in ('+', '-', '*'):
                if la is not None and lb is not None:
                    r = {'+': la + lb, '-': la - lb, '*': la * lb}[op]
                    if -(2 ** (BITS[t] - 1)) <= r < 2 ** (BITS[t] - 1): return lit(r, t)
                r = '(%s %s %s)' % (a.lean, op, b.lean)
                st.obl.append('C.fitsS %d %s' % (BITS[t], r)); return V(r, t)
            if op in ('&', '|', '^'):
                if la is None: st.obl.append('decide (0 ≤ %s)' % a.lean)
                if lb is None: st.obl.append('decide (0 ≤ %s)' % b.lean)
                lop = {'&': '&&&', '|': '|||', '^': '^^^'}[op]
                return V('((%s.toNat %s %s.toNat : Nat) : Int)' % (paren(a.lean), lop, paren(b.lean)), t)
            if op in ('/', '%'):
                st.obl.append('(%s != (0 : Int))' % b.lean)
                st.obl.append('decide (0 ≤ %s ∧ 0 < %s)' % (a.lean, b.lean))  # keep to the T-division = E-division fragment
                return V('(%s %s %s)' % (a.lean, op, b.lean), t)
        raise Unsupported('binary %s on %s' % (op, t))

    # ---------------------------------------------------------------- calls
    def call(self, e, st, fn):
        callee = self.expr(e['inner'][0], st, fn)
        args = e['inner'][1:]
        if callee.t == 'callback':
            avs = []
            for a in args[1:]:
                v = self.expr(a, st, fn)
                avs.append(v.off if v.t == 'ptr' else v.lean)
            st.events.append('(Event.%s %s)' % (callee.lean, ' '.join(paren(x) for x in avs)) if avs
                             else 'Event.%s' % callee.lean)
            return V('()', 'unit')
        name = callee.lean
        if name in ('__builtin_isnan', 'isnan', '__builtin_isnanf', '__isnanf', '__isnan'):
            v = self.expr(args[0], st, fn)
            if v.t not in ('f32', 'f64'): raise Unsupported('isnan on ' + v.t)
            return V('(C.isNaN%s %s)' % ('32' if v.t == 'f32' else '64', v.lean), 'i32b')
        if name in ('__builtin_nanf', '__builtin_nan'):
            # the macro NAN: `__builtin_nanf("")` — the positive quiet NaN with empty payload (clang folds it to this constant)
            a0 = args[0]
            while a0['kind'] in ('ImplicitCastExpr', 'ParenExpr') and a0.get('inner'): a0 = a0['inner'][0]
            if a0['kind'] != 'StringLiteral' or a0.get('value') != '""': raise Unsupported('NaN with a payload string')
            return lit(0x7FC00000, 'f32') if name == '__builtin_nanf' else lit(0x7FF8000000000000, 'f64')
        if name == '__verif_assert':
            c = self.cond(args[0], st, fn); st.obl.append(c); return V('()', 'unit')
        if name == '__builtin_unreachable':
            st.obl.append('false'); return V('()', 'unit')
        if name == 'memcpy' and name not in self.sigs:
            return self.memcpy(args, st, fn)
        if name not in self.sigs and name not in self.externs and name in self.fndecls and self.ser_mode:
            return self.inline_handle(self.fndecls[name], args, st, fn)
        if name in self.externs:
            avs = []
            for a in args:
                v = self.expr(a, st, fn)
                if getattr(v, 'item', None) is not None or v.t.startswith(('wptr:', 'sptr:')): raise Unsupported('item passed to external function')
                avs += [st.bufs.get(v.base, v.base), v.off] if v.t == 'ptr' else [v.lean]
            st.obl.append('(Ext.%s.ok %s)' % (name, ' '.join(paren(x) for x in avs)))
            return V('(Ext.%s %s)' % (name, ' '.join(paren(x) for x in avs)), self.externs[name])
        if name not in self.sigs: raise Unsupported('call to untranslated function ' + name)
        sig = self.sigs[name]
        args = [a for i, a in enumerate(args) if i not in sig['skipidx']]
        largs = []; post = []
        for a, (pn, pt) in zip(args, sig['params']):
            v = self.expr(a, st, fn)
            if pt == 'ptr':
                if v.t != 'ptr' or getattr(v, 'item', None) is not None: raise Unsupported('pointer argument')
                largs.append(st.bufs.get(v.base, v.base)); largs.append(v.off)
                if sig['bufparam'] == pn: post.append(('buf', v.base))
            elif pt == 'hptr':
                raise Unsupported('call of a function whose byte-pointer parameter becomes item->data')
            elif pt == 'item':
                if v.t != 'sptr:cbor_item_t' or v.lean not in st.structs or st.structs[v.lean].get('__type') != '__item':
                    raise Unsupported('item argument that is not an item parameter')
                largs.append(self.item_lit(v.lean, st))
                if pn in sig['stored']: post.append(('item', v.lean))
            elif pt.startswith('sptr:'):
                sn = v.lean if v.t == 'sptr:local' else (v.lean if v.t.startswith('sptr:') else None)
                if sn is None or sn not in st.structs: raise Unsupported('struct pointer argument')
                largs.append(self.struct_lit(sn, st)); post.append(('struct', sn))
            elif pt.startswith('sref:'):
                if v.t.startswith('addr:'):
                    largs.append(st.vars[v.lean].lean); post.append(('sref', v.lean))
                elif v.t.startswith('sref:'):
                    largs.append(st.vars[v.lean].lean); post.append(('sref', v.lean))
                else: raise Unsupported('scalar pointer argument')
            else:
                largs.append(self.conv(v, pt, st).lean)
        al = ' '.join(paren(x) for x in largs)
        st.obl.append('(%s.ok %s)' % (name, al) if al else '%s.ok' % name)
        comps = sig['result']
        if not comps: return V('()', 'unit')
        r = fn.gensym('r_' + name)
        st.pending.append((r, '(%s %s)' % (name, al) if al else name))
        retv = V('()', 'unit')
        n = len(comps); bi = si = ri = 0
        bufs = [x[1] for x in post if x[0] == 'buf']; strs = [x[1] for x in post if x[0] == 'struct']
        srefs = [x[1] for x in post if x[0] == 'sref']
        items = [x[1] for x in post if x[0] == 'item']; ii = 0
        for i, c in enumerate(comps):
            p = proj(r, i, n)
            if c[0] == 'ret': retv = V(p, c[1])
            elif c[0] == 'buf':
                tgt = bufs[bi]; bi += 1
                nb = fn.gensym(tgt); st.pending.append((nb, p)); st.bufs[tgt] = nb
            elif c[0] == 'struct':
                tgt = strs[si]; si += 1
                for (fname, ft) in self.structs[c[1]]:
                    st.structs[tgt][fname] = V('%s.%s' % (p, fname), ctype(ft))
            elif c[0] == 'sref':
                tgt = srefs[ri]; ri += 1
                nn = fn.gensym(tgt); st.pending.append((nn, p)); st.vars[tgt] = V(nn, st.vars[tgt].t)
            elif c[0] == 'item':
                # the callee stored into the item: from here on every field is a projection of the record it returned
                tgt = items[ii]; ii += 1
                nn = fn.gensym(tgt); st.pending.append((nn, p))
                st.structs[tgt]['__base'] = V(nn, 'rec')
                for flat, t, _, _ in self.item_fields: st.structs[tgt][flat] = V('%s.%s' % (nn, flat), t)
                fn.stored.add(tgt)
            elif c[0] == 'events':
                st.events.append('SPLICE:' + p)
        return retv

    def memcpy(self, args, st, fn):
        """`memcpy(dst, src, n)`, result unused.  dst: a position in a store buffer (output parameter); src: a position in the bytes of an item
        (`item->data`) or in a read-only byte parameter.  The n bytes src[so..so+n) are copied to dst[do..do+n) (C.copyBytes); both ranges must lie
        inside their arrays (obligations in `.ok`; for n = 0 that still demands pointers into / one past the object, C11 7.24.1p2).  Source and
        destination are different objects by assumption (output buffer vs. item payload: trusted base; overlapping would be UB for memcpy anyway);
        a source inside a store buffer is refused."""
        if len(args) != 3: raise Unsupported('memcpy with %d arguments' % len(args))
        dn, sn = self.addr_of_scalar(args[0], st), self.addr_of_scalar(args[1], st)
        if dn is not None or sn is not None: return self.memcpy_scalar(dn, sn, args, st, fn)
        d = self.expr(args[0], st, fn); s_ = self.expr(args[1], st, fn)
        n = self.conv(self.expr(args[2], st, fn), 'u64', st)
        if d.t != 'ptr' or getattr(d, 'item', None) is not None or d.base not in st.bufs:
            raise Unsupported('memcpy destination is not a store buffer')
        if s_.t != 'ptr': raise Unsupported('memcpy source is not a byte pointer')
        if getattr(s_, 'item', None) is not None: src = st.structs[s_.item]['data'].lean
        elif s_.base in st.bufs: raise Unsupported('memcpy source is a store buffer (possible overlap)')
        else: src = s_.base
        cur = st.bufs[d.base]
        nn = self.nat_of(n, st)
        st.obl.append('decide (%s + %s ≤ %s.size)' % (d.off, nn, cur))
        st.obl.append('decide (%s + %s ≤ %s.size)' % (s_.off, nn, src))
        self.set_bytes(d, '(C.copyBytes %s %s %s %s %s)' % (cur, paren(d.off), src, paren(s_.off), paren(nn)), st, fn)
        return V('()', 'unit')

    def addr_of_scalar(self, a, st):
        """name of x if the expression is `&x` — possibly parenthesised and converted to `void*` / a character pointer / its own type with other
        qualifiers — for x a parameter or local of a fixed-width scalar type whose value the model holds as its object representation
        (uint16/32/64_t, float, double: WIDE); else None."""
        casts = []
        while True:
            if a['kind'] == 'ParenExpr': a = a['inner'][0]
            elif a['kind'] in ('ImplicitCastExpr', 'CStyleCastExpr') and a.get('castKind') in ('BitCast', 'NoOp'):
                casts.append(a['type']); a = a['inner'][0]
            else: break
        if a['kind'] != 'UnaryOperator' or a.get('opcode') != '&': return None
        unq = lambda tj: re.sub(r'\s+', ' ', re.sub(r'\b(const|volatile|restrict)\b', '', tj.get('desugaredQualType', tj.get('qualType', '')))).strip()
        own = unq(a['type'])
        if any(unq(c) not in ('void *', 'unsigned char *', 'char *', 'signed char *', own) for c in casts): return None
        s = a['inner'][0]
        while s['kind'] == 'ParenExpr': s = s['inner'][0]
        if s['kind'] != 'DeclRefExpr' or s['referencedDecl'].get('kind') not in ('VarDecl', 'ParmVarDecl'): return None
        n = s['referencedDecl']['name']
        v = st.vars.get(n)
        if v is None or v.t not in self.WIDE: return None
        try:
            if ctype(s['type']) != v.t: return None
        except Unsupported:
            return None
        return n

    def memcpy_scalar(self, dn, sn, args, st, fn):
        """`memcpy(p, &x, n)` / `memcpy(&x, p, n)`, result unused, with x a scalar parameter / local of width w bytes (addr_of_scalar), n a constant
        equal to w, p a byte pointer.  The object representation of x is, on this (little-endian, checked in generate()) target, the w bytes of its
        value / IEEE-754 bit pattern in little-endian order — the same fact the typed access `*(T*)p` rests on (wide_read / wide_store).  Hence
          memcpy(p, &x, w)  =  the bytes p[0..w) become C.storeLE<8w> of the current value of x      (what `*(T*)p = x` stores)
          memcpy(&x, p, w)  =  x becomes C.loadLE<8w> of the bytes p[0..w)                            (what `x = *(T*)p` loads)
        with the obligation that p[0..w) lies inside the array p points into (the same text as for the typed access when p is item->data).  x is an
        object of the callee, so it cannot overlap what p points into.  memcpy has no alignment requirement, so — unlike the typed access — any
        byte position is accepted; a store still needs a writable target (item->data not aliased to a parameter, or a store buffer: set_bytes).
        Any other length (partial copies, variable n) and a copy between two scalars are outside the subset."""
        if dn is not None and sn is not None: raise Unsupported('memcpy between two scalar objects')
        x = dn if dn is not None else sn
        t = st.vars[x].t; w = self.WIDE[t]
        n = self.conv(self.expr(args[2], st, fn), 'u64', st)
        if lit_val(n) != w: raise Unsupported('memcpy to / from a %d-byte scalar with a length that is not the constant %d' % (w, w))
        p = self.expr(args[1] if dn is not None else args[0], st, fn)
        if p.t != 'ptr': raise Unsupported('memcpy between a scalar and something that is not a byte pointer')
        arr = self.bytes_of(p, st)
        if getattr(p, 'item', None) is not None and p.off == '0': bound = 'decide (%d ≤ %s.size)' % (w, arr)
        else: bound = 'decide (%s + %d ≤ %s.size)' % (p.off, w, arr)
        if sn is not None:
            st.obl.append(bound)
            self.set_bytes(p, '(C.storeLE%d %s %s %s)' % (8 * w, arr, paren(p.off), st.vars[x].lean), st, fn)
        else:
            if fn.loop_ctx is not None: raise Unsupported('memcpy into a local inside a loop')
            st.obl.append(bound)
            nn = fn.gensym(x); st.pending.append((nn, '(C.loadLE%d %s %s)' % (8 * w, arr, paren(p.off)))); st.vars[x] = V(nn, t)
        return V('()', 'unit')

    def inline_handle(self, decl, args, st, fn):
        """call of an untranslated function `unsigned char* f(const cbor_item_t* item)` whose body is assertions followed by `return <pointer>;`
        (cbor_bytestring_handle, cbor_string_handle): executed in place — its assertions become obligations, its value is the pointer expression
        (`item->data`: the bytes of the record).  Anything else in the body is outside the subset."""
        params = [c for c in decl.get('inner', []) if c['kind'] == 'ParmVarDecl']
        body = [c for c in decl['inner'] if c['kind'] == 'CompoundStmt'][0].get('inner', [])
        try:
            rett = ctype(decl['type']['qualType'].split('(')[0].strip())
        except Unsupported:
            rett = None
        if rett != 'ptr' or len(params) != 1 or not self.is_item_param(params[0]) or len(args) != 1 or not body:
            raise Unsupported('call to untranslated function ' + decl['name'])
        a = self.expr(args[0], st, fn)
        if a.t != 'sptr:cbor_item_t' or a.lean not in st.structs or st.structs[a.lean].get('__type') != '__item':
            raise Unsupported('item argument that is not an item parameter')
        saved = st.vars
        st.vars = {params[0]['name']: a}
        try:
            def effect(s):
                k = s['kind']
                if k == 'NullStmt': return
                if k == 'CompoundStmt':
                    for x in s.get('inner', []): effect(x)
                    return
                if k == 'DoStmt':
                    try:
                        z = self.const_int(s['inner'][1])
                    except Unsupported:
                        z = 1
                    if z != 0: raise Unsupported('do-while loop')
                    return effect(s['inner'][0])
                if k in ('CallExpr', 'CStyleCastExpr', 'ParenExpr'):
                    self.expr(s, st, fn); return
                raise Unsupported('statement %s in inlined function %s' % (k, decl['name']))
            for s in body[:-1]: effect(s)
            last = body[-1]
            if last['kind'] != 'ReturnStmt' or not last.get('inner'): raise Unsupported('inlined function %s does not end in return' % decl['name'])
            v = self.expr(last['inner'][0], st, fn)
        finally:
            st.vars = saved
        if v.t != 'ptr' or getattr(v, 'item', None) != a.lean or v.off != '0':
            raise Unsupported('inlined function %s does not return item->data' % decl['name'])
        return v

    def assumed(self, kind, e):
        """the stated assumption (SER_ASSUME) that applies to a branch on expression e: e is, up to parentheses / value-preserving casts, a call
        of the named function.  Returns the assumption or None."""
        c = self.strip_all(e)
        while c['kind'] in ('ImplicitCastExpr', 'ParenExpr') and c.get('inner'): c = c['inner'][0]
        if c['kind'] != 'CallExpr': return None
        f = c['inner'][0]
        while f['kind'] in ('ImplicitCastExpr', 'ParenExpr') and f.get('inner'): f = f['inner'][0]
        if f['kind'] != 'DeclRefExpr': return None
        for i, a in enumerate(self.assume):
            if a[0] == kind and a[1] == f['referencedDecl']['name']:
                self.assume_hits[i] = self.assume_hits.get(i, 0) + 1
                return a
        return None

    def struct_lit(self, n, st):
        s = st.structs[n]
        if s['__type'] == '__item': return self.item_lit(n, st)
        return '{ %s : %s }' % (', '.join('%s := %s' % (f, s[f].lean) for f, _ in self.structs[s['__type']]),
                                lean_struct(s['__type']))

    # ---------------------------------------------------------------- statements (CPS)
    def stmts(self, ss, st, fn, k):
        if not ss: return k(st)
        return self.stmt(ss[0], st, fn, lambda st2: self.stmts(ss[1:], st2, fn, k))

    def flush(self, st, tree_fn):
        lets = st.pending; st.pending = []
        t = tree_fn()
        for n, e in reversed(lets): t = Let(n, e, t)
        return t

    def assign(self, target, v, st, fn):
        t = self.strip(target)
        if t['kind'] == 'DeclRefExpr':
            n = t['referencedDecl']['name']
            if n not in st.vars: raise Unsupported('assignment to ' + n)
            ty = st.vars[n].t
            if ty == 'ialias' or v.t == 'ialias': raise Unsupported('assignment to / of a member-alias pointer')
            if ty == 'ptr' or ty.startswith('wptr:') or ty == 'sptr:cbor_item_t':
                if v.t != ty: raise Unsupported('pointer assignment %s := %s' % (ty, v.t))
                st.vars[n] = v; return
            v = self.conv(v, ty, st)
            nn = fn.gensym(n); st.pending.append((nn, v.lean)); st.vars[n] = V(nn, ty); return
        if t['kind'] == 'MemberExpr':
            ip = self.item_path(t, st, fn)
            if ip is not None: return self.item_write(ip[0], ip[1], v, st, fn)
            b = self.strip(t['inner'][0])
            if b['kind'] != 'DeclRefExpr': raise Unsupported('assignment to nested member')
            n = b['referencedDecl']['name']
            if n in st.vars and st.vars[n].t == 'unionval':
                # store into a member of a pun union (validated at its declaration): the union now holds the bit pattern of the value
                v = self.conv(v, ctype(t['type']), st)
                nn = fn.gensym(n); st.pending.append((nn, v.lean)); st.vars[n] = V(nn, 'unionval'); return
            if n in st.vars and st.vars[n].t.startswith('sptr:'): n = st.vars[n].lean
            if n not in st.structs: raise Unsupported('assignment to member of ' + n)
            ty = st.structs[n][t['name']].t
            v = self.conv(v, ty, st)
            nn = fn.gensym(n + '_' + t['name']); st.pending.append((nn, v.lean))
            st.structs[n][t['name']] = V(nn, ty); return
        if t['kind'] == 'ArraySubscriptExpr':
            p = self.expr(t['inner'][0], st, fn); i = self.expr(t['inner'][1], st, fn)
            p = self.padd(p, i, st)
            return self.store(p, v, st, fn)
        if t['kind'] == 'UnaryOperator' and t['opcode'] == '*':
            p = self.expr(t['inner'][0], st, fn)
            if p.t.startswith('sref:'):
                ty = st.vars[p.lean].t
                v = self.conv(v, ty, st)
                nn = fn.gensym(p.lean); st.pending.append((nn, v.lean)); st.vars[p.lean] = V(nn, ty); return
            if p.t.startswith('sptr:') and p.lean in st.structs:
                if not (v.t.startswith('struct:') and isinstance(v.base, dict)): raise Unsupported('struct assignment')
                for f, _ in self.structs[st.structs[p.lean]['__type']]:
                    nn = fn.gensym(p.lean + '_' + f); st.pending.append((nn, v.base[f].lean))
                    st.structs[p.lean][f] = V(nn, v.base[f].t)
                return
            if p.t == 'ptr': return self.store(p, v, st, fn)
            if p.t.startswith('wptr:'): return self.wide_store(p, v, st, fn)
        if t['kind'] == 'DeclRefExpr' or True:
            raise Unsupported('assignment target ' + t['kind'])

    def store(self, p, v, st, fn):
        if getattr(p, 'item', None) is None and p.base not in st.bufs: raise Unsupported('store through read-only pointer')
        cur = self.bytes_of(p, st)
        st.obl.append('decide (%s < %s.size)' % (p.off, cur))
        v = self.conv(v, 'u8', st)
        self.set_bytes(p, '%s.setIfInBounds %s %s' % (cur, paren(p.off), v.lean), st, fn)

    def stmt(self, s, st, fn, k):
        kind = s['kind']
        if kind == 'CompoundStmt':
            return self.stmts(s.get('inner', []), st, fn, k)
        if kind == 'NullStmt': return k(st)
        if kind == 'DoStmt':
            body, c = s['inner'][0], s['inner'][1]
            try:
                z = self.const_int(c)
            except Unsupported:
                z = 1
            if z != 0: raise Unsupported('do-while loop')
            return self.stmt(body, st, fn, k)
        if kind == 'DeclStmt':
            local_pun = False
            for d in s['inner']:
                if d['kind'] == 'RecordDecl' and d.get('tagUsed') == 'union' and d.get('completeDefinition'):
                    # `union { float f; uint32_t u; } h = ...`: a union declared on the spot, accepted when it is a pure bit-pattern pun (pun_union)
                    self.pun_union([(f['name'], f['type']) for f in d.get('inner', []) if f['kind'] == 'FieldDecl'])
                    local_pun = True; continue
                if d['kind'] != 'VarDecl': raise Unsupported('declaration ' + d['kind'])
                t = ('sref:' + float_ptr(d['type'])) if float_ptr(d['type']) else ctype(d['type'])
                init = [x for x in d.get('inner', []) if not x['kind'].endswith('Attr')]
                if t.startswith('union:'):
                    # a union value is ONE bit pattern, read and written through any member: exact only if all members are scalars of one width
                    if t[6:] in self.structs: self.pun_union(self.structs[t[6:]])
                    elif not (local_pun and 'unnamed' in t): raise Unsupported('union ' + t[6:])
                    if not init or self.strip(init[0])['kind'] != 'InitListExpr' or len(self.strip(init[0]).get('inner', [])) != 1:
                        raise Unsupported('union without a one-member initialiser')
                    i0 = self.strip(init[0])
                    v = self.expr(i0['inner'][0], st, fn)
                    st.vars[d['name']] = V(v.lean, 'unionval')
                elif t.startswith('struct:'):
                    sname = t[7:]; fields = {'__type': sname}
                    if init and self.strip(init[0])['kind'] == 'CallExpr':
                        raise Unsupported('struct initialised from call')
                    vals = self.init_struct(sname, init[0] if init else None, st, fn)
                    for (f, ft) in self.structs[sname]:
                        nn = fn.gensym(d['name'] + '_' + f); st.pending.append((nn, vals[f].lean))
                        fields[f] = V(nn, vals[f].t)
                    st.structs[d['name']] = fields
                elif t.startswith('sptr:') and t != 'sptr:cbor_item_t' and init and self.member_addr(init[0], st, fn) is not None:
                    # `struct M* md = &item->…member;` (item: an item parameter, member: a struct-typed (nested) member of cbor_item_t): taking the
                    # address accesses nothing (no obligation); from here on `md->f` IS the lvalue `item->…member.f` — reads and writes go through
                    # item_path / item_field exactly like the direct access, with the same union-member side condition at the point of the access.
                    # The alias has its own value type ('ialias') that only `md->…` (item_path) accepts: it cannot be reassigned (assign), converted,
                    # compared, dereferenced as a whole, passed to a call, returned or stored (conv raises) — so it is initialised once and never escapes.
                    key, path = self.member_addr(init[0], st, fn)
                    st.vars[d['name']] = V(key, 'ialias', base=path)
                elif t == 'ptr':
                    if not init: raise Unsupported('uninitialised pointer')
                    st.vars[d['name']] = self.expr(init[0], st, fn)
                elif t == 'sptr:cbor_item_t' or (t.startswith('sref:') and t[5:] in self.WIDE):
                    # local pointer: an alias of what it is initialised with (item parameter / fixed-width view of item->data)
                    if not init: raise Unsupported('uninitialised pointer')
                    v = self.expr(init[0], st, fn)
                    want = t if t == 'sptr:cbor_item_t' else 'wptr:' + t[5:]
                    if v.t != want: raise Unsupported('pointer initialiser %s for %s' % (v.t, t))
                    st.vars[d['name']] = v
                elif init:
                    v = self.conv(self.expr(init[0], st, fn), t, st)
                    nn = fn.gensym(d['name']); st.pending.append((nn, v.lean)); st.vars[d['name']] = V(nn, t)
                else:
                    st.vars[d['name']] = lit(0, t) if t in BITS or t == 'bool' else V('0', t)
            return self.flush(st, lambda: k(st))
        if kind == 'BinaryOperator' and s['opcode'] == '=':
            v = self.expr(s['inner'][1], st, fn); self.assign(s['inner'][0], v, st, fn)
            return self.flush(st, lambda: k(st))
        if kind == 'CompoundAssignOperator':
            op = s['opcode'][:-1]
            lhs = {'kind': 'ImplicitCastExpr', 'castKind': 'IntegralCast', 'type': s['computeLHSType'], 'inner': [s['inner'][0]]}
            fake = {'kind': 'BinaryOperator', 'opcode': op, 'type': s['computeResultType'], 'inner': [lhs, s['inner'][1]]}
            v = self.binop(fake, st, fn); self.assign(s['inner'][0], v, st, fn)
            return self.flush(st, lambda: k(st))
        if kind == 'UnaryOperator' and s['opcode'] in ('++', '--'):
            self.expr(s, st, fn)
            return self.flush(st, lambda: k(st))
        if kind in ('CallExpr', 'ImplicitCastExpr', 'CStyleCastExpr', 'ParenExpr'):
            self.expr(s, st, fn)
            return self.flush(st, lambda: k(st))
        if kind == 'IfStmt':
            asm = self.assumed('if', s['inner'][0])
            c = self.cond(s['inner'][0], st, fn)
            if asm is not None:
                # pruning under a stated assumption: the condition (evaluated symbolically — anything cond() cannot evaluate raised Unsupported)
                # is ASSUMED to have the stated value; the assumption becomes a conjunct of `.ok` on every path from here, and the other
                # branch is not translated.  Sound: where `.ok` holds the C code takes exactly the branch kept.
                st.obl.append(c if asm[2] else '(!%s)' % c)
                taken = s['inner'][1] if asm[2] else (s['inner'][2] if len(s['inner']) > 2 else None)
                return self.flush(st, lambda: self.stmt(taken, st, fn, k) if taken is not None else k(st))
            def branches():
                sa, sb = st.copy(), st.copy()
                ta = self.stmt(s['inner'][1], sa, fn, k)
                tb = self.stmt(s['inner'][2], sb, fn, k) if len(s['inner']) > 2 else k(sb)
                return If(c, ta, tb)
            return self.flush(st, branches)
        if kind == 'ReturnStmt' and s.get('inner') and self.strip_all(s['inner'][0])['kind'] == 'ConditionalOperator' \
                and self.has_call(s['inner'][0]):
            # return c ? f(..) : g(..);   ==>   if (c) return f(..); else return g(..);   (only one call is executed)
            co = self.strip_all(s['inner'][0])
            mk = lambda e: {'kind': 'ReturnStmt', 'inner': [e]}
            fake = {'kind': 'IfStmt', 'inner': [co['inner'][0], mk(co['inner'][1]), mk(co['inner'][2])]}
            return self.stmt(fake, st, fn, k)
        if kind == 'ReturnStmt':
            if fn.loop_ctx is not None:
                fn.loop_ctx.exits.append(('return', s))
                code = len(fn.loop_ctx.exits)
                return self.flush(st, lambda: self.loop_leaf(st, fn, code))
            v = None
            if s.get('inner'):
                v = self.expr(s['inner'][0], st, fn)
                if not v.t.startswith('struct:'): v = self.conv(v, fn.rett, st)
            return self.flush(st, lambda: self.leaf(v, st, fn))
        if kind == 'GotoStmt':
            lid = s['targetLabelDeclId']
            if lid not in fn.labels: raise Unsupported('goto to unknown label')
            if fn.loop_ctx is not None:
                fn.loop_ctx.exits.append(('goto', lid))
                code = len(fn.loop_ctx.exits)
                return self.flush(st, lambda: self.loop_leaf(st, fn, code))
            return self.stmts(fn.labels[lid], st, fn, k)
        if kind == 'LabelStmt':
            return self.stmt(s['inner'][0], st, fn, k)
        if kind == 'SwitchStmt':
            return self.switch(s, st, fn, k)
        if kind == 'WhileStmt':
            return self.loop(s['inner'][0], s['inner'][1], None, st, fn, k)
        if kind == 'ForStmt':
            init, _, c, inc, body = s['inner']
            if init and init.get('kind'):
                return self.stmt(init, st, fn, lambda s2: self.loop(c, body, inc, s2, fn, k))
            return self.loop(c, body, inc, st, fn, k)
        if kind == 'BreakStmt':
            raise Unsupported('break outside switch tail position')
        raise Unsupported('statement ' + kind)

    def pun_union(self, fields):
        """all members are scalars of one width whose values are modelled by their bit pattern (float / uint32_t, double / uint64_t): reading
        a member other than the one last stored reinterprets the object representation (C11 6.5.2.3, footnote 95) = the same bit pattern"""
        ts = set()
        for f, ft in fields:
            try:
                ts.add(ctype(ft))
            except Unsupported:
                ts.add('?')
        if not ts or not (ts <= {'u32', 'f32'} or ts <= {'u64', 'f64'}):
            raise Unsupported('union whose members are not scalars of one width (%s)' % ', '.join(sorted(ts)))

    def init_struct(self, sname, init, st, fn):
        vals = {}
        fields = self.structs[sname]
        if init is None:
            for f, ft in fields: vals[f] = lit(0, ctype(ft))
            return vals
        init = self.strip(init)
        if init['kind'] == 'CompoundLiteralExpr': init = self.strip(init['inner'][0])
        if init['kind'] == 'InitListExpr':
            for (f, ft), e in zip(fields, init['inner']):
                t = ctype(ft)
                if e['kind'] == 'ImplicitValueInitExpr': vals[f] = lit(0, t)
                else: vals[f] = self.conv(self.expr(e, st, fn), t, st)
            return vals
        raise Unsupported('struct initialiser ' + init['kind'])

    def leaf(self, v, st, fn):
        comps = []
        for c in fn.result:
            if c[0] == 'ret': comps.append(v.lean if v else '()')
            elif c[0] == 'buf': comps.append(st.bufs[c[1]])
            elif c[0] == 'struct': comps.append(self.struct_lit(c[2], st))
            elif c[0] == 'sref': comps.append(st.vars[c[2]].lean)
            elif c[0] == 'item': comps.append(self.item_lit(c[2], st))
            elif c[0] == 'events':
                parts = [ev[7:] if ev.startswith('SPLICE:') else '[%s]' % ev for ev in st.events]
                comps.append(' ++ '.join(parts) if parts else '[]')
        val = comps[0] if len(comps) == 1 else ('(%s)' % ', '.join(comps) if comps else '()')
        return Leaf(val, conj(st.obl))

    # ---------------------------------------------------------------- switch
    def switch(self, s, st, fn, k):
        asm = self.assumed('case', s['inner'][0])
        scrut = self.expr(s['inner'][0], st, fn)
        sw = fn.gensym('sw'); st.pending.append((sw, scrut.lean)); scrut = V(sw, scrut.t)
        pruned = set()
        if asm is not None:
            # stated assumption: the scrutinee is none of these enumerators.  `.ok` gets `sw != v` for each (on every path), and the labels are
            # dropped from the dispatch (their statements are translated only if another label falls through into them).
            for en in asm[2]:
                if en not in self.enums: raise Unsupported('enumerator %s is not declared' % en)
                pruned.add(self.enums[en])
                st.obl.append('(%s != %s)' % (scrut.lean, lit(self.enums[en], scrut.t).lean))
        body = s['inner'][-1].get('inner', [])
        groups = []; cur_labels = []; cur_stmts = []
        def unwrap(n):
            nonlocal cur_labels, cur_stmts
            while n['kind'] in ('CaseStmt', 'DefaultStmt'):
                if cur_stmts: groups.append((cur_labels, cur_stmts)); cur_labels, cur_stmts = [], []
                if n['kind'] == 'CaseStmt':
                    cur_labels.append(self.const_int(n['inner'][0])); n = n['inner'][1]
                else:
                    cur_labels.append('default'); n = n['inner'][0]
            cur_stmts.append(n)
        for n in body: unwrap(n)
        if cur_stmts: groups.append((cur_labels, cur_stmts))
        def group_tree(i, sg):
            """statements of group i, falling through into group i+1 unless they end in break/return"""
            labels, ss = groups[i]
            ss = list(ss)
            if ss and ss[-1]['kind'] == 'BreakStmt':
                return self.stmts(ss[:-1], sg, fn, k)
            def fall(s2):
                if i + 1 < len(groups): return group_tree(i + 1, s2)
                return k(s2)
            # a trailing compound `{ ...; break; }` is also common
            if ss and ss[-1]['kind'] == 'CompoundStmt' and ss[-1].get('inner') and ss[-1]['inner'][-1]['kind'] == 'BreakStmt':
                inner = dict(ss[-1]); inner['inner'] = ss[-1]['inner'][:-1]
                return self.stmts(ss[:-1] + [inner], sg, fn, k)
            return self.stmts(ss, sg, fn, fall)
        default_idx = [i for i, (l, _) in enumerate(groups) if 'default' in l]
        def build(i):
            if i == len(groups):
                if default_idx: return group_tree(default_idx[0], st.copy())
                return k(st.copy())
            labels, ss = groups[i]
            ints = sorted(x for x in labels if x != 'default' and x not in pruned)
            if not ints: return build(i + 1)
            t = group_tree(i, st.copy())
            return If(self.range_cond(scrut, ints), t, build(i + 1))
        return self.flush(st, lambda: build(0))

    def range_cond(self, v, labels):
        rs = []; a = b = labels[0]
        for x in labels[1:]:
            if x == b + 1: b = x
            else: rs.append((a, b)); a = b = x
        rs.append((a, b))
        L = lambda n: lit(n, v.t).lean
        parts = []
        for a, b in rs:
            if a == b: parts.append('(%s == %s)' % (v.lean, L(a)))
            else: parts.append('(decide (%s ≤ %s ∧ %s ≤ %s))' % (L(a), v.lean, v.lean, L(b)))
        return parts[0] if len(parts) == 1 else '(' + ' || '.join(parts) + ')'

    # ---------------------------------------------------------------- loops
    def refs(self, n, acc):
        if not isinstance(n, dict): return
        if n.get('kind') == 'DeclRefExpr': acc.add(n['referencedDecl']['name'])
        for c in n.get('inner', []): self.refs(c, acc)

    def loop(self, cond_e, body, inc, st, fn, k):
        if fn.loop_ctx is not None: raise Unsupported('nested loop')
        used = set()
        for n in (cond_e, body, inc): self.refs(n, used)
        carried = [n for n in st.vars if n in used and st.vars[n].t in BITS or (n in used and st.vars[n].t == 'bool')]
        caps_ptr = [n for n in st.vars if n in used and st.vars[n].t == 'ptr']
        if any(n in used for n in st.structs): raise Unsupported('struct used inside loop')
        for n in caps_ptr:
            if st.vars[n].base in st.bufs: raise Unsupported('store buffer used inside loop')
        lname = '%s.loop%d' % (fn.name, len(fn.loops))
        sl = St()
        for n in carried: sl.vars[n] = V(n, st.vars[n].t)
        cap_params = []
        for n in caps_ptr:
            p = st.vars[n]
            sl.vars[n] = V(n, 'ptr', base='%s_a' % n, off='%s_o' % n)
            cap_params.append((n, p))
        ctx = LoopCtx(carried); fn.loop_ctx = ctx
        c = self.cond(cond_e, sl, fn)
        cond_obl = list(sl.obl); sl.obl = []
        def after_body(s2):
            if inc is not None and inc.get('kind'):
                return self.stmt(inc, s2, fn, lambda s3: self.loop_leaf(s3, fn, 0))
            return self.loop_leaf(s2, fn, 0)
        self._loop_name = lname; self._loop_caps = cap_params
        body_tree = self.flush(sl, lambda: self.stmt(body, sl, fn, after_body))
        fn.loop_ctx = None
        tys = [LEAN_T[st.vars[n].t] for n in carried]
        tupT = ' × '.join(tys)
        cap_sig = ''.join(' (%s_a : Array UInt8) (%s_o : Nat)' % (n, n) for n, _ in cap_params)
        d = ['def %s (fuel : Nat)%s %s : (%s) × Nat × Bool :=' % (
            lname, cap_sig, ' '.join('(%s : %s)' % (n, t) for n, t in zip(carried, tys)), tupT)]
        d.append('  match fuel with')
        d.append('  | 0 => ((%s), 0, false)' % ', '.join(carried))
        d.append('  | fuel+1 =>')
        d.append('    if %s then' % c)
        d.append(indent(self.render_loop(body_tree, conj(cond_obl)), 6))
        d.append('    else ((%s), 0, %s)' % (', '.join(carried), conj(cond_obl)))
        fn.loops.append('\n'.join(d))
        # fuel heuristic: `i < n` with n loop-invariant -> n + 1 ; otherwise width of the widest carried scalar + 1
        fuel = str(max([BITS.get(st.vars[n].t, 1) for n in carried] + [1]) + 1)
        ce = self.strip(cond_e)
        if ce['kind'] == 'BinaryOperator' and ce['opcode'] in ('<', '!='):
            rhs = self.strip(ce['inner'][1])
            if rhs['kind'] == 'DeclRefExpr' and rhs['referencedDecl']['name'] in st.vars:
                rv = st.vars[rhs['referencedDecl']['name']]
                assigned = set(); self.assigned(body, assigned); self.assigned(inc, assigned)
                if is_unsigned(rv.t) and rhs['referencedDecl']['name'] not in assigned:
                    fuel = '(%s.toNat + 1)' % paren(rv.lean)
        r = fn.gensym('loop')
        cap_args = ''.join(' %s %s' % (st.bufs.get(p.base, p.base), paren(p.off)) for _, p in cap_params)
        st.pending.append((r, '%s %s%s %s' % (lname, fuel, cap_args, ' '.join(paren(st.vars[n].lean) for n in carried))))
        for i, n in enumerate(carried):
            st.vars[n] = V(proj('%s.1' % r, i, len(carried)), st.vars[n].t)
        st.obl.append('%s.2.2' % r)
        exits = ctx.exits
        def cont():
            def build(i):
                if i == len(exits): return k(st.copy())
                ex = exits[i]; se = st.copy()
                if ex[0] == 'goto': t = self.stmts(fn.labels[ex[1]], se, fn, k)
                else: t = self.stmt(ex[1], se, fn, k)
                return If('(%s.2.1 == %d)' % (r, i + 1), t, build(i + 1))
            return build(0)
        return self.flush(st, cont)

    def assigned(self, n, acc):
        if not isinstance(n, dict): return
        if (n.get('kind') == 'BinaryOperator' and n.get('opcode') == '=') or n.get('kind') == 'CompoundAssignOperator' \
                or (n.get('kind') == 'UnaryOperator' and n.get('opcode') in ('++', '--', '&')):
            t = self.strip(n['inner'][0])
            if t.get('kind') == 'DeclRefExpr': acc.add(t['referencedDecl']['name'])
        for c in n.get('inner', []): self.assigned(c, acc)

    def loop_leaf(self, st, fn, code):
        carried = fn.loop_ctx.carried
        vals = ', '.join(st.vars[n].lean for n in carried)
        if code == 0:
            cap_args = ''.join(' %s_a %s_o' % (n, n) for n, _ in self._loop_caps)
            return Leaf(('rec', '%s fuel%s %s' % (self._loop_name, cap_args, ' '.join(paren(st.vars[n].lean) for n in carried))), conj(st.obl))
        return Leaf(('exit', '((%s), %d, ' % (vals, code)), conj(st.obl))

    def render_loop(self, t, pre_ok):
        if isinstance(t, Let): return 'let %s := %s\n%s' % (t.n, t.e, self.render_loop(t.body, pre_ok))
        if isinstance(t, If):
            return 'if %s then\n%s\nelse\n%s' % (t.c, indent(self.render_loop(t.a, pre_ok), 2), indent(self.render_loop(t.b, pre_ok), 2))
        ok = conj([x for x in (pre_ok, t.ok) if x != 'true'])
        kind, txt = t.val
        if kind == 'rec':
            return 'let r := %s\n(r.1, r.2.1, r.2.2 && %s)' % (txt, paren(ok))
        return '%s%s)' % (txt, ok)

    # ---------------------------------------------------------------- functions
    def function(self, decl, name=None):
        """translate one function.  A function with cbor_item_t* parameters is executed twice: the first run (every item returned)
        only discovers into which items a store is executed on some path — through the parameter itself, an alias, a cast that drops
        `const`, or a callee that stores; the second run returns the updated record of exactly those.  The qualifier `const` plays no role."""
        has_item = any(self.is_item_param(p) for p in decl.get('inner', []) if p['kind'] == 'ParmVarDecl')
        if not has_item: return self.function1(decl, None)
        n0 = len(self.out)
        stored = self.function1(decl, None)
        del self.out[n0:]
        stored2 = self.function1(decl, stored)
        if stored2 != stored: raise Unsupported('store discovery is not stable')

    def is_item_param(self, p):
        try:
            return ctype(p['type']) == 'sptr:cbor_item_t'
        except Unsupported:
            return False

    def function1(self, decl, item_out):
        fn = Fn(decl); name = fn.name
        fn.stored = set()
        st = St()
        lparams = []; sigparams = []; fn.result = []
        uses_events = False
        if fn.rett != 'unit': fn.result.append(('ret', fn.rett))
        bufparam = None
        has_item = any(self.is_item_param(p) for p in fn.params)
        for p in fn.params:
            t = ctype(p['type']); n = p['name']
            q = p['type'].get('qualType', '')
            if t == 'ptr' and has_item and not ('const' in q or q == 'cbor_data') and not self.ser_mode:
                # a writable byte pointer next to an item: the only supported use is `item->data = p` (+ reading through p): the parameter
                # is the byte sequence p points to; a store through it is outside the subset (it is not a store buffer)
                lparams.append('(%s : Array UInt8)' % n)
                hv = V(n, 'ptr', base=n, off='0'); hv.handle = n
                st.vars[n] = hv; sigparams.append((n, 'hptr'))
            elif t == 'ptr':
                lparams.append('(%s : Array UInt8) (%s_off : Nat)' % (n, n))
                st.vars[n] = V(n, 'ptr', base=n, off='%s_off' % n)
                sigparams.append((n, 'ptr'))
                if not ('const' in q or q == 'cbor_data'):
                    st.bufs[n] = n; bufparam = n; fn.result.append(('buf', n))
            elif t == 'sptr:cbor_item_t':
                if self.item_fields is None: raise Unsupported('item model not built')
                lparams.append('(%s : ItemRec)' % n)
                key = n + '_s'
                st.structs[key] = dict({'__type': '__item', '__base': V(n, 'rec')},
                                       **{flat: V('%s.%s' % (n, flat), ft) for flat, ft, _, _ in self.item_fields})
                st.vars[n] = V(key, t)
                sigparams.append((n, 'item'))
                if item_out is None or key in item_out: fn.result.append(('item', n, key))
            elif t.startswith('sptr:'):
                sname = t[5:]
                if sname == 'cbor_callbacks':
                    sigparams.append((n, 'skip')); st.vars[n] = V(n, 'callbacks'); uses_events = True; continue
                if sname not in self.structs: raise Unsupported('struct ' + sname)
                lparams.append('(%s : %s)' % (n, lean_struct(sname)))
                key = n + '_s'
                st.structs[key] = dict({'__type': sname}, **{f: V('%s.%s' % (n, f), ctype(ft)) for f, ft in self.structs[sname]})
                st.vars[n] = V(key, 'sptr:' + sname)
                sigparams.append((n, 'sptr:' + sname)); fn.result.append(('struct', sname, key))
            elif t.startswith('sref:'):
                lparams.append('(%s : %s)' % (n, LEAN_T[t[5:]]))
                key = n + '_v'
                st.vars[key] = V(n, t[5:]); st.vars[n] = V(key, t)
                sigparams.append((n, t)); fn.result.append(('sref', t[5:], key))
            elif t == 'voidp':
                sigparams.append((n, 'skip'))
            elif t in LEAN_T:
                lparams.append('(%s : %s)' % (n, LEAN_T[t])); st.vars[n] = V(n, t); sigparams.append((n, t))
            else:
                raise Unsupported('parameter type ' + t)
        if uses_events: fn.result.append(('events',))
        n_items = sum(1 for _, t in sigparams if t == 'item')
        if n_items > 1 or (n_items == 1 and ((bufparam is not None and not self.ser_mode) or any(t.startswith('sref:') for _, t in sigparams))):
            # value semantics for the record is only exact when nothing else the function can write through may alias it
            raise Unsupported('item parameter together with another item / writable pointer parameter (possible aliasing)')
        # labels: a label in the top-level compound owns the statements from there to the end
        top = fn.body.get('inner', [])
        for i, s in enumerate(top):
            if s['kind'] == 'LabelStmt': fn.labels[s['declId']] = top[i:]
        sig_result = []
        for c in fn.result:
            sig_result.append((c[0], c[1]) if c[0] in ('ret', 'struct', 'sref', 'item') else (c[0],))
        self.sigs[name] = {'params': [(n, t) for n, t in sigparams if t != 'skip'], 'bufparam': bufparam,
                           'result': sig_result, 'skipidx': [i for i, (n, t) in enumerate(sigparams) if t == 'skip'],
                           'stored': [c[1] for c in fn.result if c[0] == 'item']}
        def fallthrough(s2):
            if fn.rett != 'unit': s2.obl.append('false')   # control reaches end of non-void function
            return self.leaf(lit(0, fn.rett) if fn.rett in BITS or fn.rett == 'bool' else None, s2, fn)
        self.assume_hits = {}
        tree = self.flush(st, lambda: self.stmt(fn.body, st, fn, fallthrough))
        for i, a in enumerate(self.assume):
            if i not in self.assume_hits: raise Unsupported('stated assumption on %s matches no branch of the function' % a[1])
        if self.ser_mode and bufparam is not None and fn.stored:
            # value semantics for item + output buffer is exact only for a read-only item (the two are different objects by assumption)
            raise Unsupported('serializer stores into its item')
        def rt(c):
            if c[0] == 'ret': return lean_struct(c[1][7:]) if c[1].startswith('struct:') else LEAN_T[c[1]]
            if c[0] == 'buf': return 'Array UInt8'
            if c[0] == 'struct': return lean_struct(c[1])
            if c[0] == 'sref': return LEAN_T[c[1]]
            if c[0] == 'item': return 'ItemRec'
            return 'List Event'
        rty = ' × '.join(rt(c) for c in fn.result) or 'Unit'
        for l in fn.loops: self.out.append(l + '\n')
        P = ' '.join(lparams)
        self.out.append('def %s %s : %s :=\n%s\n' % (name, P, rty, indent(self.render(tree, 'val'), 2)))
        self.out.append('def %s.ok %s : Bool :=\n%s\n' % (name, P, indent(self.render(tree, 'ok'), 2)))
        return fn.stored

    def render(self, t, which):
        if isinstance(t, Let): return 'let %s := %s\n%s' % (t.n, t.e, self.render(t.body, which))
        if isinstance(t, If):
            return 'if %s then\n%s\nelse\n%s' % (t.c, indent(self.render(t.a, which), 2), indent(self.render(t.b, which), 2))
        return t.val if which == 'val' else t.ok


def conj(obl):
    obl = [o for o in obl if o != 'true']
    if not obl: return 'true'
    return ' && '.join(obl)


# ====================================================================== driver
PRELUDE_IMPORTS = 'import Cbor.Prelude\nimport Cbor.Ext\n'
HEADER = '/- GENERATED by extract/c2lean.py from %s — do not edit; regenerated on every check run. -/\n'

# (C file, Lean module, functions in dependency order)
JOBS = [
    ('src/cbor/internal/memory_utils.c', 'MemoryUtils',
     ['_cbor_highest_bit', '_cbor_safe_to_multiply', '_cbor_safe_to_add', '_cbor_safe_signaling_add']),
    ('src/cbor/internal/encoders.c', 'Encoders',
     ['_cbor_encode_uint8', '_cbor_encode_uint16', '_cbor_encode_uint32', '_cbor_encode_uint64', '_cbor_encode_uint']),
    ('src/cbor/encoding.c', 'Encoding',
     ['cbor_encode_uint8', 'cbor_encode_uint16', 'cbor_encode_uint32', 'cbor_encode_uint64', 'cbor_encode_uint',
      'cbor_encode_negint8', 'cbor_encode_negint16', 'cbor_encode_negint32', 'cbor_encode_negint64', 'cbor_encode_negint',
      'cbor_encode_bytestring_start', '_cbor_encode_byte', 'cbor_encode_indef_bytestring_start',
      'cbor_encode_string_start', 'cbor_encode_indef_string_start', 'cbor_encode_array_start',
      'cbor_encode_indef_array_start', 'cbor_encode_map_start', 'cbor_encode_indef_map_start', 'cbor_encode_tag',
      'cbor_encode_bool', 'cbor_encode_null', 'cbor_encode_undef', 'cbor_encode_half', 'cbor_encode_single',
      'cbor_encode_double', 'cbor_encode_break', 'cbor_encode_ctrl']),
    ('src/cbor/internal/loaders.c', 'Loaders',
     ['_cbor_load_uint8', '_cbor_load_uint16', '_cbor_load_uint32', '_cbor_load_uint64', '_cbor_load_float',
      '_cbor_load_double']),
    ('src/cbor/streaming.c', 'Streaming', ['claim_bytes', 'cbor_stream_decode']),
    ('src/cbor/internal/unicode.c', 'Unicode', ['_cbor_unicode_decode', '_cbor_unicode_codepoint_count']),
    ('src/cbor/serialization.c', 'HeaderSize', ['_cbor_encoded_header_size']),
]
# item accessors: all into one module `Accessors`; (C file, functions) in dependency order (callees first, across files)
ACC_JOBS = [
    ('src/cbor/common.c', ['cbor_typeof', 'cbor_isa_uint', 'cbor_isa_negint', 'cbor_isa_bytestring', 'cbor_isa_string', 'cbor_isa_array',
                           'cbor_isa_map', 'cbor_isa_tag', 'cbor_isa_float_ctrl', 'cbor_is_int', 'cbor_refcount']),
    ('src/cbor/floats_ctrls.c', ['cbor_float_get_width', 'cbor_ctrl_value', 'cbor_float_ctrl_is_ctrl']),
    ('src/cbor/common.c', ['cbor_is_bool', 'cbor_is_null', 'cbor_is_undef', 'cbor_is_float']),
    ('src/cbor/floats_ctrls.c', ['cbor_get_bool', 'cbor_set_ctrl', 'cbor_set_bool']),
    ('src/cbor/ints.c', ['cbor_int_get_width', 'cbor_get_uint8', 'cbor_get_uint16', 'cbor_get_uint32', 'cbor_get_uint64', 'cbor_get_int',
                         'cbor_set_uint8', 'cbor_set_uint16', 'cbor_set_uint32', 'cbor_set_uint64', 'cbor_mark_uint', 'cbor_mark_negint']),
    ('src/cbor/arrays.c', ['cbor_array_is_definite', 'cbor_array_is_indefinite', 'cbor_array_size', 'cbor_array_allocated']),
    ('src/cbor/maps.c', ['cbor_map_is_definite', 'cbor_map_is_indefinite', 'cbor_map_size', 'cbor_map_allocated']),
    ('src/cbor/strings.c', ['cbor_string_is_definite', 'cbor_string_is_indefinite', 'cbor_string_length', 'cbor_string_codepoint_count']),
    ('src/cbor/bytestrings.c', ['cbor_bytestring_is_definite', 'cbor_bytestring_is_indefinite', 'cbor_bytestring_length']),
    ('src/cbor/tags.c', ['cbor_tag_value']),
]
# float accessors and handle setters: a second module `Accessors2` (imports Accessors and Unicode), so that Accessors.lean keeps its text
ACC2_JOBS = [
    ('src/cbor/floats_ctrls.c', ['cbor_float_get_float2', 'cbor_float_get_float4', 'cbor_float_get_float8', 'cbor_float_get_float',
                                 'cbor_set_float2', 'cbor_set_float4', 'cbor_set_float8']),
    ('src/cbor/strings.c', ['cbor_string_set_handle']),
    ('src/cbor/bytestrings.c', ['cbor_bytestring_set_handle']),
]
# leaf serializers (no child pointer is touched): module `Serializers`.  cbor_serialize_(byte)string and cbor_serialized_size are translated
# UNDER STATED ASSUMPTIONS (SER_ASSUME): ('if', f, b) = an `if (f(..))` is assumed to evaluate to b; ('case', f, [enumerators]) = a
# `switch (f(..))` is assumed not to select these labels.  Each assumption is a conjunct of `.ok`; the pruned branch is not translated.
SER_JOBS = [
    ('src/cbor/serialization.c', ['cbor_serialize_uint', 'cbor_serialize_negint', 'cbor_serialize_float_ctrl', 'cbor_serialize_bytestring',
                                  'cbor_serialize_string', 'cbor_serialized_size']),
]
SER_ASSUME = {
    'cbor_serialize_bytestring': [('if', 'cbor_bytestring_is_definite', True)],
    'cbor_serialize_string': [('if', 'cbor_string_is_definite', True)],
    'cbor_serialized_size': [('case', 'cbor_typeof', ['CBOR_TYPE_ARRAY', 'CBOR_TYPE_MAP', 'CBOR_TYPE_TAG']),
                             ('if', 'cbor_bytestring_is_definite', True), ('if', 'cbor_string_is_definite', True)],
}
IMPORTS = {'Encoding': ['Encoders'], 'Streaming': ['Loaders', 'Types'], 'Loaders': [], 'Encoders': [],
           'MemoryUtils': [], 'Unicode': ['Types'], 'HeaderSize': []}


def table_def(name, et, vals):
    width = BITS[et]
    n = 0
    for i, v in enumerate(vals): n |= (v % (2 ** width)) << (width * i)
    return ('def %s_tbl : Nat := 0x%x\n' % (name, n) +
            'def %s_size : Nat := %d\n' % (name, len(vals)) +
            '/-- `%s[i]`: entry i of the C table, packed little-endian by index into one Nat literal -/\n' % name +
            'def %s (i : Nat) : %s := %s.ofNat ((%s_tbl >>> (%d * i)) &&& 0x%x)\n' % (
                name, LEAN_T[et], LEAN_T[et], name, width, 2 ** width - 1))


def generate(repo, outdir, cfgdir):
    """returns (files: {path: content}, report: {...}); raises Unsupported with context on failure"""
    cast.write_cfg(repo, cfgdir)
    T = Translator()
    T.externs = {'_cbor_load_half': 'f32'}
    acc_files = []
    for f, _ in ACC_JOBS:
        if f not in acc_files: acc_files.append(f)
    tus = cast.dump_many(repo, cfgdir, [j[0] for j in JOBS] + acc_files)
    files = {}; report = {'functions': [], 'failed': []}
    fnsets = {}
    for cfile, mod, names in JOBS:
        fnsets[cfile] = T.index_tu(tus[cfile])
    # Types module: decoder result, unicode status, Event
    ty = [HEADER % 'src/cbor/data.h, src/cbor/callbacks.h, src/cbor/internal/unicode.h', 'import Cbor.Prelude\n',
          'set_option linter.unusedVariables false\nnamespace Gen\n']
    for sname in ('cbor_decoder_result', '_cbor_unicode_status'):
        ty.append('structure %s where\n' % lean_struct(sname) + '\n'.join(
            '  %s : %s' % (f, LEAN_T[ctype(t)]) for f, t in T.structs[sname]) + '\nderiving Repr, DecidableEq, Inhabited\n')
    ev = ['inductive Event where']
    for f, t in T.structs['cbor_callbacks']:
        sig = t.get('desugaredQualType', t['qualType'])
        ps = sig[sig.index(')(') + 2:-1].split(',')[1:]
        tys = []
        for q in ps:
            ct = ctype(q.strip())
            tys.append('Nat' if ct == 'ptr' else LEAN_T[ct])
        ev.append('  | %s %s' % (f, ' '.join('(a%d : %s)' % (i, x) for i, x in enumerate(tys))))
    ev.append('deriving Repr, DecidableEq, Inhabited\n')
    ty.append('\n'.join(ev))
    fm = ['/-- canonical text of an event, as printed by both sides of the correspondence harness -/',
          'def Event.fmt : Event → String']
    for f, t in T.structs['cbor_callbacks']:
        sig = t.get('desugaredQualType', t['qualType'])
        n = len(sig[sig.index(')(') + 2:-1].split(',')[1:])
        args = ' '.join('a%d' % i for i in range(n))
        fm.append('  | .%s %s => "%s"%s' % (f, args, f, ''.join(' ++ " " ++ toString a%d' % i for i in range(n))))
    ty.append('\n'.join(fm) + '\n')
    consts = ['/-- enumerators used by the translated code -/']
    for en in ('CBOR_DECODER_FINISHED', 'CBOR_DECODER_NEDATA', 'CBOR_DECODER_ERROR', '_CBOR_UNICODE_OK', '_CBOR_UNICODE_BADCP'):
        consts.append('def %s : UInt32 := %d' % (en, T.enums[en]))
    ty.append('\n'.join(consts) + '\n')
    ty.append('end Gen\n')
    files['Types.lean'] = '\n'.join(ty)
    for cfile, mod, names in JOBS:
        T.out = []
        chunks = [HEADER % cfile, PRELUDE_IMPORTS + ''.join('import Cbor.Gen.%s\n' % m for m in IMPORTS.get(mod, [])),
                  'set_option linter.unusedVariables false\nset_option maxRecDepth 4096\nnamespace Gen\n']
        if mod == 'Unicode':
            g = T.globals_.get('utf8d')
            if not isinstance(g, tuple): raise Unsupported('table utf8d not found in unicode.c')
            chunks.append(table_def('utf8d', g[1], g[2]))
        for n in names:
            if n not in fnsets[cfile]:
                raise Unsupported('%s: no definition of %s' % (cfile, n))
            try:
                T.function(fnsets[cfile][n])
                report['functions'].append(n)
            except Unsupported as ex:
                raise Unsupported('%s: %s: %s' % (cfile, n, ex))
        chunks += T.out
        chunks.append('end Gen\n')
        files[mod + '.lean'] = '\n'.join(chunks)
    # item accessors (getters / setters / predicates over cbor_item_t)
    if not cast.little_endian(): raise Unsupported('the fixed-width accesses to item->data are modelled for a little-endian host only')
    for f in acc_files: fnsets[f] = T.index_tu(tus[f])
    T.build_item_model()
    T.out = []
    chunks = [HEADER % ', '.join(acc_files + ['src/cbor/data.h']), PRELUDE_IMPORTS,
              'set_option linter.unusedVariables false\nset_option maxRecDepth 4096\nnamespace Gen\n', T.item_decl()]
    for cfile, names in ACC_JOBS:
        for n in names:
            if n not in fnsets[cfile]: raise Unsupported('%s: no definition of %s' % (cfile, n))
            n0 = len(T.out)
            try:
                T.function(fnsets[cfile][n])
                report['functions'].append(n)
            except Unsupported as ex:
                # an accessor outside the subset does not stop the regeneration of everything else (the other 19 properties do not depend
                # on this module): it becomes a stub of type `Untranslated`, is not callable by later accessors (they become stubs as well),
                # and `Props.Accessors` + the ACC correspondence of C18 fail on it
                del T.out[n0:]; T.sigs.pop(n, None)
                report['failed'].append('%s: %s: %s' % (cfile, n, ex))
                T.out.append(T.stub(fnsets[cfile][n], str(ex)))
    chunks += T.out
    chunks.append('end Gen\n')
    files['Accessors.lean'] = '\n'.join(chunks)
    # float getters / setters (float, double = IEEE-754 bit patterns) and the handle setters of (byte) strings
    T.out = []
    acc2_files = []
    for f, _ in ACC2_JOBS:
        if f not in acc2_files: acc2_files.append(f)
    chunks = [HEADER % ', '.join(acc2_files + ['src/cbor/data.h']),
              PRELUDE_IMPORTS + 'import Cbor.Gen.Types\nimport Cbor.Gen.Unicode\nimport Cbor.Gen.Accessors\n',
              'set_option linter.unusedVariables false\nset_option maxRecDepth 4096\nnamespace Gen\n']
    for cfile, names in ACC2_JOBS:
        for n in names:
            if n not in fnsets[cfile]: raise Unsupported('%s: no definition of %s' % (cfile, n))
            n0 = len(T.out)
            try:
                T.function(fnsets[cfile][n])
                report['functions'].append(n)
            except Unsupported as ex:
                del T.out[n0:]; T.sigs.pop(n, None)          # a stub, as for the accessors above: only the checks that use it fail
                report['failed'].append('%s: %s: %s' % (cfile, n, ex))
                T.out.append(T.stub(fnsets[cfile][n], str(ex)))
    chunks += T.out
    chunks.append('end Gen\n')
    files['Accessors2.lean'] = '\n'.join(chunks)
    # leaf serializers: item (read-only) + output buffer; strings / serialized_size under stated assumptions
    T.out = []
    for fs in fnsets.values():
        for n_, d_ in fs.items(): T.fndecls.setdefault(n_, d_)
    chunks = [HEADER % ', '.join([f for f, _ in SER_JOBS] + ['src/cbor/bytestrings.c', 'src/cbor/strings.c', 'src/cbor/data.h']),
              PRELUDE_IMPORTS + 'import Cbor.PreludeMem\nimport Cbor.Gen.MemoryUtils\nimport Cbor.Gen.Encoding\nimport Cbor.Gen.HeaderSize\n'
              'import Cbor.Gen.Accessors\nimport Cbor.Gen.Accessors2\n',
              'set_option linter.unusedVariables false\nset_option maxRecDepth 4096\nnamespace Gen\n']
    T.ser_mode = True
    for cfile, names in SER_JOBS:
        for n in names:
            if n not in fnsets[cfile]: raise Unsupported('%s: no definition of %s' % (cfile, n))
            n0 = len(T.out)
            T.assume = SER_ASSUME.get(n, [])
            try:
                T.function(fnsets[cfile][n])
                report['functions'].append(n)
            except Unsupported as ex:
                del T.out[n0:]; T.sigs.pop(n, None)          # a stub, as for the accessors above: only the checks that use it fail
                report['failed'].append('%s: %s: %s' % (cfile, n, ex))
                T.out.append(T.stub(fnsets[cfile][n], str(ex)))
    T.ser_mode = False; T.assume = []
    chunks += T.out
    chunks.append('end Gen\n')
    files['Serializers.lean'] = '\n'.join(chunks)
    return files, report


if __name__ == '__main__':
    repo = os.environ.get('VERIF_REPO', '/repo')
    out = sys.argv[1] if len(sys.argv) > 1 else '/tmp/gen'
    files, rep = generate(repo, out, os.path.join(out, '_cfg'))
    os.makedirs(out, exist_ok=True)
    for f, c in files.items():
        open(os.path.join(out, f), 'w').write(c)
    print(json.dumps(rep))

#!/usr/bin/env python3
"""Run once after a fresh restore (offline): regenerate the Gen layer from /repo, build the whole Lean library
and both drivers, compile the default harness."""
import os, sys, time
sys.path.insert(0, os.path.dirname(os.path.abspath(__file__)))
from vlib import core

t0 = time.time()
rg = core.regen()
print('regen:', rg['ok'], rg['error'] or '', 'changed:', rg['changed'])
if not rg['ok']: sys.exit(1)
import importlib
targets = ['Cbor', 'cbordrv', 'specdrv']
for i in range(1, 21):
    m = importlib.import_module('checks.C%02d' % i).PROP
    for t in [m.module] + list(m.extra_modules):
        if t not in targets: targets.append(t)
lb = core.lake_build(targets)
print('lake build:', lb['ok'], '%.0fs' % lb['wall_s'])
if not lb['ok']:
    print(lb['out'][-4000:]); sys.exit(1)
hb = core.build_harness('asan')
print('harness:', hb['ok'], hb['out'][-2000:])
hb2 = core.build_harness('asanrel')
print('harness (release configuration):', hb2['ok'], hb2['out'][-2000:])
print('setup done in %.0fs' % (time.time() - t0))
sys.exit(0 if hb['ok'] and hb2['ok'] else 1)

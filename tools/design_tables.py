#!/usr/bin/env python3
"""Print the markdown tables of DESIGN.md §15.7 from seeded/*/meta.json and harmless/*/meta.json."""
import json, glob, os, sys, io
buf = io.StringIO(); _print = print
def print(*a, **k): _print(*a, file=buf, **k)
print('| change | what it does | caught by (quick tier) |\n|---|---|---|')
for p in sorted(glob.glob('/verif/seeded/*/meta.json')):
    m = json.load(open(p))
    cb = m.get('caught_by') or {}
    def short(v): return {'concrete-input': 'concrete', 'no-failing-input-found': 'nfif'}.get(v, v)
    c = ', '.join('%s: %s' % (k, short(v)) for k, v in cb.items()) if isinstance(cb, dict) else str(cb)
    s = ' '.join(m.get('summary', '').split())
    print('| %s | %s | %s |' % (m.get('id', os.path.basename(os.path.dirname(p))), (s[:150] + '…') if len(s) > 150 else s, c))
print()
print('| rewrite | file(s) | what | outcome (quick checks of the touched anchors) |\n|---|---|---|---|')
for p in sorted(glob.glob('/verif/harmless/*/meta.json')):
    m = json.load(open(p))
    o = m.get('outcome') or {}
    oc = ', '.join('%s: %s' % (k, v) for k, v in o.items() if not k.endswith('_detail'))
    w = ' '.join(m.get('what', '').split())
    print('| %s | %s | %s | %s |' % (m['id'], m.get('files', ''), (w[:140] + '…') if len(w) > 140 else w, oc))

out = buf.getvalue().split('\n\n')
if '--write' in sys.argv:
    d = open('/verif/DESIGN.md').read()
    def put(d, tag, body):
        a = d.index('<!-- BEGIN %s -->' % tag) + len('<!-- BEGIN %s -->' % tag); b = d.index('<!-- END %s -->' % tag)
        return d[:a] + '\n' + body.strip() + '\n' + d[b:]
    d = put(d, 'seeded-table', out[0]); d = put(d, 'harmless-table', out[1])
    open('/verif/DESIGN.md', 'w').write(d)
else:
    _print(buf.getvalue())

#!/usr/bin/env python3
"""Run behaviour-preserving rewrites (harmless/<id>/patch.diff) against the quick checks of the properties whose anchors they touch and record
the outcome in harmless/<id>/meta.json (quiet / which checks raised an alarm).    tools/harmless.py [--verif DIR] [ids...]"""
import subprocess, sys, json, os, glob, shutil, re
args = sys.argv[1:]
vdir = '/verif'
if '--verif' in args:
    i = args.index('--verif'); vdir = args[i + 1]; del args[i:i + 2]
ids = args or sorted(os.path.basename(os.path.dirname(p)) for p in glob.glob('/verif/harmless/*/patch.diff'))
BY_FILE = {
    'streaming.c': ['C08', 'C09', 'C10', 'C01', 'C02', 'C05', 'C14'], 'loaders.c': ['C08', 'C10', 'C15', 'C02'], 'encoders.c': ['C10', 'C07', 'C03'],
    'encoding.c': ['C10', 'C15', 'C07', 'C03'], 'memory_utils.c': ['C20', 'C12', 'C06', 'C01'], 'unicode.c': ['C16'], 'serialization.c': ['C03', 'C07', 'C18', 'C20', 'C13'],
    'arrays.c': ['C12', 'C04', 'C06', 'C18'], 'maps.c': ['C12', 'C04', 'C06', 'C18'], 'strings.c': ['C16', 'C12', 'C04', 'C18'], 'bytestrings.c': ['C12', 'C04', 'C20', 'C18'],
    'tags.c': ['C04', 'C18', 'C11'], 'common.c': ['C04', 'C13', 'C19', 'C18'], 'cbor.c': ['C02', 'C05', 'C11', 'C06', 'C17'], 'builder_callbacks.c': ['C02', 'C05', 'C19', 'C06', 'C14'],
    'stack.c': ['C19', 'C02', 'C13'], 'ints.c': ['C18', 'C03', 'C11'], 'floats_ctrls.c': ['C18', 'C15', 'C03'],
}
def sh(cmd, **kw): return subprocess.run(cmd, shell=True, capture_output=True, text=True, **kw)
for hid in ids:
    d = '/verif/harmless/' + hid
    patch = open(d + '/patch.diff').read()
    files = sorted(set(os.path.basename(f) for f in re.findall(r'^\+\+\+ b/(\S+)', patch, re.M)))
    checks = []
    for f in files:
        for c in BY_FILE.get(f, []):
            if c not in checks: checks.append(c)
    wt = '/tmp/mx/hw-' + hid
    sh('git -C /repo worktree remove --force ' + wt); shutil.rmtree(wt, ignore_errors=True); os.makedirs('/tmp/mx', exist_ok=True)
    r = sh('git -C /repo worktree add -q --detach %s HEAD' % wt); assert r.returncode == 0, r.stderr
    r = sh('git apply %s/patch.diff' % d, cwd=wt); assert r.returncode == 0, r.stderr
    env = dict(os.environ, VERIF_REPO=wt)
    res = {}
    try:
        for c in checks:
            p = subprocess.run('python3 %s/check.py %s --tier quick' % (vdir, c), shell=True, capture_output=True, text=True, cwd=vdir, env=env)
            v = [l for l in p.stdout.split('\n') if l.startswith('VIOLATION')]
            res[c] = 'quiet' if not v and p.returncode == 0 else ('ALARM(no-failing-input-found)' if v and 'no-failing-input-found' in v[0] else 'ALARM(concrete)' if v else 'rc=%d' % p.returncode)
            if res[c] != 'quiet':
                rp = re.search(r'replay=(\S+)', v[0]) if v else None
                if rp and os.path.exists(rp.group(1)):
                    try: res[c + '_detail'] = json.dumps(json.load(open(rp.group(1))).get('no_longer_checks') or json.load(open(rp.group(1))).get('failure'))[:600]
                    except Exception: pass
    finally:
        sh('git -C /repo worktree remove --force ' + wt); shutil.rmtree(wt, ignore_errors=True)
    m = json.load(open(d + '/meta.json')); m['checks_run'] = checks; m['outcome'] = res
    json.dump(m, open(d + '/meta.json', 'w'), indent=1)
    print(hid, files, {k: v for k, v in res.items() if not k.endswith('_detail')}, flush=True)
    for k, v in res.items():
        if k.endswith('_detail'): print('     ', k, v[:400], flush=True)
subprocess.run('python3 -c "import sys; sys.path.insert(0, \'%s\'); from vlib import core; core.regen()"' % vdir, shell=True, cwd=vdir,
               env={k: v for k, v in os.environ.items() if k != 'VERIF_REPO'})

#!/usr/bin/env python3
"""tools/manifest_add.py <id> <text> <note> <technique>  — register / update one claimed check in MANIFEST.json"""
import json, sys
pid, text, note, tech = sys.argv[1:5]
m = json.load(open('/verif/MANIFEST.json'))
m['not_applicable'] = [x for x in m['not_applicable'] if x['property_id'] != pid]
m['checks'] = [c for c in m['checks'] if c['property_id'] != pid]
m['checks'].append({"property_id": pid, "quick_cmd": "python3 check.py %s --tier quick" % pid,
                    "thorough_cmd": "python3 check.py %s --tier thorough" % pid, "evidence_file": "evidence/%s.json" % pid,
                    "replay_cmd_template": "python3 check.py %s --replay {path}" % pid, "engine": "lean-proofs",
                    "level_claimed": {"category": "proof", "text": text, "design_ref": "DESIGN.md §6 " + pid},
                    "level_note": note, "technique": tech})
m['checks'].sort(key=lambda c: c['property_id'])
for e in m['engines']:
    if pid not in e['serves_properties']: e['serves_properties'] = sorted(e['serves_properties'] + [pid])
json.dump(m, open('/verif/MANIFEST.json', 'w'), indent=1)

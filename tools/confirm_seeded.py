#!/usr/bin/env python3
"""Confirm a sub-agent's seeded change independently and store it under /verif/seeded/<id>/.

  tools/confirm_seeded.py C07 A      (reads /tmp/wt/C07/_mutant/A/{patch.diff,demo.c,meta.json})

In a fresh scratch worktree of /repo (removed afterwards): patch applies; library + tests build; the pinned
ctest suite passes with the change; the demonstration fails with the change and passes without it."""
import json, os, shutil, subprocess, sys, tempfile

def sh(cmd, cwd=None, timeout=900):
    p = subprocess.run(cmd, shell=True, cwd=cwd, capture_output=True, text=True, timeout=timeout)
    return p.returncode, (p.stdout + p.stderr)[-3000:]

def main(pid, x):
    src = "%s/%s/_mutant/%s" % (os.environ.get("MUT_ROOT", "/tmp/wt"), pid, x)
    name = '%s-%s' % (pid, x)
    wt = tempfile.mkdtemp(prefix='confirm-%s-' % name, dir='/tmp')
    os.rmdir(wt)
    res = {'id': name, 'property': pid}
    try:
        rc, o = sh('git -C /repo worktree add -q --detach %s HEAD' % wt); assert rc == 0, o
        cfg = 'cmake -G Ninja -B _build -DWITH_TESTS=ON -DCMAKE_BUILD_TYPE=RelWithDebInfo -DCMAKE_C_FLAGS=-Wno-error -DSANITIZE=ON >/dev/null 2>&1 && cmake --build _build 2>&1 | tail -3'
        rc, o = sh(cfg, cwd=wt); assert rc == 0, o
        demo_files = [f for f in os.listdir(src) if f not in ('patch.diff', 'meta.json', 'demo') and not f.endswith('.o')]
        ddir = os.path.join(wt, '_demo'); os.makedirs(ddir)
        for f in demo_files:
            s = os.path.join(src, f)
            if os.path.isfile(s): shutil.copy(s, ddir)
        def build_demo():
            if os.path.exists(os.path.join(ddir, 'demo.sh')):
                return sh('WT=%s sh demo.sh %s' % (wt, wt), cwd=ddir, timeout=900)
            rc, o = sh('cc -g -fsanitize=address,undefined -I%s/src -I%s/_build -I%s/_build/src demo.c $(find %s/src -name "*.c") -lm -lpthread -o demo 2>&1 | tail -5' % (wt, wt, wt, wt), cwd=ddir)
            if not os.path.exists(os.path.join(ddir, 'demo')): return 99, 'demo did not build: ' + o
            return sh('./demo', cwd=ddir, timeout=600)
        # clean: demo passes
        rc_clean, out_clean = build_demo()
        res['demo_clean_rc'] = rc_clean
        rc, o = sh('git apply %s/patch.diff' % src, cwd=wt); assert rc == 0, 'patch does not apply: ' + o
        rc, o = sh('cmake --build _build 2>&1 | tail -5', cwd=wt); res['build_rc'] = rc
        assert rc == 0, 'does not compile: ' + o
        rc, o = sh('ctest --test-dir _build -j8 --timeout 900 2>&1 | tail -4', cwd=wt)
        res['suite_rc'] = rc; res['suite_tail'] = o[-300:]
        if os.path.exists(os.path.join(ddir, 'demo')): os.remove(os.path.join(ddir, 'demo'))
        rc_mut, out_mut = build_demo()
        res['demo_mutant_rc'] = rc_mut; res['demo_mutant_tail'] = out_mut[-600:]
        ok = rc_clean == 0 and res['suite_rc'] == 0 and rc_mut != 0
        res['confirmed'] = ok
        if ok:
            dst = '/verif/seeded/%s' % name
            os.makedirs(dst, exist_ok=True)
            shutil.copy(os.path.join(src, 'patch.diff'), dst)
            for f in demo_files:
                s = os.path.join(src, f)
                if os.path.isfile(s) and os.path.getsize(s) < 200000: shutil.copy(s, dst)
            meta = json.load(open(os.path.join(src, 'meta.json')))
            meta['id'] = name
            meta['confirmed_by_me'] = ('scratch worktree of /repo HEAD: patch applies, builds, ctest 26/26 pass with the change, '
                                       'demo exit %d with the change, exit 0 without' % rc_mut)
            meta.setdefault('caught_by', 'not yet run')
            json.dump(meta, open(os.path.join(dst, 'meta.json'), 'w'), indent=1)
    except AssertionError as ex:
        res['confirmed'] = False; res['error'] = str(ex)[-800:]
    finally:
        sh('git -C /repo worktree remove --force %s' % wt)
        shutil.rmtree(wt, ignore_errors=True)
    print(json.dumps(res))
    return 0 if res.get('confirmed') else 1

if __name__ == '__main__':
    sys.exit(main(sys.argv[1], sys.argv[2]))

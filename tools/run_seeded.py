#!/usr/bin/env python3
"""Apply a seeded change to /repo, run the given checks (quick), undo it.   tools/run_seeded.py C08-A C08 [C09 ...]"""
import subprocess, sys, json, os
sid = sys.argv[1]; checks = sys.argv[2:]
tier = os.environ.get('TIER', 'quick')
assert subprocess.run('git -C /repo status --porcelain --untracked-files=no', shell=True, capture_output=True, text=True).stdout.strip() == '', '/repo not clean'
rc = subprocess.run('git -C /repo apply /verif/seeded/%s/patch.diff' % sid, shell=True).returncode
assert rc == 0
res = {}
try:
    for c in checks:
        p = subprocess.run('python3 /verif/check.py %s --tier %s' % (c, tier), shell=True, capture_output=True, text=True, cwd='/verif')
        v = [l for l in p.stdout.split('\n') if l.startswith(('VIOLATION', 'KNOWN'))]
        res[c] = {'rc': p.returncode, 'lines': v[:3]}
        print(sid, c, 'rc=%d' % p.returncode, v[:1], flush=True)
finally:
    subprocess.run('git -C /repo checkout -- .', shell=True)
    sys.path.insert(0, '/verif')
    from vlib import core
    core.regen()   # the generated model must describe the restored tree again

#!/usr/bin/env python3
"""Proof-robustness loop for behaviour-preserving rewrites: regenerate the Gen layer from a copy of /repo with one rewrite applied and
rebuild every property module (no harness, no correspondence: only "do the proofs still go through?").

  tools/robust.py [ids...]            (ids from harmless/; default all)       exit 0 iff every rewrite leaves all proofs intact
Uses the lake project next to this file (run it from a private copy of /verif when experimenting)."""
import os, sys, subprocess, shutil, glob, json, re, importlib
HERE = os.path.dirname(os.path.dirname(os.path.abspath(__file__)))
sys.path.insert(0, HERE)
ids = sys.argv[1:] or sorted(os.path.basename(os.path.dirname(p)) for p in glob.glob(os.path.join(HERE, 'harmless', '*', 'patch.diff')))

def sh(cmd, **kw): return subprocess.run(cmd, shell=True, capture_output=True, text=True, **kw)

def targets():
    t = []
    for i in range(1, 21):
        m = importlib.import_module('checks.C%02d' % i).PROP
        for x in [m.module] + list(m.extra_modules):
            if x not in t: t.append(x)
    return t

def regen(repo):
    env = dict(os.environ, VERIF_REPO=repo)
    return sh('python3 -c "import sys, json; sys.path.insert(0, %r); from vlib import core; r = core.regen(); print(json.dumps(r[\'hashes\'], sort_keys=True)); print(r[\'ok\'], r[\'error\'], r[\'changed\'])"' % HERE, env=env, cwd=HERE)

def hashes(g):
    """the content hashes of the generated files, as printed by regen() on the line before the status line"""
    ls = g.stdout.strip().split('\n')
    try: return json.loads(ls[-2])
    except Exception: return None

T = targets()
bad = 0
BASE = hashes(regen('/repo'))     # the model of the unchanged source: `identical-model` means "same text as this", whatever
                                  # rewrite happened to be on disk from the previous iteration
for hid in ids:
    wt = '/tmp/mx/rb-%s-%s' % (os.path.basename(HERE), hid)
    sh('git -C /repo worktree remove --force ' + wt); shutil.rmtree(wt, ignore_errors=True); os.makedirs('/tmp/mx', exist_ok=True)
    assert sh('git -C /repo worktree add -q --detach %s HEAD' % wt).returncode == 0
    r = sh('git apply %s' % os.path.join(HERE, 'harmless', hid, 'patch.diff'), cwd=wt); assert r.returncode == 0, r.stderr
    try:
        g = regen(wt)
        line = g.stdout.strip().split('\n')[-1] if g.stdout.strip() else g.stderr[-300:]
        if not line.startswith('True'):
            print(hid, 'TRANSLATOR', line[:300], flush=True); bad += 1; continue
        if (hashes(g) == BASE) if BASE is not None else line.endswith('[]'):
            print(hid, 'identical-model', flush=True); continue
        p = sh('lake build ' + ' '.join(T), cwd=os.path.join(HERE, 'lean'), timeout=3600)
        if p.returncode == 0: print(hid, 'proofs-ok', line[:120], flush=True)
        else:
            errs = re.findall(r'error: (Cbor/\S+?):(\d+)', p.stdout + p.stderr)
            files = sorted(set(f for f, _ in errs))
            print(hid, 'BROKEN', files, flush=True); bad += 1
            for l in (p.stdout + p.stderr).split('\n'):
                if l.startswith('error:'): print('     ', l[:260], flush=True)
    finally:
        sh('git -C /repo worktree remove --force ' + wt); shutil.rmtree(wt, ignore_errors=True)
g = regen('/repo')
print('restored Gen from /repo:', g.stdout.strip().split('\n')[-1][:100])
sys.exit(1 if bad else 0)

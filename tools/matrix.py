#!/usr/bin/env python3
"""Run every seeded change against its own property's quick check (plus any extra checks named on the command line) and record the result in
seeded/<id>/meta.json (caught_by).   tools/matrix.py [ids...]"""
import subprocess, sys, json, os, glob
sys.path.insert(0, '/verif')
ids = sys.argv[1:] or sorted(os.path.basename(os.path.dirname(p)) for p in glob.glob('/verif/seeded/*/patch.diff'))
EXTRA = {'C04-A': ['C06', 'C12'], 'C12-A': ['C06'], 'C09-A': ['C08'], 'C09-B': ['C08'], 'C03-A': ['C07', 'C10'], 'C03-B': ['C07', 'C15'], 'C19-B': ['C02', 'C05']}
for sid in ids:
    prop = sid.split('-')[0]
    checks = [prop] + EXTRA.get(sid, [])
    assert subprocess.run('git -C /repo status --porcelain --untracked-files=no', shell=True, capture_output=True, text=True).stdout.strip() == '', '/repo not clean'
    assert subprocess.run('git -C /repo apply /verif/seeded/%s/patch.diff' % sid, shell=True).returncode == 0
    caught = {}
    try:
        for c in checks:
            p = subprocess.run('python3 /verif/check.py %s --tier quick' % c, shell=True, capture_output=True, text=True, cwd='/verif')
            v = [l for l in p.stdout.split('\n') if l.startswith('VIOLATION')]
            caught[c] = ('concrete-input' if v and 'no-failing-input-found' not in v[0] else 'no-failing-input-found' if v else 'MISSED')
    finally:
        subprocess.run('git -C /repo checkout -- .', shell=True)
    mp = '/verif/seeded/%s/meta.json' % sid
    m = json.load(open(mp)); m['caught_by'] = caught; json.dump(m, open(mp, 'w'), indent=1)
    print(sid, caught, flush=True)
from vlib import core
core.regen()

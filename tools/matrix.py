#!/usr/bin/env python3
"""Run seeded changes against the quick check of their own property (plus extra checks) and record the result in
seeded/<id>/meta.json (caught_by).

  tools/matrix.py [--in-repo] [--verif DIR] [ids... | id:check,check ...]

Default mode: each change is applied in a scratch worktree of /repo (removed afterwards) and the checks run with
VERIF_REPO pointing at it, so /repo itself is never touched and other runs that read /repo are not disturbed.
--in-repo: apply to /repo itself (git -C /repo apply), run, undo (git -C /repo checkout -- .) — the way the checks are used.
--verif DIR: run the checks from a copy of /verif (so that /verif's lake project stays free for other work)."""
import subprocess, sys, json, os, glob, shutil
args = sys.argv[1:]
in_repo = '--in-repo' in args
if in_repo: args.remove('--in-repo')
vdir = '/verif'
if '--verif' in args:
    i = args.index('--verif'); vdir = args[i + 1]; del args[i:i + 2]
ids = args or sorted(os.path.basename(os.path.dirname(p)) for p in glob.glob('/verif/seeded/*/patch.diff'))
EXTRA = {'C04-A': ['C06', 'C12'], 'C12-A': ['C06'], 'C09-A': ['C08'], 'C09-B': ['C08'], 'C03-A': ['C07', 'C10'], 'C03-B': ['C07', 'C15'], 'C19-B': ['C02', 'C05']}

def sh(cmd, **kw):
    return subprocess.run(cmd, shell=True, capture_output=True, text=True, **kw)

for spec in ids:
    sid, _, extra = spec.partition(':')
    prop = sid.split('-')[0]
    checks = [prop] + [c for c in (extra.split(',') if extra else EXTRA.get(sid, [])) if c != prop]
    env = dict(os.environ)
    if in_repo:
        assert sh('git -C /repo status --porcelain --untracked-files=no').stdout.strip() == '', '/repo not clean'
        assert sh('git -C /repo apply /verif/seeded/%s/patch.diff' % sid).returncode == 0
    else:
        wt = '/tmp/mx/wt-' + os.path.basename(vdir) + '-' + sid
        sh('git -C /repo worktree remove --force ' + wt); shutil.rmtree(wt, ignore_errors=True)
        os.makedirs('/tmp/mx', exist_ok=True)
        r = sh('git -C /repo worktree add -q --detach %s HEAD' % wt); assert r.returncode == 0, r.stderr
        r = sh('git apply /verif/seeded/%s/patch.diff' % sid, cwd=wt); assert r.returncode == 0, r.stderr
        env['VERIF_REPO'] = wt
    caught = {}; detail = {}
    try:
        for c in checks:
            p = subprocess.run('python3 %s/check.py %s --tier %s' % (vdir, c, os.environ.get('TIER', 'quick')), shell=True,
                               capture_output=True, text=True, cwd=vdir, env=env)
            v = [l for l in p.stdout.split('\n') if l.startswith('VIOLATION')]
            caught[c] = ('concrete-input' if v and 'no-failing-input-found' not in v[0] else 'no-failing-input-found' if v else 'MISSED')
            detail[c] = v[:2]
    finally:
        if in_repo: sh('git -C /repo checkout -- .')
        else:
            sh('git -C /repo worktree remove --force ' + wt); shutil.rmtree(wt, ignore_errors=True)
    mp = '/verif/seeded/%s/meta.json' % sid
    m = json.load(open(mp))
    cb = m.get('caught_by') if isinstance(m.get('caught_by'), dict) else {}
    cb.update(caught); m['caught_by'] = cb
    json.dump(m, open(mp, 'w'), indent=1)
    print(sid, caught, flush=True)
    for c, v in detail.items():
        for l in v: print('    ', c, l[:300], flush=True)
# the generated model must describe the unchanged tree again
subprocess.run('python3 -c "import sys; sys.path.insert(0, \'%s\'); from vlib import core; core.regen()"' % vdir, shell=True, cwd=vdir,
               env={k: v for k, v in os.environ.items() if k != 'VERIF_REPO'})

import Cbor.Drv.SpecOps
/-! `specdrv`: executable form of the Spec layer (never imports `Cbor.Gen` or `Cbor.Model`):
the property oracle used to search the implementation for a failing input. -/

def specStep (line : String) : String :=
  let ws := (line.trimAscii.toString.splitOn " ").filter (· ≠ "")
  match Drv.specOp ws with
  | some out => out
  | none => "bad-op"

partial def specLoop (h : IO.FS.Stream) (out : IO.FS.Stream) : IO Unit := do
  let line ← h.getLine
  if line.isEmpty then return ()
  out.putStrLn (specStep line)
  specLoop h out

def main : IO Unit := do
  specLoop (← IO.getStdin) (← IO.getStdout)

import Cbor.Model.Heap
/-!
# Heap-level model of the incremental tree builder and of `cbor_load`

Hand-written; mirrors `src/cbor/internal/builder_callbacks.c`, `src/cbor/internal/stack.c` and the `cbor_load`
loop of `src/cbor.c` branch by branch **on the heap `Heap.H`**, in the control-flow shape of the value-level model
`Model/Builder.lean`: items are heap cells with reference counts, every allocator request goes through
`Heap.H.req` / `new1` / `new2` / `newMulti` / `grow` (same order and number as `Model.Builder`), every
`cbor_decref` of the C code is a `Heap.H.decref`, and every error exit of `cbor_load` runs its clean-up loop.

One representation choice: in C `_cbor_map_add_key` stores the key in the next pair slot with a NULL value and takes
a reference, and the builder then drops its own; `Heap.Node.map` has no half-filled pairs, so the frame keeps that
one reference (`Frame.key`) until the value arrives, when the pair is appended with `Heap.mapAdd` (which takes a
reference to both) and the builder's references to value and key are dropped.  `cbor_decref` of a map with a
half-filled last pair releases that key as well; so the clean-up loop releases the frame's item and a pending key.
-/
namespace HB
open Heap (H Ref Node Cell Oracle)

/-- `struct _cbor_stack_record`, plus the pending key of a map whose value has not arrived yet -/
structure Frame where
  item : Ref
  subitems : UInt64
  key : Option Ref := none
deriving Repr, Inhabited

/-- `struct _cbor_decoder_context` (with its stack), and the heap -/
structure Ctx where
  h : H
  stack : List Frame := []          -- top first
  root : Option Ref := none
  creationFailed : Bool := false
  syntaxError : Bool := false
deriving Repr, Inhabited

/-- `cbor_array_push(parent, item)` followed by `cbor_decref(&item)` (also when the push is refused) -/
def pushDec (ω : Oracle) (h : H) (a x : Ref) : Bool × H :=
  let (ok, h) := Heap.arrPush ω h a x
  (ok, h.decref x)

/-- `cbor_bytestring_add_chunk` / `cbor_string_add_chunk` followed by `cbor_decref(&chunk)` -/
def chunkDec (ω : Oracle) (h : H) (s c : Ref) : Bool × H :=
  let (ok, h) := Heap.addChunk ω h s c
  (ok, h.decref c)

/-- the capacity part of `_cbor_map_add_key`: a full definite map refuses, a full indefinite map grows
(overflow guards, then one request); only the capacity of the map cell changes -/
def mapKey (ω : Oracle) (h : H) (m : Ref) : Bool × H :=
  match h.get m with
  | some ⟨.map true pairs alloc, _⟩ => if pairs.length ≥ alloc then (false, h) else (true, h)
  | some ⟨.map false pairs alloc, rc⟩ =>
    if pairs.length ≥ alloc then
      match Heap.grow ω h 16 alloc with
      | (some na, h) => (true, h.put m (some ⟨.map false pairs na, rc⟩))
      | (none, h) => (false, h)
    else (true, h)
  | _ => (false, h.bad)

/-- `_cbor_map_add_key(map, key)` followed by `cbor_decref(&key)`: on success the map's reference to the key
(kept in the frame) replaces the builder's; on refusal the key is released -/
def keyDec (ω : Oracle) (h : H) (m k : Ref) : Bool × H :=
  let (ok, h) := mapKey ω h m
  if ok then (true, (h.incref k).decref k) else (false, h.decref k)

/-- `_cbor_map_add_value(map, value)` followed by `cbor_decref(&value)`; the pair is completed, the reference the
frame held to the key is now the pair's -/
def valDec (ω : Oracle) (h : H) (m k v : Ref) : Bool × H :=
  let (ok, h) := Heap.mapAdd ω h m k v
  (ok, (h.decref v).decref k)

/-- `_cbor_builder_append`: deliver a finished item to the item on top of the stack.  `fuel` bounds the
cascade of completed definite containers (at most the stack height). -/
def append (ω : Oracle) : Nat → Ref → Ctx → Ctx
  | 0, _, c => { c with h := c.h.bad }
  | fuel+1, item, c =>
    match c.stack with
    | [] => { c with root := some item }
    | top :: rest =>
      match c.h.get top.item with
      | some ⟨.arr true _ _, _⟩ =>
        if top.subitems = 0 then { c with h := c.h.bad } else        -- CBOR_ASSERT(subitems > 0)
        match pushDec ω c.h top.item item with
        | (false, h) => { c with h := h, creationFailed := true }
        | (true, h) =>
          let sub := top.subitems - 1
          if sub = 0 then append ω fuel top.item { c with h := h, stack := rest }
          else { c with h := h, stack := { top with subitems := sub } :: rest }
      | some ⟨.arr false _ _, _⟩ =>
        match pushDec ω c.h top.item item with
        | (false, h) => { c with h := h, creationFailed := true }
        | (true, h) => { c with h := h }
      | some ⟨.map definite _ _, _⟩ =>
        if top.subitems % 2 = 1 then
          -- odd: this is a value
          match top.key with
          | none => { c with h := c.h.bad }
          | some k =>
            match valDec ω c.h top.item k item with
            | (false, h) => { c with h := h.bad }                    -- CBOR_ASSERT(!ctx->creation_failed)
            | (true, h) =>
              if definite then
                if top.subitems = 0 then { c with h := h.bad } else  -- CBOR_ASSERT(subitems > 0)
                let sub := top.subitems - 1
                if sub = 0 then append ω fuel top.item { c with h := h, stack := rest }
                else { c with h := h, stack := { top with subitems := sub, key := none } :: rest }
              else { c with h := h, stack := { top with subitems := top.subitems ^^^ 1, key := none } :: rest }
        else
          match keyDec ω c.h top.item item with
          | (false, h) => { c with h := h, creationFailed := true }
          | (true, h) =>
            if definite then
              if top.subitems = 0 then { c with h := h.bad } else    -- CBOR_ASSERT(subitems > 0)
              let sub := top.subitems - 1
              if sub = 0 then append ω fuel top.item { c with h := h, stack := rest }
              else { c with h := h, stack := { top with subitems := sub, key := some item } :: rest }
            else { c with h := h, stack := { top with subitems := top.subitems ^^^ 1, key := some item } :: rest }
      | some ⟨.tag _ _, _⟩ =>
        if top.subitems ≠ 1 then { c with h := c.h.bad } else        -- CBOR_ASSERT(subitems == 1)
        let h := ((Heap.tagSet c.h top.item item).2).decref item
        append ω fuel top.item { c with h := h, stack := rest }
      | some _ => { c with h := c.h.decref item, syntaxError := true }
      | none => { c with h := c.h.bad }

/-- `PUSH_CTX_STACK` with `_cbor_stack_push` (limit `L`, then one request for the record); on failure the new
item is released -/
def pushFrame (ω : Oracle) (L : Nat) (c : Ctx) (it : Ref) (sub : UInt64) : Ctx :=
  if c.stack.length = L then { c with h := c.h.decref it, creationFailed := true }
  else
    let (ok, h) := c.h.req ω
    if ok then { c with h := h, stack := { item := it, subitems := sub } :: c.stack }
    else { c with h := h.decref it, creationFailed := true }

def fuelOf (c : Ctx) : Nat := c.stack.length + 1

/-- integers, floats, simple values: one request for the item, then append -/
def scalar (ω : Oracle) (c : Ctx) (n : Node) : Ctx :=
  match Heap.new1 ω c.h n with
  | (some r, h) => let c := { c with h := h }; append ω (fuelOf c) r c
  | (none, h) => { c with h := h, creationFailed := true }

/-- definite (byte / text) string callback: copy buffer, item, then chunk-or-append -/
def stringCb (ω : Oracle) (c : Ctx) (isText : Bool) (data : List UInt8) : Ctx :=
  let (ok1, h) := c.h.req ω                                          -- _cbor_malloc(length)
  if !ok1 then { c with h := h, creationFailed := true } else
  let (ok2, h) := h.req ω                                            -- cbor_new_definite_(byte)string()
  if !ok2 then { c with h := h, creationFailed := true } else        -- _cbor_free(new_handle): no cell yet
  let (r, h) := h.new (.str isText data)
  let c := { c with h := h }
  match c.stack with
  | top :: _ =>
    match h.get top.item with
    | some ⟨.strI t _ _, _⟩ =>
      if t = isText then
        match chunkDec ω h top.item r with
        | (true, h) => { c with h := h }
        | (false, h) => { c with h := h, creationFailed := true }
      else append ω (fuelOf c) r c
    | _ => append ω (fuelOf c) r c
  | [] => append ω (fuelOf c) r c

/-- indefinite string start: item, then its chunk-table struct, then push -/
def indefString (ω : Oracle) (L : Nat) (c : Ctx) (isText : Bool) : Ctx :=
  match Heap.new2 ω c.h (.strI isText [] 0) with
  | (some r, h) => pushFrame ω L { c with h := h } r 0
  | (none, h) => { c with h := h, creationFailed := true }

def arrayStart (ω : Oracle) (L : Nat) (c : Ctx) (n : UInt64) : Ctx :=
  match Heap.newMulti ω c.h 8 n.toNat (.arr true [] n.toNat) with
  | (some r, h) =>
    let c := { c with h := h }
    if n > 0 then pushFrame ω L c r n else append ω (fuelOf c) r c
  | (none, h) => { c with h := h, creationFailed := true }

def mapStart (ω : Oracle) (L : Nat) (c : Ctx) (n : UInt64) : Ctx :=
  match Heap.newMulti ω c.h 16 n.toNat (.map true [] n.toNat) with
  | (some r, h) =>
    let c := { c with h := h }
    if n > 0 then pushFrame ω L c r (n * 2) else append ω (fuelOf c) r c
  | (none, h) => { c with h := h, creationFailed := true }

/-- indefinite array / map start (one block), then push with `subitems = 0` -/
def indefContainer (ω : Oracle) (L : Nat) (c : Ctx) (n : Node) : Ctx :=
  match Heap.new1 ω c.h n with
  | (some r, h) => pushFrame ω L { c with h := h } r 0
  | (none, h) => { c with h := h, creationFailed := true }

def tagCb (ω : Oracle) (L : Nat) (c : Ctx) (v : UInt64) : Ctx :=
  match Heap.new1 ω c.h (.tag v.toNat none) with
  | (some r, h) => pushFrame ω L { c with h := h } r 1
  | (none, h) => { c with h := h, creationFailed := true }

/-- `_cbor_is_indefinite` -/
def isIndefinite (h : H) (r : Ref) : Bool :=
  match h.get r with
  | some ⟨.strI _ _ _, _⟩ => true
  | some ⟨.arr d _ _, _⟩ => !d
  | some ⟨.map d _ _, _⟩ => !d
  | _ => false

def isMap (h : H) (r : Ref) : Bool :=
  match h.get r with
  | some ⟨.map _ _ _, _⟩ => true
  | _ => false

/-- `cbor_builder_indef_break_callback` -/
def breakCb (ω : Oracle) (c : Ctx) : Ctx :=
  match c.stack with
  | top :: rest =>
    if isIndefinite c.h top.item && (!isMap c.h top.item || top.subitems % 2 = 0) then
      append ω (fuelOf c) top.item { c with stack := rest }
    else { c with syntaxError := true }
  | [] => { c with syntaxError := true }

/-- dispatch one callback invocation of the streaming decoder to the builder -/
def callback (ω : Oracle) (L : Nat) (src : Array UInt8) (c : Ctx) : Gen.Event → Ctx
  | .uint8 v => scalar ω c (.int false .w8 v.toNat)
  | .uint16 v => scalar ω c (.int false .w16 v.toNat)
  | .uint32 v => scalar ω c (.int false .w32 v.toNat)
  | .uint64 v => scalar ω c (.int false .w64 v.toNat)
  | .negint8 v => scalar ω c (.int true .w8 v.toNat)
  | .negint16 v => scalar ω c (.int true .w16 v.toNat)
  | .negint32 v => scalar ω c (.int true .w32 v.toNat)
  | .negint64 v => scalar ω c (.int true .w64 v.toNat)
  | .byte_string off len =>
    if off + len.toNat ≤ src.size then stringCb ω c false (Model.bytesOf src off len.toNat) else { c with h := c.h.bad }
  | .byte_string_start => indefString ω L c false
  | .string off len =>
    if off + len.toNat ≤ src.size then stringCb ω c true (Model.bytesOf src off len.toNat) else { c with h := c.h.bad }
  | .string_start => indefString ω L c true
  | .array_start n => arrayStart ω L c n
  | .indef_array_start => indefContainer ω L c (.arr false [] 0)
  | .map_start n => mapStart ω L c n
  | .indef_map_start => indefContainer ω L c (.map false [] 0)
  | .tag v => tagCb ω L c v
  | .float2 f => scalar ω c (.half f.toNat)
  | .float4 f => scalar ω c (.single f.toNat)
  | .float8 f => scalar ω c (.double f.toNat)
  | .undefined => scalar ω c (.ctrl 23)
  | .null => scalar ω c (.ctrl 22)
  | .boolean b => scalar ω c (.ctrl (if b then 21 else 20))
  | .indef_break => breakCb ω c

/-- the clean-up loop of `cbor_load`: `while (stack.size > 0) { cbor_decref(&stack.top->item); _cbor_stack_pop(&stack); }`
(the release of a map with a half-filled last pair releases that pair's key) -/
def cleanup (h : H) : List Frame → H
  | [] => h
  | f :: fs =>
    let h := h.decref f.item
    cleanup (match f.key with | some k => h.decref k | none => h) fs

/-- the `do { … } while (stack.size > 0)` loop of `cbor_load` with its `error:` exit; `fuel` ≥ remaining bytes + 1 -/
def loadLoop (ω : Oracle) (L : Nat) (src : Array UInt8) : Nat → Ctx → Nat → Option Ref × Model.LoadResult × H
  | 0, c, read => (none, { code := .notEnough, position := read, read := read }, (cleanup c.h c.stack).bad)
  | fuel+1, c, read =>
    if src.size > read then
      let d := Gen.cbor_stream_decode src read (UInt64.ofNat (src.size - read))
      let c := d.2.foldl (callback ω L src) c
      if d.1.status = Gen.CBOR_DECODER_FINISHED then
        let read := read + d.1.read.toNat
        if c.creationFailed then (none, { code := .mem, position := read, read := read }, cleanup c.h c.stack)
        else if c.syntaxError then (none, { code := .syntax, position := read, read := read }, cleanup c.h c.stack)
        else if c.stack.length > 0 then loadLoop ω L src fuel c read
        else
          match c.root with
          | some r => (some r, { code := .none, position := 0, read := read }, c.h)
          | none => (none, { code := .none, position := 0, read := read }, c.h.bad)
      else if d.1.status = Gen.CBOR_DECODER_NEDATA then
        (none, { code := .notEnough, position := read, read := read }, cleanup c.h c.stack)
      else
        (none, { code := .malformed, position := read, read := read }, cleanup c.h c.stack)
    else
      (none, { code := .notEnough, position := read, read := read }, cleanup c.h c.stack)

/-- `cbor_load(source, source_size, &result)` on the heap `h` -/
def load (ω : Oracle) (L : Nat) (h : H) (src : Array UInt8) : Option Ref × Model.LoadResult × H :=
  if src.size = 0 then (none, { code := .noData, position := 0, read := 0 }, h)
  else loadLoop ω L src (src.size + 1) { h := h } 0

/-! ### sanity checks (kernel-evaluated)

`sanity src L k`: with request number `k` refused (all others granted) the heap builder reports what the value-level
model reports, makes as many requests, raises no fault, and either hands out cells that all have count 1 or leaves no
live cell behind. -/
def sanity (src : Array UInt8) (L k : Nat) : Bool :=
  let ω : Heap.Oracle := fun i => i != k
  let o := Model.load (fun i _ => ω i) L { code := .none, position := 0, read := 0 } src
  let r := load ω L {} src
  decide (r.2.1 = o.result) && r.2.2.reqs == o.reqs && !r.2.2.fault && !o.fault &&
    (match o.item, r.1 with
     | some _, some _ => r.2.2.cells.all (fun c => match c with | some c => c.rc == 1 | none => false)
     | none, none => r.2.2.liveCells == 0
     | _, _ => false)

-- `[1, [_ 2]]`: 8 requests; refusing any one of them, or none
example : (List.range 10).all (sanity #[0x82, 0x01, 0x9f, 0x02, 0xff] 100) = true := by decide
-- `{_ 1: 2, 3: 1(4), 5: 6}`: indefinite map with growth, a tag
example : (List.range 15).all (sanity #[0xbf, 0x01, 0x02, 0x03, 0xc1, 0x04, 0x05, 0x06, 0xff] 100) = true := by decide
-- `(_ h'01', h'0203', h'')`: chunks, growth of the chunk table
example : (List.range 14).all (sanity #[0x5f, 0x41, 0x01, 0x42, 0x02, 0x03, 0x40, 0xff] 100) = true := by decide
-- malformed head while a map key is pending and an array is open: the clean-up loop releases the key too
example : (List.range 8).all (sanity #[0xbf, 0x01, 0x82, 0x02, 0x1c] 100) = true := by decide
-- nesting limit 2 reached
example : (List.range 9).all (sanity #[0x81, 0x81, 0x81, 0x01] 2) = true := by decide

end HB

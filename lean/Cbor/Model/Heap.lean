import Cbor.Model.Builder
import Cbor.Model.Serialize
import Cbor.Gen.MemoryUtils
/-!
# Heap-level model of the item API: reference counts, ownership, capacities, allocator requests

Hand-written; mirrors `src/cbor/common.c` (incref / decref / move), `arrays.c`, `maps.c`, `bytestrings.c`,
`strings.c`, `tags.c`, `ints.c`, `floats_ctrls.c` and `cbor_copy` in `src/cbor.c` at the level the
properties C04, C06, C11, C12, C13 speak about: which items exist, who references whom, every reference count,
every container's contents and capacity, the order and number of allocator requests (an *oracle* decides
which requests are granted), and how many allocator blocks are live.  Addresses are not modelled: an item is
a `Ref` (an index that is never reused).  The overflow guards are the **generated** `Gen._cbor_safe_to_multiply`.

Tied to the C code by the `H…` history operations of the harness (`harness/hist_ops.c`) and driver
(`Cbor/Drv/HistOps.lean`): after every operation both print the result, every slot's reference count,
container sizes and capacities, the number of live blocks and of allocator requests.
-/
namespace Heap
open Spec (Item Width)

abbrev Ref := Nat

inductive Node
  | int (neg : Bool) (w : Width) (v : Nat)
  | str (text : Bool) (bytes : List UInt8)                  -- definite string owning its payload block
  | strI (text : Bool) (chunks : List Ref) (cap : Nat)      -- indefinite string: chunk items, chunk capacity
  | arr (definite : Bool) (items : List Ref) (alloc : Nat)
  | map (definite : Bool) (pairs : List (Ref × Ref)) (alloc : Nat)
  | tag (n : Nat) (item : Option Ref)
  | ctrl (v : Nat)
  | half (f : Nat)
  | single (b : Nat)
  | double (b : Nat)
deriving Repr, Inhabited, DecidableEq

/-- the references a node holds, in the order `cbor_decref` releases them -/
def Node.children : Node → List Ref
  | .strI _ cs _ => cs
  | .arr _ xs _ => xs
  | .map _ ps _ => ps.flatMap fun kv => [kv.1, kv.2]
  | .tag _ (some x) => [x]
  | _ => []

/-- allocator blocks a node occupies (item header, payload / slot array / chunk bookkeeping) -/
def Node.blocks : Node → Nat
  | .str _ _ => 2
  | .strI _ _ cap => 2 + (if cap = 0 then 0 else 1)
  | .arr true _ _ => 2
  | .arr false _ a => 1 + (if a = 0 then 0 else 1)
  | .map true _ _ => 2
  | .map false _ a => 1 + (if a = 0 then 0 else 1)
  | _ => 1

structure Cell where
  node : Node
  rc : Nat
deriving Repr, Inhabited, DecidableEq

structure H where
  cells : List (Option Cell) := []     -- index = Ref; `none` = released
  reqs : Nat := 0                      -- allocator requests made so far
  fault : Bool := false                -- the client broke a rule (touched a released item, wrong type, …)
deriving Repr, Inhabited

/-- which allocator requests (by index) are granted -/
abbrev Oracle := Nat → Bool

def H.get (h : H) (r : Ref) : Option Cell := (h.cells[r]?).join
def H.put (h : H) (r : Ref) (c : Option Cell) : H := { h with cells := h.cells.set r c }
def H.new (h : H) (n : Node) : Ref × H := (h.cells.length, { h with cells := h.cells ++ [some ⟨n, 1⟩] })
def H.req (ω : Oracle) (h : H) : Bool × H := (ω h.reqs, { h with reqs := h.reqs + 1 })
def H.bad (h : H) : H := { h with fault := true }
def H.liveBlocks (h : H) : Nat := (h.cells.map fun c => match c with | some c => c.node.blocks | none => 0).sum
def H.liveCells (h : H) : Nat := (h.cells.filter Option.isSome).length

def H.incref (h : H) (r : Ref) : H :=
  match h.get r with
  | some c => h.put r (some { c with rc := c.rc + 1 })
  | none => h.bad

/-- `cbor_decref`: drop one reference; at zero release the item and drop the references it held -/
def decref : Nat → H → Ref → H
  | 0, h, _ => h.bad
  | f+1, h, r =>
    match h.get r with
    | none => h.bad
    | some c =>
      if c.rc = 0 then h.bad
      else if c.rc = 1 then c.node.children.foldl (decref f) (h.put r none)
      else h.put r (some { c with rc := c.rc - 1 })

def H.fuel (h : H) : Nat := h.cells.length + 1

def H.decref (h : H) (r : Ref) : H := Heap.decref h.fuel h r

/-- one-block item (ints, floats, tags, indefinite arrays and maps) -/
def new1 (ω : Oracle) (h : H) (n : Node) : Option Ref × H :=
  let (ok, h) := h.req ω
  if ok then let (r, h) := h.new n; (some r, h) else (none, h)

/-- item header, then a second block (string payload, chunk bookkeeping); the header is released if the second is refused -/
def new2 (ω : Oracle) (h : H) (n : Node) : Option Ref × H :=
  let (ok, h) := h.req ω
  if !ok then (none, h) else
  let (ok2, h) := h.req ω
  if ok2 then let (r, h) := h.new n; (some r, h) else (none, h)

def mulOk (a b : Nat) : Bool := Gen._cbor_safe_to_multiply (UInt64.ofNat a) (UInt64.ofNat b)

/-- item header, then `_cbor_alloc_multiple(itemSize, count)`: the overflow guard refuses without asking the allocator -/
def newMulti (ω : Oracle) (h : H) (itemSize count : Nat) (n : Node) : Option Ref × H :=
  let (ok, h) := h.req ω
  if !ok then (none, h) else
  if !mulOk itemSize count then (none, h) else
  let (ok2, h) := h.req ω
  if ok2 then let (r, h) := h.new n; (some r, h) else (none, h)

/-- geometric growth of a slot array: the new capacity, or `none` when a guard or the allocator refuses -/
def grow (ω : Oracle) (h : H) (itemSize alloc : Nat) : Option Nat × H :=
  if !mulOk 2 alloc then (none, h) else
  let na := if alloc = 0 then 1 else 2 * alloc
  if !mulOk itemSize na then (none, h) else
  let (ok, h) := h.req ω
  if ok then (some na, h) else (none, h)

def arrPush (ω : Oracle) (h : H) (a x : Ref) : Bool × H :=
  match h.get a with
  | some ⟨.arr true items alloc, rc⟩ =>
    if items.length ≥ alloc then (false, h)
    else (true, (h.put a (some ⟨.arr true (items ++ [x]) alloc, rc⟩)).incref x)
  | some ⟨.arr false items alloc, rc⟩ =>
    if items.length ≥ alloc then
      match grow ω h 8 alloc with
      | (some na, h) => (true, (h.put a (some ⟨.arr false (items ++ [x]) na, rc⟩)).incref x)
      | (none, h) => (false, h)
    else (true, (h.put a (some ⟨.arr false (items ++ [x]) alloc, rc⟩)).incref x)
  | _ => (false, h.bad)

/-- `cbor_array_get`: a new reference to the member, or NULL beyond the end -/
def arrGet (h : H) (a : Ref) (i : Nat) : Option Ref × H :=
  match h.get a with
  | some ⟨.arr _ items _, _⟩ =>
    match items[i]? with
    | some x => (some x, h.incref x)
    | none => (none, h)
  | _ => (none, h.bad)

/-- `cbor_array_replace`.  The C code releases the old member first and then stores and increfs the new one; for a
client that owns a reference to `x` (the rule) the two orders are indistinguishable, and the model stores
first so that the books balance at every intermediate step. -/
def arrReplace (h : H) (a : Ref) (i : Nat) (x : Ref) : Bool × H :=
  match h.get a with
  | some ⟨.arr d items alloc, rc⟩ =>
    match items[i]? with
    | none => (false, h)
    | some old => (true, ((h.put a (some ⟨.arr d (items.set i x) alloc, rc⟩)).incref x).decref old)
  | _ => (false, h.bad)

def arrSet (ω : Oracle) (h : H) (a : Ref) (i : Nat) (x : Ref) : Bool × H :=
  match h.get a with
  | some ⟨.arr _ items _, _⟩ =>
    if i = items.length then arrPush ω h a x
    else if i < items.length then arrReplace h a i x
    else (false, h)
  | _ => (false, h.bad)

def mapAdd (ω : Oracle) (h : H) (m k v : Ref) : Bool × H :=
  match h.get m with
  | some ⟨.map true pairs alloc, rc⟩ =>
    if pairs.length ≥ alloc then (false, h)
    else (true, ((h.put m (some ⟨.map true (pairs ++ [(k, v)]) alloc, rc⟩)).incref k).incref v)
  | some ⟨.map false pairs alloc, rc⟩ =>
    if pairs.length ≥ alloc then
      match grow ω h 16 alloc with
      | (some na, h) => (true, ((h.put m (some ⟨.map false (pairs ++ [(k, v)]) na, rc⟩)).incref k).incref v)
      | (none, h) => (false, h)
    else (true, ((h.put m (some ⟨.map false (pairs ++ [(k, v)]) alloc, rc⟩)).incref k).incref v)
  | _ => (false, h.bad)

def addChunk (ω : Oracle) (h : H) (s c : Ref) : Bool × H :=
  match h.get s, h.get c with
  | some ⟨.strI t chunks cap, rc⟩, some ⟨.str t' _, _⟩ =>
    if t ≠ t' then (false, h.bad) else
    if chunks.length = cap then
      match grow ω h 8 cap with
      | (some na, h) => (true, (h.put s (some ⟨.strI t (chunks ++ [c]) na, rc⟩)).incref c)
      | (none, h) => (false, h)
    else (true, (h.put s (some ⟨.strI t (chunks ++ [c]) cap, rc⟩)).incref c)
  | _, _ => (false, h.bad)

/-- `cbor_tag_set_item`: takes a reference to the new item; as documented, the reference the tag held to a
previous item is *not* released — it is returned here, and becomes the caller's to release -/
def tagSet (h : H) (t x : Ref) : Option Ref × H :=
  match h.get t with
  | some ⟨.tag n old, rc⟩ => (old, (h.put t (some ⟨.tag n (some x), rc⟩)).incref x)
  | _ => (none, h.bad)

/-- `cbor_tag_item`: a new reference to the tagged item -/
def tagGet (h : H) (t : Ref) : Option Ref × H :=
  match h.get t with
  | some ⟨.tag _ (some x), _⟩ => (some x, h.incref x)
  | _ => (none, h.bad)

def buildTag (ω : Oracle) (h : H) (n : Nat) (x : Ref) : Option Ref × H :=
  match new1 ω h (.tag n none) with
  | (some t, h) => (some t, (tagSet h t x).2)
  | (none, h) => (none, h)

mutual
/-- `cbor_copy`, with its clean-up paths; `fuel` bounds the height of the tree -/
def copy (ω : Oracle) : Nat → H → Ref → Option Ref × H
  | 0, h, _ => (none, h.bad)
  | f+1, h, r =>
    match h.get r with
    | none => (none, h.bad)
    | some c =>
      match c.node with
      | .str t b => new2 ω h (.str t b)
      | .strI t chunks _ =>
        match new2 ω h (.strI t [] 0) with
        | (none, h) => (none, h)
        | (some res, h) => copyChunks ω f h res chunks
      | .arr d items _ =>
        match (if d then newMulti ω h 8 items.length (.arr true [] items.length) else new1 ω h (.arr false [] 0)) with
        | (none, h) => (none, h)
        | (some res, h) => copyItems ω f h res items
      | .map d pairs _ =>
        match (if d then newMulti ω h 16 pairs.length (.map true [] pairs.length) else new1 ω h (.map false [] 0)) with
        | (none, h) => (none, h)
        | (some res, h) => copyPairs ω f h res pairs
      | .tag n (some x) =>
        match copy ω f h x with
        | (none, h) => (none, h)
        | (some xc, h) =>
          match buildTag ω h n xc with
          | (some t, h) => (some t, h.decref xc)
          | (none, h) => (none, h.decref xc)
      | .tag _ none => (none, h.bad)
      | n => new1 ω h n
def copyItems (ω : Oracle) : Nat → H → Ref → List Ref → Option Ref × H
  | 0, h, _, _ => (none, h.bad)
  | _+1, h, res, [] => (some res, h)
  | f+1, h, res, x :: xs =>
    match copy ω f h x with
    | (none, h) => (none, h.decref res)
    | (some e, h) =>
      match arrPush ω h res e with
      | (false, h) => (none, (h.decref e).decref res)
      | (true, h) => copyItems ω f (h.decref e) res xs
def copyChunks (ω : Oracle) : Nat → H → Ref → List Ref → Option Ref × H
  | 0, h, _, _ => (none, h.bad)
  | _+1, h, res, [] => (some res, h)
  | f+1, h, res, x :: xs =>
    match copy ω f h x with
    | (none, h) => (none, h.decref res)
    | (some e, h) =>
      match addChunk ω h res e with
      | (false, h) => (none, (h.decref e).decref res)
      | (true, h) => copyChunks ω f (h.decref e) res xs
def copyPairs (ω : Oracle) : Nat → H → Ref → List (Ref × Ref) → Option Ref × H
  | 0, h, _, _ => (none, h.bad)
  | _+1, h, res, [] => (some res, h)
  | f+1, h, res, (k, v) :: ps =>
    match copy ω f h k with
    | (none, h) => (none, h.decref res)
    | (some kc, h) =>
      match copy ω f h v with
      | (none, h) => (none, (h.decref res).decref kc)
      | (some vc, h) =>
        match mapAdd ω h res kc vc with
        | (false, h) => (none, ((h.decref res).decref kc).decref vc)
        | (true, h) => copyPairs ω f ((h.decref kc).decref vc) res ps
end

/-- enough fuel for any acyclic heap: height × (fan-out + 2) is below this -/
def H.copyFuel (h : H) : Nat :=
  (h.cells.map fun c => match c with | some c => c.node.children.length + 2 | none => 1).sum + 2

def H.copy (ω : Oracle) (h : H) (r : Ref) : Option Ref × H := Heap.copy ω h.copyFuel h r

mutual
/-- the value an item denotes (the tree `print_item` prints and the serializer walks) -/
def val : Nat → H → Ref → Option Item
  | 0, _, _ => none
  | f+1, h, r =>
    match h.get r with
    | none => none
    | some c =>
      match c.node with
      | .int false w v => some (.uint w v)
      | .int true w v => some (.negint w v)
      | .str false b => some (.bytes b)
      | .str true b => some (.text b)
      | .strI t cs _ => (valChunks f h cs).map fun l => if t then .textI l else .bytesI l
      | .arr d xs _ => (valList f h xs).map fun l => if d then .array l else .arrayI l
      | .map d ps _ => (valPairs f h ps).map fun l => if d then .map l else .mapI l
      | .tag n (some x) => (val f h x).map fun y => .tag n y
      | .tag _ none => none
      | .ctrl v => some (.simple v)
      | .half x => some (.half x)
      | .single b => some (.single b)
      | .double b => some (.double b)
def valList : Nat → H → List Ref → Option (List Item)
  | 0, _, _ => none
  | _+1, _, [] => some []
  | f+1, h, x :: xs => do let a ← val f h x; let r ← valList f h xs; pure (a :: r)
def valPairs : Nat → H → List (Ref × Ref) → Option (List (Item × Item))
  | 0, _, _ => none
  | _+1, _, [] => some []
  | f+1, h, (k, v) :: ps => do let a ← val f h k; let b ← val f h v; let r ← valPairs f h ps; pure ((a, b) :: r)
def valChunks : Nat → H → List Ref → Option (List (List UInt8))
  | 0, _, _ => none
  | _+1, _, [] => some []
  | f+1, h, c :: cs =>
    match h.get c with
    | some ⟨.str _ b, _⟩ => (valChunks f h cs).map fun r => b :: r
    | _ => none
end

def H.val (h : H) (r : Ref) : Option Item := Heap.val h.copyFuel h r

/-- capacity after `n` pushes into an empty growing container (the growth rule applied `n` times):
0, 1, 2, 4, 4, 8, 8, 8, 8, 16, … — the least power of two ≥ n -/
def capFor : Nat → Nat
  | 0 => 0
  | k+1 =>
    let c := capFor k
    if c ≤ k then (if c = 0 then 1 else 2 * c) else c

mutual
/-- allocate the cells of a tree, every node with reference count 1 (what `cbor_load` hands out);
capacities of indefinite containers follow the geometric growth of successive pushes -/
def build : Item → H → Ref × H
  | .uint w v, h => h.new (.int false w v)
  | .negint w v, h => h.new (.int true w v)
  | .bytes b, h => h.new (.str false b)
  | .text b, h => h.new (.str true b)
  | .bytesI cs, h => let (rs, h) := buildChunks false cs h; h.new (.strI false rs (capFor rs.length))
  | .textI cs, h => let (rs, h) := buildChunks true cs h; h.new (.strI true rs (capFor rs.length))
  | .array xs, h => let (rs, h) := buildList xs h; h.new (.arr true rs rs.length)
  | .arrayI xs, h => let (rs, h) := buildList xs h; h.new (.arr false rs (capFor rs.length))
  | .map ps, h => let (rs, h) := buildPairs ps h; h.new (.map true rs rs.length)
  | .mapI ps, h => let (rs, h) := buildPairs ps h; h.new (.map false rs (capFor rs.length))
  | .tag n x, h => let (r, h) := build x h; h.new (.tag n (some r))
  | .simple v, h => h.new (.ctrl v)
  | .half f, h => h.new (.half f)
  | .single b, h => h.new (.single b)
  | .double b, h => h.new (.double b)
def buildList : List Item → H → List Ref × H
  | [], h => ([], h)
  | x :: xs, h => let (r, h) := build x h; let (rs, h) := buildList xs h; (r :: rs, h)
def buildPairs : List (Item × Item) → H → List (Ref × Ref) × H
  | [], h => ([], h)
  | (k, v) :: ps, h => let (a, h) := build k h; let (b, h) := build v h; let (rs, h) := buildPairs ps h; ((a, b) :: rs, h)
def buildChunks (t : Bool) : List (List UInt8) → H → List Ref × H
  | [], h => ([], h)
  | c :: cs, h => let (r, h) := h.new (.str t c); let (rs, h) := buildChunks t cs h; (r :: rs, h)
end

/-- `cbor_load` at heap level: the value-level model decides the outcome and the number of requests; on
success the tree is laid out with every reference count 1 -/
def H.load (ω : Oracle) (L : Nat) (h : H) (src : Array UInt8) : Option Ref × Model.LoadResult × H :=
  let o := Model.load (fun i _ => ω (h.reqs + i)) L { code := .none, position := 0, read := 0 } src
  let h := { h with reqs := h.reqs + o.reqs, fault := h.fault || o.fault }
  match o.item with
  | none => (none, o.result, h)
  | some x => let (r, h) := build x h; (some r, o.result, h)

end Heap

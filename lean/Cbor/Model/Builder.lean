import Cbor.Gen.Streaming
import Cbor.Gen.MemoryUtils
import Cbor.Gen.Unicode
import Cbor.Spec.Item
/-!
# Value-level model of the tree builder and of `cbor_load`

Hand-written; mirrors `src/cbor/internal/builder_callbacks.c`, `src/cbor/internal/stack.c` and the
`cbor_load` loop of `src/cbor.c` branch by branch, with items as *values* (`Spec.Item`) instead of heap
cells.  Every allocation request of the C code is mirrored as a request to an allocator oracle, in the same
order and with the same size, so that refusal paths exist in the model; releases are no-ops at this level
(the heap-level model accounts for them).  Each head is decoded by the **generated**
`Gen.cbor_stream_decode`.  Tied to the C code by the correspondence harness (op `LOAD`).
-/
namespace Model
open Spec (Item Width)

/-- sizes used in allocation requests (LP64; see Gen.Config for the regenerated values) -/
def szItem : Nat := 48
def szPtr : Nat := 8
def szPair : Nat := 16
def szIndefStr : Nat := 24
def szStackRec : Nat := 24
def growth : Nat := 2

/-- an item under construction on the decoding stack -/
inductive PItem
  | arrD (alloc : Nat) (xs : List Item)
  | arrI (alloc : Nat) (xs : List Item)
  | mapD (alloc : Nat) (kvs : List (Item × Item)) (key : Option Item)
  | mapI (alloc : Nat) (kvs : List (Item × Item)) (key : Option Item)
  | tag (n : Nat) (x : Option Item)
  | bstrI (cap : Nat) (cs : List (List UInt8))
  | tstrI (cap : Nat) (cs : List (List UInt8))
deriving Repr, Inhabited

def PItem.finish : PItem → Item
  | .arrD _ xs => .array xs
  | .arrI _ xs => .arrayI xs
  | .mapD _ kvs _ => .map kvs
  | .mapI _ kvs _ => .mapI kvs
  | .tag n x => .tag n (x.getD (.simple 0))
  | .bstrI _ cs => .bytesI cs
  | .tstrI _ cs => .textI cs

structure Frame where
  item : PItem
  subitems : UInt64
deriving Repr, Inhabited

/-- allocator oracle: is request number `i` for `n` bytes granted? -/
abbrev Oracle := Nat → Nat → Bool

structure Ctx where
  stack : List Frame := []          -- top first
  root : Option Item := none
  creationFailed : Bool := false
  syntaxError : Bool := false
  reqs : Nat := 0                   -- allocator requests made so far
  fault : Bool := false             -- an internal assertion / impossible state was hit (never, by C01)
deriving Repr, Inhabited

/-- one request to the allocator -/
def Ctx.alloc (c : Ctx) (ω : Oracle) (bytes : Nat) : Bool × Ctx :=
  (ω c.reqs bytes, { c with reqs := c.reqs + 1 })

/-- `_cbor_alloc_multiple` / `_cbor_realloc_multiple`: overflow guard first (generated), then one request -/
def Ctx.allocMultiple (c : Ctx) (ω : Oracle) (size count : Nat) : Bool × Ctx :=
  if Gen._cbor_safe_to_multiply (UInt64.ofNat size) (UInt64.ofNat count) then c.alloc ω (size * count)
  else (false, c)

/-- capacity after one geometric growth step -/
def grow (alloc : Nat) : Nat := if alloc = 0 then 1 else growth * alloc

/-- growth of an indefinite container: `_cbor_safe_to_multiply(CBOR_BUFFER_GROWTH, allocated)` first, then
`_cbor_realloc_multiple(data, element size, new capacity)` -/
def Ctx.growAlloc (c : Ctx) (ω : Oracle) (elt alloc : Nat) : Bool × Ctx :=
  if Gen._cbor_safe_to_multiply (UInt64.ofNat growth) (UInt64.ofNat alloc) then c.allocMultiple ω elt (grow alloc)
  else (false, c)

/-- `_cbor_builder_append`: deliver a finished item to the item on top of the stack.  `fuel` bounds the
cascade of completed definite containers (at most the stack height). -/
def append (ω : Oracle) : Nat → Item → Ctx → Ctx
  | 0, _, c => { c with fault := true }
  | fuel+1, item, c =>
    match c.stack with
    | [] => { c with root := some item }
    | top :: rest =>
      match top.item with
      | .arrD alloc xs =>
        if top.subitems = 0 then { c with fault := true } else        -- CBOR_ASSERT(subitems > 0)
        if xs.length ≥ alloc then { c with creationFailed := true }   -- cbor_array_push refuses
        else
          let sub := top.subitems - 1
          let it := PItem.arrD alloc (xs ++ [item])
          if sub = 0 then append ω fuel it.finish { c with stack := rest }
          else { c with stack := { item := it, subitems := sub } :: rest }
      | .arrI alloc xs =>
        if xs.length ≥ alloc then
          let (ok, c) := c.growAlloc ω szPtr alloc
          if ok then { c with stack := { top with item := .arrI (grow alloc) (xs ++ [item]) } :: rest }
          else { c with creationFailed := true }
        else { c with stack := { top with item := .arrI alloc (xs ++ [item]) } :: rest }
      | .mapD alloc kvs key =>
        if top.subitems % 2 = 1 then
          -- odd: this is a value
          match key with
          | none => { c with fault := true }
          | some k =>
            if top.subitems = 0 then { c with fault := true } else
            let sub := top.subitems - 1
            let it := PItem.mapD alloc (kvs ++ [(k, item)]) none
            if sub = 0 then append ω fuel it.finish { c with stack := rest }
            else { c with stack := { item := it, subitems := sub } :: rest }
        else
          if kvs.length ≥ alloc then { c with creationFailed := true }
          else
            if top.subitems = 0 then { c with fault := true } else
            let sub := top.subitems - 1
            if sub = 0 then { c with fault := true }   -- a key cannot complete a map (subitems is even)
            else { c with stack := { item := .mapD alloc kvs (some item), subitems := sub } :: rest }
      | .mapI alloc kvs key =>
        if top.subitems % 2 = 1 then
          match key with
          | none => { c with fault := true }
          | some k => { c with stack := { item := .mapI alloc (kvs ++ [(k, item)]) none, subitems := top.subitems ^^^ 1 } :: rest }
        else
          if kvs.length ≥ alloc then
            let (ok, c) := c.growAlloc ω szPair alloc
            if ok then { c with stack := { item := .mapI (grow alloc) kvs (some item), subitems := top.subitems ^^^ 1 } :: rest }
            else { c with creationFailed := true }
          else { c with stack := { item := .mapI alloc kvs (some item), subitems := top.subitems ^^^ 1 } :: rest }
      | .tag n _ =>
        if top.subitems ≠ 1 then { c with fault := true } else        -- CBOR_ASSERT(subitems == 1)
        append ω fuel (Item.tag n item) { c with stack := rest }
      | .bstrI _ _ => { c with syntaxError := true }
      | .tstrI _ _ => { c with syntaxError := true }

/-- `PUSH_CTX_STACK` with `_cbor_stack_push` (limit `L`, then one request for the record) -/
def pushFrame (ω : Oracle) (L : Nat) (c : Ctx) (it : PItem) (sub : UInt64) : Ctx :=
  if c.stack.length = L then { c with creationFailed := true }
  else
    let (ok, c) := c.alloc ω szStackRec
    if ok then { c with stack := { item := it, subitems := sub } :: c.stack }
    else { c with creationFailed := true }

def fuelOf (c : Ctx) : Nat := c.stack.length + 1

/-- integers, floats, simple values: one request for the item, then append -/
def scalar (ω : Oracle) (c : Ctx) (extra : Nat) (it : Item) : Ctx :=
  let (ok, c) := c.alloc ω (szItem + extra)
  if ok then append ω (fuelOf c) it c else { c with creationFailed := true }

/-- definite (byte / text) string callback: copy buffer, item, then chunk-or-append -/
def stringCb (ω : Oracle) (c : Ctx) (isText : Bool) (data : List UInt8) : Ctx :=
  let (ok1, c) := c.alloc ω data.length
  if !ok1 then { c with creationFailed := true } else
  let (ok2, c) := c.alloc ω szItem
  if !ok2 then { c with creationFailed := true } else
  match c.stack with
  | top :: rest =>
    match top.item, isText with
    | .bstrI cap cs, false =>
      if cs.length = cap then
        let (ok, c) := c.growAlloc ω szPtr cap
        if ok then { c with stack := { top with item := .bstrI (grow cap) (cs ++ [data]) } :: rest }
        else { c with creationFailed := true }
      else { c with stack := { top with item := .bstrI cap (cs ++ [data]) } :: rest }
    | .tstrI cap cs, true =>
      if cs.length = cap then
        let (ok, c) := c.growAlloc ω szPtr cap
        if ok then { c with stack := { top with item := .tstrI (grow cap) (cs ++ [data]) } :: rest }
        else { c with creationFailed := true }
      else { c with stack := { top with item := .tstrI cap (cs ++ [data]) } :: rest }
    | _, _ => append ω (fuelOf c) (if isText then .text data else .bytes data) c
  | [] => append ω (fuelOf c) (if isText then .text data else .bytes data) c

/-- indefinite string start: item, then its chunk-table struct, then push -/
def indefString (ω : Oracle) (L : Nat) (c : Ctx) (isText : Bool) : Ctx :=
  let (ok1, c) := c.alloc ω szItem
  if !ok1 then { c with creationFailed := true } else
  let (ok2, c) := c.alloc ω szIndefStr
  if !ok2 then { c with creationFailed := true } else
  pushFrame ω L c (if isText then .tstrI 0 [] else .bstrI 0 []) 0

def arrayStart (ω : Oracle) (L : Nat) (c : Ctx) (n : UInt64) : Ctx :=
  let (ok1, c) := c.alloc ω szItem
  if !ok1 then { c with creationFailed := true } else
  let (ok2, c) := c.allocMultiple ω szPtr n.toNat
  if !ok2 then { c with creationFailed := true } else
  if n > 0 then pushFrame ω L c (.arrD n.toNat []) n
  else append ω (fuelOf c) (.array []) c

def mapStart (ω : Oracle) (L : Nat) (c : Ctx) (n : UInt64) : Ctx :=
  let (ok1, c) := c.alloc ω szItem
  if !ok1 then { c with creationFailed := true } else
  let (ok2, c) := c.allocMultiple ω szPair n.toNat
  if !ok2 then { c with creationFailed := true } else
  if n > 0 then pushFrame ω L c (.mapD n.toNat [] none) (n * 2)
  else append ω (fuelOf c) (.map []) c

def indefContainer (ω : Oracle) (L : Nat) (c : Ctx) (it : PItem) : Ctx :=
  let (ok, c) := c.alloc ω szItem
  if !ok then { c with creationFailed := true } else pushFrame ω L c it 0

def tagCb (ω : Oracle) (L : Nat) (c : Ctx) (v : UInt64) : Ctx :=
  let (ok, c) := c.alloc ω szItem
  if !ok then { c with creationFailed := true } else pushFrame ω L c (.tag v.toNat none) 1

/-- `cbor_builder_indef_break_callback` -/
def breakCb (ω : Oracle) (c : Ctx) : Ctx :=
  match c.stack with
  | top :: rest =>
    let indefinite := match top.item with
      | .arrI _ _ | .mapI _ _ _ | .bstrI _ _ | .tstrI _ _ => true
      | _ => false
    let isMap := match top.item with | .mapD _ _ _ | .mapI _ _ _ => true | _ => false
    if indefinite && (!isMap || top.subitems % 2 = 0) then
      append ω (fuelOf c) top.item.finish { c with stack := rest }
    else { c with syntaxError := true }
  | [] => { c with syntaxError := true }

def bytesOf (src : Array UInt8) (off len : Nat) : List UInt8 := (List.range len).map fun i => src.getD (off + i) 0

/-- dispatch one callback invocation of the streaming decoder to the builder -/
def callback (ω : Oracle) (L : Nat) (src : Array UInt8) (c : Ctx) : Gen.Event → Ctx
  | .uint8 v => scalar ω c 1 (.uint .w8 v.toNat)
  | .uint16 v => scalar ω c 2 (.uint .w16 v.toNat)
  | .uint32 v => scalar ω c 4 (.uint .w32 v.toNat)
  | .uint64 v => scalar ω c 8 (.uint .w64 v.toNat)
  | .negint8 v => scalar ω c 1 (.negint .w8 v.toNat)
  | .negint16 v => scalar ω c 2 (.negint .w16 v.toNat)
  | .negint32 v => scalar ω c 4 (.negint .w32 v.toNat)
  | .negint64 v => scalar ω c 8 (.negint .w64 v.toNat)
  | .byte_string off len =>
    -- the payload handed to the callback lies inside the caller's buffer (else: out-of-bounds read in memcpy)
    if off + len.toNat ≤ src.size then stringCb ω c false (bytesOf src off len.toNat) else { c with fault := true }
  | .byte_string_start => indefString ω L c false
  | .string off len =>
    if off + len.toNat ≤ src.size then stringCb ω c true (bytesOf src off len.toNat) else { c with fault := true }
  | .string_start => indefString ω L c true
  | .array_start n => arrayStart ω L c n
  | .indef_array_start => indefContainer ω L c (.arrI 0 [])
  | .map_start n => mapStart ω L c n
  | .indef_map_start => indefContainer ω L c (.mapI 0 [] none)
  | .tag v => tagCb ω L c v
  | .float2 f => scalar ω c 4 (.half f.toNat)
  | .float4 f => scalar ω c 4 (.single f.toNat)
  | .float8 f => scalar ω c 8 (.double f.toNat)
  | .undefined => scalar ω c 0 (.simple 23)
  | .null => scalar ω c 0 (.simple 22)
  | .boolean b => scalar ω c 0 (.simple (if b then 21 else 20))
  | .indef_break => breakCb ω c

/-- `enum cbor_error_code` -/
inductive Code | none | notEnough | noData | malformed | mem | syntax
deriving DecidableEq, Repr, Inhabited

/-- `struct cbor_load_result` -/
structure LoadResult where
  code : Code
  position : Nat
  read : Nat
deriving DecidableEq, Repr, Inhabited

structure LoadOut where
  item : Option Item
  result : LoadResult
  reqs : Nat
  fault : Bool
deriving Repr, Inhabited

/-- the `do { … } while (stack.size > 0)` loop of `cbor_load`; `fuel` ≥ remaining bytes + 1 -/
def loadLoop (ω : Oracle) (L : Nat) (src : Array UInt8) : Nat → Ctx → Nat → LoadOut
  | 0, c, read => { item := none, result := { code := .notEnough, position := read, read := read }, reqs := c.reqs, fault := true }
  | fuel+1, c, read =>
    if src.size > read then
      let d := Gen.cbor_stream_decode src read (UInt64.ofNat (src.size - read))
      let c := d.2.foldl (callback ω L src) c
      if d.1.status = Gen.CBOR_DECODER_FINISHED then
        let read := read + d.1.read.toNat
        if c.creationFailed then { item := none, result := { code := .mem, position := read, read := read }, reqs := c.reqs, fault := c.fault }
        else if c.syntaxError then { item := none, result := { code := .syntax, position := read, read := read }, reqs := c.reqs, fault := c.fault }
        else if c.stack.length > 0 then loadLoop ω L src fuel c read
        else { item := c.root, result := { code := .none, position := 0, read := read }, reqs := c.reqs, fault := c.fault || c.root.isNone }
      else if d.1.status = Gen.CBOR_DECODER_NEDATA then
        { item := none, result := { code := .notEnough, position := read, read := read }, reqs := c.reqs, fault := c.fault }
      else
        { item := none, result := { code := .malformed, position := read, read := read }, reqs := c.reqs, fault := c.fault }
    else
      { item := none, result := { code := .notEnough, position := read, read := read }, reqs := c.reqs, fault := c.fault }

/-- `cbor_load(source, source_size, &result)`; `r0` is what the caller left in `*result` -/
def load (ω : Oracle) (L : Nat) (_r0 : LoadResult) (src : Array UInt8) : LoadOut :=
  if src.size = 0 then
    { item := none, result := { code := .noData, position := 0, read := 0 }, reqs := 0, fault := false }
  else loadLoop ω L src (src.size + 1) {} 0

end Model

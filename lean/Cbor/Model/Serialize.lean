import Cbor.Gen.Encoding
import Cbor.Gen.MemoryUtils
import Cbor.Gen.HeaderSize
import Cbor.Spec.Item
/-!
# Value-level model of `cbor_serialize`, `cbor_serialized_size`, `cbor_serialize_alloc`, `cbor_copy`

Hand-written; mirrors `src/cbor/serialization.c` case by case.  Every head is written by the **generated**
`Gen.cbor_encode_*` function the C code calls, into an `Array UInt8` buffer at an offset, and sizes are
accumulated with the **generated** `Gen._cbor_safe_signaling_add` / `Gen._cbor_encoded_header_size`.
Tied to the C code by the correspondence harness (ops `SER`, `SERA`, `ROUND`).
-/
namespace Model
open Spec (Item Width)

/-- `memcpy(buffer + off, data, length)` -/
def copyInto (buf : Array UInt8) (off : Nat) : List UInt8 → Array UInt8
  | [] => buf
  | b :: bs => copyInto (buf.setIfInBounds off b) (off + 1) bs

/-- definite string: head, then payload if `buffer_size - written >= length` -/
def serString (isText : Bool) (data : List UInt8) (buf : Array UInt8) (off : Nat) (n : UInt64) : UInt64 × Array UInt8 :=
  let len := UInt64.ofNat data.length
  let r := if isText then Gen.cbor_encode_string_start len buf off n else Gen.cbor_encode_bytestring_start len buf off n
  if r.1 > 0 && n - r.1 ≥ len then (r.1 + len, copyInto r.2 (off + r.1.toNat) data)
  else (0, r.2)

/-- chunks of an indefinite string, each serialized as a definite string of the same type -/
def serChunks (isText : Bool) : List (List UInt8) → Array UInt8 → Nat → UInt64 → UInt64 → UInt64 × Array UInt8
  | [], buf, _, _, written => (written, buf)
  | c :: cs, buf, off, n, written =>
    let r := serString isText c buf (off + written.toNat) (n - written)
    if r.1 = 0 then (0, r.2) else serChunks isText cs r.2 off n (written + r.1)

def serIndefString (isText : Bool) (cs : List (List UInt8)) (buf : Array UInt8) (off : Nat) (n : UInt64) : UInt64 × Array UInt8 :=
  let r := if isText then Gen.cbor_encode_indef_string_start buf off n else Gen.cbor_encode_indef_bytestring_start buf off n
  if r.1 = 0 then (0, r.2) else
  let c := serChunks isText cs r.2 off n r.1
  if c.1 = 0 then (0, c.2) else
  let b := Gen.cbor_encode_break c.2 (off + c.1.toNat) (n - c.1)
  if b.1 = 0 then (0, b.2) else (c.1 + b.1, b.2)

mutual
/-- `cbor_serialize(item, buffer + off, n)`: bytes written (0 = does not fit) and the buffer afterwards -/
def serialize : Item → Array UInt8 → Nat → UInt64 → UInt64 × Array UInt8
  | .uint .w8 v, buf, off, n => Gen.cbor_encode_uint8 (UInt8.ofNat v) buf off n
  | .uint .w16 v, buf, off, n => Gen.cbor_encode_uint16 (UInt16.ofNat v) buf off n
  | .uint .w32 v, buf, off, n => Gen.cbor_encode_uint32 (UInt32.ofNat v) buf off n
  | .uint .w64 v, buf, off, n => Gen.cbor_encode_uint64 (UInt64.ofNat v) buf off n
  | .negint .w8 v, buf, off, n => Gen.cbor_encode_negint8 (UInt8.ofNat v) buf off n
  | .negint .w16 v, buf, off, n => Gen.cbor_encode_negint16 (UInt16.ofNat v) buf off n
  | .negint .w32 v, buf, off, n => Gen.cbor_encode_negint32 (UInt32.ofNat v) buf off n
  | .negint .w64 v, buf, off, n => Gen.cbor_encode_negint64 (UInt64.ofNat v) buf off n
  | .bytes b, buf, off, n => serString false b buf off n
  | .text b, buf, off, n => serString true b buf off n
  | .bytesI cs, buf, off, n => serIndefString false cs buf off n
  | .textI cs, buf, off, n => serIndefString true cs buf off n
  | .array xs, buf, off, n =>
    let r := Gen.cbor_encode_array_start (UInt64.ofNat xs.length) buf off n
    if r.1 = 0 then (0, r.2) else
    serList xs r.2 off n r.1
  | .arrayI xs, buf, off, n =>
    let r := Gen.cbor_encode_indef_array_start buf off n
    if r.1 = 0 then (0, r.2) else
    let c := serList xs r.2 off n r.1
    if c.1 = 0 then (0, c.2) else
    let b := Gen.cbor_encode_break c.2 (off + c.1.toNat) (n - c.1)
    if b.1 = 0 then (0, b.2) else (c.1 + b.1, b.2)
  | .map kvs, buf, off, n =>
    let r := Gen.cbor_encode_map_start (UInt64.ofNat kvs.length) buf off n
    if r.1 = 0 then (0, r.2) else
    serPairs kvs r.2 off n r.1
  | .mapI kvs, buf, off, n =>
    let r := Gen.cbor_encode_indef_map_start buf off n
    if r.1 = 0 then (0, r.2) else
    let c := serPairs kvs r.2 off n r.1
    if c.1 = 0 then (0, c.2) else
    let b := Gen.cbor_encode_break c.2 (off + c.1.toNat) (n - c.1)
    if b.1 = 0 then (0, b.2) else (c.1 + b.1, b.2)
  | .tag t x, buf, off, n =>
    let r := Gen.cbor_encode_tag (UInt64.ofNat t) buf off n
    if r.1 = 0 then (0, r.2) else
    let i := serialize x r.2 (off + r.1.toNat) (n - r.1)
    if i.1 = 0 then (0, i.2) else (r.1 + i.1, i.2)
  | .simple v, buf, off, n => Gen.cbor_encode_ctrl (UInt8.ofNat v) buf off n
  | .half f, buf, off, n => Gen.cbor_encode_half (UInt32.ofNat f) buf off n
  | .single b, buf, off, n => Gen.cbor_encode_single (UInt32.ofNat b) buf off n
  | .double b, buf, off, n => Gen.cbor_encode_double (UInt64.ofNat b) buf off n
/-- members in order, starting after `written` bytes; total written, or 0 as soon as one does not fit -/
def serList : List Item → Array UInt8 → Nat → UInt64 → UInt64 → UInt64 × Array UInt8
  | [], buf, _, _, written => (written, buf)
  | x :: xs, buf, off, n, written =>
    let r := serialize x buf (off + written.toNat) (n - written)
    if r.1 = 0 then (0, r.2) else serList xs r.2 off n (written + r.1)
def serPairs : List (Item × Item) → Array UInt8 → Nat → UInt64 → UInt64 → UInt64 × Array UInt8
  | [], buf, _, _, written => (written, buf)
  | (k, v) :: r, buf, off, n, written =>
    let a := serialize k buf (off + written.toNat) (n - written)
    if a.1 = 0 then (0, a.2) else
    let written := written + a.1
    let b := serialize v a.2 (off + written.toNat) (n - written)
    if b.1 = 0 then (0, b.2) else serPairs r b.2 off n (written + b.1)
end

def sizeString (len : Nat) : UInt64 :=
  let h := Gen._cbor_encoded_header_size (UInt64.ofNat len)
  if len = 0 then h else Gen._cbor_safe_signaling_add h (UInt64.ofNat len)

def sizeChunks : List (List UInt8) → UInt64 → UInt64
  | [], acc => acc
  | c :: cs, acc => sizeChunks cs (Gen._cbor_safe_signaling_add acc (sizeString c.length))

mutual
/-- `cbor_serialized_size(item)`: the exact size, or 0 when it does not fit in `size_t` -/
def size : Item → UInt64
  | .uint w v => match w with | .w8 => (if v ≤ 23 then 1 else 2) | .w16 => 3 | .w32 => 5 | .w64 => 9
  | .negint w v => match w with | .w8 => (if v ≤ 23 then 1 else 2) | .w16 => 3 | .w32 => 5 | .w64 => 9
  | .bytes b => sizeString b.length
  | .text b => sizeString b.length
  | .bytesI cs => sizeChunks cs 2
  | .textI cs => sizeChunks cs 2
  | .array xs => sizeList xs (Gen._cbor_encoded_header_size (UInt64.ofNat xs.length))
  | .arrayI xs => sizeList xs 2
  | .map kvs => sizePairs kvs (Gen._cbor_encoded_header_size (UInt64.ofNat kvs.length))
  | .mapI kvs => sizePairs kvs 2
  | .tag t x => Gen._cbor_safe_signaling_add (Gen._cbor_encoded_header_size (UInt64.ofNat t)) (size x)
  | .simple v => Gen._cbor_encoded_header_size (UInt64.ofNat (v % 256))
  | .half _ => 3
  | .single _ => 5
  | .double _ => 9
def sizeList : List Item → UInt64 → UInt64
  | [], acc => acc
  | x :: xs, acc => sizeList xs (Gen._cbor_safe_signaling_add acc (size x))
def sizePairs : List (Item × Item) → UInt64 → UInt64
  | [], acc => acc
  | (k, v) :: r, acc => sizePairs r (Gen._cbor_safe_signaling_add acc (Gen._cbor_safe_signaling_add (size k) (size v)))
end

/-- what `cbor_serialized_size` looks at: the shape of the tree and the *recorded lengths* of its strings (never their bytes) -/
inductive Skel
  | leaf (sz : UInt64)                       -- integers, floats, simple values: 1, 2, 3, 5 or 9 bytes
  | str (len : Nat)
  | strI (lens : List Nat)
  | arr (definite : Bool) (xs : List Skel)
  | map (definite : Bool) (ps : List (Skel × Skel))
  | tag (n : Nat) (x : Skel)

mutual
/-- `cbor_serialized_size` over a skeleton; lengths may be anything a `size_t` field can record -/
def sizeS : Skel → UInt64
  | .leaf sz => sz
  | .str len => sizeString len
  | .strI lens => lens.foldl (fun acc l => Gen._cbor_safe_signaling_add acc (sizeString l)) 2
  | .arr d xs => sizeSList xs (if d then Gen._cbor_encoded_header_size (UInt64.ofNat xs.length) else 2)
  | .map d ps => sizeSPairs ps (if d then Gen._cbor_encoded_header_size (UInt64.ofNat ps.length) else 2)
  | .tag t x => Gen._cbor_safe_signaling_add (Gen._cbor_encoded_header_size (UInt64.ofNat t)) (sizeS x)
def sizeSList : List Skel → UInt64 → UInt64
  | [], acc => acc
  | x :: xs, acc => sizeSList xs (Gen._cbor_safe_signaling_add acc (sizeS x))
def sizeSPairs : List (Skel × Skel) → UInt64 → UInt64
  | [], acc => acc
  | (k, v) :: r, acc => sizeSPairs r (Gen._cbor_safe_signaling_add acc (Gen._cbor_safe_signaling_add (sizeS k) (sizeS v)))
end

mutual
/-- the skeleton of an item -/
def skel : Item → Skel
  | .bytes b => .str b.length
  | .text b => .str b.length
  | .bytesI cs => .strI (cs.map List.length)
  | .textI cs => .strI (cs.map List.length)
  | .array xs => .arr true (skelList xs)
  | .arrayI xs => .arr false (skelList xs)
  | .map kvs => .map true (skelPairs kvs)
  | .mapI kvs => .map false (skelPairs kvs)
  | .tag t x => .tag t (skel x)
  | x => .leaf (size x)
def skelList : List Item → List Skel
  | [] => []
  | x :: xs => skel x :: skelList xs
def skelPairs : List (Item × Item) → List (Skel × Skel)
  | [] => []
  | (k, v) :: r => (skel k, skel v) :: skelPairs r
end

/-- `cbor_serialize_alloc`: `okAlloc k` = does `malloc(k)` succeed.  `none` = returned 0 with `*buffer == NULL`;
`some (written, block)` = the value returned and the block handed to the caller (fresh memory modelled as zeros). -/
def serializeAlloc (okAlloc : Nat → Bool) (t : Item) : Option (UInt64 × Array UInt8) :=
  let s := size t
  if s = 0 then none
  else if !okAlloc s.toNat then none
  else some (serialize t (Array.replicate s.toNat 0) 0 s)

end Model

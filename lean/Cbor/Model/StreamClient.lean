import Cbor.Gen.Streaming
/-!
# The buffering client of the streaming decoder (property C09)

The protocol a client of `cbor_stream_decode` follows when bytes arrive in fragments, run against the
**generated** decoder.  Hand-written (it is client code, not library code); the harness runs the same loop
against the real decoder (`FRAG` operation).
-/
namespace Model
open Gen

/-- fragments keep arriving until `target` bytes are buffered or the stream has ended -/
def waitFor (target : Nat) : Nat → List Nat → Nat × List Nat
  | avail, [] => (avail, [])
  | avail, a :: rest => if target ≤ avail then (avail, a :: rest) else waitFor target (avail + a) rest

/-- the buffering client: `p` = bytes consumed, `avail` = bytes buffered so far, `arr` = sizes of the fragments still to arrive -/
def client (src : Array UInt8) : Nat → Nat → Nat → List Nat → List Event
  | 0, _, _, _ => []
  | f+1, p, avail, arr =>
    let r := cbor_stream_decode src p (UInt64.ofNat (avail - p))
    if r.1.status = 0 then r.2 ++ client src f (p + r.1.read.toNat) avail arr
    else if r.1.status = 1 then
      let w := waitFor (p + r.1.required.toNat) avail arr
      if w.1 < p + r.1.required.toNat then []        -- the stream ended inside an item
      else client src f p w.1 w.2
    else []


end Model

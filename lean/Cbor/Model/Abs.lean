import Cbor.Spec.Decode
import Cbor.Spec.HeadLemmas
/-!
# The builder as an abstract stack machine over RFC heads

The decoding stack of `cbor_load` with everything representation-specific removed: frames hold the values
collected so far and (for definite containers) the number of items still expected.  This is the middle layer
of the C02/C05/C14/C19 proofs:

    Model.load  (faithful model: generated head decoder, allocator oracle, capacities, `size_t` counters)
        =  Abs.run          (`Lemmas.Refine`, simulation with invariants)
        =  Spec.decode      (`Lemmas.Fund`, the fundamental lemma: a stack machine run over the heads of a
                             complete item delivers exactly that item)
-/
namespace Abs
open Spec

inductive Frame
  | arr (rem : Nat) (xs : List Item)                               -- definite array, `rem ≥ 1` items to come
  | arrI (xs : List Item)
  | map (rem : Nat) (kvs : List (Item × Item)) (key : Option Item) -- definite map, `rem ≥ 1` items (keys+values) to come
  | mapI (kvs : List (Item × Item)) (key : Option Item)
  | tag (n : Nat)
  | bstr (cs : List (List UInt8))
  | tstr (cs : List (List UInt8))
deriving Repr, Inhabited

/-- what processing one head does to the stack -/
inductive Out
  | cont (s : List Frame)
  | done (x : Item)
  | syn
  | mem
deriving Repr, Inhabited

/-- deliver a finished item to the stack (cascading through completed definite containers and tags) -/
def deliver : Item → List Frame → Out
  | x, [] => .done x
  | x, .arr rem xs :: rest => if rem ≤ 1 then deliver (.array (xs ++ [x])) rest else .cont (.arr (rem - 1) (xs ++ [x]) :: rest)
  | x, .arrI xs :: rest => .cont (.arrI (xs ++ [x]) :: rest)
  | x, .map rem kvs none :: rest => .cont (.map (rem - 1) kvs (some x) :: rest)
  | x, .map rem kvs (some k) :: rest =>
    if rem ≤ 1 then deliver (.map (kvs ++ [(k, x)])) rest else .cont (.map (rem - 1) (kvs ++ [(k, x)]) none :: rest)
  | x, .mapI kvs none :: rest => .cont (.mapI kvs (some x) :: rest)
  | x, .mapI kvs (some k) :: rest => .cont (.mapI (kvs ++ [(k, x)]) none :: rest)
  | x, .tag n :: rest => deliver (.tag n x) rest
  | _, .bstr _ :: _ => .syn
  | _, .tstr _ :: _ => .syn

def push (L : Nat) (f : Frame) (s : List Frame) : Out :=
  if s.length ≥ L then .mem else .cont (f :: s)

/-- one head `tok` (read at offset `p`) against the stack `s` -/
def stepTok (L : Nat) (okA : AllocOk) (get : Nat → UInt8) (p : Nat) (tok : Tok) (s : List Frame) : Out :=
  if !okA tok then .mem else
  match tok with
  | .uint w v => deliver (.uint w v) s
  | .negint w v => deliver (.negint w v) s
  | .bytes o n =>
    match s with
    | .bstr cs :: rest => .cont (.bstr (cs ++ [slice get (p + o) n]) :: rest)
    | _ => deliver (.bytes (slice get (p + o) n)) s
  | .text o n =>
    match s with
    | .tstr cs :: rest => .cont (.tstr (cs ++ [slice get (p + o) n]) :: rest)
    | _ => deliver (.text (slice get (p + o) n)) s
  | .half h => deliver (.half (halfToSingle h)) s
  | .single b => deliver (.single b) s
  | .double b => deliver (.double b) s
  | .bool b => deliver (.simple (if b then 21 else 20)) s
  | .null => deliver (.simple 22) s
  | .undefined => deliver (.simple 23) s
  | .tag n => push L (.tag n) s
  | .array n => if n = 0 then deliver (.array []) s else push L (.arr n []) s
  | .arrayStart => push L (.arrI []) s
  | .map n => if n = 0 then deliver (.map []) s else push L (.map (2 * n) [] none) s
  | .mapStart => push L (.mapI [] none) s
  | .bytesStart => push L (.bstr []) s
  | .textStart => push L (.tstr []) s
  | .brk =>
    match s with
    | .arrI xs :: rest => deliver (.arrayI xs) rest
    | .mapI kvs none :: rest => deliver (.mapI kvs) rest
    | .bstr cs :: rest => deliver (.bytesI cs) rest
    | .tstr cs :: rest => deliver (.textI cs) rest
    | _ => .syn

variable (L : Nat) (okA : AllocOk) (get : Nat → UInt8) (len : Nat)

/-- read heads from offset `p` until the item is complete or an error stops the run -/
def run : Nat → List Frame → Nat → Res Item
  | 0, _, p => .err .notEnough p
  | F+1, s, p =>
    match headAt get len p with
    | .nedata _ => .err .notEnough p
    | .error => .err .malformed p
    | .ok tok l =>
      match stepTok L okA get p tok s with
      | .cont s' => run F s' (p + l)
      | .done x => .ok x (p + l)
      | .syn => .err .syntax (p + l)
      | .mem => .err .mem (p + l)

/-- continue after a head -/
def resume (F : Nat) (out : Out) (q : Nat) : Res Item :=
  match out with
  | .cont s => run L okA get len F s q
  | .done x => .ok x q
  | .syn => .err .syntax q
  | .mem => .err .mem q

theorem run_succ (F : Nat) (s : List Frame) (p : Nat) :
    run L okA get len (F + 1) s p =
      match headAt get len p with
      | .nedata _ => .err .notEnough p
      | .error => .err .malformed p
      | .ok tok l => resume L okA get len F (stepTok L okA get p tok s) (p + l) := by
  simp only [run, resume]

def decode : Outcome :=
  if len = 0 then .nodata else
  match run L okA get len (len + 1) [] 0 with
  | .ok x q => .ok x q
  | .err e p => .fail e p

end Abs

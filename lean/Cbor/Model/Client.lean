import Cbor.Model.Heap
/-!
# A client of the item API: slots holding references, and the operations of a history

A *slot* holds one reference the client owns (or nothing).  `step` applies one API call.  Properties C04, C06,
C11 and C12 are statements about all sequences of `Op`s.
-/
namespace Heap

inductive Op
  | newInt (s : Nat) (neg : Bool) (w : Spec.Width) (v : Nat)
  | newStr (s : Nat) (text : Bool) (b : List UInt8)
  | newStrI (s : Nat) (text : Bool)
  | newArr (s : Nat) (definite : Bool) (cap : Nat)
  | newMap (s : Nat) (definite : Bool) (cap : Nat)
  | newTag (s : Nat) (n : Nat)
  | buildTag (s : Nat) (n : Nat) (x : Nat)
  | newCtrl (s : Nat) (v : Nat)
  | newHalf (s : Nat) (f : Nat)
  | newSingle (s : Nat) (b : Nat)
  | newDouble (s : Nat) (b : Nat)
  | push (a x : Nat)
  | pushMove (a x : Nat)          -- cbor_array_push(a, cbor_move(x)): the client's reference goes to the array
  | set (a i x : Nat)
  | replace (a i x : Nat)
  | get (s a i : Nat)
  | mapAdd (m k v : Nat)
  | chunk (s c : Nat)
  | tagSet (t x s : Nat)          -- the reference to a previously tagged item passes to slot s
  | tagGet (s t : Nat)
  | copy (s x : Nat)
  | incref (s x : Nat)            -- s := cbor_incref(x)
  | decref (s : Nat)
  | load (s : Nat) (bytes : List UInt8)
deriving Repr, Inhabited

inductive Res
  | unit | ok | refused | null | item (r : Ref) | loaded (r : Option Ref) (res : Model.LoadResult)
deriving Repr, Inhabited

structure St where
  h : H := {}
  slots : List (Option Ref) := List.replicate 16 none
deriving Repr, Inhabited

def St.slot (st : St) (s : Nat) : Option Ref := (st.slots[s]?).join
def St.setSlot (st : St) (s : Nat) (r : Option Ref) : St := { st with slots := st.slots.set s r }
def St.bad (st : St) : St := { st with h := st.h.bad }

/-- store a freshly obtained reference (or nothing) in an empty slot -/
def St.fresh (st : St) (s : Nat) (r : Option Ref × H) : St × Res :=
  if st.slots.length ≤ s then ({ st with h := r.2.bad }, .null) else
  match st.slot s, r with
  | some _, (_, h) => ({ st with h := h.bad }, .null)
  | none, (some x, h) => ({ st with h := h }.setSlot s (some x), .item x)
  | none, (none, h) => ({ st with h := h }, .null)

def boolRes (r : Bool × H) (st : St) : St × Res := ({ st with h := r.2 }, if r.1 then .ok else .refused)

def step (ω : Oracle) (L : Nat) (st : St) : Op → St × Res
  | .newInt s neg w v => st.fresh s (new1 ω st.h (.int neg w v))
  | .newStr s t b => st.fresh s (new2 ω st.h (.str t b))
  | .newStrI s t => st.fresh s (new2 ω st.h (.strI t [] 0))
  | .newArr s d cap => st.fresh s (if d then newMulti ω st.h 8 cap (.arr true [] cap) else new1 ω st.h (.arr false [] 0))
  | .newMap s d cap => st.fresh s (if d then newMulti ω st.h 16 cap (.map true [] cap) else new1 ω st.h (.map false [] 0))
  | .newTag s n => st.fresh s (new1 ω st.h (.tag n none))
  | .buildTag s n x =>
    match st.slot x with
    | some rx => st.fresh s (buildTag ω st.h n rx)
    | none => (st.bad, .null)
  | .newCtrl s v => st.fresh s (new1 ω st.h (.ctrl v))
  | .newHalf s f => st.fresh s (new1 ω st.h (.half f))
  | .newSingle s b => st.fresh s (new1 ω st.h (.single b))
  | .newDouble s b => st.fresh s (new1 ω st.h (.double b))
  | .push a x =>
    match st.slot a, st.slot x with
    | some ra, some rx => boolRes (arrPush ω st.h ra rx) st
    | _, _ => (st.bad, .refused)
  | .pushMove a x =>
    match st.slot a, st.slot x with
    | some ra, some rx =>
      -- cbor_array_push(a, cbor_move(x)): the count drops by one without releasing and the push takes it back up; when the
      -- push is refused the client takes its reference back (cbor_incref).  Modelled as push-then-give-up, which passes
      -- through the same final states without an intermediate zero count.
      match arrPush ω st.h ra rx with
      | (true, h) =>
        match h.get rx with
        | some c => ({ st with h := h.put rx (some { c with rc := c.rc - 1 }) }.setSlot x none, .ok)
        | none => ({ st with h := h.bad }, .refused)
      | (false, h) => ({ st with h := h }, .refused)
    | _, _ => (st.bad, .refused)
  | .set a i x =>
    match st.slot a, st.slot x with
    | some ra, some rx => boolRes (arrSet ω st.h ra i rx) st
    | _, _ => (st.bad, .refused)
  | .replace a i x =>
    match st.slot a, st.slot x with
    | some ra, some rx => boolRes (arrReplace st.h ra i rx) st
    | _, _ => (st.bad, .refused)
  | .get s a i =>
    match st.slot a with
    | some ra => st.fresh s (arrGet st.h ra i)
    | none => (st.bad, .null)
  | .mapAdd m k v =>
    match st.slot m, st.slot k, st.slot v with
    | some rm, some rk, some rv => boolRes (mapAdd ω st.h rm rk rv) st
    | _, _, _ => (st.bad, .refused)
  | .chunk s c =>
    match st.slot s, st.slot c with
    | some rs, some rc => boolRes (addChunk ω st.h rs rc) st
    | _, _ => (st.bad, .refused)
  | .tagSet t x s =>
    match st.slot t, st.slot x with
    | some rt, some rx =>
      match tagSet st.h rt rx with
      | (none, h) => ({ st with h := h }, .unit)
      | (some old, h) =>
        if st.slots.length ≤ s then ({ st with h := h.bad }, .unit) else
        match st.slot s with
        | none => ({ st with h := h }.setSlot s (some old), .unit)
        | some _ => ({ st with h := h.bad }, .unit)
    | _, _ => (st.bad, .unit)
  | .tagGet s t =>
    match st.slot t with
    | some rt => st.fresh s (tagGet st.h rt)
    | none => (st.bad, .null)
  | .copy s x =>
    match st.slot x with
    | some rx => st.fresh s (st.h.copy ω rx)
    | none => (st.bad, .null)
  | .incref s x =>
    match st.slot x with
    | some rx => st.fresh s (some rx, st.h.incref rx)
    | none => (st.bad, .null)
  | .decref s =>
    match st.slot s with
    | some r => ({ st with h := st.h.decref r }.setSlot s none, .unit)
    | none => (st.bad, .unit)
  | .load s bytes =>
    let (r, res, h) := st.h.load ω L bytes.toArray
    let (st, _) := st.fresh s (r, h)
    (st, .loaded r res)

def run (ω : Oracle) (L : Nat) (st : St) (ops : List Op) : St := ops.foldl (fun st op => (step ω L st op).1) st

end Heap

import Cbor.Drv.Tree
import Cbor.Model.Builder
import Cbor.Model.Serialize
import Cbor.Model.StreamClient
import Cbor.Drv.GenOps
import Cbor.Model.Heap
import Cbor.Model.HeapBuilder
/-! Driver operations over the hand-written value-level model (same protocol as harness/tree_ops.c). -/
namespace Drv
open Spec Model

def mkOracle (mode k cap : Nat) : Oracle := fun i bytes =>
  !(cap > 0 && bytes > cap) && !(mode == 1 && i == k) && !(mode == 2 && i ≥ k)

mutual
/-- live allocator blocks a decoded / API-built tree occupies -/
partial def blocks : Item → Nat
  | .bytes _ | .text _ => 2
  | .bytesI cs | .textI cs => 2 + (if cs.isEmpty then 0 else 1) + 2 * cs.length
  | .array xs => 2 + (xs.map blocks).foldl (· + ·) 0
  | .arrayI xs => 1 + (if xs.isEmpty then 0 else 1) + (xs.map blocks).foldl (· + ·) 0
  | .map kvs => 2 + (kvs.map fun (k, v) => blocks k + blocks v).foldl (· + ·) 0
  | .mapI kvs => 1 + (if kvs.isEmpty then 0 else 1) + (kvs.map fun (k, v) => blocks k + blocks v).foldl (· + ·) 0
  | .tag _ x => 1 + blocks x
  | _ => 1
end

/-- skeletons for the size computation: the tree syntax plus `f(LEN)` / `g(LEN)`, a byte / text string whose recorded length is LEN -/
partial def pSkel : P Model.Skel := fun cs =>
  match cs with
  | 'f' :: '(' :: r => do let (n, r) ← pNum r; let (_, r) ← pChar ')' r; some (.str n, r)
  | 'g' :: '(' :: r => do let (n, r) ← pNum r; let (_, r) ← pChar ')' r; some (.str n, r)
  | 'B' :: '[' :: r => do let (ls, r) ← pLens r []; some (.strI ls, r)
  | 'T' :: '[' :: r => do let (ls, r) ← pLens r []; some (.strI ls, r)
  | 'A' :: '[' :: r => do let (xs, r) ← pL r []; some (.arr true xs, r)
  | 'a' :: '[' :: r => do let (xs, r) ← pL r []; some (.arr false xs, r)
  | 'M' :: '[' :: r => do let (xs, r) ← pP r []; some (.map true xs, r)
  | 'm' :: '[' :: r => do let (xs, r) ← pP r []; some (.map false xs, r)
  | 'G' :: '(' :: r => do let (n, r) ← pNum r; let (_, r) ← pChar ',' r; let (x, r) ← pSkel r; let (_, r) ← pChar ')' r; some (.tag n x, r)
  | _ => do let (x, r) ← pItem cs; some (Model.skel x, r)
where
  pLens (cs : List Char) (acc : List Nat) : Option (List Nat × List Char) :=
    match cs with
    | ']' :: r => some (acc.reverse, r)
    | ',' :: r => pLens r acc
    | _ :: '(' :: r => do let (n, r) ← pNum r; let (_, r) ← pChar ')' r; pLens r (n :: acc)
    | _ => none
  pL (cs : List Char) (acc : List Model.Skel) : Option (List Model.Skel × List Char) :=
    match cs with
    | ']' :: r => some (acc.reverse, r)
    | ',' :: r => pL r acc
    | _ => do let (x, r) ← pSkel cs; pL r (x :: acc)
  pP (cs : List Char) (acc : List (Model.Skel × Model.Skel)) : Option (List (Model.Skel × Model.Skel) × List Char) :=
    match cs with
    | ']' :: r => some (acc.reverse, r)
    | ',' :: r => pP r acc
    | _ => do let (k, r) ← pSkel cs; let (_, r) ← pChar ':' r; let (v, r) ← pSkel r; pP r ((k, v) :: acc)

def parseSkel (s : String) : Option Model.Skel :=
  match pSkel s.toList with
  | some (x, []) => some x
  | _ => none


def codeName : Code → String
  | .none => "NONE" | .notEnough => "NOTENOUGHDATA" | .noData => "NODATA"
  | .malformed => "MALFORMATED" | .mem => "MEMERROR" | .syntax => "SYNTAXERROR"

/-- serialize into an exactly `n`-byte buffer pre-filled with 0xEE -/
def serInto (x : Item) (n : Nat) : UInt64 × Array UInt8 :=
  serialize x (Array.replicate n 0xEE) 0 (UInt64.ofNat n)

/-- the heap-level run of the same load (incremental builder on `Heap.H`): live allocator blocks afterwards, whether every live
cell has reference count one, and the live blocks left after releasing the result.  Only meaningful when the size cap of the
oracle played no role (the heap-level oracle is indexed by request number alone): `none` otherwise. -/
def heapLOAD (src : Array UInt8) (mode k cap : Nat) (L : Nat) (o : LoadOut) : Option (Nat × Bool × Nat × Bool) :=
  let o0 := if cap == 0 then o else load (mkOracle mode k 0) L { code := .none, position := 12345, read := 54321 } src
  if !(decide (o0.result = o.result) && o0.reqs == o.reqs && o0.item.isSome == o.item.isSome) then none else
  let r := HB.load (fun i => mkOracle mode k 0 i 0) L {} src
  if !(decide (r.2.1 = o.result) && r.2.2.reqs == o.reqs && r.1.isSome == o.item.isSome) then some (0, false, 0, true) else
  let h := r.2.2
  let rc1 := h.cells.all fun c => match c with | some c => c.rc == 1 | none => true
  let fin := match r.1 with | some y => (h.decref y) | none => h
  some (h.liveBlocks, rc1, fin.liveBlocks, h.fault || fin.fault)

def opLOAD (src : Array UInt8) (mode k cap : Nat) (L : Nat) : String :=
  let o := load (mkOracle mode k cap) L { code := .none, position := 12345, read := 54321 } src
  let hp := heapLOAD src mode k cap L o
  let flt := if o.fault || (match hp with | some (_, _, _, f) => f | none => false) then " MODEL-FAULT" else ""
  match o.item with
  | none =>
    let live := match hp with | some (l, _, _, _) => l | none => 0
    s!"ERR {codeName o.result.code} pos={o.result.position} read={o.result.read} reqs={o.reqs} live={live}{flt}"
  | some x =>
    let sz := (size x).toNat
    let tail :=
      if sz > 0 && sz < 16777216 then
        let r := serInto x sz
        let w := r.1.toNat
        let same := w == o.result.read && src.size ≥ w && (r.2.extract 0 w) == (src.extract 0 w)
        let s1 := if same then " ser==" else s!" ser={w}:{toHex (r.2.extract 0 w)}"
        let r2 := serInto x (sz - 1)
        s1 ++ s!" sern1={r2.1}"
      else ""
    let (live, rc1, fin) := match hp with | some (l, r, f, _) => (l, if r then 1 else 0, f) | none => (blocks x, 1, 0)
    s!"OK {fmtItem x} code={codeName o.result.code} read={o.result.read} reqs={o.reqs} live={live} rc1={rc1} filled=1 size={sz}{tail} copy=ok final={fin}{flt}"

def opSER (x : Item) (n : Nat) : String :=
  let r := serInto x n
  s!"{r.1} {toHex r.2} size={size x} noalloc=1 unchanged=1"

def opSERA (x : Item) (mode k : Nat) : String :=
  let sz := size x
  match serializeAlloc (fun k' => mkOracle mode k 0 0 k') x with
  | none => if sz == 0 then "0 0 null reqs=0 reqsize=0 live=0" else s!"0 0 null reqs=1 reqsize={sz} live=0"
  | some r => s!"{r.1} {sz} {toHex (r.2.extract 0 r.1.toNat)} reqs=1 reqsize={sz} live=1"

def opROUND (x : Item) (L : Nat) : String :=
  let sz := (size x).toNat
  if sz == 0 || sz > 16777216 then s!"size={sz}" else
  let r := serInto x sz
  let bytes := r.2.extract 0 r.1.toNat
  let o := load (fun _ _ => true) L { code := .none, position := 0, read := 0 } bytes
  match o.item with
  | none => s!"{toHex bytes} reload=ERR:{codeName o.result.code}:{o.result.position}"
  | some y =>
    let r2 := serInto y sz
    let b2 := r2.2.extract 0 r2.1.toNat
    let again := if b2 == bytes then " again==" else s!" again={toHex b2}"
    s!"{toHex bytes} reload={fmtItem y} read={o.result.read}{again}"

def modelOp (L : Nat) (ws : List String) : Option String :=
  match ws with
  | ["LOAD", h] => do some (opLOAD (← parseHex h) 0 0 0 L)
  | ["LOAD", h, m, k] => do some (opLOAD (← parseHex h) (← m.toNat?) (← k.toNat?) 0 L)
  | ["LOAD", h, m, k, cap] => do some (opLOAD (← parseHex h) (← m.toNat?) (← k.toNat?) (← cap.toNat?) L)
  | ["SER", t, n] => do some (opSER (← parseTree t) (← n.toNat?))
  | ["SERA", t] => do some (opSERA (← parseTree t) 0 0)
  | ["SERA", t, m, k] => do some (opSERA (← parseTree t) (← m.toNat?) (← k.toNat?))
  | ["ROUND", t] => do some (opROUND (← parseTree t) L)
  | ["SIZES", t] => do some s!"{sizeS (← parseSkel t)}"
  | ["GROWRUN", kind, n] => do
      -- n insertions into a fresh indefinite container under a granting allocator: the growth rule of the heap model applied n times
      let n ← n.toNat?
      if !(kind == "a" || kind == "m" || kind == "b" || kind == "s") then none else
      let step := fun (st : Nat × Nat × UInt64) (i : Nat) =>
        let (cap, reqs, h) := st
        let (cap, reqs) := if i ≥ cap then ((if cap == 0 then 1 else 2 * cap), reqs + 1) else (cap, reqs)
        (cap, reqs, (h ^^^ UInt64.ofNat cap) * 1099511628211)
      let (cap, reqs, h) := (List.range n).foldl step (0, 0, (1469598103934665603 : UInt64))
      let hex := String.ofList (Nat.toDigits 16 h.toNat)
      some s!"ok size={n} cap={cap} reqs={reqs} digest={"".pushn '0' (16 - hex.length)}{hex}"
  | ["GROWAT", kind, cap] => do
      -- one more entry into a full indefinite container of capacity `cap`, the allocator refusing: the growth rule of the heap model
      let cap ← cap.toNat?
      let elt ← (if kind == "m" then some 16 else if kind == "a" || kind == "b" || kind == "s" then some 8 else none)
      let r := Heap.grow (fun _ => false) {} elt cap
      let newcap := if cap == 0 then 1 else 2 * cap
      some (if r.2.reqs == 0 then "false reqs=0 last=- rc=1" else s!"false reqs={r.2.reqs} last={elt * newcap} rc=1")
  | ["LN", h, k] => do
      let pre ← (if h == "-" then some #[] else parseHex h); let k ← k.toNat?
      let total := if k == 0 then 1 else if k == 1 then 256 else 65536
      let step := fun (st : UInt64 × Nat × Nat) (v : Nat) =>
        let a := if k == 0 then pre else if k == 1 then pre.push (UInt8.ofNat v) else (pre.push (UInt8.ofNat (v / 256))).push (UInt8.ofNat (v % 256))
        let o := load (fun _ _ => true) L { code := .none, position := 0, read := 0 } a
        let (txt, ok) := match o.item with
          | some x => (s!"OK {fmtItem x} {o.result.read}" ++ (if o.fault then " MODEL-FAULT" else ""), true)
          | none => ((if o.result.code == Code.noData then "NODATA" else s!"ERR {codeName o.result.code} {o.result.position}") ++ (if o.fault then " MODEL-FAULT" else ""), false)
        let h := txt.toUTF8.foldl (fun (h : UInt64) b => (h ^^^ b.toUInt64) * 1099511628211) st.1
        let h := (h ^^^ 10) * 1099511628211
        (h, if ok then st.2.1 + 1 else st.2.1, if ok then st.2.2 else st.2.2 + 1)
      let (h, nok, nerr) := (List.range total).foldl step ((1469598103934665603 : UInt64), 0, 0)
      let hex := String.ofList (Nat.toDigits 16 h.toNat)
      some s!"{"".pushn '0' (16 - hex.length)}{hex} ok={nok} err={nerr}"
  | ["FRAG", h, first, cuts] => do
      let src ← parseHex h
      let first ← first.toNat?
      let arr ← (if cuts == "-" then some [] else (cuts.splitOn ",").mapM String.toNat?)
      let es := Model.client src (2 * src.size + 2) 0 first arr
      some s!"{es.length} {fmtEvents es}"
  | ["RO", t] => do
      let x ← parseTree t
      let sz := (size x).toNat
      let r := serInto x sz
      some s!"{sz} {toHex (r.2.extract 0 r.1.toNat)} intact=1"
  | _ => none

end Drv

/-! Parsing / printing helpers of the line-protocol driver. -/
namespace Drv

def hexDigit (c : Char) : Option Nat :=
  if '0' ≤ c ∧ c ≤ '9' then some (c.toNat - '0'.toNat)
  else if 'a' ≤ c ∧ c ≤ 'f' then some (c.toNat - 'a'.toNat + 10)
  else if 'A' ≤ c ∧ c ≤ 'F' then some (c.toNat - 'A'.toNat + 10)
  else none

/-- "-" denotes the empty byte string -/
def parseHex (s : String) : Option (Array UInt8) :=
  if s == "-" then some #[] else
  let rec go : List Char → Array UInt8 → Option (Array UInt8)
    | [], acc => some acc
    | [_], _ => none
    | a :: b :: rest, acc =>
      match hexDigit a, hexDigit b with
      | some x, some y => go rest (acc.push (UInt8.ofNat (x * 16 + y)))
      | _, _ => none
  go s.toList #[]

def hexNibble (n : Nat) : Char := if n < 10 then Char.ofNat (48 + n) else Char.ofNat (87 + n)

def toHex (a : Array UInt8) : String :=
  if a.size == 0 then "-" else
  String.ofList (a.toList.flatMap fun b => [hexNibble (b.toNat / 16), hexNibble (b.toNat % 16)])

def listToHex (a : List UInt8) : String := toHex a.toArray

end Drv

import Cbor.Drv.Util
import Cbor.Gen.Types
import Cbor.Gen.MemoryUtils
import Cbor.Gen.Encoders
import Cbor.Gen.Encoding
import Cbor.Gen.Loaders
import Cbor.Gen.Streaming
import Cbor.Gen.Unicode
import Cbor.Gen.HeaderSize
/-! Driver operations over the *generated* definitions (validates the translator against the compiled C). -/
namespace Drv
open Gen

def b2s (b : Bool) : String := if b then "1" else "0"

def fmtEvents (es : List Event) : String :=
  if es.isEmpty then "none" else String.intercalate ";" (es.map Event.fmt)

def opSD (src : Array UInt8) : String :=
  let n := UInt64.ofNat src.size
  let r := cbor_stream_decode src 0 n
  let ok := cbor_stream_decode.ok src 0 n
  s!"{r.1.status} {r.1.read} {r.1.required} {fmtEvents r.2} ok={b2s ok}"

/-- run an encoder into an `n`-byte buffer pre-filled with 0xAA -/
def opENC (fn : String) (v : Nat) (n : Nat) : Option String :=
  let buf : Array UInt8 := Array.replicate n 0xAA
  let sz := UInt64.ofNat n
  let fin (r : UInt64 × Array UInt8) (ok : Bool) : Option String := some s!"{r.1} {toHex r.2} ok={b2s ok}"
  match fn with
  | "uint8" => fin (cbor_encode_uint8 (UInt8.ofNat v) buf 0 sz) (cbor_encode_uint8.ok (UInt8.ofNat v) buf 0 sz)
  | "uint16" => fin (cbor_encode_uint16 (UInt16.ofNat v) buf 0 sz) (cbor_encode_uint16.ok (UInt16.ofNat v) buf 0 sz)
  | "uint32" => fin (cbor_encode_uint32 (UInt32.ofNat v) buf 0 sz) (cbor_encode_uint32.ok (UInt32.ofNat v) buf 0 sz)
  | "uint64" => fin (cbor_encode_uint64 (UInt64.ofNat v) buf 0 sz) (cbor_encode_uint64.ok (UInt64.ofNat v) buf 0 sz)
  | "uint" => fin (cbor_encode_uint (UInt64.ofNat v) buf 0 sz) (cbor_encode_uint.ok (UInt64.ofNat v) buf 0 sz)
  | "negint8" => fin (cbor_encode_negint8 (UInt8.ofNat v) buf 0 sz) (cbor_encode_negint8.ok (UInt8.ofNat v) buf 0 sz)
  | "negint16" => fin (cbor_encode_negint16 (UInt16.ofNat v) buf 0 sz) (cbor_encode_negint16.ok (UInt16.ofNat v) buf 0 sz)
  | "negint32" => fin (cbor_encode_negint32 (UInt32.ofNat v) buf 0 sz) (cbor_encode_negint32.ok (UInt32.ofNat v) buf 0 sz)
  | "negint64" => fin (cbor_encode_negint64 (UInt64.ofNat v) buf 0 sz) (cbor_encode_negint64.ok (UInt64.ofNat v) buf 0 sz)
  | "negint" => fin (cbor_encode_negint (UInt64.ofNat v) buf 0 sz) (cbor_encode_negint.ok (UInt64.ofNat v) buf 0 sz)
  | "bytestring_start" => fin (cbor_encode_bytestring_start (UInt64.ofNat v) buf 0 sz) (cbor_encode_bytestring_start.ok (UInt64.ofNat v) buf 0 sz)
  | "string_start" => fin (cbor_encode_string_start (UInt64.ofNat v) buf 0 sz) (cbor_encode_string_start.ok (UInt64.ofNat v) buf 0 sz)
  | "array_start" => fin (cbor_encode_array_start (UInt64.ofNat v) buf 0 sz) (cbor_encode_array_start.ok (UInt64.ofNat v) buf 0 sz)
  | "map_start" => fin (cbor_encode_map_start (UInt64.ofNat v) buf 0 sz) (cbor_encode_map_start.ok (UInt64.ofNat v) buf 0 sz)
  | "tag" => fin (cbor_encode_tag (UInt64.ofNat v) buf 0 sz) (cbor_encode_tag.ok (UInt64.ofNat v) buf 0 sz)
  | "indef_bytestring_start" => fin (cbor_encode_indef_bytestring_start buf 0 sz) (cbor_encode_indef_bytestring_start.ok buf 0 sz)
  | "indef_string_start" => fin (cbor_encode_indef_string_start buf 0 sz) (cbor_encode_indef_string_start.ok buf 0 sz)
  | "indef_array_start" => fin (cbor_encode_indef_array_start buf 0 sz) (cbor_encode_indef_array_start.ok buf 0 sz)
  | "indef_map_start" => fin (cbor_encode_indef_map_start buf 0 sz) (cbor_encode_indef_map_start.ok buf 0 sz)
  | "bool" => fin (cbor_encode_bool (v != 0) buf 0 sz) (cbor_encode_bool.ok (v != 0) buf 0 sz)
  | "null" => fin (cbor_encode_null buf 0 sz) (cbor_encode_null.ok buf 0 sz)
  | "undef" => fin (cbor_encode_undef buf 0 sz) (cbor_encode_undef.ok buf 0 sz)
  | "break" => fin (cbor_encode_break buf 0 sz) (cbor_encode_break.ok buf 0 sz)
  | "ctrl" => fin (cbor_encode_ctrl (UInt8.ofNat v) buf 0 sz) (cbor_encode_ctrl.ok (UInt8.ofNat v) buf 0 sz)
  | "half" => fin (cbor_encode_half (UInt32.ofNat v) buf 0 sz) (cbor_encode_half.ok (UInt32.ofNat v) buf 0 sz)
  | "single" => fin (cbor_encode_single (UInt32.ofNat v) buf 0 sz) (cbor_encode_single.ok (UInt32.ofNat v) buf 0 sz)
  | "double" => fin (cbor_encode_double (UInt64.ofNat v) buf 0 sz) (cbor_encode_double.ok (UInt64.ofNat v) buf 0 sz)
  | _ => none

def opUTF8 (src : Array UInt8) : String :=
  let st0 : S__cbor_unicode_status := { status := 7, location := 77 }
  let r := _cbor_unicode_codepoint_count src 0 (UInt64.ofNat src.size) st0
  let ok := _cbor_unicode_codepoint_count.ok src 0 (UInt64.ofNat src.size) st0
  s!"{r.1} {r.2.status} {r.2.location} ok={b2s ok}"

/-- increment the byte string (as a big-endian counter) in positions ≥ pl; none on wrap-around -/
def incFrom (b : Array UInt8) (pl : Nat) : Option (Array UInt8) :=
  let rec go (i : Nat) (b : Array UInt8) : Option (Array UInt8) :=
    match i with
    | 0 => none
    | i+1 =>
      if i < pl then none
      else
        let v := b.getD i 0 + 1
        let b := b.setIfInBounds i v
        if v != 0 then some b else go i b
  go b.size b

def fnv (h x : UInt64) : UInt64 := (h ^^^ x) * 1099511628211

partial def utf8AllLoop (b : Array UInt8) (pl : Nat) (h n valid sum : UInt64)
    (f : Array UInt8 → UInt64 × UInt32) : UInt64 × UInt64 × UInt64 × UInt64 :=
  let r := f b
  let h := fnv (fnv h r.1) r.2.toUInt64
  let n := n + 1
  let (valid, sum) := if r.2 == 0 then (valid + 1, sum + r.1) else (valid, sum)
  match incFrom b pl with
  | some b' => utf8AllLoop b' pl h n valid sum f
  | none => (h, n, valid, sum)

def opUTF8ALL (len : Nat) (pre : Array UInt8) : String :=
  let b0 : Array UInt8 := (Array.replicate len 0)
  let b0 := (List.range pre.size).foldl (fun a i => a.setIfInBounds i (pre.getD i 0)) b0
  let st0 : S__cbor_unicode_status := { status := 7, location := 77 }
  let r := utf8AllLoop b0 pre.size 1469598103934665603 0 0 0 fun b =>
    let x := _cbor_unicode_codepoint_count b 0 (UInt64.ofNat b.size) st0
    (x.1, x.2.status)
  s!"{r.1} {r.2.1} {r.2.2.1} {r.2.2.2}"

def opF32ALL (hi : Nat) : String :=
  let b5 : Array UInt8 := Array.replicate 5 0
  let b3 : Array UInt8 := Array.replicate 3 0
  let h := (List.range 65536).foldl (fun (h : UInt64) lo =>
    let bits := UInt32.ofNat (hi * 65536 + lo)
    let r1 := cbor_encode_single bits b5 0 5
    let r2 := cbor_encode_half bits b3 0 3
    let h := fnv (fnv h r1.1) r2.1
    let h := r1.2.foldl (fun h b => fnv h b.toUInt64) h
    r2.2.foldl (fun h b => fnv h b.toUInt64) h) 1469598103934665603
  s!"{h}"

def genOp (ws : List String) : Option String :=
  match ws with
  | ["SD", h] => (parseHex h).map opSD
  | ["ENC", fn, v, n] => do opENC fn (← v.toNat?) (← n.toNat?)
  | ["F32ALL", hi] => do some (opF32ALL (← hi.toNat?))
  | ["UTF8", h] => (parseHex h).map opUTF8
  | ["UTF8ALL", l, h] => do some (opUTF8ALL (← l.toNat?) (← parseHex h))
  | ["MUL", a, b] => do
      let a := UInt64.ofNat (← a.toNat?); let b := UInt64.ofNat (← b.toNat?)
      some s!"{b2s (_cbor_safe_to_multiply a b)} ok={b2s (_cbor_safe_to_multiply.ok a b)}"
  | ["ADD", a, b] => do
      let a := UInt64.ofNat (← a.toNat?); let b := UInt64.ofNat (← b.toNat?)
      some s!"{b2s (_cbor_safe_to_add a b)} ok={b2s (_cbor_safe_to_add.ok a b)}"
  | ["SADD", a, b] => do
      let a := UInt64.ofNat (← a.toNat?); let b := UInt64.ofNat (← b.toNat?)
      some s!"{_cbor_safe_signaling_add a b} ok={b2s (_cbor_safe_signaling_add.ok a b)}"
  | ["HBIT", a] => do
      let a := UInt64.ofNat (← a.toNat?)
      some s!"{_cbor_highest_bit a} ok={b2s (_cbor_highest_bit.ok a)}"
  | ["HDR", a] => do
      let a := UInt64.ofNat (← a.toNat?)
      some s!"{_cbor_encoded_header_size a} ok={b2s (_cbor_encoded_header_size.ok a)}"
  | ["HALFD", h] => do
      let h ← h.toNat?
      some s!"{Ext.decodeHalfBits h}"
  | _ => none

end Drv

import Cbor.Drv.Util
import Cbor.Gen.Types
import Cbor.Gen.MemoryUtils
import Cbor.Gen.Encoders
import Cbor.Gen.Encoding
import Cbor.Gen.Loaders
import Cbor.Gen.Streaming
import Cbor.Gen.Unicode
import Cbor.Gen.HeaderSize
import Cbor.Gen.Accessors
import Cbor.Gen.Accessors2
import Cbor.Gen.Serializers
/-! Driver operations over the *generated* definitions (validates the translator against the compiled C). -/
namespace Drv
open Gen

def b2s (b : Bool) : String := if b then "1" else "0"

def fmtEvents (es : List Event) : String :=
  if es.isEmpty then "none" else String.intercalate ";" (es.map Event.fmt)

def opSD (src : Array UInt8) : String :=
  let n := UInt64.ofNat src.size
  let r := cbor_stream_decode src 0 n
  let ok := cbor_stream_decode.ok src 0 n
  s!"{r.1.status} {r.1.read} {r.1.required} {fmtEvents r.2} ok={b2s ok}"

/-- the same call with do-nothing callbacks: only the result struct is observable -/
def opSDE (src : Array UInt8) : String :=
  let n := UInt64.ofNat src.size
  let r := cbor_stream_decode src 0 n
  s!"{r.1.status} {r.1.read} {r.1.required} ok={b2s (cbor_stream_decode.ok src 0 n)}"

/-- run an encoder into an `n`-byte buffer pre-filled with 0xAA -/
def opENC (fn : String) (v : Nat) (n : Nat) : Option String :=
  let buf : Array UInt8 := Array.replicate n 0xAA
  let sz := UInt64.ofNat n
  let fin (r : UInt64 × Array UInt8) (ok : Bool) : Option String := some s!"{r.1} {toHex r.2} ok={b2s ok}"
  match fn with
  | "uint8" => fin (cbor_encode_uint8 (UInt8.ofNat v) buf 0 sz) (cbor_encode_uint8.ok (UInt8.ofNat v) buf 0 sz)
  | "uint16" => fin (cbor_encode_uint16 (UInt16.ofNat v) buf 0 sz) (cbor_encode_uint16.ok (UInt16.ofNat v) buf 0 sz)
  | "uint32" => fin (cbor_encode_uint32 (UInt32.ofNat v) buf 0 sz) (cbor_encode_uint32.ok (UInt32.ofNat v) buf 0 sz)
  | "uint64" => fin (cbor_encode_uint64 (UInt64.ofNat v) buf 0 sz) (cbor_encode_uint64.ok (UInt64.ofNat v) buf 0 sz)
  | "uint" => fin (cbor_encode_uint (UInt64.ofNat v) buf 0 sz) (cbor_encode_uint.ok (UInt64.ofNat v) buf 0 sz)
  | "negint8" => fin (cbor_encode_negint8 (UInt8.ofNat v) buf 0 sz) (cbor_encode_negint8.ok (UInt8.ofNat v) buf 0 sz)
  | "negint16" => fin (cbor_encode_negint16 (UInt16.ofNat v) buf 0 sz) (cbor_encode_negint16.ok (UInt16.ofNat v) buf 0 sz)
  | "negint32" => fin (cbor_encode_negint32 (UInt32.ofNat v) buf 0 sz) (cbor_encode_negint32.ok (UInt32.ofNat v) buf 0 sz)
  | "negint64" => fin (cbor_encode_negint64 (UInt64.ofNat v) buf 0 sz) (cbor_encode_negint64.ok (UInt64.ofNat v) buf 0 sz)
  | "negint" => fin (cbor_encode_negint (UInt64.ofNat v) buf 0 sz) (cbor_encode_negint.ok (UInt64.ofNat v) buf 0 sz)
  | "bytestring_start" => fin (cbor_encode_bytestring_start (UInt64.ofNat v) buf 0 sz) (cbor_encode_bytestring_start.ok (UInt64.ofNat v) buf 0 sz)
  | "string_start" => fin (cbor_encode_string_start (UInt64.ofNat v) buf 0 sz) (cbor_encode_string_start.ok (UInt64.ofNat v) buf 0 sz)
  | "array_start" => fin (cbor_encode_array_start (UInt64.ofNat v) buf 0 sz) (cbor_encode_array_start.ok (UInt64.ofNat v) buf 0 sz)
  | "map_start" => fin (cbor_encode_map_start (UInt64.ofNat v) buf 0 sz) (cbor_encode_map_start.ok (UInt64.ofNat v) buf 0 sz)
  | "tag" => fin (cbor_encode_tag (UInt64.ofNat v) buf 0 sz) (cbor_encode_tag.ok (UInt64.ofNat v) buf 0 sz)
  | "indef_bytestring_start" => fin (cbor_encode_indef_bytestring_start buf 0 sz) (cbor_encode_indef_bytestring_start.ok buf 0 sz)
  | "indef_string_start" => fin (cbor_encode_indef_string_start buf 0 sz) (cbor_encode_indef_string_start.ok buf 0 sz)
  | "indef_array_start" => fin (cbor_encode_indef_array_start buf 0 sz) (cbor_encode_indef_array_start.ok buf 0 sz)
  | "indef_map_start" => fin (cbor_encode_indef_map_start buf 0 sz) (cbor_encode_indef_map_start.ok buf 0 sz)
  | "bool" => fin (cbor_encode_bool (v != 0) buf 0 sz) (cbor_encode_bool.ok (v != 0) buf 0 sz)
  | "null" => fin (cbor_encode_null buf 0 sz) (cbor_encode_null.ok buf 0 sz)
  | "undef" => fin (cbor_encode_undef buf 0 sz) (cbor_encode_undef.ok buf 0 sz)
  | "break" => fin (cbor_encode_break buf 0 sz) (cbor_encode_break.ok buf 0 sz)
  | "ctrl" => fin (cbor_encode_ctrl (UInt8.ofNat v) buf 0 sz) (cbor_encode_ctrl.ok (UInt8.ofNat v) buf 0 sz)
  | "half" => fin (cbor_encode_half (UInt32.ofNat v) buf 0 sz) (cbor_encode_half.ok (UInt32.ofNat v) buf 0 sz)
  | "single" => fin (cbor_encode_single (UInt32.ofNat v) buf 0 sz) (cbor_encode_single.ok (UInt32.ofNat v) buf 0 sz)
  | "double" => fin (cbor_encode_double (UInt64.ofNat v) buf 0 sz) (cbor_encode_double.ok (UInt64.ofNat v) buf 0 sz)
  | _ => none

def opUTF8 (src : Array UInt8) : String :=
  let st0 : S__cbor_unicode_status := { status := 7, location := 77 }
  let r := _cbor_unicode_codepoint_count src 0 (UInt64.ofNat src.size) st0
  let ok := _cbor_unicode_codepoint_count.ok src 0 (UInt64.ofNat src.size) st0
  s!"{r.1} {r.2.status} {r.2.location} ok={b2s ok}"

/-- increment the byte string (as a big-endian counter) in positions ≥ pl; none on wrap-around -/
def incFrom (b : Array UInt8) (pl : Nat) : Option (Array UInt8) :=
  let rec go (i : Nat) (b : Array UInt8) : Option (Array UInt8) :=
    match i with
    | 0 => none
    | i+1 =>
      if i < pl then none
      else
        let v := b.getD i 0 + 1
        let b := b.setIfInBounds i v
        if v != 0 then some b else go i b
  go b.size b

def fnv (h x : UInt64) : UInt64 := (h ^^^ x) * 1099511628211

partial def utf8AllLoop (b : Array UInt8) (pl : Nat) (h n valid sum : UInt64)
    (f : Array UInt8 → UInt64 × UInt32) : UInt64 × UInt64 × UInt64 × UInt64 :=
  let r := f b
  let h := fnv (fnv h r.1) r.2.toUInt64
  let n := n + 1
  let (valid, sum) := if r.2 == 0 then (valid + 1, sum + r.1) else (valid, sum)
  match incFrom b pl with
  | some b' => utf8AllLoop b' pl h n valid sum f
  | none => (h, n, valid, sum)

def opUTF8ALL (len : Nat) (pre : Array UInt8) : String :=
  let b0 : Array UInt8 := (Array.replicate len 0)
  let b0 := (List.range pre.size).foldl (fun a i => a.setIfInBounds i (pre.getD i 0)) b0
  let st0 : S__cbor_unicode_status := { status := 7, location := 77 }
  let r := utf8AllLoop b0 pre.size 1469598103934665603 0 0 0 fun b =>
    let x := _cbor_unicode_codepoint_count b 0 (UInt64.ofNat b.size) st0
    (x.1, x.2.status)
  s!"{r.1} {r.2.1} {r.2.2.1} {r.2.2.2}"

def opF32ALL (hi : Nat) : String :=
  let b5 : Array UInt8 := Array.replicate 5 0
  let b3 : Array UInt8 := Array.replicate 3 0
  let h := (List.range 65536).foldl (fun (h : UInt64) lo =>
    let bits := UInt32.ofNat (hi * 65536 + lo)
    let r1 := cbor_encode_single bits b5 0 5
    let r2 := cbor_encode_half bits b3 0 3
    let h := fnv (fnv h r1.1) r2.1
    let h := r1.2.foldl (fun h b => fnv h b.toUInt64) h
    r2.2.foldl (fun h b => fnv h b.toUInt64) h) 1469598103934665603
  s!"{h}"

/-! ### ACC: item accessors.  `ACC <fn> <type> <a> <b> <c> <refcount> <hexdata> <value>` — same protocol as harness/gen_ops.c (op_acc). -/

/-- the record the harness builds: `.type`, `.refcount`, the bytes `data` points to, and the union member selected by the type tag filled from
`a b c`; the fields of every other member hold recognisable junk (in C they overlap the selected member; the model must not read them) -/
def accItem (ty a b c rc : Nat) (d : Array UInt8) : ItemRec :=
  let z : ItemRec := { type := UInt32.ofNat ty, refcount := UInt64.ofNat rc, int_width := 0xDEAD0001, bs_length := 0xDEAD0002, bs_type := 0xDEAD0003,
                       str_length := 0xDEAD0004, str_codepoints := 0xDEAD0005, str_type := 0xDEAD0006, arr_allocated := 0xDEAD0007,
                       arr_end_ptr := 0xDEAD0008, arr_type := 0xDEAD0009, map_allocated := 0xDEAD000A, map_end_ptr := 0xDEAD000B,
                       map_type := 0xDEAD000C, tagged_item := 0, tag_value := 0xDEAD000D, float_width := 0xDEAD000E, ctrl := 0xEE, data := d }
  match ty with
  | 0 | 1 => { z with int_width := UInt32.ofNat a }
  | 2 => { z with bs_length := UInt64.ofNat a, bs_type := UInt32.ofNat b }
  | 3 => { z with str_length := UInt64.ofNat a, str_codepoints := UInt64.ofNat b, str_type := UInt32.ofNat c }
  | 4 => { z with arr_allocated := UInt64.ofNat a, arr_end_ptr := UInt64.ofNat b, arr_type := UInt32.ofNat c }
  | 5 => { z with map_allocated := UInt64.ofNat a, map_end_ptr := UInt64.ofNat b, map_type := UInt32.ofNat c }
  | 6 => { z with tag_value := UInt64.ofNat b }
  | 7 => { z with float_width := UInt32.ofNat a, ctrl := UInt8.ofNat b }
  | _ => z

/-- the whole item after the call, as the harness prints it (member selected by the *current* type tag) -/
def accFmtItem (r : ItemRec) : String :=
  let (a, b, c) : Nat × Nat × Nat :=
    match r.type.toNat with
    | 0 | 1 => (r.int_width.toNat, 0, 0)
    | 2 => (r.bs_length.toNat, r.bs_type.toNat, 0)
    | 3 => (r.str_length.toNat, r.str_codepoints.toNat, r.str_type.toNat)
    | 4 => (r.arr_allocated.toNat, r.arr_end_ptr.toNat, r.arr_type.toNat)
    | 5 => (r.map_allocated.toNat, r.map_end_ptr.toNat, r.map_type.toNat)
    | 6 => (0, r.tag_value.toNat, 0)
    | 7 => (r.float_width.toNat, r.ctrl.toNat, 0)
    | _ => (0, 0, 0)
  s!" t={r.type} m={a},{b},{c} rc={r.refcount} d={toHex r.data}"

/-- what a generated accessor returns: a value, and — exactly when the translator found a store into the item — the record afterwards.
The instances cover every type the translator can emit for an accessor (value, record, value × record, nothing), so this driver keeps
building when a function starts or stops storing; the change then shows in the correspondence and in `Props.Accessors`. -/
class AccOut (α : Type) where
  val : α → String
  item : α → Option ItemRec
instance : AccOut UInt8 := ⟨fun x => toString x.toNat, fun _ => none⟩
instance : AccOut UInt16 := ⟨fun x => toString x.toNat, fun _ => none⟩
instance : AccOut UInt32 := ⟨fun x => toString x.toNat, fun _ => none⟩
instance : AccOut UInt64 := ⟨fun x => toString x.toNat, fun _ => none⟩
instance : AccOut Bool := ⟨fun x => if x then "1" else "0", fun _ => none⟩
instance : AccOut Unit := ⟨fun _ => "-", fun _ => none⟩
instance : AccOut ItemRec := ⟨fun _ => "-", fun r => some r⟩
instance : AccOut Untranslated := ⟨fun u => s!"untranslated({u.why})", fun _ => none⟩
instance {α : Type} [AccOut α] : AccOut (α × ItemRec) := ⟨fun x => AccOut.val x.1, fun x => some x.2⟩

def accOut {α : Type} [AccOut α] (r : ItemRec) (x : α) (ok : Bool) : Option String :=
  some (if ok then s!"{AccOut.val x}{accFmtItem ((AccOut.item x).getD r)} ok=1" else "ok=0")

def opACC (fn : String) (r : ItemRec) (v : Nat) : Option String :=
  match fn with
  | "cbor_typeof" => accOut r (cbor_typeof r) (cbor_typeof.ok r)
  | "cbor_refcount" => accOut r (cbor_refcount r) (cbor_refcount.ok r)
  | "cbor_int_get_width" => accOut r (cbor_int_get_width r) (cbor_int_get_width.ok r)
  | "cbor_get_uint8" => accOut r (cbor_get_uint8 r) (cbor_get_uint8.ok r)
  | "cbor_get_uint16" => accOut r (cbor_get_uint16 r) (cbor_get_uint16.ok r)
  | "cbor_get_uint32" => accOut r (cbor_get_uint32 r) (cbor_get_uint32.ok r)
  | "cbor_get_uint64" => accOut r (cbor_get_uint64 r) (cbor_get_uint64.ok r)
  | "cbor_get_int" => accOut r (cbor_get_int r) (cbor_get_int.ok r)
  | "cbor_float_get_width" => accOut r (cbor_float_get_width r) (cbor_float_get_width.ok r)
  | "cbor_ctrl_value" => accOut r (cbor_ctrl_value r) (cbor_ctrl_value.ok r)
  | "cbor_array_size" => accOut r (cbor_array_size r) (cbor_array_size.ok r)
  | "cbor_array_allocated" => accOut r (cbor_array_allocated r) (cbor_array_allocated.ok r)
  | "cbor_map_size" => accOut r (cbor_map_size r) (cbor_map_size.ok r)
  | "cbor_map_allocated" => accOut r (cbor_map_allocated r) (cbor_map_allocated.ok r)
  | "cbor_string_length" => accOut r (cbor_string_length r) (cbor_string_length.ok r)
  | "cbor_string_codepoint_count" => accOut r (cbor_string_codepoint_count r) (cbor_string_codepoint_count.ok r)
  | "cbor_bytestring_length" => accOut r (cbor_bytestring_length r) (cbor_bytestring_length.ok r)
  | "cbor_tag_value" => accOut r (cbor_tag_value r) (cbor_tag_value.ok r)
  | "cbor_isa_uint" => accOut r (cbor_isa_uint r) (cbor_isa_uint.ok r)
  | "cbor_isa_negint" => accOut r (cbor_isa_negint r) (cbor_isa_negint.ok r)
  | "cbor_isa_bytestring" => accOut r (cbor_isa_bytestring r) (cbor_isa_bytestring.ok r)
  | "cbor_isa_string" => accOut r (cbor_isa_string r) (cbor_isa_string.ok r)
  | "cbor_isa_array" => accOut r (cbor_isa_array r) (cbor_isa_array.ok r)
  | "cbor_isa_map" => accOut r (cbor_isa_map r) (cbor_isa_map.ok r)
  | "cbor_isa_tag" => accOut r (cbor_isa_tag r) (cbor_isa_tag.ok r)
  | "cbor_isa_float_ctrl" => accOut r (cbor_isa_float_ctrl r) (cbor_isa_float_ctrl.ok r)
  | "cbor_is_int" => accOut r (cbor_is_int r) (cbor_is_int.ok r)
  | "cbor_is_float" => accOut r (cbor_is_float r) (cbor_is_float.ok r)
  | "cbor_is_bool" => accOut r (cbor_is_bool r) (cbor_is_bool.ok r)
  | "cbor_is_null" => accOut r (cbor_is_null r) (cbor_is_null.ok r)
  | "cbor_is_undef" => accOut r (cbor_is_undef r) (cbor_is_undef.ok r)
  | "cbor_float_ctrl_is_ctrl" => accOut r (cbor_float_ctrl_is_ctrl r) (cbor_float_ctrl_is_ctrl.ok r)
  | "cbor_get_bool" => accOut r (cbor_get_bool r) (cbor_get_bool.ok r)
  | "cbor_array_is_definite" => accOut r (cbor_array_is_definite r) (cbor_array_is_definite.ok r)
  | "cbor_array_is_indefinite" => accOut r (cbor_array_is_indefinite r) (cbor_array_is_indefinite.ok r)
  | "cbor_map_is_definite" => accOut r (cbor_map_is_definite r) (cbor_map_is_definite.ok r)
  | "cbor_map_is_indefinite" => accOut r (cbor_map_is_indefinite r) (cbor_map_is_indefinite.ok r)
  | "cbor_string_is_definite" => accOut r (cbor_string_is_definite r) (cbor_string_is_definite.ok r)
  | "cbor_string_is_indefinite" => accOut r (cbor_string_is_indefinite r) (cbor_string_is_indefinite.ok r)
  | "cbor_bytestring_is_definite" => accOut r (cbor_bytestring_is_definite r) (cbor_bytestring_is_definite.ok r)
  | "cbor_bytestring_is_indefinite" => accOut r (cbor_bytestring_is_indefinite r) (cbor_bytestring_is_indefinite.ok r)
  | "cbor_set_uint8" => accOut r (cbor_set_uint8 r (UInt8.ofNat v)) (cbor_set_uint8.ok r (UInt8.ofNat v))
  | "cbor_set_uint16" => accOut r (cbor_set_uint16 r (UInt16.ofNat v)) (cbor_set_uint16.ok r (UInt16.ofNat v))
  | "cbor_set_uint32" => accOut r (cbor_set_uint32 r (UInt32.ofNat v)) (cbor_set_uint32.ok r (UInt32.ofNat v))
  | "cbor_set_uint64" => accOut r (cbor_set_uint64 r (UInt64.ofNat v)) (cbor_set_uint64.ok r (UInt64.ofNat v))
  | "cbor_set_ctrl" => accOut r (cbor_set_ctrl r (UInt8.ofNat v)) (cbor_set_ctrl.ok r (UInt8.ofNat v))
  | "cbor_set_bool" => accOut r (cbor_set_bool r (v != 0)) (cbor_set_bool.ok r (v != 0))
  | "cbor_mark_uint" => accOut r (cbor_mark_uint r) (cbor_mark_uint.ok r)
  | "cbor_mark_negint" => accOut r (cbor_mark_negint r) (cbor_mark_negint.ok r)
  -- float getters / setters: `float` / `double` values are IEEE-754 bit patterns (printed / given in decimal)
  | "cbor_float_get_float2" => accOut r (cbor_float_get_float2 r) (cbor_float_get_float2.ok r)
  | "cbor_float_get_float4" => accOut r (cbor_float_get_float4 r) (cbor_float_get_float4.ok r)
  | "cbor_float_get_float8" => accOut r (cbor_float_get_float8 r) (cbor_float_get_float8.ok r)
  | "cbor_float_get_float" => accOut r (cbor_float_get_float r) (cbor_float_get_float.ok r)
  | "cbor_set_float2" => accOut r (cbor_set_float2 r (UInt32.ofNat v)) (cbor_set_float2.ok r (UInt32.ofNat v))
  | "cbor_set_float4" => accOut r (cbor_set_float4 r (UInt32.ofNat v)) (cbor_set_float4.ok r (UInt32.ofNat v))
  | "cbor_set_float8" => accOut r (cbor_set_float8 r (UInt64.ofNat v)) (cbor_set_float8.ok r (UInt64.ofNat v))
  | _ => none

/-- the handle setters: `hb` = the bytes of the buffer handed over, `v` = the length argument -/
def opACCH (fn : String) (r : ItemRec) (v : Nat) (hb : Array UInt8) : Option String :=
  match fn with
  | "cbor_string_set_handle" => accOut r (cbor_string_set_handle r hb (UInt64.ofNat v)) (cbor_string_set_handle.ok r hb (UInt64.ofNat v))
  | "cbor_bytestring_set_handle" => accOut r (cbor_bytestring_set_handle r hb (UInt64.ofNat v)) (cbor_bytestring_set_handle.ok r hb (UInt64.ofNat v))
  | _ => none

/-! ### ACC, leaf serializers: `ACC <fn> <kind> <value> <n>` — same protocol as harness/gen_ops.c (op_accser). -/

/-- the `n` low-order bytes of `v`, least significant first (host byte order of the payload the constructors write) -/
def leBytesN (n v : Nat) : Array UInt8 := ((List.range n).map fun i => UInt8.ofNat (v / 256 ^ i)).toArray

/-- the record of the item the harness builds through the constructors: refcount 1, the selected union member, the payload;
the fields of the other members hold junk (`accItem`) -/
def serItem (kind : String) (v : Nat) (bytes : Array UInt8) : Option ItemRec :=
  match kind with
  | "u8" => some (accItem 0 0 0 0 1 (leBytesN 1 v))
  | "u16" => some (accItem 0 1 0 0 1 (leBytesN 2 v))
  | "u32" => some (accItem 0 2 0 0 1 (leBytesN 4 v))
  | "u64" => some (accItem 0 3 0 0 1 (leBytesN 8 v))
  | "n8" => some (accItem 1 0 0 0 1 (leBytesN 1 v))
  | "n16" => some (accItem 1 1 0 0 1 (leBytesN 2 v))
  | "n32" => some (accItem 1 2 0 0 1 (leBytesN 4 v))
  | "n64" => some (accItem 1 3 0 0 1 (leBytesN 8 v))
  | "ctrl" => some (accItem 7 0 v 0 1 #[])
  | "f2" => some (accItem 7 1 0 0 1 (leBytesN 4 v))
  | "f4" => some (accItem 7 2 0 0 1 (leBytesN 4 v))
  | "f8" => some (accItem 7 3 0 0 1 (leBytesN 8 v))
  | "bs" => some (accItem 2 bytes.size 0 0 1 bytes)
  | "ts" => some (accItem 3 bytes.size 0xDEAD 0 1 bytes)
  | _ => none

/-- what a generated leaf serializer returns: (bytes written, buffer), or just a size; `Untranslated` keeps the driver building when
the translator had to refuse a function -/
class SerOut (α : Type) where
  fmt : α → String
instance : SerOut (UInt64 × Array UInt8) := ⟨fun r => s!"{r.1} {toHex r.2}"⟩
instance : SerOut UInt64 := ⟨fun r => s!"{r} -"⟩
instance : SerOut Untranslated := ⟨fun u => s!"untranslated({u.why})"⟩

def serOut {α : Type} [SerOut α] (x : α) (ok : Bool) : Option String := some (if ok then s!"{SerOut.fmt x} ok=1" else "ok=0")

def opACCS (fn : String) (r : ItemRec) (n : Nat) : Option String :=
  let buf : Array UInt8 := Array.replicate n 0xAA
  let sz := UInt64.ofNat n
  match fn with
  | "cbor_serialize_uint" => serOut (cbor_serialize_uint r buf 0 sz) (cbor_serialize_uint.ok r buf 0 sz)
  | "cbor_serialize_negint" => serOut (cbor_serialize_negint r buf 0 sz) (cbor_serialize_negint.ok r buf 0 sz)
  | "cbor_serialize_float_ctrl" => serOut (cbor_serialize_float_ctrl r buf 0 sz) (cbor_serialize_float_ctrl.ok r buf 0 sz)
  | "cbor_serialize_bytestring" => serOut (cbor_serialize_bytestring r buf 0 sz) (cbor_serialize_bytestring.ok r buf 0 sz)
  | "cbor_serialize_string" => serOut (cbor_serialize_string r buf 0 sz) (cbor_serialize_string.ok r buf 0 sz)
  | "cbor_serialized_size" => serOut (cbor_serialized_size r) (cbor_serialized_size.ok r)
  | _ => none

def genOp (ws : List String) : Option String :=
  match ws with
  | ["ACC", fn, kind, v, n] => do
      let isStr := kind == "bs" || kind == "ts"
      let bytes ← if isStr then parseHex v else some #[]
      let val ← if isStr then some 0 else v.toNat?
      opACCS fn (← serItem kind val bytes) (← n.toNat?)
  | ["ACC", fn, ty, a, b, c, rc, h, v] => do
      opACC fn (accItem (← ty.toNat?) (← a.toNat?) (← b.toNat?) (← c.toNat?) (← rc.toNat?) (← parseHex h)) (← v.toNat?)
  | ["ACC", fn, ty, a, b, c, rc, h, v, hb] => do
      opACCH fn (accItem (← ty.toNat?) (← a.toNat?) (← b.toNat?) (← c.toNat?) (← rc.toNat?) (← parseHex h)) (← v.toNat?) (← parseHex hb)
  | ["SD", h] => (parseHex h).map opSD
  | ["ENC", fn, v, n] => do opENC fn (← v.toNat?) (← n.toNat?)
  | ["F32ALL", hi] => do some (opF32ALL (← hi.toNat?))
  | ["SDE", h] => (parseHex h).map opSDE
  | ["UTF8", h] => (parseHex h).map opUTF8
  | ["UTF8ALL", l, h] => do some (opUTF8ALL (← l.toNat?) (← parseHex h))
  | ["MUL", a, b] => do
      let a := UInt64.ofNat (← a.toNat?); let b := UInt64.ofNat (← b.toNat?)
      some s!"{b2s (_cbor_safe_to_multiply a b)} ok={b2s (_cbor_safe_to_multiply.ok a b)}"
  | ["ADD", a, b] => do
      let a := UInt64.ofNat (← a.toNat?); let b := UInt64.ofNat (← b.toNat?)
      some s!"{b2s (_cbor_safe_to_add a b)} ok={b2s (_cbor_safe_to_add.ok a b)}"
  | ["SADD", a, b] => do
      let a := UInt64.ofNat (← a.toNat?); let b := UInt64.ofNat (← b.toNat?)
      some s!"{_cbor_safe_signaling_add a b} ok={b2s (_cbor_safe_signaling_add.ok a b)}"
  | ["HBIT", a] => do
      let a := UInt64.ofNat (← a.toNat?)
      some s!"{_cbor_highest_bit a} ok={b2s (_cbor_highest_bit.ok a)}"
  | ["HDR", a] => do
      let a := UInt64.ofNat (← a.toNat?)
      some s!"{_cbor_encoded_header_size a} ok={b2s (_cbor_encoded_header_size.ok a)}"
  | ["HALFD", h] => do
      let h ← h.toNat?
      some s!"{Ext.decodeHalfBits h}"
  | _ => none

end Drv

import Cbor.Drv.Util
import Cbor.Spec.Head
import Cbor.Spec.Utf8
import Cbor.Spec.Decode
import Cbor.Drv.Tree
/-! Executable Spec operations (the property oracle); no dependency on `Cbor.Gen` / `Cbor.Model`. -/
namespace Drv
open Spec

def widthName : Width → String
  | .w8 => "8" | .w16 => "16" | .w32 => "32" | .w64 => "64"

/-- same vocabulary as the recording callbacks of the C harness -/
def Tok.fmt : Tok → String
  | .uint w v => s!"uint{widthName w} {v}"
  | .negint w v => s!"negint{widthName w} {v}"
  | .bytes o l => s!"byte_string {o} {l}"
  | .bytesStart => "byte_string_start"
  | .text o l => s!"string {o} {l}"
  | .textStart => "string_start"
  | .array n => s!"array_start {n}"
  | .arrayStart => "indef_array_start"
  | .map n => s!"map_start {n}"
  | .mapStart => "indef_map_start"
  | .tag n => s!"tag {n}"
  | .half b => s!"half {b}"
  | .single b => s!"float4 {b}"
  | .double b => s!"float8 {b}"
  | .bool b => s!"boolean {b}"
  | .null => "null"
  | .undefined => "undefined"
  | .brk => "indef_break"

def HeadRes.fmt : HeadRes → String
  | .ok t l => s!"ok {l} {Tok.fmt t}"
  | .nedata n => s!"nedata {n}"
  | .error => "error"

def incFromS (b : Array UInt8) (pl : Nat) : Option (Array UInt8) :=
  let rec go (i : Nat) (b : Array UInt8) : Option (Array UInt8) :=
    match i with
    | 0 => none
    | i+1 =>
      if i < pl then none
      else
        let v := b.getD i 0 + 1
        let b := b.setIfInBounds i v
        if v != 0 then some b else go i b
  go b.size b

def fnvS (h x : UInt64) : UInt64 := (h ^^^ x) * 1099511628211

partial def utf8AllLoopS (b : Array UInt8) (pl : Nat) (h n valid sum : UInt64) : UInt64 × UInt64 × UInt64 × UInt64 :=
  let c := Spec.Utf8.count (b.toList.map (·.toNat))
  let (cnt, st) : UInt64 × UInt64 := match c with | some k => (UInt64.ofNat k, 0) | none => (0, 1)
  let h := fnvS (fnvS h cnt) st
  let n := n + 1
  let (valid, sum) := if st == 0 then (valid + 1, sum + cnt) else (valid, sum)
  match incFromS b pl with
  | some b' => utf8AllLoopS b' pl h n valid sum
  | none => (h, n, valid, sum)

def specOp (ws : List String) : Option String :=
  match ws with
  | ["HEAD", h] => do
      let a ← parseHex h
      some (HeadRes.fmt (decodeHead (getA a 0) a.size))
  | ["DECODE", lz, l, h] => do
      let a ← parseHex h; let L ← l.toNat?
      let r := Spec.decode (lz == "1") L (fun _ => true) (fun i => a.getD i 0) a.size
      some (match r with
        | .ok x n => s!"OK {fmtItem x} {n}"
        | .nodata => "NODATA"
        | .fail e p => s!"ERR {match e with | .notEnough => "NOTENOUGHDATA" | .malformed => "MALFORMATED" | .syntax => "SYNTAXERROR" | .mem => "MEMERROR"} {p}")
  | ["LN", h, k] => do
      let pre ← (if h == "-" then some #[] else parseHex h); let k ← k.toNat?
      let total := if k == 0 then 1 else if k == 1 then 256 else 65536
      let step := fun (st : UInt64 × Nat × Nat) (v : Nat) =>
        let a := if k == 0 then pre else if k == 1 then pre.push (UInt8.ofNat v) else (pre.push (UInt8.ofNat (v / 256))).push (UInt8.ofNat (v % 256))
        let r := Spec.decode true 2048 (fun _ => true) (fun i => a.getD i 0) a.size
        let (txt, ok) := match r with
          | .ok x n => (s!"OK {fmtItem x} {n}", true)
          | .nodata => ("NODATA", false)
          | .fail e p => (s!"ERR {match e with | .notEnough => "NOTENOUGHDATA" | .malformed => "MALFORMATED" | .syntax => "SYNTAXERROR" | .mem => "MEMERROR"} {p}", false)
        let h := txt.toUTF8.foldl (fun (h : UInt64) b => (h ^^^ b.toUInt64) * 1099511628211) st.1
        let h := (h ^^^ 10) * 1099511628211
        (h, if ok then st.2.1 + 1 else st.2.1, if ok then st.2.2 else st.2.2 + 1)
      let (h, nok, nerr) := (List.range total).foldl step ((1469598103934665603 : UInt64), 0, 0)
      let hex := String.ofList (Nat.toDigits 16 h.toNat)
      some s!"{"".pushn '0' (16 - hex.length)}{hex} ok={nok} err={nerr}"
  | ["ENCODE", t] => do
      let x ← parseTree t
      some (listToHex (Spec.encode x) ++ s!" depth={Spec.openDepth x}")
  | ["UTF8", h] => do
      let a ← parseHex h
      match Spec.Utf8.count (a.toList.map (·.toNat)) with
      | some k => some s!"{k} 0"
      | none => some "0 1"
  | ["UTF8ALL", l, h] => do
      let len ← l.toNat?; let pre ← parseHex h
      let b0 : Array UInt8 := (Array.replicate len 0)
      let b0 := (List.range pre.size).foldl (fun a i => a.setIfInBounds i (pre.getD i 0)) b0
      let r := utf8AllLoopS b0 pre.size 1469598103934665603 0 0 0
      some s!"{r.1} {r.2.1} {r.2.2.1} {r.2.2.2}"
  | _ => none

end Drv

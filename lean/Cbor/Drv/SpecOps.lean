import Cbor.Drv.Util
import Cbor.Spec.Head
/-! Executable Spec operations (the property oracle); no dependency on `Cbor.Gen` / `Cbor.Model`. -/
namespace Drv
open Spec

def widthName : Width → String
  | .w8 => "8" | .w16 => "16" | .w32 => "32" | .w64 => "64"

/-- same vocabulary as the recording callbacks of the C harness -/
def Tok.fmt : Tok → String
  | .uint w v => s!"uint{widthName w} {v}"
  | .negint w v => s!"negint{widthName w} {v}"
  | .bytes o l => s!"byte_string {o} {l}"
  | .bytesStart => "byte_string_start"
  | .text o l => s!"string {o} {l}"
  | .textStart => "string_start"
  | .array n => s!"array_start {n}"
  | .arrayStart => "indef_array_start"
  | .map n => s!"map_start {n}"
  | .mapStart => "indef_map_start"
  | .tag n => s!"tag {n}"
  | .half b => s!"half {b}"
  | .single b => s!"float4 {b}"
  | .double b => s!"float8 {b}"
  | .bool b => s!"boolean {b}"
  | .null => "null"
  | .undefined => "undefined"
  | .brk => "indef_break"

def HeadRes.fmt : HeadRes → String
  | .ok t l => s!"ok {l} {Tok.fmt t}"
  | .nedata n => s!"nedata {n}"
  | .error => "error"

def specOp (ws : List String) : Option String :=
  match ws with
  | ["HEAD", h] => do
      let a ← parseHex h
      some (HeadRes.fmt (decodeHead (getA a 0) a.size))
  | _ => none

end Drv

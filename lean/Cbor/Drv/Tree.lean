import Cbor.Drv.Util
import Cbor.Spec.Item
/-! Canonical tree text (same grammar as harness/tree_ops.c): printer and parser for `Spec.Item`. -/
namespace Drv
open Spec

def wname : Width → String
  | .w8 => "8" | .w16 => "16" | .w32 => "32" | .w64 => "64"

mutual
partial def fmtItem : Item → String
  | .uint w v => s!"u{wname w}({v})"
  | .negint w v => s!"n{wname w}({v})"
  | .bytes b => s!"b({listToHex b})"
  | .bytesI cs => "B[" ++ ",".intercalate (cs.map fun c => s!"b({listToHex c})") ++ "]"
  | .text b => s!"t({listToHex b})"
  | .textI cs => "T[" ++ ",".intercalate (cs.map fun c => s!"t({listToHex c})") ++ "]"
  | .array xs => "A[" ++ ",".intercalate (xs.map fmtItem) ++ "]"
  | .arrayI xs => "a[" ++ ",".intercalate (xs.map fmtItem) ++ "]"
  | .map kvs => "M[" ++ ",".intercalate (kvs.map fun (k, v) => fmtItem k ++ ":" ++ fmtItem v) ++ "]"
  | .mapI kvs => "m[" ++ ",".intercalate (kvs.map fun (k, v) => fmtItem k ++ ":" ++ fmtItem v) ++ "]"
  | .tag n x => s!"G({n},{fmtItem x})"
  | .simple v => s!"c({v})"
  | .half f => s!"h({f})"
  | .single b => s!"s({b})"
  | .double b => s!"d({b})"
end

/-- recursive-descent parser over a char list -/
abbrev P (α : Type) := List Char → Option (α × List Char)

def pNum : P Nat := fun cs =>
  let ds := cs.takeWhile Char.isDigit
  if ds.isEmpty then none else some (ds.foldl (fun n c => n * 10 + (c.toNat - 48)) 0, cs.drop ds.length)

def pChar (c : Char) : P Unit := fun cs => match cs with
  | d :: r => if d = c then some ((), r) else none
  | [] => none

def pHexBytes : P (List UInt8) := fun cs =>
  match cs with
  | '-' :: r => some ([], r)
  | _ =>
    let hs := cs.takeWhile fun c => hexDigit c |>.isSome
    match parseHex (String.ofList hs) with
    | some a => some (a.toList, cs.drop hs.length)
    | none => none

def pWidth : P Width := fun cs => do
  let (n, r) ← pNum cs
  match n with
  | 8 => some (.w8, r) | 16 => some (.w16, r) | 32 => some (.w32, r) | 64 => some (.w64, r)
  | _ => none

partial def pItem : P Item := fun cs =>
  match cs with
  | 'u' :: r => do let (w, r) ← pWidth r; let r := skipBang r; let (_, r) ← pChar '(' r; let (v, r) ← pNum r; let (_, r) ← pChar ')' r; some (.uint w v, r)
  | 'n' :: r => do let (w, r) ← pWidth r; let r := skipBang r; let (_, r) ← pChar '(' r; let (v, r) ← pNum r; let (_, r) ← pChar ')' r; some (.negint w v, r)
  | 'b' :: r => do let (_, r) ← pChar '(' r; let (b, r) ← pStr r; let (_, r) ← pChar ')' r; some (.bytes b, r)
  | 't' :: r => do let (_, r) ← pChar '(' r; let (b, r) ← pStr r; let (_, r) ← pChar ')' r; some (.text b, r)
  | 'R' :: '(' :: r => do   -- a tag re-pointed from its first item to its second: denotes the tag around the second
      let (n, r) ← pNum r; let (_, r) ← pChar ',' r; let (_, r) ← pItem r; let (_, r) ← pChar ',' r; let (y, r) ← pItem r; let (_, r) ← pChar ')' r
      some (.tag n y, r)
  | 'B' :: '[' :: r => do let (cs, r) ← pChunks r []; some (.bytesI cs, r)
  | 'T' :: '[' :: r => do let (cs, r) ← pChunks r []; some (.textI cs, r)
  | 'A' :: '+' :: '[' :: r => do let (xs, r) ← pList r []; some (.array xs, r)   -- spare capacity: same value
  | 'M' :: '+' :: '[' :: r => do let (xs, r) ← pPairs r []; some (.map xs, r)
  | 'A' :: '[' :: r => do let (xs, r) ← pList r []; some (.array xs, r)
  | 'a' :: '[' :: r => do let (xs, r) ← pList r []; some (.arrayI xs, r)
  | 'M' :: '[' :: r => do let (xs, r) ← pPairs r []; some (.map xs, r)
  | 'm' :: '[' :: r => do let (xs, r) ← pPairs r []; some (.mapI xs, r)
  | 'G' :: '(' :: r => do let (n, r) ← pNum r; let (_, r) ← pChar ',' r; let (x, r) ← pItem r; let (_, r) ← pChar ')' r; some (.tag n x, r)
  | 'c' :: '!' :: '(' :: r => do let (v, r) ← pNum r; let (_, r) ← pChar ')' r; some (.simple v, r)
  | 'h' :: '!' :: '!' :: '(' :: r => do let (v, r) ← pNum r; let (_, r) ← pChar ')' r; some (.half v, r)
  | 's' :: '!' :: '!' :: '(' :: r => do let (v, r) ← pNum r; let (_, r) ← pChar ')' r; some (.single v, r)
  | 'd' :: '!' :: '!' :: '(' :: r => do let (v, r) ← pNum r; let (_, r) ← pChar ')' r; some (.double v, r)
  | 'h' :: '!' :: '(' :: r => do let (v, r) ← pNum r; let (_, r) ← pChar ')' r; some (.half v, r)
  | 's' :: '!' :: '(' :: r => do let (v, r) ← pNum r; let (_, r) ← pChar ')' r; some (.single v, r)
  | 'd' :: '!' :: '(' :: r => do let (v, r) ← pNum r; let (_, r) ← pChar ')' r; some (.double v, r)
  | 'c' :: '(' :: r => do let (v, r) ← pNum r; let (_, r) ← pChar ')' r; some (.simple v, r)
  | 'h' :: '(' :: r => do let (v, r) ← pNum r; let (_, r) ← pChar ')' r; some (.half v, r)
  | 's' :: '(' :: r => do let (v, r) ← pNum r; let (_, r) ← pChar ')' r; some (.single v, r)
  | 'd' :: '(' :: r => do let (v, r) ← pNum r; let (_, r) ← pChar ')' r; some (.double v, r)
  | _ => none
where
  /-- `!` after a leaf kind: built through `cbor_new_*` + `cbor_set_*` instead of `cbor_build_*` (same value) -/
  skipBang (cs : List Char) : List Char := match cs with | '!' :: r => r | _ => cs
  /-- `hex` or `hex1>hex2` (handle set twice in place: denotes the second content) -/
  pStr (cs : List Char) : Option (List UInt8 × List Char) := do
    let (b, r) ← pHexBytes cs
    match r with
    | '>' :: '>' :: r => pHexBytes r
    | '>' :: r => pHexBytes r
    | _ => some (b, r)
  pChunks (cs : List Char) (acc : List (List UInt8)) : Option (List (List UInt8) × List Char) :=
    match cs with
    | ']' :: r => some (acc.reverse, r)
    | ',' :: r => pChunks r acc
    | _ :: '(' :: r => do let (b, r) ← pHexBytes r; let (_, r) ← pChar ')' r; pChunks r (b :: acc)
    | _ => none
  pList (cs : List Char) (acc : List Item) : Option (List Item × List Char) :=
    match cs with
    | ']' :: r => some (acc.reverse, r)
    | ',' :: r => pList r acc
    | _ => do
      let (x, r) ← pItem cs
      match r with
      | '*' :: r => pList r (x :: x :: acc)     -- the same item pushed twice (shared in the C heap)
      | '>' :: r => do let (y, r) ← pItem r; pList r (y :: acc)     -- pushed, then replaced in place: denotes the replacement
      | _ => pList r (x :: acc)
  pPairs (cs : List Char) (acc : List (Item × Item)) : Option (List (Item × Item) × List Char) :=
    match cs with
    | ']' :: r => some (acc.reverse, r)
    | ',' :: r => pPairs r acc
    | _ => do
      let (k, r) ← pItem cs; let (_, r) ← pChar ':' r; let (v, r) ← pItem r
      match r with
      | '*' :: r => pPairs r ((k, v) :: (k, v) :: acc)
      | _ => pPairs r ((k, v) :: acc)

def parseTree (s : String) : Option Item :=
  match pItem s.toList with
  | some (x, []) => some x
  | _ => none

end Drv

import Cbor.Drv.ModelOps
import Cbor.Model.Client
/-! History operations over the heap-level model (same protocol as harness/hist_ops.c). -/
namespace Drv
open Heap

structure HState where
  st : St := {}
  mode : Nat := 0
  k : Nat := 0
  base : Nat := 0      -- allocator requests made before the current fault schedule was installed
deriving Inhabited

def HState.oracle (s : HState) : Oracle := fun i =>
  !(s.mode == 1 && i == s.base + s.k) && !(s.mode == 2 && i ≥ s.base + s.k)

def fmtSlot (h : H) (i : Nat) (r : Ref) : String :=
  match h.get r with
  | none => s!"s{i}=DEAD"
  | some c =>
    let extra := match c.node with
      | .arr _ xs a => s!":{xs.length}/{a}"
      | .map _ ps a => s!":{ps.length}/{a}"
      | .strI _ cs cap => s!":{cs.length}/{cap}"
      | _ => ""
    s!"s{i}={c.rc}{extra}"

def summary (st : St) : String :=
  let parts := (List.range st.slots.length).filterMap fun i =>
    match st.slot i with
    | some r => some (fmtSlot st.h i r)
    | none => none
  let flt := if st.h.fault then " MODEL-FAULT" else ""
  " |" ++ String.join (parts.map (" " ++ ·)) ++ s!" | live={st.h.liveBlocks} reqs={st.h.reqs}{flt}"

def fmtRes : Res → String
  | .unit => "done"
  | .ok => "true"
  | .refused => "false"
  | .null => "NULL"
  | .item _ => "item"
  | .loaded r res =>
    match r with
    | some _ => s!"item code={codeName res.code} read={res.read}"
    | none => s!"NULL code={codeName res.code} pos={res.position}"

def parseWidth (s : String) : Option Spec.Width :=
  match s with | "8" => some .w8 | "16" => some .w16 | "32" => some .w32 | "64" => some .w64 | _ => none

def parseOp (ws : List String) : Option Op :=
  match ws with
  | ["int", s, neg, w, v] => do some (.newInt (← s.toNat?) (neg == "1") (← parseWidth w) (← v.toNat?))
  | ["str", s, t, hex] => do some (.newStr (← s.toNat?) (t == "1") (← parseHex hex).toList)
  | ["stri", s, t] => do some (.newStrI (← s.toNat?) (t == "1"))
  | ["arr", s, d, cap] => do some (.newArr (← s.toNat?) (d == "1") (← cap.toNat?))
  | ["map", s, d, cap] => do some (.newMap (← s.toNat?) (d == "1") (← cap.toNat?))
  | ["tag", s, n] => do some (.newTag (← s.toNat?) (← n.toNat?))
  | ["btag", s, n, x] => do some (.buildTag (← s.toNat?) (← n.toNat?) (← x.toNat?))
  | ["ctrl", s, v] => do some (.newCtrl (← s.toNat?) (← v.toNat?))
  | ["f2", s, v] => do some (.newHalf (← s.toNat?) (← v.toNat?))
  | ["f4", s, v] => do some (.newSingle (← s.toNat?) (← v.toNat?))
  | ["f8", s, v] => do some (.newDouble (← s.toNat?) (← v.toNat?))
  | ["push", a, x] => do some (.push (← a.toNat?) (← x.toNat?))
  | ["pushm", a, x] => do some (.pushMove (← a.toNat?) (← x.toNat?))
  | ["set", a, i, x] => do some (.set (← a.toNat?) (← i.toNat?) (← x.toNat?))
  | ["replace", a, i, x] => do some (.replace (← a.toNat?) (← i.toNat?) (← x.toNat?))
  | ["get", s, a, i] => do some (.get (← s.toNat?) (← a.toNat?) (← i.toNat?))
  | ["madd", m, k, v] => do some (.mapAdd (← m.toNat?) (← k.toNat?) (← v.toNat?))
  | ["chunk", s, c] => do some (.chunk (← s.toNat?) (← c.toNat?))
  | ["tagset", t, x, s] => do some (.tagSet (← t.toNat?) (← x.toNat?) (← s.toNat?))
  | ["tagget", s, t] => do some (.tagGet (← s.toNat?) (← t.toNat?))
  | ["copy", s, x] => do some (.copy (← s.toNat?) (← x.toNat?))
  | ["incref", s, x] => do some (.incref (← s.toNat?) (← x.toNat?))
  | ["decref", s] => do some (.decref (← s.toNat?))
  | ["load", s, hex] => do some (.load (← s.toNat?) (← parseHex hex).toList)
  | _ => none

/-- are the cells reachable from `r` all at index ≥ `old`, each with reference count 1 (a fresh, unshared tree)? -/
partial def freshTree (h : H) (old : Nat) (r : Ref) : Bool :=
  match h.get r with
  | some c => r ≥ old && c.rc == 1 && c.node.children.all (freshTree h old)
  | none => false

/-- the text `print_item` prints for the item at `r` (a tag without an item prints NULL) -/
partial def fmtRef (h : H) (r : Ref) : String :=
  match h.get r with
  | none => "DEAD"
  | some c =>
    match c.node with
    | .tag n none => s!"G({n},NULL)"
    | .tag n (some x) => s!"G({n},{fmtRef h x})"
    | .arr d xs _ => (if d then "A[" else "a[") ++ ",".intercalate (xs.map (fmtRef h)) ++ "]"
    | .map d ps _ => (if d then "M[" else "m[") ++ ",".intercalate (ps.map fun (k, v) => fmtRef h k ++ ":" ++ fmtRef h v) ++ "]"
    | .strI t cs _ => (if t then "T[" else "B[") ++ ",".intercalate (cs.map (fmtRef h)) ++ "]"
    | _ => match h.val r with
      | some v => fmtItem v
      | none => "NOVALUE"

def histOp (L : Nat) (s : HState) (ws : List String) : Option (HState × String) :=
  match ws with
  | ["HRESET"] => some ({}, "reset")
  | ["HFAULT", m, k] => do
      let m ← m.toNat?; let k ← k.toNat?
      some ({ s with mode := m, k := k, base := s.st.h.reqs }, "fault-schedule")
  | "H" :: "dump" :: [x] => do
      let x ← x.toNat?
      match s.st.slot x with
      | some r => some (s, fmtRef s.st.h r)
      | none => some (s, "EMPTY")
  | "H" :: "ser" :: [x] => do
      let x ← x.toNat?
      match (s.st.slot x).bind s.st.h.val with
      | some v =>
        let sz := (Model.size v).toNat
        let r := serInto v sz
        some (s, s!"{sz} {toHex (r.2.extract 0 r.1.toNat)}")
      | none => some (s, "EMPTY")
  | "H" :: "drop" :: [x] => do
      let x ← x.toNat?
      match s.st.slot x with
      | some _ =>
        let (st, _) := step s.oracle L s.st (.decref x)
        some ({ s with st := st }, "done" ++ summary st)
      | none => some (s, "empty" ++ summary s.st)
  | "H" :: rest => do
      let op ← parseOp rest
      let old := s.st.h.cells.length
      let (st, res) := step s.oracle L s.st op
      let extra := match op, res with
        | .copy _ _, .item r => s!" fresh={if freshTree st.h old r then 1 else 0}"
        | .load _ _, .loaded (some r) _ => s!" fresh={if freshTree st.h old r then 1 else 0}"
        | _, _ => ""
      some ({ s with st := st }, fmtRes res ++ extra ++ summary st)
  | _ => none

end Drv

/-!
C-semantics helper used by the generated leaf serializers (`Cbor.Gen.Serializers`): `memcpy`.
Hand-written, tiny, part of the trusted reading of Mini-C (kept apart from `Cbor.Prelude` so that nothing else is rebuilt).
-/
namespace C
/-- `memcpy(dst + doff, src + soff, n)` for two *different* objects: `dst` after the bytes `src[soff], …, src[soff+n-1]` were stored at
`dst[doff], …, dst[doff+n-1]` (the translator puts `doff + n ≤ dst.size` and `soff + n ≤ src.size` into `.ok`; absent source bytes read as 0
and stores outside `dst` are dropped, so the function is total). -/
def copyBytes (dst : Array UInt8) (doff : Nat) (src : Array UInt8) (soff : Nat) : Nat → Array UInt8
  | 0 => dst
  | n+1 => copyBytes (dst.setIfInBounds doff (src.getD soff 0)) (doff + 1) src (soff + 1) n
end C

import Cbor.Lemmas.SdSpec
import Cbor.Spec.HeadLemmas
/-!
# C08 — each streaming-decoder call obeys its status / read / required contract

Theorems over the **generated** `Gen.cbor_stream_decode` (regenerated from streaming.c / loaders.c on every
run), related to the RFC 8949 head reader `Spec.decodeHead`.  The generated function returns the result
struct *and* the list of callback invocations, so "exactly one callback" / "no callback" are statements
about that list.  Quantified over every buffer (every content, every length below SIZE_MAX).
-/
namespace Props.C08
open Gen Lemmas

/-- **The contract.**  One call does exactly one of three things, according to what RFC 8949 says about
the bytes at the start of the buffer:
* complete head (plus payload for a definite string): FINISHED, exactly one callback — the one denoting
  that head, with its decoded arguments — `read` = its encoded length, any payload inside the buffer;
* buffer ends inside the head or payload: NEDATA, no callback, `read = 0`, and
  `buffer length < required ≤ full length of the pending head and payload`;
* reserved / unsupported initial byte: ERROR, no callback, `read = 0`. -/
theorem C08_contract (src : Array UInt8) (hsz : src.size < 2 ^ 64 - 1) :
    let r := cbor_stream_decode src 0 (UInt64.ofNat src.size)
    match Spec.decodeHead (Spec.getA src 0) src.size with
    | .ok t l =>
        r.1.status = CBOR_DECODER_FINISHED ∧ (∃ e, r.2 = [e] ∧ tokMatch 0 e t = true) ∧
        r.1.read.toNat = l ∧ 1 ≤ l ∧ l ≤ src.size ∧
        (∀ o pl, t.payload = some (o, pl) → 1 ≤ o ∧ o + pl ≤ src.size)
    | .nedata need =>
        r.1.status = CBOR_DECODER_NEDATA ∧ r.2 = [] ∧ r.1.read = 0 ∧
        src.size < r.1.required.toNat ∧ r.1.required.toNat ≤ need
    | .error =>
        r.1.status = CBOR_DECODER_ERROR ∧ r.2 = [] ∧ r.1.read = 0 := by
  have hn : (UInt64.ofNat src.size).toNat = src.size := by
    simp [UInt64.toNat_ofNat']; omega
  have h := sd_spec src 0 (UInt64.ofNat src.size) (by omega)
  rw [hn] at h
  intro r
  cases hd : Spec.decodeHead (Spec.getA src 0) src.size with
  | ok t l =>
    rw [hd] at h
    obtain ⟨h1, h2, _, h4⟩ := h
    have hok := Spec.decodeHead_ok hd
    exact ⟨h1, h4, h2, hok.1, hok.2.1, fun o pl hp => by have := hok.2.2 o pl hp; omega⟩
  | nedata need =>
    rw [hd] at h
    obtain ⟨h1, h2, h3, h4⟩ := h
    have hlt := Spec.decodeHead_nedata hd
    refine ⟨h1, h3, h2, ?_, ?_⟩
    · show src.size < r.1.required.toNat
      rw [h4]; omega
    · show r.1.required.toNat ≤ need
      rw [h4]; omega
  | error =>
    rw [hd] at h
    exact ⟨h.1, h.2.2.2, h.2.1⟩

/-- **No undefined behaviour, no read outside the buffer** (C01's clause for the streaming decoder):
every translator-collected side condition holds when the size argument is honest. -/
theorem C08_safe (src : Array UInt8) (off : Nat) (n : UInt64) (h : off + n.toNat ≤ src.size) :
    cbor_stream_decode.ok src off n = true := sd_ok src off n h

/-- an event is determined by the token it denotes (payload offset ≥ 1, as for every decoded head) -/
theorem tokMatch_inj {off : Nat} {e e' : Event} {t : Spec.Tok}
    (h : tokMatch off e t = true) (h' : tokMatch off e' t = true)
    (hp : ∀ o pl, t.payload = some (o, pl) → 1 ≤ o) : e = e' := by
  cases e
  case float2 f =>
    cases t <;> simp [tokMatch] at h
    cases e' <;> simp [tokMatch, toTok] at h'
    simp_all
  all_goals (
    simp [tokMatch, toTok] at h
    subst h
    cases e' <;> simp [tokMatch, toTok, Spec.Tok.payload] at h' hp ⊢
    )
  all_goals first
    | (obtain ⟨a, b⟩ := h'; constructor
       · omega
       · exact UInt64.toNat_inj.mp (by omega))
    | (apply UInt8.toNat_inj.mp; omega)
    | (apply UInt16.toNat_inj.mp; omega)
    | (apply UInt32.toNat_inj.mp; omega)
    | (apply UInt64.toNat_inj.mp; omega)
    | (exact h'.symm)

/-- **A FINISHED result does not depend on any byte beyond those it reports as read**: any other buffer
that agrees on the first `read` bytes (and is at least that long) gives the identical result and the
identical callback. -/
theorem C08_prefix_indep (src src' : Array UInt8) (hsz : src.size < 2 ^ 64 - 1) (hsz' : src'.size < 2 ^ 64 - 1)
    (hfin : (cbor_stream_decode src 0 (UInt64.ofNat src.size)).1.status = CBOR_DECODER_FINISHED)
    (hlen : (cbor_stream_decode src 0 (UInt64.ofNat src.size)).1.read.toNat ≤ src'.size)
    (hpre : ∀ i, i < (cbor_stream_decode src 0 (UInt64.ofNat src.size)).1.read.toNat → src'.getD i 0 = src.getD i 0) :
    cbor_stream_decode src' 0 (UInt64.ofNat src'.size) = cbor_stream_decode src 0 (UInt64.ofNat src.size) := by
  have hn : (UInt64.ofNat src.size).toNat = src.size := by simp [UInt64.toNat_ofNat']; omega
  have hn' : (UInt64.ofNat src'.size).toNat = src'.size := by simp [UInt64.toNat_ofNat']; omega
  have h := sd_spec src 0 (UInt64.ofNat src.size) (by omega)
  have h' := sd_spec src' 0 (UInt64.ofNat src'.size) (by omega)
  rw [hn] at h; rw [hn'] at h'
  cases hd : Spec.decodeHead (Spec.getA src 0) src.size with
  | nedata need => rw [hd] at h; rw [h.1] at hfin; simp [CBOR_DECODER_FINISHED] at hfin
  | error => rw [hd] at h; rw [h.1] at hfin; simp [CBOR_DECODER_FINISHED] at hfin
  | ok t l =>
    rw [hd] at h
    obtain ⟨s1, s2, s3, e, s4, s5⟩ := h
    rw [s2] at hlen hpre
    have hd' : Spec.decodeHead (Spec.getA src' 0) src'.size = .ok t l :=
      Spec.decodeHead_prefix hd (fun i hi => by simpa [Spec.getA] using hpre i hi) hlen
    rw [hd'] at h'
    obtain ⟨p1, p2, p3, e', p4, p5⟩ := h'
    have hee : e' = e := tokMatch_inj p5 s5 (fun o pl hp => ((Spec.decodeHead_ok hd).2.2 o pl hp).1)
    apply Prod.ext
    · have hr : (cbor_stream_decode src' 0 (UInt64.ofNat src'.size)).1.read =
          (cbor_stream_decode src 0 (UInt64.ofNat src.size)).1.read := UInt64.toNat_inj.mp (by rw [p2, s2])
      cases hx : (cbor_stream_decode src' 0 (UInt64.ofNat src'.size)).1
      cases hy : (cbor_stream_decode src 0 (UInt64.ofNat src.size)).1
      simp_all
    · rw [p4, s4, hee]

-- non-vacuity: concrete buffers exercising all three outcomes (kernel-evaluated on the generated code)
example : (cbor_stream_decode #[0x19, 0x01, 0x02] 0 3) = ({ read := 3, status := 0, required := 0 }, [Event.uint16 258]) := by decide +kernel
example : (cbor_stream_decode #[0x5B, 0xFF, 0xFF, 0xFF, 0xFF, 0xFF, 0xFF, 0xFF, 0xFF] 0 9).1 =
    { read := 0, status := 1, required := 18446744073709551615 } := by decide +kernel
example : (cbor_stream_decode #[0x5B, 0xFF, 0xFF, 0xFF, 0xFF, 0xFF, 0xFF, 0xFF, 0xF7] 0 9).1 =
    { read := 0, status := 1, required := 18446744073709551615 } := by decide +kernel
example : (cbor_stream_decode #[0x1C] 0 1) = ({ read := 0, status := 2, required := 0 }, []) := by decide +kernel

end Props.C08

import Cbor.Lemmas.Size
/-!
# C07 — size, serialize and serialize_alloc agree; nothing is written beyond the buffer

Over the hand-written value-level model `Model.serialize` / `Model.size` / `Model.serializeAlloc` (whose
every head is written by the **generated** `Gen.cbor_encode_*` functions and whose sizes are accumulated with
the generated `Gen._cbor_safe_signaling_add` / `Gen._cbor_encoded_header_size`), against `Spec.encode`.
Quantified over every item tree, every buffer, every offset and every size `n`.
-/
namespace Props.C07
open Model Spec Lemmas Lemmas.Ser Gen

/-- what an `Item` must satisfy to be a libcbor tree at all: scalars within their stored width -/
abbrev Valid := Lemmas.Ser.Valid

theorem chunks_len (mt : Nat) : ∀ (cs : List (List UInt8)), (encodeChunks mt cs).length < 2 ^ 64 →
    ∀ c ∈ cs, c.length < 2 ^ 64
  | [], _, c, hc => by simp at hc
  | c0 :: cs, h, c, hc => by
    simp only [encodeChunks, List.length_append] at h
    rcases List.mem_cons.mp hc with e | e
    · subst e; omega
    · exact chunks_len mt cs (by omega) c e

mutual
theorem rep_of_len : ∀ (t : Item), (encode t).length < 2 ^ 64 → Rep t
  | .uint _ _, _ => by simp [Rep]
  | .negint _ _, _ => by simp [Rep]
  | .bytes b, h => by simp only [encode, List.length_append] at h; simp only [Rep]; omega
  | .text b, h => by simp only [encode, List.length_append] at h; simp only [Rep]; omega
  | .bytesI cs, h => by
    simp only [encode, List.length_append] at h
    simp only [Rep]
    exact chunks_len 2 cs (by omega)
  | .textI cs, h => by
    simp only [encode, List.length_append] at h
    simp only [Rep]
    exact chunks_len 3 cs (by omega)
  | .array xs, h => by
    simp only [encode, List.length_append] at h
    simp only [Rep]
    have := encodeList_len xs
    exact ⟨by omega, repL_of_len xs (by omega)⟩
  | .arrayI xs, h => by
    simp only [encode, List.length_append] at h
    simp only [Rep]
    exact repL_of_len xs (by omega)
  | .map kvs, h => by
    simp only [encode, List.length_append] at h
    simp only [Rep]
    have := encodePairs_len kvs
    exact ⟨by omega, repP_of_len kvs (by omega)⟩
  | .mapI kvs, h => by
    simp only [encode, List.length_append] at h
    simp only [Rep]
    exact repP_of_len kvs (by omega)
  | .tag _ x, h => by
    simp only [encode, List.length_append] at h
    simp only [Rep]
    exact rep_of_len x (by omega)
  | .simple _, _ => by simp [Rep]
  | .half _, _ => by simp [Rep]
  | .single _, _ => by simp [Rep]
  | .double _, _ => by simp [Rep]
theorem repL_of_len : ∀ (xs : List Item), (encodeList xs).length < 2 ^ 64 → RepL xs
  | [], _ => by simp [RepL]
  | x :: xs, h => by
    simp only [encodeList, List.length_append] at h
    simp only [RepL]
    exact ⟨rep_of_len x (by omega), repL_of_len xs (by omega)⟩
theorem repP_of_len : ∀ (kvs : List (Item × Item)), (encodePairs kvs).length < 2 ^ 64 → RepP kvs
  | [], _ => by simp [RepP]
  | (k, v) :: r, h => by
    simp only [encodePairs, List.length_append] at h
    simp only [RepP]
    exact ⟨rep_of_len k (by omega), rep_of_len v (by omega), repP_of_len r (by omega)⟩
end

/-- **Size.**  `cbor_serialized_size` is the length of the RFC 8949 encoding, and it is 0 exactly when
that length does not fit in `size_t`. -/
theorem C07_size (t : Item) (hv : Valid t) (hr : Rep t) :
    size t = if (encode t).length < 2 ^ 64 then UInt64.ofNat (encode t).length else 0 :=
  size_spec t hv hr

/-- **Serialize.**  For every item whose encoding fits in memory, every buffer, offset and size `n`:
`cbor_serialize` returns `cbor_serialized_size(item)` (non-zero) and has written exactly the encoding when
`n` is at least that size, returns 0 otherwise, and in both cases changes no byte outside `[off, off + n)`
and does not change the size of the buffer. -/
theorem C07_serialize (t : Item) (hv : Valid t) (hfit : (encode t).length < 2 ^ 64)
    (buf : Array UInt8) (off : Nat) (n : UInt64) :
    let r := serialize t buf off n
    size t ≠ 0 ∧ (size t).toNat = (encode t).length ∧
    (size t ≤ n → r.1 = size t ∧ r.2 = writeList buf off (encode t)) ∧
    (n < size t → r.1 = 0) ∧
    Within buf r.2 off n.toNat := by
  intro r
  have hs := size_spec t hv (rep_of_len t hfit)
  rw [sz_lt _ hfit] at hs
  have hn := u64_of _ hfit
  have hpos := encode_pos t
  have hspec := ser_item t hv hfit buf off n
  refine ⟨?_, ?_, ?_, ?_, ?_⟩
  · intro h0; rw [hs] at h0; rw [h0] at hn; simp at hn; omega
  · rw [hs, hn]
  · intro hle
    have : (encode t).length ≤ n.toNat := by
      rw [hs, UInt64.le_iff_toNat_le, hn] at hle; exact hle
    have e := hspec.1 this
    exact ⟨by rw [hs]; exact congrArg Prod.fst e, congrArg Prod.snd e⟩
  · intro hlt
    have : n.toNat < (encode t).length := by
      rw [hs, UInt64.lt_iff_toNat_lt, hn] at hlt; exact hlt
    exact (hspec.2 this).1
  · by_cases c : (encode t).length ≤ n.toNat
    · have e := hspec.1 c
      have : r.2 = writeList buf off (encode t) := congrArg Prod.snd e
      rw [this]; exact within_writeList _ _ _ _ c
    · exact (hspec.2 (by omega)).2

/-- `cbor_serialized_size` reports 0 for an item whose encoding does not fit in `size_t`. -/
theorem C07_size_overflow (t : Item) (hv : Valid t) (hr : Rep t) (h : 2 ^ 64 ≤ (encode t).length) : size t = 0 := by
  rw [size_spec t hv hr, sz_ge]; omega

theorem writeList_replicate (bs : List UInt8) :
    writeList (Array.replicate bs.length 0) 0 bs = bs.toArray := by
  apply Array.ext_getElem?
  intro i
  by_cases c : i < bs.length
  · have h := writeList_getElem? (Array.replicate bs.length 0) 0 bs i
    have h' := h c (by simp)
    rw [Nat.zero_add] at h'
    rw [h']; simp
  · rw [writeList_getElem?_of_ge _ _ _ _ (by omega)]
    have c' : bs.length ≤ i := Nat.le_of_not_lt c
    simp [c']

/-- **serialize_alloc.**  It requests exactly `cbor_serialized_size(item)` bytes and, when the allocator
grants them, returns that size with a block of exactly that size holding exactly the encoding; when the
allocator refuses, it returns 0 and no block. -/
theorem C07_alloc (okAlloc : Nat → Bool) (t : Item) (hv : Valid t) (hfit : (encode t).length < 2 ^ 64) :
    serializeAlloc okAlloc t =
      if okAlloc (encode t).length then some (UInt64.ofNat (encode t).length, (encode t).toArray) else none := by
  obtain ⟨h0, hlen, hok, _, _⟩ := C07_serialize t hv hfit (Array.replicate (size t).toNat 0) 0 (size t)
  unfold serializeAlloc
  simp only [h0, if_false]
  rw [hlen] at hok ⊢
  split
  · rename_i hh; simp at hh; simp [hh]
  · rename_i hh; simp at hh
    simp only [hh, if_true]
    have := hok (UInt64.le_refl _)
    have hs := size_spec t hv (rep_of_len t hfit)
    rw [sz_lt _ hfit] at hs
    congr 1
    apply Prod.ext
    · rw [this.1, hs]
    · rw [this.2, writeList_replicate]

/-- an item too large for `size_t` yields no buffer -/
theorem C07_alloc_overflow (okAlloc : Nat → Bool) (t : Item) (hv : Valid t) (hr : Rep t) (h : 2 ^ 64 ≤ (encode t).length) :
    serializeAlloc okAlloc t = none := by
  unfold serializeAlloc; simp [C07_size_overflow t hv hr h]

/-- the contract of a low-level encoder -/
def Encoder (f : Array UInt8 → Nat → UInt64 → UInt64 × Array UInt8) : Prop :=
  ∃ bs : List UInt8, bs ≠ [] ∧ bs.length ≤ 9 ∧ ∀ buf off n, f buf off n = encRes buf off n bs

/-- **Low-level encoders.**  A function with the encoder contract either returns 0 having left the buffer
untouched, or returns the number of bytes it wrote (at most 9, at most `n`), all inside `[off, off + n)`. -/
theorem encoder_frame {f} (h : Encoder f) (buf : Array UInt8) (off : Nat) (n : UInt64) :
    let r := f buf off n
    (r.1 = 0 → r.2 = buf) ∧
    (r.1 ≠ 0 → r.1.toNat ≤ 9 ∧ r.1.toNat ≤ n.toNat ∧ r.2.size = buf.size ∧
      ∀ i, (i < off ∨ off + r.1.toNat ≤ i) → r.2[i]? = buf[i]?) := by
  obtain ⟨bs, hne, hl, hf⟩ := h
  intro r
  have := encRes_frame buf off n bs hne (by omega)
  simp only at this
  have hr : r = encRes buf off n bs := hf buf off n
  rw [hr]
  refine ⟨this.1, fun h0 => ?_⟩
  obtain ⟨a, b, c, d⟩ := this.2 h0
  exact ⟨by omega, by omega, c, d⟩

theorem headBytes_len9 (mt ai v : Nat) (h : ai ≤ 27) : (Spec.headBytes mt ai v).length ≤ 9 := by
  rw [Spec.headBytes_length]; unfold Spec.argBytes; repeat' split
  all_goals omega

theorem ai8_le (v : Nat) : ai8 v ≤ 27 := by unfold ai8; split <;> omega

/-- every public `cbor_encode_*` function (generated from `encoding.c` on this run) has the encoder contract -/
theorem C07_encoders :
    (∀ v, Encoder (cbor_encode_uint8 v)) ∧ (∀ v, Encoder (cbor_encode_uint16 v)) ∧
    (∀ v, Encoder (cbor_encode_uint32 v)) ∧ (∀ v, Encoder (cbor_encode_uint64 v)) ∧ (∀ v, Encoder (cbor_encode_uint v)) ∧
    (∀ v, Encoder (cbor_encode_negint8 v)) ∧ (∀ v, Encoder (cbor_encode_negint16 v)) ∧
    (∀ v, Encoder (cbor_encode_negint32 v)) ∧ (∀ v, Encoder (cbor_encode_negint64 v)) ∧ (∀ v, Encoder (cbor_encode_negint v)) ∧
    (∀ v, Encoder (cbor_encode_bytestring_start v)) ∧ (∀ v, Encoder (cbor_encode_string_start v)) ∧
    (∀ v, Encoder (cbor_encode_array_start v)) ∧ (∀ v, Encoder (cbor_encode_map_start v)) ∧
    (∀ v, Encoder (cbor_encode_tag v)) ∧ (∀ v, Encoder (cbor_encode_ctrl v)) ∧
    Encoder cbor_encode_indef_bytestring_start ∧ Encoder cbor_encode_indef_string_start ∧
    Encoder cbor_encode_indef_array_start ∧ Encoder cbor_encode_indef_map_start ∧
    Encoder cbor_encode_break ∧ Encoder cbor_encode_null ∧ Encoder cbor_encode_undef ∧
    (∀ b, Encoder (cbor_encode_bool b)) ∧
    (∀ v, Encoder (cbor_encode_half v)) ∧ (∀ v, Encoder (cbor_encode_single v)) ∧ (∀ v, Encoder (cbor_encode_double v)) := by
  refine ⟨?_, ?_, ?_, ?_, ?_, ?_, ?_, ?_, ?_, ?_, ?_, ?_, ?_, ?_, ?_, ?_, ?_, ?_, ?_, ?_, ?_, ?_, ?_, ?_, ?_, ?_, ?_⟩
  · exact fun v => ⟨_, headBytes_ne_nil _ _ _, headBytes_len9 _ _ _ (ai8_le _), fun b o n => pub_uint8 b o n v⟩
  · exact fun v => ⟨_, headBytes_ne_nil _ _ _, headBytes_len9 _ _ _ (by omega), fun b o n => pub_uint16 b o n v⟩
  · exact fun v => ⟨_, headBytes_ne_nil _ _ _, headBytes_len9 _ _ _ (by omega), fun b o n => pub_uint32 b o n v⟩
  · exact fun v => ⟨_, headBytes_ne_nil _ _ _, headBytes_len9 _ _ _ (by omega), fun b o n => pub_uint64 b o n v⟩
  · exact fun v => ⟨_, head_ne_nil _ _, head_len_le _ _, fun b o n => pub_uint b o n v⟩
  · exact fun v => ⟨_, headBytes_ne_nil _ _ _, headBytes_len9 _ _ _ (ai8_le _), fun b o n => pub_negint8 b o n v⟩
  · exact fun v => ⟨_, headBytes_ne_nil _ _ _, headBytes_len9 _ _ _ (by omega), fun b o n => pub_negint16 b o n v⟩
  · exact fun v => ⟨_, headBytes_ne_nil _ _ _, headBytes_len9 _ _ _ (by omega), fun b o n => pub_negint32 b o n v⟩
  · exact fun v => ⟨_, headBytes_ne_nil _ _ _, headBytes_len9 _ _ _ (by omega), fun b o n => pub_negint64 b o n v⟩
  · exact fun v => ⟨_, head_ne_nil _ _, head_len_le _ _, fun b o n => pub_negint b o n v⟩
  · exact fun v => ⟨_, head_ne_nil _ _, head_len_le _ _, fun b o n => pub_bytestring_start b o n v⟩
  · exact fun v => ⟨_, head_ne_nil _ _, head_len_le _ _, fun b o n => pub_string_start b o n v⟩
  · exact fun v => ⟨_, head_ne_nil _ _, head_len_le _ _, fun b o n => pub_array_start b o n v⟩
  · exact fun v => ⟨_, head_ne_nil _ _, head_len_le _ _, fun b o n => pub_map_start b o n v⟩
  · exact fun v => ⟨_, head_ne_nil _ _, head_len_le _ _, fun b o n => pub_tag b o n v⟩
  · exact fun v => ⟨_, headBytes_ne_nil _ _ _, headBytes_len9 _ _ _ (ai8_le _), fun b o n => pub_ctrl b o n v⟩
  · exact ⟨_, by simp, by simp, fun b o n => pub_indef_bytestring_start b o n⟩
  · exact ⟨_, by simp, by simp, fun b o n => pub_indef_string_start b o n⟩
  · exact ⟨_, by simp, by simp, fun b o n => pub_indef_array_start b o n⟩
  · exact ⟨_, by simp, by simp, fun b o n => pub_indef_map_start b o n⟩
  · exact ⟨_, by simp, by simp, fun b o n => pub_break b o n⟩
  · exact ⟨_, by simp, by simp, fun b o n => pub_null b o n⟩
  · exact ⟨_, by simp, by simp, fun b o n => pub_undef b o n⟩
  · exact fun v => ⟨_, by simp, by simp, fun b o n => pub_bool b o n v⟩
  · exact fun v => ⟨_, headBytes_ne_nil _ _ _, headBytes_len9 _ _ _ (by omega), fun b o n => pub_half v b o n⟩
  · exact fun v => ⟨_, headBytes_ne_nil _ _ _, headBytes_len9 _ _ _ (by omega), fun b o n => pub_single b o n v⟩
  · exact fun v => ⟨_, headBytes_ne_nil _ _ _, headBytes_len9 _ _ _ (by omega), fun b o n => pub_double b o n v⟩

/-- no undefined behaviour in any encoder when the size argument is honest (`off + n ≤` buffer size):
the translator-collected side conditions of three representative shapes; the full list is `Lemmas.pub_*_ok`. -/
theorem C07_encoders_safe (buf : Array UInt8) (off : Nat) (n : UInt64) (h : off + n.toNat ≤ buf.size) :
    (∀ v, cbor_encode_uint.ok v buf off n = true) ∧ (∀ v, cbor_encode_double.ok v buf off n = true) ∧
    cbor_encode_break.ok buf off n = true :=
  ⟨fun v => pub_uint_ok buf off n h v, fun v => pub_double_ok buf off n h v, pub_break_ok buf off n h⟩

/-! non-vacuity: a nested tree meets the hypotheses -/
example : Valid (.array [.uint .w8 7, .tag 2 (.bytesI [[1, 2], []]), .map [(.text [0x61], .simple 21)]]) := by
  simp [Valid, Lemmas.Ser.Valid, ValidL, ValidP, Width.bytes]

end Props.C07

import Cbor.Gen.Accessors
import Cbor.Lemmas.Tactics
/-!
# Item accessors (getters, setters, predicates over `cbor_item_t`) — theorems over the **generated** definitions

`Gen.ItemRec` and every `Gen.cbor_*` below are regenerated from src/cbor/{common,ints,floats_ctrls,arrays,maps,strings,bytestrings,tags}.c
on every run (extract/c2lean.py).  Sections:

1. read-only (C18): every accessor whose parameter is `const cbor_item_t*` has a generated type `ItemRec → value` — the translator returns
   the updated record as a second component as soon as a store into the item is executed on some path, so these typing checks fail to
   elaborate then; frame theorems for the setters;
2. integers (C03, C10): set/get round trips, `cbor_get_int` = little-endian value of `data` selected by the width tag, the side conditions
   (`.ok`, i.e. the `CBOR_ASSERT`s and the in-bounds conditions) characterised exactly;
3. predicates (C18, C02);
4. container metadata (C12).
-/
set_option linter.unusedSimpArgs false
set_option linter.unusedVariables false
namespace Props.Accessors
open Gen Lemmas

/-! ## 0. host-order fixed-width access -/

theorem leStore_size (a : Array UInt8) (o n v : Nat) : (C.leStore a o n v).size = a.size := by
  induction n generalizing a o v with
  | zero => rfl
  | succ n ih => simp [C.leStore, ih]

/-- a fixed-width store changes nothing outside `[o, o+n)` -/
theorem leStore_getD_out (a : Array UInt8) (o n v i : Nat) (h : i < o ∨ o + n ≤ i) :
    (C.leStore a o n v).getD i 0 = a.getD i 0 := by
  induction n generalizing a o v with
  | zero => rfl
  | succ n ih =>
    simp only [C.leStore]
    rw [ih _ _ _ (by omega)]
    simp only [Array.getD_eq_getD_getElem?, Array.getElem?_setIfInBounds]
    have : o ≠ i := by omega
    simp [this]

theorem leNat_lt (a : Array UInt8) (o n : Nat) : C.leNat a o n < 256 ^ n := by
  induction n generalizing o with
  | zero => simp [C.leNat]
  | succ n ih =>
    have := ih (o + 1)
    have h0 := (a.getD o 0).toNat_lt
    simp only [C.leNat, Nat.pow_succ]
    omega

/-- reading back the bytes of a fixed-width store gives the stored value (its `n` low-order bytes) -/
theorem leNat_leStore (a : Array UInt8) (o n v : Nat) (h : o + n ≤ a.size) :
    C.leNat (C.leStore a o n v) o n = v % 256 ^ n := by
  induction n generalizing a o v with
  | zero => simp [C.leNat, Nat.mod_one]
  | succ n ih =>
    simp only [C.leNat, C.leStore]
    rw [leStore_getD_out _ _ _ _ _ (Or.inl (Nat.lt_succ_self o))]
    rw [ih _ _ _ (by simp; omega)]
    have ho : o < a.size := by omega
    simp only [Array.getD_eq_getD_getElem?, Array.getElem?_setIfInBounds, ho, if_true, Option.getD_some,
      UInt8.toNat_ofNat']
    have hp : 0 < 256 ^ n := Nat.pow_pos (by decide)
    have h1 := Nat.mod_lt (v / 256) hp
    have h2 : v % 256 ^ (n + 1) = v % 256 + 256 * ((v / 256) % 256 ^ n) := by
      rw [Nat.pow_succ, Nat.mul_comm, Nat.mod_mul]
    simp at *
    omega

/-- the little-endian value of the first `n` bytes of `data` (absent bytes read as 0), written out as a sum: the specification-side
reading of "the `8n`-bit little-endian value of `data`", independent of the recursion `C.leNat` used by the generated code -/
def leVal (r : ItemRec) (n : Nat) : Nat := ((List.range n).map fun i => (r.data.getD i 0).toNat * 256 ^ i).sum

macro "le_sum" : tactic => `(tactic| (
  simp only [C.leNat, leVal, List.range_succ, List.range_zero, List.map_append, List.map_cons, List.map_nil, List.sum_append, List.sum_cons,
    List.sum_nil, List.nil_append, Nat.zero_add, Nat.reducePow, Nat.reduceAdd]
  try omega))
theorem leNat_eq_leVal1 (r : ItemRec) : C.leNat r.data 0 1 = leVal r 1 := by le_sum
theorem leNat_eq_leVal2 (r : ItemRec) : C.leNat r.data 0 2 = leVal r 2 := by le_sum
theorem leNat_eq_leVal4 (r : ItemRec) : C.leNat r.data 0 4 = leVal r 4 := by le_sum
theorem leNat_eq_leVal8 (r : ItemRec) : C.leNat r.data 0 8 = leVal r 8 := by le_sum

/-! ### proof kit: unfold every accessor down to the fields of the record, split, normalise, decide -/

/-- definitional unfolding (`dsimp`: keeps the `if`s splittable) of every translated accessor and side condition -/
macro "acc_unfold" : tactic => `(tactic| dsimp only [
  cbor_typeof, cbor_typeof.ok, cbor_isa_uint, cbor_isa_uint.ok, cbor_isa_negint, cbor_isa_negint.ok, cbor_isa_bytestring, cbor_isa_bytestring.ok,
  cbor_isa_string, cbor_isa_string.ok, cbor_isa_array, cbor_isa_array.ok, cbor_isa_map, cbor_isa_map.ok, cbor_isa_tag, cbor_isa_tag.ok,
  cbor_isa_float_ctrl, cbor_isa_float_ctrl.ok, cbor_is_int, cbor_is_int.ok, cbor_refcount, cbor_refcount.ok,
  cbor_float_get_width, cbor_float_get_width.ok, cbor_ctrl_value, cbor_ctrl_value.ok, cbor_float_ctrl_is_ctrl, cbor_float_ctrl_is_ctrl.ok,
  cbor_is_bool, cbor_is_bool.ok, cbor_is_null, cbor_is_null.ok, cbor_is_undef, cbor_is_undef.ok, cbor_is_float, cbor_is_float.ok,
  cbor_get_bool, cbor_get_bool.ok, cbor_set_ctrl, cbor_set_ctrl.ok, cbor_set_bool, cbor_set_bool.ok,
  cbor_int_get_width, cbor_int_get_width.ok, cbor_get_uint8.ok, cbor_get_uint16.ok, cbor_get_uint32.ok, cbor_get_uint64.ok,
  cbor_get_int.ok, cbor_set_uint8.ok, cbor_set_uint16.ok, cbor_set_uint32.ok, cbor_set_uint64.ok,
  cbor_mark_uint, cbor_mark_uint.ok, cbor_mark_negint, cbor_mark_negint.ok, ItemRec.memberOf,
  cbor_array_size, cbor_array_size.ok, cbor_array_allocated, cbor_array_allocated.ok, cbor_array_is_definite, cbor_array_is_definite.ok,
  cbor_array_is_indefinite, cbor_array_is_indefinite.ok, cbor_map_size, cbor_map_size.ok, cbor_map_allocated, cbor_map_allocated.ok,
  cbor_map_is_definite, cbor_map_is_definite.ok, cbor_map_is_indefinite, cbor_map_is_indefinite.ok,
  cbor_string_length, cbor_string_length.ok, cbor_string_codepoint_count, cbor_string_codepoint_count.ok,
  cbor_string_is_definite, cbor_string_is_definite.ok, cbor_string_is_indefinite, cbor_string_is_indefinite.ok,
  cbor_bytestring_length, cbor_bytestring_length.ok, cbor_bytestring_is_definite, cbor_bytestring_is_definite.ok,
  cbor_bytestring_is_indefinite, cbor_bytestring_is_indefinite.ok, cbor_tag_value, cbor_tag_value.ok] at *)

/-- decide a statement built from comparisons of a few `UIntN` fields with literals and `Nat` bounds, whatever the shape of the generated
terms: unfold, split every `if`, turn every (Boolean) condition into (in)equalities of naturals (`cnorm`), finish with `omega` -/
theorem toU8_20 : C.toU8 20 = 20 := by decide
theorem toU8_21 : C.toU8 21 = 21 := by decide
macro "acc_decide" : tactic => `(tactic| (
  acc_unfold
  (try simp only [toU8_20, toU8_21] at *)
  (try simp only [Bool.and_eq_true, Bool.or_eq_true, Bool.not_eq_true', Bool.true_and, Bool.and_true, beq_iff_eq, bne_iff_ne, decide_eq_true_eq,
    Bool.not_eq_eq_eq_not, Bool.not_true, beq_eq_false_iff_ne, ne_eq, Bool.decide_eq_true])
  (repeat' split)
  all_goals (try simp only [toU8_20, toU8_21] at *)
  all_goals cnorm
  all_goals (try simp only [not_true_eq_false, not_false_eq_true] at *)
  all_goals (try simp only [*, or_true, true_or, and_true, true_and, and_self, or_self, or_false, false_or, and_false, false_and, not_true_eq_false,
    not_false_eq_true, iff_true, true_iff, implies_true, Nat.reducePow, Nat.reduceLeDiff, Nat.reduceEqDiff, Nat.lt_irrefl, Nat.le_refl,
    true_implies, false_implies, iff_self, iff_false, false_iff, Bool.false_eq_true, Bool.true_eq_false])
  all_goals (try omega)))

/-- an equation between two values: by unfolding alone when the generated term has the expected shape, otherwise as a decided statement -/
macro "acc_eq" : tactic => `(tactic| first | (acc_unfold; done) | ((try rw [Bool.eq_iff_iff]); acc_decide))

/-! ## 1. read-only accessors return no record; setters: frame -/

/-! One typing check per translated function with a `const cbor_item_t*` parameter.  Had the translator found a store into the item
(directly, through an alias, through a cast that drops `const`, or in a callee) the generated type would be `ItemRec → value × ItemRec`
and the line would not elaborate. -/
example : ItemRec → UInt32 := cbor_typeof
example : ItemRec → Bool := cbor_isa_uint
example : ItemRec → Bool := cbor_isa_negint
example : ItemRec → Bool := cbor_isa_bytestring
example : ItemRec → Bool := cbor_isa_string
example : ItemRec → Bool := cbor_isa_array
example : ItemRec → Bool := cbor_isa_map
example : ItemRec → Bool := cbor_isa_tag
example : ItemRec → Bool := cbor_isa_float_ctrl
example : ItemRec → Bool := cbor_is_int
example : ItemRec → Bool := cbor_is_float
example : ItemRec → Bool := cbor_is_bool
example : ItemRec → Bool := cbor_is_null
example : ItemRec → Bool := cbor_is_undef
example : ItemRec → UInt64 := cbor_refcount
example : ItemRec → UInt32 := cbor_int_get_width
example : ItemRec → UInt8 := cbor_get_uint8
example : ItemRec → UInt16 := cbor_get_uint16
example : ItemRec → UInt32 := cbor_get_uint32
example : ItemRec → UInt64 := cbor_get_uint64
example : ItemRec → UInt64 := cbor_get_int
example : ItemRec → UInt32 := cbor_float_get_width
example : ItemRec → Bool := cbor_float_ctrl_is_ctrl
example : ItemRec → UInt8 := cbor_ctrl_value
example : ItemRec → Bool := cbor_get_bool
example : ItemRec → UInt64 := cbor_array_size
example : ItemRec → UInt64 := cbor_array_allocated
example : ItemRec → Bool := cbor_array_is_definite
example : ItemRec → Bool := cbor_array_is_indefinite
example : ItemRec → UInt64 := cbor_map_size
example : ItemRec → UInt64 := cbor_map_allocated
example : ItemRec → Bool := cbor_map_is_definite
example : ItemRec → Bool := cbor_map_is_indefinite
example : ItemRec → UInt64 := cbor_string_length
example : ItemRec → UInt64 := cbor_string_codepoint_count
example : ItemRec → Bool := cbor_string_is_definite
example : ItemRec → Bool := cbor_string_is_indefinite
example : ItemRec → UInt64 := cbor_bytestring_length
example : ItemRec → Bool := cbor_bytestring_is_definite
example : ItemRec → Bool := cbor_bytestring_is_indefinite
example : ItemRec → UInt64 := cbor_tag_value

/-- a read-only accessor together with its value type -/
structure RO where
  name : String
  {α : Type}
  fn : ItemRec → α

/-- the same 41 functions as one (auditable) object: each entry only elaborates at the type `ItemRec → α` with `α` a plain scalar -/
def readonlyAccessors : List RO := [
  ⟨"cbor_typeof", (cbor_typeof : ItemRec → UInt32)⟩, ⟨"cbor_isa_uint", (cbor_isa_uint : ItemRec → Bool)⟩,
  ⟨"cbor_isa_negint", (cbor_isa_negint : ItemRec → Bool)⟩, ⟨"cbor_isa_bytestring", (cbor_isa_bytestring : ItemRec → Bool)⟩,
  ⟨"cbor_isa_string", (cbor_isa_string : ItemRec → Bool)⟩, ⟨"cbor_isa_array", (cbor_isa_array : ItemRec → Bool)⟩,
  ⟨"cbor_isa_map", (cbor_isa_map : ItemRec → Bool)⟩, ⟨"cbor_isa_tag", (cbor_isa_tag : ItemRec → Bool)⟩,
  ⟨"cbor_isa_float_ctrl", (cbor_isa_float_ctrl : ItemRec → Bool)⟩, ⟨"cbor_is_int", (cbor_is_int : ItemRec → Bool)⟩,
  ⟨"cbor_is_float", (cbor_is_float : ItemRec → Bool)⟩, ⟨"cbor_is_bool", (cbor_is_bool : ItemRec → Bool)⟩,
  ⟨"cbor_is_null", (cbor_is_null : ItemRec → Bool)⟩, ⟨"cbor_is_undef", (cbor_is_undef : ItemRec → Bool)⟩,
  ⟨"cbor_refcount", (cbor_refcount : ItemRec → UInt64)⟩, ⟨"cbor_int_get_width", (cbor_int_get_width : ItemRec → UInt32)⟩,
  ⟨"cbor_get_uint8", (cbor_get_uint8 : ItemRec → UInt8)⟩, ⟨"cbor_get_uint16", (cbor_get_uint16 : ItemRec → UInt16)⟩,
  ⟨"cbor_get_uint32", (cbor_get_uint32 : ItemRec → UInt32)⟩, ⟨"cbor_get_uint64", (cbor_get_uint64 : ItemRec → UInt64)⟩,
  ⟨"cbor_get_int", (cbor_get_int : ItemRec → UInt64)⟩, ⟨"cbor_float_get_width", (cbor_float_get_width : ItemRec → UInt32)⟩,
  ⟨"cbor_float_ctrl_is_ctrl", (cbor_float_ctrl_is_ctrl : ItemRec → Bool)⟩, ⟨"cbor_ctrl_value", (cbor_ctrl_value : ItemRec → UInt8)⟩,
  ⟨"cbor_get_bool", (cbor_get_bool : ItemRec → Bool)⟩, ⟨"cbor_array_size", (cbor_array_size : ItemRec → UInt64)⟩,
  ⟨"cbor_array_allocated", (cbor_array_allocated : ItemRec → UInt64)⟩, ⟨"cbor_array_is_definite", (cbor_array_is_definite : ItemRec → Bool)⟩,
  ⟨"cbor_array_is_indefinite", (cbor_array_is_indefinite : ItemRec → Bool)⟩, ⟨"cbor_map_size", (cbor_map_size : ItemRec → UInt64)⟩,
  ⟨"cbor_map_allocated", (cbor_map_allocated : ItemRec → UInt64)⟩, ⟨"cbor_map_is_definite", (cbor_map_is_definite : ItemRec → Bool)⟩,
  ⟨"cbor_map_is_indefinite", (cbor_map_is_indefinite : ItemRec → Bool)⟩, ⟨"cbor_string_length", (cbor_string_length : ItemRec → UInt64)⟩,
  ⟨"cbor_string_codepoint_count", (cbor_string_codepoint_count : ItemRec → UInt64)⟩,
  ⟨"cbor_string_is_definite", (cbor_string_is_definite : ItemRec → Bool)⟩, ⟨"cbor_string_is_indefinite", (cbor_string_is_indefinite : ItemRec → Bool)⟩,
  ⟨"cbor_bytestring_length", (cbor_bytestring_length : ItemRec → UInt64)⟩,
  ⟨"cbor_bytestring_is_definite", (cbor_bytestring_is_definite : ItemRec → Bool)⟩,
  ⟨"cbor_bytestring_is_indefinite", (cbor_bytestring_is_indefinite : ItemRec → Bool)⟩, ⟨"cbor_tag_value", (cbor_tag_value : ItemRec → UInt64)⟩]

/-- **Read-only (C18)**: 41 accessors, each a function of the record alone that returns no record -/
theorem readonly_accessors : readonlyAccessors.length = 41 := rfl

/-! ### setters: what changes, and nothing else -/

/-- `cbor_mark_uint` / `cbor_mark_negint` set the type tag and nothing else -/
theorem mark_uint_eq (r : ItemRec) : cbor_mark_uint r = { r with type := 0 } := by acc_unfold
theorem mark_negint_eq (r : ItemRec) : cbor_mark_negint r = { r with type := 1 } := by acc_unfold
/-- `cbor_set_ctrl` / `cbor_set_bool` change `ctrl` and nothing else -/
theorem set_ctrl_eq (r : ItemRec) (v : UInt8) : cbor_set_ctrl r v = { r with ctrl := v } := by acc_unfold
theorem set_bool_eq (r : ItemRec) (b : Bool) : cbor_set_bool r b = { r with ctrl := if b then 21 else 20 } := by
  cases b <;> acc_unfold <;> simp [C.toU8]

/-- the integer setters change `data` and nothing else … -/
theorem set_uint8_fields (r : ItemRec) (v : UInt8) : cbor_set_uint8 r v = { r with data := (cbor_set_uint8 r v).data } := by
  dsimp only [cbor_set_uint8]
theorem set_uint16_fields (r : ItemRec) (v : UInt16) : cbor_set_uint16 r v = { r with data := (cbor_set_uint16 r v).data } := by
  dsimp only [cbor_set_uint16]
theorem set_uint32_fields (r : ItemRec) (v : UInt32) : cbor_set_uint32 r v = { r with data := (cbor_set_uint32 r v).data } := by
  dsimp only [cbor_set_uint32]
theorem set_uint64_fields (r : ItemRec) (v : UInt64) : cbor_set_uint64 r v = { r with data := (cbor_set_uint64 r v).data } := by
  dsimp only [cbor_set_uint64]

/-- … and of `data` only the first 1 / 2 / 4 / 8 bytes (`data[0..N/8)`); its length is unchanged -/
theorem set_uint8_frame (r : ItemRec) (v : UInt8) :
    (cbor_set_uint8 r v).data.size = r.data.size ∧ ∀ i, 1 ≤ i → (cbor_set_uint8 r v).data.getD i 0 = r.data.getD i 0 := by
  dsimp only [cbor_set_uint8]
  refine ⟨by simp, fun i hi => ?_⟩
  have : 0 ≠ i := by omega
  simp [Array.getD_eq_getD_getElem?, Array.getElem?_setIfInBounds, this]
theorem set_uint16_frame (r : ItemRec) (v : UInt16) :
    (cbor_set_uint16 r v).data.size = r.data.size ∧ ∀ i, 2 ≤ i → (cbor_set_uint16 r v).data.getD i 0 = r.data.getD i 0 := by
  dsimp only [cbor_set_uint16, C.storeLE16]
  exact ⟨leStore_size _ _ _ _, fun i hi => leStore_getD_out _ _ _ _ _ (Or.inr (by omega))⟩
theorem set_uint32_frame (r : ItemRec) (v : UInt32) :
    (cbor_set_uint32 r v).data.size = r.data.size ∧ ∀ i, 4 ≤ i → (cbor_set_uint32 r v).data.getD i 0 = r.data.getD i 0 := by
  dsimp only [cbor_set_uint32, C.storeLE32]
  exact ⟨leStore_size _ _ _ _, fun i hi => leStore_getD_out _ _ _ _ _ (Or.inr (by omega))⟩
theorem set_uint64_frame (r : ItemRec) (v : UInt64) :
    (cbor_set_uint64 r v).data.size = r.data.size ∧ ∀ i, 8 ≤ i → (cbor_set_uint64 r v).data.getD i 0 = r.data.getD i 0 := by
  dsimp only [cbor_set_uint64, C.storeLE64]
  exact ⟨leStore_size _ _ _ _, fun i hi => leStore_getD_out _ _ _ _ _ (Or.inr (by omega))⟩

/-- no translated setter touches the reference count -/
theorem setters_keep_refcount (r : ItemRec) :
    (∀ v, (cbor_set_uint8 r v).refcount = r.refcount) ∧ (∀ v, (cbor_set_uint16 r v).refcount = r.refcount) ∧
    (∀ v, (cbor_set_uint32 r v).refcount = r.refcount) ∧ (∀ v, (cbor_set_uint64 r v).refcount = r.refcount) ∧
    (cbor_mark_uint r).refcount = r.refcount ∧ (cbor_mark_negint r).refcount = r.refcount ∧
    (∀ v, (cbor_set_ctrl r v).refcount = r.refcount) ∧ (∀ b, (cbor_set_bool r b).refcount = r.refcount) := by
  refine ⟨?_, ?_, ?_, ?_, ?_, ?_, ?_, ?_⟩ <;> intros <;>
    dsimp only [cbor_set_uint8, cbor_set_uint16, cbor_set_uint32, cbor_set_uint64, cbor_mark_uint, cbor_mark_negint, cbor_set_ctrl, cbor_set_bool] <;>
    (repeat' split) <;> (try rfl)

/-! ## 2. integers -/

/-- a value stored by `cbor_set_uintN` is the value read by `cbor_get_uintN` -/
theorem get_set_uint8 (r : ItemRec) (v : UInt8) (h : 1 ≤ r.data.size) : cbor_get_uint8 (cbor_set_uint8 r v) = v := by
  have : 0 < r.data.size := h
  dsimp only [cbor_get_uint8, cbor_set_uint8]
  simp [Array.getD_eq_getD_getElem?, Array.getElem?_setIfInBounds, this]
theorem get_set_uint16 (r : ItemRec) (v : UInt16) (h : 2 ≤ r.data.size) : cbor_get_uint16 (cbor_set_uint16 r v) = v := by
  have hv := v.toNat_lt
  dsimp only [cbor_get_uint16, cbor_set_uint16]
  rw [C.loadLE16, C.storeLE16, leNat_leStore _ _ _ _ (by omega), ← UInt16.toNat_inj]
  simp <;> omega
theorem get_set_uint32 (r : ItemRec) (v : UInt32) (h : 4 ≤ r.data.size) : cbor_get_uint32 (cbor_set_uint32 r v) = v := by
  have hv := v.toNat_lt
  dsimp only [cbor_get_uint32, cbor_set_uint32]
  rw [C.loadLE32, C.storeLE32, leNat_leStore _ _ _ _ (by omega), ← UInt32.toNat_inj]
  simp <;> omega
theorem get_set_uint64 (r : ItemRec) (v : UInt64) (h : 8 ≤ r.data.size) : cbor_get_uint64 (cbor_set_uint64 r v) = v := by
  have hv := v.toNat_lt
  dsimp only [cbor_get_uint64, cbor_set_uint64]
  rw [C.loadLE64, C.storeLE64, leNat_leStore _ _ _ _ (by omega), ← UInt64.toNat_inj]
  simp <;> omega

/-- the fixed-width getters read the little-endian value of the first 1 / 2 / 4 / 8 bytes of `data` -/
theorem get_uint8_val (r : ItemRec) : (cbor_get_uint8 r).toNat = leVal r 1 := by
  dsimp only [cbor_get_uint8]; simp [leVal, List.range_succ]
theorem get_uint16_val (r : ItemRec) : (cbor_get_uint16 r).toNat = leVal r 2 := by
  have := leNat_lt r.data 0 2
  dsimp only [cbor_get_uint16]
  rw [C.loadLE16, ← leNat_eq_leVal2]; simp <;> omega
theorem get_uint32_val (r : ItemRec) : (cbor_get_uint32 r).toNat = leVal r 4 := by
  have := leNat_lt r.data 0 4
  dsimp only [cbor_get_uint32]
  rw [C.loadLE32, ← leNat_eq_leVal4]; simp <;> omega
theorem get_uint64_val (r : ItemRec) : (cbor_get_uint64 r).toNat = leVal r 8 := by
  have := leNat_lt r.data 0 8
  dsimp only [cbor_get_uint64]
  rw [C.loadLE64, ← leNat_eq_leVal8]; simp <;> omega

/-- **`cbor_get_int`** = the little-endian value of the first `2^w` bytes of `data` (8, 16, 32, 64 bits), `w = int_width` ≤ 3 … -/
theorem get_int_val (r : ItemRec) (h : r.int_width.toNat ≤ 3) :
    (cbor_get_int r).toNat = leVal r (2 ^ r.int_width.toNat) := by
  have h8 := get_uint8_val r; have h16 := get_uint16_val r; have h32 := get_uint32_val r; have h64 := get_uint64_val r
  unfold cbor_get_int cbor_int_get_width
  dsimp only
  repeat' split
  all_goals cnorm
  all_goals first
    | omega
    | (simp only [*, UInt8.toNat_toUInt64, UInt16.toNat_toUInt64, UInt32.toNat_toUInt64, Nat.reducePow])
/-- … and 0 for any other width tag (the `default:` branch; `_CBOR_UNREACHABLE` expands to nothing in this configuration) -/
theorem get_int_default (r : ItemRec) (h : 3 < r.int_width.toNat) : cbor_get_int r = 0 := by
  unfold cbor_get_int cbor_int_get_width
  dsimp only
  repeat' split
  all_goals cnorm
  all_goals first | omega | (with_reducible rfl)
/-- `cbor_get_int` agrees with the fixed-width getter of the item's width -/
theorem get_int_eq (r : ItemRec) :
    (r.int_width = 0 → cbor_get_int r = (cbor_get_uint8 r).toUInt64) ∧ (r.int_width = 1 → cbor_get_int r = (cbor_get_uint16 r).toUInt64) ∧
    (r.int_width = 2 → cbor_get_int r = (cbor_get_uint32 r).toUInt64) ∧ (r.int_width = 3 → cbor_get_int r = cbor_get_uint64 r) := by
  unfold cbor_get_int cbor_int_get_width
  dsimp only
  refine ⟨fun h => ?_, fun h => ?_, fun h => ?_, fun h => ?_⟩ <;> rw [h] <;> simp

/-! ### side conditions, exactly (`.ok` = the `CBOR_ASSERT`s, the union-member condition and the in-bounds condition) -/

theorem int_get_width_eq (r : ItemRec) : cbor_int_get_width r = r.int_width := by acc_eq
theorem int_get_width_ok (r : ItemRec) : cbor_int_get_width.ok r = true ↔ (r.type = 0 ∨ r.type = 1) := by acc_decide

/-- the assertions of the fixed-width getters hold exactly when the item is an integer of that width (and the bytes are there) -/
theorem get_uint8_ok (r : ItemRec) : cbor_get_uint8.ok r = true ↔ (r.type = 0 ∨ r.type = 1) ∧ r.int_width = 0 ∧ 1 ≤ r.data.size := by acc_decide
theorem get_uint16_ok (r : ItemRec) : cbor_get_uint16.ok r = true ↔ (r.type = 0 ∨ r.type = 1) ∧ r.int_width = 1 ∧ 2 ≤ r.data.size := by acc_decide
theorem get_uint32_ok (r : ItemRec) : cbor_get_uint32.ok r = true ↔ (r.type = 0 ∨ r.type = 1) ∧ r.int_width = 2 ∧ 4 ≤ r.data.size := by acc_decide
theorem get_uint64_ok (r : ItemRec) : cbor_get_uint64.ok r = true ↔ (r.type = 0 ∨ r.type = 1) ∧ r.int_width = 3 ∧ 8 ≤ r.data.size := by acc_decide
/-- `cbor_get_int`: an integer item whose `data` holds the bytes its width tag promises (no requirement for a width tag > 3) -/
theorem get_int_ok (r : ItemRec) :
    cbor_get_int.ok r = true ↔ (r.type = 0 ∨ r.type = 1) ∧ (r.int_width.toNat ≤ 3 → 2 ^ r.int_width.toNat ≤ r.data.size) := by acc_decide
/-- the setters assert the same as the getters -/
theorem set_uint_ok (r : ItemRec) :
    (∀ v, cbor_set_uint8.ok r v = cbor_get_uint8.ok r) ∧ (∀ v, cbor_set_uint16.ok r v = cbor_get_uint16.ok r) ∧
    (∀ v, cbor_set_uint32.ok r v = cbor_get_uint32.ok r) ∧ (∀ v, cbor_set_uint64.ok r v = cbor_get_uint64.ok r) := by
  refine ⟨fun v => ?_, fun v => ?_, fun v => ?_, fun v => ?_⟩ <;> rw [Bool.eq_iff_iff] <;> acc_decide
theorem mark_ok (r : ItemRec) :
    (cbor_mark_uint.ok r = true ↔ (r.type = 0 ∨ r.type = 1)) ∧ (cbor_mark_negint.ok r = true ↔ (r.type = 0 ∨ r.type = 1)) := by
  constructor <;> acc_decide
/-- marking keeps an integer an integer of the same width and value -/
theorem mark_keeps_value (r : ItemRec) :
    cbor_get_int (cbor_mark_negint r) = cbor_get_int r ∧ cbor_get_int (cbor_mark_uint r) = cbor_get_int r ∧
    cbor_isa_negint (cbor_mark_negint r) = true ∧ cbor_isa_uint (cbor_mark_uint r) = true := by
  refine ⟨?_, ?_, ?_, ?_⟩ <;>
    dsimp only [cbor_mark_negint, cbor_mark_uint, cbor_get_int, cbor_int_get_width, cbor_get_uint8, cbor_get_uint16, cbor_get_uint32,
      cbor_get_uint64, cbor_isa_negint, cbor_isa_uint] <;> (first | rfl | decide)

/-! ## 3. predicates -/

/-- each `cbor_isa_*` tests the type tag against its enumerator; `cbor_typeof` returns the tag -/
theorem isa_spec (r : ItemRec) :
    cbor_typeof r = r.type ∧
    cbor_isa_uint r = (r.type == 0) ∧ cbor_isa_negint r = (r.type == 1) ∧ cbor_isa_bytestring r = (r.type == 2) ∧
    cbor_isa_string r = (r.type == 3) ∧ cbor_isa_array r = (r.type == 4) ∧ cbor_isa_map r = (r.type == 5) ∧
    cbor_isa_tag r = (r.type == 6) ∧ cbor_isa_float_ctrl r = (r.type == 7) := by
  refine ⟨?_, ?_, ?_, ?_, ?_, ?_, ?_, ?_, ?_⟩ <;> acc_eq

/-- the eight `cbor_isa_*` predicates, in the order of `cbor_type` -/
def isaList (r : ItemRec) : List Bool :=
  [cbor_isa_uint r, cbor_isa_negint r, cbor_isa_bytestring r, cbor_isa_string r, cbor_isa_array r, cbor_isa_map r, cbor_isa_tag r,
   cbor_isa_float_ctrl r]

/-- **pairwise exclusive**: no two of them hold of the same item -/
theorem isa_exclusive (r : ItemRec) : (isaList r).Pairwise (fun a b => ¬ (a = true ∧ b = true)) := by
  unfold isaList
  simp only [List.pairwise_cons, List.mem_cons, List.not_mem_nil, or_false, forall_eq_or_imp, forall_eq, List.Pairwise.nil, and_true,
    implies_true]
  acc_decide
/-- **jointly exhaustive** for the eight type tags of `cbor_type`: exactly the one numbered by the tag holds -/
theorem isa_exhaustive (r : ItemRec) (h : r.type.toNat ≤ 7) : (isaList r)[r.type.toNat]? = some true := by
  unfold isaList
  acc_unfold
  generalize r.type = t at *
  have : t = 0 ∨ t = 1 ∨ t = 2 ∨ t = 3 ∨ t = 4 ∨ t = 5 ∨ t = 6 ∨ t = 7 := by cnorm; omega
  rcases this with h | h | h | h | h | h | h | h <;> subst h <;> decide
/-- for any other tag value none holds -/
theorem isa_none (r : ItemRec) (h : 7 < r.type.toNat) : (isaList r).all (fun b => !b) = true := by
  unfold isaList
  simp only [List.all_cons, List.all_nil]
  acc_decide

theorem is_int_eq (r : ItemRec) : cbor_is_int r = (cbor_isa_uint r || cbor_isa_negint r) := by acc_eq
theorem is_float_eq (r : ItemRec) : cbor_is_float r = (cbor_isa_float_ctrl r && !cbor_float_ctrl_is_ctrl r) := by acc_eq
theorem float_ctrl_fields (r : ItemRec) :
    cbor_float_get_width r = r.float_width ∧ cbor_ctrl_value r = r.ctrl ∧ cbor_float_ctrl_is_ctrl r = (r.float_width == 0) := by
  refine ⟨?_, ?_, ?_⟩ <;> acc_eq
/-- `cbor_is_float`: tag 7 with a non-zero float width -/
theorem is_float_iff (r : ItemRec) : cbor_is_float r = true ↔ r.type = 7 ∧ r.float_width ≠ 0 := by acc_decide
/-- `cbor_is_bool` / `cbor_is_null` / `cbor_is_undef`: tag 7, width 0 (a "ctrl") and the simple value 20 or 21 / 22 / 23 -/
theorem is_bool_iff (r : ItemRec) : cbor_is_bool r = true ↔ r.type = 7 ∧ r.float_width = 0 ∧ (r.ctrl = 20 ∨ r.ctrl = 21) := by acc_decide
theorem is_null_iff (r : ItemRec) : cbor_is_null r = true ↔ r.type = 7 ∧ r.float_width = 0 ∧ r.ctrl = 22 := by acc_decide
theorem is_undef_iff (r : ItemRec) : cbor_is_undef r = true ↔ r.type = 7 ∧ r.float_width = 0 ∧ r.ctrl = 23 := by acc_decide
/-- the classifying predicates can be asked of **any** item: their side conditions always hold (the asserting getters they call are guarded
by `&&`) -/
theorem predicates_total (r : ItemRec) :
    cbor_typeof.ok r = true ∧ cbor_isa_uint.ok r = true ∧ cbor_isa_negint.ok r = true ∧ cbor_isa_bytestring.ok r = true ∧
    cbor_isa_string.ok r = true ∧ cbor_isa_array.ok r = true ∧ cbor_isa_map.ok r = true ∧ cbor_isa_tag.ok r = true ∧
    cbor_isa_float_ctrl.ok r = true ∧ cbor_is_int.ok r = true ∧ cbor_is_float.ok r = true ∧ cbor_is_bool.ok r = true ∧
    cbor_is_null.ok r = true ∧ cbor_is_undef.ok r = true ∧ cbor_refcount.ok r = true ∧ cbor_refcount r = r.refcount := by
  refine ⟨?_, ?_, ?_, ?_, ?_, ?_, ?_, ?_, ?_, ?_, ?_, ?_, ?_, ?_, ?_, ?_⟩ <;> acc_decide
/-- the float/ctrl getters assert tag 7 (and width 0 for the ctrl value) -/
theorem float_ctrl_ok (r : ItemRec) :
    (cbor_float_get_width.ok r = true ↔ r.type = 7) ∧ (cbor_float_ctrl_is_ctrl.ok r = true ↔ r.type = 7) ∧
    (cbor_ctrl_value.ok r = true ↔ r.type = 7 ∧ r.float_width = 0) ∧ (∀ v, cbor_set_ctrl.ok r v = true ↔ r.type = 7 ∧ r.float_width = 0) := by
  refine ⟨?_, ?_, ?_, fun v => ?_⟩ <;> acc_decide
/-- `cbor_get_bool` asserts `cbor_is_bool` (so does `cbor_set_bool`), and then is `ctrl == 21` -/
theorem get_bool_spec (r : ItemRec) :
    (cbor_is_bool r = true → cbor_get_bool r = (r.ctrl == 21)) ∧ (cbor_get_bool.ok r = true ↔ cbor_is_bool r = true) ∧
    (∀ b, cbor_set_bool.ok r b = true ↔ cbor_is_bool r = true) := by
  refine ⟨fun h => ?_, ?_, fun b => ?_⟩ <;> (try rw [Bool.eq_iff_iff]) <;> acc_decide
theorem get_set_bool (r : ItemRec) (b : Bool) :
    cbor_get_bool (cbor_set_bool r b) = b ∧ (cbor_is_bool r = true → cbor_is_bool (cbor_set_bool r b) = true) := by
  cases b <;> constructor <;> (try rw [Bool.eq_iff_iff]) <;> acc_decide
theorem get_set_ctrl (r : ItemRec) (v : UInt8) : cbor_ctrl_value (cbor_set_ctrl r v) = v := by acc_eq

/-! ## 4. container metadata -/

theorem container_fields (r : ItemRec) :
    cbor_array_size r = r.arr_end_ptr ∧ cbor_array_allocated r = r.arr_allocated ∧
    cbor_map_size r = r.map_end_ptr ∧ cbor_map_allocated r = r.map_allocated ∧
    cbor_string_length r = r.str_length ∧ cbor_string_codepoint_count r = r.str_codepoints ∧
    cbor_bytestring_length r = r.bs_length ∧ cbor_tag_value r = r.tag_value := by
  refine ⟨?_, ?_, ?_, ?_, ?_, ?_, ?_, ?_⟩ <;> acc_eq
/-- every container getter asserts the type tag of its kind, and nothing else -/
theorem container_ok (r : ItemRec) :
    (cbor_array_size.ok r = true ↔ r.type = 4) ∧ (cbor_array_allocated.ok r = true ↔ r.type = 4) ∧
    (cbor_array_is_definite.ok r = true ↔ r.type = 4) ∧ (cbor_array_is_indefinite.ok r = true ↔ r.type = 4) ∧
    (cbor_map_size.ok r = true ↔ r.type = 5) ∧ (cbor_map_allocated.ok r = true ↔ r.type = 5) ∧
    (cbor_map_is_definite.ok r = true ↔ r.type = 5) ∧ (cbor_map_is_indefinite.ok r = true ↔ r.type = 5) ∧
    (cbor_string_length.ok r = true ↔ r.type = 3) ∧ (cbor_string_codepoint_count.ok r = true ↔ r.type = 3) ∧
    (cbor_string_is_definite.ok r = true ↔ r.type = 3) ∧ (cbor_string_is_indefinite.ok r = true ↔ r.type = 3) ∧
    (cbor_bytestring_length.ok r = true ↔ r.type = 2) ∧ (cbor_bytestring_is_definite.ok r = true ↔ r.type = 2) ∧
    (cbor_bytestring_is_indefinite.ok r = true ↔ r.type = 2) ∧ (cbor_tag_value.ok r = true ↔ r.type = 6) := by
  refine ⟨?_, ?_, ?_, ?_, ?_, ?_, ?_, ?_, ?_, ?_, ?_, ?_, ?_, ?_, ?_, ?_⟩ <;> acc_decide
/-- maps, strings, byte strings: "indefinite" **is** the negation of "definite" (that is how the code defines it) -/
theorem definite_indefinite (r : ItemRec) :
    cbor_map_is_indefinite r = !cbor_map_is_definite r ∧ cbor_string_is_indefinite r = !cbor_string_is_definite r ∧
    cbor_bytestring_is_indefinite r = !cbor_bytestring_is_definite r ∧
    cbor_map_is_definite r = (r.map_type == 0) ∧ cbor_string_is_definite r = (r.str_type == 0) ∧ cbor_bytestring_is_definite r = (r.bs_type == 0) := by
  refine ⟨?_, ?_, ?_, ?_, ?_, ?_⟩ <;> acc_eq
/-- arrays differ: `cbor_array_is_indefinite` is its own comparison `type == _CBOR_METADATA_INDEFINITE`, so the two are complementary only for
the two enumerators of `_cbor_dst_metadata`; for any other stored value **both** are false -/
theorem array_definite_indefinite (r : ItemRec) :
    cbor_array_is_definite r = (r.arr_type == 0) ∧ cbor_array_is_indefinite r = (r.arr_type == 1) ∧
    (r.arr_type.toNat ≤ 1 → cbor_array_is_definite r = !cbor_array_is_indefinite r) ∧
    (1 < r.arr_type.toNat → cbor_array_is_definite r = false ∧ cbor_array_is_indefinite r = false) := by
  refine ⟨by acc_eq, by acc_eq, fun h => ?_, fun h => ⟨?_, ?_⟩⟩
  · rw [Bool.eq_iff_iff]; acc_decide
  · acc_decide
  · acc_decide

end Props.Accessors

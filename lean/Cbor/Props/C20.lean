import Cbor.Gen.MemoryUtils
import Cbor.Gen.Effects
import Cbor.Gen.HeaderSize
import Cbor.Lemmas.UInt
import Cbor.Lemmas.Tactics
/-!
# C20 — size arithmetic never wraps

Theorems over the **generated** `memory_utils.c` definitions (`Gen.*`, regenerated from /repo on
every run).  All quantifiers range over every 64-bit operand (2^128 pairs), no bound.
-/
set_option linter.unusedSimpArgs false
namespace Props.C20
open Gen Lemmas

/-- invariant of the generated highest-bit loop: with enough fuel it terminates normally (ok flag set,
exit code 0) and adds exactly the number of binary digits of `number` to `bit` -/
theorem hbit_loop (fuel : Nat) (number bit : UInt64)
    (hf : number.toNat < 2 ^ fuel) (hb : bit.toNat + fuel < 2 ^ 64) :
    let r := _cbor_highest_bit.loop0 (fuel + 1) number bit
    r.2.2 = true ∧ r.2.1 = 0 ∧ r.1.2.toNat = bit.toNat + bitlen number.toNat := by
  -- independent of the spelling of the loop (`!= 0` / `> 0`, `>>= 1` / `/= 2`, `bit++` / `bit += 1`, branch order):
  -- one step is unfolded, the guard is read as a fact about `number.toNat`, and the recursive call — whatever its
  -- argument terms are — is only required to be on ⌊number/2⌋ and bit+1 *as natural numbers*
  induction fuel generalizing number bit with
  | zero =>
    rw [_cbor_highest_bit.loop0]
    simp only []
    split <;> cnorm <;> (try omega)
    have : number.toNat = 0 := by omega
    simp [this, bitlen]
  | succ k ih =>
    rw [_cbor_highest_bit.loop0]
    simp only []
    split <;> cnorm
    all_goals first
      | (have hz : number.toNat = 0 := by omega
         simp [hz, bitlen]
         done)
      | (have hnn : number.toNat ≠ 0 := by omega
         have key : ∀ (n' b' : UInt64) (r : (UInt64 × UInt64) × Nat × Bool), _cbor_highest_bit.loop0 (k + 1) n' b' = r →
             n'.toNat = number.toNat / 2 → b'.toNat = bit.toNat + 1 →
             r.2.2 = true ∧ r.2.1 = 0 ∧ r.1.2.toNat = bit.toNat + bitlen number.toNat := by
           intro n' b' r hr hn hb'
           have := ih n' b' (by rw [hn]; rw [Nat.pow_succ] at hf; omega) (by omega)
           rw [hr] at this
           obtain ⟨h1, h2, h3⟩ := this
           refine ⟨h1, h2, ?_⟩
           rw [h3, hn, hb', bitlen_pos _ hnn]; omega
         generalize hn' : _cbor_highest_bit.loop0 _ _ _ = r
         have := key _ _ _ hn' (by simp [UInt64.toNat_shiftRight, UInt64.toNat_div, Nat.shiftRight_eq_div_pow])
           (by rw [UInt64.toNat_add]; simp; omega)
         simp [this.1, this.2.1, this.2.2]
         done)

/-- `_cbor_highest_bit n` is the bit length of `n`, and its translation has no failing side condition
(in particular the translator's fuel of 65 iterations suffices). -/
theorem C20_hbit (n : UInt64) :
    (_cbor_highest_bit n).toNat = bitlen n.toNat ∧ _cbor_highest_bit.ok n = true := by
  have h := hbit_loop 64 n 0 (by have := n.toNat_lt; omega) (by simp)
  simp only at h
  obtain ⟨h1, _, h3⟩ := h
  exact ⟨by simpa [_cbor_highest_bit] using h3, by simpa [_cbor_highest_bit.ok] using h1⟩

theorem C20_hbit_log2 (n : UInt64) :
    (_cbor_highest_bit n).toNat = if n = 0 then 0 else Nat.log2 n.toNat + 1 := by
  rw [(C20_hbit n).1]
  by_cases h : n = 0
  · subst h; simp [bitlen]
  · have hnn : n.toNat ≠ 0 := fun h' => h (UInt64.toNat_inj.mp (by simpa using h'))
    simp [h, bitlen_eq_log2 _ hnn]

theorem mul_small (a b : Nat) (h : a ≤ 1 ∨ b ≤ 1) (ha : a < 2 ^ 64) (hb : b < 2 ^ 64) : a * b < 2 ^ 64 := by
  rcases h with h | h
  · rcases Nat.le_one_iff_eq_zero_or_eq_one.mp h with h0 | h1
    · rw [h0]; simp
    · rw [h1]; simpa using hb
  · rcases Nat.le_one_iff_eq_zero_or_eq_one.mp h with h0 | h1
    · rw [h0]; simp
    · rw [h1]; simpa using ha

theorem bitlen_pos' (n : Nat) (h : 1 < n) : 0 < bitlen n := by
  rcases Nat.eq_zero_or_pos (bitlen n) with h0 | hp'
  · have := lt_two_pow_bitlen n; rw [h0] at this; omega
  · exact hp'

/-- the multiplication guard is sound for all 2^128 operand pairs: whenever it says "safe", the
mathematical product fits in `size_t` -/
theorem C20_mul_sound (a b : UInt64) (h : _cbor_safe_to_multiply a b = true) :
    a.toNat * b.toNat < 2 ^ 64 := by
  -- shape-independent: every `if` of the generated guard is split and every condition is read over `Nat`
  have ha := (C20_hbit a).1
  have hb := (C20_hbit b).1
  have hla : bitlen a.toNat ≤ 64 := bitlen_le_of_lt_two_pow _ _ a.toNat_lt
  have hlb : bitlen b.toNat ≤ 64 := bitlen_le_of_lt_two_pow _ _ b.toNat_lt
  have hal := a.toNat_lt
  have hbl := b.toNat_lt
  revert h
  unfold _cbor_safe_to_multiply
  simp only []
  repeat' split
  all_goals (intro h; cnorm)
  -- whether the guard is an early return or one disjunct of a single `||` chain: decide on the `Nat` side
  all_goals (by_cases hs : a.toNat ≤ 1 ∨ b.toNat ≤ 1)
  all_goals first
    | (exact mul_small _ _ hs hal hbl)
    | (apply mul_lt_of_bitlen
       first
        | omega
        | (simp [UInt64.toNat_add, UInt64.toNat_shiftLeft, ha, hb] at h <;> omega))

theorem C20_mul_ok (a b : UInt64) : _cbor_safe_to_multiply.ok a b = true := by
  unfold _cbor_safe_to_multiply.ok
  simp only []
  repeat' split
  all_goals simp [(C20_hbit a).2, (C20_hbit b).2]

/-- the multiplication guard never refuses a product that is at most half the address space
(so it is not vacuously sound by refusing everything) -/
theorem C20_mul_complete_half (a b : UInt64) (h : a.toNat * b.toNat < 2 ^ 63) :
    _cbor_safe_to_multiply a b = true := by
  have ha := (C20_hbit a).1
  have hb := (C20_hbit b).1
  have hla : bitlen a.toNat ≤ 64 := bitlen_le_of_lt_two_pow _ _ a.toNat_lt
  have hlb : bitlen b.toNat ≤ 64 := bitlen_le_of_lt_two_pow _ _ b.toNat_lt
  -- the arithmetic core, over `Nat`: two operands above 1 whose product is below 2^63 have at most 64 digits together
  have core : 1 < a.toNat → 1 < b.toNat → bitlen a.toNat + bitlen b.toNat ≤ 64 := by
    intro ha1 hb1
    have h1 := two_pow_bitlen_le a.toNat (by omega)
    have h2 := two_pow_bitlen_le b.toNat (by omega)
    have hp : 2 ^ (bitlen a.toNat - 1) * 2 ^ (bitlen b.toNat - 1) ≤ a.toNat * b.toNat := Nat.mul_le_mul h1 h2
    rw [← Nat.pow_add] at hp
    have : 2 ^ (bitlen a.toNat - 1 + (bitlen b.toNat - 1)) < 2 ^ 63 := Nat.lt_of_le_of_lt hp h
    have := (Nat.pow_lt_pow_iff_right (by omega : 1 < 2)).mp this
    have hpa := bitlen_pos' a.toNat ha1
    have hpb := bitlen_pos' b.toNat hb1
    omega
  unfold _cbor_safe_to_multiply
  simp only []
  repeat' split
  all_goals cnorm
  all_goals first
    | rfl
    | omega
    | (by_cases hs : 1 < a.toNat ∧ 1 < b.toNat
       · have := core hs.1 hs.2
         simp [UInt64.toNat_add, UInt64.toNat_shiftLeft, ha, hb] <;> omega
       · simp [UInt64.toNat_add, UInt64.toNat_shiftLeft, ha, hb] <;> omega)

/-- the addition guard is exact -/
theorem C20_add_exact (a b : UInt64) :
    _cbor_safe_to_add a b = true ↔ a.toNat + b.toNat < 2 ^ 64 := by
  -- robust against the shape of the comparison(s): everything is pushed to natural numbers and left to `omega`
  unfold _cbor_safe_to_add
  have ha := a.toNat_lt
  have hb := b.toNat_lt
  simp only []
  repeat' split
  all_goals cnorm
  all_goals (try simp only [UInt64.toNat_add, Bool.false_eq_true, eq_self, true_iff, false_iff] at *)
  all_goals omega

/-- the signalling sum is the exact mathematical sum, or 0 when an operand is 0 or the sum does not fit -/
theorem C20_sadd (a b : UInt64) :
    (_cbor_safe_signaling_add a b).toNat =
      if a = 0 ∨ b = 0 ∨ a.toNat + b.toNat ≥ 2 ^ 64 then 0 else a.toNat + b.toNat := by
  have hx := C20_add_exact a b
  have hal := a.toNat_lt
  have hbl := b.toNat_lt
  unfold _cbor_safe_signaling_add
  simp only [hx]
  repeat' split
  all_goals cnorm
  all_goals (try simp only [UInt64.toNat_add] at *)
  all_goals omega

theorem C20_sadd_ok (a b : UInt64) : _cbor_safe_signaling_add.ok a b = true := by
  unfold _cbor_safe_signaling_add.ok _cbor_safe_to_add.ok
  simp only []
  repeat' split
  all_goals simp

/-- header size is the length of the shortest RFC 8949 head for the argument (1, 2, 3, 5 or 9 bytes) -/
theorem C20_header_size (n : UInt64) :
    (_cbor_encoded_header_size n).toNat =
      if n.toNat ≤ 23 then 1 else if n.toNat ≤ 255 then 2 else if n.toNat ≤ 65535 then 3
      else if n.toNat ≤ 4294967295 then 5 else 9 := by
  unfold _cbor_encoded_header_size
  repeat' split
  all_goals cnorm
  all_goals first | rfl | omega | (simp at *; omega)

-- non-vacuity: concrete instances of the hypotheses and of both guard outcomes
example : _cbor_safe_to_multiply 0x80000000 0xFFFFFFFF = true := by decide +kernel
example : _cbor_safe_to_multiply 0x100000000 0x100000000 = false := by decide +kernel
example : _cbor_safe_to_add 0xFFFFFFFFFFFFFFFF 1 = false := by decide
example : _cbor_safe_signaling_add 0xFFFFFFFFFFFFFFF0 0x10 = 0 := by decide
example : _cbor_highest_bit 0xFFFFFFFFFFFFFFFF = 64 := by decide +kernel

/-! ## allocation call sites (generated census) -/
section sites
open Gen.Effects

def isIdent (s : String) : Bool := !s.toList.isEmpty && s.toList.all fun c => c.isAlphanum || c == '_'
/-- `sizeof(T)` or `sizeof(T) + k` for a small literal k: a compile-time constant -/
def isSizeof (s : String) : Bool :=
  "sizeof(".toList.isPrefixOf s.toList &&
    (")".toList.isSuffixOf s.toList || [" + 1", " + 2", " + 4", " + 8"].any fun t => t.toList.isSuffixOf s.toList)

/-- an allocator argument read through the census of `const` locals: an argument that is just the name of a `const`-qualified
local of that function — declared exactly once there (`Gen.Effects.constLocals` lists only such names), hence never assigned
after its initialisation — stands for the expression it was initialised with.  So `const size_t total = item_size * item_count;
_cbor_realloc(pointer, total)` is judged as `_cbor_realloc(pointer, item_size * item_count)`, and, conversely, an allocator
call whose byte count is a `const` local initialised with an unguarded product is judged by that product, not waved through
as "a plain variable". -/
def resolveArg (f a : String) : String :=
  match constLocals.filter (fun e => e.1 == f && e.2.1 == a) with
  | [e] => e.2.2
  | _ => a

/-- the rule proper, on argument texts in which `const` locals have been replaced by their initialisers -/
def okSiteResolved (site : String × String × List String) : Bool :=
  match site with
  | (f, "_cbor_malloc", [a]) => isSizeof a || isIdent a || (f == "_cbor_alloc_multiple" && a == "item_size * item_count")
  | (f, "_cbor_realloc", [p, a]) => f == "_cbor_realloc_multiple" && p == "pointer" && a == "item_size * item_count"
  | (_, "_cbor_alloc_multiple", [sz, n]) => isSizeof sz && isIdent n
  | (_, "_cbor_realloc_multiple", [_, sz, n]) => isSizeof sz && isIdent n
  | (_, "_cbor_free", _) => true
  | _ => false

/-- an allocation call site is *guarded* when the byte count it passes (a `const` local being read as the expression that
initialises it, see `resolveArg`) is a compile-time constant, a length the
caller already holds in a `size_t` (no arithmetic at the site), or — only inside the two `*_multiple` helpers,
behind their `_cbor_safe_to_multiply` guard — the product `item_size * item_count`; and when the `*_multiple`
helpers receive an element size that is a `sizeof` and a count that is a plain variable -/
def okSite (site : String × String × List String) : Bool :=
  okSiteResolved (site.1, site.2.1, site.2.2.map (resolveArg site.1))

/-- **No arithmetic at allocation sites.**  Every allocator call in the library (the census regenerated from
the sources on this run) is guarded in the sense above: products are formed only inside the guarded helpers. -/
theorem C20_alloc_sites_guarded : allocSites.all okSite = true ∧ 40 ≤ allocSites.length := by decide +kernel

end sites

end Props.C20

import Cbor.Gen.MemoryUtils
import Cbor.Gen.Effects
import Cbor.Gen.HeaderSize
import Cbor.Lemmas.UInt
/-!
# C20 — size arithmetic never wraps

Theorems over the **generated** `memory_utils.c` definitions (`Gen.*`, regenerated from /repo on
every run).  All quantifiers range over every 64-bit operand (2^128 pairs), no bound.
-/
namespace Props.C20
open Gen Lemmas

/-- invariant of the generated highest-bit loop: with enough fuel it terminates normally (ok flag set,
exit code 0) and adds exactly the number of binary digits of `number` to `bit` -/
theorem hbit_loop (fuel : Nat) (number bit : UInt64)
    (hf : number.toNat < 2 ^ fuel) (hb : bit.toNat + fuel < 2 ^ 64) :
    let r := _cbor_highest_bit.loop0 (fuel + 1) number bit
    r.2.2 = true ∧ r.2.1 = 0 ∧ r.1.2.toNat = bit.toNat + bitlen number.toNat := by
  induction fuel generalizing number bit with
  | zero =>
    have h0 : number = 0 := by
      apply UInt64.toNat_inj.mp; simp at hf ⊢; omega
    subst h0
    simp [_cbor_highest_bit.loop0, bitlen]
  | succ k ih =>
    rw [_cbor_highest_bit.loop0]
    by_cases hn : number = 0
    · subst hn; simp [bitlen]
    · have hne : (number != 0) = true := by simpa using hn
      simp only [hne, if_true]
      have hnn : number.toNat ≠ 0 := fun h => hn (UInt64.toNat_inj.mp (by simpa using h))
      have hshift : (number >>> (1 : UInt64)).toNat = number.toNat / 2 := by
        simp [UInt64.toNat_shiftRight, Nat.shiftRight_eq_div_pow]
      have hbit : (bit + 1).toNat = bit.toNat + 1 := by
        rw [UInt64.toNat_add]; simp; omega
      have := ih (number >>> (1 : UInt64)) (bit + 1) (by rw [hshift, Nat.pow_succ] at *; omega) (by omega)
      simp only at this
      obtain ⟨h1, h2, h3⟩ := this
      refine ⟨by simp [h1], h2, ?_⟩
      rw [h3, hshift, hbit, bitlen_pos _ hnn]; omega

/-- `_cbor_highest_bit n` is the bit length of `n`, and its translation has no failing side condition
(in particular the translator's fuel of 65 iterations suffices). -/
theorem C20_hbit (n : UInt64) :
    (_cbor_highest_bit n).toNat = bitlen n.toNat ∧ _cbor_highest_bit.ok n = true := by
  have h := hbit_loop 64 n 0 (by have := n.toNat_lt; omega) (by simp)
  simp only at h
  obtain ⟨h1, _, h3⟩ := h
  exact ⟨by simpa [_cbor_highest_bit] using h3, by simpa [_cbor_highest_bit.ok] using h1⟩

theorem C20_hbit_log2 (n : UInt64) :
    (_cbor_highest_bit n).toNat = if n = 0 then 0 else Nat.log2 n.toNat + 1 := by
  rw [(C20_hbit n).1]
  by_cases h : n = 0
  · subst h; simp [bitlen]
  · have hnn : n.toNat ≠ 0 := fun h' => h (UInt64.toNat_inj.mp (by simpa using h'))
    simp [h, bitlen_eq_log2 _ hnn]

/-- the multiplication guard is sound for all 2^128 operand pairs: whenever it says "safe", the
mathematical product fits in `size_t` -/
theorem C20_mul_sound (a b : UInt64) (h : _cbor_safe_to_multiply a b = true) :
    a.toNat * b.toNat < 2 ^ 64 := by
  unfold _cbor_safe_to_multiply at h
  split at h
  · rename_i hc
    simp only [Bool.or_eq_true, decide_eq_true_eq] at hc
    rcases hc with hc | hc
    · have := UInt64.le_iff_toNat_le.mp hc
      have hb := b.toNat_lt
      simp at this
      rcases Nat.le_one_iff_eq_zero_or_eq_one.mp this with h0 | h1
      · rw [h0]; simp
      · rw [h1]; simpa using hb
    · have := UInt64.le_iff_toNat_le.mp hc
      have ha := a.toNat_lt
      simp at this
      rcases Nat.le_one_iff_eq_zero_or_eq_one.mp this with h0 | h1
      · rw [h0]; simp
      · rw [h1]; simpa using ha
  · simp only [decide_eq_true_eq] at h
    have hle := UInt64.le_iff_toNat_le.mp h
    have ha := (C20_hbit a).1
    have hb := (C20_hbit b).1
    have hla : bitlen a.toNat ≤ 64 := bitlen_le_of_lt_two_pow _ _ a.toNat_lt
    have hlb : bitlen b.toNat ≤ 64 := bitlen_le_of_lt_two_pow _ _ b.toNat_lt
    rw [UInt64.toNat_add, ha, hb] at hle
    simp at hle
    apply mul_lt_of_bitlen
    omega

theorem C20_mul_ok (a b : UInt64) : _cbor_safe_to_multiply.ok a b = true := by
  unfold _cbor_safe_to_multiply.ok
  split <;> simp [(C20_hbit a).2, (C20_hbit b).2]

/-- the multiplication guard never refuses a product that is at most half the address space
(so it is not vacuously sound by refusing everything) -/
theorem C20_mul_complete_half (a b : UInt64) (h : a.toNat * b.toNat < 2 ^ 63) :
    _cbor_safe_to_multiply a b = true := by
  unfold _cbor_safe_to_multiply
  split
  · rfl
  · rename_i hc
    simp only [Bool.or_eq_true, decide_eq_true_eq, not_or] at hc
    have ha1 : ¬ a.toNat ≤ 1 := fun hh => hc.1 (UInt64.le_iff_toNat_le.mpr (by simpa using hh))
    have hb1 : ¬ b.toNat ≤ 1 := fun hh => hc.2 (UInt64.le_iff_toNat_le.mpr (by simpa using hh))
    simp only [decide_eq_true_eq]
    apply UInt64.le_iff_toNat_le.mpr
    have ha := (C20_hbit a).1
    have hb := (C20_hbit b).1
    have hla : bitlen a.toNat ≤ 64 := bitlen_le_of_lt_two_pow _ _ a.toNat_lt
    have hlb : bitlen b.toNat ≤ 64 := bitlen_le_of_lt_two_pow _ _ b.toNat_lt
    rw [UInt64.toNat_add, ha, hb]
    simp
    have h1 := two_pow_bitlen_le a.toNat (by omega)
    have h2 := two_pow_bitlen_le b.toNat (by omega)
    have hp : 2 ^ (bitlen a.toNat - 1) * 2 ^ (bitlen b.toNat - 1) ≤ a.toNat * b.toNat := Nat.mul_le_mul h1 h2
    rw [← Nat.pow_add] at hp
    have : 2 ^ (bitlen a.toNat - 1 + (bitlen b.toNat - 1)) < 2 ^ 63 := Nat.lt_of_le_of_lt hp h
    have := (Nat.pow_lt_pow_iff_right (by omega : 1 < 2)).mp this
    have hpa : 0 < bitlen a.toNat := by
      rcases Nat.eq_zero_or_pos (bitlen a.toNat) with h0 | hp'
      · have := lt_two_pow_bitlen a.toNat; rw [h0] at this; omega
      · exact hp'
    have hpb : 0 < bitlen b.toNat := by
      rcases Nat.eq_zero_or_pos (bitlen b.toNat) with h0 | hp'
      · have := lt_two_pow_bitlen b.toNat; rw [h0] at this; omega
      · exact hp'
    omega

/-- the addition guard is exact -/
theorem C20_add_exact (a b : UInt64) :
    _cbor_safe_to_add a b = true ↔ a.toNat + b.toNat < 2 ^ 64 := by
  -- robust against the shape of the comparison(s): everything is pushed to natural numbers and left to `omega`
  unfold _cbor_safe_to_add
  have ha := a.toNat_lt
  have hb := b.toNat_lt
  simp only [Bool.and_eq_true, Bool.or_eq_true, decide_eq_true_eq, ge_iff_le, gt_iff_lt, UInt64.le_iff_toNat_le, UInt64.lt_iff_toNat_lt,
    UInt64.toNat_add]
  omega

/-- the signalling sum is the exact mathematical sum, or 0 when an operand is 0 or the sum does not fit -/
theorem C20_sadd (a b : UInt64) :
    (_cbor_safe_signaling_add a b).toNat =
      if a = 0 ∨ b = 0 ∨ a.toNat + b.toNat ≥ 2 ^ 64 then 0 else a.toNat + b.toNat := by
  unfold _cbor_safe_signaling_add
  by_cases ha : a = 0
  · simp [ha]
  by_cases hb : b = 0
  · simp [hb]
  have hab : ((a == 0) || (b == 0)) = false := by simp [ha, hb]
  simp only [hab]
  by_cases hs : _cbor_safe_to_add a b = true
  · have := (C20_add_exact a b).mp hs
    simp [hs, ha, hb, UInt64.toNat_add]
    split <;> omega
  · have hn : ¬ (a.toNat + b.toNat < 2 ^ 64) := fun h => hs ((C20_add_exact a b).mpr h)
    simp at hs
    simp [hs, ha, hb]
    omega

theorem C20_sadd_ok (a b : UInt64) : _cbor_safe_signaling_add.ok a b = true := by
  unfold _cbor_safe_signaling_add.ok _cbor_safe_to_add.ok
  split <;> simp

/-- header size is the length of the shortest RFC 8949 head for the argument (1, 2, 3, 5 or 9 bytes) -/
theorem C20_header_size (n : UInt64) :
    (_cbor_encoded_header_size n).toNat =
      if n.toNat ≤ 23 then 1 else if n.toNat ≤ 255 then 2 else if n.toNat ≤ 65535 then 3
      else if n.toNat ≤ 4294967295 then 5 else 9 := by
  unfold _cbor_encoded_header_size
  simp only [UInt64.le_iff_toNat_le, decide_eq_true_eq]
  repeat' split
  all_goals first | rfl | (simp at *; omega)

-- non-vacuity: concrete instances of the hypotheses and of both guard outcomes
example : _cbor_safe_to_multiply 0x80000000 0xFFFFFFFF = true := by decide +kernel
example : _cbor_safe_to_multiply 0x100000000 0x100000000 = false := by decide +kernel
example : _cbor_safe_to_add 0xFFFFFFFFFFFFFFFF 1 = false := by decide
example : _cbor_safe_signaling_add 0xFFFFFFFFFFFFFFF0 0x10 = 0 := by decide
example : _cbor_highest_bit 0xFFFFFFFFFFFFFFFF = 64 := by decide +kernel

/-! ## allocation call sites (generated census) -/
section sites
open Gen.Effects

def isIdent (s : String) : Bool := !s.toList.isEmpty && s.toList.all fun c => c.isAlphanum || c == '_'
/-- `sizeof(T)` or `sizeof(T) + k` for a small literal k: a compile-time constant -/
def isSizeof (s : String) : Bool :=
  "sizeof(".toList.isPrefixOf s.toList &&
    (")".toList.isSuffixOf s.toList || [" + 1", " + 2", " + 4", " + 8"].any fun t => t.toList.isSuffixOf s.toList)

/-- an allocation call site is *guarded* when the byte count it passes is a compile-time constant, a length the
caller already holds in a `size_t` (no arithmetic at the site), or — only inside the two `*_multiple` helpers,
behind their `_cbor_safe_to_multiply` guard — the product `item_size * item_count`; and when the `*_multiple`
helpers receive an element size that is a `sizeof` and a count that is a plain variable -/
def okSite (site : String × String × List String) : Bool :=
  match site with
  | (f, "_cbor_malloc", [a]) => isSizeof a || isIdent a || (f == "_cbor_alloc_multiple" && a == "item_size * item_count")
  | (f, "_cbor_realloc", [p, a]) => f == "_cbor_realloc_multiple" && p == "pointer" && a == "item_size * item_count"
  | (_, "_cbor_alloc_multiple", [sz, n]) => isSizeof sz && isIdent n
  | (_, "_cbor_realloc_multiple", [_, sz, n]) => isSizeof sz && isIdent n
  | (_, "_cbor_free", _) => true
  | _ => false

/-- **No arithmetic at allocation sites.**  Every allocator call in the library (the census regenerated from
the sources on this run) is guarded in the sense above: products are formed only inside the guarded helpers. -/
theorem C20_alloc_sites_guarded : allocSites.all okSite = true ∧ 40 ≤ allocSites.length := by decide +kernel

end sites

end Props.C20

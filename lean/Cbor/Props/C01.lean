import Cbor.Props.C02
import Cbor.Props.C08
import Cbor.Props.C07
import Cbor.Lemmas.LoadSafe
/-!
# C01 — decoding arbitrary bytes is memory-safe, assertion-clean and always terminates

What is a theorem here, for **every** buffer (every content, every length):

* `C01_stream_reads_inside`: every translator-collected side condition of the generated
  `Gen.cbor_stream_decode` — each array read inside `[off, off + n)`, no shift out of range, no signed
  overflow — holds when the size argument is honest (this is `Lemmas.sd_ok`);
* `C01_load_outcome`: the tree decoder model (`Model.load`: the builder callbacks, the decoding stack with
  its `size_t` counters and capacities, every head read by the generated streaming decoder) returns — it is
  a total function whose only loop provably ends before its fuel does — with its fault flag clear (the flag
  is raised by any internal consistency assertion of the model: payload outside the buffer, pop of an empty
  stack, append to a full definite container, loop not finished), and the outcome is exactly one of
  "an item and error code NONE" or "no item and an error code other than NONE";
* `C01_serialize_inside`: serializing any valid tree writes only inside the caller's buffer (C07).

What is not a theorem: undefined behaviour, out-of-bounds access and assertion failures of the *real* C code
in the builder callbacks, containers and `cbor_copy` / `cbor_describe` — those are observed by
AddressSanitizer / UBSan with `CBOR_ASSERT` enabled on exactly-sized heap blocks, exhaustively for every
buffer of up to 3 bytes (4 in the thorough tier) and on the structured corpus; see DESIGN.md.
-/
namespace Props.C01
open Gen Lemmas Model

theorem C01_stream_reads_inside (src : Array UInt8) (off : Nat) (n : UInt64) (h : off + n.toNat ≤ src.size) :
    cbor_stream_decode.ok src off n = true := sd_ok src off n h

/-- **Two outcomes, no third.** -/
theorem C01_load_outcome (src : Array UInt8) (hsz : src.size < 2 ^ 56) (L : Nat) (r0 : LoadResult) :
    let o := Model.load Lemmas.Refine.ωT L r0 src
    o.fault = false ∧
    ((∃ x, o.item = some x ∧ o.result.code = .none) ∨ (o.item = none ∧ o.result.code ≠ .none)) := by
  intro o
  have h := Lemmas.Refine.load_eq src hsz L r0
  simp only at h
  cases hd : Spec.decode true L Lemmas.Refine.okGuard (Lemmas.Refine.getOf src) src.size with
  | ok x n =>
    rw [hd] at h
    exact ⟨h.2.2, Or.inl ⟨x, h.1, by rw [h.2.1]⟩⟩
  | nodata =>
    rw [hd] at h
    exact ⟨h.2.2, Or.inr ⟨h.1, by rw [h.2.1]; decide⟩⟩
  | fail e p =>
    rw [hd] at h
    refine ⟨h.2.2, Or.inr ⟨h.1, ?_⟩⟩
    rw [h.2.1]
    cases e <;> simp [Lemmas.Refine.codeOf]

/-- **Every allocation schedule.**  The same two-outcome, fault-free guarantee for *every* allocator oracle — every
choice of which of the builder's requests are refused (`Lemmas.Safe.load_safe`: an invariant on the decoding stack
preserved by every builder callback whatever the allocator answers, the cascade of completed containers bounded by
the stack height, the loop bounded by the bytes left). -/
theorem C01_load_any_allocator (ω : Oracle) (L : Nat) (r0 : LoadResult) (src : Array UInt8) (hsz : src.size < 2 ^ 64 - 1) :
    let o := Model.load ω L r0 src
    o.fault = false ∧ ((∃ x, o.item = some x ∧ o.result.code = .none) ∨ (o.item = none ∧ o.result.code ≠ .none)) :=
  Lemmas.Safe.load_safe ω L r0 src hsz

/-- on success the bytes consumed are at least one and never exceed the buffer -/
theorem C01_read_inside (src : Array UInt8) (hsz : src.size < 2 ^ 56) (L : Nat) (r0 : LoadResult) (t : Spec.Item)
    (h : (Model.load Lemmas.Refine.ωT L r0 src).item = some t) :
    0 < (Model.load Lemmas.Refine.ωT L r0 src).result.read ∧ (Model.load Lemmas.Refine.ωT L r0 src).result.read ≤ src.size :=
  Props.C02.C02_read_bounds src hsz L r0 t h

theorem C01_serialize_inside (t : Spec.Item) (hv : Lemmas.Ser.Valid t) (hfit : (Spec.encode t).length < 2 ^ 64)
    (buf : Array UInt8) (off : Nat) (n : UInt64) :
    Lemmas.Ser.Within buf (serialize t buf off n).2 off n.toNat :=
  (Props.C07.C07_serialize t hv hfit buf off n).2.2.2.2

end Props.C01

import Cbor.Props.C07
import Cbor.Lemmas.RoundTrip
/-!
# C03 — serialization emits exactly the RFC 8949 encoding of the tree

`Spec.encode` (lean/Cbor/Spec/Item.lean) is the encoding the statement describes: integers and floats at
their stored width, lengths / counts / tag numbers in the shortest head, indefinite items as start byte,
chunks or members in order, then break, any NaN as the canonical quiet NaN of its width.  The theorems
below state that the serializer model (`Model.serialize`, all heads written by the generated encoders)
writes exactly those bytes, for every tree; the clauses of the statement are restated as facts about
`Spec.encode` so that a reader can see the specification says what the property says.

The round trip is a theorem too: `Spec.RT.decode_encode` (reference decoder ∘ `Spec.encode` = identity up
to NaN canonicalisation, for every canonical tree within the nesting limit, whatever follows the encoding),
lifted through `load_eq` to the model of `cbor_load` (`C03_roundtrip`), with `encode_renorm` for "serializing
that tree again yields the identical bytes".
-/
namespace Props.C03
open Model Spec Lemmas Lemmas.Ser Gen

/-- **Exact bytes.**  For every valid tree whose encoding fits in `size_t`, and every buffer with room for it,
`cbor_serialize` returns the encoded length and the `n` bytes at `off` now start with exactly `Spec.encode t`;
every other byte of the buffer is unchanged. -/
theorem C03_bytes (t : Item) (hv : Valid t) (hfit : (encode t).length < 2 ^ 64)
    (buf : Array UInt8) (off : Nat) (n : UInt64) (hn : (encode t).length ≤ n.toNat) (hb : off + n.toNat ≤ buf.size) :
    let r := serialize t buf off n
    r.1.toNat = (encode t).length ∧
    (∀ i (h : i < (encode t).length), r.2[off + i]? = some (encode t)[i]) ∧
    (∀ i, (i < off ∨ off + (encode t).length ≤ i) → r.2[i]? = buf[i]?) ∧ r.2.size = buf.size := by
  intro r
  have e := (ser_item t hv hfit buf off n).1 hn
  have e1 : r.1 = UInt64.ofNat (encode t).length := congrArg Prod.fst e
  have e2 : r.2 = writeList buf off (encode t) := congrArg Prod.snd e
  refine ⟨by rw [e1, u64_of _ hfit], ?_, ?_, by rw [e2, writeList_size]⟩
  · intro i h
    rw [e2, writeList_getElem? buf off (encode t) i h (by omega)]
    simp [h]
  · intro i hi
    rw [e2]
    rcases hi with hi | hi
    · exact writeList_getElem?_of_lt _ _ _ _ hi
    · exact writeList_getElem?_of_ge _ _ _ _ hi

/-- serialization is a function of the tree's value alone: equal trees give equal bytes, whatever the buffer held -/
theorem C03_deterministic (t : Item) (hv : Valid t) (hfit : (encode t).length < 2 ^ 64)
    (b1 b2 : Array UInt8) (n : UInt64) (hn : (encode t).length ≤ n.toNat) (h1 : n.toNat ≤ b1.size) (h2 : n.toNat ≤ b2.size) :
    ∀ i, i < (encode t).length → (serialize t b1 0 n).2[i]? = (serialize t b2 0 n).2[i]? := by
  intro i hi
  have a := (C03_bytes t hv hfit b1 0 n hn (by omega)).2.1 i hi
  have b := (C03_bytes t hv hfit b2 0 n hn (by omega)).2.1 i hi
  simp only [Nat.zero_add] at a b
  rw [a, b]

/-! ## the clauses of the statement, as facts about `Spec.encode` -/

/-- integers at their stored width: a `w`-wide integer is one initial byte plus `w.bytes` argument bytes,
except 8-bit values below 24, which are the immediate form -/
theorem int_width (w : Width) (v : Nat) :
    (encode (.uint w v)).length = if w = .w8 ∧ v < 24 then 1 else 1 + w.bytes := by
  cases w
  · simp only [encode, Spec.headBytes_length, intAi, Spec.argBytes, Width.bytes]
    by_cases h : v < 24 <;> simp [h]
  all_goals simp [encode, Spec.headBytes_length, intAi, Spec.argBytes, Width.bytes]

/-- lengths, counts and tag numbers use the shortest head -/
theorem shortest_heads (b : List UInt8) (xs : List Item) (kvs : List (Item × Item)) (n : Nat) (x : Item) :
    encode (.bytes b) = Spec.head 2 b.length ++ b ∧ encode (.text b) = Spec.head 3 b.length ++ b ∧
    encode (.array xs) = Spec.head 4 xs.length ++ encodeList xs ∧
    encode (.map kvs) = Spec.head 5 kvs.length ++ encodePairs kvs ∧
    encode (.tag n x) = Spec.head 6 n ++ encode x := by
  simp [encode]

/-- `Spec.head` is the shortest of the five head forms that can carry the argument -/
theorem head_shortest (mt v : Nat) (hv : v < 2 ^ 64) :
    (Spec.head mt v).length = if v < 24 then 1 else if v < 256 then 2 else if v < 65536 then 3 else if v < 4294967296 then 5 else 9 :=
  head_length mt v

/-- indefinite items: start byte, chunks or members in order, then break -/
theorem indefinite_shape (cs : List (List UInt8)) (xs : List Item) (kvs : List (Item × Item)) :
    encode (.bytesI cs) = [0x5F] ++ encodeChunks 2 cs ++ [0xFF] ∧ encode (.textI cs) = [0x7F] ++ encodeChunks 3 cs ++ [0xFF] ∧
    encode (.arrayI xs) = [0x9F] ++ encodeList xs ++ [0xFF] ∧ encode (.mapI kvs) = [0xBF] ++ encodePairs kvs ++ [0xFF] := by
  simp [encode]

/-- members in storage order -/
theorem members_in_order (x : Item) (xs : List Item) (k v : Item) (r : List (Item × Item)) :
    encodeList (x :: xs) = encode x ++ encodeList xs ∧ encodePairs ((k, v) :: r) = encode k ++ encode v ++ encodePairs r := by
  simp [encodeList, encodePairs]

/-- any NaN is written as the canonical quiet NaN of its width -/
theorem nan_canonical (b : Nat) :
    (Spec.Float.isNaN 8 23 b = true → encode (.single b) = Spec.headBytes 7 26 0x7FC00000) ∧
    (Spec.Float.isNaN 11 52 b = true → encode (.double b) = Spec.headBytes 7 27 0x7FF8000000000000) := by
  constructor <;> intro h <;> simp [encode, Spec.Float.canonSingle, Spec.Float.canonDouble, h]

/-! ## the round trip -/

/-- **Spec level.**  For every canonical tree (`Spec.RT.Canon`: scalars fit their width, lengths fit, simple values
are the assigned ones, half floats hold a half-representable value) whose nesting is within the limit `L`, every
buffer that begins with `Spec.encode t` decodes to the tree with NaNs canonical (`renorm`), consuming exactly the
encoding. -/
theorem C03_decode_encode (lz : Bool) (L : Nat) (t : Item) (hc : Spec.RT.Canon t) (hd : openDepth t ≤ L)
    (get : Nat → UInt8) (len : Nat) (hat : Spec.RT.At get 0 (encode t)) (hl : (encode t).length ≤ len) :
    Spec.decode lz L (fun _ => true) get len = .ok (Spec.RT.renorm t) (encode t).length :=
  Spec.RT.decode_encode lz L get len _ Spec.RT.okAll_true t hc hd hat hl

/-- **Through the model of `cbor_load`.**  Loading exactly the bytes the serializer writes for `t` succeeds, consumes
all of them, yields the tree with NaNs canonical, raises no internal-consistency fault — and that tree serializes
to the identical bytes. -/
theorem C03_roundtrip (t : Item) (hv : Valid t) (hc : Spec.RT.Canon t) (L : Nat) (hd : openDepth t ≤ L)
    (hsz : (encode t).length < 2 ^ 56) (r0 : LoadResult) :
    let o := Model.load Lemmas.Refine.ωT L r0 (encode t).toArray
    o.item = some (Spec.RT.renorm t) ∧ o.result.code = .none ∧ o.result.read = (encode t).length ∧ o.fault = false ∧
    encode (Spec.RT.renorm t) = encode t := by
  intro o
  have hle := Lemmas.Refine.load_eq (encode t).toArray (by simpa using hsz) L r0
  have hde := Spec.RT.decode_encode true L (Lemmas.Refine.getOf (encode t).toArray) (encode t).toArray.size _
    Lemmas.RoundTrip.okAll_guard t hc hd (Lemmas.RoundTrip.at_toArray _) (by simp)
  simp only at hle
  rw [hde] at hle
  exact ⟨hle.1, by rw [hle.2.1], by rw [hle.2.1], hle.2.2, Lemmas.RoundTrip.encode_renorm t hv⟩

/-- a tree without NaN comes back unchanged: `renorm` only touches NaN payloads (single / double shown here) -/
theorem renorm_single_of_not_nan (b : Nat) (h : Spec.Float.isNaN 8 23 b = false) : Spec.RT.renorm (.single b) = .single b := by
  simp [Spec.RT.renorm, Spec.Float.canonSingle, h]

theorem renorm_double_of_not_nan (b : Nat) (h : Spec.Float.isNaN 11 52 b = false) : Spec.RT.renorm (.double b) = .double b := by
  simp [Spec.RT.renorm, Spec.Float.canonDouble, h]

/-! non-vacuity: a nested tree meets the hypotheses of the round-trip theorems -/
example : Spec.RT.Canon (.array [.uint .w8 7, .tag 2 (.bytesI [[1, 2], []]), .map [(.text [0x61], .simple 21)], .single 0x7FC00001]) ∧
    openDepth (.array [.uint .w8 7, .tag 2 (.bytesI [[1, 2], []]), .map [(.text [0x61], .simple 21)], .single 0x7FC00001]) ≤ 3 := by
  simp [Spec.RT.Canon, Spec.RT.CanonL, Spec.RT.CanonP, Width.bytes, openDepth, depthList, depthPairs]

end Props.C03

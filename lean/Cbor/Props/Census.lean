import Cbor.Gen.Effects
/-! Call-graph reachability over the generated effect census (`Gen.Effects`, rebuilt from the C sources on every run). -/
namespace Props.Census
open Gen.Effects

def calleesOf (i : Nat) : List Nat := calls.getD i []

/-- every function (or external callee) reachable from the frontier by direct calls; `fuel` ≥ number of edges visited -/
def reach : Nat → List Nat → List Nat → List Nat
  | 0, _, seen => seen
  | _+1, [], seen => seen
  | f+1, x :: rest, seen => if seen.contains x then reach f rest seen else reach f (calleesOf x ++ rest) (x :: seen)

def fuel : Nat := 20000

def idOf (n : String) : Nat := names.idxOf n
def nameOf (i : Nat) : String := names.getD i "?"

def hooks : List Nat := [idOf "_cbor_malloc", idOf "_cbor_realloc", idOf "_cbor_free"]
def indirect : Nat := idOf "(indirect)"

/-- the closure was computed completely: fuel did not run out (the frontier emptied) — checked by running
with twice the fuel and getting the same set -/
def stable (roots : List Nat) : Bool := (reach fuel roots []).length == (reach (2 * fuel) roots []).length

end Props.Census

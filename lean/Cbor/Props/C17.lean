import Cbor.Props.Census
/-!
# C17 — the library keeps no hidden mutable global state

Over the **generated** effect census `Gen.Effects` (file-scope variables, static locals and every assignment
whose target is one of them, from clang's AST on every run):

* the only file-scope variables that are not `const` are the three allocator hooks and the debug-build
  assertion switch;
* the only function that assigns any of them is `cbor_set_allocs` (called once before threads start, by the
  property's premise); the assertion switch is never assigned by the library;
* the only static local is the callback table inside `cbor_load`, and no function assigns it.

Hence every other store the library performs goes to memory reached from its arguments or obtained from the
allocator: threads working on disjoint items share no written location.  The absence of data races on actual
schedules is observed under ThreadSanitizer; see DESIGN.md.
-/
namespace Props.C17
open Gen.Effects Props.Census

theorem C17_mutable_globals :
    (globals.filter fun g => !g.2.2).map (·.1) = ["_cbor_enable_assert", "_cbor_free", "_cbor_malloc", "_cbor_realloc"] := by
  decide +kernel

theorem C17_global_writers :
    globalWrites = [("cbor_set_allocs", "_cbor_free"), ("cbor_set_allocs", "_cbor_malloc"), ("cbor_set_allocs", "_cbor_realloc")] := by
  decide +kernel

theorem C17_static_locals : staticLocals = [("cbor_load", "callbacks")] := by decide +kernel

/-- the functions a worker thread runs (everything except installing the allocator) assign no global at all -/
theorem C17_workers_write_no_global :
    (globalWrites.filter fun w => w.1 != "cbor_set_allocs") = [] := by decide +kernel

end Props.C17

import Cbor.Props.Census
import Cbor.Lemmas.Threads
/-!
# C17 — the library keeps no hidden mutable global state

Over the **generated** effect census `Gen.Effects` (file-scope variables, static locals and every assignment
whose target is one of them, from clang's AST on every run):

* the only file-scope variables that are not `const` are the three allocator hooks and the debug-build
  assertion switch;
* the only function that assigns any of them is `cbor_set_allocs` (called once before threads start, by the
  property's premise); the assertion switch is never assigned by the library;
* the only static local is the callback table inside `cbor_load`, and no function assigns it.

Hence every other store the library performs goes to memory reached from its arguments or obtained from the
allocator: threads working on disjoint items share no written location.  On the model side this is the theorem
`C17_any_schedule` (`Threads.interleaving_eq_solo`): in a world of threads that share no item — which, by the census, is a
family of independent client states — **every** interleaving of their API calls gives each thread the final state and
the sequence of results of its solo run, and a step of one thread leaves every other thread's state untouched.  The
absence of data races of the compiled code on actual schedules is observed under ThreadSanitizer; see DESIGN.md.
-/
namespace Props.C17
open Gen.Effects Props.Census

theorem C17_mutable_globals :
    (globals.filter fun g => !g.2.2).map (·.1) = ["_cbor_enable_assert", "_cbor_free", "_cbor_malloc", "_cbor_realloc"] := by
  decide +kernel

theorem C17_global_writers :
    globalWrites = [("cbor_set_allocs", "_cbor_free"), ("cbor_set_allocs", "_cbor_malloc"), ("cbor_set_allocs", "_cbor_realloc")] := by
  decide +kernel

theorem C17_static_locals : staticLocals = [("cbor_load", "callbacks")] := by decide +kernel

/-- the functions a worker thread runs (everything except installing the allocator) assign no global at all -/
theorem C17_workers_write_no_global :
    (globalWrites.filter fun w => w.1 != "cbor_set_allocs") = [] := by decide +kernel

/-- C-library functions that keep no hidden state of their own (MT-Safe in POSIX terms: no static buffer, no global cursor, no
locale / environment mutation; the stdio functions lock the caller's `FILE`) plus compiler builtins for float constants / predicates, the
allocator hooks, the assertion hook of the verification build, and calls through a client-supplied callback pointer -/
def reentrant : List String :=
  ["(indirect)", "__verif_assert", "_cbor_free", "_cbor_malloc", "_cbor_realloc",
   "__builtin_inff", "__builtin_inf", "__builtin_isnan", "__builtin_nanf", "__builtin_nan", "__builtin_huge_valf", "__builtin_huge_val", "__builtin_expect", "__builtin_unreachable",
   "memcpy", "memmove", "memset", "memcmp", "memchr", "strlen", "strnlen", "strcmp", "strncmp",
   "ldexp", "ldexpf", "frexp", "frexpf", "fabs", "fabsf", "isnan", "isinf", "abs", "labs",
   "fprintf", "fwrite", "fputs", "fputc", "snprintf", "abort"]

/-- **No hidden state behind the library's back either**: every function the library calls that it does not define itself is on the
list above — in particular nothing like `strtok`, `rand`, `localeconv`, `setlocale`, `getenv`/`setenv`, `asctime`, `gmtime`, `strerror`,
which keep process-wide state -/
theorem C17_only_reentrant_externals : (names.drop nDefined).all (fun n => reentrant.contains n) = true := by decide +kernel

/-- **Every schedule.**  Threads that share no item: under every interleaving of their API calls (decode, build, copy,
container operations, release — the whole history language of the heap model), each thread ends in the state and
obtains the results of running its own calls alone. -/
theorem C17_any_schedule (ω : Nat → Heap.Oracle) (L : Nat) (i : Nat) (sched : List Threads.Ev) (w : Threads.World) :
    (Threads.runW ω L w sched).1.st i = (Threads.solo (ω i) L (w.st i) (Threads.mine i sched)).1 ∧
    Threads.results i (Threads.runW ω L w sched).2 = (Threads.solo (ω i) L (w.st i) (Threads.mine i sched)).2 :=
  Threads.interleaving_eq_solo ω L i sched w

/-- a step of one thread writes no location of any other thread's state -/
theorem C17_disjoint_writes (ω : Nat → Heap.Oracle) (L : Nat) (w : Threads.World) (e : Threads.Ev) (i : Nat) (h : i ≠ e.1) :
    (Threads.stepW ω L w e).1.st i = w.st i :=
  Threads.stepW_other ω L w e i h

end Props.C17

import Cbor.Lemmas.HalfAll
import Cbor.Lemmas.Loaders
import Cbor.Lemmas.Stream
import Cbor.Lemmas.Tactics
/-!
# C15 — floating-point values keep their exact bits through decode and encode

Floats are IEEE 754 bit patterns.  Decoding of singles/doubles and all encoders are **generated**
(`Gen._cbor_load_float/_double`, `Gen.cbor_encode_half/single/double`); `_cbor_decode_half` is hand-modelled
(`Ext.decodeHalfBits`, compared with the compiled function on all 65 536 inputs on every run).
`Spec.Float.*Value` is the exact value a pattern denotes.
-/
set_option linter.unusedSimpArgs false
namespace Props.C15
open Gen Lemmas

/-- **Half, decode**: for every one of the 65 536 binary16 patterns the decoded `float` denotes exactly the
value the pattern denotes (±0, subnormals, normals, ±∞ exactly; NaN ↦ NaN). -/
theorem C15_half_value (h : Nat) (hh : h < 65536) :
    Spec.Float.singleValue (Ext.decodeHalfBits h).toNat = Spec.Float.halfValue h := by
  have := halfCheck_all h hh
  unfold halfCheck at this
  rw [strict_eq] at this
  simp only [Bool.and_eq_true] at this
  exact eq_of_beq this.1.2

/-- **Half, round trip**: encoding the decoded value reproduces the original two bytes after `0xF9`
(any NaN becomes the canonical quiet NaN `7E 00`), for every pattern, every buffer, every size. -/
theorem C15_half_roundtrip (h : Nat) (hh : h < 65536) (buf : Array UInt8) (off : Nat) (n : UInt64) :
    cbor_encode_half (Ext.decodeHalfBits h) buf off n =
      encRes buf off n (Spec.headBytes 7 25 (Spec.Float.canonHalf h)) := by
  have := halfCheck_all h hh
  unfold halfCheck at this
  rw [strict_eq] at this
  simp only [Bool.and_eq_true, beq_iff_eq] at this
  have h2 := this.2
  rw [strict_eq] at h2
  have e : UInt32.ofNat (Ext.decodeHalfBits h).toNat = Ext.decodeHalfBits h := by simp
  rw [e] at h2
  simp only [beq_iff_eq] at h2
  rw [pub_half, h2]

theorem exp_field (v : UInt32) :
    (((v &&& (2139095040 : UInt32)) >>> (23 : UInt32)).toUInt8).toNat = ((v >>> (23 : UInt32)) &&& (255 : UInt32)).toNat := by
  simp only [UInt32.toNat_toUInt8, UInt32.toNat_shiftRight, UInt32.toNat_and, Nat.shiftRight_and_distrib]
  have : (2139095040 : UInt32).toNat >>> ((23 : UInt32).toNat % 32) = 255 := by decide
  rw [this]
  have : (255 : UInt32).toNat = 255 := by decide
  rw [this]
  exact Nat.mod_eq_of_lt (Nat.lt_of_le_of_lt Nat.and_le_right (by omega))

theorem wrapS8_id (x : Int) (h : -128 ≤ x ∧ x < 128) : C.wrapS 8 x = x := by
  unfold C.wrapS; omega

/-- side conditions of `cbor_encode_half` hold for **every** float: every shift amount is in range, the
`int8_t` narrowing and every `int` operation are in range, both assertions hold, every store is in bounds -/
theorem half_ok (v : UInt32) (buf : Array UInt8) (off : Nat) (n : UInt64) (h : off + n.toNat ≤ buf.size) :
    cbor_encode_half.ok v buf off n = true := by
  -- Shape-independent: the exponent field, in either spelling (`(val & 0x7F800000) >> 23` or `(val >> 23) & 0xFF`), is read as
  -- the natural number `e < 256`; every `if` is split; each branch is closed by whichever of the two arguments applies
  -- (`first`), using only facts about `e` obtained with `omega` from the branch conditions — no branch order, no hoisting
  -- or naming of sub-expressions is assumed.
  have hE1 := exp_field v
  have helt : ((v >>> (23 : UInt32)) &&& (255 : UInt32)).toNat < 256 := by
    rw [UInt32.toNat_and]
    exact Nat.lt_of_le_of_lt Nat.and_le_right (by decide)
  have hE2 : (((v >>> (23 : UInt32)) &&& (255 : UInt32)).toUInt8).toNat = ((v >>> (23 : UInt32)) &&& (255 : UInt32)).toNat := by
    rw [UInt32.toNat_toUInt8]; exact Nat.mod_eq_of_lt helt
  generalize hed : ((v >>> (23 : UInt32)) &&& (255 : UInt32)).toNat = e at hE1 hE2 helt
  unfold cbor_encode_half.ok
  simp only []
  try simp only [hE1, hE2]
  repeat' split
  all_goals (try simp only [enc16_ok _ _ _ _ _ h, Bool.and_true])
  all_goals (try rfl)
  all_goals cnorm
  all_goals first
    | (-- exponent field all ones and not a NaN: the assertion `mant == 0`
       have hx : ((v >>> (23 : UInt32)) &&& (255 : UInt32)) = 255 :=
         UInt32.toNat_inj.mp (by rw [hed]; simp; omega)
       have hN : C.isNaN32 v = false := by assumption
       simp [C.isNaN32, hx] at hN
       simp [hN]
       done)
    | (-- normal numbers: `exp - 127` fits `int8_t`, so the narrowing is the identity; the rest is linear arithmetic
       have hw := wrapS8_id ((e : Int) - 127) (by omega)
       simp only [hw] at *
       simp [C.fitsS, C.toU32, UInt32.toNat_add] at *
       omega)

/-- **Encoding to half precision is total**: any `float` produces exactly three bytes (given room for them)
and no operation on the way is undefined. -/
theorem C15_half_total (v : UInt32) (buf : Array UInt8) (off : Nat) (n : UInt64) (h : off + n.toNat ≤ buf.size) :
    cbor_encode_half.ok v buf off n = true ∧ (3 ≤ n.toNat → (cbor_encode_half v buf off n).1 = 3) := by
  refine ⟨half_ok v buf off n h, ?_⟩
  intro hn
  rw [pub_half, encRes]
  simp [Spec.headBytes, Spec.beBytes, Spec.argBytes, hn]

theorem isNaN32_spec (b : UInt32) : C.isNaN32 b = Spec.Float.isNaN 8 23 b.toNat := by
  unfold C.isNaN32 Spec.Float.isNaN
  have e1 : (((b >>> (23 : UInt32)) &&& (255 : UInt32)) == (255 : UInt32)) = decide (b.toNat / 2 ^ 23 % 2 ^ 8 = 2 ^ 8 - 1) := by
    have : ((b >>> (23 : UInt32)) &&& (255 : UInt32)).toNat = b.toNat / 2 ^ 23 % 2 ^ 8 := by
      simp only [UInt32.toNat_and, UInt32.toNat_shiftRight]
      have h255 : (255 : UInt32).toNat = 2 ^ 8 - 1 := by decide
      have h23 : (23 : UInt32).toNat % 32 = 23 := by decide
      rw [h255, h23, Nat.and_two_pow_sub_one_eq_mod, Nat.shiftRight_eq_div_pow]
    by_cases hc : b.toNat / 2 ^ 23 % 2 ^ 8 = 2 ^ 8 - 1
    · have : ((b >>> (23 : UInt32)) &&& (255 : UInt32)) = 255 := UInt32.toNat_inj.mp (by rw [this, hc]; rfl)
      simp [this, hc]
    · have : ((b >>> (23 : UInt32)) &&& (255 : UInt32)) ≠ 255 := fun h => hc (by rw [← this, h]; rfl)
      simp [this, hc]
  have e2 : ((b &&& (8388607 : UInt32)) != (0 : UInt32)) = decide (b.toNat % 2 ^ 23 ≠ 0) := by
    have : (b &&& (8388607 : UInt32)).toNat = b.toNat % 2 ^ 23 := by
      simp only [UInt32.toNat_and]
      have h : (8388607 : UInt32).toNat = 2 ^ 23 - 1 := by decide
      rw [h, Nat.and_two_pow_sub_one_eq_mod]
    by_cases hc : b.toNat % 2 ^ 23 = 0
    · have : (b &&& (8388607 : UInt32)) = 0 := UInt32.toNat_inj.mp (by rw [this, hc]; rfl)
      simp [this, hc]
    · have : (b &&& (8388607 : UInt32)) ≠ 0 := fun h => hc (by rw [← this, h]; rfl)
      simp [this, hc]
  rw [e1, e2]
  simp [Bool.decide_and]

theorem isNaN64_spec (b : UInt64) : C.isNaN64 b = Spec.Float.isNaN 11 52 b.toNat := by
  unfold C.isNaN64 Spec.Float.isNaN
  have e1 : (((b >>> (52 : UInt64)) &&& (2047 : UInt64)) == (2047 : UInt64)) = decide (b.toNat / 2 ^ 52 % 2 ^ 11 = 2 ^ 11 - 1) := by
    have : ((b >>> (52 : UInt64)) &&& (2047 : UInt64)).toNat = b.toNat / 2 ^ 52 % 2 ^ 11 := by
      simp only [UInt64.toNat_and, UInt64.toNat_shiftRight]
      have h255 : (2047 : UInt64).toNat = 2 ^ 11 - 1 := by decide
      have h23 : (52 : UInt64).toNat % 64 = 52 := by decide
      rw [h255, h23, Nat.and_two_pow_sub_one_eq_mod, Nat.shiftRight_eq_div_pow]
    by_cases hc : b.toNat / 2 ^ 52 % 2 ^ 11 = 2 ^ 11 - 1
    · have : ((b >>> (52 : UInt64)) &&& (2047 : UInt64)) = 2047 := UInt64.toNat_inj.mp (by rw [this, hc]; rfl)
      simp [this, hc]
    · have : ((b >>> (52 : UInt64)) &&& (2047 : UInt64)) ≠ 2047 := fun h => hc (by rw [← this, h]; rfl)
      simp [this, hc]
  have e2 : ((b &&& (4503599627370495 : UInt64)) != (0 : UInt64)) = decide (b.toNat % 2 ^ 52 ≠ 0) := by
    have : (b &&& (4503599627370495 : UInt64)).toNat = b.toNat % 2 ^ 52 := by
      simp only [UInt64.toNat_and]
      have h : (4503599627370495 : UInt64).toNat = 2 ^ 52 - 1 := by decide
      rw [h, Nat.and_two_pow_sub_one_eq_mod]
    by_cases hc : b.toNat % 2 ^ 52 = 0
    · have : (b &&& (4503599627370495 : UInt64)) = 0 := UInt64.toNat_inj.mp (by rw [this, hc]; rfl)
      simp [this, hc]
    · have : (b &&& (4503599627370495 : UInt64)) ≠ 0 := fun h => hc (by rw [← this, h]; rfl)
      simp [this, hc]
  rw [e1, e2]
  simp [Bool.decide_and]

/-- **Single, round trip**: the decoded `float` *is* the four payload bytes (big-endian) — so it denotes
`Spec.Float.singleValue` of them by definition — and encoding it reproduces those bytes, any NaN becoming
the canonical quiet NaN `7F C0 00 00`. -/
theorem C15_single (src : Array UInt8) (o : Nat) (buf : Array UInt8) (off : Nat) (n : UInt64) :
    (_cbor_load_float src o).toNat = Spec.beNat (Spec.getA src o) 0 4 ∧
    cbor_encode_single (_cbor_load_float src o) buf off n =
      encRes buf off n (Spec.headBytes 7 26 (Spec.Float.canonSingle (_cbor_load_float src o).toNat)) := by
  constructor
  · simp [_cbor_load_float, load32_toNat, Spec.beNat, Spec.getA, Nat.add_assoc]
  · rw [pub_single]
    congr 2
    unfold canon32 Spec.Float.canonSingle
    rw [isNaN32_spec]
    split <;> rfl

/-- **Double, round trip** (canonical quiet NaN `7F F8 00 00 00 00 00 00`). -/
theorem C15_double (src : Array UInt8) (o : Nat) (buf : Array UInt8) (off : Nat) (n : UInt64) :
    (_cbor_load_double src o).toNat = Spec.beNat (Spec.getA src o) 0 8 ∧
    cbor_encode_double (_cbor_load_double src o) buf off n =
      encRes buf off n (Spec.headBytes 7 27 (Spec.Float.canonDouble (_cbor_load_double src o).toNat)) := by
  constructor
  · simp [_cbor_load_double, load64_toNat, Spec.beNat, Spec.getA, Nat.add_assoc]
  · rw [pub_double]
    congr 2
    unfold canon64 Spec.Float.canonDouble
    rw [isNaN64_spec]
    split <;> rfl

-- non-vacuity
example : Spec.Float.halfValue 0x3C00 = .fin false 1 0 := by decide                    -- 1.0
example : Spec.Float.halfValue 0x0001 = .fin false 1 (-24) := by decide                 -- smallest subnormal
example : Spec.Float.halfValue 0xFBFF = .fin true 2047 5 := by decide                   -- -65504
example : Spec.Float.singleValue 0x3F800000 = .fin false 1 0 := by decide
example : Ext.decodeHalfBits 0x0001 = 0x33800000 := by decide
example : Spec.Float.canonHalf 0xFE01 = 0x7E00 := by decide
example : (cbor_encode_half 0x33000000 (Array.replicate 3 0) 0 3) = (3, #[0xF9, 0x00, 0x00]) := by decide +kernel  -- 2^-25 rounds to zero

end Props.C15

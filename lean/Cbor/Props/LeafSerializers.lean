import Cbor.Gen.Serializers
import Cbor.Props.Accessors
import Cbor.Props.FloatAccessors
import Cbor.Props.C03
import Cbor.Props.C20
/-!
# Leaf serializers — the hand-written `Model.serialize` / `Model.size` agree with the **generated** code on every leaf

`Gen.cbor_serialize_uint`, `…_negint`, `…_float_ctrl`, `…_bytestring`, `…_string` and `Gen.cbor_serialized_size` are regenerated from
`src/cbor/serialization.c` on every run (extract/c2lean.py, `SER_JOBS`; the two string serializers under the stated assumption that the
item is definite, `cbor_serialized_size` under the assumption that the type is not ARRAY / MAP / TAG and that a string is definite — each
assumption is a conjunct of the generated `.ok`).  They work on the flat record `Gen.ItemRec`; the hand model works on `Spec.Item`.

1. `Rep x r`: the record `r` represents the leaf `x` (type tag, width tag / definite flag, payload bytes);
2. agreement: `Gen.cbor_serialize_* r buf off n = Model.serialize x buf off n` and the generated side condition holds;
3. the same for `Gen.cbor_serialized_size` / `Model.size`;
4. corollaries in the vocabulary of C03 / C07 (exact bytes, `0` and frame when the buffer is too small);
5. the generated serializers return no record (read-only by type).

No proof mentions the shape of a generated term: unfold, rewrite the tags that `Rep` fixes, split every `if`, close the branches whose path
condition contradicts the tags (`dead`), compare what is left.
-/
set_option linter.unusedSimpArgs false
set_option linter.unusedVariables false
namespace Props.LeafSerializers
open Gen Lemmas Lemmas.Ser Spec Props.Accessors Props.FloatAccessors

/-! ## 1. representation -/

/-- width tag of `cbor_int_width` -/
def wtag : Width → UInt32 | .w8 => 0 | .w16 => 1 | .w32 => 2 | .w64 => 3

/-- `r` represents the leaf item `x`: type tag; width tag (integers, floats) resp. definite flag (strings); the value as the little-endian
number in the first bytes of `data` (`leVal`: integers, and the IEEE-754 bit pattern of floats — a half is *stored* as binary32), the `ctrl`
field (simple values), resp. `length` and the first `length` bytes of `data` (strings; `data` may be longer).  No other `Item` is a leaf. -/
def Rep : Item → ItemRec → Prop
  | .uint w v, r => r.type = 0 ∧ r.int_width = wtag w ∧ w.bytes ≤ r.data.size ∧ leVal r w.bytes = v
  | .negint w v, r => r.type = 1 ∧ r.int_width = wtag w ∧ w.bytes ≤ r.data.size ∧ leVal r w.bytes = v
  | .simple v, r => r.type = 7 ∧ r.float_width = 0 ∧ r.ctrl.toNat = v
  | .half f, r => r.type = 7 ∧ r.float_width = 1 ∧ 4 ≤ r.data.size ∧ leVal r 4 = f
  | .single b, r => r.type = 7 ∧ r.float_width = 2 ∧ 4 ≤ r.data.size ∧ leVal r 4 = b
  | .double b, r => r.type = 7 ∧ r.float_width = 3 ∧ 8 ≤ r.data.size ∧ leVal r 8 = b
  | .bytes b, r => r.type = 2 ∧ r.bs_type = 0 ∧ r.bs_length.toNat = b.length ∧ r.data.toList.take b.length = b
  | .text b, r => r.type = 3 ∧ r.str_type = 0 ∧ r.str_length.toNat = b.length ∧ r.data.toList.take b.length = b
  | _, _ => False

/-- the items `Rep` speaks about, with the ranges a `cbor_item_t` can hold -/
def Leaf : Item → Prop
  | .uint w v => v < 2 ^ (8 * w.bytes)
  | .negint w v => v < 2 ^ (8 * w.bytes)
  | .simple v => v < 256
  | .half f => f < 2 ^ 32
  | .single b => b < 2 ^ 32
  | .double b => b < 2 ^ 64
  | .bytes b => b.length < 2 ^ 64
  | .text b => b.length < 2 ^ 64
  | _ => False

/-- the `n` low-order bytes of `v`, least significant first -/
def leBytes : Nat → Nat → List UInt8
  | 0, _ => []
  | n+1, v => UInt8.ofNat v :: leBytes n (v / 256)

/-- a record with every field zero except the ones given -/
def mk (type : UInt32) (data : Array UInt8) : ItemRec :=
  { (default : ItemRec) with type := type, refcount := 1, data := data }

/-- the record the constructors of libcbor build for a leaf (payload exactly as long as needed) -/
def recOf : Item → ItemRec
  | .uint w v => { mk 0 (leBytes w.bytes v).toArray with int_width := wtag w }
  | .negint w v => { mk 1 (leBytes w.bytes v).toArray with int_width := wtag w }
  | .simple v => { mk 7 #[] with float_width := 0, ctrl := UInt8.ofNat v }
  | .half f => { mk 7 (leBytes 4 f).toArray with float_width := 1 }
  | .single b => { mk 7 (leBytes 4 b).toArray with float_width := 2 }
  | .double b => { mk 7 (leBytes 8 b).toArray with float_width := 3 }
  | .bytes b => { mk 2 b.toArray with bs_type := 0, bs_length := UInt64.ofNat b.length }
  | .text b => { mk 3 b.toArray with str_type := 0, str_length := UInt64.ofNat b.length }
  | _ => default

theorem leBytes_length (n v : Nat) : (leBytes n v).length = n := by
  induction n generalizing v with
  | zero => rfl
  | succ n ih => simp [leBytes, ih]

theorem leNat_leBytes (n v : Nat) (h : v < 256 ^ n) : C.leNat (leBytes n v).toArray 0 n = v := by
  suffices ∀ (n v : Nat) (pre : List UInt8), v < 256 ^ n → C.leNat (pre ++ leBytes n v).toArray pre.length n = v from by
    simpa using this n v [] h
  intro n
  induction n with
  | zero => intro v pre h; simp at h; simp [C.leNat, h]
  | succ n ih =>
    intro v pre h
    have h' : v / 256 < 256 ^ n := by rw [Nat.pow_succ] at h; omega
    have := ih (v / 256) (pre ++ [UInt8.ofNat v]) h'
    simp only [List.append_assoc, List.singleton_append, List.length_append, List.length_singleton] at this
    simp only [C.leNat, leBytes, this]
    simp [Array.getD_eq_getD_getElem?]
    omega

theorem leVal_leBytes1 (v : Nat) (h : v < 256) : leVal { (default : ItemRec) with data := (leBytes 1 v).toArray } 1 = v := by
  rw [← leNat_eq_leVal1]; exact leNat_leBytes 1 v (by omega)
theorem leVal_leBytes2 (v : Nat) (h : v < 65536) : leVal { (default : ItemRec) with data := (leBytes 2 v).toArray } 2 = v := by
  rw [← leNat_eq_leVal2]; exact leNat_leBytes 2 v (by omega)
theorem leVal_leBytes4 (v : Nat) (h : v < 4294967296) : leVal { (default : ItemRec) with data := (leBytes 4 v).toArray } 4 = v := by
  rw [← leNat_eq_leVal4]; exact leNat_leBytes 4 v (by omega)
theorem leVal_leBytes8 (v : Nat) (h : v < 18446744073709551616) : leVal { (default : ItemRec) with data := (leBytes 8 v).toArray } 8 = v := by
  rw [← leNat_eq_leVal8]; exact leNat_leBytes 8 v (by omega)

/-- `leVal` only looks at `data` -/
theorem leVal_congr (r s : ItemRec) (n : Nat) (h : r.data = s.data) : leVal r n = leVal s n := by
  unfold leVal; rw [h]

/-- **`Rep` is inhabited for every leaf**: the record the constructors build represents it -/
theorem rep_exists (x : Item) (h : Leaf x) : ∃ r, Rep x r := by
  refine ⟨recOf x, ?_⟩
  cases x with
  | uint w v =>
    cases w <;> simp only [Leaf, Width.bytes, Nat.reduceMul, Nat.reducePow] at h <;>
      refine ⟨rfl, rfl, by simp [recOf, mk, leBytes_length, Width.bytes], ?_⟩
    · exact (leVal_congr _ _ _ rfl).trans (leVal_leBytes1 v h)
    · exact (leVal_congr _ _ _ rfl).trans (leVal_leBytes2 v h)
    · exact (leVal_congr _ _ _ rfl).trans (leVal_leBytes4 v h)
    · exact (leVal_congr _ _ _ rfl).trans (leVal_leBytes8 v h)
  | negint w v =>
    cases w <;> simp only [Leaf, Width.bytes, Nat.reduceMul, Nat.reducePow] at h <;>
      refine ⟨rfl, rfl, by simp [recOf, mk, leBytes_length, Width.bytes], ?_⟩
    · exact (leVal_congr _ _ _ rfl).trans (leVal_leBytes1 v h)
    · exact (leVal_congr _ _ _ rfl).trans (leVal_leBytes2 v h)
    · exact (leVal_congr _ _ _ rfl).trans (leVal_leBytes4 v h)
    · exact (leVal_congr _ _ _ rfl).trans (leVal_leBytes8 v h)
  | simple v =>
    simp only [Leaf] at h
    exact ⟨rfl, rfl, by simp [recOf, mk]; omega⟩
  | half f =>
    simp only [Leaf, Nat.reducePow] at h
    exact ⟨rfl, rfl, by simp [recOf, mk, leBytes_length], (leVal_congr _ _ _ rfl).trans (leVal_leBytes4 f h)⟩
  | single f =>
    simp only [Leaf, Nat.reducePow] at h
    exact ⟨rfl, rfl, by simp [recOf, mk, leBytes_length], (leVal_congr _ _ _ rfl).trans (leVal_leBytes4 f h)⟩
  | double f =>
    simp only [Leaf, Nat.reducePow] at h
    exact ⟨rfl, rfl, by simp [recOf, mk, leBytes_length], (leVal_congr _ _ _ rfl).trans (leVal_leBytes8 f h)⟩
  | bytes b =>
    simp only [Leaf] at h
    exact ⟨rfl, rfl, by simp [recOf, mk]; omega, by simp [recOf, mk]⟩
  | text b =>
    simp only [Leaf] at h
    exact ⟨rfl, rfl, by simp [recOf, mk]; omega, by simp [recOf, mk]⟩
  | _ => simp [Leaf] at h

/-- a represented item is within the ranges of `Leaf` -/
theorem rep_leaf (x : Item) (r : ItemRec) (h : Rep x r) : Leaf x := by
  cases x with
  | uint w v =>
    obtain ⟨_, _, _, hv⟩ := h
    cases w <;> simp only [Leaf, Width.bytes, Nat.reduceMul, Nat.reducePow] at hv ⊢ <;> subst hv
    · rw [← leNat_eq_leVal1]; exact leNat_lt _ _ _
    · rw [← leNat_eq_leVal2]; exact leNat_lt _ _ _
    · rw [← leNat_eq_leVal4]; exact leNat_lt _ _ _
    · rw [← leNat_eq_leVal8]; exact leNat_lt _ _ _
  | negint w v =>
    obtain ⟨_, _, _, hv⟩ := h
    cases w <;> simp only [Leaf, Width.bytes, Nat.reduceMul, Nat.reducePow] at hv ⊢ <;> subst hv
    · rw [← leNat_eq_leVal1]; exact leNat_lt _ _ _
    · rw [← leNat_eq_leVal2]; exact leNat_lt _ _ _
    · rw [← leNat_eq_leVal4]; exact leNat_lt _ _ _
    · rw [← leNat_eq_leVal8]; exact leNat_lt _ _ _
  | simple v => obtain ⟨_, _, hv⟩ := h; subst hv; exact r.ctrl.toNat_lt
  | half f => obtain ⟨_, _, _, hv⟩ := h; subst hv; simp only [Leaf]; rw [← leNat_eq_leVal4]; exact leNat_lt _ _ _
  | single f => obtain ⟨_, _, _, hv⟩ := h; subst hv; simp only [Leaf]; rw [← leNat_eq_leVal4]; exact leNat_lt _ _ _
  | double f => obtain ⟨_, _, _, hv⟩ := h; subst hv; simp only [Leaf]; rw [← leNat_eq_leVal8]; exact leNat_lt _ _ _
  | bytes b => obtain ⟨_, _, hl, _⟩ := h; simp only [Leaf]; rw [← hl]; exact r.bs_length.toNat_lt
  | text b => obtain ⟨_, _, hl, _⟩ := h; simp only [Leaf]; rw [← hl]; exact r.str_length.toNat_lt
  | _ => exact h.elim

/-! concrete instances: a record for each kind of leaf -/
example : Rep (.uint .w8 7) { mk 0 #[7] with int_width := 0 } := ⟨rfl, rfl, by decide, by decide⟩
example : Rep (.uint .w16 0x1234) { mk 0 #[0x34, 0x12] with int_width := 1 } := ⟨rfl, rfl, by decide, by decide⟩
example : Rep (.negint .w32 0xDEADBEEF) { mk 1 #[0xEF, 0xBE, 0xAD, 0xDE] with int_width := 2 } := ⟨rfl, rfl, by decide, by decide⟩
example : Rep (.uint .w64 (2 ^ 64 - 1)) { mk 0 #[255, 255, 255, 255, 255, 255, 255, 255] with int_width := 3 } :=
  ⟨rfl, rfl, by decide, by decide⟩
example : Rep (.simple 21) { mk 7 #[] with float_width := 0, ctrl := 21 } := ⟨rfl, rfl, rfl⟩
example : Rep (.half 0x3FC00000) { mk 7 #[0, 0, 0xC0, 0x3F] with float_width := 1 } := ⟨rfl, rfl, by decide, by decide⟩
example : Rep (.single 0x7FC00001) { mk 7 #[1, 0, 0xC0, 0x7F] with float_width := 2 } := ⟨rfl, rfl, by decide, by decide⟩
example : Rep (.double 0x3FF0000000000000) { mk 7 #[0, 0, 0, 0, 0, 0, 0xF0, 0x3F] with float_width := 3 } := ⟨rfl, rfl, by decide, by decide⟩
example : Rep (.bytes [1, 2, 3]) { mk 2 #[1, 2, 3, 9, 9] with bs_type := 0, bs_length := 3 } := ⟨rfl, rfl, by decide, by decide⟩
example : Rep (.text []) { mk 3 #[] with str_type := 0, str_length := 0 } := ⟨rfl, rfl, by decide, by decide⟩

/-! ## proof kit -/

theorem u8_eq (a : UInt8) (v : Nat) (h : a.toNat = v) : a = UInt8.ofNat v := by subst h; simp
theorem u16_eq (a : UInt16) (v : Nat) (h : a.toNat = v) : a = UInt16.ofNat v := by subst h; simp
theorem u32_eq (a : UInt32) (v : Nat) (h : a.toNat = v) : a = UInt32.ofNat v := by subst h; simp
theorem u64_eq (a : UInt64) (v : Nat) (h : a.toNat = v) : a = UInt64.ofNat v := by subst h; simp

/-- split every `if` of the (already unfolded) generated term -/
macro "ser_cases" : tactic => `(tactic| (
  (try dsimp only [])
  repeat' split))

/-- close a branch whose path condition contradicts the known tags -/
macro "dead" : tactic => `(tactic| (
  exfalso
  cnorm
  (try simp only [not_true_eq_false, not_false_eq_true] at *)
  (try omega)))

/-- the same, failing when the branch is not contradictory (for use inside `first`) -/
macro "dead!" : tactic => `(tactic| (
  exfalso
  cnorm
  (try simp only [not_true_eq_false, not_false_eq_true] at *)
  first | done | omega))

/-- `memcpy` of the translator = the list copy of the hand model -/
theorem copyBytes_eq (dst : Array UInt8) (doff : Nat) (src : Array UInt8) (soff n : Nat) (h : soff + n ≤ src.size) :
    C.copyBytes dst doff src soff n = Model.copyInto dst doff ((src.toList.drop soff).take n) := by
  induction n generalizing dst doff soff with
  | zero => simp [C.copyBytes, Model.copyInto]
  | succ n ih =>
    have hs : soff < src.size := by omega
    have hd : src.toList.drop soff = src[soff] :: src.toList.drop (soff + 1) := by
      rw [List.drop_eq_getElem_cons (by simpa using hs)]; simp
    simp only [C.copyBytes, hd, List.take_succ_cons, Model.copyInto]
    rw [ih _ _ _ (by omega)]
    simp [Array.getD_eq_getD_getElem?, hs]

theorem copyBytes_size (dst : Array UInt8) (doff : Nat) (src : Array UInt8) (soff n : Nat) :
    (C.copyBytes dst doff src soff n).size = dst.size := by
  induction n generalizing dst doff soff with
  | zero => rfl
  | succ n ih => simp [C.copyBytes, ih]

theorem encRes_size (buf : Array UInt8) (off : Nat) (n : UInt64) (bs : List UInt8) : (encRes buf off n bs).2.size = buf.size := by
  unfold encRes; split <;> simp [writeList_size]

theorem encRes_le (buf : Array UInt8) (off : Nat) (n : UInt64) (bs : List UInt8) : (encRes buf off n bs).1.toNat ≤ n.toNat := by
  unfold encRes; split
  · simp only [UInt64.toNat_ofNat']; exact Nat.le_trans (Nat.mod_le _ _) (by assumption)
  · simp

/-! ## 2. agreement of the value: generated serializer = hand model -/

theorem serialize_uint_eq (w : Width) (v : Nat) (r : ItemRec) (h : Rep (.uint w v) r) (buf : Array UInt8) (off : Nat) (n : UInt64) :
    cbor_serialize_uint r buf off n = Model.serialize (.uint w v) buf off n := by
  obtain ⟨ht, hw, hs, hv⟩ := h
  have hw' := int_get_width_eq r
  cases w <;> simp only [wtag, Width.bytes] at hw hs hv <;> rw [hw] at hw'
  · have e := u8_eq _ _ ((get_uint8_val r).trans hv)
    unfold cbor_serialize_uint Model.serialize
    simp only [hw', e]
    ser_cases
    all_goals first | rfl | dead
  · have e := u16_eq _ _ ((get_uint16_val r).trans hv)
    unfold cbor_serialize_uint Model.serialize
    simp only [hw', e]
    ser_cases
    all_goals first | rfl | dead
  · have e := u32_eq _ _ ((get_uint32_val r).trans hv)
    unfold cbor_serialize_uint Model.serialize
    simp only [hw', e]
    ser_cases
    all_goals first | rfl | dead
  · have e := u64_eq _ _ ((get_uint64_val r).trans hv)
    unfold cbor_serialize_uint Model.serialize
    simp only [hw', e]
    ser_cases
    all_goals first | rfl | dead

theorem serialize_negint_eq (w : Width) (v : Nat) (r : ItemRec) (h : Rep (.negint w v) r) (buf : Array UInt8) (off : Nat) (n : UInt64) :
    cbor_serialize_negint r buf off n = Model.serialize (.negint w v) buf off n := by
  obtain ⟨ht, hw, hs, hv⟩ := h
  have hw' := int_get_width_eq r
  cases w <;> simp only [wtag, Width.bytes] at hw hs hv <;> rw [hw] at hw'
  · have e := u8_eq _ _ ((get_uint8_val r).trans hv)
    unfold cbor_serialize_negint Model.serialize
    simp only [hw', e]
    ser_cases
    all_goals first | rfl | dead
  · have e := u16_eq _ _ ((get_uint16_val r).trans hv)
    unfold cbor_serialize_negint Model.serialize
    simp only [hw', e]
    ser_cases
    all_goals first | rfl | dead
  · have e := u32_eq _ _ ((get_uint32_val r).trans hv)
    unfold cbor_serialize_negint Model.serialize
    simp only [hw', e]
    ser_cases
    all_goals first | rfl | dead
  · have e := u64_eq _ _ ((get_uint64_val r).trans hv)
    unfold cbor_serialize_negint Model.serialize
    simp only [hw', e]
    ser_cases
    all_goals first | rfl | dead

theorem serialize_simple_eq (v : Nat) (r : ItemRec) (h : Rep (.simple v) r) (buf : Array UInt8) (off : Nat) (n : UInt64) :
    cbor_serialize_float_ctrl r buf off n = Model.serialize (.simple v) buf off n := by
  obtain ⟨ht, hw, hv⟩ := h
  have hw' := (float_ctrl_fields r).1; rw [hw] at hw'
  have e := u8_eq _ _ (((congrArg UInt8.toNat (float_ctrl_fields r).2.1)).trans hv)
  unfold cbor_serialize_float_ctrl Model.serialize
  simp only [hw', e]
  ser_cases
  all_goals first | rfl | dead

theorem serialize_half_eq (f : Nat) (r : ItemRec) (h : Rep (.half f) r) (buf : Array UInt8) (off : Nat) (n : UInt64) :
    cbor_serialize_float_ctrl r buf off n = Model.serialize (.half f) buf off n := by
  obtain ⟨ht, hw, hs, hv⟩ := h
  have hw' := (float_ctrl_fields r).1; rw [hw] at hw'
  have e := u32_eq _ _ ((get_float2_val r).trans hv)
  unfold cbor_serialize_float_ctrl Model.serialize
  simp only [hw', e]
  ser_cases
  all_goals first | rfl | dead

theorem serialize_single_eq (b : Nat) (r : ItemRec) (h : Rep (.single b) r) (buf : Array UInt8) (off : Nat) (n : UInt64) :
    cbor_serialize_float_ctrl r buf off n = Model.serialize (.single b) buf off n := by
  obtain ⟨ht, hw, hs, hv⟩ := h
  have hw' := (float_ctrl_fields r).1; rw [hw] at hw'
  have e := u32_eq _ _ ((get_float4_val r).trans hv)
  unfold cbor_serialize_float_ctrl Model.serialize
  simp only [hw', e]
  ser_cases
  all_goals first | rfl | dead

theorem serialize_double_eq (b : Nat) (r : ItemRec) (h : Rep (.double b) r) (buf : Array UInt8) (off : Nat) (n : UInt64) :
    cbor_serialize_float_ctrl r buf off n = Model.serialize (.double b) buf off n := by
  obtain ⟨ht, hw, hs, hv⟩ := h
  have hw' := (float_ctrl_fields r).1; rw [hw] at hw'
  have e := u64_eq _ _ ((get_float8_val r).trans hv)
  unfold cbor_serialize_float_ctrl Model.serialize
  simp only [hw', e]
  ser_cases
  all_goals first | rfl | dead

theorem serialize_bytestring_eq (b : List UInt8) (r : ItemRec) (h : Rep (.bytes b) r) (buf : Array UInt8) (off : Nat) (n : UInt64) :
    cbor_serialize_bytestring r buf off n = Model.serialize (.bytes b) buf off n := by
  obtain ⟨ht, hd, hl, hb⟩ := h
  have hlen : cbor_bytestring_length r = UInt64.ofNat b.length := u64_eq _ _ (by rw [(container_fields r).2.2.2.2.2.2.1]; exact hl)
  have hsz : b.length ≤ r.data.size := by
    have := congrArg List.length hb; simp only [List.length_take, Array.length_toList] at this; omega
  have hcopy : ∀ (d : Array UInt8) (o : Nat), C.copyBytes d o r.data 0 b.length = Model.copyInto d o b := by
    intro d o; rw [copyBytes_eq _ _ _ _ _ (by omega)]; simp [hb]
  have hbl : (UInt64.ofNat b.length).toNat = b.length := by rw [← hlen, (container_fields r).2.2.2.2.2.2.1]; exact hl
  unfold cbor_serialize_bytestring Model.serialize Model.serString
  simp only [hlen, hbl, hcopy, Bool.false_eq_true, if_false]
  ser_cases
  all_goals first | rfl | dead! | (rw [UInt64.add_comm]) | (simp only [UInt64.add_comm]; done)

theorem serialize_string_eq (b : List UInt8) (r : ItemRec) (h : Rep (.text b) r) (buf : Array UInt8) (off : Nat) (n : UInt64) :
    cbor_serialize_string r buf off n = Model.serialize (.text b) buf off n := by
  obtain ⟨ht, hd, hl, hb⟩ := h
  have hlen : cbor_string_length r = UInt64.ofNat b.length := u64_eq _ _ (by rw [(container_fields r).2.2.2.2.1]; exact hl)
  have hsz : b.length ≤ r.data.size := by
    have := congrArg List.length hb; simp only [List.length_take, Array.length_toList] at this; omega
  have hcopy : ∀ (d : Array UInt8) (o : Nat), C.copyBytes d o r.data 0 b.length = Model.copyInto d o b := by
    intro d o; rw [copyBytes_eq _ _ _ _ _ (by omega)]; simp [hb]
  have hbl : (UInt64.ofNat b.length).toNat = b.length := by rw [← hlen, (container_fields r).2.2.2.2.1]; exact hl
  unfold cbor_serialize_string Model.serialize Model.serString
  simp only [hlen, hbl, hcopy, if_true]
  ser_cases
  all_goals first | rfl | dead! | (rw [UInt64.add_comm]) | (simp only [UInt64.add_comm]; done)

/-! ## 2b. the generated side conditions hold (assertions, union members, in-bounds reads of the payload, the encoders' stores, both
`memcpy` ranges) — given only the premise the encoders themselves need: the `n` bytes at `off` lie inside the buffer -/

macro "ok_finish" : tactic => `(tactic| first | done | (ser_cases; all_goals (first | rfl | dead)))

theorem serialize_uint_ok (w : Width) (v : Nat) (r : ItemRec) (h : Rep (.uint w v) r) (buf : Array UInt8) (off : Nat) (n : UInt64)
    (hb : off + n.toNat ≤ buf.size) : cbor_serialize_uint.ok r buf off n = true := by
  obtain ⟨ht, hw, hs, hv⟩ := h
  have hw' := int_get_width_eq r
  have p := predicates_total r
  have i := isa_spec r
  have wok := (int_get_width_ok r).mpr (Or.inl ht)
  cases w <;> simp only [wtag, Width.bytes] at hw hs hv <;> rw [hw] at hw'
  · have g := (get_uint8_ok r).mpr ⟨Or.inl ht, hw, hs⟩
    unfold cbor_serialize_uint.ok
    simp only [hw', p, i, ht, g, wok, pub_uint8_ok buf off n hb, beq_self_eq_true, Bool.and_self, Bool.true_and, Bool.and_true]
    ok_finish
  · have g := (get_uint16_ok r).mpr ⟨Or.inl ht, hw, hs⟩
    unfold cbor_serialize_uint.ok
    simp only [hw', p, i, ht, g, wok, pub_uint16_ok buf off n hb, beq_self_eq_true, Bool.and_self, Bool.true_and, Bool.and_true]
    ok_finish
  · have g := (get_uint32_ok r).mpr ⟨Or.inl ht, hw, hs⟩
    unfold cbor_serialize_uint.ok
    simp only [hw', p, i, ht, g, wok, pub_uint32_ok buf off n hb, beq_self_eq_true, Bool.and_self, Bool.true_and, Bool.and_true]
    ok_finish
  · have g := (get_uint64_ok r).mpr ⟨Or.inl ht, hw, hs⟩
    unfold cbor_serialize_uint.ok
    simp only [hw', p, i, ht, g, wok, pub_uint64_ok buf off n hb, beq_self_eq_true, Bool.and_self, Bool.true_and, Bool.and_true]
    ok_finish

theorem serialize_negint_ok (w : Width) (v : Nat) (r : ItemRec) (h : Rep (.negint w v) r) (buf : Array UInt8) (off : Nat) (n : UInt64)
    (hb : off + n.toNat ≤ buf.size) : cbor_serialize_negint.ok r buf off n = true := by
  obtain ⟨ht, hw, hs, hv⟩ := h
  have hw' := int_get_width_eq r
  have p := predicates_total r
  have i := isa_spec r
  have wok := (int_get_width_ok r).mpr (Or.inr ht)
  cases w <;> simp only [wtag, Width.bytes] at hw hs hv <;> rw [hw] at hw'
  · have g := (get_uint8_ok r).mpr ⟨Or.inr ht, hw, hs⟩
    unfold cbor_serialize_negint.ok
    simp only [hw', p, i, ht, g, wok, pub_negint8_ok buf off n hb, beq_self_eq_true, Bool.and_self, Bool.true_and, Bool.and_true]
    ok_finish
  · have g := (get_uint16_ok r).mpr ⟨Or.inr ht, hw, hs⟩
    unfold cbor_serialize_negint.ok
    simp only [hw', p, i, ht, g, wok, pub_negint16_ok buf off n hb, beq_self_eq_true, Bool.and_self, Bool.true_and, Bool.and_true]
    ok_finish
  · have g := (get_uint32_ok r).mpr ⟨Or.inr ht, hw, hs⟩
    unfold cbor_serialize_negint.ok
    simp only [hw', p, i, ht, g, wok, pub_negint32_ok buf off n hb, beq_self_eq_true, Bool.and_self, Bool.true_and, Bool.and_true]
    ok_finish
  · have g := (get_uint64_ok r).mpr ⟨Or.inr ht, hw, hs⟩
    unfold cbor_serialize_negint.ok
    simp only [hw', p, i, ht, g, wok, pub_negint64_ok buf off n hb, beq_self_eq_true, Bool.and_self, Bool.true_and, Bool.and_true]
    ok_finish

theorem serialize_simple_ok (v : Nat) (r : ItemRec) (h : Rep (.simple v) r) (buf : Array UInt8) (off : Nat) (n : UInt64)
    (hb : off + n.toNat ≤ buf.size) : cbor_serialize_float_ctrl.ok r buf off n = true := by
  obtain ⟨ht, hw, hv⟩ := h
  have hw' := (float_ctrl_fields r).1; rw [hw] at hw'
  have p := predicates_total r
  have i := isa_spec r
  have wok := (float_ctrl_ok r).1.mpr ht
  have g := (float_ctrl_ok r).2.2.1.mpr ⟨ht, hw⟩
  unfold cbor_serialize_float_ctrl.ok
  simp only [hw', p, i, ht, g, wok, pub_ctrl_ok buf off n hb, beq_self_eq_true, Bool.and_self, Bool.true_and, Bool.and_true]
  ok_finish

theorem serialize_half_ok (f : Nat) (r : ItemRec) (h : Rep (.half f) r) (buf : Array UInt8) (off : Nat) (n : UInt64)
    (hb : off + n.toNat ≤ buf.size) : cbor_serialize_float_ctrl.ok r buf off n = true := by
  obtain ⟨ht, hw, hs, hv⟩ := h
  have hw' := (float_ctrl_fields r).1; rw [hw] at hw'
  have p := predicates_total r
  have i := isa_spec r
  have wok := (float_ctrl_ok r).1.mpr ht
  have g := (get_float2_ok r).mpr ⟨ht, hw, hs⟩
  unfold cbor_serialize_float_ctrl.ok
  simp only [hw', p, i, ht, g, wok, Props.C15.half_ok _ buf off n hb, beq_self_eq_true, Bool.and_self, Bool.true_and, Bool.and_true]
  ok_finish

theorem serialize_single_ok (b : Nat) (r : ItemRec) (h : Rep (.single b) r) (buf : Array UInt8) (off : Nat) (n : UInt64)
    (hb : off + n.toNat ≤ buf.size) : cbor_serialize_float_ctrl.ok r buf off n = true := by
  obtain ⟨ht, hw, hs, hv⟩ := h
  have hw' := (float_ctrl_fields r).1; rw [hw] at hw'
  have p := predicates_total r
  have i := isa_spec r
  have wok := (float_ctrl_ok r).1.mpr ht
  have g := (get_float4_ok r).mpr ⟨ht, hw, hs⟩
  unfold cbor_serialize_float_ctrl.ok
  simp only [hw', p, i, ht, g, wok, pub_single_ok buf off n hb, beq_self_eq_true, Bool.and_self, Bool.true_and, Bool.and_true]
  ok_finish

theorem serialize_double_ok (b : Nat) (r : ItemRec) (h : Rep (.double b) r) (buf : Array UInt8) (off : Nat) (n : UInt64)
    (hb : off + n.toNat ≤ buf.size) : cbor_serialize_float_ctrl.ok r buf off n = true := by
  obtain ⟨ht, hw, hs, hv⟩ := h
  have hw' := (float_ctrl_fields r).1; rw [hw] at hw'
  have p := predicates_total r
  have i := isa_spec r
  have wok := (float_ctrl_ok r).1.mpr ht
  have g := (get_float8_ok r).mpr ⟨ht, hw, hs⟩
  unfold cbor_serialize_float_ctrl.ok
  simp only [hw', p, i, ht, g, wok, pub_double_ok buf off n hb, beq_self_eq_true, Bool.and_self, Bool.true_and, Bool.and_true]
  ok_finish

theorem serialize_bytestring_ok (b : List UInt8) (r : ItemRec) (h : Rep (.bytes b) r) (buf : Array UInt8) (off : Nat) (n : UInt64)
    (hb : off + n.toNat ≤ buf.size) : cbor_serialize_bytestring.ok r buf off n = true := by
  obtain ⟨ht, hd, hl, hbb⟩ := h
  have hlen : cbor_bytestring_length r = r.bs_length := (container_fields r).2.2.2.2.2.2.1
  have hsz : r.bs_length.toNat ≤ r.data.size := by
    have := congrArg List.length hbb; simp only [List.length_take, Array.length_toList] at this; omega
  have p := predicates_total r
  have i := isa_spec r
  have lok : cbor_bytestring_length.ok r = true := (container_ok r).2.2.2.2.2.2.2.2.2.2.2.2.1.mpr ht
  have dok : cbor_bytestring_is_definite.ok r = true := (container_ok r).2.2.2.2.2.2.2.2.2.2.2.2.2.1.mpr ht
  have dd : cbor_bytestring_is_definite r = true := by rw [(definite_indefinite r).2.2.2.2.2, hd]; rfl
  -- the head: at most `n` bytes, the buffer keeps its size; hence after the fit test both `memcpy` ranges are inside their arrays
  have hle := encRes_le buf off n (Spec.head 2 r.bs_length.toNat)
  have hsub := UInt64.toNat_sub_of_le _ _ (UInt64.le_iff_toNat_le.mpr hle)
  unfold cbor_serialize_bytestring.ok
  simp only [hlen, p, i, ht, lok, dok, dd, pub_bytestring_start_ok buf off n hb, pub_bytestring_start, encRes_size, beq_self_eq_true,
    Bool.and_self, Bool.true_and, Bool.and_true]
  ser_cases
  all_goals first | rfl | (simp only [Bool.and_eq_true, decide_eq_true_eq] at *; cnorm; omega)

theorem serialize_string_ok (b : List UInt8) (r : ItemRec) (h : Rep (.text b) r) (buf : Array UInt8) (off : Nat) (n : UInt64)
    (hb : off + n.toNat ≤ buf.size) : cbor_serialize_string.ok r buf off n = true := by
  obtain ⟨ht, hd, hl, hbb⟩ := h
  have hlen : cbor_string_length r = r.str_length := (container_fields r).2.2.2.2.1
  have hsz : r.str_length.toNat ≤ r.data.size := by
    have := congrArg List.length hbb; simp only [List.length_take, Array.length_toList] at this; omega
  have p := predicates_total r
  have i := isa_spec r
  have lok : cbor_string_length.ok r = true := (container_ok r).2.2.2.2.2.2.2.2.1.mpr ht
  have dok : cbor_string_is_definite.ok r = true := (container_ok r).2.2.2.2.2.2.2.2.2.2.1.mpr ht
  have dd : cbor_string_is_definite r = true := by rw [(definite_indefinite r).2.2.2.2.1, hd]; rfl
  have hle := encRes_le buf off n (Spec.head 3 r.str_length.toNat)
  have hsub := UInt64.toNat_sub_of_le _ _ (UInt64.le_iff_toNat_le.mpr hle)
  unfold cbor_serialize_string.ok
  simp only [hlen, p, i, ht, lok, dok, dd, pub_string_start_ok buf off n hb, pub_string_start, encRes_size, beq_self_eq_true,
    Bool.and_self, Bool.true_and, Bool.and_true]
  ser_cases
  all_goals first | rfl | (simp only [Bool.and_eq_true, decide_eq_true_eq] at *; cnorm; omega)

/-! ## 3. `cbor_serialized_size` on leaves = `Model.size` -/

theorem hdr_ok (s : UInt64) : _cbor_encoded_header_size.ok s = true := by
  unfold _cbor_encoded_header_size.ok
  repeat' split
  all_goals rfl

/-- the conversion of a value to `size_t` distributes over a conditional expression (`return c ? 1 : 2;` in a `size_t` function) -/
theorem toU64_ite (c : Prop) [Decidable c] (a b : Int) : C.toU64 (if c then a else b) = if c then C.toU64 a else C.toU64 b := by
  split <;> rfl

/-- evaluate the conversion of an `int` constant to an unsigned type (`return 1;` and `return c ? 1 : 2;` give `(1 : UInt64)` resp.
`C.toU64 (1 : Int)`, depending on where the C source puts the constant) -/
macro "lit_conv" : tactic => `(tactic| (
  try simp only [C.toU64, C.toU32, C.toU16, C.toU8, Int.reduceMod, Int.reduceToNat, Int.reduceNeg, Int.reduceAdd, Int.reduceSub,
    UInt64.reduceOfNat, UInt32.reduceOfNat, UInt16.reduceOfNat, UInt8.reduceOfNat] at *))

/-- split first (the path conditions are small), then rewrite the known tags **in the hypotheses** and decide -/
macro "size_finish" "[" ts:Lean.Parser.Tactic.simpLemma,* "]" : tactic => `(tactic| (
  (try simp only [toU64_ite])
  ser_cases
  all_goals lit_conv
  all_goals first
    | (with_reducible rfl)
    | ((try simp only [$ts,*, Bool.and_eq_true, Bool.true_and, Bool.and_true, Bool.and_self, hdr_ok, Props.C20.C20_sadd_ok] at *)
       first | done | (
         cnorm
         (try simp only [UInt8.toNat_toUInt64, not_true_eq_false, not_false_eq_true, and_self, and_true, true_and] at *)
         first | done | omega))))

theorem size_int8 (v : Nat) (r : ItemRec) (ht : r.type = 0 ∨ r.type = 1) (hw : r.int_width = 0) (hs : 1 ≤ r.data.size)
    (hv : leVal r 1 = v) : cbor_serialized_size r = (if v ≤ 23 then 1 else 2) ∧ cbor_serialized_size.ok r = true := by
  have hw' := int_get_width_eq r; rw [hw] at hw'
  have p := predicates_total r
  have ty := (isa_spec r).1
  have wok := (int_get_width_ok r).mpr ht
  have e := (get_uint8_val r).trans hv
  have g := (get_uint8_ok r).mpr ⟨ht, hw, hs⟩
  constructor
  · unfold cbor_serialized_size
    size_finish [hw', ty]
  · unfold cbor_serialized_size.ok
    size_finish [hw', ty, p, wok, g]

/-- integers wider than 8 bits: width tag `k`, size `s` -/
theorem size_intw_val (r : ItemRec) (ht : r.type = 0 ∨ r.type = 1) (k : UInt32) (s : UInt64)
    (hk : (k = 1 ∧ s = 3) ∨ (k = 2 ∧ s = 5) ∨ (k = 3 ∧ s = 9)) (hw : r.int_width = k) : cbor_serialized_size r = s := by
  have hw' := int_get_width_eq r; rw [hw] at hw'
  have ty := (isa_spec r).1
  unfold cbor_serialized_size
  size_finish [hw', ty]

theorem size_intw_ok (r : ItemRec) (ht : r.type = 0 ∨ r.type = 1) (k : UInt32) (hk : k = 1 ∨ k = 2 ∨ k = 3) (hw : r.int_width = k) :
    cbor_serialized_size.ok r = true := by
  have hw' := int_get_width_eq r; rw [hw] at hw'
  have p := predicates_total r
  have ty := (isa_spec r).1
  have wok := (int_get_width_ok r).mpr ht
  unfold cbor_serialized_size.ok
  size_finish [hw', ty, p, wok]

theorem size_int (w : Width) (v : Nat) (r : ItemRec) (ht : r.type = 0 ∨ r.type = 1) (hw : r.int_width = wtag w) (hs : w.bytes ≤ r.data.size)
    (hv : leVal r w.bytes = v) : cbor_serialized_size r = Model.size (.uint w v) ∧ cbor_serialized_size.ok r = true := by
  cases w <;> simp only [wtag, Width.bytes] at hw hs hv <;> simp only [Model.size]
  · exact size_int8 v r ht hw hs hv
  · exact ⟨size_intw_val r ht 1 3 (Or.inl ⟨rfl, rfl⟩) hw, size_intw_ok r ht 1 (Or.inl rfl) hw⟩
  · exact ⟨size_intw_val r ht 2 5 (Or.inr (Or.inl ⟨rfl, rfl⟩)) hw, size_intw_ok r ht 2 (Or.inr (Or.inl rfl)) hw⟩
  · exact ⟨size_intw_val r ht 3 9 (Or.inr (Or.inr ⟨rfl, rfl⟩)) hw, size_intw_ok r ht 3 (Or.inr (Or.inr rfl)) hw⟩

theorem size_negint_eq_uint (w : Width) (v : Nat) : Model.size (.negint w v) = Model.size (.uint w v) := by
  cases w <;> rfl

theorem size_float_val (r : ItemRec) (ht : r.type = 7) (k : UInt32) (s : UInt64) (hk : (k = 1 ∧ s = 3) ∨ (k = 2 ∧ s = 5) ∨ (k = 3 ∧ s = 9))
    (hw : r.float_width = k) : cbor_serialized_size r = s := by
  have hw' := (float_ctrl_fields r).1; rw [hw] at hw'
  have ty := (isa_spec r).1
  unfold cbor_serialized_size
  size_finish [hw', ty]

theorem size_float_ok (r : ItemRec) (ht : r.type = 7) (k : UInt32) (hk : k = 1 ∨ k = 2 ∨ k = 3)
    (hw : r.float_width = k) : cbor_serialized_size.ok r = true := by
  have hw' := (float_ctrl_fields r).1; rw [hw] at hw'
  have p := predicates_total r
  have ty := (isa_spec r).1
  have wok := (float_ctrl_ok r).1.mpr ht
  unfold cbor_serialized_size.ok
  size_finish [hw', ty, p, wok]

theorem size_float (r : ItemRec) (ht : r.type = 7) (k : UInt32) (s : UInt64) (hk : (k = 1 ∧ s = 3) ∨ (k = 2 ∧ s = 5) ∨ (k = 3 ∧ s = 9))
    (hw : r.float_width = k) : cbor_serialized_size r = s ∧ cbor_serialized_size.ok r = true :=
  ⟨size_float_val r ht k s hk hw, size_float_ok r ht k (by rcases hk with h | h | h <;> simp [h.1]) hw⟩

theorem size_simple (v : Nat) (r : ItemRec) (h : Rep (.simple v) r) :
    cbor_serialized_size r = Model.size (.simple v) ∧ cbor_serialized_size.ok r = true := by
  obtain ⟨ht, hw, hv⟩ := h
  have hw' := (float_ctrl_fields r).1; rw [hw] at hw'
  have p := predicates_total r
  have ty := (isa_spec r).1
  have wok := (float_ctrl_ok r).1.mpr ht
  have g := (float_ctrl_ok r).2.2.1.mpr ⟨ht, hw⟩
  have e : (cbor_ctrl_value r).toUInt64 = UInt64.ofNat (v % 256) := by
    rw [(float_ctrl_fields r).2.1]; apply UInt64.toNat_inj.mp
    have := r.ctrl.toNat_lt
    simp only [UInt8.toNat_toUInt64, UInt64.toNat_ofNat', ← hv]; omega
  constructor
  · unfold cbor_serialized_size Model.size
    rw [← e]
    size_finish [hw', ty]
  · unfold cbor_serialized_size.ok
    size_finish [hw', ty, p, wok, g]

theorem size_bstr (r : ItemRec) (k : Nat) (ht : r.type = 2) (hd : r.bs_type = 0) (hk : r.bs_length.toNat = k) :
    cbor_serialized_size r = Model.sizeString k ∧ cbor_serialized_size.ok r = true := by
  have p := predicates_total r
  have ty := (isa_spec r).1
  have lok : cbor_bytestring_length.ok r = true := (container_ok r).2.2.2.2.2.2.2.2.2.2.2.2.1.mpr ht
  have dok : cbor_bytestring_is_definite.ok r = true := (container_ok r).2.2.2.2.2.2.2.2.2.2.2.2.2.1.mpr ht
  have dd : cbor_bytestring_is_definite r = true := by rw [(definite_indefinite r).2.2.2.2.2, hd]; rfl
  have hlen : cbor_bytestring_length r = r.bs_length := (container_fields r).2.2.2.2.2.2.1
  have e : UInt64.ofNat k = r.bs_length := by subst hk; simp
  constructor
  · unfold cbor_serialized_size Model.sizeString
    rw [e]
    size_finish [ty, hlen]
  · unfold cbor_serialized_size.ok
    size_finish [ty, hlen, p, lok, dok, dd]

theorem size_tstr (r : ItemRec) (k : Nat) (ht : r.type = 3) (hd : r.str_type = 0) (hk : r.str_length.toNat = k) :
    cbor_serialized_size r = Model.sizeString k ∧ cbor_serialized_size.ok r = true := by
  have p := predicates_total r
  have ty := (isa_spec r).1
  have lok : cbor_string_length.ok r = true := (container_ok r).2.2.2.2.2.2.2.2.1.mpr ht
  have dok : cbor_string_is_definite.ok r = true := (container_ok r).2.2.2.2.2.2.2.2.2.2.1.mpr ht
  have dd : cbor_string_is_definite r = true := by rw [(definite_indefinite r).2.2.2.2.1, hd]; rfl
  have hlen : cbor_string_length r = r.str_length := (container_fields r).2.2.2.2.1
  have e : UInt64.ofNat k = r.str_length := by subst hk; simp
  constructor
  · unfold cbor_serialized_size Model.sizeString
    rw [e]
    size_finish [ty, hlen]
  · unfold cbor_serialized_size.ok
    size_finish [ty, hlen, p, lok, dok, dd]

/-! ## the statements for an arbitrary leaf -/

/-- the type-specific serializer `cbor_serialize` dispatches to (its `switch (cbor_typeof(item))`), by constructor of the leaf -/
def genSerialize : Item → ItemRec → Array UInt8 → Nat → UInt64 → UInt64 × Array UInt8
  | .uint _ _ => cbor_serialize_uint
  | .negint _ _ => cbor_serialize_negint
  | .bytes _ => cbor_serialize_bytestring
  | .text _ => cbor_serialize_string
  | _ => cbor_serialize_float_ctrl

def genSerializeOk : Item → ItemRec → Array UInt8 → Nat → UInt64 → Bool
  | .uint _ _ => cbor_serialize_uint.ok
  | .negint _ _ => cbor_serialize_negint.ok
  | .bytes _ => cbor_serialize_bytestring.ok
  | .text _ => cbor_serialize_string.ok
  | _ => cbor_serialize_float_ctrl.ok

/-- **Agreement (value).**  For every leaf `x`, every record representing it, every buffer, offset and size: the generated type-specific
serializer computes exactly what the hand-written model of `cbor_serialize` computes (return value and buffer). -/
theorem leaf_serialize_eq (x : Item) (r : ItemRec) (h : Rep x r) (buf : Array UInt8) (off : Nat) (n : UInt64) :
    genSerialize x r buf off n = Model.serialize x buf off n := by
  cases x with
  | uint w v => exact serialize_uint_eq w v r h buf off n
  | negint w v => exact serialize_negint_eq w v r h buf off n
  | bytes b => exact serialize_bytestring_eq b r h buf off n
  | text b => exact serialize_string_eq b r h buf off n
  | simple v => exact serialize_simple_eq v r h buf off n
  | half f => exact serialize_half_eq f r h buf off n
  | single b => exact serialize_single_eq b r h buf off n
  | double b => exact serialize_double_eq b r h buf off n
  | _ => exact h.elim

/-- **Agreement (side conditions).**  … and every side condition of the generated code holds, given the premise the encoders need. -/
theorem leaf_serialize_ok (x : Item) (r : ItemRec) (h : Rep x r) (buf : Array UInt8) (off : Nat) (n : UInt64)
    (hb : off + n.toNat ≤ buf.size) : genSerializeOk x r buf off n = true := by
  cases x with
  | uint w v => exact serialize_uint_ok w v r h buf off n hb
  | negint w v => exact serialize_negint_ok w v r h buf off n hb
  | bytes b => exact serialize_bytestring_ok b r h buf off n hb
  | text b => exact serialize_string_ok b r h buf off n hb
  | simple v => exact serialize_simple_ok v r h buf off n hb
  | half f => exact serialize_half_ok f r h buf off n hb
  | single b => exact serialize_single_ok b r h buf off n hb
  | double b => exact serialize_double_ok b r h buf off n hb
  | _ => exact h.elim

/-- **Agreement (size).**  The generated `cbor_serialized_size` is the hand-written `Model.size` on every leaf, and its side conditions
(among them the stated assumptions under which it was translated: not a container / tag, strings definite) hold. -/
theorem leaf_size_eq (x : Item) (r : ItemRec) (h : Rep x r) : cbor_serialized_size r = Model.size x ∧ cbor_serialized_size.ok r = true := by
  cases x with
  | uint w v => exact size_int w v r (Or.inl h.1) h.2.1 h.2.2.1 h.2.2.2
  | negint w v => rw [size_negint_eq_uint]; exact size_int w v r (Or.inr h.1) h.2.1 h.2.2.1 h.2.2.2
  | bytes b => exact size_bstr r b.length h.1 h.2.1 h.2.2.1
  | text b => exact size_tstr r b.length h.1 h.2.1 h.2.2.1
  | simple v => exact size_simple v r h
  | half f => exact size_float r h.1 1 3 (Or.inl ⟨rfl, rfl⟩) h.2.1
  | single b => exact size_float r h.1 2 5 (Or.inr (Or.inl ⟨rfl, rfl⟩)) h.2.1
  | double b => exact size_float r h.1 3 9 (Or.inr (Or.inr ⟨rfl, rfl⟩)) h.2.1
  | _ => exact h.elim

/-! ## 4. corollaries in the vocabulary of C03 / C07 -/

/-- every represented leaf except a half is `Valid` (C03's value ranges); a half item is `Valid` iff it holds a half-representable value -/
theorem rep_valid (x : Item) (r : ItemRec) (h : Rep x r) (hh : ∀ f, x ≠ .half f) : Valid x := by
  have l := rep_leaf x r h
  cases x <;> first | exact l | trivial | exact (hh _ rfl).elim

/-- **Exact bytes.**  When the buffer has room, the generated leaf serializer returns the encoded length, the bytes at `off` are exactly
`Spec.encode x`, no other byte changes, and all its side conditions hold. -/
theorem leaf_bytes (x : Item) (r : ItemRec) (h : Rep x r) (hv : Valid x) (hfit : (encode x).length < 2 ^ 64)
    (buf : Array UInt8) (off : Nat) (n : UInt64) (hn : (encode x).length ≤ n.toNat) (hb : off + n.toNat ≤ buf.size) :
    let o := genSerialize x r buf off n
    genSerializeOk x r buf off n = true ∧
    o.1.toNat = (encode x).length ∧
    (∀ i (h : i < (encode x).length), o.2[off + i]? = some (encode x)[i]) ∧
    (∀ i, (i < off ∨ off + (encode x).length ≤ i) → o.2[i]? = buf[i]?) ∧ o.2.size = buf.size := by
  intro o
  have e : o = Model.serialize x buf off n := leaf_serialize_eq x r h buf off n
  rw [e]
  exact ⟨leaf_serialize_ok x r h buf off n hb, Props.C03.C03_bytes x hv hfit buf off n hn hb⟩

/-- **Too small.**  When the encoding does not fit in `n` bytes the generated leaf serializer returns 0; the buffer keeps its size and
every byte outside `[off, off + n)` (it may have written a head, or part of nothing, inside). -/
theorem leaf_too_small (x : Item) (r : ItemRec) (h : Rep x r) (hv : Valid x) (hfit : (encode x).length < 2 ^ 64)
    (buf : Array UInt8) (off : Nat) (n : UInt64) (hn : n.toNat < (encode x).length) :
    (genSerialize x r buf off n).1 = 0 ∧ Within buf (genSerialize x r buf off n).2 off n.toNat := by
  rw [leaf_serialize_eq x r h buf off n]
  exact (ser_item x hv hfit buf off n).2 hn

/-- **Size.**  The generated `cbor_serialized_size` of a leaf is the length of its RFC 8949 encoding (non-zero), and the generated
serializer returns exactly that when given at least that much room (C07 for generated code). -/
theorem leaf_size_spec (x : Item) (r : ItemRec) (h : Rep x r) (hv : Valid x) (hfit : (encode x).length < 2 ^ 64)
    (buf : Array UInt8) (off : Nat) (n : UInt64) :
    cbor_serialized_size r = UInt64.ofNat (encode x).length ∧ cbor_serialized_size r ≠ 0 ∧
    (cbor_serialized_size r ≤ n → (genSerialize x r buf off n).1 = cbor_serialized_size r) ∧
    (n < cbor_serialized_size r → (genSerialize x r buf off n).1 = 0) := by
  rw [(leaf_size_eq x r h).1, leaf_serialize_eq x r h buf off n]
  have s := Props.C07.C07_size x hv (Props.C07.rep_of_len x hfit)
  have c := Props.C07.C07_serialize x hv hfit buf off n
  simp only [hfit, if_true] at s
  exact ⟨s, c.1, fun hle => (c.2.2.1 hle).1, c.2.2.2.1⟩

/-! ## 5. frame: the generated leaf serializers return no record -/

/-! One typing check per function (as in `Props/Accessors.lean`): result = bytes written × buffer, no `ItemRec` component.  A store into
the item — directly, through an alias, in a callee — makes the translator refuse the function (`Untranslated`), and these lines stop
elaborating. -/
example : ItemRec → Array UInt8 → Nat → UInt64 → UInt64 × Array UInt8 := cbor_serialize_uint
example : ItemRec → Array UInt8 → Nat → UInt64 → UInt64 × Array UInt8 := cbor_serialize_negint
example : ItemRec → Array UInt8 → Nat → UInt64 → UInt64 × Array UInt8 := cbor_serialize_float_ctrl
example : ItemRec → Array UInt8 → Nat → UInt64 → UInt64 × Array UInt8 := cbor_serialize_bytestring
example : ItemRec → Array UInt8 → Nat → UInt64 → UInt64 × Array UInt8 := cbor_serialize_string
example : ItemRec → UInt64 := cbor_serialized_size

/-- the same as an auditable object -/
def leafSerializers : List (String × (ItemRec → Array UInt8 → Nat → UInt64 → UInt64 × Array UInt8)) :=
  [("cbor_serialize_uint", cbor_serialize_uint), ("cbor_serialize_negint", cbor_serialize_negint),
   ("cbor_serialize_float_ctrl", cbor_serialize_float_ctrl), ("cbor_serialize_bytestring", cbor_serialize_bytestring),
   ("cbor_serialize_string", cbor_serialize_string)]

theorem readonly_serializers : leafSerializers.length = 5 ∧ (∃ f : ItemRec → UInt64, f = cbor_serialized_size) := ⟨rfl, _, rfl⟩

/-! non-vacuity of the corollaries: a concrete leaf of every kind meets the hypotheses -/
example : Valid (.half 0x3FC00000) := ⟨0x3E00, by decide, by decide⟩
example : ∃ r, Rep (.text [0x61, 0x62]) r ∧ Valid (.text [0x61, 0x62]) ∧ (encode (.text [0x61, 0x62])).length < 2 ^ 64 :=
  ⟨recOf (.text [0x61, 0x62]), ⟨rfl, rfl, by decide, by decide⟩, trivial, by decide⟩

end Props.LeafSerializers

import Cbor.Props.Census
/-!
# C18 — read-only operations never write to the items they inspect

Over the **generated** effect census `Gen.Effects`: `constItemApi` is every function under src/ whose item
parameters are all `const cbor_item_t *` and which does not return an item (serialization, size computation,
every predicate and getter that hands out no new reference); `itemStorers` is every function containing a
store — assignment, `++`/`--`, compound assignment, `memcpy`/`memset`/`memmove` destination — whose target
is reached through a pointer and whose access path mentions an item object (header, metadata, payload, slot
array, pair, chunk bookkeeping).

`C18_readonly`: nothing reachable in the call graph from a read-only API function is an item storer — not
even transiently.  The dynamic counterpart (every store faults: the tree lives in write-protected memory
while the operation runs) is the harness's mprotect run; see DESIGN.md.
-/
namespace Props.C18
open Gen.Effects Props.Census

/-- **No store into an item** is reachable from any read-only API function. -/
theorem C18_readonly :
    (reach fuel constItemApi []).all (fun g => !itemStorers.contains g) = true ∧ stable constItemApi = true := by
  decide +kernel

/-- the read-only surface is what the property lists: serialization, size, predicates and getters (and it is not empty) -/
theorem C18_surface :
    (["cbor_serialize", "cbor_serialized_size", "cbor_serialize_alloc", "cbor_typeof", "cbor_isa_uint", "cbor_isa_map", "cbor_is_int", "cbor_is_float",
      "cbor_refcount", "cbor_get_uint8", "cbor_get_uint64", "cbor_get_int", "cbor_array_size", "cbor_array_allocated", "cbor_array_handle",
      "cbor_map_size", "cbor_map_handle", "cbor_bytestring_length", "cbor_bytestring_handle", "cbor_string_length", "cbor_string_codepoint_count",
      "cbor_bytestring_chunk_count", "cbor_bytestring_chunks_handle", "cbor_tag_value", "cbor_float_get_float", "cbor_float_get_width",
      "cbor_ctrl_value", "cbor_get_bool", "cbor_int_get_width", "cbor_array_is_definite", "cbor_map_is_indefinite"].all
        fun n => constItemApi.contains (idOf n)) = true ∧ 60 ≤ constItemApi.length := by
  decide +kernel

/-- the operations that *do* hand out a reference or mutate are not in the read-only surface (sanity of the classification) -/
theorem C18_mutators_excluded :
    (["cbor_array_get", "cbor_tag_item", "cbor_incref", "cbor_decref", "cbor_array_push", "cbor_copy", "cbor_mark_negint", "cbor_set_uint8"].all
        fun n => !constItemApi.contains (idOf n)) = true ∧
    (["cbor_incref", "cbor_decref", "cbor_array_push", "cbor_array_replace", "cbor_mark_negint", "cbor_set_uint8", "cbor_move", "_cbor_map_add_key"].all
        fun n => itemStorers.contains (idOf n)) = true := by
  decide +kernel

end Props.C18

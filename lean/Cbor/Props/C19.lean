import Cbor.Lemmas.LoadFacts
/-!
# C19 — the nesting limit is exact for every configured value

`Model.load` and every theorem about it (C02, C05, C14) are parametric in the decoding-stack limit `L`; the
harness is rebuilt at several values of `CBOR_MAX_STACK_SIZE` and compared against the model run with the same `L`.
What "exact" means is fixed by the reference decoder `Spec.item`: with `d` levels open, a head that opens a
level (tag, indefinite item, non-empty definite array/map, chunked string — `Tok.opens`) is MEMERROR just past
that head iff `d ≥ L`; empty definite containers, scalars and definite strings never are.
-/
namespace Props.C19
open Model Spec Abs Lemmas Lemmas.Refine Lemmas.LoadFacts Lemmas.Fund

/-- for **every** `L`: the outcome of the model is the outcome of the reference decoder with limit `L` -/
theorem C19_all_limits (L : Nat) (src : Array UInt8) (hsz : src.size < 2 ^ 56) (r0 : LoadResult) :
    let o := Model.load ωT L r0 src
    match Spec.decode true L okGuard (getOf src) src.size with
    | .ok x n => o.item = some x ∧ o.result = { code := .none, position := 0, read := n } ∧ o.fault = false
    | .nodata => o.item = none ∧ o.result = { code := .noData, position := 0, read := 0 } ∧ o.fault = false
    | .fail e p => o.item = none ∧ o.result = { code := codeOf e, position := p, read := p } ∧ o.fault = false :=
  load_eq src hsz L r0

/-- the abstract decoding stack never holds more than `L` frames: the builder recursion (`_cbor_builder_append`
cascades through at most the stack) and the unwinding loop are bounded by `L` -/
theorem C19_stack_bound (L : Nat) (okA : AllocOk) (get : Nat → UInt8) (p : Nat) (tok : Tok) (s s' : List Abs.Frame)
    (h : stepTok L okA get p tok s = .cont s') (hL : s.length ≤ L) : s'.length ≤ L :=
  stepTok_len L okA get p tok s s' h hL

/-- a head that opens a level while `L` levels are open is refused with MEMERROR, whatever it is -/
theorem C19_reject_step (L : Nat) (okA : AllocOk) (get : Nat → UInt8) (p : Nat) (tok : Tok) (s : List Abs.Frame)
    (hopen : tok.opens = true) (hok : okA tok = true) (hfull : s.length ≥ L) :
    stepTok L okA get p tok s = .mem := by
  cases tok <;> simp_all [stepTok, Tok.opens, push]

/-- a head that opens a level while fewer than `L` levels are open is never refused for depth -/
theorem C19_accept_step (L : Nat) (okA : AllocOk) (get : Nat → UInt8) (p : Nat) (tok : Tok) (s : List Abs.Frame)
    (hopen : tok.opens = true) (hok : okA tok = true) (hroom : s.length < L) :
    ∃ f, stepTok L okA get p tok s = .cont (f :: s) := by
  have hn : ¬ L ≤ s.length := by omega
  cases tok <;> simp_all [stepTok, Tok.opens, push] <;> exact ⟨_, by rw [if_neg (by omega)]⟩

/-- heads that open no level are never MEMERROR for depth, at any depth -/
theorem C19_flat_step (L L' : Nat) (okA : AllocOk) (get : Nat → UInt8) (p : Nat) (tok : Tok) (s : List Abs.Frame)
    (hflat : tok.opens = false) : stepTok L okA get p tok s = stepTok L' okA get p tok s := by
  cases tok <;> simp_all [stepTok, Tok.opens]

-- non-vacuity, L = 1 and L = 2 (kernel-evaluated through the generated decoder)
example : (Model.load ωT 1 ⟨.none, 7, 7⟩ #[0x81, 0x81, 0x00]).result = ⟨.mem, 2, 2⟩ := by decide +kernel
example : (Model.load ωT 2 ⟨.none, 7, 7⟩ #[0x81, 0x81, 0x00]).result = ⟨.none, 0, 3⟩ := by decide +kernel
example : (Model.load ωT 1 ⟨.none, 7, 7⟩ #[0x81, 0x80]).result = ⟨.none, 0, 2⟩ := by decide +kernel   -- empty array opens no level

end Props.C19

import Cbor.Lemmas.SdSpec
import Cbor.Model.StreamClient
import Cbor.Props.C08
import Cbor.Spec.HeadLemmas
/-!
# C09 — feeding a stream in fragments yields the same events as one-shot decoding

`client` is the protocol the property describes, run against the **generated** `Gen.cbor_stream_decode`:
buffer what has arrived, call the decoder on the buffered bytes from the current position, on FINISHED hand
the callback's event on and advance by `read`, on NEDATA wait until `required` bytes are buffered (the stream
may end first), on ERROR stop.  `tokens` is the RFC 8949 tokenisation of the complete stream.

`C09_fragments`: for every stream and every way the bytes arrive (any initial amount, any sequence of
further fragment sizes adding up to the stream), the events the client receives are, one for one and in
order, the events denoting the tokens of the complete stream at their offsets — nothing lost, duplicated or
altered at fragment boundaries.  `C09_wait_bounds`: every wait asks for strictly more than is buffered and
never for more than the pending item occupies.
-/
namespace Props.C09
open Gen Lemmas Spec Model

/-- RFC tokenisation of the complete stream from offset `p`: each head with its offset, until the stream
ends, a head is incomplete, or an initial byte is reserved -/
def tokens (src : Array UInt8) : Nat → Nat → List (Tok × Nat)
  | 0, _ => []
  | f+1, p =>
    match decodeHead (getA src p) (src.size - p) with
    | .ok t l => (t, p) :: tokens src f (p + l)
    | _ => []

theorem waitFor_spec (target : Nat) : ∀ (arr : List Nat) (avail : Nat),
    (waitFor target avail arr).1 + (waitFor target avail arr).2.sum = avail + arr.sum ∧ avail ≤ (waitFor target avail arr).1
  | [], avail => by simp [waitFor]
  | a :: rest, avail => by
    unfold waitFor
    split
    · simp
    · have := waitFor_spec target rest (avail + a)
      simp only [List.sum_cons]
      omega

/-- the two lists have the same length and are related position by position -/
inductive Matches {α β : Type} (R : α → β → Prop) : List α → List β → Prop
  | nil : Matches R [] []
  | cons {a b as bs} : R a b → Matches R as bs → Matches R (a :: as) (b :: bs)

/-- event `e` denotes token `t` read at offset `p` -/
def Denotes (e : Event) (tp : Tok × Nat) : Prop := tokMatch tp.2 e tp.1 = true

theorem u64n (n : Nat) (h : n < 2 ^ 64) : (UInt64.ofNat n).toNat = n := by simp [UInt64.toNat_ofNat']; omega

/-- **Fragmentation is invisible.** -/
theorem C09_fragments (src : Array UInt8) (hsz : src.size < 2 ^ 64 - 1) :
    ∀ (m p avail : Nat) (arr : List Nat), (src.size - p) + (src.size - avail) ≤ m → p ≤ avail → avail + arr.sum = src.size →
      ∀ f ft, m < f → src.size - p < ft → Matches Denotes (client src f p avail arr) (tokens src ft p) := by
  intro m
  induction m using Nat.strongRecOn with
  | _ m ih =>
    intro p avail arr hm hpa hsum f ft hf hft
    have hav : avail ≤ src.size := by omega
    cases f with
    | zero => omega
    | succ f =>
      cases ft with
      | zero => omega
      | succ ft =>
        have hn : (UInt64.ofNat (avail - p)).toNat = avail - p := u64n _ (by omega)
        have hrel := sd_spec src p (UInt64.ofNat (avail - p)) (by rw [hn]; omega)
        rw [hn] at hrel
        unfold client
        simp only
        cases hspec : decodeHead (getA src p) (avail - p) with
        | ok t l =>
          rw [hspec] at hrel
          obtain ⟨h1, h2, _, e, h4, h5⟩ := hrel
          have hok := decodeHead_ok hspec
          have hone : decodeHead (getA src p) (src.size - p) = .ok t l :=
            decodeHead_prefix hspec (fun _ _ => rfl) (by omega)
          rw [if_pos h1, h2, h4]
          unfold tokens
          rw [hone]
          refine Matches.cons h5 ?_
          exact ih (m - 1) (by omega) (p + l) avail arr (by omega) (by omega) hsum f ft (by omega) (by omega)
        | nedata need =>
          rw [hspec] at hrel
          obtain ⟨h1, _, h3, h4⟩ := hrel
          have hlt := decodeHead_nedata hspec
          have hst : ¬ ((cbor_stream_decode src p (UInt64.ofNat (avail - p))).1.status = 0) := by rw [h1]; decide
          rw [if_neg hst, if_pos h1]
          have hreq : avail - p < (cbor_stream_decode src p (UInt64.ofNat (avail - p))).1.required.toNat := by
            rw [h4]; omega
          have hw := waitFor_spec (p + (cbor_stream_decode src p (UInt64.ofNat (avail - p))).1.required.toNat) arr avail
          split
          · -- the stream ended before the wait was satisfied: the complete stream has no complete token here either
            rename_i hshort
            have hend : (waitFor (p + (cbor_stream_decode src p (UInt64.ofNat (avail - p))).1.required.toNat) avail arr).1 ≤ src.size := by omega
            unfold tokens
            cases hone : decodeHead (getA src p) (src.size - p) with
            | ok t l =>
              exfalso
              have hle := decodeHead_need_le hspec hone
              have hok := decodeHead_ok hone
              -- all bytes arrive, so the wait for at most `l` bytes would have been satisfied
              have : (waitFor (p + (cbor_stream_decode src p (UInt64.ofNat (avail - p))).1.required.toNat) avail arr).2 = [] ∨ True := Or.inr trivial
              rw [h4] at hshort hw
              have hmin : min need (2 ^ 64 - 1) ≤ l := Nat.le_trans (Nat.min_le_left _ _) hle
              -- waitFor stops early only when the target is reached; otherwise it consumes everything
              have hall : ∀ (arr : List Nat) (avail : Nat) (target : Nat), (waitFor target avail arr).1 < target →
                  (waitFor target avail arr).1 = avail + arr.sum := by
                intro arr
                induction arr with
                | nil => intro avail target _; simp [waitFor]
                | cons a rest ih2 =>
                  intro avail target hh
                  unfold waitFor at hh ⊢
                  split
                  · rename_i hge; simp only [hge, if_true] at hh; omega
                  · rename_i hlt2
                    simp only [hlt2, if_false] at hh
                    rw [ih2 (avail + a) target hh]; simp only [List.sum_cons]; omega
              have := hall arr avail _ hshort
              omega
            | nedata n2 => exact Matches.nil
            | error => exact Matches.nil
          · rename_i hreached
            have hgrow : avail < (waitFor (p + (cbor_stream_decode src p (UInt64.ofNat (avail - p))).1.required.toNat) avail arr).1 := by omega
            exact ih (m - 1) (by omega) p _ _ (by omega) (by omega) (by omega) f (ft + 1) (by omega) (by omega)
        | error =>
          rw [hspec] at hrel
          obtain ⟨h1, _, _, _⟩ := hrel
          have hst0 : ¬ ((cbor_stream_decode src p (UInt64.ofNat (avail - p))).1.status = 0) := by rw [h1]; decide
          have hst1 : ¬ ((cbor_stream_decode src p (UInt64.ofNat (avail - p))).1.status = 1) := by rw [h1]; decide
          rw [if_neg hst0, if_neg hst1]
          have hn0 : avail - p ≠ 0 := by
            intro e; rw [e] at hspec; simp [decodeHead] at hspec
          have hone := decodeHead_error_stable (n' := src.size - p) hspec (by omega)
          unfold tokens
          rw [hone]
          exact Matches.nil

/-- the whole stream, any fragmentation: the client started with nothing consumed receives the events of the complete tokenisation -/
theorem C09_from_start (src : Array UInt8) (hsz : src.size < 2 ^ 64 - 1) (first : Nat) (arr : List Nat) (hsum : first + arr.sum = src.size) :
    Matches Denotes (client src (2 * src.size + 1) 0 first arr) (tokens src (src.size + 1) 0) :=
  C09_fragments src hsz (2 * src.size) 0 first arr (by omega) (by omega) hsum _ _ (by omega) (by omega)

/-- **Waits are tight.**  On NEDATA `required` exceeds what is buffered, and when the item is complete in the
stream it does not exceed the bytes the item occupies — so a stream that ends on an item boundary is delivered completely. -/
theorem C09_wait_bounds (src : Array UInt8) (p n : Nat) (hn : n < 2 ^ 64 - 1)
    (hs : (cbor_stream_decode src p (UInt64.ofNat n)).1.status = 1) :
    n < (cbor_stream_decode src p (UInt64.ofNat n)).1.required.toNat ∧
    ∀ n' t l, decodeHead (getA src p) n' = .ok t l → (cbor_stream_decode src p (UInt64.ofNat n)).1.required.toNat ≤ l := by
  have e : (UInt64.ofNat n).toNat = n := u64n _ (by omega)
  have hrel := sd_spec src p (UInt64.ofNat n) (by rw [e]; exact hn)
  rw [e] at hrel
  cases hspec : decodeHead (getA src p) n with
  | ok t l => rw [hspec] at hrel; rw [hrel.1] at hs; cases hs
  | error => rw [hspec] at hrel; rw [hrel.1] at hs; cases hs
  | nedata need =>
    rw [hspec] at hrel
    obtain ⟨_, _, _, h4⟩ := hrel
    have hlt := decodeHead_nedata hspec
    refine ⟨by rw [h4]; omega, fun n' t l hone => ?_⟩
    have := decodeHead_need_le hspec hone
    rw [h4]; exact Nat.le_trans (Nat.min_le_left _ _) this

/-- every token of the tokenisation came from a complete head: a string payload starts after at least one head byte -/
theorem tokens_payload (src : Array UInt8) : ∀ (ft p : Nat) (tp : Tok × Nat), tp ∈ tokens src ft p →
    ∀ o pl, tp.1.payload = some (o, pl) → 1 ≤ o
  | 0, _, _, h => by simp [tokens] at h
  | ft+1, p, tp, h => by
    unfold tokens at h
    cases hd : decodeHead (getA src p) (src.size - p) with
    | ok t l =>
      rw [hd] at h
      rcases List.mem_cons.mp h with e | e
      · subst e
        intro o pl hp
        exact ((decodeHead_ok hd).2.2 o pl hp).1
      · exact tokens_payload src ft (p + l) tp e
    | nedata n => rw [hd] at h; simp at h
    | error => rw [hd] at h; simp at h

/-- two event lists denoting the same tokens are the same list -/
theorem matches_unique {es es' : List Event} {ts : List (Tok × Nat)}
    (hp : ∀ tp ∈ ts, ∀ o pl, tp.1.payload = some (o, pl) → 1 ≤ o)
    (h : Matches Denotes es ts) (h' : Matches Denotes es' ts) : es = es' := by
  induction h generalizing es' with
  | nil => cases h'; rfl
  | cons hab _ ih =>
    cases h' with
    | cons hab' hrest =>
      have e := Props.C08.tokMatch_inj hab hab' (hp _ (by simp))
      subst e
      rw [ih (fun tp htp => hp tp (by simp [htp])) hrest]

/-- **Same callbacks, same arguments, same order**: any two ways of fragmenting the same stream give the client the
identical event list — in particular any fragmentation gives the list one-shot decoding of the whole buffer gives. -/
theorem C09_same_events (src : Array UInt8) (hsz : src.size < 2 ^ 64 - 1) (first first' : Nat) (arr arr' : List Nat)
    (hsum : first + arr.sum = src.size) (hsum' : first' + arr'.sum = src.size) :
    client src (2 * src.size + 1) 0 first arr = client src (2 * src.size + 1) 0 first' arr' :=
  matches_unique (tokens_payload src _ 0) (C09_from_start src hsz first arr hsum) (C09_from_start src hsz first' arr' hsum')

/-- one-shot decoding is the fragmentation in which everything is buffered from the start -/
theorem C09_equals_one_shot (src : Array UInt8) (hsz : src.size < 2 ^ 64 - 1) (first : Nat) (arr : List Nat)
    (hsum : first + arr.sum = src.size) :
    client src (2 * src.size + 1) 0 first arr = client src (2 * src.size + 1) 0 src.size [] :=
  C09_same_events src hsz first src.size arr [] hsum (by simp)

/-! non-vacuity: byte-at-a-time delivery of `[1, "a", [2]]` yields the five events of its tokenisation -/
example :
    let src : Array UInt8 := #[0x83, 0x01, 0x61, 0x61, 0x81, 0x02]
    (client src 13 0 0 [1, 1, 1, 1, 1, 1]).map Event.fmt = ["array_start 3", "uint8 1", "string 3 1", "array_start 1", "uint8 2"] ∧
    (tokens src 7 0).length = 5 := by decide

end Props.C09

import Cbor.Lemmas.LoadFacts
/-!
# C05 — decode failures are reported definitively, with the right code and position

Over `Model.load` (see C02).  `Spec.decode` carries the error taxonomy of the property: `notEnough p` at the
offset of the first incomplete or missing head, `malformed p` at the offset of a reserved / unsupported initial
byte, `syntax p` just past a complete head that is illegal where it stands, `mem p` just past a head that nests
beyond the limit (or whose declared storage cannot be allocated) — with libcbor's *lazy* reporting of an
illegal item opened inside a chunked string, which the property admits.
-/
namespace Props.C05
open Model Spec Abs Lemmas Lemmas.Refine Lemmas.LoadFacts Lemmas.Fund Lemmas.Local

/-- **Right code, right position, every field written**: a failed load returns NULL, and code / position / read
are exactly what the reference decoder assigns to the bytes; `read = position`. -/
theorem C05_code_pos (src : Array UInt8) (hsz : src.size < 2 ^ 56) (L : Nat) (r0 : LoadResult)
    (hfail : (Model.load ωT L r0 src).item = none) :
    (src.size = 0 ∧ (Model.load ωT L r0 src).result = { code := .noData, position := 0, read := 0 }) ∨
    (∃ e p, Spec.decode true L okGuard (getOf src) src.size = .fail e p ∧
            (Model.load ωT L r0 src).result = { code := codeOf e, position := p, read := p }) := by
  have h := load_eq src hsz L r0
  simp only at h
  cases hd : Spec.decode true L okGuard (getOf src) src.size with
  | ok x m => rw [hd] at h; rw [h.1] at hfail; cases hfail
  | nodata =>
    rw [hd] at h
    left
    refine ⟨?_, h.2.1⟩
    unfold Spec.decode at hd
    by_cases h0 : src.size = 0
    · exact h0
    · simp only [h0, if_false] at hd
      cases hi : item true L okGuard (getOf src) src.size (2 * src.size + 3) 0 0 <;> simp [hi] at hd
  | fail e p => rw [hd] at h; right; exact ⟨e, p, rfl, h.2.1⟩

/-- the failing result does not depend on what the caller left in the result struct -/
theorem C05_fields_written (ω : Oracle) (L : Nat) (r0 r0' : LoadResult) (src : Array UInt8) :
    Model.load ω L r0 src = Model.load ω L r0' src := rfl

/-- empty input gives NODATA (position 0, read 0) -/
theorem C05_empty (ω : Oracle) (L : Nat) (r0 : LoadResult) (src : Array UInt8) (h : src.size = 0) :
    (Model.load ω L r0 src).item = none ∧ (Model.load ω L r0 src).result = { code := .noData, position := 0, read := 0 } := by
  simp [Model.load, h]

theorem getOf_extract (src : Array UInt8) (k i : Nat) (hi : i < k) (hk : k ≤ src.size) :
    getOf (src.extract 0 k) i = getOf src i := by
  have h1 : i < (src.extract 0 k).size := by simp; omega
  have h2 : i < src.size := by omega
  simp only [getOf, Array.getD_eq_getD_getElem?, Array.getElem?_eq_getElem h1, Array.getElem?_eq_getElem h2, Option.getD_some]
  simp [Array.getElem_extract]

/-- **Every proper prefix of an acceptable item gives NOTENOUGHDATA positioned at the first incomplete or
missing head — never a hard error.** -/
theorem C05_prefix (src : Array UInt8) (hsz : src.size < 2 ^ 56) (L : Nat) (r0 : LoadResult) (t : Item) (n k : Nat)
    (hok : (Model.load ωT L r0 src).item = some t ∧ (Model.load ωT L r0 src).result.read = n)
    (hk0 : 0 < k) (hkn : k < n) :
    ∃ p, (Model.load ωT L r0 (src.extract 0 k)).item = none ∧
         (Model.load ωT L r0 (src.extract 0 k)).result = { code := .notEnough, position := p, read := p } ∧
         p ≤ k ∧ (∃ need, headAt (getOf src) k p = .nedata need) := by
  have hdec := (load_ok_iff src hsz L r0 t n).mp hok
  obtain ⟨_, hrun⟩ := (decode_ok_iff_run L (getOf src) src.size t n).mp hdec
  have hm := run_mono _ _ _ _ _ hrun
  have hks : k ≤ src.size := by omega
  have hsize : (src.extract 0 k).size = k := by simp; omega
  -- the run over the first k bytes of the same buffer
  obtain ⟨p, e1, _, e3, e4⟩ := run_trunc (L := L) (okA := okGuard) (get := getOf src) (len := src.size) (len' := k)
    (src.size + 1) (k + 1) [] 0 t n hrun hkn (by omega) (Nat.zero_le _)
  -- same bytes below k in the extracted array
  have e1' : run L okGuard (getOf (src.extract 0 k)) k (k + 1) [] 0 = .err .notEnough p := by
    rw [run_congr (fun i hi => getOf_extract src k i hi hks)]; exact e1
  have hpk : p ≤ k := e3
  -- the reference decoder on the prefix
  have hdec' : Spec.decode true L okGuard (getOf (src.extract 0 k)) (src.extract 0 k).size = .fail .notEnough p := by
    rw [← abs_decode_eq (L := L) (okA := okGuard) rfl, hsize]
    unfold Abs.decode
    simp only [show ¬ k = 0 by omega, if_false, e1']
  have hl := load_eq (src.extract 0 k) (by omega) L r0
  simp only at hl
  rw [hdec'] at hl
  exact ⟨p, hl.1, hl.2.1, hpk, e4⟩

end Props.C05

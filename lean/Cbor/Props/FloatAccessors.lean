import Cbor.Gen.Accessors2
import Cbor.Props.Accessors
import Cbor.Props.C15
/-!
# Float getters / setters of the item API — theorems over the **generated** definitions (`Cbor.Gen.Accessors2`)

`cbor_float_get_float2/4/8`, `cbor_float_get_float`, `cbor_set_float2/4/8` are regenerated from src/cbor/floats_ctrls.c on every run.
A C `float` is its IEEE-754 binary32 bit pattern (`UInt32`), a `double` its binary64 pattern (`UInt64`); `*(float*)item->data` is the
4 (8) little-endian bytes at `data[0..]`; the implicit conversion `float → double` is `Prelude.f32ToF64`.

1. round trips on bit patterns, the last store wins (also for `+0` over `-0`, a NaN over a NaN);
2. frame: a setter changes `data[0..N)` and nothing else;
3. `.ok` (the `CBOR_ASSERT`s + the in-bounds condition) characterised exactly;
4. `cbor_float_get_float` = the width-specific getter, widened;
5. the widening is exact: `valF64 (f32ToF64 b) = valF32 b`, infinities to infinities, NaNs to NaNs, injective.
-/
set_option linter.unusedSimpArgs false
set_option linter.unusedVariables false
namespace Props.FloatAccessors
open Gen Lemmas Props.Accessors

/-! ## 0. fixed-width stores, byte by byte -/

/-- every byte of the array after a fixed-width store: inside `[o, o+n)` (and inside the array) the corresponding byte of `v`, elsewhere
the old byte -/
theorem leStore_getD (a : Array UInt8) (o n v i : Nat) :
    (C.leStore a o n v).getD i 0 = if o ≤ i ∧ i < o + n ∧ i < a.size then UInt8.ofNat (v / 256 ^ (i - o)) else a.getD i 0 := by
  induction n generalizing a o v with
  | zero =>
    have : ¬ (o ≤ i ∧ i < o + 0 ∧ i < a.size) := by omega
    simp only [C.leStore, this, if_false]
  | succ n ih =>
    simp only [C.leStore]
    rw [ih]
    simp only [Array.size_setIfInBounds]
    by_cases hio : i = o
    · subst hio
      have h1 : ¬ (i + 1 ≤ i ∧ i < i + 1 + n ∧ i < a.size) := by omega
      simp only [h1, if_false]
      by_cases hs : i < a.size
      · have h2 : i ≤ i ∧ i < i + (n + 1) ∧ i < a.size := by omega
        simp [h2, Array.getD_eq_getD_getElem?, Array.getElem?_setIfInBounds, hs]
      · have h2 : ¬ (i ≤ i ∧ i < i + (n + 1) ∧ i < a.size) := by omega
        simp only [h2, if_false]
        simp [Array.getD_eq_getD_getElem?, Array.getElem?_setIfInBounds, hs]
    · by_cases hc : o + 1 ≤ i ∧ i < o + 1 + n ∧ i < a.size
      · have h2 : o ≤ i ∧ i < o + (n + 1) ∧ i < a.size := by omega
        simp only [hc, h2, and_self, if_true]
        have he : i - o = (i - (o + 1)) + 1 := by omega
        rw [he, Nat.pow_succ, Nat.mul_comm, Nat.div_div_eq_div_mul]
      · have h2 : ¬ (o ≤ i ∧ i < o + (n + 1) ∧ i < a.size) := by omega
        simp only [hc, h2, if_false]
        have : o ≠ i := fun h => hio h.symm
        simp [Array.getD_eq_getD_getElem?, Array.getElem?_setIfInBounds, this]

/-- two byte arrays of the same length with the same bytes are equal -/
theorem bytes_ext (a b : Array UInt8) (hs : a.size = b.size) (h : ∀ i, a.getD i 0 = b.getD i 0) : a = b := by
  apply Array.ext hs
  intro i h1 h2
  have := h i
  simpa [Array.getD_eq_getD_getElem?, h1, h2] using this

/-- **the last fixed-width store wins**: a second store of the same width at the same place makes the first one unobservable -/
theorem leStore_leStore (a : Array UInt8) (o n v w : Nat) : C.leStore (C.leStore a o n v) o n w = C.leStore a o n w := by
  apply bytes_ext
  · simp only [leStore_size]
  · intro i
    simp only [leStore_getD, leStore_size]
    split <;> rfl

/-! ### proof kit: `acc_unfold` / `acc_decide` of `Props.Accessors`, extended to the float functions -/

macro "facc_unfold" : tactic => `(tactic| (
  (try dsimp only [cbor_float_get_float.ok, cbor_float_get_float2.ok, cbor_float_get_float4.ok, cbor_float_get_float8.ok,
    cbor_set_float2.ok, cbor_set_float4.ok, cbor_set_float8.ok] at *)
  (try dsimp only [cbor_float_get_float2.ok, cbor_float_get_float4.ok, cbor_float_get_float8.ok] at *)))

macro "facc_decide" : tactic => `(tactic| (facc_unfold; acc_decide))

/-! ## 1. round trips on bit patterns -/

/-- what `cbor_set_float4` stored is what `cbor_float_get_float4` returns, bit for bit (NaN payloads, the sign of zero included) -/
theorem get_set_float4 (r : ItemRec) (v : UInt32) (h : 4 ≤ r.data.size) : cbor_float_get_float4 (cbor_set_float4 r v) = v := by
  have hv := v.toNat_lt
  dsimp only [cbor_float_get_float4, cbor_set_float4]
  rw [C.loadLE32, C.storeLE32, leNat_leStore _ _ _ _ (by omega), ← UInt32.toNat_inj]
  simp <;> omega
example : cbor_float_get_float4 (cbor_set_float4 { (default : ItemRec) with data := #[1, 2, 3, 4, 5] } 0x7F800001) = 0x7F800001 :=
  get_set_float4 _ _ (by decide)

/-- `cbor_set_float2` stores the `float` it is given **as is** (all 32 bits; the item only *serializes* as a half) -/
theorem get_set_float2 (r : ItemRec) (v : UInt32) (h : 4 ≤ r.data.size) : cbor_float_get_float2 (cbor_set_float2 r v) = v := by
  have hv := v.toNat_lt
  dsimp only [cbor_float_get_float2, cbor_set_float2]
  rw [C.loadLE32, C.storeLE32, leNat_leStore _ _ _ _ (by omega), ← UInt32.toNat_inj]
  simp <;> omega
example : cbor_float_get_float2 (cbor_set_float2 { (default : ItemRec) with data := #[1, 2, 3, 4] } 0x3F801FFF) = 0x3F801FFF :=
  get_set_float2 _ _ (by decide)

theorem get_set_float8 (r : ItemRec) (v : UInt64) (h : 8 ≤ r.data.size) : cbor_float_get_float8 (cbor_set_float8 r v) = v := by
  have hv := v.toNat_lt
  dsimp only [cbor_float_get_float8, cbor_set_float8]
  rw [C.loadLE64, C.storeLE64, leNat_leStore _ _ _ _ (by omega), ← UInt64.toNat_inj]
  simp <;> omega
example : cbor_float_get_float8 (cbor_set_float8 { (default : ItemRec) with data := #[1, 2, 3, 4, 5, 6, 7, 8] } 0x8000000000000000)
    = 0x8000000000000000 := get_set_float8 _ _ (by decide)

/-- **the last store wins** — for *every* pair of patterns, in particular `-0.0` over `+0.0` and a NaN over (the same or another) NaN,
which compare equal / unequal as numbers.  No hypothesis: the statement is about the whole record. -/
theorem set_set_float8 (r : ItemRec) (a b : UInt64) : cbor_set_float8 (cbor_set_float8 r a) b = cbor_set_float8 r b := by
  dsimp only [cbor_set_float8, C.storeLE64]
  rw [leStore_leStore]
theorem set_set_float4 (r : ItemRec) (a b : UInt32) : cbor_set_float4 (cbor_set_float4 r a) b = cbor_set_float4 r b := by
  dsimp only [cbor_set_float4, C.storeLE32]
  rw [leStore_leStore]
theorem set_set_float2 (r : ItemRec) (a b : UInt32) : cbor_set_float2 (cbor_set_float2 r a) b = cbor_set_float2 r b := by
  dsimp only [cbor_set_float2, C.storeLE32]
  rw [leStore_leStore]
/-- `+0.0` then `-0.0`: the item holds `-0.0` -/
theorem set_pos_zero_neg_zero (r : ItemRec) (h : 8 ≤ r.data.size) :
    cbor_float_get_float8 (cbor_set_float8 (cbor_set_float8 r 0) 0x8000000000000000) = 0x8000000000000000 := by
  rw [set_set_float8, get_set_float8 _ _ h]
example : cbor_float_get_float8 (cbor_set_float8 (cbor_set_float8 { (default : ItemRec) with data := #[9, 9, 9, 9, 9, 9, 9, 9] } 0)
    0x8000000000000000) = 0x8000000000000000 := set_pos_zero_neg_zero _ (by decide)

/-! ## 2. frame: the setters change `data[0..N)` and nothing else -/

theorem set_float2_fields (r : ItemRec) (v : UInt32) : cbor_set_float2 r v = { r with data := (cbor_set_float2 r v).data } := by
  dsimp only [cbor_set_float2]
  repeat' split
  all_goals first | contradiction | (with_reducible rfl) | rfl
theorem set_float4_fields (r : ItemRec) (v : UInt32) : cbor_set_float4 r v = { r with data := (cbor_set_float4 r v).data } := by
  dsimp only [cbor_set_float4]
  repeat' split
  all_goals first | contradiction | (with_reducible rfl) | rfl
theorem set_float8_fields (r : ItemRec) (v : UInt64) : cbor_set_float8 r v = { r with data := (cbor_set_float8 r v).data } := by
  dsimp only [cbor_set_float8]
  repeat' split
  all_goals first | contradiction | (with_reducible rfl) | rfl

/-- size / far-byte goals of a frame theorem, whatever the shape of the setter (a plain store, or a store under an `if`): unification is
kept at reducible transparency so that a lemma that does not apply fails at once instead of unfolding the store -/
macro "frame_leaf" : tactic => `(tactic| first
  | (with_reducible rfl)
  | (with_reducible exact leStore_size _ _ _ _)
  | ((with_reducible refine leStore_getD_out _ _ _ _ _ (Or.inr ?_)); omega))
macro "frame_tac" : tactic => `(tactic| (
  refine ⟨?_, fun i hi => ?_⟩
  all_goals first
    | frame_leaf
    | (split <;> frame_leaf)))

/-- of `data` only the first 4 / 4 / 8 bytes; its length is unchanged (`cbor_set_float2` writes 4 bytes: it stores a `float`) -/
theorem set_float2_frame (r : ItemRec) (v : UInt32) :
    (cbor_set_float2 r v).data.size = r.data.size ∧ ∀ i, 4 ≤ i → (cbor_set_float2 r v).data.getD i 0 = r.data.getD i 0 := by
  dsimp only [cbor_set_float2, C.storeLE32]
  frame_tac
theorem set_float4_frame (r : ItemRec) (v : UInt32) :
    (cbor_set_float4 r v).data.size = r.data.size ∧ ∀ i, 4 ≤ i → (cbor_set_float4 r v).data.getD i 0 = r.data.getD i 0 := by
  dsimp only [cbor_set_float4, C.storeLE32]
  frame_tac
theorem set_float8_frame (r : ItemRec) (v : UInt64) :
    (cbor_set_float8 r v).data.size = r.data.size ∧ ∀ i, 8 ≤ i → (cbor_set_float8 r v).data.getD i 0 = r.data.getD i 0 := by
  dsimp only [cbor_set_float8, C.storeLE64]
  frame_tac
example : (cbor_set_float4 { (default : ItemRec) with data := #[1, 2, 3, 4, 5] } 7).data.getD 4 0 = 5 := by
  rw [(set_float4_frame _ _).2 4 (by decide)]; rfl

/-- in particular: not the width tag, not the type tag, not the reference count, no metadata of any other kind -/
theorem setters_keep_tags (r : ItemRec) :
    (∀ v, (cbor_set_float2 r v).float_width = r.float_width ∧ (cbor_set_float2 r v).type = r.type ∧ (cbor_set_float2 r v).refcount = r.refcount ∧
      (cbor_set_float2 r v).ctrl = r.ctrl) ∧
    (∀ v, (cbor_set_float4 r v).float_width = r.float_width ∧ (cbor_set_float4 r v).type = r.type ∧ (cbor_set_float4 r v).refcount = r.refcount ∧
      (cbor_set_float4 r v).ctrl = r.ctrl) ∧
    (∀ v, (cbor_set_float8 r v).float_width = r.float_width ∧ (cbor_set_float8 r v).type = r.type ∧ (cbor_set_float8 r v).refcount = r.refcount ∧
      (cbor_set_float8 r v).ctrl = r.ctrl) := by
  refine ⟨fun v => ?_, fun v => ?_, fun v => ?_⟩
  · rw [set_float2_fields]; exact ⟨rfl, rfl, rfl, rfl⟩
  · rw [set_float4_fields]; exact ⟨rfl, rfl, rfl, rfl⟩
  · rw [set_float8_fields]; exact ⟨rfl, rfl, rfl, rfl⟩

/-- the getters read the little-endian value of `data[0..4)` / `data[0..8)` (`leVal`: the specification-side sum) -/
theorem get_float2_val (r : ItemRec) : (cbor_float_get_float2 r).toNat = leVal r 4 := by
  have := leNat_lt r.data 0 4
  dsimp only [cbor_float_get_float2]
  rw [C.loadLE32, ← leNat_eq_leVal4]; simp <;> omega
theorem get_float4_val (r : ItemRec) : (cbor_float_get_float4 r).toNat = leVal r 4 := by
  have := leNat_lt r.data 0 4
  dsimp only [cbor_float_get_float4]
  rw [C.loadLE32, ← leNat_eq_leVal4]; simp <;> omega
theorem get_float8_val (r : ItemRec) : (cbor_float_get_float8 r).toNat = leVal r 8 := by
  have := leNat_lt r.data 0 8
  dsimp only [cbor_float_get_float8]
  rw [C.loadLE64, ← leNat_eq_leVal8]; simp <;> omega

/-! ## 3. side conditions, exactly -/

/-- the assertions hold exactly when the item is a FLOAT_CTRL (tag 7) of the right width tag (HALF = 1, SINGLE = 2, DOUBLE = 3; this
implies `cbor_is_float`: width ≠ 0) and `data` holds the 4 / 4 / 8 bytes that are read -/
theorem get_float2_ok (r : ItemRec) : cbor_float_get_float2.ok r = true ↔ r.type = 7 ∧ r.float_width = 1 ∧ 4 ≤ r.data.size := by facc_decide
theorem get_float4_ok (r : ItemRec) : cbor_float_get_float4.ok r = true ↔ r.type = 7 ∧ r.float_width = 2 ∧ 4 ≤ r.data.size := by facc_decide
theorem get_float8_ok (r : ItemRec) : cbor_float_get_float8.ok r = true ↔ r.type = 7 ∧ r.float_width = 3 ∧ 8 ≤ r.data.size := by facc_decide
/-- the setters assert the same as the getters (whatever the value) -/
theorem set_float_ok (r : ItemRec) :
    (∀ v, cbor_set_float2.ok r v = cbor_float_get_float2.ok r) ∧ (∀ v, cbor_set_float4.ok r v = cbor_float_get_float4.ok r) ∧
    (∀ v, cbor_set_float8.ok r v = cbor_float_get_float8.ok r) := by
  refine ⟨fun v => ?_, fun v => ?_, fun v => ?_⟩ <;> rw [Bool.eq_iff_iff] <;> facc_decide
/-- `cbor_float_get_float`: `cbor_is_float` (tag 7, width tag ≠ 0) and, for the three width tags of the enumeration, the bytes; **no**
requirement on `data` for a width tag above 3 (the `default:` branch reads nothing) -/
theorem get_float_ok (r : ItemRec) :
    cbor_float_get_float.ok r = true ↔
      r.type = 7 ∧ r.float_width ≠ 0 ∧ ((r.float_width = 1 ∨ r.float_width = 2) → 4 ≤ r.data.size) ∧ (r.float_width = 3 → 8 ≤ r.data.size) := by
  facc_decide

/-! ## 4. `cbor_float_get_float` -/

/-- the width-agnostic getter is the width-specific one, widened with `(double)` for the two `float`-valued ones; for width tag 0 (a
ctrl item: excluded by the assertion, see `get_float_ok`) the code returns the widened `NAN` = the quiet NaN `0x7FF8000000000000`, for a width
tag above 3 it returns `0.0` (`_CBOR_UNREACHABLE` expands to nothing in this configuration) -/
theorem get_float_eq (r : ItemRec) :
    (r.float_width = 1 → cbor_float_get_float r = Prelude.f32ToF64 (cbor_float_get_float2 r)) ∧
    (r.float_width = 2 → cbor_float_get_float r = Prelude.f32ToF64 (cbor_float_get_float4 r)) ∧
    (r.float_width = 3 → cbor_float_get_float r = cbor_float_get_float8 r) ∧
    (r.float_width = 0 → cbor_float_get_float r = 0x7FF8000000000000) ∧
    (3 < r.float_width.toNat → cbor_float_get_float r = 0) := by
  have hnan : Prelude.f32ToF64 2143289344 = 0x7FF8000000000000 := by decide
  unfold cbor_float_get_float cbor_float_get_width
  dsimp only
  refine ⟨fun h => ?_, fun h => ?_, fun h => ?_, fun h => ?_, fun h => ?_⟩
  · rw [h]; simp
  · rw [h]; simp
  · rw [h]; simp
  · rw [h]; simp [hnan]
  · repeat' split
    all_goals cnorm
    all_goals first | omega | (with_reducible rfl)
example : cbor_float_get_float { (default : ItemRec) with float_width := 2, data := #[0, 0, 0x80, 0x3F] } = 0x3FF0000000000000 := by decide
example : cbor_float_get_float { (default : ItemRec) with float_width := 1, data := #[1, 0, 0x80, 0x7F] } = 0x7FF8000020000000 := by decide
example : cbor_float_get_float { (default : ItemRec) with float_width := 9 } = 0 := (get_float_eq _).2.2.2.2 (by decide)

/-- set through the width-specific setter, read through the generic getter -/
theorem get_float_set (r : ItemRec) :
    (∀ v, r.float_width = 1 → 4 ≤ r.data.size → cbor_float_get_float (cbor_set_float2 r v) = Prelude.f32ToF64 v) ∧
    (∀ v, r.float_width = 2 → 4 ≤ r.data.size → cbor_float_get_float (cbor_set_float4 r v) = Prelude.f32ToF64 v) ∧
    (∀ v, r.float_width = 3 → 8 ≤ r.data.size → cbor_float_get_float (cbor_set_float8 r v) = v) := by
  refine ⟨fun v hw hs => ?_, fun v hw hs => ?_, fun v hw hs => ?_⟩
  · rw [(get_float_eq _).1 (by rw [((setters_keep_tags r).1 v).1]; exact hw), get_set_float2 _ _ hs]
  · rw [(get_float_eq _).2.1 (by rw [((setters_keep_tags r).2.1 v).1]; exact hw), get_set_float4 _ _ hs]
  · rw [(get_float_eq _).2.2.1 (by rw [((setters_keep_tags r).2.2 v).1]; exact hw), get_set_float8 _ _ hs]
example : cbor_float_get_float (cbor_set_float4 { (default : ItemRec) with float_width := 2, data := #[0, 0, 0, 0] } 0x3F800000)
    = Prelude.f32ToF64 0x3F800000 := (get_float_set _).2.1 _ rfl (by decide)

/-! ## 5. the widening `float → double` is exact -/

/-- `(m, e)` denoting `m · 2^e`, normalised: common factors of two are moved from the mantissa into the exponent until the mantissa is odd;
zero is `(0, 0)`.  Two pairs denote the same number iff their normal forms are equal. -/
def norm (m : Nat) (e : Int) : Nat × Int :=
  if h0 : m = 0 then (0, 0) else if m % 2 = 0 then norm (m / 2) (e + 1) else (m, e)
termination_by m
decreasing_by omega

theorem norm_zero (e : Int) : norm 0 e = (0, 0) := by rw [norm]; simp
theorem norm_two_mul (m : Nat) (e : Int) (h : m ≠ 0) : norm (2 * m) (e - 1) = norm m e := by
  rw [norm]
  have h1 : 2 * m ≠ 0 := by omega
  have h2 : 2 * m % 2 = 0 := by omega
  have h3 : 2 * m / 2 = m := by omega
  have h4 : e - 1 + 1 = e := by omega
  simp only [h1, h2, h3, h4, dite_false, if_true]
example : norm (2 * 3) (0 - 1) = norm 3 0 := norm_two_mul 3 0 (by decide)
/-- scaling the mantissa by `2^k` and the exponent by `-k` does not change the number -/
theorem norm_mul_two_pow (m k : Nat) (e : Int) : norm (m * 2 ^ k) (e - k) = norm m e := by
  by_cases hm : m = 0
  · subst hm; simp [norm_zero]
  induction k generalizing e with
  | zero => simp
  | succ k ih =>
    have hne : m * 2 ^ k ≠ 0 := Nat.mul_ne_zero hm (Nat.pos_iff_ne_zero.mp (Nat.pow_pos (by decide)))
    have h1 : m * 2 ^ (k + 1) = 2 * (m * 2 ^ k) := by rw [Nat.pow_succ]; ac_rfl
    have h2 : e - ((k + 1 : Nat) : Int) = (e - k) - 1 := by omega
    rw [h1, h2, norm_two_mul _ _ hne, ih]

/-- the number a binary32 pattern denotes: `(sign, m, e)` for `(-1)^sign · m · 2^e` with `m` odd, `(sign, 0, 0)` for `±0`; `none` for `±∞` and NaN -/
def valF32 (b : UInt32) : Option (Bool × Nat × Int) :=
  let n := b.toNat
  let s := decide (n / 2147483648 = 1)
  let e := n / 8388608 % 256
  let f := n % 8388608
  if e = 255 then none
  else if e = 0 then some (s, norm f (-149))                         -- subnormal / zero: f · 2^(1-127-23)
  else some (s, norm (8388608 + f) ((e : Int) - 150))                -- normal: (2^23 + f) · 2^(e-127-23)
/-- the number a binary64 pattern denotes -/
def valF64 (b : UInt64) : Option (Bool × Nat × Int) :=
  let n := b.toNat
  let s := decide (n / 9223372036854775808 = 1)
  let e := n / 4503599627370496 % 2048
  let f := n % 4503599627370496
  if e = 2047 then none
  else if e = 0 then some (s, norm f (-1074))
  else some (s, norm (4503599627370496 + f) ((e : Int) - 1075))

example : valF32 0x3F800000 = some (false, 1, 0) := by simp [valF32, norm]                     -- 1.0
example : valF64 0x3FF0000000000000 = some (false, 1, 0) := by simp [valF64, norm]
example : valF32 0x00000001 = some (false, 1, -149) := by simp [valF32, norm]                  -- smallest subnormal
example : valF32 0xC0400000 = some (true, 3, 0) := by simp [valF32, norm]                      -- -3.0
example : valF32 0x80000000 = some (true, 0, 0) := by simp [valF32, norm]                      -- -0.0
example : valF32 0x7F800000 = none := by simp [valF32]

/-- facts about the leading bit of a non-zero 23-bit fraction -/
theorem sub_bound (f : Nat) (hf : f ≠ 0) (hlt : f < 8388608) :
    Nat.log2 f ≤ 22 ∧ 2 ^ Nat.log2 f ≤ f ∧ (f - 2 ^ Nat.log2 f) * 2 ^ (52 - Nat.log2 f) < 4503599627370496 ∧
    4503599627370496 + (f - 2 ^ Nat.log2 f) * 2 ^ (52 - Nat.log2 f) = f * 2 ^ (52 - Nat.log2 f) := by
  have hp : Nat.log2 f < 23 := (Nat.log2_lt hf).mpr hlt
  have hle : 2 ^ Nat.log2 f ≤ f := Nat.log2_self_le hf
  have hlt2 : f < 2 ^ (Nat.log2 f + 1) := Nat.lt_log2_self
  generalize Nat.log2 f = p at *
  have hq : 2 ^ p * 2 ^ (52 - p) = 4503599627370496 := by
    rw [← Nat.pow_add]; have : p + (52 - p) = 52 := by omega
    rw [this]
  have ht : 0 < 2 ^ (52 - p) := Nat.pow_pos (by decide)
  have h1 : f - 2 ^ p < 2 ^ p := by rw [Nat.pow_succ] at hlt2; omega
  have h2 : (f - 2 ^ p) * 2 ^ (52 - p) < 2 ^ p * 2 ^ (52 - p) := Nat.mul_lt_mul_of_lt_of_le h1 (Nat.le_refl _) ht
  refine ⟨by omega, hle, by omega, ?_⟩
  rw [← hq, ← Nat.add_mul]
  congr 1; omega
example : Nat.log2 5 ≤ 22 ∧ 2 ^ Nat.log2 5 ≤ 5 := ⟨(sub_bound 5 (by decide) (by decide)).1, (sub_bound 5 (by decide) (by decide)).2.1⟩


/-- the three fields of the result, without the final reduction modulo 2^64: `sign · 2^63 + exponent · 2^52 + fraction` -/
theorem f32ToF64_toNat (b : UInt32) :
    (Prelude.f32ToF64 b).toNat =
      b.toNat / 2147483648 * 9223372036854775808 +
        (if b.toNat / 8388608 % 256 = 255 then
           (if b.toNat % 8388608 = 0 then 0x7FF0000000000000 else 0x7FF8000000000000 + b.toNat % 8388608 % 4194304 * 536870912)
         else if b.toNat / 8388608 % 256 = 0 then
           (if b.toNat % 8388608 = 0 then 0
            else (Nat.log2 (b.toNat % 8388608) + 874) * 4503599627370496 +
              (b.toNat % 8388608 - 2 ^ Nat.log2 (b.toNat % 8388608)) * 2 ^ (52 - Nat.log2 (b.toNat % 8388608)))
         else (b.toNat / 8388608 % 256 + 896) * 4503599627370496 + b.toNat % 8388608 * 536870912) := by
  have hn := b.toNat_lt
  unfold Prelude.f32ToF64
  simp only [UInt64.toNat_ofNat']
  apply Nat.mod_eq_of_lt
  generalize b.toNat = n at *
  repeat' split
  · omega
  · omega
  · omega
  · rename_i h1 h2 h3
    have hb := sub_bound (n % 8388608) h3 (by omega)
    generalize Nat.log2 (n % 8388608) = p at *
    generalize (n % 8388608 - 2 ^ p) * 2 ^ (52 - p) = g at *
    omega
  · omega

/-- **exactness**: for every finite binary32 pattern (zeros, subnormals, normals) the binary64 pattern produced denotes the same number -/
theorem f32ToF64_exact (b : UInt32) (h : b.toNat / 8388608 % 256 ≠ 255) : valF64 (Prelude.f32ToF64 b) = valF32 b := by
  have hn := b.toNat_lt
  unfold valF64 valF32
  rw [f32ToF64_toNat]
  generalize b.toNat = n at *
  simp only [h, if_false]
  by_cases he : n / 8388608 % 256 = 0
  · by_cases hf : n % 8388608 = 0
    · simp only [he, hf, if_true]
      have e1 : (n / 2147483648 * 9223372036854775808 + 0) / 4503599627370496 % 2048 = 0 := by omega
      have e2 : (n / 2147483648 * 9223372036854775808 + 0) % 4503599627370496 = 0 := by omega
      have e3 : (n / 2147483648 * 9223372036854775808 + 0) / 9223372036854775808 = n / 2147483648 := by omega
      simp only [e1, e2, e3, if_true, norm_zero]
      simp
    · simp only [he, hf, if_true, if_false]
      have hb := sub_bound (n % 8388608) hf (by omega)
      obtain ⟨hp, hle, hg, hsum⟩ := hb
      have hk := norm_mul_two_pow (n % 8388608) (52 - Nat.log2 (n % 8388608)) (-149)
      rw [← hsum] at hk
      generalize Nat.log2 (n % 8388608) = p at *
      generalize (n % 8388608 - 2 ^ p) * 2 ^ (52 - p) = g at *
      have e1 : (n / 2147483648 * 9223372036854775808 + ((p + 874) * 4503599627370496 + g)) / 4503599627370496 % 2048 = p + 874 := by omega
      have e2 : (n / 2147483648 * 9223372036854775808 + ((p + 874) * 4503599627370496 + g)) % 4503599627370496 = g := by omega
      have e3 : (n / 2147483648 * 9223372036854775808 + ((p + 874) * 4503599627370496 + g)) / 9223372036854775808 = n / 2147483648 := by omega
      have e4 : p + 874 ≠ 2047 := by omega
      have e5 : p + 874 ≠ 0 := by omega
      have e6 : ((p + 874 : Nat) : Int) - 1075 = -149 - ((52 - p : Nat) : Int) := by omega
      simp only [e1, e2, e3, e4, e5, if_false, e6, hk]
  · simp only [he, if_false]
    have hk := norm_mul_two_pow (8388608 + n % 8388608) 29 ((n / 8388608 % 256 : Nat) - 150)
    have hm : (8388608 + n % 8388608) * 2 ^ 29 = 4503599627370496 + n % 8388608 * 536870912 := by omega
    rw [hm] at hk
    have hf8 : n % 8388608 < 8388608 := Nat.mod_lt _ (by decide)
    have he8 : n / 8388608 % 256 < 256 := Nat.mod_lt _ (by decide)
    generalize n / 8388608 % 256 = e at *
    generalize n % 8388608 = f at *
    have e1 : (n / 2147483648 * 9223372036854775808 + ((e + 896) * 4503599627370496 + f * 536870912)) / 4503599627370496 % 2048 = e + 896 := by omega
    have e2 : (n / 2147483648 * 9223372036854775808 + ((e + 896) * 4503599627370496 + f * 536870912)) % 4503599627370496 = f * 536870912 := by omega
    have e3 : (n / 2147483648 * 9223372036854775808 + ((e + 896) * 4503599627370496 + f * 536870912)) / 9223372036854775808 = n / 2147483648 := by omega
    have e4 : e + 896 ≠ 2047 := by omega
    have e5 : e + 896 ≠ 0 := by omega
    have e6 : ((e + 896 : Nat) : Int) - 1075 = ((e : Nat) : Int) - 150 - ((29 : Nat) : Int) := by omega
    simp only [e1, e2, e3, e4, e5, if_false, e6, hk]
example : valF64 (Prelude.f32ToF64 0x00000001) = valF32 0x00000001 := f32ToF64_exact _ (by decide)
example : valF64 (Prelude.f32ToF64 0x00000001) = some (false, 1, -149) := by
  rw [f32ToF64_exact _ (by decide)]; simp [valF32, norm]


/-- `±∞ ↦ ±∞` -/
theorem f32ToF64_inf : Prelude.f32ToF64 0x7F800000 = 0x7FF0000000000000 ∧ Prelude.f32ToF64 0xFF800000 = 0xFFF0000000000000 := by decide

/-- NaN ↦ NaN, and exactly which one: sign kept, exponent all ones, the 23 fraction bits moved to the top of the 52 **with the quiet bit
(bit 51) set** — the payload bits 0..21 are kept, bit 22 (quiet / signalling) is forced to 1 (x86-64 `cvtss2sd`) -/
theorem f32ToF64_nan (b : UInt32) (h : C.isNaN32 b = true) :
    C.isNaN64 (Prelude.f32ToF64 b) = true ∧
    (Prelude.f32ToF64 b).toNat = b.toNat / 2147483648 * 9223372036854775808 + 0x7FF8000000000000 + b.toNat % 4194304 * 536870912 := by
  have hn := b.toNat_lt
  rw [Props.C15.isNaN32_spec] at h
  rw [Props.C15.isNaN64_spec, f32ToF64_toNat]
  unfold Spec.Float.isNaN at *
  simp only [decide_eq_true_eq, Nat.reducePow, Nat.reduceSub] at *
  obtain ⟨h1, h2⟩ := h
  simp only [h1, h2, if_true, if_false]
  generalize b.toNat = n at *
  omega
example : Prelude.f32ToF64 0x7F800001 = 0x7FF8000020000000 := by decide     -- a signalling NaN comes out quiet, payload kept
example : C.isNaN64 (Prelude.f32ToF64 0xFF800001) = true := (f32ToF64_nan 0xFF800001 (by decide)).1
/-- a non-NaN never becomes a NaN -/
theorem f32ToF64_not_nan (b : UInt32) (h : C.isNaN32 b = false) : C.isNaN64 (Prelude.f32ToF64 b) = false := by
  have hn := b.toNat_lt
  rw [Props.C15.isNaN32_spec] at h
  rw [Props.C15.isNaN64_spec, f32ToF64_toNat]
  unfold Spec.Float.isNaN at *
  simp only [decide_eq_false_iff_not, Nat.reducePow, Nat.reduceSub, not_and, Decidable.not_not] at *
  intro hE
  by_cases he : b.toNat / 8388608 % 256 = 255
  · have hf := h he
    simp only [he, hf, if_true] at *
    generalize b.toNat = n at *
    omega
  · exfalso
    simp only [he, if_false] at hE
    by_cases h0 : b.toNat / 8388608 % 256 = 0
    · by_cases hf : b.toNat % 8388608 = 0
      · simp only [h0, hf, if_true] at hE
        generalize b.toNat = n at *
        omega
      · simp only [h0, hf, if_true, if_false] at hE
        obtain ⟨hp, hle, hg, hsum⟩ := sub_bound (b.toNat % 8388608) hf (by omega)
        generalize Nat.log2 (b.toNat % 8388608) = p at *
        generalize (b.toNat % 8388608 - 2 ^ p) * 2 ^ (52 - p) = g at *
        generalize b.toNat = n at *
        omega
    · simp only [h0, if_false] at hE
      generalize b.toNat = n at *
      omega
example : C.isNaN64 (Prelude.f32ToF64 0x7F7FFFFF) = false := f32ToF64_not_nan _ (by decide)

/-- the four kinds of non-NaN binary32 patterns and what `f32ToF64` makes of exponent and fraction (`m` = the low 63 bits of the result) -/
theorem mag_cases (n : Nat) (hn : n < 4294967296) (h : n / 8388608 % 256 = 255 → n % 8388608 = 0) (m : Nat)
    (hm : m = (if n / 8388608 % 256 = 255 then
           (if n % 8388608 = 0 then 0x7FF0000000000000 else 0x7FF8000000000000 + n % 8388608 % 4194304 * 536870912)
         else if n / 8388608 % 256 = 0 then
           (if n % 8388608 = 0 then 0
            else (Nat.log2 (n % 8388608) + 874) * 4503599627370496 +
              (n % 8388608 - 2 ^ Nat.log2 (n % 8388608)) * 2 ^ (52 - Nat.log2 (n % 8388608)))
         else (n / 8388608 % 256 + 896) * 4503599627370496 + n % 8388608 * 536870912)) :
    (n / 8388608 % 256 = 255 ∧ n % 8388608 = 0 ∧ m = 0x7FF0000000000000) ∨
    (n / 8388608 % 256 = 0 ∧ n % 8388608 = 0 ∧ m = 0) ∨
    (n / 8388608 % 256 = 0 ∧ ∃ p g, p ≤ 22 ∧ 2 ^ p ≤ n % 8388608 ∧ n % 8388608 < 2 ^ (p + 1) ∧ g < 4503599627370496 ∧
      g = (n % 8388608 - 2 ^ p) * 2 ^ (52 - p) ∧ m = (p + 874) * 4503599627370496 + g) ∨
    (1 ≤ n / 8388608 % 256 ∧ n / 8388608 % 256 ≤ 254 ∧ m = (n / 8388608 % 256 + 896) * 4503599627370496 + n % 8388608 * 536870912) := by
  by_cases e1 : n / 8388608 % 256 = 255
  · have := h e1
    simp only [e1, this, if_true] at hm
    exact Or.inl ⟨e1, this, hm⟩
  · rw [if_neg e1] at hm
    by_cases e0 : n / 8388608 % 256 = 0
    · by_cases f0 : n % 8388608 = 0
      · simp only [e0, f0, if_true] at hm
        exact Or.inr (Or.inl ⟨e0, f0, by omega⟩)
      · simp only [e0, f0, if_true, if_false] at hm
        obtain ⟨hp, hle, hg, _⟩ := sub_bound (n % 8388608) f0 (by omega)
        exact Or.inr (Or.inr (Or.inl ⟨e0, _, _, hp, hle, Nat.lt_log2_self, hg, rfl, by omega⟩))
    · simp only [e0, if_false] at hm
      exact Or.inr (Or.inr (Or.inr ⟨by omega, by omega, hm⟩))
example : True := by
  have := mag_cases 1065353216 (by decide) (by decide) _ rfl      -- the hypotheses are satisfiable: 1.0f is a normal number
  trivial

/-- **injective on non-NaN patterns** (every finite value and both infinities have exactly one image) … -/
theorem f32ToF64_inj (a b : UInt32) (ha : C.isNaN32 a = false) (hb : C.isNaN32 b = false)
    (h : Prelude.f32ToF64 a = Prelude.f32ToF64 b) : a = b := by
  have hna := a.toNat_lt
  have hnb := b.toNat_lt
  rw [Props.C15.isNaN32_spec] at ha hb
  unfold Spec.Float.isNaN at ha hb
  simp only [decide_eq_false_iff_not, Nat.reducePow, Nat.reduceSub, not_and, Decidable.not_not] at ha hb
  have h' := congrArg UInt64.toNat h
  rw [f32ToF64_toNat, f32ToF64_toNat] at h'
  apply UInt32.toNat_inj.mp
  generalize a.toNat = x at *
  generalize b.toNat = y at *
  have cx := mag_cases x hna ha _ rfl
  have cy := mag_cases y hnb hb _ rfl
  revert h' cx cy
  generalize (if x / 8388608 % 256 = 255 then _ else _ : Nat) = mx
  generalize (if y / 8388608 % 256 = 255 then _ else _ : Nat) = my
  intro h' cx cy
  rcases cx with ⟨x1, x2, x3⟩ | ⟨x1, x2, x3⟩ | ⟨x1, p, g, x2, x3, x4, x5, x6, x7⟩ | ⟨x1, x2, x3⟩ <;>
  rcases cy with ⟨y1, y2, y3⟩ | ⟨y1, y2, y3⟩ | ⟨y1, q, k, y2, y3, y4, y5, y6, y7⟩ | ⟨y1, y2, y3⟩ <;>
  (try omega)
  -- both subnormal: same leading bit, same shifted remainder, hence the same fraction
  have hpq : p = q := by omega
  subst hpq
  have hgk : g = k := by omega
  rw [x6, y6] at hgk
  have ht : 0 < 2 ^ (52 - p) := Nat.pow_pos (by decide)
  have := Nat.eq_of_mul_eq_mul_right ht hgk
  omega
example : (0x00000001 : UInt32) = 0x00000001 := f32ToF64_inj _ _ (by decide) (by decide) rfl
/-- … but **not** on NaNs: a signalling NaN and the quiet NaN with the same payload have the same image -/
theorem f32ToF64_nan_collision : Prelude.f32ToF64 0x7F800001 = Prelude.f32ToF64 0x7FC00001 := by decide


/-- consequently the generic getter returns a `double` denoting exactly the number the stored `float` denotes (finite case) -/
theorem get_float_value (r : ItemRec) :
    (r.float_width = 1 → (cbor_float_get_float2 r).toNat / 8388608 % 256 ≠ 255 →
      valF64 (cbor_float_get_float r) = valF32 (cbor_float_get_float2 r)) ∧
    (r.float_width = 2 → (cbor_float_get_float4 r).toNat / 8388608 % 256 ≠ 255 →
      valF64 (cbor_float_get_float r) = valF32 (cbor_float_get_float4 r)) := by
  refine ⟨fun hw hf => ?_, fun hw hf => ?_⟩
  · rw [(get_float_eq r).1 hw, f32ToF64_exact _ hf]
  · rw [(get_float_eq r).2.1 hw, f32ToF64_exact _ hf]
example : valF64 (cbor_float_get_float { (default : ItemRec) with float_width := 2, data := #[0, 0, 0x40, 0xC0] }) = some (true, 3, 0) := by
  rw [(get_float_value _).2 rfl (by decide)]; simp [valF32, norm, cbor_float_get_float4, C.loadLE32, C.leNat]

end Props.FloatAccessors

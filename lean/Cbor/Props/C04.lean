import Cbor.Lemmas.CopyCounts
import Cbor.Lemmas.Positive
/-!
# C04 — reference counting frees everything exactly once for rule-following clients

Over the heap-level model and its client layer (`Cbor/Model/Heap.lean`, `Client.lean`).  A client holds
references in *slots*; `own st r` is the number of slots holding `r`.  `Heap.Counts h own` says that every
live item's reference count equals the number of references live containers hold to it plus the number the
client owns, and that nothing refers to a released item.

* `C04_step`: every API operation — including `cbor_copy` with all of its clean-up paths under any allocator
  oracle, and `cbor_load` — preserves `Counts`, provided the client breaks no rule (the model's `fault` flag
  stays clear: it is raised exactly when an operation touches a released item, a slot it does not own, an
  item of the wrong type, or a full slot).
* `C04_run`: hence `Counts` holds after every rule-following history.
* `C04_no_use_after_release`: in a rule-following history no operation ever touched a released item.
* `C04_all_released`: when the client owns nothing and the container graph is acyclic, no item is live — all
  memory has been returned.
-/
namespace Props.C04
open Heap

/-- number of references to `r` the client owns -/
def own (st : St) : Ref → Nat := fun r => st.slots.count (some r)

theorem own_setSlot_some (st : St) (s : Nat) (x : Ref) (hs : s < st.slots.length) (he : st.slot s = none) :
    own (st.setSlot s (some x)) = bump (own st) x 1 := by
  funext r
  have hse : st.slots[s] = none := by
    simp only [St.slot, List.getElem?_eq_getElem hs] at he
    cases hh : st.slots[s] with
    | none => rfl
    | some v => rw [hh] at he; simp at he
  have := List.count_set (a := some x) (b := some r) (l := st.slots) (i := s) hs
  simp only [own, St.setSlot, bump]
  rw [this, hse]
  by_cases e : x = r
  · subst e; simp
  · have : ¬ r = x := fun h => e h.symm
    simp [e, this]

theorem own_setSlot_none (st : St) (s : Nat) (r : Ref) (he : st.slot s = some r) :
    bump (own (st.setSlot s none)) r 1 = own st := by
  have hs : s < st.slots.length := by
    cases Nat.lt_or_ge s st.slots.length with
    | inl h => exact h
    | inr h => simp [St.slot, List.getElem?_eq_none h] at he
  have hse : st.slots[s] = some r := by
    simp only [St.slot, List.getElem?_eq_getElem hs] at he
    cases hh : st.slots[s] with
    | none => rw [hh] at he; simp at he
    | some v => rw [hh] at he; simp at he; rw [he]
  funext y
  have := List.count_set (a := (none : Option Ref)) (b := some y) (l := st.slots) (i := s) hs
  have hpos : r = y → 0 < st.slots.count (some y) := by
    intro e; subst e
    exact List.count_pos_iff.mpr (hse ▸ List.getElem_mem hs)
  simp only [own, St.setSlot, bump]
  rw [this, hse]
  by_cases e : r = y
  · have := hpos e; subst e; simp; omega
  · have : ¬ y = r := fun h => e h.symm
    simp [e, this]

/-- storing a fresh reference: the slot must be empty and in range, and then the client owns one more -/
theorem fresh_counts (st : St) (s : Nat) (o : Option Ref) (h' : H)
    (hc : match o with | some x => Counts h' (bump (own st) x 1) | none => Counts h' (own st))
    (hf : (st.fresh s (o, h')).1.h.fault = false) :
    Counts (st.fresh s (o, h')).1.h (own (st.fresh s (o, h')).1) := by
  unfold St.fresh at hf ⊢
  split
  · rename_i hr; simp [hr, H.bad] at hf
  · rename_i hr
    simp only [hr, if_false] at hf
    have hs : s < st.slots.length := by omega
    cases hsl : st.slot s with
    | some v => simp [hsl, H.bad] at hf
    | none =>
      cases o with
      | none => simp only [hsl]; exact hc
      | some x =>
        simp only [hsl]
        have e : own ({ st with h := h' }.setSlot s (some x)) = bump (own st) x 1 :=
          own_setSlot_some { st with h := h' } s x hs hsl
        show Counts h' (own ({ st with h := h' }.setSlot s (some x)))
        rw [e]; exact hc

theorem fresh_fault (st : St) (s : Nat) (o : Option Ref) (h' : H) (hf : (st.fresh s (o, h')).1.h.fault = false) : h'.fault = false := by
  unfold St.fresh at hf
  split at hf
  · simp [H.bad] at hf
  · cases hsl : st.slot s with
    | some v => simp [hsl, H.bad] at hf
    | none =>
      cases o with
      | none => simpa [hsl] using hf
      | some x => simpa [hsl, St.setSlot] using hf

/-- `cbor_move`: the client's reference is given up without releasing the item -/
theorem counts_move {h : H} {o : Ref → Nat} {r : Ref} {c : Cell} (hc : Counts h (bump o r 1)) (hg : h.get r = some c) :
    Counts (h.put r (some { c with rc := c.rc - 1 })) o := by
  have hl := get_lt hg
  intro x
  have hp := refs_put h r (some { c with rc := c.rc - 1 }) x hl
  simp only [hg, cellRefs] at hp
  have hx := hc x
  by_cases e : x = r
  · subst e
    rw [get_put_same _ _ _ hl]
    rw [hg] at hx
    simp only [bump, if_true] at hx
    simp only; omega
  · rw [get_put_other _ _ _ _ e]
    simp only [bump, e, if_false, Nat.add_zero] at hx
    cases hgx : h.get x with
    | none => rw [hgx] at hx; simp only; omega
    | some cx => rw [hgx] at hx; simp only; omega

theorem buildTag_counts {ω : Oracle} {h : H} {o : Ref → Nat} {n : Nat} {x : Ref}
    (hc : Counts h o) (hf : (buildTag ω h n x).2.fault = false) :
    match (buildTag ω h n x).1 with
    | some t => Counts (buildTag ω h n x).2 (bump o t 1)
    | none => Counts (buildTag ω h n x).2 o := by
  have h1 := new1_counts (ω := ω) (n := .tag n none) rfl hc
  unfold buildTag at hf ⊢
  by_cases hω : ω h.reqs = true
  · have e : new1 ω h (.tag n none) = (some h.cells.length, ({ h with reqs := h.reqs + 1 } : H).new (.tag n none) |>.2) := by
      simp [new1, H.req, hω, H.new]
    rw [e] at h1 hf ⊢
    simp only at h1 hf ⊢
    have hg : (({ h with reqs := h.reqs + 1 } : H).new (.tag n none)).2.get h.cells.length = some ⟨.tag n none, 1⟩ :=
      get_new_same ({ h with reqs := h.reqs + 1 } : H) (.tag n none)
    have ht := tagSet_counts (t := h.cells.length) (x := x) h1 hf
    have e1 : (tagSet (({ h with reqs := h.reqs + 1 } : H).new (.tag n none)).2 h.cells.length x).1 = none := by
      unfold tagSet; rw [hg]
    rw [e1] at ht
    exact ht
  · have e : new1 ω h (.tag n none) = (none, ({ h with reqs := h.reqs + 1 } : H)) := by
      simp [new1, H.req, hω]
    rw [e] at h1 ⊢
    exact h1

theorem boolRes_counts (st : St) (r : Bool × H) (hc : Counts r.2 (own st)) : Counts (boolRes r st).1.h (own (boolRes r st).1) := hc

/-- the simple operations: everything except `copy` and `load` (see `C04_step` for those) -/
def Op.simple : Op → Bool
  | .copy _ _ | .load _ _ => false
  | _ => true

/-- **One step.**  A rule-following operation preserves the books. -/
theorem C04_step_simple (ω : Oracle) (L : Nat) (st : St) (op : Op) (hs : Op.simple op = true)
    (hc : Counts st.h (own st)) (hf : (step ω L st op).1.h.fault = false) :
    Counts (step ω L st op).1.h (own (step ω L st op).1) := by
  cases op with
  | newInt s neg w v => exact fresh_counts st s _ _ (new1_counts rfl hc) hf
  | newStr s t b => exact fresh_counts st s _ _ (new2_counts rfl hc) hf
  | newStrI s t => exact fresh_counts st s _ _ (new2_counts rfl hc) hf
  | newArr s d cap =>
    cases d with
    | true => exact fresh_counts st s _ _ (newMulti_counts rfl hc) hf
    | false => exact fresh_counts st s _ _ (new1_counts rfl hc) hf
  | newMap s d cap =>
    cases d with
    | true => exact fresh_counts st s _ _ (newMulti_counts rfl hc) hf
    | false => exact fresh_counts st s _ _ (new1_counts rfl hc) hf
  | newTag s n => exact fresh_counts st s _ _ (new1_counts rfl hc) hf
  | newCtrl s v => exact fresh_counts st s _ _ (new1_counts rfl hc) hf
  | newHalf s v => exact fresh_counts st s _ _ (new1_counts rfl hc) hf
  | newSingle s v => exact fresh_counts st s _ _ (new1_counts rfl hc) hf
  | newDouble s v => exact fresh_counts st s _ _ (new1_counts rfl hc) hf
  | buildTag s n x =>
    simp only [step] at hf ⊢
    cases hx : st.slot x with
    | none => simp [hx, St.bad, H.bad] at hf
    | some rx =>
      simp only [hx] at hf ⊢
      exact fresh_counts st s _ _ (buildTag_counts hc (fresh_fault st s _ _ hf)) hf
  | push a x =>
    simp only [step] at hf ⊢
    cases ha : st.slot a with
    | none => simp [ha, St.bad, H.bad] at hf
    | some ra =>
      cases hx : st.slot x with
      | none => simp [ha, hx, St.bad, H.bad] at hf
      | some rx =>
        simp only [ha, hx] at hf ⊢
        exact arrPush_counts hc hf
  | pushMove a x =>
    simp only [step] at hf ⊢
    cases ha : st.slot a with
    | none => simp [ha, St.bad, H.bad] at hf
    | some ra =>
      cases hx : st.slot x with
      | none => simp [ha, hx, St.bad, H.bad] at hf
      | some rx =>
        simp only [ha, hx] at hf ⊢
        cases hp : arrPush ω st.h ra rx with
        | mk ok h2 =>
          rw [hp] at hf
          cases ok with
          | false =>
            simp only at hf ⊢
            have := arrPush_counts (ω := ω) (a := ra) (x := rx) hc (by rw [hp]; exact hf)
            rw [hp] at this
            exact this
          | true =>
            simp only at hf ⊢
            cases hg : h2.get rx with
            | none => simp [hg, H.bad] at hf
            | some c =>
              simp only [hg] at hf ⊢
              have hc2 := arrPush_counts (ω := ω) (a := ra) (x := rx) hc (by rw [hp]; simpa [St.setSlot] using hf)
              rw [hp] at hc2
              have hown := own_setSlot_none st x rx hx
              have hc0 : Counts h2 (bump (own (st.setSlot x none)) rx 1) := by rw [hown]; exact hc2
              exact counts_move hc0 hg
  | set a i x =>
    simp only [step] at hf ⊢
    cases ha : st.slot a with
    | none => simp [ha, St.bad, H.bad] at hf
    | some ra =>
      cases hx : st.slot x with
      | none => simp [ha, hx, St.bad, H.bad] at hf
      | some rx =>
        simp only [ha, hx] at hf ⊢
        exact arrSet_counts hc hf
  | replace a i x =>
    simp only [step] at hf ⊢
    cases ha : st.slot a with
    | none => simp [ha, St.bad, H.bad] at hf
    | some ra =>
      cases hx : st.slot x with
      | none => simp [ha, hx, St.bad, H.bad] at hf
      | some rx =>
        simp only [ha, hx] at hf ⊢
        exact arrReplace_counts hc hf
  | get s a i =>
    simp only [step] at hf ⊢
    cases ha : st.slot a with
    | none => simp [ha, St.bad, H.bad] at hf
    | some ra =>
      simp only [ha] at hf ⊢
      exact fresh_counts st s _ _ (arrGet_counts hc (fresh_fault st s _ _ hf)) hf
  | mapAdd m k v =>
    simp only [step] at hf ⊢
    cases hm : st.slot m with
    | none => simp [hm, St.bad, H.bad] at hf
    | some rm =>
      cases hk : st.slot k with
      | none => simp [hm, hk, St.bad, H.bad] at hf
      | some rk =>
        cases hv : st.slot v with
        | none => simp [hm, hk, hv, St.bad, H.bad] at hf
        | some rv =>
          simp only [hm, hk, hv] at hf ⊢
          exact mapAdd_counts hc hf
  | chunk s c =>
    simp only [step] at hf ⊢
    cases hs' : st.slot s with
    | none => simp [hs', St.bad, H.bad] at hf
    | some rs =>
      cases hc' : st.slot c with
      | none => simp [hs', hc', St.bad, H.bad] at hf
      | some rc =>
        simp only [hs', hc'] at hf ⊢
        exact addChunk_counts hc hf
  | tagSet t x s =>
    simp only [step] at hf ⊢
    cases ht : st.slot t with
    | none => simp [ht, St.bad, H.bad] at hf
    | some rt =>
      cases hx : st.slot x with
      | none => simp [ht, hx, St.bad, H.bad] at hf
      | some rx =>
        simp only [ht, hx] at hf ⊢
        cases hts : tagSet st.h rt rx with
        | mk o h2 =>
          rw [hts] at hf
          cases o with
          | none =>
            simp only at hf ⊢
            have : (tagSet st.h rt rx).2.fault = false := by rw [hts]; exact hf
            have := tagSet_counts hc this
            rw [hts] at this
            exact this
          | some old =>
            simp only at hf ⊢
            split
            · rename_i hr; simp [hr, H.bad] at hf
            · rename_i hr
              simp only [hr, if_false] at hf
              cases hsl : st.slot s with
              | some v => simp [hsl, H.bad] at hf
              | none =>
                simp only [hsl] at hf ⊢
                have hf2 : (tagSet st.h rt rx).2.fault = false := by rw [hts]; simpa [St.setSlot] using hf
                have := tagSet_counts hc hf2
                rw [hts] at this
                simp only at this
                have e : own ({ st with h := h2 }.setSlot s (some old)) = bump (own st) old 1 :=
                  own_setSlot_some { st with h := h2 } s old (by show s < st.slots.length; omega) hsl
                show Counts h2 (own ({ st with h := h2 }.setSlot s (some old)))
                rw [e]; exact this
  | tagGet s t =>
    simp only [step] at hf ⊢
    cases ht : st.slot t with
    | none => simp [ht, St.bad, H.bad] at hf
    | some rt =>
      simp only [ht] at hf ⊢
      exact fresh_counts st s _ _ (tagGet_counts hc (fresh_fault st s _ _ hf)) hf
  | incref s x =>
    simp only [step] at hf ⊢
    cases hx : st.slot x with
    | none => simp [hx, St.bad, H.bad] at hf
    | some rx =>
      simp only [hx] at hf ⊢
      obtain ⟨_, cx, hgx⟩ := incref_fault_false (fresh_fault st s _ _ hf)
      exact fresh_counts st s (some rx) _ (counts_incref st.h (own st) rx cx hgx hc) hf
  | decref s =>
    simp only [step] at hf ⊢
    cases hs' : st.slot s with
    | none => simp [hs', St.bad, H.bad] at hf
    | some r =>
      simp only [hs'] at hf ⊢
      have hown := own_setSlot_none st s r hs'
      have hc0 : Counts st.h (bump (own (st.setSlot s none)) r 1) := by rw [hown]; exact hc
      exact (H.decref_counts st.h r _ hc0).1
  | copy s x => simp [Op.simple] at hs
  | load s b => simp [Op.simple] at hs

/-- **One step, any operation.**  `cbor_copy` (through all of its clean-up paths, for any allocator oracle) and
`cbor_load` preserve the books as well. -/
theorem C04_step (ω : Oracle) (L : Nat) (st : St) (op : Op)
    (hc : Counts st.h (own st)) (hf : (step ω L st op).1.h.fault = false) :
    Counts (step ω L st op).1.h (own (step ω L st op).1) := by
  by_cases hs : Op.simple op = true
  · exact C04_step_simple ω L st op hs hc hf
  · cases op <;> simp [Op.simple] at hs
    · rename_i s x
      simp only [step] at hf ⊢
      cases hx : st.slot x with
      | none => simp [hx, St.bad, H.bad] at hf
      | some rx =>
        simp only [hx] at hf ⊢
        have hcf := fresh_fault st s _ _ hf
        exact fresh_counts st s _ _ ((copy_counts_all ω _).1 st.h rx (own st) hc hcf) hf
    · rename_i s b
      simp only [step] at hf ⊢
      have hl := load_counts ω L st.h b.toArray (own st) hc
      exact fresh_counts st s _ _ hl hf

/-- the initial state (no items, no references) has its books in order -/
theorem counts_init : Counts ({} : St).h (own {}) := by
  intro r
  simp [H.get, H.refs, own]

/-- a history in which the client breaks no rule: after every operation the fault flag is still clear -/
def RuleFollowing (ω : Oracle) (L : Nat) : St → List Op → Prop
  | _, [] => True
  | st, op :: ops => (step ω L st op).1.h.fault = false ∧ RuleFollowing ω L (step ω L st op).1 ops

/-- **Every reachable state.**  After any rule-following history over the whole API, under any allocator oracle, every
item's reference count equals the number of references that exist to it. -/
theorem C04_run (ω : Oracle) (L : Nat) : ∀ (ops : List Op) (st : St),
    Counts st.h (own st) → RuleFollowing ω L st ops → Counts (run ω L st ops).h (own (run ω L st ops))
  | [], st, hc, _ => hc
  | op :: ops, st, hc, hr => by
    have h1 := C04_step ω L st op hc hr.1
    exact C04_run ω L ops (step ω L st op).1 h1 hr.2

/-- from the empty heap -/
theorem C04_run_from_init (ω : Oracle) (L : Nat) (ops : List Op) (hr : RuleFollowing ω L {} ops) :
    Counts (run ω L {} ops).h (own (run ω L {} ops)) :=
  C04_run ω L ops {} counts_init hr

/-- **No use after release.**  In a state whose books are in order, every reference a live container
holds and every reference the client owns points at a live item. -/
theorem C04_no_dangling (h : H) (o : Ref → Nat) (hc : Counts h o) :
    (∀ r, 0 < o r → ∃ c, h.get r = some c) ∧
    (∀ p c, h.get p = some c → ∀ x ∈ c.node.children, ∃ cx, h.get x = some cx) := by
  constructor
  · intro r hr
    have := hc r
    cases hg : h.get r with
    | none => rw [hg] at this; omega
    | some c => exact ⟨c, rfl⟩
  · intro p c hg x hx
    have := hc x
    cases hgx : h.get x with
    | none =>
      rw [hgx] at this
      have h1 := count_children_le h p c hg x
      have h2 : 0 < c.node.children.count x := List.count_pos_iff.mpr hx
      omega
    | some cx => exact ⟨cx, rfl⟩

/-- containers are acyclic: some rank strictly decreases from every live container to its members -/
def Acyclic (h : H) : Prop := ∃ rank : Ref → Nat, ∀ r c, h.get r = some c → ∀ x ∈ c.node.children, rank x < rank r

theorem exists_max (f : Nat → Nat) : ∀ (l : List Nat), l ≠ [] → ∃ m ∈ l, ∀ x ∈ l, f x ≤ f m
  | [], h => absurd rfl h
  | [a], _ => ⟨a, by simp, by intro x hx; simp at hx; subst hx; exact Nat.le_refl _⟩
  | a :: b :: t, _ => by
    obtain ⟨m, hm, hmax⟩ := exists_max f (b :: t) (by simp)
    by_cases c : f m ≤ f a
    · exact ⟨a, by simp, by
        intro x hx
        rcases List.mem_cons.mp hx with e | e
        · subst e; exact Nat.le_refl _
        · exact Nat.le_trans (hmax x e) c⟩
    · exact ⟨m, List.mem_cons_of_mem _ hm, by
        intro x hx
        rcases List.mem_cons.mp hx with e | e
        · subst e; omega
        · exact hmax x e⟩

theorem mem_refs {h : H} {x : Ref} (hx : x ∈ h.refs) : ∃ p c, h.get p = some c ∧ x ∈ c.node.children := by
  unfold H.refs at hx
  obtain ⟨oc, hoc, hxc⟩ := List.mem_flatMap.mp hx
  cases oc with
  | none => simp [cellRefs] at hxc
  | some c =>
    obtain ⟨p, hp, hpe⟩ := List.getElem_of_mem hoc
    refine ⟨p, c, ?_, hxc⟩
    simp [H.get, List.getElem?_eq_getElem hp, hpe]

/-- **Everything is released.**  When the client owns no reference any more, the books are in order, no live
item has a zero count and containers are acyclic, then no item is live: every block has gone back to the
allocator. -/
theorem C04_all_released (h : H) (o : Ref → Nat) (hc : Counts h o) (hz : ∀ r, o r = 0) (hac : Acyclic h)
    (hpos : ∀ r c, h.get r = some c → 0 < c.rc) : ∀ r, h.get r = none := by
  obtain ⟨rank, hrank⟩ := hac
  intro r0
  cases hg0 : h.get r0 with
  | none => rfl
  | some c0 =>
    exfalso
    let l := (List.range h.cells.length).filter fun i => (h.get i).isSome
    have hmem : ∀ i, i ∈ l ↔ (h.get i).isSome := by
      intro i
      simp only [l, List.mem_filter, List.mem_range]
      constructor
      · intro hh; exact hh.2
      · intro hh
        cases hgi : h.get i with
        | none => rw [hgi] at hh; simp at hh
        | some ci => exact ⟨get_lt hgi, by simp⟩
    have hne : l ≠ [] := by
      intro e
      have : r0 ∈ l := (hmem r0).mpr (by rw [hg0]; rfl)
      rw [e] at this; simp at this
    obtain ⟨m, hm, hmax⟩ := exists_max rank l hne
    have hml := (hmem m).mp hm
    cases hgm : h.get m with
    | none => rw [hgm] at hml; simp at hml
    | some cm =>
      have hcm := hc m
      rw [hgm, hz m] at hcm
      have hp := hpos m cm hgm
      have : 0 < h.refs.count m := by omega
      obtain ⟨p, cp, hgp, hmp⟩ := mem_refs (List.count_pos_iff.mp this)
      have h1 := hrank p cp hgp m hmp
      have h2 := hmax p ((hmem p).mpr (by rw [hgp]; rfl))
      omega

theorem fresh_pos (st : St) (s : Nat) (o : Option Ref) (h' : H) (hp : Pos h') : Pos (st.fresh s (o, h')).1.h := by
  unfold St.fresh
  split
  · exact pos_bad hp
  · cases hsl : st.slot s with
    | some v => exact pos_bad hp
    | none =>
      cases o with
      | none => exact hp
      | some x => exact hp

/-- **Live items have positive counts**, after every operation of the history language (no hypothesis on the client) -/
theorem C04_pos_step (ω : Oracle) (L : Nat) (st : St) (op : Op) (hp : Pos st.h) : Pos (step ω L st op).1.h := by
  cases op with
  | newInt s neg w v => exact fresh_pos st s _ _ (pos_new1 hp ω _)
  | newStr s t b => exact fresh_pos st s _ _ (pos_new2 hp ω _)
  | newStrI s t => exact fresh_pos st s _ _ (pos_new2 hp ω _)
  | newArr s d cap =>
    cases d with
    | true => exact fresh_pos st s _ _ (pos_newMulti hp ω _ _ _)
    | false => exact fresh_pos st s _ _ (pos_new1 hp ω _)
  | newMap s d cap =>
    cases d with
    | true => exact fresh_pos st s _ _ (pos_newMulti hp ω _ _ _)
    | false => exact fresh_pos st s _ _ (pos_new1 hp ω _)
  | newTag s n => exact fresh_pos st s _ _ (pos_new1 hp ω _)
  | newCtrl s v => exact fresh_pos st s _ _ (pos_new1 hp ω _)
  | newHalf s v => exact fresh_pos st s _ _ (pos_new1 hp ω _)
  | newSingle s v => exact fresh_pos st s _ _ (pos_new1 hp ω _)
  | newDouble s v => exact fresh_pos st s _ _ (pos_new1 hp ω _)
  | buildTag s n x =>
    simp only [step]
    cases hx : st.slot x with
    | none => exact pos_bad hp
    | some rx => exact fresh_pos st s _ _ (pos_buildTag hp ω n rx)
  | push a x =>
    simp only [step]
    cases ha : st.slot a with
    | none => exact pos_bad hp
    | some ra =>
      cases hx : st.slot x with
      | none => exact pos_bad hp
      | some rx => exact pos_arrPush hp ω ra rx
  | pushMove a x =>
    simp only [step]
    cases ha : st.slot a with
    | none => exact pos_bad hp
    | some ra =>
      cases hx : st.slot x with
      | none => exact pos_bad hp
      | some rx =>
        simp only
        have hq := pos_arrPush hp ω ra rx
        cases hpp : arrPush ω st.h ra rx with
        | mk ok h2 =>
          rw [hpp] at hq
          cases ok with
          | false => exact hq
          | true =>
            simp only
            cases hg : h2.get rx with
            | none => exact pos_bad hq
            | some c =>
              have h2' := arrPush_true_ge2 hp ω ra rx h2 hpp c hg
              exact pos_put hq rx _ (fun c' hc' => by cases hc'; simp only; omega)
  | set a i x =>
    simp only [step]
    cases ha : st.slot a with
    | none => exact pos_bad hp
    | some ra =>
      cases hx : st.slot x with
      | none => exact pos_bad hp
      | some rx => exact pos_arrSet hp ω ra i rx
  | replace a i x =>
    simp only [step]
    cases ha : st.slot a with
    | none => exact pos_bad hp
    | some ra =>
      cases hx : st.slot x with
      | none => exact pos_bad hp
      | some rx => exact pos_arrReplace hp ra i rx
  | get s a i =>
    simp only [step]
    cases ha : st.slot a with
    | none => exact pos_bad hp
    | some ra => exact fresh_pos st s _ _ (pos_arrGet hp ra i)
  | mapAdd m k v =>
    simp only [step]
    cases hm : st.slot m with
    | none => exact pos_bad hp
    | some rm =>
      cases hk : st.slot k with
      | none => exact pos_bad hp
      | some rk =>
        cases hv : st.slot v with
        | none => exact pos_bad hp
        | some rv => exact pos_mapAdd hp ω rm rk rv
  | chunk s c =>
    simp only [step]
    cases hs' : st.slot s with
    | none => exact pos_bad hp
    | some rs =>
      cases hc' : st.slot c with
      | none => exact pos_bad hp
      | some rc => exact pos_addChunk hp ω rs rc
  | tagSet t x s =>
    simp only [step]
    cases ht : st.slot t with
    | none => exact pos_bad hp
    | some rt =>
      cases hx : st.slot x with
      | none => exact pos_bad hp
      | some rx =>
        simp only
        have hq := pos_tagSet hp rt rx
        cases hts : tagSet st.h rt rx with
        | mk o h2 =>
          rw [hts] at hq
          cases o with
          | none => exact hq
          | some old =>
            simp only
            split
            · exact pos_bad hq
            · cases hsl : st.slot s with
              | none => exact hq
              | some v => exact pos_bad hq
  | tagGet s t =>
    simp only [step]
    cases ht : st.slot t with
    | none => exact pos_bad hp
    | some rt => exact fresh_pos st s _ _ (pos_tagGet hp rt)
  | copy s x =>
    simp only [step]
    cases hx : st.slot x with
    | none => exact pos_bad hp
    | some rx => exact fresh_pos st s _ _ ((pos_copy_all ω _).1 st.h rx hp)
  | incref s x =>
    simp only [step]
    cases hx : st.slot x with
    | none => exact pos_bad hp
    | some rx => exact fresh_pos st s _ _ (pos_incref hp rx)
  | decref s =>
    simp only [step]
    cases hs' : st.slot s with
    | none => exact pos_bad hp
    | some r => exact pos_hdecref hp r
  | load s b =>
    simp only [step]
    exact fresh_pos st s _ _ (pos_load hp ω L b.toArray)

theorem C04_pos_run (ω : Oracle) (L : Nat) : ∀ (ops : List Op) (st : St), Pos st.h → Pos (run ω L st ops).h
  | [], _, hp => hp
  | op :: ops, st, hp => C04_pos_run ω L ops _ (C04_pos_step ω L st op hp)

/-- **Nothing is left.**  After any rule-following history from the empty heap, under any allocator oracle, if the client
holds no reference any more and the containers it built are acyclic, no item is live: every block obtained through the
allocator has been handed back. -/
theorem C04_nothing_left (ω : Oracle) (L : Nat) (ops : List Op) (hr : RuleFollowing ω L {} ops)
    (hz : ∀ r, own (run ω L {} ops) r = 0) (hac : Acyclic (run ω L {} ops).h) :
    ∀ r, (run ω L {} ops).h.get r = none :=
  C04_all_released _ _ (C04_run_from_init ω L ops hr) hz hac
    (C04_pos_run ω L ops {} (fun r c hg => by simp [H.get] at hg))

/-! non-vacuity: a concrete history builds an array holding an integer twice, drops everything, and ends empty -/
example :
    let ops : List Op := [.newInt 0 false .w8 7, .newArr 1 false 0, .push 1 0, .push 1 0, .decref 0, .decref 1]
    let st := run (fun _ => true) 2048 {} ops
    st.h.fault = false ∧ st.h.liveCells = 0 ∧ st.h.reqs = 4 := by decide

end Props.C04

import Cbor.Lemmas.LoadFacts
/-!
# C02 — `cbor_load` accepts exactly the well-formed items and builds the faithful tree

`Model.load` is the hand-written model of `cbor_load` + builder callbacks + decoding stack (tied to the C code
by the correspondence harness, op `LOAD`), which calls the **generated** `Gen.cbor_stream_decode` for every
head.  `Spec.decode` is the recursive-descent reference decoder written from RFC 8949; its `ok x n` means:
the buffer begins with a complete, well-formed item (supported profile, nesting ≤ `L`) that denotes the tree
`x` and occupies exactly `n` bytes.  All theorems: every buffer below 2^56 bytes, every `L`, allocator that
refuses nothing (libcbor's own size_t overflow guards are `okGuard`).
-/
namespace Props.C02
open Model Spec Lemmas Lemmas.Refine Lemmas.LoadFacts

/-- **Accepts exactly the well-formed items, builds exactly the denoted tree, reports exactly its length.** -/
theorem C02_load_iff (src : Array UInt8) (hsz : src.size < 2 ^ 56) (L : Nat) (r0 : LoadResult) (t : Item) (n : Nat) :
    ((Model.load ωT L r0 src).item = some t ∧ (Model.load ωT L r0 src).result.read = n) ↔
    Spec.decode true L okGuard (getOf src) src.size = .ok t n :=
  load_ok_iff src hsz L r0 t n

/-- the complete outcome (item / NULL, code, position, bytes read) is the reference decoder's, and no
assertion or impossible builder state is ever reached -/
theorem C02_load_eq (src : Array UInt8) (hsz : src.size < 2 ^ 56) (L : Nat) (r0 : LoadResult) :
    let o := Model.load ωT L r0 src
    match Spec.decode true L okGuard (getOf src) src.size with
    | .ok x n => o.item = some x ∧ o.result = { code := .none, position := 0, read := n } ∧ o.fault = false
    | .nodata => o.item = none ∧ o.result = { code := .noData, position := 0, read := 0 } ∧ o.fault = false
    | .fail e p => o.item = none ∧ o.result = { code := codeOf e, position := p, read := p } ∧ o.fault = false :=
  load_eq src hsz L r0

/-- every head is tokenised by the generated streaming decoder exactly as RFC 8949 §3 prescribes -/
theorem C02_tokenise (src : Array UInt8) (off : Nat) (n : UInt64) (hl : n.toNat < 2 ^ 64 - 1) :
    SdRel off (Gen.cbor_stream_decode src off n) (Spec.decodeHead (Spec.getA src off) n.toNat) :=
  sd_spec src off n hl

/-- the accepted item occupies at least one byte and lies inside the buffer -/
theorem C02_read_bounds (src : Array UInt8) (hsz : src.size < 2 ^ 56) (L : Nat) (r0 : LoadResult) (t : Item)
    (h : (Model.load ωT L r0 src).item = some t) :
    0 < (Model.load ωT L r0 src).result.read ∧ (Model.load ωT L r0 src).result.read ≤ src.size := by
  have := (load_ok_iff src hsz L r0 t _).mp ⟨h, rfl⟩
  have hr := (decode_ok_iff_run L (getOf src) src.size t _).mp this
  have := Lemmas.Local.run_mono _ _ _ _ _ hr.2
  omega

-- non-vacuity: concrete buffers through the model (kernel-evaluated through the generated decoder)
example : (Model.load ωT 2048 ⟨.none, 7, 7⟩ #[0x82, 0x01, 0x61, 0x61]).result = ⟨.none, 0, 4⟩ ∧
    (Model.load ωT 2048 ⟨.none, 7, 7⟩ #[0x82, 0x01, 0x61, 0x61]).item.isSome = true := by decide +kernel
example : (Model.load ωT 2048 ⟨.none, 7, 7⟩ #[0x9f, 0x01, 0xff, 0x00]).result = ⟨.none, 0, 3⟩ := by decide +kernel
example : (Model.load ωT 2048 ⟨.none, 7, 7⟩ #[0x5f, 0x01, 0xff]).result = ⟨.syntax, 2, 2⟩ := by decide +kernel

end Props.C02

import Cbor.Props.Census
/-!
# C13 — all heap traffic goes through the configured allocator

Statements about the **generated** effect census `Gen.Effects` (every call expression of every function
under src/, from clang's AST, regenerated on every run), decided by kernel evaluation:

* no function of the library calls a C-library heap function directly;
* the three allocator hooks are assigned only by `cbor_set_allocs`;
* nothing reachable from the streaming decoder, any `cbor_encode_*`, `cbor_serialize` and its per-type
  helpers, or `cbor_serialized_size` calls an allocator hook (they request no memory at all).

That every block released was obtained from the installed allocator and is released once is a run-time
fact: it is observed by the tagging allocator (a foreign or repeated free aborts) and the arena allocator
(no libc backing) on all histories; see DESIGN.md.
-/
namespace Props.C13
open Gen.Effects Props.Census

def libcHeap : List String :=
  ["malloc", "calloc", "realloc", "free", "strdup", "strndup", "aligned_alloc", "posix_memalign", "reallocarray", "valloc", "memalign", "alloca"]

/-- **No bypass.**  No call expression anywhere in the library names a C-library heap function. -/
theorem C13_no_libc_heap_call : calls.all (fun row => row.all fun c => !libcHeap.contains (nameOf c)) = true := by
  decide +kernel

/-- the hooks are written only by `cbor_set_allocs` -/
theorem C13_hooks_assigned_once :
    globalWrites.filter (fun w => ["_cbor_malloc", "_cbor_realloc", "_cbor_free"].contains w.2) =
      [("cbor_set_allocs", "_cbor_free"), ("cbor_set_allocs", "_cbor_malloc"), ("cbor_set_allocs", "_cbor_realloc")] := by
  decide +kernel

/-- roots of the "allocates nothing" clause -/
def isNoAllocRoot (n : String) : Bool :=
  n == "cbor_stream_decode" || n.startsWith "cbor_encode_" || n.startsWith "_cbor_encode_" || (n.startsWith "cbor_serialize" && n != "cbor_serialize_alloc") || n == "cbor_serialized_size"

def noAllocRoots : List Nat := (List.range nDefined).filter fun i => isNoAllocRoot (nameOf i)

/-- **Allocates nothing.**  No allocator hook is reachable from the streaming decoder, the encoders,
fixed-buffer serialization or the size computation. -/
theorem C13_allocates_nothing :
    (reach fuel noAllocRoots []).all (fun g => !hooks.contains g) = true ∧ stable noAllocRoots = true ∧ 35 ≤ noAllocRoots.length := by
  decide +kernel

/-- every call of a hook is one of the recorded allocator call sites, and they all live in these functions -/
theorem C13_hook_callers :
    ((List.range nDefined).filter fun i => (calleesOf i).any hooks.contains).map nameOf =
      ((allocSites.filter fun s => ["_cbor_malloc", "_cbor_realloc", "_cbor_free"].contains s.2.1).map (·.1)).eraseDups := by
  decide +kernel

/-- **No bypass through a pointer either.**  The only function that makes calls through function pointers other than the allocator hooks is
the streaming decoder (its client callbacks); and the only functions whose *address* is taken anywhere in a function body are the library's own
callbacks (the builder callbacks installed by `cbor_load`): no C-library heap function is ever named without being called — which `C13_no_libc_heap_call`
excludes — so none can be reached through a pointer. -/
theorem C13_no_indirect_bypass :
    ((List.range nDefined).filter fun i => (calleesOf i).contains indirect).map nameOf = ["cbor_stream_decode"] ∧
    fnRefs.all (fun r => !libcHeap.contains r.2 && (names.take nDefined).contains r.2) = true := by
  decide +kernel

end Props.C13

import Cbor.Lemmas.Utf8
/-!
# C16 — code point count equals the strict UTF-8 count, or 0 for invalid text

Over the **generated** `Gen._cbor_unicode_codepoint_count` (and the generated 400-entry table `Gen.utf8d`),
against the RFC 3629 grammar `Spec.Utf8` — for byte sequences of every length.
-/
namespace Props.C16
open Gen Lemmas.Utf8

/-- **The count.**  For the `len` bytes at `off`: if they are `UTF8-octets` per RFC 3629 §4 the function
returns the number of `UTF8-char`s (Unicode scalar values) with status OK; otherwise it returns 0 with
status BADCP.  The result does not depend on what the caller left in the status struct. -/
theorem C16_count (src : Array UInt8) (off : Nat) (len : UInt64) (hsz : off + len.toNat ≤ src.size)
    (st0 : S__cbor_unicode_status) :
    let r := _cbor_unicode_codepoint_count src off len st0
    match Spec.Utf8.count (bl src off len.toNat 0) with
    | some n => r.1.toNat = n ∧ r.2.status = _CBOR_UNICODE_OK
    | none => r.1 = 0 ∧ r.2.status = _CBOR_UNICODE_BADCP := by
  intro r
  have hl : (bl src off len.toNat 0).length = len.toNat := by
    generalize len.toNat = k
    generalize (0 : Nat) = p
    induction k generalizing p with
    | zero => rfl
    | succ k ih => simp [bl, ih]
  have hrun := refLoop_run src off len hsz len.toNat (len.toNat + 1) 0 0 0 0 (by simp) (by omega) (by simp)
    (by have := len.toNat_lt; simp; omega)
  simp only at hrun
  have hc := runD_count len.toNat (bl src off len.toNat 0) (by omega) 0
  simp only [UInt64.toNat_zero, UInt32.toNat_zero] at hrun
  rw [hc] at hrun
  unfold Spec.Utf8.count
  rw [hl]
  show match Spec.Utf8.countFuel len.toNat (bl src off len.toNat 0) with
    | some n => (_cbor_unicode_codepoint_count src off len st0).1.toNat = n ∧ (_cbor_unicode_codepoint_count src off len st0).2.status = _CBOR_UNICODE_OK
    | none => (_cbor_unicode_codepoint_count src off len st0).1 = 0 ∧ (_cbor_unicode_codepoint_count src off len st0).2.status = _CBOR_UNICODE_BADCP
  -- the generated function is used only through `count_eq_ref` (it equals the hand-written reference `refCount`)
  rw [(count_eq_ref src off len st0).1]
  unfold refCount
  simp only
  cases hcf : Spec.Utf8.countFuel len.toNat (bl src off len.toNat 0) with
  | some n =>
    rw [hcf] at hrun
    simp only [Option.map_some, Nat.add_zero] at hrun
    obtain ⟨_, e1, e2, e3⟩ := hrun
    simp [e1, e2, e3, _CBOR_UNICODE_OK]
  | none =>
    rw [hcf] at hrun
    simp only [Option.map_none] at hrun
    obtain ⟨_, h | ⟨h1, h2⟩⟩ := hrun
    · simp [h, _CBOR_UNICODE_BADCP]
    · have h2' : ¬ (refLoop src off len (len.toNat + 1) 0 0 0 0).1.2.1.toNat = 0 :=
        fun h => h2 (UInt32.toNat_inj.mp (by simpa using h))
      simp [h1, h2', _CBOR_UNICODE_BADCP]

/-- no read outside the string, table indices in range, shift amounts in range, loop fuel sufficient -/
theorem C16_safe (src : Array UInt8) (off : Nat) (len : UInt64) (hsz : off + len.toNat ≤ src.size)
    (st0 : S__cbor_unicode_status) : _cbor_unicode_codepoint_count.ok src off len st0 = true := by
  have hrun := refLoop_run src off len hsz len.toNat (len.toNat + 1) 0 0 0 0 (by simp) (by omega) (by simp)
    (by have := len.toNat_lt; simp; omega)
  simp only at hrun
  rw [(count_eq_ref src off len st0).2]
  exact hrun.1

/-- the count never exceeds the byte length (the `CBOR_ASSERT` in `cbor_string_set_handle`) -/
theorem count_le_length : ∀ (n : Nat) (bs : List Nat) (c : Nat), Spec.Utf8.countFuel n bs = some c → c ≤ bs.length := by
  intro n
  induction n with
  | zero => intro bs c h; cases bs <;> simp_all [Spec.Utf8.countFuel]
  | succ n ih =>
    intro bs c h
    cases bs with
    | nil => simp_all [Spec.Utf8.countFuel]
    | cons b r =>
      simp only [Spec.Utf8.countFuel, charRest_eq] at h
      by_cases h0 : delta 0 b = 0
      · simp only [h0, if_true] at h
        cases hr : Spec.Utf8.countFuel n r with
        | none => simp [hr] at h
        | some k => simp [hr] at h; have := ih r k hr; simp; omega
      · simp only [h0, if_false] at h
        by_cases h1 : delta 0 b = 1
        · simp [h1] at h
        · simp only [h1, if_false] at h
          cases hc : complete (delta 0 b) r with
          | none => simp [hc] at h
          | some r' =>
            have hl := complete_len hc
            simp only [hc] at h
            cases hr : Spec.Utf8.countFuel n r' with
            | none => simp [hr] at h
            | some k => simp [hr] at h; have := ih r' k hr; simp; omega

-- non-vacuity: the grammar accepts and rejects what RFC 3629 says (kernel-evaluated)
example : Spec.Utf8.count [0xC3, 0xA9] = some 1 := by decide
example : Spec.Utf8.count [0xED, 0xA0, 0x80] = none := by decide          -- surrogate
example : Spec.Utf8.count [0xC0, 0x80] = none := by decide                -- overlong
example : Spec.Utf8.count [0xF4, 0x90, 0x80, 0x80] = none := by decide    -- above U+10FFFF
example : Spec.Utf8.count [0xE2, 0x82] = none := by decide                -- truncated
example : Spec.Utf8.count [0xF0, 0x9F, 0x98, 0x80, 0x41] = some 2 := by decide
example : (_cbor_unicode_codepoint_count #[0xF0, 0x9F, 0x98, 0x80, 0x41] 0 5 ⟨7, 77⟩).1 = 2 := by decide +kernel

end Props.C16

import Cbor.Lemmas.HeapBuilder
import Cbor.Lemmas.Indep
/-!
# `cbor_load` at heap level: what the incremental builder leaves behind (clauses of C01, C02, C05, C06)

`HB.load` (Model/HeapBuilder.lean) mirrors the builder callbacks and the `cbor_load` loop of the C code on the heap model:
items with reference counts, the decoding stack, every `cbor_decref` and the clean-up loop of the error exit.  It is tied to the
C code by the `LOAD` correspondence (the model predicts the live allocator blocks after every load, whether every node has
count one, and the blocks left after releasing the result, under every fault schedule).  `HB.hload_refines'` proves that it
refines the value-level model `Model.load` (which `Props.C02` proves equal to the RFC reference decoder) for **every** allocator
oracle.  The corollaries here are the heap-level clauses of the properties.
-/
namespace Props.HeapLoad
open Heap

/-- **What `cbor_load` reports is what the value-level model reports, with the same allocator requests.** -/
theorem hload_result (ω : Oracle) (L : Nat) (h : H) (r0 : Model.LoadResult) (src : Array UInt8) (hsz : src.size < 2 ^ 64 - 1) :
    (HB.load ω L h src).2.1 = (Model.load (fun i _ => ω (h.reqs + i)) L r0 src).result ∧
    (HB.load ω L h src).2.2.reqs = h.reqs + (Model.load (fun i _ => ω (h.reqs + i)) L r0 src).reqs ∧
    (HB.load ω L h src).2.2.fault = h.fault := by
  have := HB.hload_refines' ω L h r0 src hsz
  exact ⟨this.1, this.2.1, this.2.2.1⟩

/-- **The tree handed out is owned solely by the caller** (C02): when the load succeeds with the tree `t`, the result is an
exclusively owned tree for `t` laid out in exactly the cells the load created — every node has reference count one, no node
is used twice, no pre-existing cell is part of it or was touched, and the tree holds copies of the string payloads (the model's
items contain their bytes: nothing refers to the input buffer). -/
theorem loaded_tree_owned (ω : Oracle) (L : Nat) (h : H) (r0 : Model.LoadResult) (src : Array UInt8) (hsz : src.size < 2 ^ 64 - 1)
    (t : Spec.Item) (ht : (Model.load (fun i _ => ω (h.reqs + i)) L r0 src).item = some t) :
    (∀ x : Nat, x < h.cells.length → (HB.load ω L h src).2.2.get x = h.get x) ∧
    ∃ y, (HB.load ω L h src).1 = some y ∧ Own t (HB.load ω L h src).2.2 y h.cells.length (HB.load ω L h src).2.2.cells.length := by
  have := HB.hload_refines' ω L h r0 src hsz
  obtain ⟨_, _, _, h4, h5⟩ := this
  rw [ht] at h5
  exact ⟨fun x hx => h4 x hx, h5⟩

/-- **A failed load leaves nothing allocated** (C05, C06, C01): whenever the load fails — truncated or empty input, reserved
byte, syntax error, nesting limit, an allocation refused at any point of any schedule — NULL is returned and every cell the
builder created on the way (items, partially built containers on the decoding stack, a pending map key) has been released: the
heap reads exactly as before the call and the same number of allocator blocks is live. -/
theorem failed_load_clean (ω : Oracle) (L : Nat) (h : H) (r0 : Model.LoadResult) (src : Array UInt8) (hsz : src.size < 2 ^ 64 - 1)
    (hf : (Model.load (fun i _ => ω (h.reqs + i)) L r0 src).item = none) :
    (HB.load ω L h src).1 = none ∧ (∀ r : Nat, (HB.load ω L h src).2.2.get r = h.get r) ∧
    (HB.load ω L h src).2.2.liveBlocks = h.liveBlocks ∧ (HB.load ω L h src).2.2.fault = h.fault := by
  have := HB.hload_refines' ω L h r0 src hsz
  obtain ⟨_, _, h3, h4, h5⟩ := this
  rw [hf] at h5
  have hall : ∀ r : Nat, (HB.load ω L h src).2.2.get r = h.get r := by
    intro r
    by_cases hlt : r < h.cells.length
    · exact h4 r hlt
    · rw [h5.2 r (by omega), get_none_of_ge h r (by omega)]
  exact ⟨h5.1, hall, liveBlocks_of_get_eq hall, h3⟩

/-- the two outcomes are exhaustive: an item, or NULL — there is no third outcome such as a partially built item -/
theorem load_dichotomy (ω : Oracle) (L : Nat) (h : H) (r0 : Model.LoadResult) (src : Array UInt8) (hsz : src.size < 2 ^ 64 - 1) :
    (∃ t y, (Model.load (fun i _ => ω (h.reqs + i)) L r0 src).item = some t ∧ (HB.load ω L h src).1 = some y ∧
        Own t (HB.load ω L h src).2.2 y h.cells.length (HB.load ω L h src).2.2.cells.length ∧ (HB.load ω L h src).2.1.code = .none) ∨
    ((HB.load ω L h src).1 = none ∧ (HB.load ω L h src).2.1.code ≠ .none ∧ ∀ r : Nat, (HB.load ω L h src).2.2.get r = h.get r) := by
  have hs := Lemmas.Safe.load_safe (fun i _ => ω (h.reqs + i)) L r0 src hsz
  have hr := hload_result ω L h r0 src hsz
  rcases hs.2 with ⟨x, hx, hc⟩ | ⟨hn, hc⟩
  · left
    obtain ⟨_, y, hy, ho⟩ := loaded_tree_owned ω L h r0 src hsz x hx
    exact ⟨x, y, hx, hy, ho, by rw [hr.1]; exact hc⟩
  · right
    have := failed_load_clean ω L h r0 src hsz hn
    exact ⟨this.1, by rw [hr.1]; exact hc, this.2.1⟩

/-- **Releasing a decoded tree** (C01, C04): `cbor_decref` on the result of a successful load releases exactly the cells the load
created — afterwards the heap reads exactly as it did before the load; no fault (no use after release, no double release) -/
theorem release_loaded (ω : Oracle) (L : Nat) (h : H) (r0 : Model.LoadResult) (src : Array UInt8) (hsz : src.size < 2 ^ 64 - 1)
    (y : Ref) (hy : (HB.load ω L h src).1 = some y) :
    ((HB.load ω L h src).2.2.decref y).fault = h.fault ∧ ∀ r : Nat, ((HB.load ω L h src).2.2.decref y).get r = h.get r := by
  have href := HB.hload_refines' ω L h r0 src hsz
  obtain ⟨_, _, h3, h4, h5⟩ := href
  cases hi : (Model.load (fun i _ => ω (h.reqs + i)) L r0 src).item with
  | none => rw [hi] at h5; rw [h5.1] at hy; cases hy
  | some t =>
    rw [hi] at h5
    obtain ⟨y', hy', ho⟩ := h5
    rw [hy] at hy'; cases hy'
    have hf := hdecref_own ho (Nat.le_refl _)
    refine ⟨hf.1.trans h3, fun r => ?_⟩
    by_cases hlt : r < h.cells.length
    · rw [hf.2.2.2.2 r (Or.inl hlt)]; exact h4 r hlt
    · by_cases hlt' : r < (HB.load ω L h src).2.2.cells.length
      · rw [hf.2.2.2.1 r (by omega) hlt', get_none_of_ge h r (by omega)]
      · rw [hf.2.2.2.2 r (Or.inr (by omega)), get_none_of_ge _ r (by omega), get_none_of_ge h r (by omega)]

/-- the decoded tree denotes `t` on the heap (`Den`), so the heap-level operations a client then performs on it — size,
serialize (functions of the denoted tree), copy (`Props.C11.C11_copy`), release (`release_loaded`) — are covered by their theorems -/
theorem loaded_tree_denotes (ω : Oracle) (L : Nat) (h : H) (r0 : Model.LoadResult) (src : Array UInt8) (hsz : src.size < 2 ^ 64 - 1)
    (t : Spec.Item) (ht : (Model.load (fun i _ => ω (h.reqs + i)) L r0 src).item = some t) :
    ∃ y, (HB.load ω L h src).1 = some y ∧ Den t (HB.load ω L h src).2.2 y := by
  obtain ⟨_, y, hy, ho⟩ := loaded_tree_owned ω L h r0 src hsz t ht
  exact ⟨y, hy, own_den t y _ _ ho⟩

end Props.HeapLoad

import Cbor.Lemmas.Heap
/-!
# C12 — arrays, maps and chunked strings behave as bounded / unbounded sequences

Over the heap-level model (`Cbor/Model/Heap.lean`), whose overflow guards are the generated
`Gen._cbor_safe_to_multiply`.  `contents` is what a client observes of a container; the theorems say that
every operation acts on it as the corresponding list operation, that definite containers refuse exactly
when full, that indefinite ones grow by the doubling rule (so `n` insertions cost `⌈log₂ n⌉ + 1`
reallocations), that size never exceeds capacity, and that out-of-range indices are refused with the heap
untouched.
-/
namespace Props.C12
open Heap

/-- (definite?, members, capacity) of the array at `a` -/
def arrOf (h : H) (a : Ref) : Option (Bool × List Ref × Nat) :=
  match h.get a with
  | some ⟨.arr d xs al, _⟩ => some (d, xs, al)
  | _ => none

def mapOf (h : H) (m : Ref) : Option (Bool × List (Ref × Ref) × Nat) :=
  match h.get m with
  | some ⟨.map d ps al, _⟩ => some (d, ps, al)
  | _ => none

def chunksOf (h : H) (s : Ref) : Option (List Ref × Nat) :=
  match h.get s with
  | some ⟨.strI _ cs cap, _⟩ => some (cs, cap)
  | _ => none

/-- the growth rule -/
def growTo (alloc : Nat) : Nat := if alloc = 0 then 1 else 2 * alloc

theorem arrOf_put_incref (h : H) (a x : Ref) (d : Bool) (xs : List Ref) (al rc : Nat) (c : Cell)
    (hg : h.get a = some c) (hx : x ≠ a) :
    arrOf ((h.put a (some ⟨.arr d xs al, rc⟩)).incref x) a = some (d, xs, al) := by
  unfold arrOf
  rw [incref_get_other _ _ _ (Ne.symm hx), get_put_same _ _ _ (get_lt hg)]

/-- **Definite arrays are bounded sequences**: a push appends when there is room and is refused, with the
heap untouched and the allocator not consulted, when the array is full. -/
theorem push_definite (ω : Oracle) (h : H) (a x : Ref) (xs : List Ref) (al rc : Nat)
    (hg : h.get a = some ⟨.arr true xs al, rc⟩) (hx : x ≠ a) :
    (xs.length < al → (arrPush ω h a x).1 = true ∧ arrOf (arrPush ω h a x).2 a = some (true, xs ++ [x], al) ∧
        (arrPush ω h a x).2.reqs = h.reqs) ∧
    (al ≤ xs.length → arrPush ω h a x = (false, h)) := by
  unfold arrPush
  rw [hg]
  constructor
  · intro hl
    have : ¬ xs.length ≥ al := by omega
    simp only [this, if_false]
    exact ⟨trivial, arrOf_put_incref h a x true _ al rc _ hg hx, by simp⟩
  · intro hl
    have : xs.length ≥ al := hl
    simp [this]

theorem grow_spec (ω : Oracle) (h : H) (sz al : Nat) (hsz : sz = 8 ∨ sz = 16) (hal : al < 2 ^ 58) :
    grow ω h sz al = if ω h.reqs then (some (growTo al), { h with reqs := h.reqs + 1 }) else (none, { h with reqs := h.reqs + 1 }) := by
  unfold grow growTo
  have h1 : mulOk 2 al = true := mulOk_small 2 al (by omega) (by omega) (by omega)
  have h2 : mulOk sz (if al = 0 then 1 else 2 * al) = true := by
    apply mulOk_small
    · rcases hsz with e | e <;> subst e <;> split <;> omega
    · rcases hsz with e | e <;> subst e <;> omega
    · split <;> omega
  simp only [h1, h2, Bool.not_true, Bool.false_eq_true, if_false, H.req]
  split <;> simp_all

/-- **Indefinite arrays are unbounded sequences**: a push appends; when size has reached capacity the
capacity first grows by the doubling rule with exactly one allocator request, and if that request is
refused the push fails leaving contents, capacity and every reference count as they were. -/
theorem push_indefinite (ω : Oracle) (h : H) (a x : Ref) (xs : List Ref) (al rc : Nat)
    (hg : h.get a = some ⟨.arr false xs al, rc⟩) (hx : x ≠ a) (hal : al < 2 ^ 58) :
    (xs.length < al → (arrPush ω h a x).1 = true ∧ arrOf (arrPush ω h a x).2 a = some (false, xs ++ [x], al) ∧
        (arrPush ω h a x).2.reqs = h.reqs) ∧
    (al ≤ xs.length → ω h.reqs = true → (arrPush ω h a x).1 = true ∧
        arrOf (arrPush ω h a x).2 a = some (false, xs ++ [x], growTo al) ∧ (arrPush ω h a x).2.reqs = h.reqs + 1) ∧
    (al ≤ xs.length → ω h.reqs = false → arrPush ω h a x = (false, { h with reqs := h.reqs + 1 })) := by
  unfold arrPush
  rw [hg]
  refine ⟨?_, ?_, ?_⟩
  · intro hl
    have : ¬ xs.length ≥ al := by omega
    simp only [this, if_false]
    exact ⟨trivial, arrOf_put_incref h a x false _ al rc _ hg hx, by simp⟩
  · intro hl hω
    have : xs.length ≥ al := hl
    simp only [this, if_true, grow_spec ω h 8 al (Or.inl rfl) hal, hω]
    refine ⟨trivial, ?_, by simp⟩
    have hg' : ({ h with reqs := h.reqs + 1 } : H).get a = some ⟨.arr false xs al, rc⟩ := hg
    exact arrOf_put_incref _ a x false _ _ rc _ hg' hx
  · intro hl hω
    have : xs.length ≥ al := hl
    simp [this, grow_spec ω h 8 al (Or.inl rfl) hal, hω]

/-- **Reads by index**: inside the array a new reference to that member is handed out; outside, NULL and
the heap is untouched. -/
theorem get_spec (h : H) (a : Ref) (d : Bool) (xs : List Ref) (al : Nat) (i : Nat) (ha : arrOf h a = some (d, xs, al)) :
    arrGet h a i = match xs[i]? with
      | some x => (some x, h.incref x)
      | none => (none, h) := by
  unfold arrOf at ha
  unfold arrGet
  cases hg : h.get a with
  | none => simp [hg] at ha
  | some c =>
    obtain ⟨n, rc⟩ := c
    cases n <;> simp [hg] at ha
    obtain ⟨rfl, rfl, rfl⟩ := ha
    rfl

theorem get_out_of_range (h : H) (a : Ref) (d : Bool) (xs : List Ref) (al : Nat) (i : Nat) (ha : arrOf h a = some (d, xs, al))
    (hi : xs.length ≤ i) : arrGet h a i = (none, h) := by
  rw [get_spec h a d xs al i ha, List.getElem?_eq_none hi]

/-- **Replace** inside the array overwrites that position (the old member loses the array's reference, the
new one gains it); outside it is refused and the heap is untouched. -/
theorem replace_out_of_range (h : H) (a : Ref) (d : Bool) (xs : List Ref) (al : Nat) (i x : Nat)
    (ha : arrOf h a = some (d, xs, al)) (hi : xs.length ≤ i) : arrReplace h a i x = (false, h) := by
  unfold arrOf at ha
  unfold arrReplace
  cases hg : h.get a with
  | none => simp [hg] at ha
  | some c =>
    obtain ⟨n, rc⟩ := c
    cases n <;> simp [hg] at ha
    obtain ⟨rfl, rfl, rfl⟩ := ha
    simp [List.getElem?_eq_none hi]

/-- **Set**: at `size` it is a push, below it a replace, beyond it refused with the heap untouched. -/
theorem set_spec (ω : Oracle) (h : H) (a : Ref) (d : Bool) (xs : List Ref) (al : Nat) (i x : Nat)
    (ha : arrOf h a = some (d, xs, al)) :
    arrSet ω h a i x = if i = xs.length then arrPush ω h a x else if i < xs.length then arrReplace h a i x else (false, h) := by
  unfold arrOf at ha
  unfold arrSet
  cases hg : h.get a with
  | none => simp [hg] at ha
  | some c =>
    obtain ⟨n, rc⟩ := c
    cases n <;> simp [hg] at ha
    obtain ⟨rfl, rfl, rfl⟩ := ha
    rfl

theorem mapOf_put_incref (h : H) (m k v : Ref) (d : Bool) (ps : List (Ref × Ref)) (al rc : Nat) (c : Cell)
    (hg : h.get m = some c) (hk : k ≠ m) (hv : v ≠ m) :
    mapOf (((h.put m (some ⟨.map d ps al, rc⟩)).incref k).incref v) m = some (d, ps, al) := by
  unfold mapOf
  rw [incref_get_other _ _ _ (Ne.symm hv), incref_get_other _ _ _ (Ne.symm hk), get_put_same _ _ _ (get_lt hg)]

/-- **Maps**: a definite map accepts exactly `allocated` pairs, in order, and then refuses untouched. -/
theorem map_add_definite (ω : Oracle) (h : H) (m k v : Ref) (ps : List (Ref × Ref)) (al rc : Nat)
    (hg : h.get m = some ⟨.map true ps al, rc⟩) (hk : k ≠ m) (hv : v ≠ m) :
    (ps.length < al → (mapAdd ω h m k v).1 = true ∧ mapOf (mapAdd ω h m k v).2 m = some (true, ps ++ [(k, v)], al) ∧
        (mapAdd ω h m k v).2.reqs = h.reqs) ∧
    (al ≤ ps.length → mapAdd ω h m k v = (false, h)) := by
  unfold mapAdd
  rw [hg]
  constructor
  · intro hl
    have : ¬ ps.length ≥ al := by omega
    simp only [this, if_false]
    exact ⟨trivial, mapOf_put_incref h m k v true _ al rc _ hg hk hv, by simp⟩
  · intro hl
    have : ps.length ≥ al := hl
    simp [this]

theorem map_add_indefinite (ω : Oracle) (h : H) (m k v : Ref) (ps : List (Ref × Ref)) (al rc : Nat)
    (hg : h.get m = some ⟨.map false ps al, rc⟩) (hk : k ≠ m) (hv : v ≠ m) (hal : al < 2 ^ 58) :
    (ps.length < al → (mapAdd ω h m k v).1 = true ∧ mapOf (mapAdd ω h m k v).2 m = some (false, ps ++ [(k, v)], al) ∧
        (mapAdd ω h m k v).2.reqs = h.reqs) ∧
    (al ≤ ps.length → ω h.reqs = true → (mapAdd ω h m k v).1 = true ∧
        mapOf (mapAdd ω h m k v).2 m = some (false, ps ++ [(k, v)], growTo al) ∧ (mapAdd ω h m k v).2.reqs = h.reqs + 1) ∧
    (al ≤ ps.length → ω h.reqs = false → mapAdd ω h m k v = (false, { h with reqs := h.reqs + 1 })) := by
  unfold mapAdd
  rw [hg]
  refine ⟨?_, ?_, ?_⟩
  · intro hl
    have : ¬ ps.length ≥ al := by omega
    simp only [this, if_false]
    exact ⟨trivial, mapOf_put_incref h m k v false _ al rc _ hg hk hv, by simp⟩
  · intro hl hω
    have : ps.length ≥ al := hl
    simp only [this, if_true, grow_spec ω h 16 al (Or.inr rfl) hal, hω]
    refine ⟨trivial, ?_, by simp⟩
    have hg' : ({ h with reqs := h.reqs + 1 } : H).get m = some ⟨.map false ps al, rc⟩ := hg
    exact mapOf_put_incref _ m k v false _ _ rc _ hg' hk hv
  · intro hl hω
    have : ps.length ≥ al := hl
    simp [this, grow_spec ω h 16 al (Or.inr rfl) hal, hω]

/-- **Chunked strings**: a chunk of the same string type is appended; capacity grows by the doubling rule. -/
theorem add_chunk_spec (ω : Oracle) (h : H) (s c : Ref) (t : Bool) (cs : List Ref) (cap rc : Nat) (b : List UInt8) (rc' : Nat)
    (hs : h.get s = some ⟨.strI t cs cap, rc⟩) (hc : h.get c = some ⟨.str t b, rc'⟩) (hcap : cap < 2 ^ 58) (hlen : cs.length ≤ cap) :
    (cs.length < cap → (addChunk ω h s c).1 = true ∧ chunksOf (addChunk ω h s c).2 s = some (cs ++ [c], cap)) ∧
    (cs.length = cap → ω h.reqs = true → (addChunk ω h s c).1 = true ∧ chunksOf (addChunk ω h s c).2 s = some (cs ++ [c], growTo cap) ∧
        (addChunk ω h s c).2.reqs = h.reqs + 1) ∧
    (cs.length = cap → ω h.reqs = false → addChunk ω h s c = (false, { h with reqs := h.reqs + 1 })) := by
  have hne : c ≠ s := by intro e; subst e; rw [hs] at hc; cases hc
  unfold addChunk
  rw [hs, hc]
  simp only [ne_eq, not_true_eq_false, if_false]
  refine ⟨?_, ?_, ?_⟩
  · intro hl
    have : ¬ cs.length = cap := by omega
    simp only [this, if_false]
    refine ⟨trivial, ?_⟩
    unfold chunksOf
    rw [incref_get_other _ _ _ (Ne.symm hne), get_put_same _ _ _ (get_lt hs)]
  · intro hl hω
    simp only [hl, if_true, grow_spec ω h 8 cap (Or.inl rfl) hcap, hω]
    refine ⟨trivial, ?_, by simp⟩
    unfold chunksOf
    have hs' : ({ h with reqs := h.reqs + 1 } : H).get s = some ⟨.strI t cs cap, rc⟩ := hs
    rw [incref_get_other _ _ _ (Ne.symm hne), get_put_same _ _ _ (get_lt hs')]
  · intro hl hω
    simp [hl, grow_spec ω h 8 cap (Or.inl rfl) hcap, hω]

/-! ## geometric growth -/

/-- number of reallocations `n` successive insertions into an empty growing container cost -/
def reallocs : Nat → Nat
  | 0 => 0
  | k+1 => reallocs k + (if capFor k ≤ k then 1 else 0)

/-- capacity after `n` insertions: at least `n`, below `2n`, and doubling at every reallocation -/
theorem capFor_bounds : ∀ n, n ≤ capFor n ∧ (1 ≤ n → capFor n < 2 * n) ∧ (1 ≤ n → 2 ^ reallocs n = 2 * capFor n) ∧ (n = 0 → capFor n = 0)
  | 0 => by simp [capFor, reallocs]
  | k+1 => by
    obtain ⟨h1, h2, h3, h4⟩ := capFor_bounds k
    simp only [capFor, reallocs]
    by_cases hk : k = 0
    · subst hk; simp [capFor, reallocs]
    · have h2' := h2 (by omega)
      have h3' := h3 (by omega)
      by_cases c : capFor k ≤ k
      · have hc0 : capFor k ≠ 0 := by omega
        simp only [c, if_true, hc0, if_false]
        refine ⟨by omega, fun _ => by omega, fun _ => ?_, fun e => by omega⟩
        rw [Nat.pow_succ, h3']; omega
      · simp only [c, if_false]
        refine ⟨by omega, fun _ => by omega, fun _ => ?_, fun e => by omega⟩
        simpa using h3'

/-- **Logarithmic cost**: `n ≥ 1` insertions cost `r` reallocations with `2^r < 4n`, i.e. `r ≤ log₂ n + 1`. -/
theorem C12_logarithmic (n : Nat) (hn : 1 ≤ n) : 2 ^ reallocs n < 4 * n := by
  obtain ⟨_, h2, h3, _⟩ := capFor_bounds n
  rw [h3 hn]; have := h2 hn; omega

/-- `n` pushes of `x` into the array at `a`, by an allocator that grants everything -/
def pushN (h : H) (a x : Ref) : Nat → H
  | 0 => h
  | k+1 => (arrPush (fun _ => true) (pushN h a x k) a x).2

/-- **The array follows the growth rule**: after `n` pushes into an empty indefinite array its contents are
`n` copies of the pushed reference, its capacity is `capFor n ≥ n`, and exactly `reallocs n` allocator
requests were made. -/
theorem C12_growth (h : H) (a x : Ref) (rc : Nat) (hg : h.get a = some ⟨.arr false [] 0, rc⟩) (hx : x ≠ a) (cx : Cell) (hgx : h.get x = some cx) :
    ∀ n, n < 2 ^ 57 →
      arrOf (pushN h a x n) a = some (false, List.replicate n x, capFor n) ∧ (pushN h a x n).reqs = h.reqs + reallocs n ∧
      ∃ rc', (pushN h a x n).get a = some ⟨.arr false (List.replicate n x) (capFor n), rc'⟩
  | 0, _ => by simp [pushN, arrOf, hg, capFor, reallocs]
  | k+1, hk => by
    obtain ⟨ih1, ih2, rc', ih3⟩ := C12_growth h a x rc hg hx cx hgx k (by omega)
    obtain ⟨b1, b2, _, b4⟩ := capFor_bounds k
    have hcap : capFor k < 2 ^ 58 := by
      by_cases hk0 : k = 0
      · rw [b4 hk0]; exact Nat.pow_pos (by omega)
      · have := b2 (by omega); omega
    have hp := push_indefinite (fun _ => true) (pushN h a x k) a x (List.replicate k x) (capFor k) rc' ih3 hx hcap
    simp only [List.length_replicate] at hp
    simp only [pushN, capFor, reallocs]
    by_cases c : capFor k ≤ k
    · obtain ⟨_, e2, e3⟩ := hp.2.1 c trivial
      have hrep : List.replicate k x ++ [x] = List.replicate (k + 1) x := by simp [List.replicate_succ']
      rw [hrep] at e2
      simp only [c, if_true]
      have hgt : growTo (capFor k) = (if capFor k = 0 then 1 else 2 * capFor k) := rfl
      rw [hgt] at e2
      refine ⟨e2, by rw [e3, ih2]; omega, ?_⟩
      unfold arrOf at e2
      cases hh : ((arrPush (fun _ => true) (pushN h a x k) a x).2).get a with
      | none => simp [hh] at e2
      | some c' =>
        obtain ⟨nd, r'⟩ := c'
        cases nd <;> simp [hh] at e2
        obtain ⟨rfl, rfl, rfl⟩ := e2
        exact ⟨r', rfl⟩
    · obtain ⟨_, e2, e3⟩ := hp.1 (by omega)
      have hrep : List.replicate k x ++ [x] = List.replicate (k + 1) x := by simp [List.replicate_succ']
      rw [hrep] at e2
      simp only [c, if_false]
      refine ⟨e2, by rw [e3, ih2]; omega, ?_⟩
      unfold arrOf at e2
      cases hh : ((arrPush (fun _ => true) (pushN h a x k) a x).2).get a with
      | none => simp [hh] at e2
      | some c' =>
        obtain ⟨nd, r'⟩ := c'
        cases nd <;> simp [hh] at e2
        obtain ⟨rfl, rfl, rfl⟩ := e2
        exact ⟨r', rfl⟩

/-! non-vacuity -/
example : capFor 5 = 8 ∧ reallocs 5 = 4 ∧ capFor 100 = 128 ∧ reallocs 100 = 8 := by decide +kernel

end Props.C12

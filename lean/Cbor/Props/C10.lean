import Cbor.Lemmas.PubEncoders
import Cbor.Lemmas.SdSpec
import Cbor.Spec.EncodeLemmas
/-!
# C10 — low-level encoders and the streaming decoder are exact inverses

Over the **generated** encoders (`Gen.Encoding`, `Gen.Encoders`) and the **generated** streaming decoder.
`Lemmas.encRes buf off n bs` is "write the bytes `bs` at `off` if they fit in `n` bytes (returning their
number), else return 0 and leave the buffer alone"; `Spec.headBytes mt ai v` / `Spec.head mt v` are the
RFC 8949 heads (explicit width / shortest).  Values range over the whole domain of each encoder.
-/
namespace Props.C10
open Gen Lemmas

/-- **C10, bytes.**  Every `cbor_encode_*` emits exactly the RFC 8949 head for its value: big-endian; the
16/32/64-bit variants at their named width (additional information 25/26/27); the 8-bit variants immediate
up to 23 and with a one-byte argument above; the width-agnostic variants in the shortest form. -/
theorem C10_bytes (buf : Array UInt8) (off : Nat) (n : UInt64) :
    (∀ v, cbor_encode_uint8 v buf off n = encRes buf off n (Spec.headBytes 0 (ai8 v.toNat) v.toNat)) ∧
    (∀ v, cbor_encode_uint16 v buf off n = encRes buf off n (Spec.headBytes 0 25 v.toNat)) ∧
    (∀ v, cbor_encode_uint32 v buf off n = encRes buf off n (Spec.headBytes 0 26 v.toNat)) ∧
    (∀ v, cbor_encode_uint64 v buf off n = encRes buf off n (Spec.headBytes 0 27 v.toNat)) ∧
    (∀ v, cbor_encode_uint v buf off n = encRes buf off n (Spec.head 0 v.toNat)) ∧
    (∀ v, cbor_encode_negint8 v buf off n = encRes buf off n (Spec.headBytes 1 (ai8 v.toNat) v.toNat)) ∧
    (∀ v, cbor_encode_negint16 v buf off n = encRes buf off n (Spec.headBytes 1 25 v.toNat)) ∧
    (∀ v, cbor_encode_negint32 v buf off n = encRes buf off n (Spec.headBytes 1 26 v.toNat)) ∧
    (∀ v, cbor_encode_negint64 v buf off n = encRes buf off n (Spec.headBytes 1 27 v.toNat)) ∧
    (∀ v, cbor_encode_negint v buf off n = encRes buf off n (Spec.head 1 v.toNat)) ∧
    (∀ v, cbor_encode_bytestring_start v buf off n = encRes buf off n (Spec.head 2 v.toNat)) ∧
    (∀ v, cbor_encode_string_start v buf off n = encRes buf off n (Spec.head 3 v.toNat)) ∧
    (∀ v, cbor_encode_array_start v buf off n = encRes buf off n (Spec.head 4 v.toNat)) ∧
    (∀ v, cbor_encode_map_start v buf off n = encRes buf off n (Spec.head 5 v.toNat)) ∧
    (∀ v, cbor_encode_tag v buf off n = encRes buf off n (Spec.head 6 v.toNat)) ∧
    (∀ v, cbor_encode_ctrl v buf off n = encRes buf off n (Spec.headBytes 7 (ai8 v.toNat) v.toNat)) ∧
    (cbor_encode_indef_bytestring_start buf off n = encRes buf off n [0x5F]) ∧
    (cbor_encode_indef_string_start buf off n = encRes buf off n [0x7F]) ∧
    (cbor_encode_indef_array_start buf off n = encRes buf off n [0x9F]) ∧
    (cbor_encode_indef_map_start buf off n = encRes buf off n [0xBF]) ∧
    (cbor_encode_break buf off n = encRes buf off n [0xFF]) ∧
    (cbor_encode_null buf off n = encRes buf off n [0xF6]) ∧
    (cbor_encode_undef buf off n = encRes buf off n [0xF7]) ∧
    (∀ b, cbor_encode_bool b buf off n = encRes buf off n [if b then 0xF5 else 0xF4]) ∧
    (∀ v, cbor_encode_single v buf off n = encRes buf off n (Spec.headBytes 7 26 (canon32 v).toNat)) ∧
    (∀ v, cbor_encode_double v buf off n = encRes buf off n (Spec.headBytes 7 27 (canon64 v).toNat)) :=
  ⟨pub_uint8 _ _ _, pub_uint16 _ _ _, pub_uint32 _ _ _, pub_uint64 _ _ _, pub_uint _ _ _,
   pub_negint8 _ _ _, pub_negint16 _ _ _, pub_negint32 _ _ _, pub_negint64 _ _ _, pub_negint _ _ _,
   pub_bytestring_start _ _ _, pub_string_start _ _ _, pub_array_start _ _ _, pub_map_start _ _ _, pub_tag _ _ _,
   pub_ctrl _ _ _, pub_indef_bytestring_start _ _ _, pub_indef_string_start _ _ _, pub_indef_array_start _ _ _,
   pub_indef_map_start _ _ _, pub_break _ _ _, pub_null _ _ _, pub_undef _ _ _, pub_bool _ _ _,
   pub_single _ _ _, pub_double _ _ _⟩

/-- the shortest form really is the shortest: no head with a smaller additional-information class carries `v` -/
theorem C10_shortest (v : Nat) (hv : v < 2 ^ 64) :
    let ai := Spec.shortestAi v
    (ai < 24 → v = ai) ∧ (ai = 24 → 24 ≤ v ∧ v < 256) ∧ (ai = 25 → 256 ≤ v ∧ v < 65536) ∧
    (ai = 26 → 65536 ≤ v ∧ v < 4294967296) ∧ (ai = 27 → 4294967296 ≤ v) ∧ ai ≤ 27 := by
  unfold Spec.shortestAi
  repeat' split
  all_goals omega

/-- bytes written at `off` are read back by the buffer view at `off` -/
theorem getA_writeList (buf : Array UInt8) (off : Nat) (bs : List UInt8) (hb : off + bs.length ≤ buf.size)
    (i : Nat) (hi : i < bs.length) : Spec.getA (writeList buf off bs) off i = bs[i] := by
  have := writeList_getElem? buf off bs i hi hb
  simp only [Spec.getA, Array.getD_eq_getD_getElem?, this]
  simp [hi]

/-- **C10, inverse (major types 0..6).**  Decoding the head `headBytes mt ai v` written by an encoder gives
FINISHED with exactly one callback denoting `(mt, ai, v)` — same kind, same width, identical value — and
`read` = the number of bytes written (plus the payload for definite strings, once present). -/
theorem C10_inverse_arg (mt ai v : Nat) (hmt : mt < 7) (hai : ai ≤ 27)
    (hv : if ai < 24 then v = ai else v < 256 ^ Spec.argBytes ai)
    (buf : Array UInt8) (off : Nat) (n : UInt64) (h : off + n.toNat ≤ buf.size)
    (hn : (Spec.headBytes mt ai v).length ≤ n.toNat) (hl : n.toNat < 2 ^ 64 - 1) :
    SdRel off (cbor_stream_decode (writeList buf off (Spec.headBytes mt ai v)) off n)
      (Spec.tokOfArg mt ai v (Spec.headBytes mt ai v).length n.toNat) := by
  have := sd_spec (writeList buf off (Spec.headBytes mt ai v)) off n hl
  rwa [Spec.decodeHead_headBytes _ _ mt ai v hmt hai hv
    (fun i hi => getA_writeList buf off _ (by omega) i hi) hn] at this

/-- **C10, inverse (floats).** -/
theorem C10_inverse_float (ai v : Nat) (hai : ai = 25 ∨ ai = 26 ∨ ai = 27) (hv : v < 256 ^ Spec.argBytes ai)
    (buf : Array UInt8) (off : Nat) (n : UInt64) (h : off + n.toNat ≤ buf.size)
    (hn : (Spec.headBytes 7 ai v).length ≤ n.toNat) (hl : n.toNat < 2 ^ 64 - 1) :
    SdRel off (cbor_stream_decode (writeList buf off (Spec.headBytes 7 ai v)) off n)
      (.ok (if ai = 25 then .half v else if ai = 26 then .single v else .double v) (1 + Spec.argBytes ai)) := by
  have := sd_spec (writeList buf off (Spec.headBytes 7 ai v)) off n hl
  rwa [Spec.decodeHead_float _ _ ai v hai hv
    (fun i hi => getA_writeList buf off _ (by omega) i hi) hn] at this

/-- **C10, inverse (one-byte heads)**: false, true, null, undefined, break and the indefinite starts. -/
theorem C10_inverse_byte (b : UInt8) (buf : Array UInt8) (off : Nat) (n : UInt64) (h : off + n.toNat ≤ buf.size)
    (hn : 1 ≤ n.toNat) (hl : n.toNat < 2 ^ 64 - 1) :
    let d := cbor_stream_decode (writeList buf off [b]) off n
    (b = 0xF4 → SdRel off d (.ok (.bool false) 1)) ∧ (b = 0xF5 → SdRel off d (.ok (.bool true) 1)) ∧
    (b = 0xF6 → SdRel off d (.ok .null 1)) ∧ (b = 0xF7 → SdRel off d (.ok .undefined 1)) ∧
    (b = 0xFF → SdRel off d (.ok .brk 1)) ∧ (b = 0x5F → SdRel off d (.ok .bytesStart 1)) ∧
    (b = 0x7F → SdRel off d (.ok .textStart 1)) ∧ (b = 0x9F → SdRel off d (.ok .arrayStart 1)) ∧
    (b = 0xBF → SdRel off d (.ok .mapStart 1)) := by
  intro d
  have hs := sd_spec (writeList buf off [b]) off n hl
  have hg : Spec.getA (writeList buf off [b]) off 0 = b := by
    have := getA_writeList buf off [b] (by simp; omega) 0 (by simp)
    simpa using this
  have hd := Spec.decodeHead_single_byte (Spec.getA (writeList buf off [b]) off) n.toNat hn
  rw [hg] at hd
  obtain ⟨h1, h2, h3, h4, h5, h6, h7, h8, h9⟩ := hd
  refine ⟨?_, ?_, ?_, ?_, ?_, ?_, ?_, ?_, ?_⟩ <;> intro hb
  · rw [h1 hb] at hs; exact hs
  · rw [h2 hb] at hs; exact hs
  · rw [h3 hb] at hs; exact hs
  · rw [h4 hb] at hs; exact hs
  · rw [h5 hb] at hs; exact hs
  · rw [h6 hb] at hs; exact hs
  · rw [h7 hb] at hs; exact hs
  · rw [h8 hb] at hs; exact hs
  · rw [h9 hb] at hs; exact hs

/-- other simple values are still *encoded* per the RFC (C10_bytes, `cbor_encode_ctrl`) but are not decodable:
the decoder reports ERROR for unassigned simple values and for the one-byte-extension form -/
theorem C10_ctrl_undecodable (get : Nat → UInt8) (len : Nat) (hl : 1 ≤ len)
    (h : (get 0).toNat / 32 = 7 ∧ ((get 0).toNat % 32 < 20 ∨ (get 0).toNat % 32 = 24)) :
    Spec.decodeHead get len = .error := by
  have hn : ¬ len = 0 := by omega
  unfold Spec.decodeHead Spec.decodeMt7
  rw [if_neg hn, if_pos h.1]
  rcases h.2 with h2 | h2
  · repeat' split
    all_goals first | omega | rfl
  · simp [h2]

-- non-vacuity / concrete instances (kernel-evaluated on the generated code)
example : (cbor_encode_uint 65535 (Array.replicate 5 0xAA) 0 5) = (3, #[0x19, 0xFF, 0xFF, 0xAA, 0xAA]) := by decide +kernel
example : (cbor_encode_uint 65536 (Array.replicate 5 0xAA) 0 5) = (5, #[0x1A, 0x00, 0x01, 0x00, 0x00]) := by decide +kernel
example : (cbor_encode_negint8 24 (Array.replicate 2 0xAA) 0 2) = (2, #[0x38, 0x18]) := by decide +kernel
example : (cbor_stream_decode #[0x38, 0x18] 0 2) = ({ read := 2, status := 0, required := 0 }, [Event.negint8 24]) := by decide +kernel
example : (cbor_stream_decode #[0xBB, 0, 0, 0, 1, 0, 0, 0, 2] 0 9).2 = [Event.map_start 0x100000002] := by decide +kernel

end Props.C10

import Cbor.Gen.Accessors2
import Cbor.Props.Accessors
import Cbor.Props.C16
/-!
# `cbor_string_set_handle` / `cbor_bytestring_set_handle` — theorems over the **generated** definitions (`Cbor.Gen.Accessors2`)

Both are regenerated from src/cbor/strings.c / src/cbor/bytestrings.c on every run.  The pointer parameter `data` is the byte sequence
it points to (`Array UInt8`); `item->data = data` makes it the `data` of the record; `cbor_string_set_handle` calls the generated
`_cbor_unicode_codepoint_count` (the function C16 is about) and stores its count when the status is OK, `0` otherwise.

1. what is stored: length, bytes, and nothing but `data`, `str_length`, `str_codepoints` (resp. `data`, `bs_length`) changes;
2. the code point count stored = the count of the generated counter if its status is OK, else 0 — in particular it does **not** depend on
   the count the item had before;
3. with `Props.C16.C16_count`: the stored count is the number of Unicode scalar values if the `len` bytes are `UTF8-octets` per RFC 3629 §4
   (`Spec.Utf8`), and 0 otherwise;
4. the side conditions (`.ok`): a definite (byte) string item; for text also that the counter stays inside the bytes handed over.
-/
set_option linter.unusedSimpArgs false
set_option linter.unusedVariables false
namespace Props.HandleSetters
open Gen Lemmas Lemmas.Utf8 Props.Accessors

/-! ## 1. what is stored -/

/-- the record afterwards: `data` are the bytes handed over, `str_length` the length argument, a new code point count; every other field
(type, reference count, definite / indefinite tag, the metadata of every other kind) is what it was -/
theorem string_set_handle_fields (r : ItemRec) (bytes : Array UInt8) (len : UInt64) :
    cbor_string_set_handle r bytes len =
      { r with data := bytes, str_length := len, str_codepoints := (cbor_string_set_handle r bytes len).str_codepoints } := by
  dsimp only [cbor_string_set_handle]
  repeat' split
  all_goals rfl
theorem string_set_handle_length (r : ItemRec) (bytes : Array UInt8) (len : UInt64) :
    cbor_string_length (cbor_string_set_handle r bytes len) = len := by
  rw [string_set_handle_fields, (container_fields _).2.2.2.2.1]
theorem string_set_handle_data (r : ItemRec) (bytes : Array UInt8) (len : UInt64) :
    (cbor_string_set_handle r bytes len).data = bytes := by
  rw [string_set_handle_fields]

/-- `cbor_bytestring_set_handle`: length and bytes are stored, nothing else changes -/
theorem bytestring_set_handle_eq (r : ItemRec) (bytes : Array UInt8) (len : UInt64) :
    cbor_bytestring_set_handle r bytes len = { r with data := bytes, bs_length := len } := by
  dsimp only [cbor_bytestring_set_handle]
theorem bytestring_set_handle_length (r : ItemRec) (bytes : Array UInt8) (len : UInt64) :
    cbor_bytestring_length (cbor_bytestring_set_handle r bytes len) = len ∧ (cbor_bytestring_set_handle r bytes len).data = bytes := by
  rw [bytestring_set_handle_eq, (container_fields _).2.2.2.2.2.2.1]
  exact ⟨rfl, rfl⟩

/-! ## 2. the code point count that is stored -/

/-- the result of the generated counter does not depend on what the caller left in the status struct (`cbor_string_set_handle` passes an
uninitialised one) -/
theorem count_indep (src : Array UInt8) (off : Nat) (len : UInt64) (s s' : S__cbor_unicode_status) :
    _cbor_unicode_codepoint_count src off len s = _cbor_unicode_codepoint_count src off len s' := by
  rw [(count_eq_ref src off len s).1, (count_eq_ref src off len s').1]

/-- **the stored count** = the count reported by `_cbor_unicode_codepoint_count` on the `len` bytes when its status is `_CBOR_UNICODE_OK`,
and `0` otherwise (the `else` branch) -/
theorem string_set_handle_count (r : ItemRec) (bytes : Array UInt8) (len : UInt64) (st0 : S__cbor_unicode_status) :
    cbor_string_codepoint_count (cbor_string_set_handle r bytes len) =
      if (_cbor_unicode_codepoint_count bytes 0 len st0).2.status = _CBOR_UNICODE_OK then (_cbor_unicode_codepoint_count bytes 0 len st0).1
      else 0 := by
  rw [(container_fields _).2.2.2.2.2.1]
  generalize hX : _cbor_unicode_codepoint_count bytes 0 len st0 = X
  dsimp only [cbor_string_set_handle, _CBOR_UNICODE_OK]
  rw [count_indep bytes 0 len _ st0, hX]
  by_cases h : X.2.status = 0 <;> simp [h]

/-- … hence it does **not** depend on the item the handle is attached to — not on the count it had before, nor on anything else -/
theorem string_set_handle_count_indep (r r' : ItemRec) (bytes : Array UInt8) (len : UInt64) :
    (cbor_string_set_handle r bytes len).str_codepoints = (cbor_string_set_handle r' bytes len).str_codepoints := by
  have h := string_set_handle_count r bytes len ⟨0, 0⟩
  have h' := string_set_handle_count r' bytes len ⟨0, 0⟩
  rw [(container_fields _).2.2.2.2.2.1] at h h'
  rw [h, h']

/-! ## 3. … in terms of RFC 3629 -/

/-- the values of the first `k` bytes, as the list the specification talks about -/
theorem bl_length (src : Array UInt8) (off k p : Nat) : (bl src off k p).length = k := by
  induction k generalizing p with
  | zero => rfl
  | succ k ih => simp [bl, ih]

/-- **RFC 3629**: after `cbor_string_set_handle(item, bytes, len)` (with at least `len` bytes behind the pointer) the item reports the number
of `UTF8-char`s (Unicode scalar values) of the `len` bytes if they are `UTF8-octets` per RFC 3629 §4, and `0` otherwise —
`Spec.Utf8.codepointCount`, the specification side of C16 -/
theorem string_set_handle_count_spec (r : ItemRec) (bytes : Array UInt8) (len : UInt64) (h : len.toNat ≤ bytes.size) :
    (cbor_string_codepoint_count (cbor_string_set_handle r bytes len)).toNat = Spec.Utf8.codepointCount (bl bytes 0 len.toNat 0) := by
  rw [string_set_handle_count r bytes len ⟨0, 0⟩]
  have hc := Props.C16.C16_count bytes 0 len (by omega) ⟨0, 0⟩
  simp only at hc
  unfold Spec.Utf8.codepointCount
  cases hs : Spec.Utf8.count (bl bytes 0 len.toNat 0) with
  | some n =>
    rw [hs] at hc
    simp only [hc.2, if_true, Option.getD_some, hc.1]
  | none =>
    rw [hs] at hc
    have : ¬ (_CBOR_UNICODE_BADCP = _CBOR_UNICODE_OK) := by decide
    simp only [hc.2, this, if_false, Option.getD_none, UInt64.toNat_zero]
example : (cbor_string_codepoint_count (cbor_string_set_handle { (default : ItemRec) with str_codepoints := 7 } #[0x68, 0xC3, 0xA9] 3)).toNat = 2 := by
  rw [string_set_handle_count_spec _ _ _ (by decide)]; decide
example : (cbor_string_codepoint_count (cbor_string_set_handle { (default : ItemRec) with str_codepoints := 7 } #[0xED, 0xA0, 0x80] 3)).toNat = 0 := by
  rw [string_set_handle_count_spec _ _ _ (by decide)]; decide           -- a surrogate: invalid, so 0 — not the 7 the item had before

/-- the same with the bytes as a plain list: the first `len` elements of the array -/
theorem bl_eq_take (src : Array UInt8) (k p : Nat) (h : p + k ≤ src.size) :
    bl src 0 k p = ((src.toList.drop p).take k).map UInt8.toNat := by
  induction k generalizing p with
  | zero => simp [bl]
  | succ k ih =>
    have hp : p < src.toList.length := by simp; omega
    rw [bl, ih (p + 1) (by omega), List.drop_eq_getElem_cons hp]
    simp [Array.getD_eq_getD_getElem?, Array.getElem?_eq_getElem (show p < src.size by omega)]
example : bl #[0x41, 0xC3, 0xA9] 0 2 1 = [0xC3, 0xA9] := by rw [bl_eq_take _ _ _ (by decide)]; decide
theorem string_set_handle_count_spec' (r : ItemRec) (bytes : Array UInt8) (len : UInt64) (h : len.toNat ≤ bytes.size) :
    (cbor_string_codepoint_count (cbor_string_set_handle r bytes len)).toNat =
      Spec.Utf8.codepointCount ((bytes.toList.take len.toNat).map UInt8.toNat) := by
  rw [string_set_handle_count_spec r bytes len h, bl_eq_take bytes len.toNat 0 (by omega)]
  simp
example : (cbor_string_codepoint_count (cbor_string_set_handle default #[0xE2, 0x82, 0xAC, 0xFF] 3)).toNat = 1 := by
  rw [string_set_handle_count_spec' _ _ _ (by decide)]; decide           -- only the first `len` bytes count

/-- the count never exceeds the length (the `CBOR_ASSERT` of the function) -/
theorem string_set_handle_count_le (r : ItemRec) (bytes : Array UInt8) (len : UInt64) (h : len.toNat ≤ bytes.size) :
    (cbor_string_codepoint_count (cbor_string_set_handle r bytes len)).toNat ≤ (cbor_string_length (cbor_string_set_handle r bytes len)).toNat := by
  rw [string_set_handle_count_spec r bytes len h, string_set_handle_length]
  unfold Spec.Utf8.codepointCount Spec.Utf8.count
  cases hs : Spec.Utf8.countFuel (bl bytes 0 len.toNat 0).length (bl bytes 0 len.toNat 0) with
  | none => simp
  | some n =>
    have := Props.C16.count_le_length _ _ _ hs
    rw [bl_length] at this
    simpa using this
example : (cbor_string_codepoint_count (cbor_string_set_handle default #[0x41] 1)).toNat ≤ (cbor_string_length (cbor_string_set_handle default #[0x41] 1)).toNat :=
  string_set_handle_count_le _ _ _ (by decide)

/-! ## 4. side conditions -/

/-- `cbor_bytestring_set_handle` asserts a definite byte string item, and nothing about the bytes (it reads none) -/
theorem bytestring_set_handle_ok (r : ItemRec) (bytes : Array UInt8) (len : UInt64) :
    cbor_bytestring_set_handle.ok r bytes len = true ↔ r.type = 2 ∧ r.bs_type = 0 := by
  dsimp only [cbor_bytestring_set_handle.ok]
  acc_decide

/-- `cbor_string_set_handle` asserts a definite text string item … -/
theorem string_set_handle_ok_imp (r : ItemRec) (bytes : Array UInt8) (len : UInt64) (h : cbor_string_set_handle.ok r bytes len = true) :
    r.type = 3 ∧ r.str_type = 0 := by
  dsimp only [cbor_string_set_handle.ok] at h
  revert h
  acc_decide
example : ({ (default : ItemRec) with type := 3 } : ItemRec).type = 3 ∧ ({ (default : ItemRec) with type := 3 } : ItemRec).str_type = 0 :=
  string_set_handle_ok_imp _ #[0x41] 1 (by decide)
/-- … and with at least `len` bytes behind the pointer nothing else can fail: the counter reads inside the bytes (`C16_safe`) and its count
is at most `len` (`count_le_length`): all `CBOR_ASSERT`s of the function hold -/
theorem string_set_handle_ok (r : ItemRec) (bytes : Array UInt8) (len : UInt64) (hs : len.toNat ≤ bytes.size) :
    cbor_string_set_handle.ok r bytes len = true ↔ r.type = 3 ∧ r.str_type = 0 := by
  refine ⟨string_set_handle_ok_imp r bytes len, fun ⟨h1, h2⟩ => ?_⟩
  have hsafe : ∀ st0, _cbor_unicode_codepoint_count.ok bytes 0 len st0 = true := fun st0 => Props.C16.C16_safe bytes 0 len (by omega) st0
  have hle : ∀ st0, (_cbor_unicode_codepoint_count bytes 0 len st0).1 ≤ len := by
    intro st0
    have hc := Props.C16.C16_count bytes 0 len (by omega) st0
    simp only at hc
    rw [UInt64.le_iff_toNat_le]
    unfold Spec.Utf8.count at hc
    cases hq : Spec.Utf8.countFuel (bl bytes 0 len.toNat 0).length (bl bytes 0 len.toNat 0) with
    | some n =>
      rw [hq] at hc
      have := Props.C16.count_le_length _ _ _ hq
      rw [bl_length] at this
      omega
    | none =>
      rw [hq] at hc
      rw [hc.1]; simp
  dsimp only [cbor_string_set_handle.ok]
  simp only [hsafe, hle, decide_true, Bool.and_true, Bool.true_and]
  acc_decide
example : cbor_string_set_handle.ok { (default : ItemRec) with type := 3 } #[0x41, 0x42] 2 = true :=
  (string_set_handle_ok _ _ _ (by decide)).2 ⟨rfl, rfl⟩
example : cbor_string_set_handle.ok { (default : ItemRec) with type := 3 } #[0xC3] 2 = false := by decide   -- a read behind the buffer

end Props.HandleSetters

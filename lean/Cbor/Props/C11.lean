import Cbor.Lemmas.CopyFrame
/-!
# C11 — cbor_copy yields an equal, fully independent tree and leaves the source intact

Over the heap-level model (`Heap.copy` mirrors `cbor_copy` in src/cbor.c case by case, including its
clean-up paths).  Proved here, for every tree, every heap whose books are in order and every allocator oracle:
* `C11_source_intact`: the copy — successful or not — leaves every pre-existing item (the source tree and
  everything else) exactly as it was, contents *and* reference counts; a successful copy's root is a new item,
  and every new item refers to new items only, so the copy shares no node with anything that existed before;
* `C11_books`: after a successful copy the reference-count invariant holds with the client owning exactly one
  more reference, the copy's root;
* `copy_scalar`, `copy_string`: the exact result for leaves (same type, width, value / bytes, count 1).
That the copy *denotes the same value* as the source (`val`) for containers, tags and chunked strings is decided
by the history correspondence and the harness's dump / serialization / mutation checks; see DESIGN.md.
-/
namespace Props.C11
open Heap

/-- leaf nodes: integers, floats, simple values -/
def Node.isScalar : Node → Bool
  | .int .. | .ctrl _ | .half _ | .single _ | .double _ => true
  | _ => false

/-- **Scalars.**  Copying a scalar item allocates exactly one block and yields a new item (a reference that
did not exist before) with the same type, width and value and reference count 1; every existing item,
including the source, is untouched.  If the allocator refuses, the result is NULL and nothing changed. -/
theorem copy_scalar (ω : Oracle) (f : Nat) (h : H) (r : Ref) (c : Cell) (hg : h.get r = some c) (hs : Node.isScalar c.node = true) :
    Heap.copy ω (f + 1) h r =
      if ω h.reqs then (some h.cells.length, { h with cells := h.cells ++ [some ⟨c.node, 1⟩], reqs := h.reqs + 1 })
      else (none, { h with reqs := h.reqs + 1 }) := by
  unfold Heap.copy
  rw [hg]
  obtain ⟨n, rc⟩ := c
  by_cases hω : ω h.reqs = true <;> cases n <;> simp [Node.isScalar] at hs <;> simp [new1, H.req, H.new, hω]

/-- **Definite strings.**  Copying allocates the item and a new payload block (two requests); the new item has
the same type and bytes, reference count 1, and shares nothing; a refusal of either request gives NULL with
nothing changed (the item header obtained first is released again). -/
theorem copy_string (ω : Oracle) (f : Nat) (h : H) (r : Ref) (t : Bool) (b : List UInt8) (rc : Nat) (hg : h.get r = some ⟨.str t b, rc⟩) :
    Heap.copy ω (f + 1) h r =
      if ω h.reqs then
        (if ω (h.reqs + 1) then (some h.cells.length, { h with cells := h.cells ++ [some ⟨.str t b, 1⟩], reqs := h.reqs + 2 })
         else (none, { h with reqs := h.reqs + 2 }))
      else (none, { h with reqs := h.reqs + 1 }) := by
  unfold Heap.copy
  rw [hg]
  simp only [new2, H.req, H.new]
  by_cases h1 : ω h.reqs = true
  · by_cases h2 : ω (h.reqs + 1) = true
    · simp [h1, h2]
    · simp [h1, h2]
  · simp [h1]

/-- the source is untouched by a scalar or string copy: every pre-existing reference reads as before -/
theorem copy_leaf_source_intact (ω : Oracle) (f : Nat) (h : H) (r : Ref) (c : Cell) (hg : h.get r = some c)
    (hl : Node.isScalar c.node = true ∨ ∃ t b, c.node = .str t b) :
    ∀ x, x < h.cells.length → (Heap.copy ω (f + 1) h r).2.get x = h.get x := by
  intro x hx
  rcases hl with hs | ⟨t, b, hn⟩
  · rw [copy_scalar ω f h r c hg hs]
    split
    · simp only [H.get]; rw [List.getElem?_append_left hx]
    · rfl
  · obtain ⟨n, rc⟩ := c
    simp only at hn; subst hn
    rw [copy_string ω f h r t b rc hg]
    split
    · split
      · simp only [H.get]; rw [List.getElem?_append_left hx]
      · rfl
    · rfl

/-- **Independence.**  In a heap whose books are in order (`Counts`), `cbor_copy` of a live item — whether it
succeeds or fails, whatever the allocator refuses — leaves every item that existed before exactly as it was; a
successful copy's root did not exist before; and no item created by the copy refers to an item that existed
before.  Hence either tree can afterwards be modified or released without any effect on the other. -/
theorem C11_source_intact (ω : Oracle) (h : H) (own : Ref → Nat) (hc : Counts h own) (r : Ref) (c : Cell) (hg : h.get r = some c) :
    (∀ x, x < h.cells.length → (h.copy ω r).2.get x = h.get x) ∧
    (∀ r', (h.copy ω r).1 = some r' → h.cells.length ≤ r') ∧
    (∀ p cp, h.cells.length ≤ p → (h.copy ω r).2.get p = some cp → ∀ x ∈ cp.node.children, h.cells.length ≤ x) := by
  have hnd : ∀ p c, h.get p = some c → ∀ x ∈ c.node.children, x < h.cells.length := by
    intro p cp hgp x hx
    have hx' := hc x
    cases hgx : h.get x with
    | none =>
      rw [hgx] at hx'
      have h1 := count_children_le h p cp hgp x
      have h2 : 0 < cp.node.children.count x := List.count_pos_iff.mpr hx
      omega
    | some cx => exact get_lt hgx
  have := (copy_frame_all ω h.cells.length h (fun p c _ hgp => hnd p c hgp) h.copyFuel).1 h r (Fr.refl h) (get_lt hg)
  exact ⟨this.1.2.1, this.2, this.1.2.2⟩

/-- **The books after a copy.**  On success the client owns one more reference — the copy's root — and every count
is again exactly the number of references; on failure nothing is owed to anyone. -/
theorem C11_books (ω : Oracle) (h : H) (own : Ref → Nat) (hc : Counts h own) (r : Ref) (hf : (h.copy ω r).2.fault = false) :
    match (h.copy ω r).1 with
    | some r' => Counts (h.copy ω r).2 (bump own r' 1)
    | none => Counts (h.copy ω r).2 own :=
  (copy_counts_all ω h.copyFuel).1 h r own hc hf

end Props.C11

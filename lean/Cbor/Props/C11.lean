import Cbor.Lemmas.CountsOps
/-!
# C11 — cbor_copy yields an equal, fully independent tree and leaves the source intact

Over the heap-level model (`Heap.copy` mirrors `cbor_copy` in src/cbor.c case by case, including its
clean-up paths).  Proved here: the non-recursive cases (integers of every width, floats, simple values,
definite strings — the leaves every tree is made of).  The recursive cases (containers, tags, chunked
strings) are decided by the history correspondence and the harness's address-set / mutation checks; see
DESIGN.md.
-/
namespace Props.C11
open Heap

/-- leaf nodes: integers, floats, simple values -/
def Node.isScalar : Node → Bool
  | .int .. | .ctrl _ | .half _ | .single _ | .double _ => true
  | _ => false

/-- **Scalars.**  Copying a scalar item allocates exactly one block and yields a new item (a reference that
did not exist before) with the same type, width and value and reference count 1; every existing item,
including the source, is untouched.  If the allocator refuses, the result is NULL and nothing changed. -/
theorem copy_scalar (ω : Oracle) (f : Nat) (h : H) (r : Ref) (c : Cell) (hg : h.get r = some c) (hs : Node.isScalar c.node = true) :
    Heap.copy ω (f + 1) h r =
      if ω h.reqs then (some h.cells.length, { h with cells := h.cells ++ [some ⟨c.node, 1⟩], reqs := h.reqs + 1 })
      else (none, { h with reqs := h.reqs + 1 }) := by
  unfold Heap.copy
  rw [hg]
  obtain ⟨n, rc⟩ := c
  by_cases hω : ω h.reqs = true <;> cases n <;> simp [Node.isScalar] at hs <;> simp [new1, H.req, H.new, hω]

/-- **Definite strings.**  Copying allocates the item and a new payload block (two requests); the new item has
the same type and bytes, reference count 1, and shares nothing; a refusal of either request gives NULL with
nothing changed (the item header obtained first is released again). -/
theorem copy_string (ω : Oracle) (f : Nat) (h : H) (r : Ref) (t : Bool) (b : List UInt8) (rc : Nat) (hg : h.get r = some ⟨.str t b, rc⟩) :
    Heap.copy ω (f + 1) h r =
      if ω h.reqs then
        (if ω (h.reqs + 1) then (some h.cells.length, { h with cells := h.cells ++ [some ⟨.str t b, 1⟩], reqs := h.reqs + 2 })
         else (none, { h with reqs := h.reqs + 2 }))
      else (none, { h with reqs := h.reqs + 1 }) := by
  unfold Heap.copy
  rw [hg]
  simp only [new2, H.req, H.new]
  by_cases h1 : ω h.reqs = true
  · by_cases h2 : ω (h.reqs + 1) = true
    · simp [h1, h2]
    · simp [h1, h2]
  · simp [h1]

/-- the source is untouched by a scalar or string copy: every pre-existing reference reads as before -/
theorem copy_leaf_source_intact (ω : Oracle) (f : Nat) (h : H) (r : Ref) (c : Cell) (hg : h.get r = some c)
    (hl : Node.isScalar c.node = true ∨ ∃ t b, c.node = .str t b) :
    ∀ x, x < h.cells.length → (Heap.copy ω (f + 1) h r).2.get x = h.get x := by
  intro x hx
  rcases hl with hs | ⟨t, b, hn⟩
  · rw [copy_scalar ω f h r c hg hs]
    split
    · simp only [H.get]; rw [List.getElem?_append_left hx]
    · rfl
  · obtain ⟨n, rc⟩ := c
    simp only at hn; subst hn
    rw [copy_string ω f h r t b rc hg]
    split
    · split
      · simp only [H.get]; rw [List.getElem?_append_left hx]
      · rfl
    · rfl

end Props.C11

import Cbor.Lemmas.Indep
/-!
# C11 — cbor_copy yields an equal, fully independent tree and leaves the source intact

Over the heap-level model (`Heap.copy` mirrors `cbor_copy` in src/cbor.c case by case, including its
clean-up paths).  Proved here, for every tree, every heap whose books are in order and every allocator oracle:
* `C11_source_intact`: the copy — successful or not — leaves every pre-existing item (the source tree and
  everything else) exactly as it was, contents *and* reference counts; a successful copy's root is a new item,
  and every new item refers to new items only, so the copy shares no node with anything that existed before;
* `C11_books`: after a successful copy the reference-count invariant holds with the client owning exactly one
  more reference, the copy's root;
* `copy_scalar`, `copy_string`: the exact result for leaves (same type, width, value / bytes, count 1).
* `C11_copy`: for every tree `t`, every (acyclic) heap in which the source denotes `t`, and every allocator oracle: a
  successful copy is an **exclusively owned tree denoting the same `t`** — same types, widths, flavour, chunking and member
  order — laid out in exactly the cells the copy created, every one of them with reference count one; a failed copy has
  released every cell it created (the heap reads exactly as before); either way no pre-existing cell changed;
* `C11_copy_denotes`, `C11_copy_counts_one`, `C11_same_bytes`: the consequences spelled out;
* `C11_release_copy`, `C11_release_source`: either tree can be released without any effect on the other.
-/
namespace Props.C11
open Heap

/-- leaf nodes: integers, floats, simple values -/
def Node.isScalar : Node → Bool
  | .int .. | .ctrl _ | .half _ | .single _ | .double _ => true
  | _ => false

/-- **Scalars.**  Copying a scalar item allocates exactly one block and yields a new item (a reference that
did not exist before) with the same type, width and value and reference count 1; every existing item,
including the source, is untouched.  If the allocator refuses, the result is NULL and nothing changed. -/
theorem copy_scalar (ω : Oracle) (f : Nat) (h : H) (r : Ref) (c : Cell) (hg : h.get r = some c) (hs : Node.isScalar c.node = true) :
    Heap.copy ω (f + 1) h r =
      if ω h.reqs then (some h.cells.length, { h with cells := h.cells ++ [some ⟨c.node, 1⟩], reqs := h.reqs + 1 })
      else (none, { h with reqs := h.reqs + 1 }) := by
  unfold Heap.copy
  rw [hg]
  obtain ⟨n, rc⟩ := c
  by_cases hω : ω h.reqs = true <;> cases n <;> simp [Node.isScalar] at hs <;> simp [new1, H.req, H.new, hω]

/-- **Definite strings.**  Copying allocates the item and a new payload block (two requests); the new item has
the same type and bytes, reference count 1, and shares nothing; a refusal of either request gives NULL with
nothing changed (the item header obtained first is released again). -/
theorem copy_string (ω : Oracle) (f : Nat) (h : H) (r : Ref) (t : Bool) (b : List UInt8) (rc : Nat) (hg : h.get r = some ⟨.str t b, rc⟩) :
    Heap.copy ω (f + 1) h r =
      if ω h.reqs then
        (if ω (h.reqs + 1) then (some h.cells.length, { h with cells := h.cells ++ [some ⟨.str t b, 1⟩], reqs := h.reqs + 2 })
         else (none, { h with reqs := h.reqs + 2 }))
      else (none, { h with reqs := h.reqs + 1 }) := by
  unfold Heap.copy
  rw [hg]
  simp only [new2, H.req, H.new]
  by_cases h1 : ω h.reqs = true
  · by_cases h2 : ω (h.reqs + 1) = true
    · simp [h1, h2]
    · simp [h1, h2]
  · simp [h1]

/-- the source is untouched by a scalar or string copy: every pre-existing reference reads as before -/
theorem copy_leaf_source_intact (ω : Oracle) (f : Nat) (h : H) (r : Ref) (c : Cell) (hg : h.get r = some c)
    (hl : Node.isScalar c.node = true ∨ ∃ t b, c.node = .str t b) :
    ∀ x, x < h.cells.length → (Heap.copy ω (f + 1) h r).2.get x = h.get x := by
  intro x hx
  rcases hl with hs | ⟨t, b, hn⟩
  · rw [copy_scalar ω f h r c hg hs]
    split
    · simp only [H.get]; rw [List.getElem?_append_left hx]
    · rfl
  · obtain ⟨n, rc⟩ := c
    simp only at hn; subst hn
    rw [copy_string ω f h r t b rc hg]
    split
    · split
      · simp only [H.get]; rw [List.getElem?_append_left hx]
      · rfl
    · rfl

/-- **Independence.**  In a heap whose books are in order (`Counts`), `cbor_copy` of a live item — whether it
succeeds or fails, whatever the allocator refuses — leaves every item that existed before exactly as it was; a
successful copy's root did not exist before; and no item created by the copy refers to an item that existed
before.  Hence either tree can afterwards be modified or released without any effect on the other. -/
theorem C11_source_intact (ω : Oracle) (h : H) (own : Ref → Nat) (hc : Counts h own) (r : Ref) (c : Cell) (hg : h.get r = some c) :
    (∀ x, x < h.cells.length → (h.copy ω r).2.get x = h.get x) ∧
    (∀ r', (h.copy ω r).1 = some r' → h.cells.length ≤ r') ∧
    (∀ p cp, h.cells.length ≤ p → (h.copy ω r).2.get p = some cp → ∀ x ∈ cp.node.children, h.cells.length ≤ x) := by
  have hnd : ∀ p c, h.get p = some c → ∀ x ∈ c.node.children, x < h.cells.length := by
    intro p cp hgp x hx
    have hx' := hc x
    cases hgx : h.get x with
    | none =>
      rw [hgx] at hx'
      have h1 := count_children_le h p cp hgp x
      have h2 : 0 < cp.node.children.count x := List.count_pos_iff.mpr hx
      omega
    | some cx => exact get_lt hgx
  have := (copy_frame_all ω h.cells.length h (fun p c _ hgp => hnd p c hgp) h.copyFuel).1 h r (Fr.refl h) (get_lt hg)
  exact ⟨this.1.2.1, this.2, this.1.2.2⟩

/-- **The books after a copy.**  On success the client owns one more reference — the copy's root — and every count
is again exactly the number of references; on failure nothing is owed to anyone. -/
theorem C11_books (ω : Oracle) (h : H) (own : Ref → Nat) (hc : Counts h own) (r : Ref) (hf : (h.copy ω r).2.fault = false) :
    match (h.copy ω r).1 with
    | some r' => Counts (h.copy ω r).2 (bump own r' 1)
    | none => Counts (h.copy ω r).2 own :=
  (copy_counts_all ω h.copyFuel).1 h r own hc hf

/-- the source containers are acyclic (the client obligation named in C04): some rank strictly decreases from every
live container to its members -/
abbrev Acyclic (h : H) : Prop := ∃ rank : Ref → Nat, ∀ r c, h.get r = some c → ∀ x ∈ c.node.children, rank x < rank r

/-- **`cbor_copy`, fully.**  If item `x` denotes the tree `t` (`Den`: types, widths, values, flavour, chunk boundaries, member
order; sub-items may be shared), then for every allocator oracle: the fault flag is untouched (no assertion, no NULL
dereference, no use of a released item on any clean-up path), no pre-existing cell changes, and
* on success the result `y` is an *exclusively owned* tree for the same `t`, occupying exactly the cells the copy created
  (`Own`: every node has reference count one, no node is used twice, nothing outside the new cells is part of it);
* on failure the heap reads exactly as it did before the call: everything allocated on the way has been released. -/
theorem C11_copy (ω : Oracle) (h : H) (t : Spec.Item) (x : Ref) (hd : Den t h x) (hac : Acyclic h) :
    (h.copy ω x).2.fault = h.fault ∧
    (∀ r : Nat, r < h.cells.length → (h.copy ω x).2.get r = h.get r) ∧
    match (h.copy ω x).1 with
    | some y => Own t (h.copy ω x).2 y h.cells.length (h.copy ω x).2.cells.length
    | none => ∀ r : Nat, (h.copy ω x).2.get r = h.get r := by
  have hp := copy_spec_top ω t h.copyFuel h x hd (need_le_copyFuel h hac t x hd)
  unfold H.copy
  obtain ⟨h1, h2, h3, h4⟩ := hp
  refine ⟨h1, h3, ?_⟩
  cases hr : (copy ω h.copyFuel h x).1 with
  | some y => rw [hr] at h4; exact h4
  | none =>
    rw [hr] at h4
    intro r
    by_cases hlt : r < h.cells.length
    · exact h3 r hlt
    · rw [h4 r (by omega), get_none_of_ge h r (by omega)]

/-- the copy denotes the same tree as the source -/
theorem C11_copy_denotes (ω : Oracle) (h : H) (t : Spec.Item) (x : Ref) (hd : Den t h x) (hac : Acyclic h) (y : Ref)
    (hs : (h.copy ω x).1 = some y) : Den t (h.copy ω x).2 y := by
  have := (C11_copy ω h t x hd hac).2.2
  rw [hs] at this
  exact own_den t y _ _ this

/-- hence it serializes to the same bytes: both denote `t`, and the serializer's output is a function of the tree
(`Props.C03`: `Spec.encode t`) -/
theorem C11_same_bytes (ω : Oracle) (h : H) (t : Spec.Item) (x : Ref) (hd : Den t h x) (hac : Acyclic h) (y : Ref)
    (hs : (h.copy ω x).1 = some y) : ∃ t', Den t' (h.copy ω x).2 y ∧ Spec.encode t' = Spec.encode t :=
  ⟨t, C11_copy_denotes ω h t x hd hac y hs, rfl⟩

/-- every cell the copy created is live with reference count one, and the copy's root is one of them -/
theorem C11_copy_counts_one (ω : Oracle) (h : H) (t : Spec.Item) (x : Ref) (hd : Den t h x) (hac : Acyclic h) (y : Ref)
    (hs : (h.copy ω x).1 = some y) :
    h.cells.length ≤ y ∧ ∀ r, h.cells.length ≤ r → r < (h.copy ω x).2.cells.length → ∃ c, (h.copy ω x).2.get r = some c ∧ c.rc = 1 := by
  have := (C11_copy ω h t x hd hac).2.2
  rw [hs] at this
  exact ⟨(own_lt t y _ _ this).2.1, own_all_one t _ y _ _ this⟩

/-- **Releasing the copy** releases exactly the cells the copy created: afterwards every pre-existing cell — the source
included — reads as it did before the copy was made -/
theorem C11_release_copy (ω : Oracle) (h : H) (t : Spec.Item) (x : Ref) (hd : Den t h x) (hac : Acyclic h) (y : Ref)
    (hs : (h.copy ω x).1 = some y) :
    ((h.copy ω x).2.decref y).fault = h.fault ∧ ∀ r : Nat, ((h.copy ω x).2.decref y).get r = h.get r := by
  obtain ⟨h1, h2, h3⟩ := C11_copy ω h t x hd hac
  rw [hs] at h3
  have hf := hdecref_own h3 (Nat.le_refl _)
  refine ⟨hf.1.trans h1, fun r => ?_⟩
  by_cases hlt : r < h.cells.length
  · rw [hf.2.2.2.2 r (Or.inl hlt)]; exact h2 r hlt
  · by_cases hlt' : r < (h.copy ω x).2.cells.length
    · rw [hf.2.2.2.1 r (by omega) hlt', get_none_of_ge h r (by omega)]
    · rw [hf.2.2.2.2 r (Or.inr (by omega)), get_none_of_ge _ r (by omega), get_none_of_ge h r (by omega)]

/-- **Releasing the source** (or any other pre-existing item) after the copy leaves the copy exactly as it was: still an
exclusively owned tree for `t` -/
theorem C11_release_source (ω : Oracle) (h : H) (own : Ref → Nat) (hc : Counts h own) (t : Spec.Item) (x : Ref) (hd : Den t h x)
    (hac : Acyclic h) (y : Ref) (hs : (h.copy ω x).1 = some y) (z : Ref) (hz : z < h.cells.length) :
    Own t ((h.copy ω x).2.decref z) y h.cells.length (h.copy ω x).2.cells.length := by
  obtain ⟨_, h2, h3⟩ := C11_copy ω h t x hd hac
  rw [hs] at h3
  have hcl : Closed h.cells.length (h.copy ω x).2 := closed_congr (closed_of_counts hc) h2
  exact own_congr t y _ _ (fun r hr _ => hdecref_below hcl hz r hr) h3

/-! non-vacuity: the hypotheses are satisfiable — a heap in which an array holds the same integer twice (a shared
sub-item); it denotes `[7, 7]` and is acyclic -/
example :
    let h : H := { cells := [some ⟨.int false .w8 7, 3⟩, some ⟨.arr false [0, 0] 2, 1⟩] }
    Den (.arrayI [.uint .w8 7, .uint .w8 7]) h 1 ∧ Acyclic h := by
  refine ⟨?_, ⟨fun r => r, ?_⟩⟩
  · simp [Den, DenList, H.get]
  · intro r c hg x hx
    match r, hg with
    | 0, hg => simp [H.get] at hg; subst hg; simp [Node.children] at hx
    | 1, hg => simp [H.get] at hg; subst hg; simp [Node.children] at hx; subst hx; exact Nat.zero_lt_one
    | r+2, hg => simp [H.get] at hg

end Props.C11

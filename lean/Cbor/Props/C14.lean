import Cbor.Lemmas.LoadFacts
/-!
# C14 — items decode independently of what follows them: CBOR sequences work

Over `Model.load` (see C02): every acceptable `x`, every `y`, every nesting limit.
-/
namespace Props.C14
open Model Spec Abs Lemmas Lemmas.Refine Lemmas.LoadFacts Lemmas.Fund Lemmas.Local

/-- **decoding `x ++ y` yields the same tree and the same bytes-read count as decoding `x` alone** -/
theorem C14_suffix (x y : Array UInt8) (hsz : (x ++ y).size < 2 ^ 56) (L : Nat) (r0 r0' : LoadResult) (t : Item) (n : Nat)
    (hok : (Model.load ωT L r0 x).item = some t ∧ (Model.load ωT L r0 x).result.read = n) :
    (Model.load ωT L r0' (x ++ y)).item = some t ∧ (Model.load ωT L r0' (x ++ y)).result.read = n := by
  have hx : x.size < 2 ^ 56 := by simp at hsz; omega
  have hdec := (load_ok_iff x hx L r0 t n).mp hok
  obtain ⟨hne, hrun⟩ := (decode_ok_iff_run L (getOf x) x.size t n).mp hdec
  have hm := run_mono _ _ _ _ _ hrun
  have hrun' := run_suffix (L := L) (okA := okGuard) (get := getOf x) (get' := getOf (x ++ y)) (len := x.size)
    (len' := (x ++ y).size) (x.size + 1) ((x ++ y).size + 1) [] 0 t n hrun
    (fun i hi => getOf_append_left x y i (by omega)) (by simp only [Array.size_append]; omega) (by omega)
  exact (load_ok_iff (x ++ y) hsz L r0' t n).mpr
    ((decode_ok_iff_run L (getOf (x ++ y)) (x ++ y).size t n).mpr ⟨by simp only [Array.size_append]; omega, hrun'⟩)

/-- hence repeatedly decoding at an offset advanced by bytes-read splits a concatenation of two items into
exactly those two items, the second read starting exactly where the first ended (and so on inductively) -/
theorem C14_two (x y : Array UInt8) (hsz : (x ++ y).size < 2 ^ 56) (L : Nat) (r0 : LoadResult) (t : Item)
    (hx : (Model.load ωT L r0 x).item = some t ∧ (Model.load ωT L r0 x).result.read = x.size) :
    (Model.load ωT L r0 (x ++ y)).item = some t ∧ (Model.load ωT L r0 (x ++ y)).result.read = x.size ∧
    (x ++ y).extract x.size (x ++ y).size = y := by
  have := C14_suffix x y hsz L r0 r0 t x.size hx
  refine ⟨this.1, this.2, ?_⟩
  apply Array.ext
  · simp
  · intro i h1 h2
    simp [Array.getElem_extract, Array.getElem_append_right]

end Props.C14

import Cbor.Lemmas.CountsOps
import Cbor.Lemmas.LoadSafe
import Cbor.Lemmas.CopyFrame
import Cbor.Props.C11
/-!
# C06 — an allocation failure is reported cleanly and atomically

Over the heap-level model: whenever a builder or a container operation reports failure (NULL / false), the
heap — every item, every reference count, every container's contents and capacity — is exactly what it was
before the call; only the count of allocator requests has advanced.  This holds for *every* oracle, i.e. for
every choice of which allocator requests are refused.  `cbor_copy` allocates repeatedly and cleans up after a late refusal:
`C06_copy_atomic` proves, for every tree, every acyclic heap and every oracle, that a failed copy has released everything it
allocated (the heap reads exactly as before, the same number of blocks is live) and never faults.  (`cbor_load` and
`cbor_serialize_alloc`: see `C06_load_any_schedule` and DESIGN.md.)
-/
namespace Props.C06
open Heap

theorem new1_atomic (ω : Oracle) (h : H) (n : Node) (hf : (new1 ω h n).1 = none) :
    (new1 ω h n).2.cells = h.cells ∧ (new1 ω h n).2.fault = h.fault := by
  unfold new1 at hf ⊢
  simp only [H.req] at hf ⊢
  by_cases hω : ω h.reqs = true
  · simp [hω, H.new] at hf
  · simp [hω]

theorem new2_atomic (ω : Oracle) (h : H) (n : Node) (hf : (new2 ω h n).1 = none) :
    (new2 ω h n).2.cells = h.cells ∧ (new2 ω h n).2.fault = h.fault := by
  unfold new2 at hf ⊢
  simp only [H.req] at hf ⊢
  by_cases h1 : ω h.reqs = true
  · by_cases h2 : ω (h.reqs + 1) = true
    · simp [h1, h2, H.new] at hf
    · simp [h1, h2]
  · simp [h1]

theorem newMulti_atomic (ω : Oracle) (h : H) (a b : Nat) (n : Node) (hf : (newMulti ω h a b n).1 = none) :
    (newMulti ω h a b n).2.cells = h.cells ∧ (newMulti ω h a b n).2.fault = h.fault := by
  unfold newMulti at hf ⊢
  simp only [H.req] at hf ⊢
  by_cases h1 : ω h.reqs = true
  · by_cases hm : mulOk a b = true
    · by_cases h2 : ω (h.reqs + 1) = true
      · simp [h1, h2, hm, H.new] at hf
      · simp [h1, h2, hm]
    · simp [h1, hm]
  · simp [h1]

theorem grow_none (ω : Oracle) (h : H) (sz al : Nat) : (grow ω h sz al).2.cells = h.cells ∧ (grow ω h sz al).2.fault = h.fault :=
  grow_same ω h sz al

/-- a refused push (full definite array, overflow guard, or refused reallocation) leaves the heap untouched -/
theorem push_atomic (ω : Oracle) (h : H) (a x : Ref) (hf : (arrPush ω h a x).1 = false) :
    (arrPush ω h a x).2.cells = h.cells := by
  unfold arrPush at hf ⊢
  cases hg : h.get a with
  | none => rfl
  | some c =>
    obtain ⟨n, rc⟩ := c
    cases n with
    | arr d items alloc =>
      cases d with
      | true =>
        simp only [hg] at hf ⊢
        split
        · rfl
        · rename_i hlt; simp [hlt] at hf
      | false =>
        simp only [hg] at hf ⊢
        split
        · rename_i hge
          simp only [hge, if_true] at hf
          have hs := grow_same ω h 8 alloc
          cases hgr : grow ω h 8 alloc with
          | mk o h1 =>
            rw [hgr] at hf hs
            cases o with
            | none => exact hs.1
            | some na => simp at hf
        · rename_i hlt; simp [hlt] at hf
    | _ => rfl

theorem map_add_atomic (ω : Oracle) (h : H) (m k v : Ref) (hf : (mapAdd ω h m k v).1 = false) :
    (mapAdd ω h m k v).2.cells = h.cells := by
  unfold mapAdd at hf ⊢
  cases hg : h.get m with
  | none => rfl
  | some c =>
    obtain ⟨n, rc⟩ := c
    cases n with
    | map d ps alloc =>
      cases d with
      | true =>
        simp only [hg] at hf ⊢
        split
        · rfl
        · rename_i hlt; simp [hlt] at hf
      | false =>
        simp only [hg] at hf ⊢
        split
        · rename_i hge
          simp only [hge, if_true] at hf
          have hs := grow_same ω h 16 alloc
          cases hgr : grow ω h 16 alloc with
          | mk o h1 =>
            rw [hgr] at hf hs
            cases o with
            | none => exact hs.1
            | some na => simp at hf
        · rename_i hlt; simp [hlt] at hf
    | _ => rfl

theorem add_chunk_atomic (ω : Oracle) (h : H) (s c : Ref) (hf : (addChunk ω h s c).1 = false) :
    (addChunk ω h s c).2.cells = h.cells := by
  unfold addChunk at hf ⊢
  cases hgs : h.get s with
  | none => rfl
  | some cs =>
    obtain ⟨n, rc⟩ := cs
    cases n with
    | strI t chunks cap =>
      cases hgc : h.get c with
      | none => rfl
      | some cc =>
        obtain ⟨n', rc'⟩ := cc
        cases n' with
        | str t' b =>
          simp only [hgs, hgc] at hf ⊢
          split
          · rfl
          · rename_i heq
            simp only [heq, if_false] at hf
            split
            · rename_i hfull
              simp only [hfull, if_true] at hf
              have hs := grow_same ω h 8 cap
              cases hgr : grow ω h 8 cap with
              | mk o h1 =>
                rw [hgr] at hf hs
                cases o with
                | none => exact hs.1
                | some na => simp at hf
            · rename_i hnf; simp [hnf] at hf
        | _ => rfl
    | _ => rfl

theorem build_tag_atomic (ω : Oracle) (h : H) (n : Nat) (x : Ref) (hf : (buildTag ω h n x).1 = none) :
    (buildTag ω h n x).2.cells = h.cells := by
  unfold buildTag at hf ⊢
  have := new1_atomic ω h (.tag n none)
  cases hn : new1 ω h (.tag n none) with
  | mk o h1 =>
    rw [hn] at hf this
    cases o with
    | none => exact (this rfl).1
    | some t => simp at hf

/-- `cbor_array_set` reporting false — index beyond the end, full definite array, refused growth — leaves the heap untouched -/
theorem set_atomic (ω : Oracle) (h : H) (a : Ref) (i : Nat) (x : Ref) (hf : (arrSet ω h a i x).1 = false) :
    (arrSet ω h a i x).2.cells = h.cells := by
  unfold arrSet at hf ⊢
  cases hg : h.get a with
  | none => rfl
  | some c =>
    obtain ⟨n, rc⟩ := c
    cases n with
    | arr d items alloc =>
      simp only [hg] at hf ⊢
      split
      · rename_i e; simp only [e, if_true] at hf; exact push_atomic ω h a x hf
      · rename_i e
        simp only [e, if_false] at hf
        split
        · rename_i e2
          simp only [e2, if_true] at hf
          unfold arrReplace at hf ⊢
          simp only [hg] at hf ⊢
          have hi : (items[i]?).isSome := by simp [e2]
          cases hh : items[i]? with
          | none => rfl
          | some old => simp [hh] at hf
        · rfl
    | _ => rfl

/-- **`cbor_load` under every refusal schedule**: whatever subset of its allocator requests is refused, the model of
`cbor_load` trips no internal assertion and reports through its documented channel — an item with code NONE, or NULL
with an error code. -/
theorem C06_load_any_schedule (ω : Model.Oracle) (L : Nat) (r0 : Model.LoadResult) (src : Array UInt8) (hsz : src.size < 2 ^ 64 - 1) :
    let o := Model.load ω L r0 src
    o.fault = false ∧ ((∃ x, o.item = some x ∧ o.result.code = .none) ∨ (o.item = none ∧ o.result.code ≠ .none)) :=
  Lemmas.Safe.load_safe ω L r0 src hsz

/-- **`cbor_copy` under every refusal schedule** leaves its argument — and every other pre-existing item — exactly as
it was (contents and reference counts), whether it succeeds or fails; and the reference-count books balance again
afterwards (`Heap.copy_frame_all`, `Heap.copy_counts_all`). -/
theorem C06_copy_any_schedule (ω : Oracle) (h : H) (own : Ref → Nat) (hc : Counts h own) (r : Ref) (c : Cell) (hg : h.get r = some c)
    (hf : (h.copy ω r).2.fault = false) :
    (∀ x, x < h.cells.length → (h.copy ω r).2.get x = h.get x) ∧
    (match (h.copy ω r).1 with
     | some r' => Counts (h.copy ω r).2 (bump own r' 1)
     | none => Counts (h.copy ω r).2 own) := by
  have hnd : ∀ p c, h.get p = some c → ∀ x ∈ c.node.children, x < h.cells.length := by
    intro p cp hgp x hx
    have hx' := hc x
    cases hgx : h.get x with
    | none =>
      rw [hgx] at hx'
      have h1 := count_children_le h p cp hgp x
      have h2 : 0 < cp.node.children.count x := List.count_pos_iff.mpr hx
      omega
    | some cx => exact get_lt hgx
  exact ⟨(copy_source_intact ω h r (get_lt hg) hnd).1, (copy_counts_all ω h.copyFuel).1 h r own hc hf⟩

/-- **`cbor_copy` is atomic under every refusal schedule.**  Whatever requests the allocator refuses while a tree is being
copied — the k-th alone, the k-th and all later, any subset — a copy that reports failure (NULL) has released every item
and buffer it had allocated up to that point: every cell of the heap reads exactly as before the call (contents and reference
counts of the argument and of everything else), the number of live items and of live allocator blocks is what it was, and
no clean-up path trips the fault flag (no NULL dereference, no use after release, no double release). -/
theorem C06_copy_atomic (ω : Oracle) (h : H) (t : Spec.Item) (x : Ref) (hd : Den t h x) (hac : Props.C11.Acyclic h)
    (hfail : (h.copy ω x).1 = none) :
    (h.copy ω x).2.fault = h.fault ∧ (∀ r : Nat, (h.copy ω x).2.get r = h.get r) ∧
    (h.copy ω x).2.liveCells = h.liveCells ∧ (h.copy ω x).2.liveBlocks = h.liveBlocks := by
  obtain ⟨h1, h2, h3⟩ := Props.C11.C11_copy ω h t x hd hac
  rw [hfail] at h3
  have hlen : h.cells.length ≤ (h.copy ω x).2.cells.length := by
    have := (copy_spec_top ω t h.copyFuel h x hd (need_le_copyFuel h hac t x hd)).2.1
    exact this
  have hcells := cells_eq_append_nones hlen h2 (fun r hr => by rw [h3 r, get_none_of_ge h r hr])
  refine ⟨h1, h3, ?_, ?_⟩
  · unfold H.liveCells; rw [hcells, liveCells_append_nones]
  · rw [liveBlocks_eq, liveBlocks_eq, hcells, liveBlocks_append_nones]

/-- **`cbor_serialize_alloc` makes one request** (for exactly the computed size) and, when it is refused, returns 0 with a NULL
buffer: the model has nothing else it could have allocated or changed — for every tree, valid or not -/
theorem C06_serialize_alloc_atomic (okAlloc : Nat → Bool) (t : Spec.Item) (h : okAlloc (Model.size t).toNat = false) :
    Model.serializeAlloc okAlloc t = none := by
  unfold Model.serializeAlloc
  simp [h]

end Props.C06

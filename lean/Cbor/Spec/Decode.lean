import Cbor.Spec.Item
/-!
# Reference decoder (RFC 8949 §3 and Appendix C), with libcbor's error taxonomy (property C05)

A recursive-descent reading of one data item at offset `p` of a buffer, for a nesting limit `L`:

* `ok x q`      — a complete, well-formed item `x` occupies bytes `[p, q)`;
* `err notEnough pos` — the buffer ends inside the item; `pos` = offset of the first incomplete or missing head;
* `err malformed pos` — reserved / unsupported initial byte at offset `pos`;
* `err syntax pos`    — a complete head that is illegal where it stands ends at `pos` (break outside an
                        indefinite item or in value position of a map; a non-chunk inside a chunked string);
* `err mem pos`       — the head ending at `pos` would open nesting level `L + 1`, or declares storage that
                        cannot be allocated (`okA`).

`lazy = true` is libcbor's reporting order for an illegal item inside a chunked string: an item that itself
opens a container is read to its end (errors inside it win) and the SYNTAXERROR is reported where it ends.
`lazy = false` reports it just past the offending head.  Property C05 admits both.

Allocation refusals are not part of this specification (they are a property of the run, not of the bytes).
-/
namespace Spec

inductive Err | notEnough | malformed | syntax | mem
deriving DecidableEq, Repr, Inhabited

inductive Res (α : Type)
  | ok (v : α) (next : Nat)
  | err (e : Err) (pos : Nat)
deriving Repr, Inhabited

/-- the `n` bytes starting at `p` -/
def slice (get : Nat → UInt8) (p n : Nat) : List UInt8 := (List.range n).map fun i => get (p + i)

/-- the binary32 pattern denoting the same value as the binary16 pattern `h` (NaN ↦ quiet NaN with the sign of `h`) -/
def halfToSingle (h : Nat) : Nat :=
  let ex := (h / 1024) % 32
  let mant := h % 1024
  let sign : Nat := if h % 65536 ≥ 32768 then 0x80000000 else 0
  let msb : Nat := if mant ≥ 512 then 9 else if mant ≥ 256 then 8 else if mant ≥ 128 then 7 else if mant ≥ 64 then 6
    else if mant ≥ 32 then 5 else if mant ≥ 16 then 4 else if mant ≥ 8 then 3 else if mant ≥ 4 then 2
    else if mant ≥ 2 then 1 else 0
  let mag : Nat :=
    if ex = 0 then (if mant = 0 then 0 else (msb + 103) * 8388608 + (mant - 2 ^ msb) * 2 ^ (23 - msb))
    else if ex ≠ 31 then (ex + 112) * 8388608 + mant * 8192
    else if mant = 0 then 0x7F800000 else 0x7FC00000
  sign + mag

/-- does this head open a nesting level (push a decoding-stack frame)? -/
def Tok.opens : Tok → Bool
  | .tag _ | .arrayStart | .mapStart | .bytesStart | .textStart => true
  | .array n => n ≠ 0
  | .map n => n ≠ 0
  | _ => false

/-- head at offset `p` of the buffer `(get, len)` -/
def headAt (get : Nat → UInt8) (len p : Nat) : HeadRes := decodeHead (fun i => get (p + i)) (len - p)

/-- `okA tok`: can the storage the head `tok` declares (payload of a definite string, slots of a definite
array or map) be allocated?  `fun _ => true` is "memory permitting"; libcbor itself refuses counts whose
byte size does not fit in `size_t`. -/
abbrev AllocOk := Tok → Bool

variable (lz : Bool) (L : Nat) (okA : AllocOk) (get : Nat → UInt8) (len : Nat)

mutual
/-- one data item at offset `p`, with `d` nesting levels already open -/
def item : Nat → Nat → Nat → Res Item
  | 0, p, _ => .err .notEnough p
  | f+1, p, d =>
    match headAt get len p with
    | .nedata _ => .err .notEnough p
    | .error => .err .malformed p
    | .ok tok l =>
      let q := p + l
      if !okA tok then .err .mem q else
      match tok with
      | .uint w v => .ok (.uint w v) q
      | .negint w v => .ok (.negint w v) q
      | .bytes o n => .ok (.bytes (slice get (p + o) n)) q
      | .text o n => .ok (.text (slice get (p + o) n)) q
      | .half h => .ok (.half (halfToSingle h)) q
      | .single b => .ok (.single b) q
      | .double b => .ok (.double b) q
      | .bool b => .ok (.simple (if b then 21 else 20)) q
      | .null => .ok (.simple 22) q
      | .undefined => .ok (.simple 23) q
      | .brk => .err .syntax q
      | .tag n =>
        if d ≥ L then .err .mem q else
        match item f q (d + 1) with
        | .ok x r => .ok (.tag n x) r
        | .err e r => .err e r
      | .array n =>
        if n = 0 then .ok (.array []) q else if d ≥ L then .err .mem q else
        match elems f n q (d + 1) [] with
        | .ok xs r => .ok (.array xs) r
        | .err e r => .err e r
      | .arrayStart =>
        if d ≥ L then .err .mem q else
        match elemsI f q (d + 1) [] with
        | .ok xs r => .ok (.arrayI xs) r
        | .err e r => .err e r
      | .map n =>
        if n = 0 then .ok (.map []) q else if d ≥ L then .err .mem q else
        match pairs f n q (d + 1) [] with
        | .ok kvs r => .ok (.map kvs) r
        | .err e r => .err e r
      | .mapStart =>
        if d ≥ L then .err .mem q else
        match pairsI f q (d + 1) [] with
        | .ok kvs r => .ok (.mapI kvs) r
        | .err e r => .err e r
      | .bytesStart =>
        if d ≥ L then .err .mem q else
        match chunks f 2 q (d + 1) [] with
        | .ok cs r => .ok (.bytesI cs) r
        | .err e r => .err e r
      | .textStart =>
        if d ≥ L then .err .mem q else
        match chunks f 3 q (d + 1) [] with
        | .ok cs r => .ok (.textI cs) r
        | .err e r => .err e r

/-- exactly `n` further items -/
def elems : Nat → Nat → Nat → Nat → List Item → Res (List Item)
  | 0, _, p, _, _ => .err .notEnough p
  | _+1, 0, p, _, acc => .ok acc.reverse p
  | f+1, n+1, p, d, acc =>
    match item f p d with
    | .ok x q => elems f n q d (x :: acc)
    | .err e q => .err e q

/-- items up to the closing break -/
def elemsI : Nat → Nat → Nat → List Item → Res (List Item)
  | 0, p, _, _ => .err .notEnough p
  | f+1, p, d, acc =>
    match headAt get len p with
    | .ok .brk l => .ok acc.reverse (p + l)
    | _ =>
      match item f p d with
      | .ok x q => elemsI f q d (x :: acc)
      | .err e q => .err e q

/-- exactly `n` further key/value pairs -/
def pairs : Nat → Nat → Nat → Nat → List (Item × Item) → Res (List (Item × Item))
  | 0, _, p, _, _ => .err .notEnough p
  | _+1, 0, p, _, acc => .ok acc.reverse p
  | f+1, n+1, p, d, acc =>
    match item f p d with
    | .err e q => .err e q
    | .ok k q =>
      match item f q d with
      | .err e r => .err e r
      | .ok v r => pairs f n r d ((k, v) :: acc)

/-- key/value pairs up to a closing break in key position (a break in value position is a syntax error) -/
def pairsI : Nat → Nat → Nat → List (Item × Item) → Res (List (Item × Item))
  | 0, p, _, _ => .err .notEnough p
  | f+1, p, d, acc =>
    match headAt get len p with
    | .ok .brk l => .ok acc.reverse (p + l)
    | _ =>
      match item f p d with
      | .err e q => .err e q
      | .ok k q =>
        match item f q d with
        | .err e r => .err e r
        | .ok v r => pairsI f r d ((k, v) :: acc)

/-- definite chunks of major type `mt` (2 bytes, 3 text) up to the closing break -/
def chunks : Nat → Nat → Nat → Nat → List (List UInt8) → Res (List (List UInt8))
  | 0, _, p, _, _ => .err .notEnough p
  | f+1, mt, p, d, acc =>
    match headAt get len p with
    | .nedata _ => .err .notEnough p
    | .error => .err .malformed p
    | .ok tok l =>
      if !okA tok then .err .mem (p + l) else
      match tok with
      | .brk => .ok acc.reverse (p + l)
      | .bytes o n => if mt = 2 then chunks f mt (p + l) d (slice get (p + o) n :: acc) else .err .syntax (p + l)
      | .text o n => if mt = 3 then chunks f mt (p + l) d (slice get (p + o) n :: acc) else .err .syntax (p + l)
      | tok =>
        if lz && tok.opens then
          match item f p d with
          | .ok _ r => .err .syntax r
          | .err e r => .err e r
        else .err .syntax (p + l)
end

/-- outcome of decoding the first item of a buffer -/
inductive Outcome
  | ok (x : Item) (read : Nat)
  | nodata
  | fail (e : Err) (pos : Nat)
deriving Repr, Inhabited

def decode : Outcome :=
  if len = 0 then .nodata else
  match item lz L okA get len (2 * len + 3) 0 0 with
  | .ok x q => .ok x q
  | .err e p => .fail e p

end Spec

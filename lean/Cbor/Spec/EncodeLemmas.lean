import Cbor.Spec.HeadLemmas
import Cbor.Spec.Encode

namespace Spec
/-! ### decoding an encoded head (RFC 8949 heads are self-delimiting and invertible) -/

theorem beNat_beBytes (get : Nat → UInt8) (off k v : Nat)
    (hg : ∀ i (h : i < (beBytes v k).length), get (off + i) = (beBytes v k)[i]) :
    beNat get off k = v % 256 ^ k := by
  induction k generalizing off with
  | zero => simp [beNat, Nat.mod_one]
  | succ k ih =>
    have h0 := hg 0 (by simp [beBytes])
    simp only [beBytes, List.getElem_cons_zero, Nat.add_zero] at h0
    have hrest : ∀ i (h : i < (beBytes v k).length), get (off + 1 + i) = (beBytes v k)[i] := by
      intro i hi
      have := hg (i + 1) (by simp [beBytes]; omega)
      simpa [beBytes, Nat.add_assoc, Nat.add_comm 1 i] using this
    simp only [beNat]
    rw [h0, ih (off + 1) hrest]
    have hb : (UInt8.ofNat (v / 256 ^ k % 256)).toNat = v / 256 ^ k % 256 := by
      simp [UInt8.toNat_ofNat'] <;> omega
    rw [hb, Nat.pow_succ, Nat.mod_mul, Nat.mul_comm]
    omega

theorem beBytes_length (v k : Nat) : (beBytes v k).length = k := by
  induction k with
  | zero => rfl
  | succ k ih => simp [beBytes, ih]

theorem headBytes_length (mt ai v : Nat) : (headBytes mt ai v).length = if ai < 24 then 1 else 1 + argBytes ai := by
  unfold headBytes; split <;> simp [beBytes_length] <;> omega

/-- decoding the head `headBytes mt ai v` (major types 0..6) gives back exactly `(mt, ai, v)` -/
theorem decodeHead_headBytes (get : Nat → UInt8) (len mt ai v : Nat) (hmt : mt < 7) (hai : ai ≤ 27)
    (hv : if ai < 24 then v = ai else v < 256 ^ argBytes ai)
    (hg : ∀ i (h : i < (headBytes mt ai v).length), get i = (headBytes mt ai v)[i])
    (hl : (headBytes mt ai v).length ≤ len) :
    decodeHead get len = tokOfArg mt ai v (headBytes mt ai v).length len := by
  have hlen := headBytes_length mt ai v
  have h0 : get 0 = UInt8.ofNat (mt * 32 + ai) := by
    have := hg 0 (by rw [hlen]; split <;> omega)
    rw [this]; unfold headBytes; split <;> simp
  have h0n : (get 0).toNat = mt * 32 + ai := by rw [h0]; simp [UInt8.toNat_ofNat']; omega
  have hmtv : (get 0).toNat / 32 = mt := by rw [h0n]; omega
  have haiv : (get 0).toNat % 32 = ai := by rw [h0n]; omega
  unfold decodeHead
  rw [if_neg (by rw [hlen] at hl; split at hl <;> omega), hmtv, haiv, if_neg (by omega)]
  unfold decodeMtArg
  by_cases ha : ai < 24
  · simp only [ha, if_true] at hv hlen ⊢
    rw [hlen, hv]
  · simp only [ha, if_false] at hv hlen ⊢
    rw [if_pos hai, hlen, if_pos (by rw [hlen] at hl; exact hl)]
    have hb : beNat get 1 (argBytes ai) = v := by
      rw [beNat_beBytes get 1 (argBytes ai) v, Nat.mod_eq_of_lt hv]
      intro i hi
      have := hg (1 + i) (by rw [hlen]; rw [beBytes_length] at hi; omega)
      rw [this]
      simp [headBytes, ha, Nat.add_comm 1 i]
    rw [hb]

end Spec

namespace Spec

/-- single-byte heads whose meaning does not depend on anything else -/
theorem decodeHead_single_byte (get : Nat → UInt8) (len : Nat) (hl : 1 ≤ len) :
    (get 0 = 0xF4 → decodeHead get len = .ok (.bool false) 1) ∧
    (get 0 = 0xF5 → decodeHead get len = .ok (.bool true) 1) ∧
    (get 0 = 0xF6 → decodeHead get len = .ok .null 1) ∧
    (get 0 = 0xF7 → decodeHead get len = .ok .undefined 1) ∧
    (get 0 = 0xFF → decodeHead get len = .ok .brk 1) ∧
    (get 0 = 0x5F → decodeHead get len = .ok .bytesStart 1) ∧
    (get 0 = 0x7F → decodeHead get len = .ok .textStart 1) ∧
    (get 0 = 0x9F → decodeHead get len = .ok .arrayStart 1) ∧
    (get 0 = 0xBF → decodeHead get len = .ok .mapStart 1) := by
  have hn : ¬ len = 0 := by omega
  refine ⟨?_, ?_, ?_, ?_, ?_, ?_, ?_, ?_, ?_⟩ <;> intro h <;>
    simp [decodeHead, decodeMt7, decodeMtArg, decodeIndef, hn, h]

/-- floats: `headBytes 7 ai bits` decodes to the float token of that width with the same bits -/
theorem decodeHead_float (get : Nat → UInt8) (len ai v : Nat) (hai : ai = 25 ∨ ai = 26 ∨ ai = 27)
    (hv : v < 256 ^ argBytes ai)
    (hg : ∀ i (h : i < (headBytes 7 ai v).length), get i = (headBytes 7 ai v)[i])
    (hl : (headBytes 7 ai v).length ≤ len) :
    decodeHead get len =
      .ok (if ai = 25 then .half v else if ai = 26 then .single v else .double v) (1 + argBytes ai) := by
  have hlen := headBytes_length 7 ai v
  have ha : ¬ ai < 24 := by omega
  simp only [ha, if_false] at hlen
  have h0 : get 0 = UInt8.ofNat (7 * 32 + ai) := by
    have := hg 0 (by omega)
    rw [this]; simp [headBytes, ha]
  have h0n : (get 0).toNat = 7 * 32 + ai := by rw [h0]; simp [UInt8.toNat_ofNat'] <;> omega
  have hmtv : (get 0).toNat / 32 = 7 := by rw [h0n]; omega
  have haiv : (get 0).toNat % 32 = ai := by rw [h0n]; omega
  have hb : beNat get 1 (argBytes ai) = v := by
    rw [beNat_beBytes get 1 (argBytes ai) v, Nat.mod_eq_of_lt hv]
    intro i hi
    have := hg (1 + i) (by rw [hlen]; rw [beBytes_length] at hi; omega)
    rw [this]
    simp [headBytes, ha, Nat.add_comm 1 i]
  unfold decodeHead
  rw [if_neg (by omega), hmtv, haiv, if_pos rfl]
  unfold decodeMt7
  rcases hai with rfl | rfl | rfl
  all_goals (simp [argBytes] at hb hl hlen ⊢; rw [hb]; simp; omega)

end Spec

/-!
# RFC 8949 §3 — the head of a data item (libcbor's supported profile)

Written from the RFC (§3, §3.1, §3.2, §3.3, Appendix B), independent of the C source.
A buffer is a length `len` and an indexing function `get` (bytes beyond `len` are never inspected).

A head is an initial byte `ib` (major type `ib / 32`, additional information `ib % 32`) followed by
0/1/2/4/8 argument bytes (big-endian).  For definite-length byte/text strings the payload that
follows is reported together with the head (libcbor's streaming decoder delivers it in one event).
-/
namespace Spec

/-- storage width of integers / floats, as libcbor records it -/
inductive Width | w8 | w16 | w32 | w64
deriving DecidableEq, Repr, Inhabited

def Width.bytes : Width → Nat
  | .w8 => 1 | .w16 => 2 | .w32 => 4 | .w64 => 8

/-- What one head denotes (the streaming decoder's event vocabulary, arguments decoded).
String payloads are given by offset and length into the buffer. -/
inductive Tok
  | uint (w : Width) (v : Nat)
  | negint (w : Width) (v : Nat)
  | bytes (off len : Nat)
  | bytesStart
  | text (off len : Nat)
  | textStart
  | array (n : Nat)
  | arrayStart
  | map (n : Nat)
  | mapStart
  | tag (n : Nat)
  | half (bits : Nat)        -- the 16-bit pattern
  | single (bits : Nat)      -- the 32-bit pattern
  | double (bits : Nat)      -- the 64-bit pattern
  | bool (b : Bool)
  | null
  | undefined
  | brk
deriving DecidableEq, Repr, Inhabited

/-- Outcome of reading one head at the start of a buffer. -/
inductive HeadRes
  /-- complete: token and number of bytes it occupies (head, plus payload for definite strings) -/
  | ok (t : Tok) (len : Nat)
  /-- the buffer ends inside the head or its string payload; `need` = total bytes the pending
      head (and, once its length is known, its payload) occupies -/
  | nedata (need : Nat)
  /-- reserved or unsupported initial byte -/
  | error
deriving DecidableEq, Repr, Inhabited

/-- big-endian value of `k` bytes starting at `off` -/
def beNat (get : Nat → UInt8) (off : Nat) : Nat → Nat
  | 0 => 0
  | k+1 => (get off).toNat * 256 ^ k + beNat get (off + 1) k

/-- number of argument bytes announced by additional information `ai` (24..27) -/
def argBytes (ai : Nat) : Nat :=
  if ai = 24 then 1 else if ai = 25 then 2 else if ai = 26 then 4 else if ai = 27 then 8 else 0

def widthOf (ai : Nat) : Width :=
  if ai = 25 then .w16 else if ai = 26 then .w32 else if ai = 27 then .w64 else .w8

/-- Token for major type `mt` (0..6) with argument value `v`, read with additional information `ai`
(`ai ≤ 27`); `hl` = head length.  For strings the payload must be inside the buffer. -/
def tokOfArg (mt ai v hl len : Nat) : HeadRes :=
  match mt with
  | 0 => .ok (.uint (widthOf ai) v) hl
  | 1 => .ok (.negint (widthOf ai) v) hl
  | 2 => if hl + v ≤ len then .ok (.bytes hl v) (hl + v) else .nedata (hl + v)
  | 3 => if hl + v ≤ len then .ok (.text hl v) (hl + v) else .nedata (hl + v)
  | 4 => .ok (.array v) hl
  | 5 => .ok (.map v) hl
  | _ => .ok (.tag v) hl

/-- major type 7: simple values and floats (RFC 8949 §3.3); libcbor supports false/true/null/undefined,
the three float widths and break -/
def decodeMt7 (get : Nat → UInt8) (len ai : Nat) : HeadRes :=
  if ai = 20 then .ok (.bool false) 1
  else if ai = 21 then .ok (.bool true) 1
  else if ai = 22 then .ok .null 1
  else if ai = 23 then .ok .undefined 1
  else if ai = 25 then (if 3 ≤ len then .ok (.half (beNat get 1 2)) 3 else .nedata 3)
  else if ai = 26 then (if 5 ≤ len then .ok (.single (beNat get 1 4)) 5 else .nedata 5)
  else if ai = 27 then (if 9 ≤ len then .ok (.double (beNat get 1 8)) 9 else .nedata 9)
  else if ai = 31 then .ok .brk 1
  else .error            -- unassigned simple values 0..19, the one-byte-extension form 24, reserved 28..30

/-- additional information 31 on major types 0..6: indefinite length, only for strings, arrays, maps -/
def decodeIndef (mt : Nat) : HeadRes :=
  if mt = 2 then .ok .bytesStart 1
  else if mt = 3 then .ok .textStart 1
  else if mt = 4 then .ok .arrayStart 1
  else if mt = 5 then .ok .mapStart 1
  else .error

/-- major types 0..6 -/
def decodeMtArg (get : Nat → UInt8) (len mt ai : Nat) : HeadRes :=
  if ai < 24 then tokOfArg mt ai ai 1 len
  else if ai ≤ 27 then
    if 1 + argBytes ai ≤ len then tokOfArg mt ai (beNat get 1 (argBytes ai)) (1 + argBytes ai) len
    else .nedata (1 + argBytes ai)
  else if ai = 31 then decodeIndef mt
  else .error              -- additional information 28..30 is reserved

/-- One head at the start of the buffer `(get, len)`. -/
def decodeHead (get : Nat → UInt8) (len : Nat) : HeadRes :=
  if len = 0 then .nedata 1
  else if (get 0).toNat / 32 = 7 then decodeMt7 get len ((get 0).toNat % 32)
  else decodeMtArg get len ((get 0).toNat / 32) ((get 0).toNat % 32)

/-- the buffer view of an array -/
def getA (a : Array UInt8) (off : Nat) : Nat → UInt8 := fun i => a.getD (off + i) 0

end Spec

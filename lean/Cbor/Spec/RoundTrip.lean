import Cbor.Spec.Decode
import Cbor.Spec.EncodeLemmas
/-!
# Round trip at the specification level: decoding the RFC 8949 encoding of a tree gives the tree back

`Spec.decode (Spec.encode t) = ok (renorm t) (length)`, for every tree whose scalars fit their widths, whose
simple values are the assigned ones, and whose nesting is within the limit.  `renorm` replaces NaN payloads by
the canonical quiet NaN (what `encode` writes).
-/
namespace Spec.RT
open Spec

/-- the bytes `bs` sit at offset `p` -/
def At (get : Nat → UInt8) (p : Nat) (bs : List UInt8) : Prop := ∀ i (h : i < bs.length), get (p + i) = bs[i]

theorem At.left {get p a b} (h : At get p (a ++ b)) : At get p a := by
  intro i hi
  have := h i (by simp; omega)
  rw [this, List.getElem_append_left hi]

theorem At.right {get p a b} (h : At get p (a ++ b)) : At get (p + a.length) b := by
  intro i hi
  have := h (a.length + i) (by simp; omega)
  rw [Nat.add_assoc, this, List.getElem_append_right (by omega)]
  simp

theorem at_slice {get p} {bs : List UInt8} (h : At get p bs) : slice get p bs.length = bs := by
  apply List.ext_getElem
  · simp [slice]
  · intro i h1 h2
    simp only [slice, List.getElem_map, List.getElem_range]
    exact h i (by simpa [slice] using h1)

theorem shortestAi_le (v : Nat) : shortestAi v ≤ 27 := by
  unfold shortestAi
  repeat' split
  all_goals omega

theorem shortest_hv (v : Nat) (hv : v < 2 ^ 64) :
    if shortestAi v < 24 then v = shortestAi v else v < 256 ^ argBytes (shortestAi v) := by
  unfold shortestAi argBytes
  by_cases h1 : v < 24
  · simp [h1]
  · by_cases h2 : v < 256
    · simp [h1, h2]
    · by_cases h3 : v < 65536
      · simp [h1, h2, h3]
      · by_cases h4 : v < 4294967296
        · simp [h1, h2, h3, h4]
        · simp [h1, h2, h3, h4]; omega

/-- the head of a length / count / tag number reads back as that number -/
theorem headAt_head (get : Nat → UInt8) (len p mt v : Nat) (hmt : mt < 7) (hv : v < 2 ^ 64)
    (hat : At get p (head mt v)) (hl : p + (head mt v).length ≤ len) :
    headAt get len p = tokOfArg mt (shortestAi v) v (head mt v).length (len - p) := by
  unfold headAt head at *
  exact decodeHead_headBytes (fun i => get (p + i)) (len - p) mt (shortestAi v) v hmt (shortestAi_le v) (shortest_hv v hv)
    (fun i h => hat i h) (by omega)

theorem headAt_headBytes (get : Nat → UInt8) (len p mt ai v : Nat) (hmt : mt < 7) (hai : ai ≤ 27)
    (hv : if ai < 24 then v = ai else v < 256 ^ argBytes ai)
    (hat : At get p (headBytes mt ai v)) (hl : p + (headBytes mt ai v).length ≤ len) :
    headAt get len p = tokOfArg mt ai v (headBytes mt ai v).length (len - p) := by
  unfold headAt
  exact decodeHead_headBytes (fun i => get (p + i)) (len - p) mt ai v hmt hai hv (fun i h => hat i h) (by omega)

theorem headAt_byte (get : Nat → UInt8) (len p : Nat) (b : UInt8) (hat : At get p [b]) (hl : p + 1 ≤ len) :
    (fun i => get (p + i)) 0 = b ∧ 1 ≤ len - p := by
  refine ⟨?_, by omega⟩
  have := hat 0 (by simp)
  simpa using this


mutual
/-- trees the decoder can return / the construction API can build, in the property's sense: scalars fit their
width, lengths fit `size_t`, simple values are the assigned ones, half floats hold a half-representable value -/
def Canon : Item → Prop
  | .uint w v => v < 2 ^ (8 * w.bytes)
  | .negint w v => v < 2 ^ (8 * w.bytes)
  | .bytes b => b.length < 2 ^ 64
  | .text b => b.length < 2 ^ 64
  | .bytesI cs => ∀ c ∈ cs, c.length < 2 ^ 64
  | .textI cs => ∀ c ∈ cs, c.length < 2 ^ 64
  | .array xs => xs.length < 2 ^ 56 ∧ CanonL xs
  | .arrayI xs => CanonL xs
  | .map kvs => kvs.length < 2 ^ 56 ∧ CanonP kvs
  | .mapI kvs => CanonP kvs
  | .tag n x => n < 2 ^ 64 ∧ Canon x
  | .simple v => 20 ≤ v ∧ v ≤ 23
  | .half f => Float.singleToHalf f < 65536
  | .single b => b < 2 ^ 32
  | .double b => b < 2 ^ 64
def CanonL : List Item → Prop
  | [] => True
  | x :: xs => Canon x ∧ CanonL xs
def CanonP : List (Item × Item) → Prop
  | [] => True
  | (k, v) :: r => Canon k ∧ Canon v ∧ CanonP r
end

mutual
/-- what decoding the encoding yields: the same tree with every NaN replaced by the canonical quiet NaN of its width -/
def renorm : Item → Item
  | .array xs => .array (renormL xs)
  | .arrayI xs => .arrayI (renormL xs)
  | .map kvs => .map (renormP kvs)
  | .mapI kvs => .mapI (renormP kvs)
  | .tag n x => .tag n (renorm x)
  | .half f => .half (halfToSingle (Float.singleToHalf f))
  | .single b => .single (Float.canonSingle b)
  | .double b => .double (Float.canonDouble b)
  | x => x
def renormL : List Item → List Item
  | [] => []
  | x :: xs => renorm x :: renormL xs
def renormP : List (Item × Item) → List (Item × Item)
  | [] => []
  | (k, v) :: r => (renorm k, renorm v) :: renormP r
end

mutual
/-- fuel the recursive-descent reference decoder needs for the encoding of `t` -/
def need : Item → Nat
  | .bytesI cs => 2 + cs.length
  | .textI cs => 2 + cs.length
  | .array xs => 1 + needL xs
  | .arrayI xs => 1 + needL xs
  | .map kvs => 1 + needP kvs
  | .mapI kvs => 1 + needP kvs
  | .tag _ x => 1 + need x
  | _ => 1
def needL : List Item → Nat
  | [] => 1
  | x :: xs => 1 + max (need x) (needL xs)
def needP : List (Item × Item) → Nat
  | [] => 1
  | (k, v) :: r => 1 + max (max (need k) (need v)) (needP r)
end

/-- tokens whose storage request is small: everything except definite arrays / maps of 2^56 or more members -/
def Small : Tok → Bool
  | .array n => decide (n < 2 ^ 56)
  | .map n => decide (n < 2 ^ 56)
  | _ => true

/-- the allocation predicate grants everything the encoding of a canonical tree can ask for (libcbor's own guard
`okGuard` is such a predicate, and so is "memory permitting") -/
def OkAll (okA : AllocOk) : Prop := ∀ tok, Small tok = true → okA tok = true

theorem okAll_true : OkAll (fun _ => true) := fun _ _ => rfl

theorem widthOf_intAi (w : Width) (v : Nat) : widthOf (intAi w v) = w := by
  cases w
  · simp only [intAi, widthOf]
    by_cases h : v < 24
    · simp only [h, if_true]
      have h1 : ¬ v = 25 := by omega
      have h2 : ¬ v = 26 := by omega
      have h3 : ¬ v = 27 := by omega
      simp [h1, h2, h3]
    · simp [h]
  all_goals simp [intAi, widthOf]

theorem intAi_le (w : Width) (v : Nat) : intAi w v ≤ 27 := by
  cases w <;> simp [intAi]; split <;> omega

theorem intAi_hv (w : Width) (v : Nat) (h : v < 2 ^ (8 * w.bytes)) :
    if intAi w v < 24 then v = intAi w v else v < 256 ^ argBytes (intAi w v) := by
  cases w
  · simp only [intAi, argBytes, Width.bytes] at h ⊢
    by_cases c : v < 24
    · simp [c]
    · simp [c]; omega
  all_goals (simp [intAi, argBytes, Width.bytes] at h ⊢; omega)

section
variable (lz : Bool) (L : Nat) (get : Nat → UInt8) (len : Nat) (okA : AllocOk) (hok : OkAll okA)
include hok

/-- an item cannot start with a break -/
theorem item_ok_not_brk {f p d : Nat} {x : Item} {q : Nat} (h : item lz L okA get len f p d = .ok x q) :
    ∀ l, headAt get len p ≠ .ok .brk l := by
  intro l hb
  cases f with
  | zero => simp [item] at h
  | succ f => simp [item, hb, hok .brk rfl] at h

theorem leaf_int (neg : Bool) (w : Width) (v : Nat) (hc : v < 2 ^ (8 * w.bytes)) (f p d : Nat) (hf : 1 ≤ f)
    (hat : At get p (headBytes (if neg then 1 else 0) (intAi w v) v)) (hl : p + (headBytes (if neg then 1 else 0) (intAi w v) v).length ≤ len) :
    item lz L okA get len f p d =
      .ok (if neg then .negint w v else .uint w v) (p + (headBytes (if neg then 1 else 0) (intAi w v) v).length) := by
  cases f with
  | zero => omega
  | succ f =>
    have hh := headAt_headBytes get len p (if neg then 1 else 0) (intAi w v) v (by split <;> omega) (intAi_le w v) (intAi_hv w v hc) hat hl
    unfold item
    rw [hh]
    cases neg <;> simp [tokOfArg, widthOf_intAi, hok (.uint _ _) rfl, hok (.negint _ _) rfl]


theorem leaf_str (mt : Nat) (hmt : mt = 2 ∨ mt = 3) (b : List UInt8) (hc : b.length < 2 ^ 64) (f p d : Nat) (hf : 1 ≤ f)
    (hat : At get p (head mt b.length ++ b)) (hl : p + (head mt b.length ++ b).length ≤ len) :
    item lz L okA get len f p d = .ok (if mt = 3 then .text b else .bytes b) (p + (head mt b.length ++ b).length) := by
  cases f with
  | zero => omega
  | succ f =>
    simp only [List.length_append] at hl ⊢
    have hh := headAt_head get len p mt b.length (by omega) hc hat.left (by omega)
    have hs := at_slice hat.right
    unfold item
    rw [hh]
    rcases hmt with rfl | rfl
    · simp only [tokOfArg]
      rw [if_pos (by omega)]
      simp [hs, Nat.add_assoc, hok (.bytes _ _) rfl, hok (.text _ _) rfl]
    · simp only [tokOfArg]
      rw [if_pos (by omega)]
      simp [hs, Nat.add_assoc, hok (.bytes _ _) rfl, hok (.text _ _) rfl]

omit hok in
theorem headAt_simple (p v : Nat) (hv : 20 ≤ v ∧ v ≤ 23) (hat : At get p (headBytes 7 v v)) (hl : p + 1 ≤ len) :
    headAt get len p = .ok (if v = 20 then .bool false else if v = 21 then .bool true else if v = 22 then .null else .undefined) 1 := by
  have h24 : v < 24 := by omega
  have hb : get (p + 0) = UInt8.ofNat (7 * 32 + v) := by
    have := hat 0 (by simp [headBytes, h24])
    simpa [headBytes, h24] using this
  have hs := decodeHead_single_byte (fun i => get (p + i)) (len - p) (by omega)
  unfold headAt
  have : v = 20 ∨ v = 21 ∨ v = 22 ∨ v = 23 := by omega
  rcases this with rfl | rfl | rfl | rfl
  · exact hs.1 (by rw [hb]; decide)
  · exact hs.2.1 (by rw [hb]; decide)
  · exact hs.2.2.1 (by rw [hb]; decide)
  · exact hs.2.2.2.1 (by rw [hb]; decide)

omit hok in
theorem headAt_float (p ai v : Nat) (hai : ai = 25 ∨ ai = 26 ∨ ai = 27) (hv : v < 256 ^ argBytes ai)
    (hat : At get p (headBytes 7 ai v)) (hl : p + (headBytes 7 ai v).length ≤ len) :
    headAt get len p = .ok (if ai = 25 then .half v else if ai = 26 then .single v else .double v) (1 + argBytes ai) := by
  unfold headAt
  exact decodeHead_float (fun i => get (p + i)) (len - p) ai v hai hv (fun i h => hat i h) (by omega)

omit hok in
theorem headAt_one (p : Nat) (b : UInt8) (hat : At get p [b]) (hl : p + 1 ≤ len) :
    (b = 0xFF → headAt get len p = .ok .brk 1) ∧ (b = 0x5F → headAt get len p = .ok .bytesStart 1) ∧
    (b = 0x7F → headAt get len p = .ok .textStart 1) ∧ (b = 0x9F → headAt get len p = .ok .arrayStart 1) ∧
    (b = 0xBF → headAt get len p = .ok .mapStart 1) := by
  have h0 : get (p + 0) = b := by have := hat 0 (by simp); simpa using this
  have hs := decodeHead_single_byte (fun i => get (p + i)) (len - p) (by omega)
  unfold headAt
  exact ⟨fun e => hs.2.2.2.2.1 (by rw [h0, e]), fun e => hs.2.2.2.2.2.1 (by rw [h0, e]), fun e => hs.2.2.2.2.2.2.1 (by rw [h0, e]),
    fun e => hs.2.2.2.2.2.2.2.1 (by rw [h0, e]), fun e => hs.2.2.2.2.2.2.2.2 (by rw [h0, e])⟩

/-- chunks of a chunked string, then the break -/
theorem chunks_rt (mt : Nat) (hmt : mt = 2 ∨ mt = 3) : ∀ (cs : List (List UInt8)), (∀ c ∈ cs, c.length < 2 ^ 64) →
    ∀ (f p d : Nat) (acc : List (List UInt8)), 1 + cs.length ≤ f → At get p (encodeChunks mt cs ++ [0xFF]) →
      p + (encodeChunks mt cs).length + 1 ≤ len →
      chunks lz L okA get len f mt p d acc = .ok (acc.reverse ++ cs) (p + (encodeChunks mt cs).length + 1)
  | [], _, f, p, d, acc, hf, hat, hl => by
    cases f with
    | zero => omega
    | succ f =>
      simp only [encodeChunks, List.nil_append, List.length_nil, Nat.add_zero] at hat hl ⊢
      have := (headAt_one get len p 0xFF hat hl).1 rfl
      unfold chunks
      rw [this]
      simp [hok .brk rfl]
  | c :: cs, hc, f, p, d, acc, hf, hat, hl => by
    cases f with
    | zero => simp at hf
    | succ f =>
      simp only [encodeChunks, List.length_append, List.append_assoc] at hat hl ⊢
      have hcl := hc c (by simp)
      have hh := headAt_head get len p mt c.length (by omega) hcl hat.left (by omega)
      have hs := at_slice hat.right.left
      have ih := chunks_rt mt hmt cs (fun x hx => hc x (by simp [hx])) f (p + ((head mt c.length).length + c.length)) d (c :: acc)
        (by simp at hf; omega)
        (by have := hat.right.right; simpa [Nat.add_assoc] using this) (by omega)
      unfold chunks
      rw [hh]
      rcases hmt with rfl | rfl
      · simp only [tokOfArg]
        rw [if_pos (by omega)]
        simp only [hok _ (show Small (.bytes _ _) = true from rfl), hok _ (show Small (.text _ _) = true from rfl), Bool.not_true, Bool.false_eq_true, if_false, if_true, hs]
        rw [ih]; simp [Nat.add_assoc]
      · simp only [tokOfArg]
        rw [if_pos (by omega)]
        simp only [hok _ (show Small (.bytes _ _) = true from rfl), hok _ (show Small (.text _ _) = true from rfl), Bool.not_true, Bool.false_eq_true, if_false, if_true, hs]
        rw [ih]; simp [Nat.add_assoc]


omit hok in
theorem elemsI_step {f p d : Nat} {acc : List Item} (h : ∀ l, headAt get len p ≠ .ok .brk l) :
    elemsI lz L okA get len (f + 1) p d acc =
      match item lz L okA get len f p d with
      | .ok x q => elemsI lz L okA get len f q d (x :: acc)
      | .err e q => .err e q := by
  conv => lhs; unfold elemsI
  split
  · rename_i l hb; exact absurd hb (h l)
  · rfl

omit hok in
theorem pairsI_step {f p d : Nat} {acc : List (Item × Item)} (h : ∀ l, headAt get len p ≠ .ok .brk l) :
    pairsI lz L okA get len (f + 1) p d acc =
      match item lz L okA get len f p d with
      | .err e q => .err e q
      | .ok k q =>
        match item lz L okA get len f q d with
        | .err e r => .err e r
        | .ok v r => pairsI lz L okA get len f r d ((k, v) :: acc) := by
  conv => lhs; unfold pairsI
  split
  · rename_i l hb; exact absurd hb (h l)
  · rfl

omit hok in
theorem canonSingle_lt (b : Nat) (h : b < 2 ^ 32) : Float.canonSingle b < 2 ^ 32 := by
  unfold Float.canonSingle; split <;> omega
omit hok in
theorem canonDouble_lt (b : Nat) (h : b < 2 ^ 64) : Float.canonDouble b < 2 ^ 64 := by
  unfold Float.canonDouble; split <;> omega

mutual
theorem item_rt : ∀ (t : Item), Canon t → ∀ (f p d : Nat), need t ≤ f → At get p (encode t) → p + (encode t).length ≤ len →
    d + openDepth t ≤ L → item lz L okA get len f p d = .ok (renorm t) (p + (encode t).length)
  | .uint w v, hc, f, p, d, hf, hat, hl, _ => by
    simp only [Canon] at hc; simp only [need] at hf; simp only [encode] at hat hl ⊢
    have := leaf_int lz L get len okA hok false w v hc f p d hf (by simpa using hat) (by simpa using hl)
    simpa [renorm] using this
  | .negint w v, hc, f, p, d, hf, hat, hl, _ => by
    simp only [Canon] at hc; simp only [need] at hf; simp only [encode] at hat hl ⊢
    have := leaf_int lz L get len okA hok true w v hc f p d hf (by simpa using hat) (by simpa using hl)
    simpa [renorm] using this
  | .bytes b, hc, f, p, d, hf, hat, hl, _ => by
    simp only [Canon] at hc; simp only [need] at hf; simp only [encode] at hat hl ⊢
    have := leaf_str lz L get len okA hok 2 (Or.inl rfl) b hc f p d hf hat hl
    simpa [renorm] using this
  | .text b, hc, f, p, d, hf, hat, hl, _ => by
    simp only [Canon] at hc; simp only [need] at hf; simp only [encode] at hat hl ⊢
    have := leaf_str lz L get len okA hok 3 (Or.inr rfl) b hc f p d hf hat hl
    simpa [renorm] using this
  | .bytesI cs, hc, f, p, d, hf, hat, hl, hd => by
    simp only [Canon] at hc; simp only [need] at hf; simp only [encode, List.length_append] at hat hl ⊢
    simp only [openDepth] at hd
    cases f with
    | zero => omega
    | succ f =>
      have hat' : At get p ([0x5F] ++ (encodeChunks 2 cs ++ [0xFF])) := by simpa [List.append_assoc] using hat
      have h0 := (headAt_one get len p 0x5F hat'.left (by simp at hl; omega)).2.1 rfl
      have hch := chunks_rt lz L get len okA hok 2 (Or.inl rfl) cs hc f (p + 1) (d + 1) [] (by omega)
        (by simpa using hat'.right) (by simp at hl ⊢; omega)
      unfold item
      rw [h0]
      simp only [hok .arrayStart rfl, hok .mapStart rfl, hok .bytesStart rfl, hok .textStart rfl, Bool.not_true, Bool.false_eq_true, if_false]
      rw [if_neg (by omega), hch]
      simp [renorm]; omega
  | .textI cs, hc, f, p, d, hf, hat, hl, hd => by
    simp only [Canon] at hc; simp only [need] at hf; simp only [encode, List.length_append] at hat hl ⊢
    simp only [openDepth] at hd
    cases f with
    | zero => omega
    | succ f =>
      have hat' : At get p ([0x7F] ++ (encodeChunks 3 cs ++ [0xFF])) := by simpa [List.append_assoc] using hat
      have h0 := (headAt_one get len p 0x7F hat'.left (by simp at hl; omega)).2.2.1 rfl
      have hch := chunks_rt lz L get len okA hok 3 (Or.inr rfl) cs hc f (p + 1) (d + 1) [] (by omega)
        (by simpa using hat'.right) (by simp at hl ⊢; omega)
      unfold item
      rw [h0]
      simp only [hok .arrayStart rfl, hok .mapStart rfl, hok .bytesStart rfl, hok .textStart rfl, Bool.not_true, Bool.false_eq_true, if_false]
      rw [if_neg (by omega), hch]
      simp [renorm]; omega
  | .array xs, hc, f, p, d, hf, hat, hl, hd => by
    simp only [Canon] at hc; simp only [need] at hf; simp only [encode, List.length_append] at hat hl ⊢
    cases f with
    | zero => omega
    | succ f =>
      have hh := headAt_head get len p 4 xs.length (by omega) (by omega) hat.left (by omega)
      have hA4 : okA (.array xs.length) = true := hok _ (by simp [Small, hc.1])
      unfold item
      rw [hh]
      simp only [tokOfArg, hok (.tag _) rfl, hA4, Bool.not_true, Bool.false_eq_true, if_false]
      cases xs with
      | nil => simp [renorm, renormL, encodeList]
      | cons x xs' =>
        simp only [openDepth] at hd
        rw [if_neg (by simp), if_neg (by omega)]
        have he := elems_rt (x :: xs') hc.2 f (p + (head 4 (x :: xs').length).length) (d + 1) [] (by omega) hat.right (by omega) (by omega)
        rw [he]
        simp [renorm, Nat.add_assoc]
  | .arrayI xs, hc, f, p, d, hf, hat, hl, hd => by
    simp only [Canon] at hc; simp only [need] at hf; simp only [encode, List.length_append] at hat hl ⊢
    simp only [openDepth] at hd
    cases f with
    | zero => omega
    | succ f =>
      have hat' : At get p ([0x9F] ++ (encodeList xs ++ [0xFF])) := by simpa [List.append_assoc] using hat
      have h0 := (headAt_one get len p 0x9F hat'.left (by simp at hl; omega)).2.2.2.1 rfl
      have he := elemsI_rt xs hc f (p + 1) (d + 1) [] (by omega) (by simpa using hat'.right) (by simp at hl ⊢; omega) (by omega)
      unfold item
      rw [h0]
      simp only [hok .arrayStart rfl, hok .mapStart rfl, hok .bytesStart rfl, hok .textStart rfl, Bool.not_true, Bool.false_eq_true, if_false]
      rw [if_neg (by omega), he]
      simp [renorm]; omega
  | .map kvs, hc, f, p, d, hf, hat, hl, hd => by
    simp only [Canon] at hc; simp only [need] at hf; simp only [encode, List.length_append] at hat hl ⊢
    cases f with
    | zero => omega
    | succ f =>
      have hh := headAt_head get len p 5 kvs.length (by omega) (by omega) hat.left (by omega)
      have hA4 : okA (.map kvs.length) = true := hok _ (by simp [Small, hc.1])
      unfold item
      rw [hh]
      simp only [tokOfArg, hok (.tag _) rfl, hA4, Bool.not_true, Bool.false_eq_true, if_false]
      cases kvs with
      | nil => simp [renorm, renormP, encodePairs]
      | cons kv kvs' =>
        simp only [openDepth] at hd
        rw [if_neg (by simp), if_neg (by omega)]
        have he := pairs_rt (kv :: kvs') hc.2 f (p + (head 5 (kv :: kvs').length).length) (d + 1) [] (by omega) hat.right (by omega) (by omega)
        rw [he]
        simp [renorm, Nat.add_assoc]
  | .mapI kvs, hc, f, p, d, hf, hat, hl, hd => by
    simp only [Canon] at hc; simp only [need] at hf; simp only [encode, List.length_append] at hat hl ⊢
    simp only [openDepth] at hd
    cases f with
    | zero => omega
    | succ f =>
      have hat' : At get p ([0xBF] ++ (encodePairs kvs ++ [0xFF])) := by simpa [List.append_assoc] using hat
      have h0 := (headAt_one get len p 0xBF hat'.left (by simp at hl; omega)).2.2.2.2 rfl
      have he := pairsI_rt kvs hc f (p + 1) (d + 1) [] (by omega) (by simpa using hat'.right) (by simp at hl ⊢; omega) (by omega)
      unfold item
      rw [h0]
      simp only [hok .arrayStart rfl, hok .mapStart rfl, hok .bytesStart rfl, hok .textStart rfl, Bool.not_true, Bool.false_eq_true, if_false]
      rw [if_neg (by omega), he]
      simp [renorm]; omega
  | .tag n x, hc, f, p, d, hf, hat, hl, hd => by
    simp only [Canon] at hc; simp only [need] at hf; simp only [encode, List.length_append] at hat hl ⊢
    simp only [openDepth] at hd
    cases f with
    | zero => omega
    | succ f =>
      have hh := headAt_head get len p 6 n (by omega) hc.1 hat.left (by omega)
      have hA4 : True := trivial
      have hx := item_rt x hc.2 f (p + (head 6 n).length) (d + 1) (by omega) hat.right (by omega) (by omega)
      unfold item
      rw [hh]
      simp only [tokOfArg, hok (.tag _) rfl, hA4, Bool.not_true, Bool.false_eq_true, if_false]
      rw [if_neg (by omega), hx]
      simp [renorm, Nat.add_assoc]
  | .simple v, hc, f, p, d, hf, hat, hl, _ => by
    simp only [Canon] at hc; simp only [need] at hf; simp only [encode] at hat hl ⊢
    have h24 : v < 24 := by omega
    simp only [h24, if_true] at hat hl ⊢
    have hlen : (headBytes 7 v v).length = 1 := by simp [headBytes, h24]
    cases f with
    | zero => omega
    | succ f =>
      have hh := headAt_simple get len p v hc hat (by omega)
      unfold item
      rw [hh, hlen]
      have : v = 20 ∨ v = 21 ∨ v = 22 ∨ v = 23 := by omega
      rcases this with rfl | rfl | rfl | rfl <;> simp [renorm, hok (.bool _) rfl, hok .null rfl, hok .undefined rfl]
  | .half x, hc, f, p, d, hf, hat, hl, _ => by
    simp only [Canon] at hc; simp only [need] at hf; simp only [encode] at hat hl ⊢
    cases f with
    | zero => omega
    | succ f =>
      have hh := headAt_float get len p 25 (Float.singleToHalf x) (Or.inl rfl) (by simp [argBytes]; omega) hat hl
      have hlen : (headBytes 7 25 (Float.singleToHalf x)).length = 3 := by simp [headBytes_length, argBytes]
      unfold item
      rw [hh, hlen]
      simp [renorm, argBytes, hok (.half _) rfl, hok (.single _) rfl, hok (.double _) rfl]
  | .single b, hc, f, p, d, hf, hat, hl, _ => by
    simp only [Canon] at hc; simp only [need] at hf; simp only [encode] at hat hl ⊢
    cases f with
    | zero => omega
    | succ f =>
      have hh := headAt_float get len p 26 (Float.canonSingle b) (Or.inr (Or.inl rfl)) (by have := canonSingle_lt b hc; simp [argBytes]; omega) hat hl
      have hlen : (headBytes 7 26 (Float.canonSingle b)).length = 5 := by simp [headBytes_length, argBytes]
      unfold item
      rw [hh, hlen]
      simp [renorm, argBytes, hok (.half _) rfl, hok (.single _) rfl, hok (.double _) rfl]
  | .double b, hc, f, p, d, hf, hat, hl, _ => by
    simp only [Canon] at hc; simp only [need] at hf; simp only [encode] at hat hl ⊢
    cases f with
    | zero => omega
    | succ f =>
      have hh := headAt_float get len p 27 (Float.canonDouble b) (Or.inr (Or.inr rfl)) (by have := canonDouble_lt b hc; simp [argBytes]; omega) hat hl
      have hlen : (headBytes 7 27 (Float.canonDouble b)).length = 9 := by simp [headBytes_length, argBytes]
      unfold item
      rw [hh, hlen]
      simp [renorm, argBytes, hok (.half _) rfl, hok (.single _) rfl, hok (.double _) rfl]

theorem elems_rt : ∀ (xs : List Item), CanonL xs → ∀ (f p d : Nat) (acc : List Item), needL xs ≤ f → At get p (encodeList xs) →
    p + (encodeList xs).length ≤ len → d + depthList xs ≤ L →
    elems lz L okA get len f xs.length p d acc = .ok (acc.reverse ++ renormL xs) (p + (encodeList xs).length)
  | [], _, f, p, d, acc, hf, _, _, _ => by
    simp only [needL] at hf
    cases f with
    | zero => omega
    | succ f => simp [elems, renormL, encodeList]
  | x :: xs, hc, f, p, d, acc, hf, hat, hl, hd => by
    simp only [CanonL] at hc; simp only [needL] at hf
    simp only [encodeList, List.length_append] at hat hl ⊢
    simp only [depthList] at hd
    cases f with
    | zero => omega
    | succ f =>
      have hx := item_rt x hc.1 f p d (by omega) hat.left (by omega) (by omega)
      have hxs := elems_rt xs hc.2 f (p + (encode x).length) d (renorm x :: acc) (by omega) hat.right (by omega) (by omega)
      simp only [List.length_cons, elems, hx, hxs, renormL]
      simp [Nat.add_assoc]

theorem elemsI_rt : ∀ (xs : List Item), CanonL xs → ∀ (f p d : Nat) (acc : List Item), needL xs ≤ f → At get p (encodeList xs ++ [0xFF]) →
    p + (encodeList xs).length + 1 ≤ len → d + depthList xs ≤ L →
    elemsI lz L okA get len f p d acc = .ok (acc.reverse ++ renormL xs) (p + (encodeList xs).length + 1)
  | [], _, f, p, d, acc, hf, hat, hl, _ => by
    simp only [needL] at hf
    simp only [encodeList, List.nil_append, List.length_nil, Nat.add_zero] at hat hl ⊢
    cases f with
    | zero => omega
    | succ f =>
      have h0 := (headAt_one get len p 0xFF hat hl).1 rfl
      unfold elemsI
      rw [h0]
      simp [renormL, hok .brk rfl]
  | x :: xs, hc, f, p, d, acc, hf, hat, hl, hd => by
    simp only [CanonL] at hc; simp only [needL] at hf
    simp only [encodeList, List.length_append, List.append_assoc] at hat hl ⊢
    simp only [depthList] at hd
    cases f with
    | zero => omega
    | succ f =>
      have hx := item_rt x hc.1 f p d (by omega) hat.left (by omega) (by omega)
      have hxs := elemsI_rt xs hc.2 f (p + (encode x).length) d (renorm x :: acc) (by omega) hat.right (by omega) (by omega)
      rw [elemsI_step lz L get len okA (item_ok_not_brk lz L get len okA hok hx), hx]
      simp only [hxs, renormL]
      simp [Nat.add_assoc]

theorem pairs_rt : ∀ (kvs : List (Item × Item)), CanonP kvs → ∀ (f p d : Nat) (acc : List (Item × Item)), needP kvs ≤ f →
    At get p (encodePairs kvs) → p + (encodePairs kvs).length ≤ len → d + depthPairs kvs ≤ L →
    pairs lz L okA get len f kvs.length p d acc = .ok (acc.reverse ++ renormP kvs) (p + (encodePairs kvs).length)
  | [], _, f, p, d, acc, hf, _, _, _ => by
    simp only [needP] at hf
    cases f with
    | zero => omega
    | succ f => simp [pairs, renormP, encodePairs]
  | (k, v) :: r, hc, f, p, d, acc, hf, hat, hl, hd => by
    simp only [CanonP] at hc; simp only [needP] at hf
    simp only [encodePairs, List.length_append, List.append_assoc] at hat hl ⊢
    simp only [depthPairs] at hd
    cases f with
    | zero => omega
    | succ f =>
      have hk := item_rt k hc.1 f p d (by omega) hat.left (by omega) (by omega)
      have hv := item_rt v hc.2.1 f (p + (encode k).length) d (by omega) hat.right.left (by omega) (by omega)
      have hr := pairs_rt r hc.2.2 f (p + (encode k).length + (encode v).length) d ((renorm k, renorm v) :: acc) (by omega)
        (by have := hat.right.right; simpa [Nat.add_assoc] using this) (by omega) (by omega)
      simp only [List.length_cons, pairs, hk, hv, hr, renormP]
      simp [Nat.add_assoc]

theorem pairsI_rt : ∀ (kvs : List (Item × Item)), CanonP kvs → ∀ (f p d : Nat) (acc : List (Item × Item)), needP kvs ≤ f →
    At get p (encodePairs kvs ++ [0xFF]) → p + (encodePairs kvs).length + 1 ≤ len → d + depthPairs kvs ≤ L →
    pairsI lz L okA get len f p d acc = .ok (acc.reverse ++ renormP kvs) (p + (encodePairs kvs).length + 1)
  | [], _, f, p, d, acc, hf, hat, hl, _ => by
    simp only [needP] at hf
    simp only [encodePairs, List.nil_append, List.length_nil, Nat.add_zero] at hat hl ⊢
    cases f with
    | zero => omega
    | succ f =>
      have h0 := (headAt_one get len p 0xFF hat hl).1 rfl
      unfold pairsI
      rw [h0]
      simp [renormP, hok .brk rfl]
  | (k, v) :: r, hc, f, p, d, acc, hf, hat, hl, hd => by
    simp only [CanonP] at hc; simp only [needP] at hf
    simp only [encodePairs, List.length_append, List.append_assoc] at hat hl ⊢
    simp only [depthPairs] at hd
    cases f with
    | zero => omega
    | succ f =>
      have hk := item_rt k hc.1 f p d (by omega) hat.left (by omega) (by omega)
      have hv := item_rt v hc.2.1 f (p + (encode k).length) d (by omega) hat.right.left (by omega) (by omega)
      have hr := pairsI_rt r hc.2.2 f (p + (encode k).length + (encode v).length) d ((renorm k, renorm v) :: acc) (by omega)
        (by have := hat.right.right; simpa [Nat.add_assoc] using this) (by omega) (by omega)
      rw [pairsI_step lz L get len okA (item_ok_not_brk lz L get len okA hok hk), hk]
      simp only [hv, hr, renormP]
      simp [Nat.add_assoc]
end


omit hok in
theorem headBytes_pos (mt ai v : Nat) : 1 ≤ (headBytes mt ai v).length := by
  rw [headBytes_length]; split <;> omega

omit hok in
theorem enc_pos : ∀ t : Item, 1 ≤ (encode t).length
  | .uint _ _ => by simp only [encode]; exact headBytes_pos _ _ _
  | .negint _ _ => by simp only [encode]; exact headBytes_pos _ _ _
  | .bytes b => by simp only [encode, List.length_append]; have := headBytes_pos 2 (shortestAi b.length) b.length; unfold head; omega
  | .text b => by simp only [encode, List.length_append]; have := headBytes_pos 3 (shortestAi b.length) b.length; unfold head; omega
  | .bytesI _ => by simp [encode]
  | .textI _ => by simp [encode]
  | .array xs => by simp only [encode, List.length_append]; have := headBytes_pos 4 (shortestAi xs.length) xs.length; unfold head; omega
  | .arrayI _ => by simp [encode]
  | .map xs => by simp only [encode, List.length_append]; have := headBytes_pos 5 (shortestAi xs.length) xs.length; unfold head; omega
  | .mapI _ => by simp [encode]
  | .tag n _ => by simp only [encode, List.length_append]; have := headBytes_pos 6 (shortestAi n) n; unfold head; omega
  | .simple _ => by simp only [encode]; exact headBytes_pos _ _ _
  | .half _ => by simp only [encode]; exact headBytes_pos _ _ _
  | .single _ => by simp only [encode]; exact headBytes_pos _ _ _
  | .double _ => by simp only [encode]; exact headBytes_pos _ _ _

omit hok in
theorem chunks_count_le (mt : Nat) : ∀ cs : List (List UInt8), cs.length ≤ (encodeChunks mt cs).length
  | [] => by simp [encodeChunks]
  | c :: cs => by
    simp only [encodeChunks, List.length_append, List.length_cons]
    have := chunks_count_le mt cs
    have := headBytes_pos mt (shortestAi c.length) c.length
    unfold head; omega

omit hok in
mutual
theorem need_le : ∀ t : Item, need t ≤ 2 * (encode t).length
  | .uint _ _ => by have := enc_pos (.uint ‹_› ‹_›); simp only [need]; omega
  | .negint _ _ => by have := enc_pos (.negint ‹_› ‹_›); simp only [need]; omega
  | .bytes b => by have := enc_pos (.bytes b); simp only [need]; omega
  | .text b => by have := enc_pos (.text b); simp only [need]; omega
  | .bytesI cs => by
    have := chunks_count_le 2 cs
    simp only [need, encode, List.length_append, List.length_cons, List.length_nil]; omega
  | .textI cs => by
    have := chunks_count_le 3 cs
    simp only [need, encode, List.length_append, List.length_cons, List.length_nil]; omega
  | .array xs => by
    have := needL_le xs
    have := headBytes_pos 4 (shortestAi xs.length) xs.length
    simp only [need, encode, List.length_append]; unfold head; omega
  | .arrayI xs => by
    have := needL_le xs
    simp only [need, encode, List.length_append, List.length_cons, List.length_nil]; omega
  | .map kvs => by
    have := needP_le kvs
    have := headBytes_pos 5 (shortestAi kvs.length) kvs.length
    simp only [need, encode, List.length_append]; unfold head; omega
  | .mapI kvs => by
    have := needP_le kvs
    simp only [need, encode, List.length_append, List.length_cons, List.length_nil]; omega
  | .tag n x => by
    have := need_le x
    have := headBytes_pos 6 (shortestAi n) n
    simp only [need, encode, List.length_append]; unfold head; omega
  | .simple v => by have := enc_pos (.simple v); simp only [need]; omega
  | .half v => by have := enc_pos (.half v); simp only [need]; omega
  | .single v => by have := enc_pos (.single v); simp only [need]; omega
  | .double v => by have := enc_pos (.double v); simp only [need]; omega
theorem needL_le : ∀ xs : List Item, needL xs ≤ 2 * (encodeList xs).length + 1
  | [] => by simp [needL, encodeList]
  | x :: xs => by
    have := need_le x; have := needL_le xs; have := enc_pos x
    simp only [needL, encodeList, List.length_append]; omega
theorem needP_le : ∀ kvs : List (Item × Item), needP kvs ≤ 2 * (encodePairs kvs).length + 1
  | [] => by simp [needP, encodePairs]
  | (k, v) :: r => by
    have := need_le k; have := need_le v; have := needP_le r; have := enc_pos k; have := enc_pos v
    simp only [needP, encodePairs, List.length_append]; omega
end

/-- **Round trip.**  Decoding a buffer that starts with the RFC 8949 encoding of a canonical tree whose nesting is
within the limit yields that tree (NaNs canonical) and consumes exactly the bytes of the encoding — whatever follows. -/
theorem decode_encode (t : Item) (hc : Canon t) (hd : openDepth t ≤ L) (hat : At get 0 (encode t)) (hl : (encode t).length ≤ len) :
    decode lz L okA get len = .ok (renorm t) (encode t).length := by
  have hp := enc_pos t
  unfold decode
  rw [if_neg (by omega)]
  have := item_rt lz L get len okA hok t hc (2 * len + 3) 0 0 (by have := need_le t; omega) hat (by omega) (by omega)
  rw [this]
  simp

end
end Spec.RT

import Cbor.Spec.Head
import Cbor.Spec.Encode
import Cbor.Spec.Float
/-!
# The data model: item trees, and the encoding a tree determines (RFC 8949 §3, libcbor's profile)

libcbor keeps, besides the RFC data model, the *storage width* of integers and floats and the
definite/indefinite flavour and chunking of strings and containers; `Item` records exactly that.
-/
namespace Spec

inductive Item
  | uint (w : Width) (v : Nat)
  | negint (w : Width) (v : Nat)                  -- the value -1 - v
  | bytes (b : List UInt8)
  | bytesI (chunks : List (List UInt8))           -- indefinite length: the definite chunks, in order
  | text (b : List UInt8)
  | textI (chunks : List (List UInt8))
  | array (xs : List Item)
  | arrayI (xs : List Item)
  | map (kvs : List (Item × Item))
  | mapI (kvs : List (Item × Item))
  | tag (n : Nat) (x : Item)
  | simple (v : Nat)                              -- 20 false, 21 true, 22 null, 23 undefined (others: API only)
  | half (f32 : Nat)                              -- value held as binary32 bits (what libcbor stores)
  | single (bits : Nat)
  | double (bits : Nat)
deriving Repr, Inhabited

/-- additional information for an integer stored at width `w` (8-bit: immediate up to 23) -/
def intAi (w : Width) (v : Nat) : Nat :=
  match w with
  | .w8 => if v < 24 then v else 24
  | .w16 => 25 | .w32 => 26 | .w64 => 27

/-- definite chunks of an indefinite-length string of major type `mt` -/
def encodeChunks (mt : Nat) : List (List UInt8) → List UInt8
  | [] => []
  | c :: cs => head mt c.length ++ c ++ encodeChunks mt cs

mutual
/-- the RFC 8949 encoding the tree determines: integers and floats at their stored width, lengths / counts /
tag numbers in the shortest head, indefinite items as start byte, chunks or members in order, then break,
any NaN as the canonical quiet NaN of its width -/
def encode : Item → List UInt8
  | .uint w v => headBytes 0 (intAi w v) v
  | .negint w v => headBytes 1 (intAi w v) v
  | .bytes b => head 2 b.length ++ b
  | .bytesI cs => [0x5F] ++ encodeChunks 2 cs ++ [0xFF]
  | .text b => head 3 b.length ++ b
  | .textI cs => [0x7F] ++ encodeChunks 3 cs ++ [0xFF]
  | .array xs => head 4 xs.length ++ encodeList xs
  | .arrayI xs => [0x9F] ++ encodeList xs ++ [0xFF]
  | .map kvs => head 5 kvs.length ++ encodePairs kvs
  | .mapI kvs => [0xBF] ++ encodePairs kvs ++ [0xFF]
  | .tag n x => head 6 n ++ encode x
  | .simple v => headBytes 7 (if v < 24 then v else 24) v
  | .half f => headBytes 7 25 (Float.singleToHalf f)
  | .single b => headBytes 7 26 (Float.canonSingle b)
  | .double b => headBytes 7 27 (Float.canonDouble b)
def encodeList : List Item → List UInt8
  | [] => []
  | x :: xs => encode x ++ encodeList xs
def encodePairs : List (Item × Item) → List UInt8
  | [] => []
  | (k, v) :: r => encode k ++ encode v ++ encodePairs r
end

mutual
/-- nesting the decoder needs: scalars, definite strings and *empty* definite containers open no level -/
def openDepth : Item → Nat
  | .array [] => 0
  | .map [] => 0
  | .array xs => 1 + depthList xs
  | .arrayI xs => 1 + depthList xs
  | .map kvs => 1 + depthPairs kvs
  | .mapI kvs => 1 + depthPairs kvs
  | .tag _ x => 1 + openDepth x
  | .bytesI _ => 1
  | .textI _ => 1
  | _ => 0
def depthList : List Item → Nat
  | [] => 0
  | x :: xs => max (openDepth x) (depthList xs)
def depthPairs : List (Item × Item) → Nat
  | [] => 0
  | (k, v) :: r => max (max (openDepth k) (openDepth v)) (depthPairs r)
end

end Spec

import Cbor.Spec.Head
/-!
# RFC 8949 §3 — encoding of heads

`headBytes mt ai v` is the head for major type `mt` whose argument `v` is carried with additional
information `ai` (immediate when `ai < 24`, else 1/2/4/8 big-endian bytes).  `head mt v` is the
shortest ("preferred", RFC 8949 §4.1) head.
-/
namespace Spec

/-- `k` big-endian bytes of `v` -/
def beBytes (v : Nat) : Nat → List UInt8
  | 0 => []
  | k+1 => UInt8.ofNat (v / 256 ^ k % 256) :: beBytes v k

def headBytes (mt ai v : Nat) : List UInt8 :=
  if ai < 24 then [UInt8.ofNat (mt * 32 + ai)]
  else UInt8.ofNat (mt * 32 + ai) :: beBytes v (argBytes ai)

/-- additional information of the shortest head carrying `v` -/
def shortestAi (v : Nat) : Nat :=
  if v < 24 then v else if v < 256 then 24 else if v < 65536 then 25 else if v < 4294967296 then 26 else 27

def head (mt v : Nat) : List UInt8 := headBytes mt (shortestAi v) v

end Spec

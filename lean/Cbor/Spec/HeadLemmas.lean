import Cbor.Spec.Head
/-! Facts about the RFC head reader itself (no reference to the C code). -/
namespace Spec

/-- string tokens: payload offset and length; other tokens: none -/
def Tok.payload : Tok → Option (Nat × Nat)
  | .bytes o l => some (o, l)
  | .text o l => some (o, l)
  | _ => none

theorem tokOfArg_ok {mt ai v hl len : Nat} {t : Tok} {l : Nat} (h : tokOfArg mt ai v hl len = .ok t l) :
    hl ≤ l ∧ (hl ≤ len → l ≤ len) ∧ (∀ o pl, t.payload = some (o, pl) → o = hl ∧ l = hl + pl) := by
  unfold tokOfArg at h
  split at h
  all_goals first
    | (split at h <;> simp at h; obtain ⟨rfl, rfl⟩ := h; simp [Tok.payload]; omega)
    | (simp at h; obtain ⟨rfl, rfl⟩ := h; simp [Tok.payload])

theorem tokOfArg_nedata {mt ai v hl len need : Nat} (h : tokOfArg mt ai v hl len = .nedata need) :
    len < need ∧ hl ≤ need := by
  unfold tokOfArg at h
  split at h
  all_goals first
    | (split at h <;> simp at h; subst h; omega)
    | (simp at h)

theorem tokOfArg_ne_error {mt ai v hl len : Nat} : tokOfArg mt ai v hl len ≠ .error := by
  unfold tokOfArg
  split <;> (try split) <;> simp

theorem decodeMt7_ok {get : Nat → UInt8} {len ai : Nat} {t : Tok} {l : Nat} (h : decodeMt7 get len ai = .ok t l) :
    1 ≤ l ∧ l ≤ 9 ∧ (1 ≤ len → l ≤ len) ∧ t.payload = none := by
  unfold decodeMt7 at h
  repeat' split at h
  all_goals (simp at h)
  all_goals (obtain ⟨rfl, rfl⟩ := h; simp [Tok.payload]; try omega)

theorem decodeIndef_ok {mt : Nat} {t : Tok} {l : Nat} (h : decodeIndef mt = .ok t l) : l = 1 ∧ t.payload = none := by
  unfold decodeIndef at h
  repeat' split at h
  all_goals (simp at h)
  all_goals (obtain ⟨rfl, rfl⟩ := h; simp [Tok.payload])

theorem decodeMtArg_ok {get : Nat → UInt8} {len mt ai : Nat} {t : Tok} {l : Nat} (hlen : 1 ≤ len)
    (h : decodeMtArg get len mt ai = .ok t l) :
    1 ≤ l ∧ l ≤ len ∧ (∀ o pl, t.payload = some (o, pl) → 1 ≤ o ∧ o + pl = l) := by
  unfold decodeMtArg at h
  repeat' split at h
  · have := tokOfArg_ok h
    exact ⟨by omega, by omega, fun o pl hp => by have := this.2.2 o pl hp; omega⟩
  · have := tokOfArg_ok h
    exact ⟨by omega, by omega, fun o pl hp => by have := this.2.2 o pl hp; omega⟩
  · simp at h
  · have := decodeIndef_ok h
    exact ⟨by omega, by omega, fun o pl hp => by simp [this.2] at hp⟩
  · simp at h

/-- a complete head lies inside the buffer, occupies at least one byte, and a string payload is inside it -/
theorem decodeHead_ok {get : Nat → UInt8} {len : Nat} {t : Tok} {l : Nat} (h : decodeHead get len = .ok t l) :
    1 ≤ l ∧ l ≤ len ∧ (∀ o pl, t.payload = some (o, pl) → 1 ≤ o ∧ o + pl = l) := by
  unfold decodeHead at h
  repeat' split at h
  · simp at h
  · have := decodeMt7_ok h
    exact ⟨this.1, this.2.2.1 (by omega), fun o pl hp => by simp [this.2.2.2] at hp⟩
  · exact decodeMtArg_ok (by omega) h

theorem decodeMt7_nedata {get : Nat → UInt8} {len ai need : Nat} (h : decodeMt7 get len ai = .nedata need) :
    len < need ∧ need ≤ 9 := by
  unfold decodeMt7 at h
  repeat' split at h
  all_goals (simp at h)
  all_goals (subst h; omega)

theorem decodeIndef_ne_nedata {mt need : Nat} : decodeIndef mt ≠ .nedata need := by
  unfold decodeIndef
  repeat' split
  all_goals simp

theorem decodeMtArg_nedata {get : Nat → UInt8} {len mt ai need : Nat}
    (h : decodeMtArg get len mt ai = .nedata need) : len < need := by
  unfold decodeMtArg at h
  repeat' split at h
  · exact (tokOfArg_nedata h).1
  · exact (tokOfArg_nedata h).1
  · simp at h; omega
  · exact absurd h decodeIndef_ne_nedata
  · simp at h

/-- NEDATA always asks for strictly more than is buffered -/
theorem decodeHead_nedata {get : Nat → UInt8} {len need : Nat} (h : decodeHead get len = .nedata need) :
    len < need := by
  unfold decodeHead at h
  repeat' split at h
  · simp at h; omega
  · exact (decodeMt7_nedata h).1
  · exact decodeMtArg_nedata h

end Spec

namespace Spec

theorem beNat_congr (get get' : Nat → UInt8) (off k : Nat)
    (h : ∀ i, off ≤ i → i < off + k → get' i = get i) : beNat get' off k = beNat get off k := by
  induction k generalizing off with
  | zero => rfl
  | succ k ih =>
    simp only [beNat]
    rw [h off (Nat.le_refl _) (by omega), ih (off + 1) (fun i h1 h2 => h i (by omega) (by omega))]

theorem tokOfArg_mono {mt ai v hl len len' : Nat} {t : Tok} {l : Nat}
    (h : tokOfArg mt ai v hl len = .ok t l) (hl' : l ≤ len') : tokOfArg mt ai v hl len' = .ok t l := by
  unfold tokOfArg at h ⊢
  split at h
  all_goals first
    | (split at h <;> simp at h; obtain ⟨rfl, rfl⟩ := h; simp [hl'])
    | (simpa using h)

theorem decodeMt7_prefix {get get' : Nat → UInt8} {len len' ai : Nat} {t : Tok} {l : Nat}
    (h : decodeMt7 get len ai = .ok t l) (hg : ∀ i, i < l → get' i = get i) (hl : l ≤ len') :
    decodeMt7 get' len' ai = .ok t l := by
  unfold decodeMt7 at h ⊢
  repeat' split at h
  all_goals (simp at h)
  all_goals (obtain ⟨rfl, rfl⟩ := h)
  all_goals (simp [*])
  · exact beNat_congr get get' 1 2 (fun i _ h2 => hg i (by omega))
  · exact beNat_congr get get' 1 4 (fun i _ h2 => hg i (by omega))
  · exact beNat_congr get get' 1 8 (fun i _ h2 => hg i (by omega))

theorem decodeMtArg_prefix {get get' : Nat → UInt8} {len len' mt ai : Nat} {t : Tok} {l : Nat}
    (h : decodeMtArg get len mt ai = .ok t l) (hg : ∀ i, i < l → get' i = get i) (hl : l ≤ len') :
    decodeMtArg get' len' mt ai = .ok t l := by
  unfold decodeMtArg at h ⊢
  repeat' split at h
  · rename_i h1; rw [if_pos h1]; exact tokOfArg_mono h hl
  · rename_i h1 h2 h3
    have hk := (tokOfArg_ok h).1
    rw [if_neg h1, if_pos h2, if_pos (by omega)]
    rw [beNat_congr get get' 1 (argBytes ai) (fun i _ hi => hg i (by omega))]
    exact tokOfArg_mono h hl
  · simp at h
  · rename_i h1 h2 h3; rw [if_neg h1, if_neg h2, if_pos h3]; exact h
  · simp at h

/-- **prefix independence**: a complete head is determined by the `l` bytes it occupies -/
theorem decodeHead_prefix {get get' : Nat → UInt8} {len len' : Nat} {t : Tok} {l : Nat}
    (h : decodeHead get len = .ok t l) (hg : ∀ i, i < l → get' i = get i) (hl : l ≤ len') :
    decodeHead get' len' = .ok t l := by
  have hok := decodeHead_ok h
  have h0 : get' 0 = get 0 := hg 0 (by omega)
  unfold decodeHead at h ⊢
  rw [if_neg (by omega : ¬ len' = 0), h0]
  repeat' split at h
  · simp at h
  · rename_i h7; rw [if_pos h7]; exact decodeMt7_prefix h hg hl
  · rename_i h7; rw [if_neg h7]; exact decodeMtArg_prefix h hg hl

end Spec

namespace Spec
/-! ### truncation: cutting a buffer inside a head (or its payload) gives NEDATA, never ERROR -/

theorem tokOfArg_trunc {mt ai v hl len len' : Nat} {t : Tok} {l : Nat}
    (h : tokOfArg mt ai v hl len = .ok t l) (h1 : hl ≤ len') (h2 : len' < l) :
    ∃ need, tokOfArg mt ai v hl len' = .nedata need := by
  unfold tokOfArg at h ⊢
  split at h
  all_goals first
    | (split at h <;> simp at h; obtain ⟨rfl, rfl⟩ := h; exact ⟨_, by rw [if_neg (by omega)]⟩)
    | (simp at h; omega)

theorem decodeHead_trunc {get : Nat → UInt8} {len len' : Nat} {t : Tok} {l : Nat}
    (h : decodeHead get len = .ok t l) (h2 : len' < l) : ∃ need, decodeHead get len' = .nedata need := by
  by_cases h0 : len' = 0
  · exact ⟨1, by simp [decodeHead, h0]⟩
  unfold decodeHead at h ⊢
  rw [if_neg h0]
  split at h
  · simp at h
  split at h
  · rename_i h7
    rw [if_pos h7]
    unfold decodeMt7 at h ⊢
    repeat' split at h
    all_goals (simp at h)
    all_goals (obtain ⟨rfl, rfl⟩ := h)
    all_goals (try omega)
    all_goals (simp [*]; exact ⟨_, by rw [if_neg (by omega)]⟩)
  · rename_i h7
    rw [if_neg h7]
    unfold decodeMtArg at h ⊢
    repeat' split at h
    · rename_i ha
      rw [if_pos ha]
      exact tokOfArg_trunc h (by omega) h2
    · rename_i ha hb hc
      rw [if_neg ha, if_pos hb]
      by_cases hk : 1 + argBytes ((get 0).toNat % 32) ≤ len'
      · rw [if_pos hk]; exact tokOfArg_trunc h hk h2
      · rw [if_neg hk]; exact ⟨_, rfl⟩
    · simp at h
    · have := decodeIndef_ok h; omega
    · simp at h

end Spec

namespace Spec
theorem decodeMt7_congr {get get' : Nat → UInt8} {len ai : Nat} (h : ∀ i, i < len → get' i = get i) :
    decodeMt7 get' len ai = decodeMt7 get len ai := by
  unfold decodeMt7
  by_cases h2 : 3 ≤ len
  · by_cases h4 : 5 ≤ len
    · by_cases h8 : 9 ≤ len
      · rw [beNat_congr get get' 1 2 (fun i _ hi => h i (by omega)), beNat_congr get get' 1 4 (fun i _ hi => h i (by omega)),
            beNat_congr get get' 1 8 (fun i _ hi => h i (by omega))]
      · rw [beNat_congr get get' 1 2 (fun i _ hi => h i (by omega)), beNat_congr get get' 1 4 (fun i _ hi => h i (by omega))]
        simp only [h8, if_false]
    · have h8 : ¬ 9 ≤ len := by omega
      rw [beNat_congr get get' 1 2 (fun i _ hi => h i (by omega))]
      simp only [h4, h8, if_false]
  · have h4 : ¬ 5 ≤ len := by omega
    have h8 : ¬ 9 ≤ len := by omega
    simp only [h2, h4, h8, if_false]

theorem decodeMtArg_congr {get get' : Nat → UInt8} {len mt ai : Nat} (h : ∀ i, i < len → get' i = get i) :
    decodeMtArg get' len mt ai = decodeMtArg get len mt ai := by
  unfold decodeMtArg
  by_cases hk : 1 + argBytes ai ≤ len
  · rw [beNat_congr get get' 1 (argBytes ai) (fun i _ hi => h i (by omega))]
  · simp only [hk, if_false]

/-- the head reader only inspects bytes inside the buffer -/
theorem decodeHead_congr {get get' : Nat → UInt8} {len : Nat} (h : ∀ i, i < len → get' i = get i) :
    decodeHead get' len = decodeHead get len := by
  unfold decodeHead
  by_cases h0 : len = 0
  · simp [h0]
  · rw [if_neg h0, if_neg h0, h 0 (by omega), decodeMt7_congr h, decodeMtArg_congr h]

theorem tokOfArg_need_le {mt ai v hl n n' need : Nat} {t : Tok} {l : Nat}
    (h1 : tokOfArg mt ai v hl n = .nedata need) (h2 : tokOfArg mt ai v hl n' = .ok t l) : need ≤ l := by
  unfold tokOfArg at h1 h2
  split at h1
  all_goals first
    | (simp at h1; done)
    | (split at h1 <;> simp at h1; subst h1; simp only at h2; split at h2 <;> simp at h2; omega)

theorem decodeMt7_need_le {get : Nat → UInt8} {n n' ai need : Nat} {t : Tok} {l : Nat}
    (h1 : decodeMt7 get n ai = .nedata need) (h2 : decodeMt7 get n' ai = .ok t l) : need ≤ l := by
  unfold decodeMt7 at h1 h2
  repeat' split at h1
  all_goals simp at h1
  all_goals (subst h1; simp_all; try (split at h2 <;> simp at h2 <;> omega))

theorem decodeMtArg_need_le {get : Nat → UInt8} {n n' mt ai need : Nat} {t : Tok} {l : Nat}
    (h1 : decodeMtArg get n mt ai = .nedata need) (h2 : decodeMtArg get n' mt ai = .ok t l) : need ≤ l := by
  unfold decodeMtArg at h1 h2
  by_cases c1 : ai < 24
  · simp only [c1, if_true] at h1 h2; exact tokOfArg_need_le h1 h2
  · simp only [c1, if_false] at h1 h2
    by_cases c2 : ai ≤ 27
    · simp only [c2, if_true] at h1 h2
      by_cases c3 : 1 + argBytes ai ≤ n
      · simp only [c3, if_true] at h1
        by_cases c4 : 1 + argBytes ai ≤ n'
        · simp only [c4, if_true] at h2; exact tokOfArg_need_le h1 h2
        · simp [c4] at h2
      · simp only [c3, if_false] at h1
        simp at h1; subst h1
        by_cases c4 : 1 + argBytes ai ≤ n'
        · simp only [c4, if_true] at h2; exact (tokOfArg_ok h2).1
        · simp [c4] at h2
    · simp only [c2, if_false] at h1 h2
      split at h1
      · exact absurd h1 decodeIndef_ne_nedata
      · simp at h1

/-- NEDATA never asks for more than the pending item really occupies -/
theorem decodeHead_need_le {get : Nat → UInt8} {n n' need : Nat} {t : Tok} {l : Nat}
    (h1 : decodeHead get n = .nedata need) (h2 : decodeHead get n' = .ok t l) : need ≤ l := by
  have hok := decodeHead_ok h2
  unfold decodeHead at h1 h2
  by_cases c0 : n = 0
  · simp [c0] at h1; omega
  · have c0' : ¬ n' = 0 := by omega
    simp only [c0, c0', if_false] at h1 h2
    split at h1
    · rename_i h7; simp only [h7, if_true] at h2; exact decodeMt7_need_le h1 h2
    · rename_i h7; simp only [h7, if_false] at h2; exact decodeMtArg_need_le h1 h2

/-- a reserved / unsupported initial byte is an error whatever follows and however much is buffered -/
theorem decodeHead_error_stable {get : Nat → UInt8} {n n' : Nat} (h : decodeHead get n = .error) (hn : 1 ≤ n') :
    decodeHead get n' = .error := by
  unfold decodeHead at h ⊢
  by_cases c0 : n = 0
  · simp [c0] at h
  · have c0' : ¬ n' = 0 := by omega
    simp only [c0, c0', if_false] at h ⊢
    split at h
    · rename_i h7
      simp only [h7, if_true]
      unfold decodeMt7 at h ⊢
      repeat' split at h
      all_goals simp at h
      simp_all
    · rename_i h7
      simp only [h7, if_false]
      unfold decodeMtArg at h ⊢
      repeat' split at h
      · exact absurd h tokOfArg_ne_error
      · exact absurd h tokOfArg_ne_error
      · simp at h
      · rename_i a b c
        rw [if_neg a, if_neg b, if_pos c]; exact h
      · rename_i a b c
        rw [if_neg a, if_neg b, if_neg c]


end Spec

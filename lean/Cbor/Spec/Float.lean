/-!
# IEEE 754-2008 binary16 / binary32 / binary64 — the value a bit pattern denotes

Values are exact: `fin neg m e` is `(-1)^neg · m · 2^e` with `m` odd; zeros keep their sign; all NaNs are
one value (`nan`), as C15 treats them.
-/
namespace Spec.Float

inductive Val
  | zero (neg : Bool)
  | fin (neg : Bool) (m : Nat) (e : Int)
  | inf (neg : Bool)
  | nan
deriving DecidableEq, Repr, Inhabited

/-- number of trailing zero bits of `m` (fuel ≥ bit length of `m`; 0 for 0) -/
def tz : Nat → Nat → Nat
  | 0, _ => 0
  | f+1, m => if m % 2 = 0 ∧ m ≠ 0 then tz f (m / 2) + 1 else 0

/-- `(-1)^neg · m · 2^e`, with common factors of two moved into the exponent so that the mantissa is odd -/
def mk (neg : Bool) (m : Nat) (e : Int) : Val :=
  if m = 0 then .zero neg else
  let k := tz 64 m
  .fin neg (m / 2 ^ k) (e + k)

/-- generic IEEE interchange format: `eb` exponent bits, `mb` fraction bits -/
def value (eb mb : Nat) (bits : Nat) : Val :=
  let frac := bits % 2 ^ mb
  let ex := (bits / 2 ^ mb) % 2 ^ eb
  let neg := (bits / 2 ^ (mb + eb)) % 2 = 1
  let bias : Int := 2 ^ (eb - 1) - 1
  if ex = 2 ^ eb - 1 then (if frac = 0 then .inf neg else .nan)
  else if ex = 0 then mk neg frac (1 - bias - mb)                      -- subnormal / zero
  else mk neg (2 ^ mb + frac) ((ex : Int) - bias - mb)                 -- normal

def halfValue (h : Nat) : Val := value 5 10 h
def singleValue (b : Nat) : Val := value 8 23 b
def doubleValue (b : Nat) : Val := value 11 52 b

def isNaN (eb mb bits : Nat) : Bool := (bits / 2 ^ mb) % 2 ^ eb = 2 ^ eb - 1 ∧ bits % 2 ^ mb ≠ 0

/-- what re-encoding must produce: the pattern itself, or the canonical quiet NaN of the width -/
def canonHalf (h : Nat) : Nat := if isNaN 5 10 h then 0x7E00 else h
def canonSingle (b : Nat) : Nat := if isNaN 8 23 b then 0x7FC00000 else b
def canonDouble (b : Nat) : Nat := if isNaN 11 52 b then 0x7FF8000000000000 else b

/-- the binary16 pattern denoting the same value as the binary32 pattern `b`, when there is one
(±0, half-normal and half-subnormal values, ±∞); the canonical quiet NaN for any NaN.
For values that are not half-representable the result is unspecified here (C15 only asks for totality). -/
def singleToHalf (b : Nat) : Nat :=
  let sign := b / 2 ^ 31 % 2
  let e := b / 2 ^ 23 % 256
  let m := b % 2 ^ 23
  if e = 255 then (if m = 0 then sign * 0x8000 + 0x7C00 else 0x7E00)
  else if e = 0 then sign * 0x8000
  else if 113 ≤ e ∧ e ≤ 142 then sign * 0x8000 + (e - 112) * 1024 + m / 2 ^ 13       -- 2^-14 ≤ |x| < 2^16
  else if 103 ≤ e ∧ e < 113 then sign * 0x8000 + (2 ^ 23 + m) / 2 ^ (126 - e)        -- half subnormals
  else sign * 0x8000

/-- `b` holds a value some binary16 pattern denotes -/
def halfRepresentable (b : Nat) : Bool :=
  let e := b / 2 ^ 23 % 256
  let m := b % 2 ^ 23
  if e = 255 then true
  else if e = 0 then m = 0
  else if 113 ≤ e ∧ e ≤ 142 then m % 2 ^ 13 = 0
  else if 103 ≤ e ∧ e < 113 then (2 ^ 23 + m) % 2 ^ (126 - e) = 0
  else false

end Spec.Float

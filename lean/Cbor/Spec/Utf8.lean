/-!
# RFC 3629 §4 — syntax of UTF-8 byte sequences

```
UTF8-octets = *( UTF8-char )
UTF8-char   = UTF8-1 / UTF8-2 / UTF8-3 / UTF8-4
UTF8-1      = %x00-7F
UTF8-2      = %xC2-DF UTF8-tail
UTF8-3      = %xE0 %xA0-BF UTF8-tail / %xE1-EC 2( UTF8-tail ) /
              %xED %x80-9F UTF8-tail / %xEE-EF 2( UTF8-tail )
UTF8-4      = %xF0 %x90-BF 2( UTF8-tail ) / %xF1-F3 3( UTF8-tail ) /
              %xF4 %x80-8F 2( UTF8-tail )
UTF8-tail   = %x80-BF
```
No overlong forms (C0, C1, E0 80-9F, F0 80-8F excluded), no surrogates (ED A0-BF excluded), nothing above
U+10FFFF (F4 90.., F5-FF excluded), no truncated sequence.  Bytes are given by their values (`Nat`).
-/
namespace Spec.Utf8

def tail (b : Nat) : Bool := 0x80 ≤ b && b ≤ 0xBF

/-- strip one `UTF8-char` from the front; `none` if the sequence does not start with one -/
def charRest : List Nat → Option (List Nat)
  | b0 :: r =>
    if b0 ≤ 0x7F then some r                                                        -- UTF8-1
    else if 0xC2 ≤ b0 && b0 ≤ 0xDF then                                             -- UTF8-2
      match r with | b1 :: r => if tail b1 then some r else none | _ => none
    else if b0 = 0xE0 then                                                          -- UTF8-3
      match r with | b1 :: b2 :: r => if 0xA0 ≤ b1 && b1 ≤ 0xBF && tail b2 then some r else none | _ => none
    else if (0xE1 ≤ b0 && b0 ≤ 0xEC) || (0xEE ≤ b0 && b0 ≤ 0xEF) then
      match r with | b1 :: b2 :: r => if tail b1 && tail b2 then some r else none | _ => none
    else if b0 = 0xED then
      match r with | b1 :: b2 :: r => if 0x80 ≤ b1 && b1 ≤ 0x9F && tail b2 then some r else none | _ => none
    else if b0 = 0xF0 then                                                          -- UTF8-4
      match r with | b1 :: b2 :: b3 :: r => if 0x90 ≤ b1 && b1 ≤ 0xBF && tail b2 && tail b3 then some r else none | _ => none
    else if 0xF1 ≤ b0 && b0 ≤ 0xF3 then
      match r with | b1 :: b2 :: b3 :: r => if tail b1 && tail b2 && tail b3 then some r else none | _ => none
    else if b0 = 0xF4 then
      match r with | b1 :: b2 :: b3 :: r => if 0x80 ≤ b1 && b1 ≤ 0x8F && tail b2 && tail b3 then some r else none | _ => none
    else none
  | [] => none

/-- number of `UTF8-char`s (= Unicode scalar values) when the whole sequence is `UTF8-octets`; `none` otherwise.
`fuel` bounds the number of characters; `bs.length` always suffices. -/
def countFuel : Nat → List Nat → Option Nat
  | _, [] => some 0
  | 0, _ :: _ => none
  | f + 1, b :: bs =>
    match charRest (b :: bs) with
    | none => none
    | some r => (countFuel f r).map (· + 1)

def count (bs : List Nat) : Option Nat := countFuel bs.length bs

/-- what libcbor reports for a definite text string -/
def codepointCount (bs : List Nat) : Nat := (count bs).getD 0

end Spec.Utf8

import Cbor.Lemmas.Half
/-! shard 43 of the exhaustive binary16 table check (patterns 44032 .. 45055), kernel-evaluated -/
namespace Lemmas
theorem half_shard_43 : halfShardOk 43 = true := by decide +kernel
end Lemmas

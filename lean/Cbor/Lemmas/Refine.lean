import Cbor.Model.Builder
import Cbor.Model.Abs
import Cbor.Lemmas.SdSpec
import Cbor.Props.C20
import Cbor.Lemmas.HalfAll
import Cbor.Lemmas.Fund
/-!
# `Model.load` refines the abstract stack machine `Abs.run`

Simulation between the faithful value-level model of the builder (capacities, `size_t` countdowns, allocator
requests, the generated head decoder) and the abstract machine, for the oracle that grants every request
("no allocation refused"; libcbor's own overflow guards still apply and are the `okGuard` predicate).
-/
namespace Lemmas.Refine
open Model Abs Spec Lemmas

/-- the allocator that never refuses -/
def ωT : Oracle := fun _ _ => true

/-- what libcbor's overflow guards allow, memory permitting: slot storage of a definite array / map must fit `size_t` -/
def okGuard : AllocOk
  | .array n => Gen._cbor_safe_to_multiply 8 (UInt64.ofNat n)
  | .map n => Gen._cbor_safe_to_multiply 16 (UInt64.ofNat n)
  | _ => true

/-- frame of the model ~ frame of the abstract machine; `B` bounds the number of members collected so far -/
def FR (B : Nat) : Model.Frame → Abs.Frame → Prop
  | ⟨.arrD alloc xs, sub⟩, .arr rem ys => xs = ys ∧ sub.toNat = rem ∧ rem ≥ 1 ∧ xs.length + rem = alloc
  | ⟨.arrI alloc xs, _⟩, .arrI ys => xs = ys ∧ xs.length ≤ alloc ∧ alloc ≤ 2 * xs.length ∧ xs.length ≤ B
  | ⟨.mapD alloc kvs key, sub⟩, .map rem kvs' key' =>
      kvs = kvs' ∧ key = key' ∧ sub.toNat = rem ∧ rem ≥ 1 ∧ (key.isSome ↔ rem % 2 = 1) ∧
      2 * kvs.length + (if key.isSome then 1 else 0) + rem = 2 * alloc ∧ alloc < 2 ^ 60
  | ⟨.mapI alloc kvs key, sub⟩, .mapI kvs' key' =>
      kvs = kvs' ∧ key = key' ∧ (sub = 0 ∨ sub = 1) ∧ (key.isSome ↔ sub = 1) ∧
      kvs.length + (if key.isSome then 1 else 0) ≤ alloc ∧ alloc ≤ 2 * (kvs.length + (if key.isSome then 1 else 0)) ∧
      kvs.length + 1 ≤ B + 1
  | ⟨.tag n _, sub⟩, .tag m => n = m ∧ sub = 1
  | ⟨.bstrI cap cs, _⟩, .bstr cs' => cs = cs' ∧ cs.length ≤ cap ∧ cap ≤ 2 * cs.length ∧ cs.length ≤ B
  | ⟨.tstrI cap cs, _⟩, .tstr cs' => cs = cs' ∧ cs.length ≤ cap ∧ cap ≤ 2 * cs.length ∧ cs.length ≤ B
  | _, _ => False

/-- stacks related frame by frame -/
def SR (B : Nat) : List Model.Frame → List Abs.Frame → Prop
  | [], [] => True
  | f :: fs, a :: as => FR B f a ∧ SR B fs as
  | _, _ => False

theorem SR_length {B : Nat} : ∀ {ms : List Model.Frame} {as : List Abs.Frame}, SR B ms as → ms.length = as.length
  | [], [], _ => rfl
  | _ :: fs, _ :: as, h => by simp [SR_length h.2]
  | [], _ :: _, h => by cases h
  | _ :: _, [], h => by cases h

theorem FR_mono {B B' : Nat} (h : B ≤ B') : ∀ {f : Model.Frame} {a : Abs.Frame}, FR B f a → FR B' f a := by
  intro f a hf
  obtain ⟨it, sub⟩ := f
  cases it <;> cases a <;> simp only [FR] at hf ⊢
  all_goals first
    | exact hf
    | (obtain ⟨h1, h2, h3, h4⟩ := hf; exact ⟨h1, h2, h3, by omega⟩)
    | (obtain ⟨h1, h2, h3, h4, h5, h6, h7⟩ := hf; exact ⟨h1, h2, h3, h4, h5, h6, by omega⟩)

theorem SR_mono {B B' : Nat} (h : B ≤ B') : ∀ {ms : List Model.Frame} {as : List Abs.Frame}, SR B ms as → SR B' ms as
  | [], [], _ => trivial
  | _ :: _, _ :: _, hs => ⟨FR_mono h hs.1, SR_mono h hs.2⟩
  | [], _ :: _, hs => by cases hs
  | _ :: _, [], hs => by cases hs

/-- a context between two heads: flags clear, nothing delivered yet -/
structure Clean (c : Ctx) : Prop where
  cf : c.creationFailed = false
  se : c.syntaxError = false
  fl : c.fault = false
  rt : c.root = none

/-- outcome of the model after one head, against the abstract outcome -/
def OutR (B : Nat) (c : Ctx) : Abs.Out → Prop
  | .cont s => Clean c ∧ SR B c.stack s
  | .done x => c.stack = [] ∧ c.root = some x ∧ c.creationFailed = false ∧ c.syntaxError = false ∧ c.fault = false
  | .syn => c.syntaxError = true ∧ c.creationFailed = false ∧ c.fault = false
  | .mem => c.creationFailed = true ∧ c.fault = false

theorem ofNat_toNat_small (n : Nat) (h : n < 2 ^ 64) : (UInt64.ofNat n).toNat = n := by
  simp [UInt64.toNat_ofNat']; omega

theorem mul_guard (a b : Nat) (h : a * b < 2 ^ 63) (ha : a < 2 ^ 64) (hb : b < 2 ^ 64) :
    Gen._cbor_safe_to_multiply (UInt64.ofNat a) (UInt64.ofNat b) = true :=
  Props.C20.C20_mul_complete_half _ _ (by rw [ofNat_toNat_small a ha, ofNat_toNat_small b hb]; exact h)

theorem alloc_T (c : Ctx) (b : Nat) : c.alloc ωT b = (true, { c with reqs := c.reqs + 1 }) := rfl

theorem allocMultiple_T (c : Ctx) (sz cnt : Nat) (h : sz * cnt < 2 ^ 63) (h1 : sz < 2 ^ 64) (h2 : cnt < 2 ^ 64) :
    c.allocMultiple ωT sz cnt = (true, { c with reqs := c.reqs + 1 }) := by
  simp [Ctx.allocMultiple, mul_guard sz cnt h h1 h2, alloc_T]

theorem growAlloc_T (c : Ctx) (elt alloc : Nat) (he : elt ≤ 16) (h : alloc < 2 ^ 57) :
    c.growAlloc ωT elt alloc = (true, { c with reqs := c.reqs + 1 }) := by
  have hg : grow alloc ≤ 2 * alloc + 1 := by unfold grow growth; split <;> omega
  have e1 : elt * grow alloc < 2 ^ 63 := by
    calc elt * grow alloc ≤ 16 * (2 * alloc + 1) := Nat.mul_le_mul he hg
      _ < 2 ^ 63 := by omega
  have g2 : Gen._cbor_safe_to_multiply (UInt64.ofNat growth) (UInt64.ofNat alloc) = true :=
    mul_guard 2 alloc (by omega) (by omega) (by omega)
  simp only [Ctx.growAlloc, g2, if_true]
  exact allocMultiple_T c elt (grow alloc) e1 (by omega) (by omega)


theorem sub_pred (sub : UInt64) (h : sub.toNat ≥ 1) : (sub - 1).toNat = sub.toNat - 1 := by
  rw [UInt64.toNat_sub_of_le _ _ (UInt64.le_iff_toNat_le.mpr (by simpa using h))]; rfl

theorem u64_eq_zero_iff (x : UInt64) : x = 0 ↔ x.toNat = 0 := by
  constructor
  · intro h; subst h; rfl
  · intro h; exact UInt64.toNat_inj.mp (by simpa using h)

theorem u64_mod2 (x : UInt64) : (x % 2 = 1) ↔ x.toNat % 2 = 1 := by
  constructor
  · intro h; have := congrArg UInt64.toNat h; simpa [UInt64.toNat_mod] using this
  · intro h; apply UInt64.toNat_inj.mp; simpa [UInt64.toNat_mod] using h

theorem clean_reqs {c : Ctx} (h : Clean c) (n : Nat) : Clean { c with reqs := n } := ⟨h.cf, h.se, h.fl, h.rt⟩

theorem append_sim (B : Nat) (hB : B < 2 ^ 56) :
    ∀ (s : List Abs.Frame) (x : Item) (c : Ctx) (fuel : Nat), Clean c → SR B c.stack s → fuel ≥ s.length + 1 →
      OutR (B + 1) (append ωT fuel x c) (deliver x s) := by
  intro s
  induction s with
  | nil =>
    intro x c fuel hc hs hf
    obtain ⟨fuel, rfl⟩ : ∃ k, fuel = k + 1 := ⟨fuel - 1, by omega⟩
    cases hst : c.stack with
    | cons t r => rw [hst] at hs; cases hs
    | nil =>
      simp only [append, hst, deliver, OutR]
      exact ⟨trivial, trivial, hc.cf, hc.se, hc.fl⟩
  | cons a as ih =>
    intro x c fuel hc hs hf
    obtain ⟨fuel, rfl⟩ : ∃ k, fuel = k + 1 := ⟨fuel - 1, by simp at hf; omega⟩
    cases hst : c.stack with
    | nil => rw [hst] at hs; cases hs
    | cons top rest =>
      rw [hst] at hs
      obtain ⟨hfr, hrest⟩ := hs
      obtain ⟨it, sub⟩ := top
      have hrest' : SR (B + 1) rest as := SR_mono (by omega) hrest
      have hlen := SR_length hrest
      simp only [List.length_cons] at hf
      cases it with
      | arrD alloc xs =>
        cases a <;> simp only [FR] at hfr <;> try exact hfr.elim
        rename_i rem ys
        obtain ⟨rfl, hsub, hrem, hal⟩ := hfr
        have hs0 : sub ≠ 0 := fun h => by rw [h] at hsub; simp at hsub; omega
        have hnl : ¬ (xs.length ≥ alloc) := by omega
        have hp := sub_pred sub (by omega)
        simp only [append, hst, hs0, if_false, hnl, deliver]
        by_cases h1 : rem ≤ 1
        · have : sub - 1 = 0 := (u64_eq_zero_iff _).mpr (by omega)
          simp only [this, if_true, h1, PItem.finish]
          exact ih _ { c with stack := rest } fuel ⟨hc.cf, hc.se, hc.fl, hc.rt⟩ hrest (by omega)
        · have : ¬ (sub - 1 = 0) := fun h => by have := (u64_eq_zero_iff _).mp h; omega
          simp only [this, if_false, h1, OutR]
          refine ⟨⟨hc.cf, hc.se, hc.fl, hc.rt⟩, ?_, hrest'⟩
          simp only [FR, List.length_append, List.length_singleton]
          exact ⟨trivial, by omega, by omega, by omega⟩
      | arrI alloc xs =>
        cases a <;> simp only [FR] at hfr <;> try exact hfr.elim
        rename_i ys
        obtain ⟨rfl, h1, h2, h3⟩ := hfr
        simp only [append, hst, deliver]
        by_cases hg : xs.length ≥ alloc
        · simp only [hg, if_true, growAlloc_T c szPtr alloc (by decide) (by omega), OutR]
          refine ⟨⟨hc.cf, hc.se, hc.fl, hc.rt⟩, ?_, hrest'⟩
          have : xs.length = alloc := by omega
          simp only [FR, List.length_append, List.length_singleton, grow, growth]
          refine ⟨trivial, ?_, ?_, by omega⟩ <;> split <;> omega
        · simp only [hg, if_false, OutR]
          refine ⟨⟨hc.cf, hc.se, hc.fl, hc.rt⟩, ?_, hrest'⟩
          simp only [FR, List.length_append, List.length_singleton]
          exact ⟨trivial, by omega, by omega, by omega⟩
      | mapD alloc kvs key =>
        cases a <;> simp only [FR] at hfr <;> try exact hfr.elim
        rename_i rem kvs' key'
        obtain ⟨rfl, rfl, hsub, hrem, hkey, hal, ha60⟩ := hfr
        have hs0 : sub ≠ 0 := fun h => by rw [h] at hsub; simp at hsub; omega
        have hp := sub_pred sub (by omega)
        have hm2 := u64_mod2 sub
        rw [hsub] at hm2
        cases key with
        | some k =>
          have hodd : rem % 2 = 1 := hkey.mp rfl
          have hmod : sub % 2 = 1 := hm2.mpr hodd
          simp only [append, hst, hmod, if_true, hs0, if_false, deliver]
          simp only [Option.isSome_some, if_true] at hal
          by_cases h1 : rem ≤ 1
          · have : sub - 1 = 0 := (u64_eq_zero_iff _).mpr (by omega)
            simp only [this, if_true, h1, PItem.finish]
            exact ih _ { c with stack := rest } fuel ⟨hc.cf, hc.se, hc.fl, hc.rt⟩ hrest (by omega)
          · have : ¬ (sub - 1 = 0) := fun h => by have := (u64_eq_zero_iff _).mp h; omega
            simp only [this, if_false, h1, OutR]
            refine ⟨⟨hc.cf, hc.se, hc.fl, hc.rt⟩, ?_, hrest'⟩
            simp only [FR, List.length_append, List.length_singleton]
            refine ⟨trivial, trivial, by omega, by omega, ?_, by simp; omega, ha60⟩
            simp; omega
        | none =>
          have heven : ¬ rem % 2 = 1 := fun h => by have := hkey.mpr h; simp at this
          have hmod : ¬ (sub % 2 = 1) := fun h => heven (hm2.mp h)
          simp only [Option.isSome_none, Bool.false_eq_true, if_false] at hal
          have hnl : ¬ (kvs.length ≥ alloc) := by omega
          have : ¬ (sub - 1 = 0) := fun h => by have := (u64_eq_zero_iff _).mp h; omega
          simp only [append, hst, hmod, if_false, hnl, hs0, this, deliver, OutR]
          refine ⟨⟨hc.cf, hc.se, hc.fl, hc.rt⟩, ?_, hrest'⟩
          simp only [FR]
          refine ⟨trivial, trivial, by omega, by omega, ?_, by simp; omega, ha60⟩
          simp; omega
      | mapI alloc kvs key =>
        cases a <;> simp only [FR] at hfr <;> try exact hfr.elim
        rename_i kvs' key'
        obtain ⟨rfl, rfl, h01, hkey, h1, h2, h3⟩ := hfr
        cases key with
        | some k =>
          have hs1 : sub = 1 := hkey.mp rfl
          subst hs1
          have hmod : (1 : UInt64) % 2 = 1 := by decide
          have hx : (1 : UInt64) ^^^ 1 = 0 := by decide
          simp only [append, hst, hmod, if_true, deliver, hx, OutR]
          refine ⟨⟨hc.cf, hc.se, hc.fl, hc.rt⟩, ?_, hrest'⟩
          simp only [Option.isSome_some, if_true] at h1 h2
          simp only [FR, List.length_append, List.length_singleton]
          refine ⟨trivial, trivial, Or.inl trivial, by simp, by simp; omega, by simp; omega, by omega⟩
        | none =>
          have hs0 : sub = 0 := by
            rcases h01 with h | h
            · exact h
            · have := hkey.mpr h; simp at this
          subst hs0
          have hmod : ¬ ((0 : UInt64) % 2 = 1) := by decide
          have hx : (0 : UInt64) ^^^ 1 = 1 := by decide
          simp only [Option.isSome_none, Bool.false_eq_true, if_false, Nat.add_zero] at h1 h2
          simp only [append, hst, hmod, if_false, deliver, hx]
          by_cases hg : kvs.length ≥ alloc
          · simp only [hg, if_true, growAlloc_T c szPair alloc (by decide) (by omega), OutR]
            refine ⟨⟨hc.cf, hc.se, hc.fl, hc.rt⟩, ?_, hrest'⟩
            have : kvs.length = alloc := by omega
            simp only [FR, grow, growth]
            refine ⟨trivial, trivial, Or.inr trivial, by simp, ?_, ?_, by omega⟩ <;> simp <;> split <;> omega
          · simp only [hg, if_false, OutR]
            refine ⟨⟨hc.cf, hc.se, hc.fl, hc.rt⟩, ?_, hrest'⟩
            simp only [FR]
            refine ⟨trivial, trivial, Or.inr trivial, by simp, by simp; omega, by simp; omega, by omega⟩
      | tag n xo =>
        cases a <;> simp only [FR] at hfr <;> try exact hfr.elim
        rename_i m
        obtain ⟨rfl, rfl⟩ := hfr
        simp only [append, hst, ne_eq, not_true_eq_false, if_false, deliver]
        exact ih _ { c with stack := rest } fuel ⟨hc.cf, hc.se, hc.fl, hc.rt⟩ hrest (by omega)
      | bstrI cap cs =>
        cases a <;> simp only [FR] at hfr <;> try exact hfr.elim
        simp only [append, hst, deliver, OutR]
        exact ⟨trivial, hc.cf, hc.fl⟩
      | tstrI cap cs =>
        cases a <;> simp only [FR] at hfr <;> try exact hfr.elim
        simp only [append, hst, deliver, OutR]
        exact ⟨trivial, hc.cf, hc.fl⟩
theorem scalar_sim (B : Nat) (hB : B < 2 ^ 56) (c : Ctx) (s : List Abs.Frame) (extra : Nat) (x : Item)
    (hc : Clean c) (hs : SR B c.stack s) : OutR (B + 1) (scalar ωT c extra x) (deliver x s) := by
  simp only [scalar, alloc_T, if_true, fuelOf]
  exact append_sim B hB s x _ _ (clean_reqs hc _) hs (by simp [SR_length hs])

theorem push_sim (B : Nat) (L : Nat) (c : Ctx) (s : List Abs.Frame) (it : PItem) (sub : UInt64) (fr : Abs.Frame)
    (hc : Clean c) (hs : SR B c.stack s) (hL : s.length ≤ L) (hfr : FR (B + 1) ⟨it, sub⟩ fr) :
    OutR (B + 1) (pushFrame ωT L c it sub) (push L fr s) := by
  have hlen := SR_length hs
  simp only [pushFrame, push, hlen]
  by_cases h : s.length = L
  · have : s.length ≥ L := by omega
    simp only [h, if_true, ge_iff_le, Nat.le_refl, OutR]
    exact ⟨trivial, hc.fl⟩
  · have : ¬ s.length ≥ L := by omega
    simp only [h, if_false, this, alloc_T, if_true, OutR]
    exact ⟨⟨hc.cf, hc.se, hc.fl, hc.rt⟩, hfr, SR_mono (by omega) hs⟩


theorem grow_bounds (cap n : Nat) (h1 : n = cap) : n + 1 ≤ grow cap ∧ grow cap ≤ 2 * (n + 1) := by
  unfold grow growth; split <;> omega

theorem string_sim (B : Nat) (hB : B < 2 ^ 56) (c : Ctx) (s : List Abs.Frame) (isText : Bool) (data : List UInt8)
    (hc : Clean c) (hs : SR B c.stack s) :
    OutR (B + 1) (stringCb ωT c isText data)
      (match s, isText with
       | .bstr cs :: rest, false => .cont (.bstr (cs ++ [data]) :: rest)
       | .tstr cs :: rest, true => .cont (.tstr (cs ++ [data]) :: rest)
       | _, true => deliver (.text data) s
       | _, false => deliver (.bytes data) s) := by
  have hlen := SR_length hs
  obtain ⟨stack, root, cf, se, reqs, fault⟩ := c
  obtain ⟨hcf, hse, hfl, hrt⟩ := hc
  simp only at hcf hse hfl hrt hs hlen
  subst hcf hse hfl hrt
  simp only [stringCb, alloc_T, Bool.not_true, Bool.false_eq_true, if_false]
  -- the generic fall-through: append
  have fall : ∀ (x : Item), OutR (B + 1)
      (append ωT (stack.length + 1) x { stack := stack, root := none, creationFailed := false, syntaxError := false, reqs := reqs + 1 + 1, fault := false })
      (deliver x s) :=
    fun x => append_sim B hB s x _ _ ⟨rfl, rfl, rfl, rfl⟩ hs (by simp [hlen])
  cases stack with
  | nil =>
    cases s with
    | cons a as => cases hs
    | nil => cases isText <;> simpa [fuelOf] using fall _
  | cons top rest =>
    cases s with
    | nil => cases hs
    | cons a as =>
      obtain ⟨hfr, hrest⟩ := hs
      obtain ⟨it, sub⟩ := top
      have hrest' : SR (B + 1) rest as := SR_mono (by omega) hrest
      cases it <;> cases a <;> simp only [FR] at hfr <;> (try exact hfr.elim) <;> cases isText
      all_goals first
        | (simpa [fuelOf] using fall _)
        | skip
      · -- byte chunk into an indefinite byte string
        rename_i cap cs cs'
        obtain ⟨rfl, h1, h2, h3⟩ := hfr
        simp only []
        by_cases hg : cs.length = cap
        · simp only [hg, if_true, growAlloc_T _ szPtr cap (by decide) (by omega), OutR]
          have gb := grow_bounds cap cs.length hg
          exact ⟨⟨rfl, rfl, rfl, rfl⟩, by simp only [FR, List.length_append, List.length_singleton]; exact ⟨trivial, by omega, by omega, by omega⟩, hrest'⟩
        · simp only [hg, if_false, OutR]
          exact ⟨⟨rfl, rfl, rfl, rfl⟩, by simp only [FR, List.length_append, List.length_singleton]; exact ⟨trivial, by omega, by omega, by omega⟩, hrest'⟩
      · rename_i cap cs cs'
        obtain ⟨rfl, h1, h2, h3⟩ := hfr
        simp only []
        by_cases hg : cs.length = cap
        · simp only [hg, if_true, growAlloc_T _ szPtr cap (by decide) (by omega), OutR]
          have gb := grow_bounds cap cs.length hg
          exact ⟨⟨rfl, rfl, rfl, rfl⟩, by simp only [FR, List.length_append, List.length_singleton]; exact ⟨trivial, by omega, by omega, by omega⟩, hrest'⟩
        · simp only [hg, if_false, OutR]
          exact ⟨⟨rfl, rfl, rfl, rfl⟩, by simp only [FR, List.length_append, List.length_singleton]; exact ⟨trivial, by omega, by omega, by omega⟩, hrest'⟩

theorem u64_pos_iff (n : UInt64) : (n > 0) ↔ n.toNat ≠ 0 := by
  constructor
  · intro h; have := UInt64.lt_iff_toNat_lt.mp h; simp at this; omega
  · intro h; apply UInt64.lt_iff_toNat_lt.mpr; simp; omega

theorem ofNat_toNat (n : UInt64) : UInt64.ofNat n.toNat = n := by simp

theorem arrayStart_sim (B : Nat) (hB : B < 2 ^ 56) (L : Nat) (c : Ctx) (s : List Abs.Frame) (n : UInt64)
    (hc : Clean c) (hs : SR B c.stack s) (hL : s.length ≤ L) :
    OutR (B + 1) (arrayStart ωT L c n)
      (if !okGuard (.array n.toNat) then .mem
       else if n.toNat = 0 then deliver (.array []) s else push L (.arr n.toNat []) s) := by
  simp only [arrayStart, alloc_T, Bool.not_true, Bool.false_eq_true, if_false, Ctx.allocMultiple, okGuard, szPtr, ofNat_toNat]
  have e8 : UInt64.ofNat 8 = (8 : UInt64) := rfl
  rw [e8]
  by_cases hg : Gen._cbor_safe_to_multiply 8 n = true
  · simp only [hg, if_true, Bool.not_true, Bool.false_eq_true, if_false]
    by_cases hn : n.toNat = 0
    · have : ¬ (n > 0) := fun h => (u64_pos_iff n).mp h hn
      simp only [this, if_false, hn, if_true, fuelOf]
      exact append_sim B hB s _ _ _ (clean_reqs (clean_reqs hc _) _) hs (by simp [SR_length hs])
    · have : n > 0 := (u64_pos_iff n).mpr hn
      simp only [this, if_true, hn, if_false]
      exact push_sim B L _ s _ _ _ (clean_reqs (clean_reqs hc _) _) hs hL (by simp only [FR]; exact ⟨trivial, trivial, by omega, by simp⟩)
  · have hg' : Gen._cbor_safe_to_multiply 8 n = false := by simpa using hg
    simp only [hg', Bool.false_eq_true, if_false, Bool.not_false, if_true, OutR]
    exact ⟨trivial, hc.fl⟩

theorem mapStart_sim (B : Nat) (hB : B < 2 ^ 56) (L : Nat) (c : Ctx) (s : List Abs.Frame) (n : UInt64)
    (hc : Clean c) (hs : SR B c.stack s) (hL : s.length ≤ L) :
    OutR (B + 1) (mapStart ωT L c n)
      (if !okGuard (.map n.toNat) then .mem
       else if n.toNat = 0 then deliver (.map []) s else push L (.map (2 * n.toNat) [] none) s) := by
  simp only [mapStart, alloc_T, Bool.not_true, Bool.false_eq_true, if_false, Ctx.allocMultiple, okGuard, szPair, ofNat_toNat]
  have e16 : UInt64.ofNat 16 = (16 : UInt64) := rfl
  rw [e16]
  by_cases hg : Gen._cbor_safe_to_multiply 16 n = true
  · simp only [hg, if_true, Bool.not_true, Bool.false_eq_true, if_false]
    have hbound := Props.C20.C20_mul_sound 16 n hg
    have h16 : (16 : UInt64).toNat = 16 := rfl
    rw [h16] at hbound
    by_cases hn : n.toNat = 0
    · have : ¬ (n > 0) := fun h => (u64_pos_iff n).mp h hn
      simp only [this, if_false, hn, if_true, fuelOf]
      exact append_sim B hB s _ _ _ (clean_reqs (clean_reqs hc _) _) hs (by simp [SR_length hs])
    · have : n > 0 := (u64_pos_iff n).mpr hn
      simp only [this, if_true, hn, if_false]
      have hm : (n * 2).toNat = 2 * n.toNat := by rw [UInt64.toNat_mul]; simp; omega
      exact push_sim B L _ s _ _ _ (clean_reqs (clean_reqs hc _) _) hs hL
        (by simp only [FR]; exact ⟨trivial, trivial, hm, by omega, by simp <;> omega, by simp, by omega⟩)
  · have hg' : Gen._cbor_safe_to_multiply 16 n = false := by simpa using hg
    simp only [hg', Bool.false_eq_true, if_false, Bool.not_false, if_true, OutR]
    exact ⟨trivial, hc.fl⟩

/-- what a break does to the abstract stack -/
def brkOut (s : List Abs.Frame) : Abs.Out :=
  match s with
  | .arrI xs :: rest => deliver (.arrayI xs) rest
  | .mapI kvs none :: rest => deliver (.mapI kvs) rest
  | .bstr cs :: rest => deliver (.bytesI cs) rest
  | .tstr cs :: rest => deliver (.textI cs) rest
  | _ => .syn

theorem break_sim (B : Nat) (hB : B < 2 ^ 56) (c : Ctx) (s : List Abs.Frame)
    (hc : Clean c) (hs : SR B c.stack s) :
    OutR (B + 1) (breakCb ωT c) (brkOut s) := by
  unfold brkOut
  obtain ⟨stack, root, cf, se, reqs, fault⟩ := c
  obtain ⟨hcf, hse, hfl, hrt⟩ := hc
  simp only at hcf hse hfl hrt hs
  subst hcf hse hfl hrt
  cases stack with
  | nil =>
    cases s with
    | cons a as => cases hs
    | nil => simp [breakCb, OutR]
  | cons top rest =>
    cases s with
    | nil => cases hs
    | cons a as =>
      obtain ⟨hfr, hrest⟩ := hs
      obtain ⟨it, sub⟩ := top
      have hl := SR_length hrest
      have app : ∀ x, OutR (B + 1) (append ωT (rest.length + 1 + 1) x { stack := rest, root := none, creationFailed := false, syntaxError := false, reqs := reqs, fault := false }) (deliver x as) :=
        fun x => append_sim B hB as x _ _ ⟨rfl, rfl, rfl, rfl⟩ hrest (by omega)
      cases it <;> cases a <;> simp only [FR] at hfr <;> (try exact hfr.elim)
      · simp [breakCb, OutR]
      · obtain ⟨rfl, _⟩ := hfr
        simpa [breakCb, fuelOf, PItem.finish] using app _
      · simp [breakCb, OutR]
      · rename_i alloc kvs key kvs' key'
        obtain ⟨rfl, rfl, h01, hkey, _⟩ := hfr
        cases key with
        | none =>
          have hs0 : sub = 0 := by
            rcases h01 with h | h
            · exact h
            · have := hkey.mpr h; simp at this
          subst hs0
          simpa [breakCb, fuelOf, PItem.finish] using app _
        | some k =>
          have hs1 : sub = 1 := hkey.mp rfl
          subst hs1
          simp [breakCb, OutR]
      · simp [breakCb, OutR]
      · obtain ⟨rfl, _⟩ := hfr
        simpa [breakCb, fuelOf, PItem.finish] using app _
      · obtain ⟨rfl, _⟩ := hfr
        simpa [breakCb, fuelOf, PItem.finish] using app _
abbrev getOf (src : Array UInt8) : Nat → UInt8 := fun i => src.getD i 0

theorem bytesOf_slice (src : Array UInt8) (o n : Nat) : bytesOf src o n = slice (getOf src) o n := rfl

theorem callback_sim (B : Nat) (hB : B < 2 ^ 56) (L : Nat) (src : Array UInt8) (read : Nat) (c : Ctx) (s : List Abs.Frame)
    (e : Gen.Event) (tok : Tok) (hc : Clean c) (hs : SR B c.stack s) (hL : s.length ≤ L)
    (hm : tokMatch read e tok = true) (hp : ∀ o pl, tok.payload = some (o, pl) → 1 ≤ o ∧ read + o + pl ≤ src.size) :
    OutR (B + 1) (callback ωT L src c e) (stepTok L okGuard (getOf src) read tok s) := by
  cases e
  case float2 f =>
    cases tok <;> simp [tokMatch] at hm
    rename_i h
    obtain ⟨hf, hh⟩ := hm
    have : f.toNat = halfToSingle h := by rw [hf]; exact decodeHalf_spec h hh
    simp only [callback, stepTok, okGuard, Bool.not_true, Bool.false_eq_true, if_false, this]
    exact scalar_sim B hB c s 4 _ hc hs
  all_goals (
    simp only [tokMatch, toTok, beq_iff_eq] at hm
    subst hm)
  case byte_string o l =>
    have hpp := hp (o - read) l.toNat (by simp [Tok.payload])
    have ho : read + (o - read) = o := by omega
    have hin : o + l.toNat ≤ src.size := by omega
    simp only [callback, stepTok, okGuard, Bool.not_true, Bool.false_eq_true, if_false, ho, bytesOf_slice, hin, if_true]
    have := string_sim B hB c s false (slice (getOf src) o l.toNat) hc hs
    cases s with
    | nil => simpa using this
    | cons a as => cases a <;> simpa using this
  case string o l =>
    have hpp := hp (o - read) l.toNat (by simp [Tok.payload])
    have ho : read + (o - read) = o := by omega
    have hin : o + l.toNat ≤ src.size := by omega
    simp only [callback, stepTok, okGuard, Bool.not_true, Bool.false_eq_true, if_false, ho, bytesOf_slice, hin, if_true]
    have := string_sim B hB c s true (slice (getOf src) o l.toNat) hc hs
    cases s with
    | nil => simpa using this
    | cons a as => cases a <;> simpa using this
  case array_start n =>
    simp only [callback, stepTok]
    exact arrayStart_sim B hB L c s n hc hs hL
  case map_start n =>
    simp only [callback, stepTok]
    exact mapStart_sim B hB L c s n hc hs hL
  case indef_break =>
    simp only [callback, stepTok, okGuard, Bool.not_true, Bool.false_eq_true, if_false]
    exact break_sim B hB c s hc hs
  case byte_string_start =>
    simp only [callback, stepTok, okGuard, Bool.not_true, Bool.false_eq_true, if_false, indefString, alloc_T, if_true]
    exact push_sim B L _ s _ _ _ (clean_reqs (clean_reqs hc _) _) hs hL (by simp [FR])
  case string_start =>
    simp only [callback, stepTok, okGuard, Bool.not_true, Bool.false_eq_true, if_false, indefString, alloc_T, if_true]
    exact push_sim B L _ s _ _ _ (clean_reqs (clean_reqs hc _) _) hs hL (by simp [FR])
  case indef_array_start =>
    simp only [callback, stepTok, okGuard, Bool.not_true, Bool.false_eq_true, if_false, indefContainer, alloc_T, if_true]
    exact push_sim B L _ s _ _ _ (clean_reqs hc _) hs hL (by simp [FR])
  case indef_map_start =>
    simp only [callback, stepTok, okGuard, Bool.not_true, Bool.false_eq_true, if_false, indefContainer, alloc_T, if_true]
    exact push_sim B L _ s _ _ _ (clean_reqs hc _) hs hL (by simp [FR])
  case tag v =>
    simp only [callback, stepTok, okGuard, Bool.not_true, Bool.false_eq_true, if_false, tagCb, alloc_T, if_true]
    exact push_sim B L _ s _ _ _ (clean_reqs hc _) hs hL (by simp [FR])
  all_goals (
    simp only [callback, stepTok, okGuard, Bool.not_true, Bool.false_eq_true, if_false]
    exact scalar_sim B hB c s _ _ hc hs)
theorem deliver_cont_ne : ∀ (s : List Abs.Frame) (x : Item) (s' : List Abs.Frame), deliver x s = .cont s' → s' ≠ [] := by
  intro s
  induction s with
  | nil => intro x s' h; simp [deliver] at h
  | cons a as ih =>
    intro x s' h
    cases a with
    | arr rem xs => simp only [deliver] at h; split at h; exact ih _ _ h; cases h; simp
    | arrI xs => simp only [deliver] at h; cases h; simp
    | map rem kvs key =>
      cases key with
      | none => simp only [deliver] at h; cases h; simp
      | some k => simp only [deliver] at h; split at h; exact ih _ _ h; cases h; simp
    | mapI kvs key => cases key <;> (simp only [deliver] at h; cases h; simp)
    | tag n => simp only [deliver] at h; exact ih _ _ h
    | bstr cs => simp [deliver] at h
    | tstr cs => simp [deliver] at h

theorem deliver_len : ∀ (s : List Abs.Frame) (x : Item) (s' : List Abs.Frame), deliver x s = .cont s' → s'.length ≤ s.length := by
  intro s
  induction s with
  | nil => intro x s' h; simp [deliver] at h
  | cons a as ih =>
    intro x s' h
    cases a with
    | arr rem xs =>
      simp only [deliver] at h; split at h
      · have := ih _ _ h; simp; omega
      · cases h; simp
    | arrI xs => simp only [deliver] at h; cases h; simp
    | map rem kvs key =>
      cases key with
      | none => simp only [deliver] at h; cases h; simp
      | some k =>
        simp only [deliver] at h; split at h
        · have := ih _ _ h; simp; omega
        · cases h; simp
    | mapI kvs key => cases key <;> (simp only [deliver] at h; cases h; simp)
    | tag n => simp only [deliver] at h; have := ih _ _ h; simp; omega
    | bstr cs => simp [deliver] at h
    | tstr cs => simp [deliver] at h

theorem stepTok_len (L : Nat) (okA : AllocOk) (get : Nat → UInt8) (p : Nat) (tok : Tok) (s s' : List Abs.Frame)
    (h : stepTok L okA get p tok s = .cont s') (hL : s.length ≤ L) : s'.length ≤ L := by
  unfold stepTok at h
  split at h
  · cases h
  · have dl : ∀ x, deliver x s = .cont s' → s'.length ≤ L := fun x hx => by have := deliver_len s x s' hx; omega
    have pu : ∀ f, push L f s = .cont s' → s'.length ≤ L := by
      intro f hf; unfold push at hf; split at hf; cases hf; cases hf; simp; omega
    cases tok <;> simp only at h
    all_goals first
      | exact dl _ h
      | exact pu _ h
      | (split at h <;> first | exact dl _ h | exact pu _ h | (cases h; simpa using hL))
      | skip
    all_goals (split at h <;> first | (have := deliver_len _ _ _ h; simp at hL; omega) | cases h)

theorem stepTok_cont_ne (L : Nat) (okA : AllocOk) (get : Nat → UInt8) (p : Nat) (tok : Tok) (s s' : List Abs.Frame)
    (h : stepTok L okA get p tok s = .cont s') : s' ≠ [] := by
  unfold stepTok at h
  split at h
  · cases h
  · have dl := deliver_cont_ne
    have pu : ∀ f, push L f s = .cont s' → s' ≠ [] := by
      intro f hf; unfold push at hf; split at hf; cases hf; cases hf; simp
    cases tok <;> simp only at h
    all_goals first
      | exact dl _ _ _ h
      | exact pu _ h
      | (split at h <;> first | exact dl _ _ _ h | exact pu _ h | (cases h; simp))
      | skip
    all_goals (split at h <;> first | exact dl _ _ _ h | cases h)


def codeOf : Err → Code
  | .notEnough => .notEnough | .malformed => .malformed | .syntax => .syntax | .mem => .mem

/-- outcome of the model's load loop against an outcome of the reference decoder / abstract machine -/
def LoadRel (o : LoadOut) : Res Item → Prop
  | .ok x q => o.item = some x ∧ o.result = { code := .none, position := 0, read := q } ∧ o.fault = false
  | .err e p => o.item = none ∧ o.result = { code := codeOf e, position := p, read := p } ∧ o.fault = false

theorem SR_nil_iff {B : Nat} {ms : List Model.Frame} {as : List Abs.Frame} (h : SR B ms as) : ms = [] ↔ as = [] := by
  cases ms <;> cases as <;> simp_all [SR]

theorem loop_sim (src : Array UInt8) (hsz : src.size < 2 ^ 56) (L : Nat) :
    ∀ (fuel F : Nat) (c : Ctx) (s : List Abs.Frame) (read B : Nat), Clean c → SR B c.stack s → s.length ≤ L →
      B ≤ read → fuel > src.size - read → F > src.size - read →
      LoadRel (loadLoop ωT L src fuel c read) (run L okGuard (getOf src) src.size F s read) := by
  intro fuel
  induction fuel with
  | zero => intro F c s read B _ _ _ _ hf; omega
  | succ fuel ih =>
    intro F c s read B hc hs hL hB hf hF
    obtain ⟨F, rfl⟩ : ∃ k, F = k + 1 := ⟨F - 1, by omega⟩
    rw [run_succ]
    simp only [loadLoop]
    by_cases hgt : src.size > read
    · simp only [hgt, if_true]
      have hn : (UInt64.ofNat (src.size - read)).toNat = src.size - read := ofNat_toNat_small _ (by omega)
      have hsd := sd_spec src read (UInt64.ofNat (src.size - read)) (by rw [hn]; omega)
      rw [hn] at hsd
      have hhead : headAt (getOf src) src.size read = decodeHead (Spec.getA src read) (src.size - read) := rfl
      rw [hhead]
      generalize Gen.cbor_stream_decode src read (UInt64.ofNat (src.size - read)) = d at hsd ⊢
      cases hd : decodeHead (Spec.getA src read) (src.size - read) with
      | nedata n =>
        rw [hd] at hsd
        obtain ⟨h1, h2, h3, _⟩ := hsd
        have n10 : ¬ ((1 : UInt32) = 0) := by decide
        simp only [h3, List.foldl_nil, h1, Gen.CBOR_DECODER_FINISHED, Gen.CBOR_DECODER_NEDATA, LoadRel, codeOf, n10, if_false, if_true]
        exact ⟨trivial, trivial, hc.fl⟩
      | error =>
        rw [hd] at hsd
        obtain ⟨h1, h2, _, h4⟩ := hsd
        have n20 : ¬ ((2 : UInt32) = 0) := by decide
        have n21 : ¬ ((2 : UInt32) = 1) := by decide
        simp only [h4, List.foldl_nil, h1, Gen.CBOR_DECODER_FINISHED, Gen.CBOR_DECODER_NEDATA, LoadRel, codeOf, n20, n21, if_false]
        exact ⟨trivial, trivial, hc.fl⟩
      | ok tok l =>
        rw [hd] at hsd
        obtain ⟨h1, h2, _, e, h4, h5⟩ := hsd
        have hok := decodeHead_ok hd
        have hcb := callback_sim B (by omega) L src read c s e tok hc hs hL h5 (fun o pl hpl => by have := hok.2.2 o pl hpl; omega)
        simp only [h4, List.foldl_cons, List.foldl_nil, h1, Gen.CBOR_DECODER_FINISHED, if_true, h2]
        generalize callback ωT L src c e = c' at hcb ⊢
        cases hst : stepTok L okGuard (getOf src) read tok s with
        | cont s' =>
          rw [hst] at hcb
          obtain ⟨hc', hs'⟩ := hcb
          have hne := stepTok_cont_ne _ _ _ _ _ _ _ hst
          have hlen' : c'.stack.length > 0 := by
            cases hcs : c'.stack with
            | nil => exact absurd ((SR_nil_iff hs').mp hcs) hne
            | cons a b => simp
          simp only [hc'.cf, hc'.se, Bool.false_eq_true, if_false, hlen', if_true, resume]
          have hL' : s'.length ≤ L := stepTok_len _ _ _ _ _ _ _ hst hL
          exact ih F c' s' (read + l) (B + 1) hc' hs' hL' (by omega) (by omega) (by omega)
        | done x =>
          rw [hst] at hcb
          obtain ⟨h1', h2', h3', h4', h5'⟩ := hcb
          simp only [h3', h4', Bool.false_eq_true, if_false, h1', List.length_nil, Nat.lt_irrefl, gt_iff_lt, resume, LoadRel, h2', h5']
          exact ⟨trivial, trivial, by simp⟩
        | syn =>
          rw [hst] at hcb
          obtain ⟨h1', h2', h3'⟩ := hcb
          simp only [h1', h2', Bool.false_eq_true, if_false, if_true, resume, LoadRel, codeOf]
          exact ⟨trivial, trivial, h3'⟩
        | mem =>
          rw [hst] at hcb
          obtain ⟨h1', h2'⟩ := hcb
          simp only [h1', if_true, resume, LoadRel, codeOf]
          exact ⟨trivial, trivial, h2'⟩
    · simp only [hgt, if_false]
      have : headAt (getOf src) src.size read = .nedata 1 := by
        unfold headAt decodeHead
        have : src.size - read = 0 := by omega
        simp [this]
      rw [this]
      simp only [LoadRel, codeOf]
      exact ⟨trivial, trivial, hc.fl⟩

/-- **`Model.load` = reference decoder.**  With an allocator that refuses nothing, for every buffer (shorter
than 2^56 bytes), every nesting limit `L` and whatever the caller left in the result struct: the model of
`cbor_load` returns exactly the item, byte count, error code and position that the RFC 8949 reference decoder
(`Spec.decode`, lazy reporting inside chunked strings, libcbor's size_t overflow guards as `okGuard`) assigns
to the buffer — and never reaches an assertion or an impossible state. -/
theorem load_eq (src : Array UInt8) (hsz : src.size < 2 ^ 56) (L : Nat) (r0 : LoadResult) :
    let o := Model.load ωT L r0 src
    match Spec.decode true L okGuard (getOf src) src.size with
    | .ok x n => o.item = some x ∧ o.result = { code := .none, position := 0, read := n } ∧ o.fault = false
    | .nodata => o.item = none ∧ o.result = { code := .noData, position := 0, read := 0 } ∧ o.fault = false
    | .fail e p => o.item = none ∧ o.result = { code := codeOf e, position := p, read := p } ∧ o.fault = false := by
  intro o
  rw [← Lemmas.Fund.abs_decode_eq (L := L) (okA := okGuard) (get := getOf src) (len := src.size) rfl]
  unfold Abs.decode
  by_cases h0 : src.size = 0
  · simp only [h0, if_true]
    simp [o, Model.load, h0]
  · simp only [h0, if_false]
    have h := loop_sim src hsz L (src.size + 1) (src.size + 1) {} [] 0 0 ⟨rfl, rfl, rfl, rfl⟩ trivial (Nat.zero_le _)
      (Nat.le_refl _) (by omega) (by omega)
    have ho : o = loadLoop ωT L src (src.size + 1) {} 0 := by simp [o, Model.load, h0]
    rw [ho]
    cases hr : run L okGuard (getOf src) src.size (src.size + 1) [] 0 with
    | ok x q => rw [hr] at h; exact h
    | err e p => rw [hr] at h; exact h

end Lemmas.Refine

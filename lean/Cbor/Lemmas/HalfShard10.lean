import Cbor.Lemmas.Half
/-! shard 10 of the exhaustive binary16 table check (patterns 10240 .. 11263), kernel-evaluated -/
namespace Lemmas
theorem half_shard_10 : halfShardOk 10 = true := by decide +kernel
end Lemmas

import Cbor.Gen.Streaming
import Cbor.Lemmas.Loaders
import Cbor.Spec.Head
import Cbor.Lemmas.Tactics
/-!
Bridge between the generated streaming decoder and the RFC head specification.
-/
set_option linter.unusedSimpArgs false
namespace Lemmas
open Gen

/-- events of the generated decoder read as specification tokens (payload offsets relative to `off`) -/
def toTok (off : Nat) : Event → Spec.Tok
  | .uint8 v => .uint .w8 v.toNat
  | .uint16 v => .uint .w16 v.toNat
  | .uint32 v => .uint .w32 v.toNat
  | .uint64 v => .uint .w64 v.toNat
  | .negint8 v => .negint .w8 v.toNat
  | .negint16 v => .negint .w16 v.toNat
  | .negint32 v => .negint .w32 v.toNat
  | .negint64 v => .negint .w64 v.toNat
  | .byte_string o l => .bytes (o - off) l.toNat
  | .byte_string_start => .bytesStart
  | .string o l => .text (o - off) l.toNat
  | .string_start => .textStart
  | .array_start n => .array n.toNat
  | .indef_array_start => .arrayStart
  | .map_start n => .map n.toNat
  | .indef_map_start => .mapStart
  | .tag n => .tag n.toNat
  | .float2 f => .half f.toNat      -- NB: carries the *decoded* binary32 bits; see `SdRel`
  | .float4 f => .single f.toNat
  | .float8 f => .double f.toNat
  | .undefined => .undefined
  | .null => .null
  | .boolean b => .bool b
  | .indef_break => .brk

/-- `claim_bytes` in terms of natural numbers -/
theorem claim_bytes_eq (req n : UInt64) (r : S_cbor_decoder_result) (h : r.read.toNat ≤ n.toNat) :
    claim_bytes req n r =
      if r.read.toNat + req.toNat ≤ n.toNat then
        (true, { read := r.read + req, status := r.status, required := 0 })
      else
        (false, { read := 0, status := 1,
                  required := if req.toNat + r.read.toNat < 2 ^ 64 then req + r.read else 18446744073709551615 }) := by
  -- independent of the shape of the generated `claim_bytes` (guard polarity, hoisted locals, ternary vs if/else):
  -- split every `if` on both sides, compare the results field by field, push every guard to `Nat`
  have hrl := r.read.toNat_lt
  have hql := req.toNat_lt
  have hnl := n.toNat_lt
  unfold claim_bytes
  simp only []
  repeat' split
  all_goals (simp only [Prod.mk.injEq, S_cbor_decoder_result.mk.injEq, true_and, and_true, and_self, Bool.false_eq_true,
    Bool.true_eq_false, reduceCtorEq, false_and, and_false])
  all_goals cnorm
  all_goals (try simp only [UInt64.toNat_sub, UInt64.toNat_add, UInt64.reduceToNat, Nat.reducePow] at *)
  all_goals omega

/-- `claim_bytes` has no side condition of its own -/
theorem claim_ok (a b : UInt64) (c : S_cbor_decoder_result) : claim_bytes.ok a b c = true := by
  unfold claim_bytes.ok
  simp only []
  repeat' split
  all_goals (first | rfl | (cnorm; simp; done))

end Lemmas

namespace Lemmas
open Gen

/-- out-of-contract call (`read > provided`); never reached, kept opaque -/
def claimOOC (req n rd : UInt64) (st : UInt32) (rq : UInt64) : Bool × S_cbor_decoder_result :=
  claim_bytes req n { read := rd, status := st, required := rq }

/-- unconditional form for rewriting -/
theorem claim_bytes_eq' (req n : UInt64) (rd : UInt64) (st : UInt32) (rq : UInt64) :
    claim_bytes req n { read := rd, status := st, required := rq } =
      if rd.toNat ≤ n.toNat then
        (if rd.toNat + req.toNat ≤ n.toNat then
          (true, { read := rd + req, status := st, required := 0 })
        else
          (false, { read := 0, status := 1,
                    required := if req.toNat + rd.toNat < 2 ^ 64 then req + rd else 18446744073709551615 }))
      else claimOOC req n rd st rq := by
  split
  · rename_i h; exact claim_bytes_eq req n _ h
  · rfl

/-- does event `e` (payload offsets absolute, buffer starting at `off`) denote token `t`? -/
def tokMatch (off : Nat) (e : Event) (t : Spec.Tok) : Bool :=
  match e, t with
  | .float2 f, .half h => f == Ext.decodeHalfBits h && h < 65536
  | .float2 _, _ => false
  | e, t => toTok off e == t

/-- exact relation between one call of the generated decoder and the RFC head reader -/
def SdRel (off : Nat) (r : S_cbor_decoder_result × List Event) (s : Spec.HeadRes) : Prop :=
  match s with
  | .ok t l => r.1.status = 0 ∧ r.1.read.toNat = l ∧ r.1.required = 0 ∧ ∃ e, r.2 = [e] ∧ tokMatch off e t = true
  | .nedata need => r.1.status = 1 ∧ r.1.read = 0 ∧ r.2 = [] ∧ r.1.required.toNat = min need (2 ^ 64 - 1)
  | .error => r.1.status = 2 ∧ r.1.read = 0 ∧ r.1.required = 0 ∧ r.2 = []

end Lemmas

namespace Lemmas
open Gen

theorem beNat_1 (src : Array UInt8) (off : Nat) :
    Spec.beNat (Spec.getA src off) 1 1 = (_cbor_load_uint8 src (off + 1)).toNat := by
  simp [Spec.beNat, Spec.getA, _cbor_load_uint8]
theorem beNat_2 (src : Array UInt8) (off : Nat) :
    Spec.beNat (Spec.getA src off) 1 2 = (_cbor_load_uint16 src (off + 1)).toNat := by
  simp [Spec.beNat, Spec.getA, load16_toNat, Nat.add_assoc]
theorem beNat_4 (src : Array UInt8) (off : Nat) :
    Spec.beNat (Spec.getA src off) 1 4 = (_cbor_load_uint32 src (off + 1)).toNat := by
  simp [Spec.beNat, Spec.getA, load32_toNat, Nat.add_assoc]
theorem beNat_8 (src : Array UInt8) (off : Nat) :
    Spec.beNat (Spec.getA src off) 1 8 = (_cbor_load_uint64 src (off + 1)).toNat := by
  simp [Spec.beNat, Spec.getA, load64_toNat, Nat.add_assoc]

theorem ite_fst {α β} (c : Prop) [Decidable c] (a b : α × β) : (if c then a else b).1 = if c then a.1 else b.1 := by split <;> rfl
theorem ite_snd {α β} (c : Prop) [Decidable c] (a b : α × β) : (if c then a else b).2 = if c then a.2 else b.2 := by split <;> rfl
theorem ite_read (c : Prop) [Decidable c] (a b : S_cbor_decoder_result) : (if c then a else b).read = if c then a.read else b.read := by split <;> rfl
theorem ite_status (c : Prop) [Decidable c] (a b : S_cbor_decoder_result) : (if c then a else b).status = if c then a.status else b.status := by split <;> rfl
theorem ite_required (c : Prop) [Decidable c] (a b : S_cbor_decoder_result) : (if c then a else b).required = if c then a.required else b.required := by split <;> rfl

end Lemmas

namespace Lemmas
open Gen
theorem load_half_eq (src : Array UInt8) (o : Nat) :
    Ext._cbor_load_half src o = Ext.decodeHalfBits (_cbor_load_uint16 src o).toNat := by
  simp [Ext._cbor_load_half, load16_toNat]
end Lemmas

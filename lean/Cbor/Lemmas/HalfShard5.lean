import Cbor.Lemmas.Half
/-! shard 5 of the exhaustive binary16 table check (patterns 5120 .. 6143), kernel-evaluated -/
namespace Lemmas
theorem half_shard_5 : halfShardOk 5 = true := by decide +kernel
end Lemmas

import Cbor.Lemmas.CountsOps
/-! Reference-count bookkeeping through `cbor_copy` (with its clean-up paths) and through the tree `cbor_load` lays out. -/
namespace Heap

/-- once the client has broken a rule the flag stays up -/
def Sticky (h h' : H) : Prop := h.fault = true → h'.fault = true

theorem Sticky.refl (h : H) : Sticky h h := id
theorem Sticky.trans {a b c : H} (h1 : Sticky a b) (h2 : Sticky b c) : Sticky a c := fun h => h2 (h1 h)

theorem sticky_put (h : H) (r : Ref) (c : Option Cell) : Sticky h (h.put r c) := id
theorem sticky_bad (h : H) : Sticky h h.bad := fun _ => rfl
theorem sticky_incref (h : H) (x : Ref) : Sticky h (h.incref x) := by
  unfold H.incref; split
  · exact id
  · exact fun _ => rfl
theorem sticky_decref (h : H) (x : Ref) : Sticky h (h.decref x) := decref_fault_mono _ h x
theorem sticky_new (h : H) (n : Node) : Sticky h (h.new n).2 := id

theorem new1_fault (ω : Oracle) (h : H) (n : Node) : (new1 ω h n).2.fault = h.fault := by
  unfold new1; simp only [H.req]
  by_cases h1 : ω h.reqs = true <;> simp [h1, H.new]
theorem new2_fault (ω : Oracle) (h : H) (n : Node) : (new2 ω h n).2.fault = h.fault := by
  unfold new2; simp only [H.req]
  by_cases h1 : ω h.reqs = true <;> by_cases h2 : ω (h.reqs + 1) = true <;> simp [h1, h2, H.new]
theorem newMulti_fault (ω : Oracle) (h : H) (a b : Nat) (n : Node) : (newMulti ω h a b n).2.fault = h.fault := by
  unfold newMulti; simp only [H.req]
  by_cases h1 : ω h.reqs = true <;> by_cases h2 : ω (h.reqs + 1) = true <;> by_cases h3 : mulOk a b = true <;> simp [h1, h2, h3, H.new]
theorem sticky_new1 (ω : Oracle) (h : H) (n : Node) : Sticky h (new1 ω h n).2 := fun hf => by rw [new1_fault]; exact hf
theorem sticky_new2 (ω : Oracle) (h : H) (n : Node) : Sticky h (new2 ω h n).2 := fun hf => by rw [new2_fault]; exact hf
theorem sticky_newMulti (ω : Oracle) (h : H) (a b : Nat) (n : Node) : Sticky h (newMulti ω h a b n).2 := fun hf => by rw [newMulti_fault]; exact hf

theorem sticky_grow (ω : Oracle) (h : H) (a b : Nat) : Sticky h (grow ω h a b).2 := by
  intro hf; rw [(grow_same ω h a b).2]; exact hf

theorem sticky_arrPush (ω : Oracle) (h : H) (a x : Ref) : Sticky h (arrPush ω h a x).2 := by
  unfold arrPush
  cases hg : h.get a with
  | none => exact sticky_bad h
  | some c =>
    obtain ⟨n, rc⟩ := c
    cases n with
    | arr d items alloc =>
      cases d with
      | true => simp only; split; exact id; exact (sticky_put h _ _).trans (sticky_incref _ _)
      | false =>
        simp only
        split
        · have hs := sticky_grow ω h 8 alloc
          cases hgr : grow ω h 8 alloc with
          | mk o h1 =>
            rw [hgr] at hs
            cases o with
            | none => exact hs
            | some na => exact hs.trans ((sticky_put h1 _ _).trans (sticky_incref _ _))
        · exact (sticky_put h _ _).trans (sticky_incref _ _)
    | _ => exact sticky_bad h

theorem sticky_mapAdd (ω : Oracle) (h : H) (m k v : Ref) : Sticky h (mapAdd ω h m k v).2 := by
  unfold mapAdd
  cases hg : h.get m with
  | none => exact sticky_bad h
  | some c =>
    obtain ⟨n, rc⟩ := c
    cases n with
    | map d ps alloc =>
      cases d with
      | true => simp only; split; exact id; exact ((sticky_put h _ _).trans (sticky_incref _ _)).trans (sticky_incref _ _)
      | false =>
        simp only
        split
        · have hs := sticky_grow ω h 16 alloc
          cases hgr : grow ω h 16 alloc with
          | mk o h1 =>
            rw [hgr] at hs
            cases o with
            | none => exact hs
            | some na => exact hs.trans (((sticky_put h1 _ _).trans (sticky_incref _ _)).trans (sticky_incref _ _))
        · exact ((sticky_put h _ _).trans (sticky_incref _ _)).trans (sticky_incref _ _)
    | _ => exact sticky_bad h

theorem sticky_addChunk (ω : Oracle) (h : H) (s c : Ref) : Sticky h (addChunk ω h s c).2 := by
  unfold addChunk
  cases hgs : h.get s with
  | none => exact sticky_bad h
  | some cs =>
    obtain ⟨n, rc⟩ := cs
    cases n with
    | strI t chunks cap =>
      cases hgc : h.get c with
      | none => exact sticky_bad h
      | some cc =>
        obtain ⟨n', rc'⟩ := cc
        cases n' with
        | str t' b =>
          simp only
          split
          · exact sticky_bad h
          · split
            · have hs := sticky_grow ω h 8 cap
              cases hgr : grow ω h 8 cap with
              | mk o h1 =>
                rw [hgr] at hs
                cases o with
                | none => exact hs
                | some na => exact hs.trans ((sticky_put h1 _ _).trans (sticky_incref _ _))
            · exact (sticky_put h _ _).trans (sticky_incref _ _)
        | _ => exact sticky_bad h
    | _ => exact sticky_bad h

theorem sticky_tagSet (h : H) (t x : Ref) : Sticky h (tagSet h t x).2 := by
  unfold tagSet
  cases hg : h.get t with
  | none => exact sticky_bad h
  | some c =>
    obtain ⟨n, rc⟩ := c
    cases n with
    | tag k o => exact (sticky_put h _ _).trans (sticky_incref _ _)
    | _ => exact sticky_bad h

theorem sticky_buildTag (ω : Oracle) (h : H) (n : Nat) (x : Ref) : Sticky h (buildTag ω h n x).2 := by
  unfold buildTag
  have hs := sticky_new1 ω h (.tag n none)
  cases hn : new1 ω h (.tag n none) with
  | mk o h1 =>
    rw [hn] at hs
    cases o with
    | none => exact hs
    | some t => exact hs.trans (sticky_tagSet h1 t x)


theorem sticky_copy_all (ω : Oracle) : ∀ f : Nat,
    (∀ h r, Sticky h (copy ω f h r).2) ∧ (∀ h res xs, Sticky h (copyItems ω f h res xs).2) ∧
    (∀ h res xs, Sticky h (copyChunks ω f h res xs).2) ∧ (∀ h res ps, Sticky h (copyPairs ω f h res ps).2)
  | 0 => ⟨fun h _ => by unfold copy; exact sticky_bad h, fun h _ _ => by unfold copyItems; exact sticky_bad h,
          fun h _ _ => by unfold copyChunks; exact sticky_bad h, fun h _ _ => by unfold copyPairs; exact sticky_bad h⟩
  | f+1 => by
    obtain ⟨ic, ii, ich, ip⟩ := sticky_copy_all ω f
    refine ⟨?_, ?_, ?_, ?_⟩
    · intro h r
      unfold copy
      cases hg : h.get r with
      | none => exact sticky_bad h
      | some c =>
        obtain ⟨n, rc⟩ := c
        cases n with
        | str t b => exact sticky_new2 ω h _
        | strI t chunks cap =>
          simp only
          have hs := sticky_new2 ω h (.strI t [] 0)
          cases hn : new2 ω h (.strI t [] 0) with
          | mk o h1 =>
            rw [hn] at hs
            cases o with
            | none => exact hs
            | some res => exact hs.trans (ich h1 res chunks)
        | arr d items alloc =>
          simp only
          have hs : Sticky h (if d = true then newMulti ω h 8 items.length (.arr true [] items.length) else new1 ω h (.arr false [] 0)).2 := by
            split
            · exact sticky_newMulti ω h _ _ _
            · exact sticky_new1 ω h _
          cases hn : (if d = true then newMulti ω h 8 items.length (.arr true [] items.length) else new1 ω h (.arr false [] 0)) with
          | mk o h1 =>
            rw [hn] at hs
            cases o with
            | none => exact hs
            | some res => exact hs.trans (ii h1 res items)
        | map d pairs alloc =>
          simp only
          have hs : Sticky h (if d = true then newMulti ω h 16 pairs.length (.map true [] pairs.length) else new1 ω h (.map false [] 0)).2 := by
            split
            · exact sticky_newMulti ω h _ _ _
            · exact sticky_new1 ω h _
          cases hn : (if d = true then newMulti ω h 16 pairs.length (.map true [] pairs.length) else new1 ω h (.map false [] 0)) with
          | mk o h1 =>
            rw [hn] at hs
            cases o with
            | none => exact hs
            | some res => exact hs.trans (ip h1 res pairs)
        | tag k o =>
          cases o with
          | none => exact sticky_bad h
          | some x =>
            simp only
            have hs := ic h x
            cases hn : copy ω f h x with
            | mk o1 h1 =>
              rw [hn] at hs
              cases o1 with
              | none => exact hs
              | some xc =>
                simp only
                have hb := sticky_buildTag ω h1 k xc
                cases hbt : buildTag ω h1 k xc with
                | mk o2 h2 =>
                  rw [hbt] at hb
                  cases o2 with
                  | none => exact (hs.trans hb).trans (sticky_decref h2 xc)
                  | some t => exact (hs.trans hb).trans (sticky_decref h2 xc)
        | int a b c => exact sticky_new1 ω h _
        | ctrl v => exact sticky_new1 ω h _
        | half v => exact sticky_new1 ω h _
        | single v => exact sticky_new1 ω h _
        | double v => exact sticky_new1 ω h _
    · intro h res xs
      unfold copyItems
      cases xs with
      | nil => exact Sticky.refl h
      | cons x xs =>
        simp only
        have hs := ic h x
        cases hn : copy ω f h x with
        | mk o h1 =>
          rw [hn] at hs
          cases o with
          | none => exact hs.trans (sticky_decref h1 res)
          | some e =>
            simp only
            have hp := sticky_arrPush ω h1 res e
            cases hpp : arrPush ω h1 res e with
            | mk ok h2 =>
              rw [hpp] at hp
              cases ok with
              | false => exact (hs.trans hp).trans ((sticky_decref h2 e).trans (sticky_decref _ res))
              | true => exact (hs.trans hp).trans ((sticky_decref h2 e).trans (ii _ res xs))
    · intro h res xs
      unfold copyChunks
      cases xs with
      | nil => exact Sticky.refl h
      | cons x xs =>
        simp only
        have hs := ic h x
        cases hn : copy ω f h x with
        | mk o h1 =>
          rw [hn] at hs
          cases o with
          | none => exact hs.trans (sticky_decref h1 res)
          | some e =>
            simp only
            have hp := sticky_addChunk ω h1 res e
            cases hpp : addChunk ω h1 res e with
            | mk ok h2 =>
              rw [hpp] at hp
              cases ok with
              | false => exact (hs.trans hp).trans ((sticky_decref h2 e).trans (sticky_decref _ res))
              | true => exact (hs.trans hp).trans ((sticky_decref h2 e).trans (ich _ res xs))
    · intro h res ps
      unfold copyPairs
      cases ps with
      | nil => exact Sticky.refl h
      | cons kv ps =>
        obtain ⟨k, v⟩ := kv
        simp only
        have hs := ic h k
        cases hn : copy ω f h k with
        | mk o h1 =>
          rw [hn] at hs
          cases o with
          | none => exact hs.trans (sticky_decref h1 res)
          | some kc =>
            simp only
            have hs2 := ic h1 v
            cases hn2 : copy ω f h1 v with
            | mk o2 h2 =>
              rw [hn2] at hs2
              cases o2 with
              | none => exact (hs.trans hs2).trans ((sticky_decref h2 res).trans (sticky_decref _ kc))
              | some vc =>
                simp only
                have hp := sticky_mapAdd ω h2 res kc vc
                cases hpp : mapAdd ω h2 res kc vc with
                | mk ok h3 =>
                  rw [hpp] at hp
                  cases ok with
                  | false => exact ((hs.trans hs2).trans hp).trans (((sticky_decref h3 res).trans (sticky_decref _ kc)).trans (sticky_decref _ vc))
                  | true => exact ((hs.trans hs2).trans hp).trans (((sticky_decref h3 kc).trans (sticky_decref _ vc)).trans (ip _ res ps))


theorem sticky_false {h h' : H} (hs : Sticky h h') (hf : h'.fault = false) : h.fault = false := by
  cases hh : h.fault with
  | false => rfl
  | true => rw [hs hh] at hf; cases hf

theorem bump_comm (own : Ref → Nat) (a b : Ref) (i j : Nat) : bump (bump own a i) b j = bump (bump own b j) a i := by
  funext r; simp only [bump]; omega

theorem buildTag_counts' {ω : Oracle} {h : H} {o : Ref → Nat} {n : Nat} {x : Ref}
    (hc : Counts h o) (hf : (buildTag ω h n x).2.fault = false) :
    match (buildTag ω h n x).1 with
    | some t => Counts (buildTag ω h n x).2 (bump o t 1)
    | none => Counts (buildTag ω h n x).2 o := by
  have h1 := new1_counts (ω := ω) (n := .tag n none) rfl hc
  unfold buildTag at hf ⊢
  by_cases hω : ω h.reqs = true
  · have e : new1 ω h (.tag n none) = (some h.cells.length, ({ h with reqs := h.reqs + 1 } : H).new (.tag n none) |>.2) := by
      simp [new1, H.req, hω, H.new]
    rw [e] at h1 hf ⊢
    simp only at h1 hf ⊢
    have hg : (({ h with reqs := h.reqs + 1 } : H).new (.tag n none)).2.get h.cells.length = some ⟨.tag n none, 1⟩ :=
      get_new_same ({ h with reqs := h.reqs + 1 } : H) (.tag n none)
    have ht := tagSet_counts (t := h.cells.length) (x := x) h1 hf
    have e1 : (tagSet (({ h with reqs := h.reqs + 1 } : H).new (.tag n none)).2 h.cells.length x).1 = none := by
      unfold tagSet; rw [hg]
    rw [e1] at ht
    exact ht
  · have e : new1 ω h (.tag n none) = (none, ({ h with reqs := h.reqs + 1 } : H)) := by
      simp [new1, H.req, hω]
    rw [e] at h1 ⊢
    exact h1

/-- **`cbor_copy` keeps the books**, on success (the client owns the copy's root) and on every failure path
(everything allocated for the partial copy has been released again) -/
theorem copy_counts_all (ω : Oracle) : ∀ f : Nat,
    (∀ h r own, Counts h own → (copy ω f h r).2.fault = false →
      match (copy ω f h r).1 with
      | some r' => Counts (copy ω f h r).2 (bump own r' 1)
      | none => Counts (copy ω f h r).2 own) ∧
    (∀ h res xs own, Counts h (bump own res 1) → (copyItems ω f h res xs).2.fault = false →
      match (copyItems ω f h res xs).1 with
      | some r' => Counts (copyItems ω f h res xs).2 (bump own r' 1)
      | none => Counts (copyItems ω f h res xs).2 own) ∧
    (∀ h res xs own, Counts h (bump own res 1) → (copyChunks ω f h res xs).2.fault = false →
      match (copyChunks ω f h res xs).1 with
      | some r' => Counts (copyChunks ω f h res xs).2 (bump own r' 1)
      | none => Counts (copyChunks ω f h res xs).2 own) ∧
    (∀ h res ps own, Counts h (bump own res 1) → (copyPairs ω f h res ps).2.fault = false →
      match (copyPairs ω f h res ps).1 with
      | some r' => Counts (copyPairs ω f h res ps).2 (bump own r' 1)
      | none => Counts (copyPairs ω f h res ps).2 own)
  | 0 => ⟨fun h _ _ _ hf => by unfold copy at hf; simp [H.bad] at hf, fun h _ _ _ _ hf => by unfold copyItems at hf; simp [H.bad] at hf,
          fun h _ _ _ _ hf => by unfold copyChunks at hf; simp [H.bad] at hf, fun h _ _ _ _ hf => by unfold copyPairs at hf; simp [H.bad] at hf⟩
  | f+1 => by
    obtain ⟨ic, ii, ich, ip⟩ := copy_counts_all ω f
    obtain ⟨sc, si, sch, sp⟩ := sticky_copy_all ω f
    refine ⟨?_, ?_, ?_, ?_⟩
    · intro h r own hc hf
      unfold copy at hf ⊢
      cases hg : h.get r with
      | none => simp [hg, H.bad] at hf
      | some c =>
        obtain ⟨n, rc⟩ := c
        cases n with
        | str t b => exact new2_counts rfl hc
        | strI t chunks cap =>
          simp only [hg] at hf ⊢
          have h1 := new2_counts (ω := ω) (n := .strI t [] 0) rfl hc
          cases hn : new2 ω h (.strI t [] 0) with
          | mk o h1' =>
            rw [hn] at h1 hf
            cases o with
            | none => exact h1
            | some res => exact ich h1' res chunks own h1 hf
        | arr d items alloc =>
          cases d with
          | true =>
            simp only [hg, if_true] at hf ⊢
            have h1 := newMulti_counts (ω := ω) (a := 8) (b := items.length) (n := .arr true [] items.length) rfl hc
            cases hn : newMulti ω h 8 items.length (.arr true [] items.length) with
            | mk o h1' =>
              rw [hn] at h1 hf
              cases o with
              | none => exact h1
              | some res => exact ii h1' res items own h1 hf
          | false =>
            simp only [hg, Bool.false_eq_true, if_false] at hf ⊢
            have h1 := new1_counts (ω := ω) (n := .arr false [] 0) rfl hc
            cases hn : new1 ω h (.arr false [] 0) with
            | mk o h1' =>
              rw [hn] at h1 hf
              cases o with
              | none => exact h1
              | some res => exact ii h1' res items own h1 hf
        | map d pairs alloc =>
          cases d with
          | true =>
            simp only [hg, if_true] at hf ⊢
            have h1 := newMulti_counts (ω := ω) (a := 16) (b := pairs.length) (n := .map true [] pairs.length) rfl hc
            cases hn : newMulti ω h 16 pairs.length (.map true [] pairs.length) with
            | mk o h1' =>
              rw [hn] at h1 hf
              cases o with
              | none => exact h1
              | some res => exact ip h1' res pairs own h1 hf
          | false =>
            simp only [hg, Bool.false_eq_true, if_false] at hf ⊢
            have h1 := new1_counts (ω := ω) (n := .map false [] 0) rfl hc
            cases hn : new1 ω h (.map false [] 0) with
            | mk o h1' =>
              rw [hn] at h1 hf
              cases o with
              | none => exact h1
              | some res => exact ip h1' res pairs own h1 hf
        | tag k o =>
          cases o with
          | none => simp [hg, H.bad] at hf
          | some x =>
            simp only [hg] at hf ⊢
            have hx := ic h x own hc
            cases hn : copy ω f h x with
            | mk o1 h1 =>
              rw [hn] at hx hf
              cases o1 with
              | none => exact hx hf
              | some xc =>
                simp only at hf ⊢
                have hb := sticky_buildTag ω h1 k xc
                cases hbt : buildTag ω h1 k xc with
                | mk o2 h2 =>
                  rw [hbt] at hb hf
                  have hf2 : h2.fault = false := by
                    cases o2 <;> exact sticky_false (sticky_decref h2 xc) hf
                  have hf1 : h1.fault = false := sticky_false hb hf2
                  have hc1 := hx hf1
                  have hbc := buildTag_counts' (ω := ω) (n := k) (x := xc) hc1 (by rw [hbt]; exact hf2)
                  rw [hbt] at hbc
                  cases o2 with
                  | none => exact (H.decref_counts h2 xc own hbc).1
                  | some t =>
                    simp only at hbc ⊢
                    rw [bump_comm] at hbc
                    exact (H.decref_counts h2 xc _ hbc).1
        | int a b c => exact new1_counts rfl hc
        | ctrl v => exact new1_counts rfl hc
        | half v => exact new1_counts rfl hc
        | single v => exact new1_counts rfl hc
        | double v => exact new1_counts rfl hc
    · intro h res xs own hc hf
      unfold copyItems at hf ⊢
      cases xs with
      | nil => exact hc
      | cons x xs =>
        simp only at hf ⊢
        have hx := ic h x (bump own res 1) hc
        have hs := sc h x
        cases hn : copy ω f h x with
        | mk o h1 =>
          rw [hn] at hx hf hs
          cases o with
          | none =>
            simp only at hf ⊢
            have hf1 := sticky_false (sticky_decref h1 res) hf
            exact (H.decref_counts h1 res own (hx hf1)).1
          | some e =>
            simp only at hf ⊢
            have hp := sticky_arrPush ω h1 res e
            cases hpp : arrPush ω h1 res e with
            | mk ok h2 =>
              rw [hpp] at hp hf
              cases ok with
              | false =>
                simp only at hf ⊢
                have hf2 : h2.fault = false := sticky_false ((sticky_decref h2 e).trans (sticky_decref _ res)) hf
                have hc1 := hx (sticky_false hp hf2)
                have hc2 := arrPush_counts (ω := ω) (a := res) (x := e) hc1 (by rw [hpp]; exact hf2)
                rw [hpp] at hc2
                have hc3 := (H.decref_counts h2 e _ hc2).1
                exact (H.decref_counts _ res own hc3).1
              | true =>
                simp only at hf ⊢
                have hf3 : (h2.decref e).fault = false := sticky_false (si _ res xs) hf
                have hf2 : h2.fault = false := sticky_false (sticky_decref h2 e) hf3
                have hc1 := hx (sticky_false hp hf2)
                have hc2 := arrPush_counts (ω := ω) (a := res) (x := e) hc1 (by rw [hpp]; exact hf2)
                rw [hpp] at hc2
                have hc3 := (H.decref_counts h2 e _ hc2).1
                exact ii _ res xs own hc3 hf
    · intro h res xs own hc hf
      unfold copyChunks at hf ⊢
      cases xs with
      | nil => exact hc
      | cons x xs =>
        simp only at hf ⊢
        have hx := ic h x (bump own res 1) hc
        have hs := sc h x
        cases hn : copy ω f h x with
        | mk o h1 =>
          rw [hn] at hx hf hs
          cases o with
          | none =>
            simp only at hf ⊢
            have hf1 := sticky_false (sticky_decref h1 res) hf
            exact (H.decref_counts h1 res own (hx hf1)).1
          | some e =>
            simp only at hf ⊢
            have hp := sticky_addChunk ω h1 res e
            cases hpp : addChunk ω h1 res e with
            | mk ok h2 =>
              rw [hpp] at hp hf
              cases ok with
              | false =>
                simp only at hf ⊢
                have hf2 : h2.fault = false := sticky_false ((sticky_decref h2 e).trans (sticky_decref _ res)) hf
                have hc1 := hx (sticky_false hp hf2)
                have hc2 := addChunk_counts (ω := ω) (s := res) (c := e) hc1 (by rw [hpp]; exact hf2)
                rw [hpp] at hc2
                have hc3 := (H.decref_counts h2 e _ hc2).1
                exact (H.decref_counts _ res own hc3).1
              | true =>
                simp only at hf ⊢
                have hf3 : (h2.decref e).fault = false := sticky_false (sch _ res xs) hf
                have hf2 : h2.fault = false := sticky_false (sticky_decref h2 e) hf3
                have hc1 := hx (sticky_false hp hf2)
                have hc2 := addChunk_counts (ω := ω) (s := res) (c := e) hc1 (by rw [hpp]; exact hf2)
                rw [hpp] at hc2
                have hc3 := (H.decref_counts h2 e _ hc2).1
                exact ich _ res xs own hc3 hf
    · intro h res ps own hc hf
      unfold copyPairs at hf ⊢
      cases ps with
      | nil => exact hc
      | cons kv ps =>
        obtain ⟨k, v⟩ := kv
        simp only at hf ⊢
        have hk := ic h k (bump own res 1) hc
        cases hn : copy ω f h k with
        | mk o h1 =>
          rw [hn] at hk hf
          cases o with
          | none =>
            simp only at hf ⊢
            have hf1 := sticky_false (sticky_decref h1 res) hf
            exact (H.decref_counts h1 res own (hk hf1)).1
          | some kc =>
            simp only at hf ⊢
            have hs2 := sc h1 v
            cases hn2 : copy ω f h1 v with
            | mk o2 h2 =>
              rw [hn2] at hf hs2
              cases o2 with
              | none =>
                simp only at hf ⊢
                have hf2 : h2.fault = false := sticky_false ((sticky_decref h2 res).trans (sticky_decref _ kc)) hf
                have hc1 := hk (sticky_false hs2 hf2)
                have hv := ic h1 v _ hc1 (by rw [hn2]; exact hf2)
                rw [hn2] at hv
                simp only at hv
                rw [bump_comm] at hv
                have hc3 := (H.decref_counts h2 res _ hv).1
                exact (H.decref_counts _ kc own hc3).1
              | some vc =>
                simp only at hf ⊢
                have hp := sticky_mapAdd ω h2 res kc vc
                cases hpp : mapAdd ω h2 res kc vc with
                | mk ok h3 =>
                  rw [hpp] at hp hf
                  cases ok with
                  | false =>
                    simp only at hf ⊢
                    have hf3 : h3.fault = false :=
                      sticky_false (((sticky_decref h3 res).trans (sticky_decref _ kc)).trans (sticky_decref _ vc)) hf
                    have hf2 : h2.fault = false := sticky_false hp hf3
                    have hc1 := hk (sticky_false hs2 hf2)
                    have hv := ic h1 v _ hc1 (by rw [hn2]; exact hf2)
                    rw [hn2] at hv
                    simp only at hv
                    have hc2 := mapAdd_counts (ω := ω) (m := res) (k := kc) (v := vc) hv (by rw [hpp]; exact hf3)
                    rw [hpp] at hc2
                    simp only at hc2
                    -- owned: res, kc, vc (in that nesting); release res, then kc, then vc
                    have e : bump (bump (bump own res 1) kc 1) vc 1 = bump (bump (bump own vc 1) kc 1) res 1 := by
                      funext r; simp only [bump]; omega
                    rw [e] at hc2
                    have d1 := (H.decref_counts h3 res _ hc2).1
                    have d2 := (H.decref_counts _ kc _ d1).1
                    exact (H.decref_counts _ vc own d2).1
                  | true =>
                    simp only at hf ⊢
                    have hf5 : ((h3.decref kc).decref vc).fault = false := sticky_false (sp _ res ps) hf
                    have hf3 : h3.fault = false := sticky_false ((sticky_decref h3 kc).trans (sticky_decref _ vc)) hf5
                    have hf2 : h2.fault = false := sticky_false hp hf3
                    have hc1 := hk (sticky_false hs2 hf2)
                    have hv := ic h1 v _ hc1 (by rw [hn2]; exact hf2)
                    rw [hn2] at hv
                    simp only at hv
                    have hc2 := mapAdd_counts (ω := ω) (m := res) (k := kc) (v := vc) hv (by rw [hpp]; exact hf3)
                    rw [hpp] at hc2
                    simp only at hc2
                    have e : bump (bump (bump own res 1) kc 1) vc 1 = bump (bump (bump own res 1) vc 1) kc 1 := by
                      funext r; simp only [bump]; omega
                    rw [e] at hc2
                    have d1 := (H.decref_counts h3 kc _ hc2).1
                    have d2 := (H.decref_counts _ vc _ d1).1
                    exact ip _ res ps own d2 hf


theorem bumpL_bump (own : Ref → Nat) (r : Ref) (rs : List Ref) : bumpL (bump own r 1) rs = bumpL own (r :: rs) := by
  funext x; simp only [bumpL, bump, List.count_cons, beq_iff_eq]
  by_cases e : r = x
  · subst e; simp; omega
  · have : ¬ x = r := fun h => e h.symm
    simp [e, this]

theorem bumpL_append (own : Ref → Nat) (a b : List Ref) : bumpL (bumpL own a) b = bumpL own (a ++ b) := by
  funext x; simp only [bumpL, List.count_append]; omega

theorem bumpL_perm (own : Ref → Nat) (a b : List Ref) (h : ∀ r, a.count r = b.count r) : bumpL own a = bumpL own b := by
  funext x; simp only [bumpL, h x]

/-- a new item that takes over references the builder owned: its children -/
theorem counts_new_children (h : H) (own : Ref → Nat) (n : Node) (rs : List Ref) (hn : ∀ r, n.children.count r = rs.count r)
    (hc : Counts h (bumpL own rs)) : Counts (h.new n).2 (bump own h.cells.length 1) := by
  intro r
  have hfresh := hc h.cells.length
  rw [get_none_of_ge h _ (Nat.le_refl _)] at hfresh
  simp only [bumpL] at hfresh
  by_cases e : r = h.cells.length
  · subst e
    rw [get_new_same, refs_new]
    simp only [bump, if_true, List.count_append, hn]
    omega
  · rw [get_new_other h n r e, refs_new]
    have := hc r
    simp only [bump, e, if_false, Nat.add_zero, List.count_append, hn]
    simp only [bumpL] at this
    cases hg : h.get r with
    | none => rw [hg] at this; simp only; omega
    | some c => rw [hg] at this; simp only; omega

theorem buildChunks_counts (t : Bool) : ∀ (cs : List (List UInt8)) (h : H) (own : Ref → Nat), Counts h own →
    Counts (buildChunks t cs h).2 (bumpL own (buildChunks t cs h).1)
  | [], h, own, hc => by simpa [buildChunks, bumpL_nil] using hc
  | c :: cs, h, own, hc => by
    simp only [buildChunks]
    have h1 := counts_new h own (.str t c) rfl hc
    have h2 := buildChunks_counts t cs (h.new (.str t c)).2 _ h1
    rw [bumpL_bump] at h2
    exact h2

theorem children_pairs_count (ps : List (Ref × Ref)) (r : Ref) :
    (Node.map d ps al).children.count r = (ps.flatMap fun kv => [kv.1, kv.2]).count r := rfl

mutual
/-- the tree `cbor_load` hands out: every node counted once by its parent, the root owned by the caller -/
theorem build_counts : ∀ (x : Spec.Item) (h : H) (own : Ref → Nat), Counts h own → Counts (build x h).2 (bump own (build x h).1 1)
  | .uint w v, h, own, hc => by simpa [build, H.new] using counts_new h own (.int false w v) rfl hc
  | .negint w v, h, own, hc => by simpa [build, H.new] using counts_new h own (.int true w v) rfl hc
  | .bytes b, h, own, hc => by simpa [build, H.new] using counts_new h own (.str false b) rfl hc
  | .text b, h, own, hc => by simpa [build, H.new] using counts_new h own (.str true b) rfl hc
  | .simple v, h, own, hc => by simpa [build, H.new] using counts_new h own (.ctrl v) rfl hc
  | .half v, h, own, hc => by simpa [build, H.new] using counts_new h own (.half v) rfl hc
  | .single v, h, own, hc => by simpa [build, H.new] using counts_new h own (.single v) rfl hc
  | .double v, h, own, hc => by simpa [build, H.new] using counts_new h own (.double v) rfl hc
  | .bytesI cs, h, own, hc => by
    simp only [build]
    exact counts_new_children _ own _ _ (fun _ => rfl) (buildChunks_counts false cs h own hc)
  | .textI cs, h, own, hc => by
    simp only [build]
    exact counts_new_children _ own _ _ (fun _ => rfl) (buildChunks_counts true cs h own hc)
  | .array xs, h, own, hc => by
    simp only [build]
    exact counts_new_children _ own _ _ (fun _ => rfl) (buildList_counts xs h own hc)
  | .arrayI xs, h, own, hc => by
    simp only [build]
    exact counts_new_children _ own _ _ (fun _ => rfl) (buildList_counts xs h own hc)
  | .map ps, h, own, hc => by
    simp only [build]
    exact counts_new_children _ own _ _ (fun _ => rfl) (buildPairs_counts ps h own hc)
  | .mapI ps, h, own, hc => by
    simp only [build]
    exact counts_new_children _ own _ _ (fun _ => rfl) (buildPairs_counts ps h own hc)
  | .tag n x, h, own, hc => by
    simp only [build]
    have h1 := build_counts x h own hc
    have e : bump own (build x h).1 1 = bumpL own [(build x h).1] := by rw [bumpL_cons, bumpL_nil]
    rw [e] at h1
    exact counts_new_children _ own _ _ (fun _ => rfl) h1
theorem buildList_counts : ∀ (xs : List Spec.Item) (h : H) (own : Ref → Nat), Counts h own →
    Counts (buildList xs h).2 (bumpL own (buildList xs h).1)
  | [], h, own, hc => by simpa [buildList, bumpL_nil] using hc
  | x :: xs, h, own, hc => by
    simp only [buildList]
    have h1 := build_counts x h own hc
    have h2 := buildList_counts xs (build x h).2 _ h1
    rw [bumpL_bump] at h2
    exact h2
theorem buildPairs_counts : ∀ (ps : List (Spec.Item × Spec.Item)) (h : H) (own : Ref → Nat), Counts h own →
    Counts (buildPairs ps h).2 (bumpL own ((buildPairs ps h).1.flatMap fun kv => [kv.1, kv.2]))
  | [], h, own, hc => by simpa [buildPairs, bumpL_nil] using hc
  | (k, v) :: ps, h, own, hc => by
    simp only [buildPairs]
    have h1 := build_counts k h own hc
    have h2 := build_counts v (build k h).2 _ h1
    have h3 := buildPairs_counts ps (build v (build k h).2).2 _ h2
    rw [bumpL_bump, bumpL_bump] at h3
    simp only [List.flatMap_cons]
    refine (bumpL_perm own _ _ ?_) ▸ h3
    intro r
    simp only [List.count_cons, List.count_append, List.count_nil, beq_iff_eq]
    omega
end

/-- `cbor_load` at heap level keeps the books: on success the caller owns the root of a freshly laid out tree, on failure nothing changed -/
theorem load_counts (ω : Oracle) (L : Nat) (h : H) (src : Array UInt8) (own : Ref → Nat) (hc : Counts h own) :
    match (h.load ω L src).1 with
    | some r => Counts (h.load ω L src).2.2 (bump own r 1)
    | none => Counts (h.load ω L src).2.2 own := by
  unfold H.load
  simp only
  cases hi : (Model.load (fun i x => ω (h.reqs + i)) L { code := Model.Code.none, position := 0, read := 0 } src).item with
  | none => exact counts_congr hc rfl
  | some x =>
    simp only
    exact build_counts x _ own (counts_congr hc rfl)

end Heap

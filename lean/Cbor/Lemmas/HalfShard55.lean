import Cbor.Lemmas.Half
/-! shard 55 of the exhaustive binary16 table check (patterns 56320 .. 57343), kernel-evaluated -/
namespace Lemmas
theorem half_shard_55 : halfShardOk 55 = true := by decide +kernel
end Lemmas

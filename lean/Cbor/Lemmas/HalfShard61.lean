import Cbor.Lemmas.Half
/-! shard 61 of the exhaustive binary16 table check (patterns 62464 .. 63487), kernel-evaluated -/
namespace Lemmas
theorem half_shard_61 : halfShardOk 61 = true := by decide +kernel
end Lemmas

import Cbor.Lemmas.Half
/-! shard 21 of the exhaustive binary16 table check (patterns 21504 .. 22527), kernel-evaluated -/
namespace Lemmas
theorem half_shard_21 : halfShardOk 21 = true := by decide +kernel
end Lemmas

import Cbor.Props.C04
import Cbor.Lemmas.CopyFrame
import Cbor.Lemmas.BuildOwn
/-!
# Acyclicity of containers is an invariant of clients that never insert an item into something reachable from it

* `Reach h a b` — `b` is reachable from `a` through the references live containers hold.
* `NoCycleRule st op` — the client rule: an operation that makes a container refer to an item is applied only when
  the container is not reachable from the item.
* `acyclic_step` — every operation of the history language preserves `Acyclic` under that rule (for `copy`/`load`
  the heap must have no dangling references, `ClosedAll`, which follows from `Counts`).
* `Props.C04.C04_acyclic_run`, `Props.C04.C04_nothing_left'` — hence the final-state hypothesis `Acyclic` of
  `C04_nothing_left` can be replaced by the per-step rule.
-/
namespace Heap
open Props.C04 (Acyclic)

/-- `b` is reachable from `a` by following references held by live cells -/
inductive Reach (h : H) : Ref → Ref → Prop
  | refl (a : Ref) : Reach h a a
  | step {a x b : Ref} (c : Cell) (hg : h.get a = some c) (hx : x ∈ c.node.children) (hr : Reach h x b) : Reach h a b

/-- a set of items closed under "is referred to by" contains everything reachable from its members -/
theorem Reach.inv {h : H} (S : Ref → Prop) (hS : ∀ r c, S r → h.get r = some c → ∀ y ∈ c.node.children, S y)
    {a b : Ref} (hr : Reach h a b) : S a → S b := by
  induction hr with
  | refl a => exact id
  | step c hg hx _ ih => exact fun ha => ih (hS _ c ha hg _ hx)

/-- reachability only depends on the edges -/
theorem Reach.mono {h h' : H}
    (hm : ∀ r c', h'.get r = some c' → ∀ y ∈ c'.node.children, ∃ c, h.get r = some c ∧ y ∈ c.node.children)
    {a b : Ref} (hr : Reach h' a b) : Reach h a b := by
  induction hr with
  | refl a => exact Reach.refl a
  | step c' hg hx _ ih =>
    obtain ⟨c, hg0, hx0⟩ := hm _ c' hg _ hx
    exact Reach.step c hg0 hx0 ih

theorem Reach.trans {h : H} {a b c : Ref} (h1 : Reach h a b) (h2 : Reach h b c) : Reach h a c := by
  induction h1 with
  | refl a => exact h2
  | step c hg hx _ ih => exact Reach.step c hg hx (ih h2)

/-- a decidable certificate for unreachability: a list of items closed under references that contains `x` but not `a` -/
def closedSet (h : H) (S : List Ref) : Bool :=
  S.all fun r => match h.get r with
    | some c => c.node.children.all fun y => S.contains y
    | none => true

theorem not_reach_of_closedSet {h : H} {x a : Ref} (S : List Ref) (hc : closedSet h S = true) (hx : S.contains x = true)
    (ha : S.contains a = false) : ¬ Reach h x a := by
  intro hr
  have := Reach.inv (h := h) (fun r => S.contains r = true) (fun r c hr hg y hy => by
    simp only [closedSet, List.all_eq_true] at hc
    have h1 := hc r (by simpa using hr)
    rw [hg] at h1
    simp only [List.all_eq_true] at h1
    exact h1 y hy) hr hx
  rw [ha] at this; cases this

/-- no dangling references beyond the end of the heap -/
def ClosedAll (h : H) : Prop := ∀ p c, h.get p = some c → ∀ x ∈ c.node.children, x < h.cells.length

theorem closedAll_of_counts {h : H} {o : Ref → Nat} (hc : Counts h o) : ClosedAll h := fun p c hg x hx => by
  obtain ⟨cx, hgx⟩ := (Props.C04.C04_no_dangling h o hc).2 p c hg x hx
  exact get_lt hgx

/-- in a heap without dangling references, everything reachable from an existing item exists -/
theorem reach_lt {h : H} (hcl : ClosedAll h) {a b : Ref} (hr : Reach h a b) (ha : a < h.cells.length) : b < h.cells.length :=
  Reach.inv (fun r => r < h.cells.length) (fun r c _ hg y hy => hcl r c hg y hy) hr ha

theorem acyclic_congr {h h' : H} (e : h'.cells = h.cells) (hac : Acyclic h) : Acyclic h' := by
  obtain ⟨rank, hr⟩ := hac
  exact ⟨rank, fun r c hg => hr r c (by rw [← get_congr e]; exact hg)⟩

theorem closedAll_congr {h h' : H} (e : h'.cells = h.cells) (hcl : ClosedAll h) : ClosedAll h' :=
  fun p c hg x hx => by rw [e]; exact hcl p c (by rw [← get_congr e]; exact hg) x hx

/-! ### `Sub`: no new cells, no new edges except from `a` to members of `xs` -/

/-- every live cell of `h'` was live in `h`, and refers only to what it referred to before — except that `a` may now
also refer to members of `xs` -/
def Sub (h h' : H) (a : Ref) (xs : List Ref) : Prop :=
  h'.cells.length = h.cells.length ∧
  ∀ r c', h'.get r = some c' → ∃ c, h.get r = some c ∧ ∀ y ∈ c'.node.children, y ∈ c.node.children ∨ (r = a ∧ y ∈ xs)

theorem Sub.refl (h : H) (a : Ref) (xs : List Ref) : Sub h h a xs :=
  ⟨rfl, fun _ c' hg => ⟨c', hg, fun _ hy => Or.inl hy⟩⟩

theorem Sub.of_cells {h h' : H} (e : h'.cells = h.cells) (a : Ref) (xs : List Ref) : Sub h h' a xs :=
  ⟨by rw [e], fun r c' hg => ⟨c', by rw [← get_congr e]; exact hg, fun _ hy => Or.inl hy⟩⟩

theorem Sub.trans {h h1 h2 : H} {a : Ref} {xs : List Ref} (s1 : Sub h h1 a xs) (s2 : Sub h1 h2 a xs) : Sub h h2 a xs :=
  ⟨s2.1.trans s1.1, fun r c2 hg => by
    obtain ⟨c1, g1, k1⟩ := s2.2 r c2 hg
    obtain ⟨c0, g0, k0⟩ := s1.2 r c1 g1
    refine ⟨c0, g0, fun y hy => ?_⟩
    rcases k1 y hy with e | e
    · exact k0 y e
    · exact Or.inr e⟩

theorem Sub.of_shrinks {h h' : H} (s : Shrinks h h') (a : Ref) (xs : List Ref) : Sub h h' a xs :=
  ⟨s.1, fun r c' hg => by
    obtain ⟨c, g, n, _⟩ := s.2.2 r c' hg
    exact ⟨c, g, fun y hy => Or.inl (by rw [← n]; exact hy)⟩⟩

theorem Sub.put {h : H} {r : Ref} {c c' : Cell} {a : Ref} {xs : List Ref} (hg : h.get r = some c)
    (hc : ∀ y ∈ c'.node.children, y ∈ c.node.children ∨ (r = a ∧ y ∈ xs)) : Sub h (h.put r (some c')) a xs :=
  ⟨by simp, fun r' c'' hg' => by
    by_cases e : r' = r
    · subst e
      rw [get_put_same _ _ _ (get_lt hg)] at hg'
      cases hg'
      exact ⟨c, hg, hc⟩
    · rw [get_put_other _ _ _ _ e] at hg'
      exact ⟨c'', hg', fun _ hy => Or.inl hy⟩⟩

theorem Sub.bad (h : H) (a : Ref) (xs : List Ref) : Sub h h.bad a xs := Sub.of_cells rfl a xs

theorem Sub.incref (h : H) (x : Ref) (a : Ref) (xs : List Ref) : Sub h (h.incref x) a xs := by
  unfold H.incref
  cases hg : h.get x with
  | none => exact Sub.bad h a xs
  | some c => exact Sub.put hg (fun y hy => Or.inl hy)

theorem Sub.decref {h h' : H} {a : Ref} {xs : List Ref} (s : Sub h h' a xs) (r : Ref) : Sub h (h'.decref r) a xs :=
  s.trans (Sub.of_shrinks (H.decref_shrinks h' r) a xs)

theorem list_le_sum (f : Ref → Nat) : ∀ (l : List Ref) (x : Ref), x ∈ l → f x ≤ (l.map f).sum
  | [], _, hx => by cases hx
  | a :: l, x, hx => by
    simp only [List.map_cons, List.sum_cons]
    rcases List.mem_cons.mp hx with e | e
    · subst e; omega
    · have := list_le_sum f l x e; omega

/-- **Adding edges towards items that cannot reach the container keeps the graph acyclic**: every ancestor of `a` is
lifted above the ranks of the inserted items. -/
theorem acyclic_sub {h h' : H} {a : Ref} {xs : List Ref} (hac : Acyclic h) (hn : ∀ x ∈ xs, ¬ Reach h x a)
    (s : Sub h h' a xs) : Acyclic h' := by
  obtain ⟨rank, hr⟩ := hac
  classical
  refine ⟨fun r => if Reach h r a then rank r + (xs.map rank).sum + 1 else rank r, fun r c' hg y hy => ?_⟩
  obtain ⟨c, g, k⟩ := s.2 r c' hg
  rcases k y hy with e | ⟨e, hyx⟩
  · have hlt := hr r c g y e
    by_cases hya : Reach h y a
    · have hra : Reach h r a := Reach.step c g e hya
      simp only [hya, hra, if_true]; omega
    · simp only [hya, if_false]
      split <;> omega
  · subst e
    have hra : Reach h r r := Reach.refl r
    have hya : ¬ Reach h y r := hn y hyx
    have := list_le_sum rank xs y hyx
    simp only [hra, hya, if_true, if_false]; omega

theorem closed_sub {h h' : H} {a : Ref} {xs : List Ref} (hcl : ClosedAll h) (hn : ∀ x ∈ xs, x < h.cells.length)
    (s : Sub h h' a xs) : ClosedAll h' := fun p c' hg y hy => by
  obtain ⟨c, g, k⟩ := s.2 p c' hg
  rw [s.1]
  rcases k y hy with e | ⟨_, e⟩
  · exact hcl p c g y e
  · exact hn y e

theorem acyclic_shrinks {h h' : H} (hac : Acyclic h) (s : Shrinks h h') : Acyclic h' :=
  acyclic_sub (a := 0) (xs := []) hac (fun _ hx => by cases hx) (Sub.of_shrinks s 0 [])

theorem closed_shrinks {h h' : H} (hcl : ClosedAll h) (s : Shrinks h h') : ClosedAll h' :=
  closed_sub (a := 0) (xs := []) hcl (fun _ hx => by cases hx) (Sub.of_shrinks s 0 [])


/-! ### the container operations add edges from the container to the inserted items only -/

theorem arrPush_sub (ω : Oracle) (h : H) (a x : Ref) : Sub h (arrPush ω h a x).2 a [x] := by
  unfold arrPush
  cases hg : h.get a with
  | none => exact Sub.bad h _ _
  | some c =>
    obtain ⟨n, rc⟩ := c
    cases n with
    | arr d items alloc =>
      have hnew : ∀ (h1 : H) (al : Nat), h1.cells = h.cells →
          Sub h ((h1.put a (some ⟨.arr d (items ++ [x]) al, rc⟩)).incref x) a [x] := by
        intro h1 al e
        refine (Sub.of_cells e a [x]).trans ((Sub.put (by rw [get_congr e]; exact hg) ?_).trans (Sub.incref _ _ _ _))
        intro y hy
        simp only [Node.children, List.mem_append, List.mem_singleton] at hy
        rcases hy with hy | hy
        · exact Or.inl hy
        · exact Or.inr ⟨rfl, by simp [hy]⟩
      cases d with
      | true => simp only; split; exact Sub.refl _ _ _; exact hnew h alloc rfl
      | false =>
        simp only
        split
        · have hs := (grow_same ω h 8 alloc).1
          cases hgr : grow ω h 8 alloc with
          | mk o h1 =>
            rw [hgr] at hs
            cases o with
            | none => exact Sub.of_cells hs _ _
            | some na => exact hnew h1 na hs
        · exact hnew h alloc rfl
    | _ => exact Sub.bad h _ _

theorem arrReplace_sub (h : H) (a : Ref) (i : Nat) (x : Ref) : Sub h (arrReplace h a i x).2 a [x] := by
  unfold arrReplace
  cases hg : h.get a with
  | none => exact Sub.bad h _ _
  | some c =>
    obtain ⟨n, rc⟩ := c
    cases n with
    | arr d items alloc =>
      simp only
      cases hi : items[i]? with
      | none => exact Sub.refl _ _ _
      | some old =>
        simp only
        refine Sub.decref ((Sub.put hg ?_).trans (Sub.incref _ _ _ _)) old
        intro y hy
        simp only [Node.children] at hy
        rcases List.mem_or_eq_of_mem_set hy with e | e
        · exact Or.inl e
        · exact Or.inr ⟨rfl, by simp [e]⟩
    | _ => exact Sub.bad h _ _

theorem arrSet_sub (ω : Oracle) (h : H) (a : Ref) (i : Nat) (x : Ref) : Sub h (arrSet ω h a i x).2 a [x] := by
  unfold arrSet
  cases hg : h.get a with
  | none => exact Sub.bad h _ _
  | some c =>
    obtain ⟨n, rc⟩ := c
    cases n with
    | arr d items alloc =>
      simp only
      split
      · exact arrPush_sub ω h a x
      · split
        · exact arrReplace_sub h a i x
        · exact Sub.refl _ _ _
    | _ => exact Sub.bad h _ _

theorem arrGet_sub (h : H) (a : Ref) (i : Nat) (b : Ref) (xs : List Ref) : Sub h (arrGet h a i).2 b xs := by
  unfold arrGet
  cases hg : h.get a with
  | none => exact Sub.bad h _ _
  | some c =>
    obtain ⟨n, rc⟩ := c
    cases n with
    | arr d items alloc =>
      simp only
      cases hi : items[i]? with
      | none => exact Sub.refl _ _ _
      | some x => exact Sub.incref _ _ _ _
    | _ => exact Sub.bad h _ _

theorem mapAdd_sub (ω : Oracle) (h : H) (m k v : Ref) : Sub h (mapAdd ω h m k v).2 m [k, v] := by
  unfold mapAdd
  cases hg : h.get m with
  | none => exact Sub.bad h _ _
  | some c =>
    obtain ⟨n, rc⟩ := c
    cases n with
    | map d ps alloc =>
      have hnew : ∀ (h1 : H) (al : Nat), h1.cells = h.cells →
          Sub h (((h1.put m (some ⟨.map d (ps ++ [(k, v)]) al, rc⟩)).incref k).incref v) m [k, v] := by
        intro h1 al e
        refine (Sub.of_cells e m [k, v]).trans
          (((Sub.put (by rw [get_congr e]; exact hg) ?_).trans (Sub.incref _ _ _ _)).trans (Sub.incref _ _ _ _))
        intro y hy
        simp only [Node.children, List.flatMap_append, List.mem_append] at hy
        rcases hy with hy | hy
        · exact Or.inl hy
        · exact Or.inr ⟨rfl, by simpa using hy⟩
      cases d with
      | true => simp only; split; exact Sub.refl _ _ _; exact hnew h alloc rfl
      | false =>
        simp only
        split
        · have hs := (grow_same ω h 16 alloc).1
          cases hgr : grow ω h 16 alloc with
          | mk o h1 =>
            rw [hgr] at hs
            cases o with
            | none => exact Sub.of_cells hs _ _
            | some na => exact hnew h1 na hs
        · exact hnew h alloc rfl
    | _ => exact Sub.bad h _ _

theorem addChunk_sub (ω : Oracle) (h : H) (s c : Ref) : Sub h (addChunk ω h s c).2 s [c] := by
  unfold addChunk
  cases hgs : h.get s with
  | none => exact Sub.bad h _ _
  | some cs =>
    obtain ⟨n, rc⟩ := cs
    cases n with
    | strI t chunks cap =>
      cases hgc : h.get c with
      | none => exact Sub.bad h _ _
      | some cc =>
        obtain ⟨n', rc'⟩ := cc
        cases n' with
        | str t' b =>
          have hnew : ∀ (h1 : H) (al : Nat), h1.cells = h.cells →
              Sub h ((h1.put s (some ⟨.strI t (chunks ++ [c]) al, rc⟩)).incref c) s [c] := by
            intro h1 al e
            refine (Sub.of_cells e s [c]).trans ((Sub.put (by rw [get_congr e]; exact hgs) ?_).trans (Sub.incref _ _ _ _))
            intro y hy
            simp only [Node.children, List.mem_append, List.mem_singleton] at hy
            rcases hy with hy | hy
            · exact Or.inl hy
            · exact Or.inr ⟨rfl, by simp [hy]⟩
          simp only
          split
          · exact Sub.bad h _ _
          · split
            · have hs := (grow_same ω h 8 cap).1
              cases hgr : grow ω h 8 cap with
              | mk o h1 =>
                rw [hgr] at hs
                cases o with
                | none => exact Sub.of_cells hs _ _
                | some na => exact hnew h1 na hs
            · exact hnew h cap rfl
        | _ => exact Sub.bad h _ _
    | _ => exact Sub.bad h _ _

theorem tagSet_sub (h : H) (t x : Ref) : Sub h (tagSet h t x).2 t [x] := by
  unfold tagSet
  cases hg : h.get t with
  | none => exact Sub.bad h _ _
  | some c =>
    obtain ⟨n, rc⟩ := c
    cases n with
    | tag k o =>
      refine (Sub.put hg ?_).trans (Sub.incref _ _ _ _)
      intro y hy
      simp only [Node.children, List.mem_singleton] at hy
      exact Or.inr ⟨rfl, by simp [hy]⟩
    | _ => exact Sub.bad h _ _

theorem tagGet_sub (h : H) (t : Ref) (b : Ref) (xs : List Ref) : Sub h (tagGet h t).2 b xs := by
  unfold tagGet
  cases hg : h.get t with
  | none => exact Sub.bad h _ _
  | some c =>
    obtain ⟨n, rc⟩ := c
    cases n with
    | tag k o =>
      cases o with
      | none => exact Sub.bad h _ _
      | some x => exact Sub.incref _ _ _ _
    | _ => exact Sub.bad h _ _

/-! ### allocation -/

theorem acyclic_snoc_leaf {h h' : H} {c : Cell} (e : h'.cells = h.cells ++ [some c]) (hc : c.node.children = [])
    (hac : Acyclic h) : Acyclic h' := by
  obtain ⟨rank, hr⟩ := hac
  refine ⟨rank, fun r c' hg y hy => ?_⟩
  by_cases er : r = h.cells.length
  · subst er
    rw [get_snoc_same e] at hg; cases hg
    rw [hc] at hy; cases hy
  · rw [get_snoc_other e r er] at hg
    exact hr r c' hg y hy

/-- a new cell that refers to existing items only, in a heap without dangling references -/
theorem acyclic_snoc {h h' : H} {c : Cell} (e : h'.cells = h.cells ++ [some c]) (hcl : ClosedAll h)
    (hc : ∀ y ∈ c.node.children, y < h.cells.length) (hac : Acyclic h) : Acyclic h' := by
  obtain ⟨rank, hr⟩ := hac
  refine ⟨fun r => if r = h.cells.length then (c.node.children.map rank).sum + 1 else rank r, fun r c' hg y hy => ?_⟩
  by_cases er : r = h.cells.length
  · subst er
    rw [get_snoc_same e] at hg; cases hg
    have h1 := hc y hy
    have h2 := list_le_sum rank _ y hy
    have : ¬ y = h.cells.length := Nat.ne_of_lt h1
    simp only [this, if_false, if_true]; omega
  · rw [get_snoc_other e r er] at hg
    have h1 := hcl r c' hg y hy
    have : ¬ y = h.cells.length := Nat.ne_of_lt h1
    simp only [this, er, if_false]
    exact hr r c' hg y hy

theorem closed_snoc {h h' : H} {c : Cell} (e : h'.cells = h.cells ++ [some c]) (hcl : ClosedAll h)
    (hc : ∀ y ∈ c.node.children, y < h.cells.length) : ClosedAll h' := fun p c' hg y hy => by
  have hl : h'.cells.length = h.cells.length + 1 := by rw [e]; simp
  by_cases er : p = h.cells.length
  · subst er
    rw [get_snoc_same e] at hg; cases hg
    have := hc y hy; rw [hl]; exact Nat.lt_of_lt_of_le this (Nat.le_succ _)
  · rw [get_snoc_other e p er] at hg
    have := hcl p c' hg y hy; rw [hl]; exact Nat.lt_of_lt_of_le this (Nat.le_succ _)

theorem acyclic_newPost {n : Node} {h : H} {r : Option Ref × H} (hp : NewPost n h r) (hn : n.children = [])
    (hac : Acyclic h) : Acyclic r.2 := by
  obtain ⟨o, h'⟩ := r
  cases o with
  | none => exact acyclic_congr hp.2 hac
  | some y => exact acyclic_snoc_leaf hp.2.2 hn hac

theorem closed_newPost {n : Node} {h : H} {r : Option Ref × H} (hp : NewPost n h r) (hn : n.children = [])
    (hcl : ClosedAll h) : ClosedAll r.2 ∧ h.cells.length ≤ r.2.cells.length ∧ ∀ y, r.1 = some y → y < r.2.cells.length := by
  obtain ⟨o, h'⟩ := r
  cases o with
  | none =>
    have e : h'.cells = h.cells := hp.2
    exact ⟨closedAll_congr e hcl, by simp only [e]; omega, fun _ hy => by cases hy⟩
  | some y =>
    have e : h'.cells = h.cells ++ [some ⟨n, 1⟩] := hp.2.2
    have hy : y = h.cells.length := hp.2.1
    refine ⟨closed_snoc e hcl (by simp [hn]), by simp [e], fun y' hy' => ?_⟩
    cases hy'; simp [e, hy]

theorem buildTag_acyclic (ω : Oracle) (h : H) (n : Nat) (x : Ref) (hac : Acyclic h) (hx : ¬ Reach h x h.cells.length) :
    Acyclic (buildTag ω h n x).2 := by
  unfold buildTag
  have hp := new1_post ω h (.tag n none)
  cases hnn : new1 ω h (.tag n none) with
  | mk o h1 =>
    rw [hnn] at hp
    cases o with
    | none => exact acyclic_congr hp.2 hac
    | some t =>
      have e : h1.cells = h.cells ++ [some ⟨.tag n none, 1⟩] := hp.2.2
      have ht : t = h.cells.length := hp.2.1
      subst ht
      have hac1 : Acyclic h1 := acyclic_snoc_leaf e rfl hac
      refine acyclic_sub hac1 ?_ (tagSet_sub h1 _ x)
      intro y hy hr
      simp only [List.mem_singleton] at hy; subst hy
      refine hx (Reach.mono ?_ hr)
      intro r c' hg z hz
      by_cases er : r = h.cells.length
      · subst er
        rw [get_snoc_same e] at hg; cases hg
        cases hz
      · rw [get_snoc_other e r er] at hg
        exact ⟨c', hg, hz⟩

theorem buildTag_closed (ω : Oracle) (h : H) (n : Nat) (x : Ref) (hcl : ClosedAll h) (hx : x < h.cells.length) :
    ClosedAll (buildTag ω h n x).2 ∧ h.cells.length ≤ (buildTag ω h n x).2.cells.length ∧
    ∀ y, (buildTag ω h n x).1 = some y → y < (buildTag ω h n x).2.cells.length := by
  unfold buildTag
  have hp := closed_newPost (new1_post ω h (.tag n none)) rfl hcl
  cases hnn : new1 ω h (.tag n none) with
  | mk o h1 =>
    rw [hnn] at hp
    cases o with
    | none => exact ⟨hp.1, hp.2.1, fun _ hy => by cases hy⟩
    | some t =>
      have s := tagSet_sub h1 t x
      refine ⟨closed_sub hp.1 ?_ s, by rw [s.1]; exact hp.2.1, fun y hy => ?_⟩
      · intro y hy
        simp only [List.mem_singleton] at hy; subst hy
        exact Nat.lt_of_lt_of_le hx hp.2.1
      · cases hy; rw [s.1]; exact hp.2.2 _ rfl


/-! ### `cbor_load`: the tree `build` lays out refers to cells laid out before their container -/

/-- acyclic and without dangling references -/
def WF (h : H) : Prop := Acyclic h ∧ ClosedAll h

theorem wf_congr {h h' : H} (e : h'.cells = h.cells) (hw : WF h) : WF h' := ⟨acyclic_congr e hw.1, closedAll_congr e hw.2⟩

theorem wf_shrinks {h h' : H} (hw : WF h) (s : Shrinks h h') : WF h' := ⟨acyclic_shrinks hw.1 s, closed_shrinks hw.2 s⟩

theorem wf_new {h : H} (hw : WF h) (n : Node) (hn : ∀ y ∈ n.children, y < h.cells.length) :
    WF (h.new n).2 ∧ h.cells.length ≤ (h.new n).2.cells.length ∧ (h.new n).1 < (h.new n).2.cells.length :=
  ⟨⟨acyclic_snoc rfl hw.2 hn hw.1, closed_snoc rfl hw.2 hn⟩, by rw [new_len]; exact Nat.le_succ _,
    by rw [new_len]; exact Nat.lt_succ_self _⟩

theorem buildChunks_wf (t : Bool) : ∀ (cs : List (List UInt8)) (h : H), WF h →
    WF (buildChunks t cs h).2 ∧ h.cells.length ≤ (buildChunks t cs h).2.cells.length ∧
    ∀ r ∈ (buildChunks t cs h).1, r < (buildChunks t cs h).2.cells.length
  | [], h, hw => by simp only [buildChunks]; exact ⟨hw, Nat.le_refl _, fun _ hr => by cases hr⟩
  | c :: cs, h, hw => by
    simp only [buildChunks]
    obtain ⟨w1, l1, m1⟩ := wf_new hw (.str t c) (by simp [Node.children])
    obtain ⟨w2, l2, m2⟩ := buildChunks_wf t cs _ w1
    refine ⟨w2, Nat.le_trans l1 l2, fun r hr => ?_⟩
    rcases List.mem_cons.mp hr with e | e
    · rw [e]; exact Nat.lt_of_lt_of_le m1 l2
    · exact m2 r e

mutual
theorem build_wf : ∀ (t : Spec.Item) (h : H), WF h →
    WF (build t h).2 ∧ h.cells.length ≤ (build t h).2.cells.length ∧ (build t h).1 < (build t h).2.cells.length
  | .uint _ _, h, hw | .negint _ _, h, hw | .bytes _, h, hw | .text _, h, hw
  | .simple _, h, hw | .half _, h, hw | .single _, h, hw | .double _, h, hw => by
    simp only [build]
    exact wf_new hw _ (by simp [Node.children])
  | .bytesI cs, h, hw | .textI cs, h, hw => by
    simp only [build]
    obtain ⟨w, l, m⟩ := buildChunks_wf _ cs h hw
    obtain ⟨w1, l1, m1⟩ := wf_new w (.strI _ (buildChunks _ cs h).1 (capFor (buildChunks _ cs h).1.length)) m
    exact ⟨w1, Nat.le_trans l l1, m1⟩
  | .array xs, h, hw => by
    simp only [build]
    obtain ⟨w, l, m⟩ := buildList_wf xs h hw
    obtain ⟨w1, l1, m1⟩ := wf_new w (.arr true (buildList xs h).1 (buildList xs h).1.length) m
    exact ⟨w1, Nat.le_trans l l1, m1⟩
  | .arrayI xs, h, hw => by
    simp only [build]
    obtain ⟨w, l, m⟩ := buildList_wf xs h hw
    obtain ⟨w1, l1, m1⟩ := wf_new w (.arr false (buildList xs h).1 (capFor (buildList xs h).1.length)) m
    exact ⟨w1, Nat.le_trans l l1, m1⟩
  | .map ps, h, hw => by
    simp only [build]
    obtain ⟨w, l, m⟩ := buildPairs_wf ps h hw
    obtain ⟨w1, l1, m1⟩ := wf_new w (.map true (buildPairs ps h).1 (buildPairs ps h).1.length) (by
      intro y hy
      simp only [Node.children, List.mem_flatMap] at hy
      obtain ⟨kv, hkv, hy⟩ := hy
      simp only [List.mem_cons, List.not_mem_nil, or_false] at hy
      rcases hy with e | e
      · rw [e]; exact (m kv hkv).1
      · rw [e]; exact (m kv hkv).2)
    exact ⟨w1, Nat.le_trans l l1, m1⟩
  | .mapI ps, h, hw => by
    simp only [build]
    obtain ⟨w, l, m⟩ := buildPairs_wf ps h hw
    obtain ⟨w1, l1, m1⟩ := wf_new w (.map false (buildPairs ps h).1 (capFor (buildPairs ps h).1.length)) (by
      intro y hy
      simp only [Node.children, List.mem_flatMap] at hy
      obtain ⟨kv, hkv, hy⟩ := hy
      simp only [List.mem_cons, List.not_mem_nil, or_false] at hy
      rcases hy with e | e
      · rw [e]; exact (m kv hkv).1
      · rw [e]; exact (m kv hkv).2)
    exact ⟨w1, Nat.le_trans l l1, m1⟩
  | .tag n t, h, hw => by
    simp only [build]
    obtain ⟨w, l, m⟩ := build_wf t h hw
    obtain ⟨w1, l1, m1⟩ := wf_new w (.tag n (some (build t h).1)) (by
      intro y hy
      simp only [Node.children, List.mem_singleton] at hy
      rw [hy]; exact m)
    exact ⟨w1, Nat.le_trans l l1, m1⟩
theorem buildList_wf : ∀ (ts : List Spec.Item) (h : H), WF h →
    WF (buildList ts h).2 ∧ h.cells.length ≤ (buildList ts h).2.cells.length ∧
    ∀ r ∈ (buildList ts h).1, r < (buildList ts h).2.cells.length
  | [], h, hw => by simp only [buildList]; exact ⟨hw, Nat.le_refl _, fun _ hr => by cases hr⟩
  | t :: ts, h, hw => by
    simp only [buildList]
    obtain ⟨w1, l1, m1⟩ := build_wf t h hw
    obtain ⟨w2, l2, m2⟩ := buildList_wf ts _ w1
    refine ⟨w2, Nat.le_trans l1 l2, fun r hr => ?_⟩
    rcases List.mem_cons.mp hr with e | e
    · rw [e]; exact Nat.lt_of_lt_of_le m1 l2
    · exact m2 r e
theorem buildPairs_wf : ∀ (ps : List (Spec.Item × Spec.Item)) (h : H), WF h →
    WF (buildPairs ps h).2 ∧ h.cells.length ≤ (buildPairs ps h).2.cells.length ∧
    ∀ kv ∈ (buildPairs ps h).1, kv.1 < (buildPairs ps h).2.cells.length ∧ kv.2 < (buildPairs ps h).2.cells.length
  | [], h, hw => by simp only [buildPairs]; exact ⟨hw, Nat.le_refl _, fun _ hr => by cases hr⟩
  | (k, v) :: ps, h, hw => by
    simp only [buildPairs]
    obtain ⟨w1, l1, m1⟩ := build_wf k h hw
    obtain ⟨w2, l2, m2⟩ := build_wf v _ w1
    obtain ⟨w3, l3, m3⟩ := buildPairs_wf ps _ w2
    refine ⟨w3, Nat.le_trans l1 (Nat.le_trans l2 l3), fun kv hkv => ?_⟩
    rcases List.mem_cons.mp hkv with e | e
    · rw [e]; exact ⟨Nat.lt_of_lt_of_le m1 (Nat.le_trans l2 l3), Nat.lt_of_lt_of_le m2 l3⟩
    · exact m3 kv e
end

theorem load_wf {h : H} (hw : WF h) (ω : Oracle) (L : Nat) (src : Array UInt8) : WF (h.load ω L src).2.2 := by
  unfold H.load
  simp only
  cases hi : (Model.load (fun i x => ω (h.reqs + i)) L { code := Model.Code.none, position := 0, read := 0 } src).item with
  | none => exact wf_congr rfl hw
  | some x =>
    have key : ∀ h0 : H, WF h0 → WF (build x h0).2 := fun h0 w => (build_wf x h0 w).1
    exact key _ (wf_congr rfl hw)


/-! ### `cbor_copy`: every link it makes goes from a container to an item created after it (or, for tags, to an item that
cannot know the tag yet) -/

theorem fr_reach {N : Nat} {h0 h : H} (hf : Fr N h0 h) {a b : Ref} (hr : Reach h a b) (ha : N ≤ a) : N ≤ b :=
  Reach.inv (fun r => N ≤ r) (fun r c hr hg y hy => hf.2.2 r c hr hg y hy) hr ha

theorem newPost_wf {n : Node} {h : H} {r : Option Ref × H} (hp : NewPost n h r) (hn : n.children = []) (hw : WF h) :
    WF r.2 ∧ h.cells.length ≤ r.2.cells.length ∧ ∀ y, r.1 = some y → y < r.2.cells.length :=
  have hc := closed_newPost hp hn hw.2
  ⟨⟨acyclic_newPost hp hn hw.1, hc.1⟩, hc.2⟩

theorem hdecref_wf {h : H} (hw : WF h) (r : Ref) : WF (h.decref r) := wf_shrinks hw (H.decref_shrinks h r)

theorem hdecref_len (h : H) (r : Ref) : (h.decref r).cells.length = h.cells.length := (H.decref_shrinks h r).1

/-- linking a newer item `e` into an older container `res` -/
theorem link_wf {N : Nat} {h0 h h' : H} {res : Ref} {es : List Ref} (hw : WF h) (hf : Fr N h0 h) (hres : res < N)
    (hes : ∀ e ∈ es, N ≤ e ∧ e < h.cells.length) (s : Sub h h' res es) : WF h' :=
  ⟨acyclic_sub hw.1 (fun e he hr => Nat.lt_irrefl _ (Nat.lt_of_lt_of_le hres (fr_reach hf hr (hes e he).1))) s,
   closed_sub hw.2 (fun e he => (hes e he).2) s⟩

theorem copy_wf (ω : Oracle) : ∀ f : Nat,
    (∀ h r, WF h → r < h.cells.length →
      WF (copy ω f h r).2 ∧ ∀ r', (copy ω f h r).1 = some r' → r' < (copy ω f h r).2.cells.length) ∧
    (∀ h res xs, WF h → res < h.cells.length → (∀ x ∈ xs, x < h.cells.length) →
      WF (copyItems ω f h res xs).2 ∧ ∀ r', (copyItems ω f h res xs).1 = some r' → r' < (copyItems ω f h res xs).2.cells.length) ∧
    (∀ h res xs, WF h → res < h.cells.length → (∀ x ∈ xs, x < h.cells.length) →
      WF (copyChunks ω f h res xs).2 ∧ ∀ r', (copyChunks ω f h res xs).1 = some r' → r' < (copyChunks ω f h res xs).2.cells.length) ∧
    (∀ h res ps, WF h → res < h.cells.length → (∀ kv ∈ ps, kv.1 < h.cells.length ∧ kv.2 < h.cells.length) →
      WF (copyPairs ω f h res ps).2 ∧ ∀ r', (copyPairs ω f h res ps).1 = some r' → r' < (copyPairs ω f h res ps).2.cells.length)
  | 0 => ⟨fun h _ hw _ => by unfold copy; exact ⟨wf_congr rfl hw, fun _ hr => by cases hr⟩,
          fun h _ _ hw _ _ => by unfold copyItems; exact ⟨wf_congr rfl hw, fun _ hr => by cases hr⟩,
          fun h _ _ hw _ _ => by unfold copyChunks; exact ⟨wf_congr rfl hw, fun _ hr => by cases hr⟩,
          fun h _ _ hw _ _ => by unfold copyPairs; exact ⟨wf_congr rfl hw, fun _ hr => by cases hr⟩⟩
  | f+1 => by
    obtain ⟨ic, ii, ich, ip⟩ := copy_wf ω f
    refine ⟨?_, ?_, ?_, ?_⟩
    · intro h r hw hr
      unfold copy
      cases hg : h.get r with
      | none => exact ⟨wf_congr rfl hw, fun _ hr => by cases hr⟩
      | some c =>
        have hch := hw.2 r c hg
        obtain ⟨n, rc⟩ := c
        cases n with
        | str t b => exact ⟨(newPost_wf (new2_post ω h _) rfl hw).1, (newPost_wf (new2_post ω h _) rfl hw).2.2⟩
        | strI t chunks cap =>
          simp only
          have hn := newPost_wf (new2_post ω h (.strI t [] 0)) rfl hw
          cases hnn : new2 ω h (.strI t [] 0) with
          | mk o h1 =>
            rw [hnn] at hn
            cases o with
            | none => exact ⟨hn.1, fun _ hr => by cases hr⟩
            | some res => exact ich h1 res chunks hn.1 (hn.2.2 res rfl) (fun y hy => Nat.lt_of_lt_of_le (hch y hy) hn.2.1)
        | arr d items alloc =>
          cases d with
          | true =>
            simp only [if_true]
            have hn := newPost_wf (newMulti_post ω h 8 items.length (.arr true [] items.length)) rfl hw
            cases hnn : newMulti ω h 8 items.length (.arr true [] items.length) with
            | mk o h1 =>
              rw [hnn] at hn
              cases o with
              | none => exact ⟨hn.1, fun _ hr => by cases hr⟩
              | some res => exact ii h1 res items hn.1 (hn.2.2 res rfl) (fun y hy => Nat.lt_of_lt_of_le (hch y hy) hn.2.1)
          | false =>
            simp only [Bool.false_eq_true, if_false]
            have hn := newPost_wf (new1_post ω h (.arr false [] 0)) rfl hw
            cases hnn : new1 ω h (.arr false [] 0) with
            | mk o h1 =>
              rw [hnn] at hn
              cases o with
              | none => exact ⟨hn.1, fun _ hr => by cases hr⟩
              | some res => exact ii h1 res items hn.1 (hn.2.2 res rfl) (fun y hy => Nat.lt_of_lt_of_le (hch y hy) hn.2.1)
        | map d pairs alloc =>
          have hps : ∀ kv ∈ pairs, kv.1 < h.cells.length ∧ kv.2 < h.cells.length := by
            intro kv hkv
            constructor
            · exact hch kv.1 (by simp only [Node.children, List.mem_flatMap]; exact ⟨kv, hkv, by simp⟩)
            · exact hch kv.2 (by simp only [Node.children, List.mem_flatMap]; exact ⟨kv, hkv, by simp⟩)
          cases d with
          | true =>
            simp only [if_true]
            have hn := newPost_wf (newMulti_post ω h 16 pairs.length (.map true [] pairs.length)) rfl hw
            cases hnn : newMulti ω h 16 pairs.length (.map true [] pairs.length) with
            | mk o h1 =>
              rw [hnn] at hn
              cases o with
              | none => exact ⟨hn.1, fun _ hr => by cases hr⟩
              | some res =>
                exact ip h1 res pairs hn.1 (hn.2.2 res rfl)
                  (fun kv hkv => ⟨Nat.lt_of_lt_of_le (hps kv hkv).1 hn.2.1, Nat.lt_of_lt_of_le (hps kv hkv).2 hn.2.1⟩)
          | false =>
            simp only [Bool.false_eq_true, if_false]
            have hn := newPost_wf (new1_post ω h (.map false [] 0)) rfl hw
            cases hnn : new1 ω h (.map false [] 0) with
            | mk o h1 =>
              rw [hnn] at hn
              cases o with
              | none => exact ⟨hn.1, fun _ hr => by cases hr⟩
              | some res =>
                exact ip h1 res pairs hn.1 (hn.2.2 res rfl)
                  (fun kv hkv => ⟨Nat.lt_of_lt_of_le (hps kv hkv).1 hn.2.1, Nat.lt_of_lt_of_le (hps kv hkv).2 hn.2.1⟩)
        | tag k o =>
          cases o with
          | none => exact ⟨wf_congr rfl hw, fun _ hr => by cases hr⟩
          | some x =>
            simp only
            have hx := ic h x hw (hch x (by simp [Node.children]))
            cases hn : copy ω f h x with
            | mk o1 h1 =>
              rw [hn] at hx
              cases o1 with
              | none => exact ⟨hx.1, fun _ hr => by cases hr⟩
              | some xc =>
                simp only
                have hxc := hx.2 xc rfl
                have hnr : ¬ Reach h1 xc h1.cells.length := fun hr => Nat.lt_irrefl _ (reach_lt hx.1.2 hr hxc)
                have hb : WF (buildTag ω h1 k xc).2 := ⟨buildTag_acyclic ω h1 k xc hx.1.1 hnr, (buildTag_closed ω h1 k xc hx.1.2 hxc).1⟩
                have hb2 := (buildTag_closed ω h1 k xc hx.1.2 hxc).2.2
                cases hbt : buildTag ω h1 k xc with
                | mk o2 h2 =>
                  rw [hbt] at hb hb2
                  cases o2 with
                  | none => exact ⟨hdecref_wf hb xc, fun _ hr => by cases hr⟩
                  | some t => exact ⟨hdecref_wf hb xc, fun r' hr' => by cases hr'; rw [hdecref_len]; exact hb2 t rfl⟩
        | int a b c => exact ⟨(newPost_wf (new1_post ω h _) rfl hw).1, (newPost_wf (new1_post ω h _) rfl hw).2.2⟩
        | ctrl v => exact ⟨(newPost_wf (new1_post ω h _) rfl hw).1, (newPost_wf (new1_post ω h _) rfl hw).2.2⟩
        | half v => exact ⟨(newPost_wf (new1_post ω h _) rfl hw).1, (newPost_wf (new1_post ω h _) rfl hw).2.2⟩
        | single v => exact ⟨(newPost_wf (new1_post ω h _) rfl hw).1, (newPost_wf (new1_post ω h _) rfl hw).2.2⟩
        | double v => exact ⟨(newPost_wf (new1_post ω h _) rfl hw).1, (newPost_wf (new1_post ω h _) rfl hw).2.2⟩
    · intro h res xs hw hres hxs
      unfold copyItems
      cases xs with
      | nil => exact ⟨hw, fun r' hr' => by cases hr'; exact hres⟩
      | cons x xs =>
        simp only
        have hx := hxs x (by simp)
        have ih := ic h x hw hx
        have fr := (copy_frame_all ω h.cells.length h (fun p c _ hg => hw.2 p c hg) f).1 h x (Fr.refl h) hx
        cases hn : copy ω f h x with
        | mk o h1 =>
          rw [hn] at ih fr
          cases o with
          | none => exact ⟨hdecref_wf ih.1 res, fun _ hr => by cases hr⟩
          | some e =>
            simp only
            have s := arrPush_sub ω h1 res e
            have w2 : WF (arrPush ω h1 res e).2 := link_wf ih.1 fr.1 hres
              (fun y hy => by simp only [List.mem_singleton] at hy; rw [hy]; exact ⟨fr.2 e rfl, ih.2 e rfl⟩) s
            cases hpp : arrPush ω h1 res e with
            | mk ok h2 =>
              rw [hpp] at w2 s
              cases ok with
              | false => exact ⟨hdecref_wf (hdecref_wf w2 e) res, fun _ hr => by cases hr⟩
              | true =>
                have l3 : (h2.decref e).cells.length = h1.cells.length := (hdecref_len h2 e).trans s.1
                exact ii _ res xs (hdecref_wf w2 e) (by rw [l3]; exact Nat.lt_of_lt_of_le hres fr.1.1)
                  (fun y hy => by rw [l3]; exact Nat.lt_of_lt_of_le (hxs y (by simp [hy])) fr.1.1)
    · intro h res xs hw hres hxs
      unfold copyChunks
      cases xs with
      | nil => exact ⟨hw, fun r' hr' => by cases hr'; exact hres⟩
      | cons x xs =>
        simp only
        have hx := hxs x (by simp)
        have ih := ic h x hw hx
        have fr := (copy_frame_all ω h.cells.length h (fun p c _ hg => hw.2 p c hg) f).1 h x (Fr.refl h) hx
        cases hn : copy ω f h x with
        | mk o h1 =>
          rw [hn] at ih fr
          cases o with
          | none => exact ⟨hdecref_wf ih.1 res, fun _ hr => by cases hr⟩
          | some e =>
            simp only
            have s := addChunk_sub ω h1 res e
            have w2 : WF (addChunk ω h1 res e).2 := link_wf ih.1 fr.1 hres
              (fun y hy => by simp only [List.mem_singleton] at hy; rw [hy]; exact ⟨fr.2 e rfl, ih.2 e rfl⟩) s
            cases hpp : addChunk ω h1 res e with
            | mk ok h2 =>
              rw [hpp] at w2 s
              cases ok with
              | false => exact ⟨hdecref_wf (hdecref_wf w2 e) res, fun _ hr => by cases hr⟩
              | true =>
                have l3 : (h2.decref e).cells.length = h1.cells.length := (hdecref_len h2 e).trans s.1
                exact ich _ res xs (hdecref_wf w2 e) (by rw [l3]; exact Nat.lt_of_lt_of_le hres fr.1.1)
                  (fun y hy => by rw [l3]; exact Nat.lt_of_lt_of_le (hxs y (by simp [hy])) fr.1.1)
    · intro h res ps hw hres hps
      unfold copyPairs
      cases ps with
      | nil => exact ⟨hw, fun r' hr' => by cases hr'; exact hres⟩
      | cons kv ps =>
        obtain ⟨k, v⟩ := kv
        simp only
        have hkv := hps (k, v) (by simp)
        have ihk := ic h k hw hkv.1
        have frk := (copy_frame_all ω h.cells.length h (fun p c _ hg => hw.2 p c hg) f).1 h k (Fr.refl h) hkv.1
        cases hn : copy ω f h k with
        | mk o h1 =>
          rw [hn] at ihk frk
          cases o with
          | none => exact ⟨hdecref_wf ihk.1 res, fun _ hr => by cases hr⟩
          | some kc =>
            simp only
            have ihv := ic h1 v ihk.1 (Nat.lt_of_lt_of_le hkv.2 frk.1.1)
            have frv := (copy_frame_all ω h.cells.length h (fun p c _ hg => hw.2 p c hg) f).1 h1 v frk.1 hkv.2
            have frv' := (copy_frame_all ω h1.cells.length h1 (fun p c _ hg => ihk.1.2 p c hg) f).1 h1 v (Fr.refl h1)
              (Nat.lt_of_lt_of_le hkv.2 frk.1.1)
            cases hn2 : copy ω f h1 v with
            | mk o2 h2 =>
              rw [hn2] at ihv frv frv'
              cases o2 with
              | none => exact ⟨hdecref_wf (hdecref_wf ihv.1 res) kc, fun _ hr => by cases hr⟩
              | some vc =>
                simp only
                have s := mapAdd_sub ω h2 res kc vc
                have w2 : WF (mapAdd ω h2 res kc vc).2 := link_wf ihv.1 frv.1 hres
                  (fun y hy => by
                    simp only [List.mem_cons, List.not_mem_nil, or_false] at hy
                    rcases hy with e | e
                    · rw [e]; exact ⟨frk.2 kc rfl, Nat.lt_of_lt_of_le (ihk.2 kc rfl) frv'.1.1⟩
                    · rw [e]; exact ⟨frv.2 vc rfl, ihv.2 vc rfl⟩) s
                cases hpp : mapAdd ω h2 res kc vc with
                | mk ok h3 =>
                  rw [hpp] at w2 s
                  cases ok with
                  | false => exact ⟨hdecref_wf (hdecref_wf (hdecref_wf w2 res) kc) vc, fun _ hr => by cases hr⟩
                  | true =>
                    have l3 : ((h3.decref kc).decref vc).cells.length = h2.cells.length :=
                      (hdecref_len _ vc).trans ((hdecref_len h3 kc).trans s.1)
                    exact ip _ res ps (hdecref_wf (hdecref_wf w2 kc) vc) (by rw [l3]; exact Nat.lt_of_lt_of_le hres frv.1.1)
                      (fun y hy => by
                        rw [l3]
                        exact ⟨Nat.lt_of_lt_of_le (hps y (by simp [hy])).1 frv.1.1, Nat.lt_of_lt_of_le (hps y (by simp [hy])).2 frv.1.1⟩)

theorem copy_none (ω : Oracle) (f : Nat) (h : H) (r : Ref) (hg : h.get r = none) : copy ω f h r = (none, h.bad) := by
  cases f with
  | zero => unfold copy; rfl
  | succ f => unfold copy; rw [hg]

/-- `cbor_copy` keeps a heap acyclic and free of dangling references, on every path -/
theorem hcopy_wf (ω : Oracle) (h : H) (r : Ref) (hw : WF h) : WF (h.copy ω r).2 := by
  unfold H.copy
  by_cases hr : r < h.cells.length
  · exact ((copy_wf ω _).1 h r hw hr).1
  · have hg : h.get r = none := by
      cases hgr : h.get r with
      | none => rfl
      | some c => exact absurd (get_lt hgr) hr
    rw [copy_none ω _ h r hg]
    exact wf_congr rfl hw


/-! ### the client rule, and one step of a history -/

/-- the container (second argument) is not reachable from the item (first argument); vacuous when a slot is empty —
such a call breaks another rule and changes nothing -/
def noReach (h : H) : Option Ref → Option Ref → Prop
  | some x, some a => ¬ Reach h x a
  | _, _ => True

/-- **The client rule "containers are acyclic"**: an operation that makes a container refer to an item is applied only
when the container is not reachable from that item (in particular the item is not the container itself).  For
`buildTag` the container is the tag about to be created; in a heap without dangling references nothing can reach it
(`noCycleRule_buildTag`). -/
def NoCycleRule (st : St) : Op → Prop
  | .push a x => noReach st.h (st.slot x) (st.slot a)
  | .pushMove a x => noReach st.h (st.slot x) (st.slot a)
  | .set a _ x => noReach st.h (st.slot x) (st.slot a)
  | .replace a _ x => noReach st.h (st.slot x) (st.slot a)
  | .mapAdd m k v => noReach st.h (st.slot k) (st.slot m) ∧ noReach st.h (st.slot v) (st.slot m)
  | .chunk s c => noReach st.h (st.slot c) (st.slot s)
  | .tagSet t x _ => noReach st.h (st.slot x) (st.slot t)
  | .buildTag _ _ x => noReach st.h (st.slot x) (some st.h.cells.length)
  | _ => True

theorem fresh_cells (st : St) (s : Nat) (o : Option Ref) (h' : H) : (st.fresh s (o, h')).1.h.cells = h'.cells := by
  unfold St.fresh
  split
  · rfl
  · cases hsl : st.slot s with
    | some v => rfl
    | none => cases o <;> rfl

theorem acyclic_fresh (st : St) (s : Nat) (o : Option Ref) (h' : H) (hac : Acyclic h') : Acyclic (st.fresh s (o, h')).1.h :=
  acyclic_congr (fresh_cells st s o h') hac

theorem single_rule {h : H} {x a : Ref} (hn : ¬ Reach h x a) : ∀ y ∈ [x], ¬ Reach h y a := fun y hy => by
  simp only [List.mem_singleton] at hy; rw [hy]; exact hn

theorem no_rule {h : H} {a : Ref} : ∀ y ∈ ([] : List Ref), ¬ Reach h y a := fun _ hy => by cases hy

/-- **One step.**  Every operation of the history language — granted or refused, for every allocator oracle — keeps the
container graph acyclic, provided the client follows `NoCycleRule`.  (`ClosedAll`, no dangling references, is only needed
for `copy` and `load`; it follows from `Counts`, see `closedAll_of_counts`.) -/
theorem acyclic_step (ω : Oracle) (L : Nat) (st : St) (op : Op) (hac : Acyclic st.h) (hcl : ClosedAll st.h)
    (hrule : NoCycleRule st op) : Acyclic (step ω L st op).1.h := by
  cases op with
  | newInt s neg w v => exact acyclic_fresh st s _ _ (acyclic_newPost (new1_post ω st.h _) rfl hac)
  | newStr s t b => exact acyclic_fresh st s _ _ (acyclic_newPost (new2_post ω st.h _) rfl hac)
  | newStrI s t => exact acyclic_fresh st s _ _ (acyclic_newPost (new2_post ω st.h _) rfl hac)
  | newArr s d cap =>
    cases d with
    | true => exact acyclic_fresh st s _ _ (acyclic_newPost (newMulti_post ω st.h _ _ _) rfl hac)
    | false => exact acyclic_fresh st s _ _ (acyclic_newPost (new1_post ω st.h _) rfl hac)
  | newMap s d cap =>
    cases d with
    | true => exact acyclic_fresh st s _ _ (acyclic_newPost (newMulti_post ω st.h _ _ _) rfl hac)
    | false => exact acyclic_fresh st s _ _ (acyclic_newPost (new1_post ω st.h _) rfl hac)
  | newTag s n => exact acyclic_fresh st s _ _ (acyclic_newPost (new1_post ω st.h _) rfl hac)
  | newCtrl s v => exact acyclic_fresh st s _ _ (acyclic_newPost (new1_post ω st.h _) rfl hac)
  | newHalf s v => exact acyclic_fresh st s _ _ (acyclic_newPost (new1_post ω st.h _) rfl hac)
  | newSingle s v => exact acyclic_fresh st s _ _ (acyclic_newPost (new1_post ω st.h _) rfl hac)
  | newDouble s v => exact acyclic_fresh st s _ _ (acyclic_newPost (new1_post ω st.h _) rfl hac)
  | buildTag s n x =>
    simp only [step]
    cases hx : st.slot x with
    | none => exact acyclic_congr rfl hac
    | some rx =>
      simp only [NoCycleRule, hx, noReach] at hrule
      exact acyclic_fresh st s _ _ (buildTag_acyclic ω st.h n rx hac hrule)
  | push a x =>
    simp only [step]
    cases ha : st.slot a with
    | none => exact acyclic_congr rfl hac
    | some ra =>
      cases hx : st.slot x with
      | none => exact acyclic_congr rfl hac
      | some rx =>
        simp only [NoCycleRule, ha, hx, noReach] at hrule
        exact acyclic_sub hac (single_rule hrule) (arrPush_sub ω st.h ra rx)
  | pushMove a x =>
    simp only [step]
    cases ha : st.slot a with
    | none => exact acyclic_congr rfl hac
    | some ra =>
      cases hx : st.slot x with
      | none => exact acyclic_congr rfl hac
      | some rx =>
        simp only [NoCycleRule, ha, hx, noReach] at hrule
        simp only
        have hq := acyclic_sub hac (single_rule hrule) (arrPush_sub ω st.h ra rx)
        cases hpp : arrPush ω st.h ra rx with
        | mk ok h2 =>
          rw [hpp] at hq
          cases ok with
          | false => exact hq
          | true =>
            simp only
            cases hg : h2.get rx with
            | none => exact acyclic_congr rfl hq
            | some c => exact acyclic_shrinks hq (shrinks_put_dec h2 rx c hg _ (Nat.sub_le _ _))
  | set a i x =>
    simp only [step]
    cases ha : st.slot a with
    | none => exact acyclic_congr rfl hac
    | some ra =>
      cases hx : st.slot x with
      | none => exact acyclic_congr rfl hac
      | some rx =>
        simp only [NoCycleRule, ha, hx, noReach] at hrule
        exact acyclic_sub hac (single_rule hrule) (arrSet_sub ω st.h ra i rx)
  | replace a i x =>
    simp only [step]
    cases ha : st.slot a with
    | none => exact acyclic_congr rfl hac
    | some ra =>
      cases hx : st.slot x with
      | none => exact acyclic_congr rfl hac
      | some rx =>
        simp only [NoCycleRule, ha, hx, noReach] at hrule
        exact acyclic_sub hac (single_rule hrule) (arrReplace_sub st.h ra i rx)
  | get s a i =>
    simp only [step]
    cases ha : st.slot a with
    | none => exact acyclic_congr rfl hac
    | some ra => exact acyclic_fresh st s _ _ (acyclic_sub hac no_rule (arrGet_sub st.h ra i 0 []))
  | mapAdd m k v =>
    simp only [step]
    cases hm : st.slot m with
    | none => exact acyclic_congr rfl hac
    | some rm =>
      cases hk : st.slot k with
      | none => exact acyclic_congr rfl hac
      | some rk =>
        cases hv : st.slot v with
        | none => exact acyclic_congr rfl hac
        | some rv =>
          simp only [NoCycleRule, hm, hk, hv, noReach] at hrule
          refine acyclic_sub hac ?_ (mapAdd_sub ω st.h rm rk rv)
          intro y hy
          simp only [List.mem_cons, List.not_mem_nil, or_false] at hy
          rcases hy with e | e
          · rw [e]; exact hrule.1
          · rw [e]; exact hrule.2
  | chunk s c =>
    simp only [step]
    cases hs' : st.slot s with
    | none => exact acyclic_congr rfl hac
    | some rs =>
      cases hc' : st.slot c with
      | none => exact acyclic_congr rfl hac
      | some rc =>
        simp only [NoCycleRule, hs', hc', noReach] at hrule
        exact acyclic_sub hac (single_rule hrule) (addChunk_sub ω st.h rs rc)
  | tagSet t x s =>
    simp only [step]
    cases ht : st.slot t with
    | none => exact acyclic_congr rfl hac
    | some rt =>
      cases hx : st.slot x with
      | none => exact acyclic_congr rfl hac
      | some rx =>
        simp only [NoCycleRule, ht, hx, noReach] at hrule
        simp only
        have hq := acyclic_sub hac (single_rule hrule) (tagSet_sub st.h rt rx)
        cases hts : tagSet st.h rt rx with
        | mk o h2 =>
          rw [hts] at hq
          cases o with
          | none => exact hq
          | some old =>
            simp only
            split
            · exact acyclic_congr rfl hq
            · cases hsl : st.slot s with
              | none => exact hq
              | some v => exact acyclic_congr rfl hq
  | tagGet s t =>
    simp only [step]
    cases ht : st.slot t with
    | none => exact acyclic_congr rfl hac
    | some rt => exact acyclic_fresh st s _ _ (acyclic_sub hac no_rule (tagGet_sub st.h rt 0 []))
  | copy s x =>
    simp only [step]
    cases hx : st.slot x with
    | none => exact acyclic_congr rfl hac
    | some rx => exact acyclic_fresh st s _ _ (hcopy_wf ω st.h rx ⟨hac, hcl⟩).1
  | incref s x =>
    simp only [step]
    cases hx : st.slot x with
    | none => exact acyclic_congr rfl hac
    | some rx => exact acyclic_fresh st s _ _ (acyclic_sub hac no_rule (Sub.incref st.h rx 0 []))
  | decref s =>
    simp only [step]
    cases hs' : st.slot s with
    | none => exact acyclic_congr rfl hac
    | some r => exact acyclic_shrinks hac (H.decref_shrinks st.h r)
  | load s b =>
    simp only [step]
    exact acyclic_fresh st s _ _ (load_wf ⟨hac, hcl⟩ ω L b.toArray).1

end Heap

/-! ### an executable check of the rule (a sufficient condition, used for concrete histories) -/
namespace Heap

/-- everything reachable from `S` within `fuel` steps -/
def reachList (h : H) : Nat → List Ref → List Ref
  | 0, S => S
  | f+1, S => reachList h f (S ++ S.flatMap fun r => match h.get r with | some c => c.node.children | none => []).eraseDups

/-- `a` is certainly not reachable from `x`: the items found from `x` are closed under references and `a` is not among them -/
def unreachB (h : H) (x a : Ref) : Bool :=
  let S := reachList h h.cells.length [x]
  closedSet h S && S.contains x && !S.contains a

theorem unreachB_sound {h : H} {x a : Ref} (hb : unreachB h x a = true) : ¬ Reach h x a := by
  simp only [unreachB, Bool.and_eq_true, Bool.not_eq_true'] at hb
  exact not_reach_of_closedSet _ hb.1.1 hb.1.2 hb.2

def noReachB (h : H) : Option Ref → Option Ref → Bool
  | some x, some a => unreachB h x a
  | _, _ => true

theorem noReachB_sound {h : H} {x a : Option Ref} (hb : noReachB h x a = true) : noReach h x a := by
  cases x <;> cases a <;> simp only [noReach]
  exact unreachB_sound hb

def noCycleRuleB (st : St) : Op → Bool
  | .push a x => noReachB st.h (st.slot x) (st.slot a)
  | .pushMove a x => noReachB st.h (st.slot x) (st.slot a)
  | .set a _ x => noReachB st.h (st.slot x) (st.slot a)
  | .replace a _ x => noReachB st.h (st.slot x) (st.slot a)
  | .mapAdd m k v => noReachB st.h (st.slot k) (st.slot m) && noReachB st.h (st.slot v) (st.slot m)
  | .chunk s c => noReachB st.h (st.slot c) (st.slot s)
  | .tagSet t x _ => noReachB st.h (st.slot x) (st.slot t)
  | .buildTag _ _ x => noReachB st.h (st.slot x) (some st.h.cells.length)
  | _ => true

theorem noCycleRuleB_sound {st : St} {op : Op} (hb : noCycleRuleB st op = true) : NoCycleRule st op := by
  cases op <;> simp only [NoCycleRule, noCycleRuleB, Bool.and_eq_true] at hb ⊢
  all_goals first
    | exact noReachB_sound hb
    | exact ⟨noReachB_sound hb.1, noReachB_sound hb.2⟩

end Heap

namespace Props.C04
open Heap

/-- in a state whose books are in order nothing can reach the tag `buildTag` is about to create -/
theorem noCycleRule_buildTag (st : St) (hc : Counts st.h (own st)) (s n x : Nat) : NoCycleRule st (.buildTag s n x) := by
  simp only [NoCycleRule]
  cases hx : st.slot x with
  | none => simp only [noReach]
  | some rx =>
    simp only [noReach]
    intro hr
    have hpos : 0 < own st rx := by
      simp only [St.slot] at hx
      cases hh : st.slots[x]? with
      | none => rw [hh] at hx; cases hx
      | some v =>
        rw [hh] at hx
        simp only [Option.join] at hx
        subst hx
        exact List.count_pos_iff.mpr (List.mem_of_getElem? hh)
    obtain ⟨c, hg⟩ := (C04_no_dangling st.h (own st) hc).1 rx hpos
    exact Nat.lt_irrefl _ (reach_lt (closedAll_of_counts hc) hr (get_lt hg))

/-- a history in which every step follows `NoCycleRule` in the state it is applied to -/
def NoCycles (ω : Oracle) (L : Nat) : St → List Op → Prop
  | _, [] => True
  | st, op :: ops => NoCycleRule st op ∧ NoCycles ω L (step ω L st op).1 ops

/-- executable sufficient condition for `NoCycles` -/
def noCyclesB (ω : Oracle) (L : Nat) : St → List Op → Bool
  | _, [] => true
  | st, op :: ops => noCycleRuleB st op && noCyclesB ω L (step ω L st op).1 ops

theorem noCyclesB_sound (ω : Oracle) (L : Nat) : ∀ (ops : List Op) (st : St), noCyclesB ω L st ops = true → NoCycles ω L st ops
  | [], _, _ => trivial
  | op :: ops, st, hb => by
    simp only [noCyclesB, Bool.and_eq_true] at hb
    exact ⟨noCycleRuleB_sound hb.1, noCyclesB_sound ω L ops _ hb.2⟩

theorem acyclic_init : Acyclic ({} : St).h := ⟨fun _ => 0, fun r c hg => by simp [H.get] at hg⟩

/-- **Every reachable state is acyclic.**  After any rule-following history in which every step also follows
`NoCycleRule`, under any allocator oracle, the container graph is acyclic. -/
theorem C04_acyclic_run (ω : Oracle) (L : Nat) : ∀ (ops : List Op) (st : St),
    Counts st.h (own st) → Acyclic st.h → RuleFollowing ω L st ops → NoCycles ω L st ops → Acyclic (run ω L st ops).h
  | [], _, _, hac, _, _ => hac
  | op :: ops, st, hc, hac, hr, hn =>
    C04_acyclic_run ω L ops (step ω L st op).1 (C04_step ω L st op hc hr.1)
      (acyclic_step ω L st op hac (closedAll_of_counts hc) hn.1) hr.2 hn.2

theorem C04_acyclic_run_from_init (ω : Oracle) (L : Nat) (ops : List Op) (hr : RuleFollowing ω L {} ops)
    (hcyc : NoCycles ω L {} ops) : Acyclic (run ω L {} ops).h :=
  C04_acyclic_run ω L ops {} counts_init acyclic_init hr hcyc

/-- **Nothing is left** — with acyclicity as a rule the client follows step by step rather than a hypothesis on the final
state: after any history from the empty heap in which the client breaks no rule and never inserts an item into a container
reachable from it, under any allocator oracle, if the client holds no reference any more then no item is live. -/
theorem C04_nothing_left' (ω : Oracle) (L : Nat) (ops : List Op) (hr : RuleFollowing ω L {} ops)
    (hcyc : NoCycles ω L {} ops) (hz : ∀ r, own (run ω L {} ops) r = 0) :
    ∀ r, (run ω L {} ops).h.get r = none :=
  C04_nothing_left ω L ops hr hz (C04_acyclic_run_from_init ω L ops hr hcyc)

/-! non-vacuity: a concrete history (array in a tag, both in a map, the map in another tag; the previous content of the
tag handed back) satisfies every hypothesis of `C04_nothing_left'`, so everything it allocated has been released -/

def exampleOps : List Op :=
  [.newInt 0 false .w8 7, .newArr 1 false 0, .push 1 0, .buildTag 2 7 1, .newMap 4 false 0, .mapAdd 4 0 2,
   .newTag 3 1, .tagSet 3 4 5, .newArr 6 true 2, .set 6 0 3, .tagSet 3 0 5,
   .decref 0, .decref 1, .decref 2, .decref 3, .decref 4, .decref 5, .decref 6]

theorem exampleOps_hyps :
    RuleFollowing (fun _ => true) 2048 {} exampleOps ∧ NoCycles (fun _ => true) 2048 {} exampleOps ∧
    ∀ r, own (run (fun _ => true) 2048 {} exampleOps) r = 0 :=
  ⟨by simp only [exampleOps, RuleFollowing]; decide, noCyclesB_sound _ _ _ _ (by decide), fun r => by
    have e : (run (fun _ => true) 2048 {} exampleOps).slots = List.replicate 16 none := by decide
    show List.count (some r) (run (fun _ => true) 2048 {} exampleOps).slots = 0
    rw [e]; simp⟩

example : (run (fun _ => true) 2048 {} (exampleOps.take 11)).h.liveCells = 6 := by decide

example : ∀ r, (run (fun _ => true) 2048 {} exampleOps).h.get r = none :=
  C04_nothing_left' _ _ _ exampleOps_hyps.1 exampleOps_hyps.2.1 exampleOps_hyps.2.2

/-! the same with `cbor_copy` and `cbor_load` in the history (`copy` and `load` only reduce in the kernel: `decide +kernel`) -/

def exampleOps2 : List Op :=
  [.newInt 0 false .w8 7, .newArr 1 false 0, .push 1 0, .buildTag 2 7 1, .copy 3 2, .load 4 [0x82, 0x01, 0x61, 0x61], .push 1 4,
   .decref 0, .decref 1, .decref 2, .decref 3, .decref 4]

example : (run (fun _ => true) 2048 {} (exampleOps2.take 7)).h.liveCells = 9 := by decide +kernel

example : ∀ r, (run (fun _ => true) 2048 {} exampleOps2).h.get r = none :=
  C04_nothing_left' _ _ _ (by simp only [exampleOps2, RuleFollowing]; decide +kernel) (noCyclesB_sound _ _ _ _ (by decide +kernel))
    (fun r => by
      have e : (run (fun _ => true) 2048 {} exampleOps2).slots = List.replicate 16 none := by decide +kernel
      show List.count (some r) (run (fun _ => true) 2048 {} exampleOps2).slots = 0
      rw [e]; simp)

/-! the rule is needed: a client that pushes an array into itself breaks no other rule, ends up owning nothing, and
the array is never released -/
example :
    let ops : List Op := [.newArr 0 false 0, .push 0 0, .decref 0]
    let st := run (fun _ => true) 2048 {} ops
    RuleFollowing (fun _ => true) 2048 {} ops ∧ st.slots = List.replicate 16 none ∧ st.h.liveCells = 1 ∧
    ¬ NoCycles (fun _ => true) 2048 {} ops := by
  refine ⟨by simp only [RuleFollowing]; decide, by decide, by decide, ?_⟩
  intro hn
  exact hn.2.1 (Reach.refl _)

end Props.C04

import Cbor.Lemmas.Half
/-! shard 54 of the exhaustive binary16 table check (patterns 55296 .. 56319), kernel-evaluated -/
namespace Lemmas
theorem half_shard_54 : halfShardOk 54 = true := by decide +kernel
end Lemmas

import Cbor.Model.Serialize
import Cbor.Lemmas.PubEncoders
import Cbor.Lemmas.HalfAll
import Cbor.Spec.EncodeLemmas
import Cbor.Props.C15
/-!
# The serializer model writes exactly `Spec.encode`, or returns 0 without leaving the buffer
-/
namespace Lemmas.Ser
open Model Spec Lemmas Gen

/-- `buf'` differs from `buf` at most inside `[off, off + n)` -/
def Within (buf buf' : Array UInt8) (off n : Nat) : Prop :=
  buf'.size = buf.size ∧ ∀ i, (i < off ∨ off + n ≤ i) → buf'[i]? = buf[i]?

theorem Within.refl (buf : Array UInt8) (off n : Nat) : Within buf buf off n := ⟨rfl, fun _ _ => rfl⟩

theorem Within.trans {a b c : Array UInt8} {off n off' n' : Nat} (h1 : Within a b off n) (h2 : Within b c off' n')
    (ho : off ≤ off') (hn : off' + n' ≤ off + n) : Within a c off n :=
  ⟨h2.1.trans h1.1, fun i hi => (h2.2 i (by omega)).trans (h1.2 i hi)⟩

theorem within_writeList (buf : Array UInt8) (off n : Nat) (bs : List UInt8) (h : bs.length ≤ n) :
    Within buf (writeList buf off bs) off n :=
  ⟨writeList_size _ _ _, fun i hi => by
    rcases hi with hi | hi
    · exact writeList_getElem?_of_lt _ _ _ _ hi
    · exact writeList_getElem?_of_ge _ _ _ _ (by omega)⟩

theorem writeList_append (buf : Array UInt8) (off : Nat) (a b : List UInt8) :
    writeList buf off (a ++ b) = writeList (writeList buf off a) (off + a.length) b := by
  induction a generalizing buf off with
  | nil => simp [writeList]
  | cons x xs ih => simp only [List.cons_append, writeList, List.length_cons]; rw [ih]; congr 1; omega

theorem copyInto_eq (buf : Array UInt8) (off : Nat) (bs : List UInt8) : copyInto buf off bs = writeList buf off bs := by
  induction bs generalizing buf off with
  | nil => rfl
  | cons b bs ih => simp [copyInto, writeList, ih]

/-- outcome of an encoder / serializer call that is meant to emit `bs` into `n` bytes at `off` -/
def SerSpec (buf : Array UInt8) (off : Nat) (n : UInt64) (bs : List UInt8) (r : UInt64 × Array UInt8) : Prop :=
  (bs.length ≤ n.toNat → r = (UInt64.ofNat bs.length, writeList buf off bs)) ∧
  (n.toNat < bs.length → r.1 = 0 ∧ Within buf r.2 off n.toNat)

theorem encRes_spec (buf : Array UInt8) (off : Nat) (n : UInt64) (bs : List UInt8) :
    SerSpec buf off n bs (encRes buf off n bs) := by
  unfold SerSpec encRes
  constructor
  · intro h; simp [h]
  · intro h; have : ¬ bs.length ≤ n.toNat := by omega
    simp only [this, if_false]; exact ⟨trivial, Within.refl _ _ _⟩

end Lemmas.Ser

namespace Lemmas.Ser
open Model Spec Lemmas Gen

theorem ofNat_len (k : Nat) (h : k < 2 ^ 64) : (UInt64.ofNat k).toNat = k := by
  simp [UInt64.toNat_ofNat']; omega

/-- sequential composition: first `a` (result `r1`), then — if that wrote something — `b` by `f` at the
advanced offset with the reduced size; 0 as soon as one part reports 0 -/
theorem ser_seq (buf : Array UInt8) (off : Nat) (n : UInt64) (a b : List UInt8) (r1 : UInt64 × Array UInt8)
    (f : Array UInt8 → Nat → UInt64 → UInt64 × Array UInt8)
    (h1 : SerSpec buf off n a r1) (h2 : ∀ buf' off' n', SerSpec buf' off' n' b (f buf' off' n'))
    (ha : a ≠ []) (hb : b ≠ []) (hlen : (a ++ b).length < 2 ^ 64) :
    SerSpec buf off n (a ++ b)
      (if r1.1 = 0 then (0, r1.2) else
        (if (f r1.2 (off + r1.1.toNat) (n - r1.1)).1 = 0 then (0, (f r1.2 (off + r1.1.toNat) (n - r1.1)).2)
         else (r1.1 + (f r1.2 (off + r1.1.toNat) (n - r1.1)).1, (f r1.2 (off + r1.1.toNat) (n - r1.1)).2))) := by
  simp only [List.length_append] at hlen
  have hapos : 0 < a.length := by cases a with | nil => contradiction | cons _ _ => simp
  have hbpos : 0 < b.length := by cases b with | nil => contradiction | cons _ _ => simp
  by_cases hfa : a.length ≤ n.toNat
  · have e1 := h1.1 hfa
    have hal := ofNat_len a.length (by omega)
    have hne : (UInt64.ofNat a.length) ≠ 0 := fun h => by
      have : a.length = 0 := by rw [← hal, h]; rfl
      omega
    rw [e1]
    simp only [hne, if_false]
    have hsub : (n - UInt64.ofNat a.length).toNat = n.toNat - a.length := by
      rw [UInt64.toNat_sub_of_le _ _ (UInt64.le_iff_toNat_le.mpr (by rw [hal]; exact hfa)), hal]
    rw [hal]
    have s2 := h2 (writeList buf off a) (off + a.length) (n - UInt64.ofNat a.length)
    generalize f (writeList buf off a) (off + a.length) (n - UInt64.ofNat a.length) = r2 at s2
    by_cases hfb : b.length ≤ n.toNat - a.length
    · have e2 := s2.1 (by rw [hsub]; exact hfb)
      have hbl := ofNat_len b.length (by omega)
      have hne2 : (UInt64.ofNat b.length) ≠ 0 := fun h => by
        have : b.length = 0 := by rw [← hbl, h]; rfl
        omega
      rw [e2]
      simp only [hne2, if_false]
      constructor
      · intro _
        rw [writeList_append, List.length_append]
        congr 1
        apply UInt64.toNat_inj.mp
        rw [UInt64.toNat_add, hal, hbl, ofNat_len _ (by omega)]
        omega
      · intro h; simp only [List.length_append] at h; omega
    · have e2 := s2.2 (by rw [hsub]; omega)
      simp only [e2.1, if_true]
      constructor
      · intro h; simp only [List.length_append] at h; omega
      · intro _
        refine ⟨rfl, ?_⟩
        have w1 := within_writeList buf off n.toNat a hfa
        rw [hsub] at e2
        exact Within.trans w1 e2.2 (by omega) (by omega)
  · have e1 := h1.2 (by omega)
    simp only [e1.1, if_true]
    constructor
    · intro h; simp only [List.length_append] at h; omega
    · intro _; exact ⟨rfl, e1.2⟩

end Lemmas.Ser

namespace Lemmas.Ser
open Model Spec Lemmas Gen

mutual
/-- value ranges of the stored scalars (what the construction API and the decoder can produce) -/
def Valid : Item → Prop
  | .uint w v => v < 2 ^ (8 * w.bytes)
  | .negint w v => v < 2 ^ (8 * w.bytes)
  | .array xs => ValidL xs
  | .arrayI xs => ValidL xs
  | .map kvs => ValidP kvs
  | .mapI kvs => ValidP kvs
  | .tag n x => n < 2 ^ 64 ∧ Valid x
  | .simple v => v < 256
  | .half f => ∃ h, h < 65536 ∧ f = (Ext.decodeHalfBits h).toNat     -- holds a half-representable value (or a NaN)
  | .single b => b < 2 ^ 32
  | .double b => b < 2 ^ 64
  | _ => True
def ValidL : List Item → Prop
  | [] => True
  | x :: xs => Valid x ∧ ValidL xs
def ValidP : List (Item × Item) → Prop
  | [] => True
  | (k, v) :: r => Valid k ∧ Valid v ∧ ValidP r
end

theorem u8_of (v : Nat) (h : v < 256) : (UInt8.ofNat v).toNat = v := by simp [UInt8.toNat_ofNat']; omega
theorem u16_of (v : Nat) (h : v < 65536) : (UInt16.ofNat v).toNat = v := by simp [UInt16.toNat_ofNat']; omega
theorem u32_of (v : Nat) (h : v < 4294967296) : (UInt32.ofNat v).toNat = v := by simp [UInt32.toNat_ofNat']; omega
theorem u64_of (v : Nat) (h : v < 2 ^ 64) : (UInt64.ofNat v).toNat = v := by simp [UInt64.toNat_ofNat']; omega

theorem canon32_spec (b : UInt32) : (canon32 b).toNat = Spec.Float.canonSingle b.toNat := by
  unfold canon32 Spec.Float.canonSingle
  rw [Props.C15.isNaN32_spec]
  split <;> rfl

theorem canon64_spec (b : UInt64) : (canon64 b).toNat = Spec.Float.canonDouble b.toNat := by
  unfold canon64 Spec.Float.canonDouble
  rw [Props.C15.isNaN64_spec]
  split <;> rfl

theorem halfRes_spec (h : Nat) (hh : h < 65536) :
    (halfRes (Ext.decodeHalfBits h)).toNat = Spec.Float.singleToHalf (Ext.decodeHalfBits h).toNat := by
  rw [singleToHalf_decode h hh]
  have := halfCheck_all h hh
  unfold halfCheck at this
  rw [strict_eq] at this
  simp only [Bool.and_eq_true] at this
  have h2 := this.2
  rw [strict_eq] at h2
  have e : UInt32.ofNat (Ext.decodeHalfBits h).toNat = Ext.decodeHalfBits h := by simp
  rw [e] at h2
  exact eq_of_beq h2

end Lemmas.Ser

namespace Lemmas.Ser
open Model Spec Lemmas Gen

theorem head_ne_nil (mt v : Nat) : Spec.head mt v ≠ [] := by
  unfold Spec.head Spec.headBytes; split <;> simp

theorem headBytes_ne_nil (mt ai v : Nat) : Spec.headBytes mt ai v ≠ [] := by
  unfold Spec.headBytes; split <;> simp

theorem head_len_le (mt v : Nat) : (Spec.head mt v).length ≤ 9 := by
  unfold Spec.head
  rw [Spec.headBytes_length]
  unfold Spec.shortestAi Spec.argBytes
  repeat' split
  all_goals omega

/-- definite string: head ++ payload -/
theorem serString_spec (isText : Bool) (data : List UInt8) (buf : Array UInt8) (off : Nat) (n : UInt64)
    (hlen : (Spec.head (if isText then 3 else 2) data.length ++ data).length < 2 ^ 64) :
    SerSpec buf off n (Spec.head (if isText then 3 else 2) data.length ++ data) (serString isText data buf off n) := by
  simp only [List.length_append] at hlen
  have hdl := u64_of data.length (by omega)
  have hr : (if isText then cbor_encode_string_start (UInt64.ofNat data.length) buf off n
             else cbor_encode_bytestring_start (UInt64.ofNat data.length) buf off n) =
            encRes buf off n (Spec.head (if isText then 3 else 2) data.length) := by
    cases isText <;> simp [pub_string_start, pub_bytestring_start, hdl]
  unfold serString
  simp only [hr]
  generalize hhd : Spec.head (if isText then 3 else 2) data.length = hd at hlen ⊢
  have hne : hd ≠ [] := by rw [← hhd]; exact head_ne_nil _ _
  have hpos : 0 < hd.length := by cases hd with | nil => contradiction | cons _ _ => simp
  unfold encRes
  by_cases hf : hd.length ≤ n.toNat
  · have hal := u64_of hd.length (by omega)
    simp only [hf, if_true]
    have hgt : (UInt64.ofNat hd.length > 0) = True := by
      simp only [gt_iff_lt, eq_iff_iff, iff_true]
      apply UInt64.lt_iff_toNat_lt.mpr; rw [hal]; simpa using hpos
    have hsub : (n - UInt64.ofNat hd.length).toNat = n.toNat - hd.length := by
      rw [UInt64.toNat_sub_of_le _ _ (UInt64.le_iff_toNat_le.mpr (by rw [hal]; exact hf)), hal]
    by_cases hp : data.length ≤ n.toNat - hd.length
    · have hge : (n - UInt64.ofNat hd.length ≥ UInt64.ofNat data.length) := by
        apply UInt64.le_iff_toNat_le.mpr; rw [hsub, hdl]; exact hp
      simp only [hgt, decide_true, hge, Bool.and_self, if_true, copyInto_eq, hal]
      constructor
      · intro _
        rw [writeList_append, List.length_append]
        congr 1
        apply UInt64.toNat_inj.mp
        rw [UInt64.toNat_add, hal, hdl, u64_of _ (by omega)]; omega
      · intro h; simp only [List.length_append] at h; omega
    · have hge : ¬ (n - UInt64.ofNat hd.length ≥ UInt64.ofNat data.length) := by
        intro h; have := UInt64.le_iff_toNat_le.mp h; rw [hsub, hdl] at this; omega
      simp only [hgt, decide_true, hge, decide_false, Bool.and_false, Bool.false_eq_true, if_false]
      constructor
      · intro h; simp only [List.length_append] at h; omega
      · intro _; exact ⟨rfl, within_writeList buf off n.toNat hd hf⟩
  · simp only [hf, if_false]
    have hgt : ¬ ((0 : UInt64) > 0) := by decide
    simp only [hgt, decide_false, Bool.false_and, Bool.false_eq_true, if_false]
    constructor
    · intro h; simp only [List.length_append] at h; omega
    · intro _; exact ⟨rfl, Within.refl _ _ _⟩

end Lemmas.Ser

namespace Lemmas.Ser
open Model Spec Lemmas Gen

/-- one more part `xb` after `pre` has been written -/
theorem cont_step (buf0 : Array UInt8) (off : Nat) (n : UInt64) (pre xb : List UInt8) (r : UInt64 × Array UInt8)
    (hpre : pre.length ≤ n.toNat) (hxb : xb ≠ []) (hlen : (pre ++ xb).length < 2 ^ 64)
    (hr : SerSpec (writeList buf0 off pre) (off + pre.length) (n - UInt64.ofNat pre.length) xb r) :
    (r.1 ≠ 0 ∧ r = (UInt64.ofNat xb.length, writeList buf0 off (pre ++ xb)) ∧ (pre ++ xb).length ≤ n.toNat ∧
       UInt64.ofNat pre.length + r.1 = UInt64.ofNat (pre ++ xb).length) ∨
    (r.1 = 0 ∧ Within buf0 r.2 off n.toNat ∧ n.toNat < (pre ++ xb).length) := by
  simp only [List.length_append] at hlen ⊢
  have hpl := u64_of pre.length (by omega)
  have hxl := u64_of xb.length (by omega)
  have hxpos : 0 < xb.length := by cases xb with | nil => contradiction | cons _ _ => simp
  have hsub : (n - UInt64.ofNat pre.length).toNat = n.toNat - pre.length := by
    rw [UInt64.toNat_sub_of_le _ _ (UInt64.le_iff_toNat_le.mpr (by rw [hpl]; exact hpre)), hpl]
  unfold SerSpec at hr
  rw [hsub] at hr
  by_cases hf : xb.length ≤ n.toNat - pre.length
  · left
    have e := hr.1 hf
    have hne : (UInt64.ofNat xb.length) ≠ 0 := fun h => by
      have : xb.length = 0 := by rw [← hxl, h]; rfl
      omega
    rw [e]
    refine ⟨hne, ?_, by omega, ?_⟩
    · rw [writeList_append]
    · apply UInt64.toNat_inj.mp
      rw [UInt64.toNat_add, hpl, hxl, u64_of _ (by omega)]; omega
  · right
    have e := hr.2 (by omega)
    refine ⟨e.1, ?_, by omega⟩
    exact Within.trans (within_writeList buf0 off n.toNat pre hpre) e.2 (by omega) (by omega)

theorem encodeChunks_cons (mt : Nat) (c : List UInt8) (cs : List (List UInt8)) :
    encodeChunks mt (c :: cs) = (Spec.head mt c.length ++ c) ++ encodeChunks mt cs := by
  simp [encodeChunks]

theorem serChunks_spec (isText : Bool) : ∀ (cs : List (List UInt8)) (buf0 : Array UInt8) (off : Nat) (n : UInt64) (pre : List UInt8),
    pre ≠ [] → pre.length ≤ n.toNat → (pre ++ encodeChunks (if isText then 3 else 2) cs).length < 2 ^ 64 →
    SerSpec buf0 off n (pre ++ encodeChunks (if isText then 3 else 2) cs)
      (serChunks isText cs (writeList buf0 off pre) off n (UInt64.ofNat pre.length)) := by
  intro cs
  induction cs with
  | nil =>
    intro buf0 off n pre _ hfit _
    simp only [encodeChunks, List.append_nil, serChunks]
    exact ⟨fun _ => rfl, fun h => by omega⟩
  | cons c cs ih =>
    intro buf0 off n pre hne hfit hlen
    rw [encodeChunks_cons] at hlen ⊢
    rw [← List.append_assoc] at hlen ⊢
    have hpl := u64_of pre.length (by simp only [List.length_append] at hlen; omega)
    simp only [serChunks, hpl]
    have hchunk : (Spec.head (if isText then 3 else 2) c.length ++ c).length < 2 ^ 64 := by
      simp only [List.length_append] at hlen ⊢; omega
    have hs := serString_spec isText c (writeList buf0 off pre) (off + pre.length) (n - UInt64.ofNat pre.length) hchunk
    have hxb : Spec.head (if isText then 3 else 2) c.length ++ c ≠ [] := by
      have := head_ne_nil (if isText then 3 else 2) c.length
      intro h; exact this (List.append_eq_nil_iff.mp h).1
    rcases cont_step buf0 off n pre _ _ hfit hxb (by simp only [List.length_append] at hlen ⊢; omega) hs with ⟨h1, h2, h3, h4⟩ | ⟨h1, h2, h3⟩
    · simp only [h1, if_false]
      rw [h4]
      have := ih buf0 off n (pre ++ (Spec.head (if isText then 3 else 2) c.length ++ c))
        (by simp [hne]) h3 hlen
      rw [h2]
      simpa using this
    · simp only [h1, if_true]
      constructor
      · intro h; simp only [List.length_append] at h h3; omega
      · intro _; exact ⟨rfl, h2⟩

end Lemmas.Ser

namespace Lemmas.Ser
open Model Spec Lemmas Gen

/-- a head `hd` written by a low-level encoder, then a continuation `g` that is correct once `hd` is in place -/
theorem head_then (buf : Array UInt8) (off : Nat) (n : UInt64) (hd rest : List UInt8)
    (g : Array UInt8 → UInt64 → UInt64 × Array UInt8) (hne : hd ≠ []) (hlen : (hd ++ rest).length < 2 ^ 64)
    (hg : hd.length ≤ n.toNat → SerSpec buf off n (hd ++ rest) (g (writeList buf off hd) (UInt64.ofNat hd.length))) :
    SerSpec buf off n (hd ++ rest)
      (if (encRes buf off n hd).1 = 0 then (0, (encRes buf off n hd).2) else g (encRes buf off n hd).2 (encRes buf off n hd).1) := by
  simp only [List.length_append] at hlen
  have hpos : 0 < hd.length := by cases hd with | nil => contradiction | cons _ _ => simp
  unfold encRes
  by_cases hf : hd.length ≤ n.toNat
  · have hal := u64_of hd.length (by omega)
    have hne0 : (UInt64.ofNat hd.length) ≠ 0 := fun h => by
      have : hd.length = 0 := by rw [← hal, h]; rfl
      omega
    simp only [hf, if_true, hne0, if_false]
    exact hg hf
  · simp only [hf, if_false, if_true]
    constructor
    · intro h; simp only [List.length_append] at h; omega
    · intro _; exact ⟨rfl, Within.refl _ _ _⟩

mutual
theorem encode_pos : ∀ (t : Item), 0 < (encode t).length
  | .uint w v => by simp only [encode]; have := headBytes_ne_nil 0 (intAi w v) v; cases h : headBytes 0 (intAi w v) v <;> simp_all
  | .negint w v => by simp only [encode]; have := headBytes_ne_nil 1 (intAi w v) v; cases h : headBytes 1 (intAi w v) v <;> simp_all
  | .bytes b => by simp only [encode, List.length_append]; have := head_ne_nil 2 b.length; cases h : Spec.head 2 b.length <;> simp_all; omega
  | .bytesI cs => by simp [encode]
  | .text b => by simp only [encode, List.length_append]; have := head_ne_nil 3 b.length; cases h : Spec.head 3 b.length <;> simp_all; omega
  | .textI cs => by simp [encode]
  | .array xs => by simp only [encode, List.length_append]; have := head_ne_nil 4 xs.length; cases h : Spec.head 4 xs.length <;> simp_all; omega
  | .arrayI xs => by simp [encode]
  | .map kvs => by simp only [encode, List.length_append]; have := head_ne_nil 5 kvs.length; cases h : Spec.head 5 kvs.length <;> simp_all; omega
  | .mapI kvs => by simp [encode]
  | .tag n x => by simp only [encode, List.length_append]; have := encode_pos x; omega
  | .simple v => by simp only [encode]; have := headBytes_ne_nil 7 (if v < 24 then v else 24) v; cases h : headBytes 7 (if v < 24 then v else 24) v <;> simp_all
  | .half f => by simp [encode, headBytes, argBytes, beBytes]
  | .single b => by simp [encode, headBytes, argBytes, beBytes]
  | .double b => by simp [encode, headBytes, argBytes, beBytes]
end

theorem encodeList_len : ∀ (xs : List Item), xs.length ≤ (encodeList xs).length
  | [] => by simp [encodeList]
  | x :: xs => by
    simp only [encodeList, List.length_append, List.length_cons]
    have := encode_pos x; have := encodeList_len xs; omega

theorem encodePairs_len : ∀ (kvs : List (Item × Item)), kvs.length ≤ (encodePairs kvs).length
  | [] => by simp [encodePairs]
  | (k, v) :: r => by
    simp only [encodePairs, List.length_append, List.length_cons]
    have := encode_pos k; have := encodePairs_len r; omega

theorem intAi_w8 (v : Nat) : intAi .w8 v = ai8 v := rfl

/-- indefinite-length item: start byte, a member loop, then the break byte -/
theorem indef_wrap (buf : Array UInt8) (off : Nat) (n : UInt64) (sb : UInt8) (body : List UInt8)
    (loop : Array UInt8 → UInt64 → UInt64 × Array UInt8) (hlen : (([sb] ++ body) ++ [0xFF]).length < 2 ^ 64)
    (hloop : 1 ≤ n.toNat → SerSpec buf off n ([sb] ++ body) (loop (writeList buf off [sb]) (UInt64.ofNat 1))) :
    SerSpec buf off n (([sb] ++ body) ++ [0xFF])
      (if (encRes buf off n [sb]).1 = 0 then (0, (encRes buf off n [sb]).2) else
        (if (loop (encRes buf off n [sb]).2 (encRes buf off n [sb]).1).1 = 0 then (0, (loop (encRes buf off n [sb]).2 (encRes buf off n [sb]).1).2)
         else
          (if (cbor_encode_break (loop (encRes buf off n [sb]).2 (encRes buf off n [sb]).1).2
                (off + (loop (encRes buf off n [sb]).2 (encRes buf off n [sb]).1).1.toNat) (n - (loop (encRes buf off n [sb]).2 (encRes buf off n [sb]).1).1)).1 = 0
           then (0, (cbor_encode_break (loop (encRes buf off n [sb]).2 (encRes buf off n [sb]).1).2
                (off + (loop (encRes buf off n [sb]).2 (encRes buf off n [sb]).1).1.toNat) (n - (loop (encRes buf off n [sb]).2 (encRes buf off n [sb]).1).1)).2)
           else ((loop (encRes buf off n [sb]).2 (encRes buf off n [sb]).1).1 +
                 (cbor_encode_break (loop (encRes buf off n [sb]).2 (encRes buf off n [sb]).1).2
                (off + (loop (encRes buf off n [sb]).2 (encRes buf off n [sb]).1).1.toNat) (n - (loop (encRes buf off n [sb]).2 (encRes buf off n [sb]).1).1)).1,
                 (cbor_encode_break (loop (encRes buf off n [sb]).2 (encRes buf off n [sb]).1).2
                (off + (loop (encRes buf off n [sb]).2 (encRes buf off n [sb]).1).1.toNat) (n - (loop (encRes buf off n [sb]).2 (encRes buf off n [sb]).1).1)).2)))) := by
  have key := head_then buf off n [sb] (body ++ [0xFF])
    (fun b w => (if (loop b w).1 = 0 then (0, (loop b w).2) else
        (if (cbor_encode_break (loop b w).2 (off + (loop b w).1.toNat) (n - (loop b w).1)).1 = 0
         then (0, (cbor_encode_break (loop b w).2 (off + (loop b w).1.toNat) (n - (loop b w).1)).2)
         else ((loop b w).1 + (cbor_encode_break (loop b w).2 (off + (loop b w).1.toNat) (n - (loop b w).1)).1,
               (cbor_encode_break (loop b w).2 (off + (loop b w).1.toNat) (n - (loop b w).1)).2))))
    (by simp) (by simpa using hlen)
    (by
      intro hfit
      have hs := hloop (by simpa using hfit)
      have := ser_seq buf off n ([sb] ++ body) [0xFF] _ (fun b o m => cbor_encode_break b o m) hs
        (fun b o m => by rw [pub_break]; exact encRes_spec _ _ _ _) (by simp) (by simp) hlen
      simpa [List.append_assoc] using this)
  simpa [List.append_assoc] using key

mutual
theorem ser_item : ∀ (t : Item), Valid t → (encode t).length < 2 ^ 64 → ∀ (buf : Array UInt8) (off : Nat) (n : UInt64),
    SerSpec buf off n (encode t) (serialize t buf off n)
  | .uint .w8 v, hv, _, buf, off, n => by
    simp only [Valid, Width.bytes] at hv
    simp only [serialize, encode, pub_uint8, u8_of v (by omega), intAi_w8]; exact encRes_spec _ _ _ _
  | .uint .w16 v, hv, _, buf, off, n => by
    simp only [Valid, Width.bytes] at hv
    simp only [serialize, encode, pub_uint16, u16_of v (by omega), intAi]; exact encRes_spec _ _ _ _
  | .uint .w32 v, hv, _, buf, off, n => by
    simp only [Valid, Width.bytes] at hv
    simp only [serialize, encode, pub_uint32, u32_of v (by omega), intAi]; exact encRes_spec _ _ _ _
  | .uint .w64 v, hv, _, buf, off, n => by
    simp only [Valid, Width.bytes] at hv
    simp only [serialize, encode, pub_uint64, u64_of v (by omega), intAi]; exact encRes_spec _ _ _ _
  | .negint .w8 v, hv, _, buf, off, n => by
    simp only [Valid, Width.bytes] at hv
    simp only [serialize, encode, pub_negint8, u8_of v (by omega), intAi_w8]; exact encRes_spec _ _ _ _
  | .negint .w16 v, hv, _, buf, off, n => by
    simp only [Valid, Width.bytes] at hv
    simp only [serialize, encode, pub_negint16, u16_of v (by omega), intAi]; exact encRes_spec _ _ _ _
  | .negint .w32 v, hv, _, buf, off, n => by
    simp only [Valid, Width.bytes] at hv
    simp only [serialize, encode, pub_negint32, u32_of v (by omega), intAi]; exact encRes_spec _ _ _ _
  | .negint .w64 v, hv, _, buf, off, n => by
    simp only [Valid, Width.bytes] at hv
    simp only [serialize, encode, pub_negint64, u64_of v (by omega), intAi]; exact encRes_spec _ _ _ _
  | .bytes b, _, hl, buf, off, n => by
    simp only [serialize, encode] at hl ⊢
    exact serString_spec false b buf off n hl
  | .text b, _, hl, buf, off, n => by
    simp only [serialize, encode] at hl ⊢
    exact serString_spec true b buf off n hl
  | .simple v, hv, _, buf, off, n => by
    simp only [Valid] at hv
    simp only [serialize, encode, pub_ctrl, u8_of v hv, ai8]; exact encRes_spec _ _ _ _
  | .single b, hv, _, buf, off, n => by
    simp only [Valid] at hv
    simp only [serialize, encode, pub_single, canon32_spec, u32_of b (by omega)]; exact encRes_spec _ _ _ _
  | .double b, hv, _, buf, off, n => by
    simp only [Valid] at hv
    simp only [serialize, encode, pub_double, canon64_spec, u64_of b hv]; exact encRes_spec _ _ _ _
  | .half f, hv, _, buf, off, n => by
    simp only [Valid] at hv
    obtain ⟨h, hh, rfl⟩ := hv
    have e : UInt32.ofNat (Ext.decodeHalfBits h).toNat = Ext.decodeHalfBits h := by simp
    simp only [serialize, encode, pub_half, e, halfRes_spec h hh]; exact encRes_spec _ _ _ _
  | .tag t x, hv, hl, buf, off, n => by
    simp only [Valid] at hv
    simp only [serialize, encode, pub_tag, u64_of t hv.1] at hl ⊢
    have hx : (encode x).length < 2 ^ 64 := by simp only [List.length_append] at hl; omega
    have hne : encode x ≠ [] := by have := encode_pos x; intro h; rw [h] at this; simp at this
    exact ser_seq buf off n (Spec.head 6 t) (encode x) _ (fun b o m => serialize x b o m)
      (encRes_spec _ _ _ _) (fun b o m => ser_item x hv.2 hx b o m) (head_ne_nil _ _) hne hl
  | .bytesI cs, _, hl, buf, off, n => by
    simp only [encode] at hl ⊢
    have := indef_wrap buf off n 0x5F (encodeChunks 2 cs) (fun b w => serChunks false cs b off n w) hl
      (fun hfit => serChunks_spec false cs buf off n [0x5F] (by simp) (by simpa using hfit)
        (by simp only [List.length_append] at hl ⊢; simp at hl ⊢; omega))
    simpa [serialize, serIndefString, pub_indef_bytestring_start] using this
  | .textI cs, _, hl, buf, off, n => by
    simp only [encode] at hl ⊢
    have := indef_wrap buf off n 0x7F (encodeChunks 3 cs) (fun b w => serChunks true cs b off n w) hl
      (fun hfit => serChunks_spec true cs buf off n [0x7F] (by simp) (by simpa using hfit)
        (by simp only [List.length_append] at hl ⊢; simp at hl ⊢; omega))
    simpa [serialize, serIndefString, pub_indef_string_start] using this
  | .array xs, hv, hl, buf, off, n => by
    simp only [Valid] at hv
    simp only [encode] at hl ⊢
    have hxl : xs.length < 2 ^ 64 := by
      have := encodeList_len xs; simp only [List.length_append] at hl; omega
    have := head_then buf off n (Spec.head 4 xs.length) (encodeList xs) (fun b w => serList xs b off n w)
      (head_ne_nil _ _) hl (fun hfit => ser_list xs hv buf off n _ (head_ne_nil _ _) hfit hl)
    simpa [serialize, pub_array_start, u64_of xs.length hxl] using this
  | .arrayI xs, hv, hl, buf, off, n => by
    simp only [Valid] at hv
    simp only [encode] at hl ⊢
    have := indef_wrap buf off n 0x9F (encodeList xs) (fun b w => serList xs b off n w) hl
      (fun hfit => ser_list xs hv buf off n [0x9F] (by simp) (by simpa using hfit)
        (by simp only [List.length_append] at hl ⊢; simp at hl ⊢; omega))
    simpa [serialize, pub_indef_array_start] using this
  | .map kvs, hv, hl, buf, off, n => by
    simp only [Valid] at hv
    simp only [encode] at hl ⊢
    have hxl : kvs.length < 2 ^ 64 := by
      have := encodePairs_len kvs; simp only [List.length_append] at hl; omega
    have := head_then buf off n (Spec.head 5 kvs.length) (encodePairs kvs) (fun b w => serPairs kvs b off n w)
      (head_ne_nil _ _) hl (fun hfit => ser_pairs kvs hv buf off n _ (head_ne_nil _ _) hfit hl)
    simpa [serialize, pub_map_start, u64_of kvs.length hxl] using this
  | .mapI kvs, hv, hl, buf, off, n => by
    simp only [Valid] at hv
    simp only [encode] at hl ⊢
    have := indef_wrap buf off n 0xBF (encodePairs kvs) (fun b w => serPairs kvs b off n w) hl
      (fun hfit => ser_pairs kvs hv buf off n [0xBF] (by simp) (by simpa using hfit)
        (by simp only [List.length_append] at hl ⊢; simp at hl ⊢; omega))
    simpa [serialize, pub_indef_map_start] using this

theorem ser_list : ∀ (xs : List Item), ValidL xs → ∀ (buf0 : Array UInt8) (off : Nat) (n : UInt64) (pre : List UInt8),
    pre ≠ [] → pre.length ≤ n.toNat → (pre ++ encodeList xs).length < 2 ^ 64 →
    SerSpec buf0 off n (pre ++ encodeList xs) (serList xs (writeList buf0 off pre) off n (UInt64.ofNat pre.length))
  | [], _, buf0, off, n, pre, _, hfit, _ => by
    simp only [encodeList, List.append_nil, serList]
    exact ⟨fun _ => rfl, fun h => by omega⟩
  | x :: xs, hv, buf0, off, n, pre, hne, hfit, hlen => by
    simp only [ValidL] at hv
    simp only [encodeList] at hlen ⊢
    rw [← List.append_assoc] at hlen ⊢
    have hpl := u64_of pre.length (by simp only [List.length_append] at hlen; omega)
    simp only [serList, hpl]
    have hx : (encode x).length < 2 ^ 64 := by simp only [List.length_append] at hlen; omega
    have hs := ser_item x hv.1 hx (writeList buf0 off pre) (off + pre.length) (n - UInt64.ofNat pre.length)
    have hxb : encode x ≠ [] := by have := encode_pos x; intro h; rw [h] at this; simp at this
    rcases cont_step buf0 off n pre _ _ hfit hxb (by simp only [List.length_append] at hlen ⊢; omega) hs with ⟨h1, h2, h3, h4⟩ | ⟨h1, h2, h3⟩
    · simp only [h1, if_false]
      rw [h4]
      have := ser_list xs hv.2 buf0 off n (pre ++ encode x) (by simp [hne]) h3 hlen
      rw [h2]
      simpa using this
    · simp only [h1, if_true]
      constructor
      · intro h; simp only [List.length_append] at h h3; omega
      · intro _; exact ⟨rfl, h2⟩

theorem ser_pairs : ∀ (kvs : List (Item × Item)), ValidP kvs → ∀ (buf0 : Array UInt8) (off : Nat) (n : UInt64) (pre : List UInt8),
    pre ≠ [] → pre.length ≤ n.toNat → (pre ++ encodePairs kvs).length < 2 ^ 64 →
    SerSpec buf0 off n (pre ++ encodePairs kvs) (serPairs kvs (writeList buf0 off pre) off n (UInt64.ofNat pre.length))
  | [], _, buf0, off, n, pre, _, hfit, _ => by
    simp only [encodePairs, List.append_nil, serPairs]
    exact ⟨fun _ => rfl, fun h => by omega⟩
  | (k, v) :: r, hv, buf0, off, n, pre, hne, hfit, hlen => by
    simp only [ValidP] at hv
    simp only [encodePairs] at hlen ⊢
    have e : pre ++ (encode k ++ encode v ++ encodePairs r) = ((pre ++ encode k) ++ encode v) ++ encodePairs r := by
      simp [List.append_assoc]
    rw [e] at hlen ⊢
    have hpl := u64_of pre.length (by simp only [List.length_append] at hlen; omega)
    simp only [serPairs, hpl]
    have hk : (encode k).length < 2 ^ 64 := by simp only [List.length_append] at hlen; omega
    have hvl : (encode v).length < 2 ^ 64 := by simp only [List.length_append] at hlen; omega
    have hkb : encode k ≠ [] := by have := encode_pos k; intro h; rw [h] at this; simp at this
    have hvb : encode v ≠ [] := by have := encode_pos v; intro h; rw [h] at this; simp at this
    have hs := ser_item k hv.1 hk (writeList buf0 off pre) (off + pre.length) (n - UInt64.ofNat pre.length)
    rcases cont_step buf0 off n pre _ _ hfit hkb (by simp only [List.length_append] at hlen ⊢; omega) hs with ⟨h1, h2, h3, h4⟩ | ⟨h1, h2, h3⟩
    · simp only [h1, if_false]
      rw [h4, h2]
      have hpl2 := u64_of (pre ++ encode k).length (by simp only [List.length_append] at hlen ⊢; omega)
      simp only [hpl2]
      have hs2 := ser_item v hv.2.1 hvl (writeList buf0 off (pre ++ encode k)) (off + (pre ++ encode k).length)
        (n - UInt64.ofNat (pre ++ encode k).length)
      rcases cont_step buf0 off n (pre ++ encode k) _ _ h3 hvb (by simp only [List.length_append] at hlen ⊢; omega) hs2 with ⟨g1, g2, g3, g4⟩ | ⟨g1, g2, g3⟩
      · simp only [g1, if_false]
        rw [g4, g2]
        have := ser_pairs r hv.2.2 buf0 off n ((pre ++ encode k) ++ encode v) (by simp [hne]) g3 hlen
        simpa using this
      · simp only [g1, if_true]
        constructor
        · intro h; simp only [List.length_append] at h g3; omega
        · intro _; exact ⟨rfl, g2⟩
    · simp only [h1, if_true]
      constructor
      · intro h; simp only [List.length_append] at h h3; omega
      · intro _; exact ⟨rfl, h2⟩
end
end Lemmas.Ser

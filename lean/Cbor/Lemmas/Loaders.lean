import Cbor.Gen.Loaders
import Cbor.Lemmas.Tactics
/-! Big-endian loaders of the generated code, stated over `toNat`.
The proofs push the generated expression to `Nat`, turn byte-aligned `|||` into `+` (`bits_to_arith`) and finish with
`omega`, so `(b0 << 8) + b1` and `(b0 << 8) | b1` (or any mixture) are accepted alike. -/
set_option linter.unusedSimpArgs false
namespace Lemmas
open Gen
theorem load16_toNat (s : Array UInt8) (o : Nat) :
    (_cbor_load_uint16 s o).toNat = (s.getD o 0).toNat * 256 + (s.getD (o+1) 0).toNat := by
  unfold _cbor_load_uint16
  generalize s.getD o 0 = b0
  generalize s.getD (o+1) 0 = b1
  have h0 := b0.toNat_lt
  have h1 := b1.toNat_lt
  simp [C.toU16, UInt16.toNat_add, UInt16.toNat_or, UInt16.toNat_shiftLeft, Nat.shiftLeft_eq] <;> bits_to_arith <;> omega

theorem load32_toNat (s : Array UInt8) (o : Nat) :
    (_cbor_load_uint32 s o).toNat = (s.getD o 0).toNat * 16777216 + (s.getD (o+1) 0).toNat * 65536
      + (s.getD (o+2) 0).toNat * 256 + (s.getD (o+3) 0).toNat := by
  unfold _cbor_load_uint32
  generalize s.getD o 0 = b0
  generalize s.getD (o+1) 0 = b1
  generalize s.getD (o+2) 0 = b2
  generalize s.getD (o+3) 0 = b3
  have h0 := b0.toNat_lt
  have h1 := b1.toNat_lt
  have h2 := b2.toNat_lt
  have h3 := b3.toNat_lt
  simp [C.toU32, UInt32.toNat_add, UInt32.toNat_or, UInt32.toNat_shiftLeft, Nat.shiftLeft_eq] <;> bits_to_arith <;> omega

theorem load64_toNat (s : Array UInt8) (o : Nat) :
    (_cbor_load_uint64 s o).toNat = (s.getD o 0).toNat * 2^56 + (s.getD (o+1) 0).toNat * 2^48
      + (s.getD (o+2) 0).toNat * 2^40 + (s.getD (o+3) 0).toNat * 2^32 + (s.getD (o+4) 0).toNat * 2^24
      + (s.getD (o+5) 0).toNat * 2^16 + (s.getD (o+6) 0).toNat * 2^8 + (s.getD (o+7) 0).toNat := by
  unfold _cbor_load_uint64
  generalize s.getD o 0 = b0
  generalize s.getD (o+1) 0 = b1
  generalize s.getD (o+2) 0 = b2
  generalize s.getD (o+3) 0 = b3
  generalize s.getD (o+4) 0 = b4
  generalize s.getD (o+5) 0 = b5
  generalize s.getD (o+6) 0 = b6
  generalize s.getD (o+7) 0 = b7
  have h0 := b0.toNat_lt
  have h1 := b1.toNat_lt
  have h2 := b2.toNat_lt
  have h3 := b3.toNat_lt
  have h4 := b4.toNat_lt
  have h5 := b5.toNat_lt
  have h6 := b6.toNat_lt
  have h7 := b7.toNat_lt
  simp [C.toU64, UInt64.toNat_add, UInt64.toNat_or, UInt64.toNat_shiftLeft, UInt32.toNat_shiftLeft, Nat.shiftLeft_eq] <;> bits_to_arith <;> omega
end Lemmas

namespace Lemmas
open Gen

theorem u8_fits (b : UInt8) : C.fitsS 32 (((b.toUInt16).toNat : Int) * 2 ^ 8) = true := by
  have := b.toNat_lt
  simp [C.fitsS]
  omega

theorem load8_ok (s : Array UInt8) (o : Nat) (h : o + 1 ≤ s.size) : _cbor_load_uint8.ok s o = true := by
  simp [_cbor_load_uint8.ok]; omega

theorem load16_ok (s : Array UInt8) (o : Nat) (h : o + 2 ≤ s.size) : _cbor_load_uint16.ok s o = true := by
  unfold _cbor_load_uint16.ok
  generalize s.getD o 0 = b0
  generalize s.getD (o+1) 0 = b1
  have h0 := b0.toNat_lt
  have h1 := b1.toNat_lt
  simp [C.fitsS] <;> bits_to_arith <;> omega

theorem load32_ok (s : Array UInt8) (o : Nat) (h : o + 4 ≤ s.size) : _cbor_load_uint32.ok s o = true := by
  unfold _cbor_load_uint32.ok
  generalize s.getD o 0 = b0
  generalize s.getD (o+1) 0 = b1
  generalize s.getD (o+2) 0 = b2
  generalize s.getD (o+3) 0 = b3
  have h0 := b0.toNat_lt
  have h1 := b1.toNat_lt
  have h2 := b2.toNat_lt
  have h3 := b3.toNat_lt
  simp [C.fitsS] <;> bits_to_arith <;> omega

theorem load64_ok (s : Array UInt8) (o : Nat) (h : o + 8 ≤ s.size) : _cbor_load_uint64.ok s o = true := by
  unfold _cbor_load_uint64.ok
  generalize s.getD o 0 = b0
  generalize s.getD (o+1) 0 = b1
  generalize s.getD (o+2) 0 = b2
  generalize s.getD (o+3) 0 = b3
  generalize s.getD (o+4) 0 = b4
  generalize s.getD (o+5) 0 = b5
  generalize s.getD (o+6) 0 = b6
  generalize s.getD (o+7) 0 = b7
  have h0 := b0.toNat_lt
  have h1 := b1.toNat_lt
  have h2 := b2.toNat_lt
  have h3 := b3.toNat_lt
  have h4 := b4.toNat_lt
  have h5 := b5.toNat_lt
  have h6 := b6.toNat_lt
  have h7 := b7.toNat_lt
  simp [C.fitsS] <;> bits_to_arith <;> omega

theorem loadf_ok (s : Array UInt8) (o : Nat) (h : o + 4 ≤ s.size) : _cbor_load_float.ok s o = true := by
  simp [_cbor_load_float.ok, load32_ok s o h]

theorem loadd_ok (s : Array UInt8) (o : Nat) (h : o + 8 ≤ s.size) : _cbor_load_double.ok s o = true := by
  simp [_cbor_load_double.ok, load64_ok s o h]

theorem loadh_ok (s : Array UInt8) (o : Nat) (h : o + 2 ≤ s.size) : Ext._cbor_load_half.ok s o = true := by
  simp [Ext._cbor_load_half.ok]; omega

end Lemmas

import Cbor.Lemmas.Half
/-! shard 53 of the exhaustive binary16 table check (patterns 54272 .. 55295), kernel-evaluated -/
namespace Lemmas
theorem half_shard_53 : halfShardOk 53 = true := by decide +kernel
end Lemmas

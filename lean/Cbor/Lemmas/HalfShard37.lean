import Cbor.Lemmas.Half
/-! shard 37 of the exhaustive binary16 table check (patterns 37888 .. 38911), kernel-evaluated -/
namespace Lemmas
theorem half_shard_37 : halfShardOk 37 = true := by decide +kernel
end Lemmas

import Cbor.Lemmas.Fund
/-!
# Locality of the stack machine: a run only depends on the bytes it has consumed

Two single inductions over machine runs, from which C14 (items decode independently of what follows) and
the prefix clause of C05 (a proper prefix of an acceptable item is NOTENOUGHDATA at a head boundary, never a
hard error) follow.
-/
namespace Lemmas.Local
open Spec Abs Lemmas.Fund

variable {L : Nat} {okA : AllocOk}

theorem slice_congr (get get' : Nat → UInt8) (p n : Nat) (h : ∀ i, p ≤ i → i < p + n → get' i = get i) :
    slice get' p n = slice get p n := by
  unfold slice
  apply List.map_congr_left
  intro i hi
  exact h (p + i) (by omega) (by have := List.mem_range.mp hi; omega)

/-- `stepTok` only looks at the payload of the head it is given -/
theorem stepTok_congr (get get' : Nat → UInt8) (p : Nat) (tok : Tok) (s : List Frame)
    (h : ∀ o n, tok.payload = some (o, n) → slice get' (p + o) n = slice get (p + o) n) :
    stepTok L okA get' p tok s = stepTok L okA get p tok s := by
  cases tok <;> simp only [stepTok]
  · rw [h _ _ rfl]
  · rw [h _ _ rfl]

/-- the run stops at or after the offset it started from -/
theorem run_mono {get : Nat → UInt8} {len : Nat} : ∀ (F : Nat) (s : List Frame) (p : Nat) (x : Item) (q : Nat),
    run L okA get len F s p = .ok x q → p < q ∧ q ≤ len := by
  intro F
  induction F with
  | zero => intro s p x q h; simp [run] at h
  | succ F ih =>
    intro s p x q h
    rw [run_succ] at h
    cases hh : headAt get len p with
    | nedata n => rw [hh] at h; cases h
    | error => rw [hh] at h; cases h
    | ok tok l =>
      rw [hh] at h
      have hl := headAt_ok hh
      simp only at h
      cases hst : stepTok L okA get p tok s with
      | cont s' => rw [hst] at h; simp only [resume] at h; have := ih _ _ _ _ h; omega
      | done y => rw [hst] at h; simp only [resume] at h; cases h; omega
      | syn => rw [hst] at h; simp [resume] at h
      | mem => rw [hst] at h; simp [resume] at h

/-- **Suffix independence.**  If a run over `(get, len)` completes an item at offset `q`, the run over any
buffer that agrees on the first `q` bytes (and is at least that long) completes the same item at `q`. -/
theorem run_suffix {get get' : Nat → UInt8} {len len' : Nat} : ∀ (F F' : Nat) (s : List Frame) (p : Nat) (x : Item) (q : Nat),
    run L okA get len F s p = .ok x q → (∀ i, i < q → get' i = get i) → q ≤ len' → F' > len' - p →
    run L okA get' len' F' s p = .ok x q := by
  intro F
  induction F with
  | zero => intro F' s p x q h; simp [run] at h
  | succ F ih =>
    intro F' s p x q h hg hq hF'
    have hm := run_mono _ _ _ _ _ h
    obtain ⟨F', rfl⟩ : ∃ k, F' = k + 1 := ⟨F' - 1, by omega⟩
    rw [run_succ] at h ⊢
    cases hh : headAt get len p with
    | nedata n => rw [hh] at h; cases h
    | error => rw [hh] at h; cases h
    | ok tok l =>
      rw [hh] at h
      have hl := headAt_ok hh
      simp only at h
      -- the end offset is at least p + l
      have hpl : p + l ≤ q := by
        cases hst : stepTok L okA get p tok s with
        | cont s' => rw [hst] at h; simp only [resume] at h; have := run_mono _ _ _ _ _ h; omega
        | done y => rw [hst] at h; simp only [resume] at h; cases h; omega
        | syn => rw [hst] at h; simp [resume] at h
        | mem => rw [hst] at h; simp [resume] at h
      have hh' : headAt get' len' p = .ok tok l := by
        unfold headAt at hh ⊢
        exact decodeHead_prefix hh (fun i hi => hg (p + i) (by omega)) (by omega)
      rw [hh']
      simp only
      have hstep : stepTok L okA get' p tok s = stepTok L okA get p tok s := by
        apply stepTok_congr
        intro o n hp
        have := (decodeHead_ok hh).2.2 o n hp
        apply slice_congr
        intro i _ hi2
        exact hg i (by omega)
      rw [hstep]
      cases hst : stepTok L okA get p tok s with
      | cont s' =>
        rw [hst] at h
        simp only [resume] at h ⊢
        exact ih F' s' (p + l) x q h hg hq (by omega)
      | done y => rw [hst] at h; simp only [resume] at h ⊢; exact h
      | syn => rw [hst] at h; simp [resume] at h
      | mem => rw [hst] at h; simp [resume] at h

/-- **Truncation.**  If a run over `len` bytes completes an item at offset `q`, then over the first `len' < q`
bytes of the same buffer the run stops with NOTENOUGHDATA at an offset `p'` that is the start of the first
head that is incomplete or missing — never with a hard error. -/
theorem run_trunc {get : Nat → UInt8} {len len' : Nat} : ∀ (F F' : Nat) (s : List Frame) (p : Nat) (x : Item) (q : Nat),
    run L okA get len F s p = .ok x q → len' < q → F' > len' - p → p ≤ len' →
    ∃ p', run L okA get len' F' s p = .err .notEnough p' ∧ p ≤ p' ∧ p' ≤ len' ∧
          (∃ need, headAt get len' p' = .nedata need) := by
  intro F
  induction F with
  | zero => intro F' s p x q h; simp [run] at h
  | succ F ih =>
    intro F' s p x q h hq hF' hple
    obtain ⟨F', rfl⟩ : ∃ k, F' = k + 1 := ⟨F' - 1, by omega⟩
    have hm := run_mono _ _ _ _ _ h
    rw [run_succ] at h
    cases hh : headAt get len p with
    | nedata n => rw [hh] at h; cases h
    | error => rw [hh] at h; cases h
    | ok tok l =>
      rw [hh] at h
      have hl := headAt_ok hh
      simp only at h
      by_cases hfit : p + l ≤ len'
      · -- this head is still complete in the truncated buffer: same step
        have hh' : headAt get len' p = .ok tok l := by
          unfold headAt at hh ⊢
          exact decodeHead_prefix hh (fun i _ => rfl) (by omega)
        cases hst : stepTok L okA get p tok s with
        | cont s' =>
          rw [hst] at h
          simp only [resume] at h
          obtain ⟨p', e1, e2, e3, e4⟩ := ih F' s' (p + l) x q h hq (by omega) hfit
          refine ⟨p', ?_, by omega, e3, e4⟩
          rw [run_succ, hh']
          simp only [hst, resume]
          exact e1
        | done y => rw [hst] at h; simp only [resume] at h; cases h; omega
        | syn => rw [hst] at h; simp [resume] at h
        | mem => rw [hst] at h; simp [resume] at h
      · -- the truncation cuts this head (or its payload)
        have : ∃ need, headAt get len' p = .nedata need := by
          unfold headAt at hh ⊢
          exact decodeHead_trunc hh (by omega)
        obtain ⟨need, hn⟩ := this
        refine ⟨p, ?_, Nat.le_refl _, hple, ⟨need, hn⟩⟩
        rw [run_succ, hn]

/-- a run only inspects bytes inside the buffer -/
theorem run_congr {get get' : Nat → UInt8} {len : Nat} (hg : ∀ i, i < len → get' i = get i) :
    ∀ (F : Nat) (s : List Frame) (p : Nat), run L okA get' len F s p = run L okA get len F s p := by
  intro F
  induction F with
  | zero => intro s p; rfl
  | succ F ih =>
    intro s p
    rw [run_succ, run_succ]
    have hhead : headAt get' len p = headAt get len p := by
      unfold headAt
      exact decodeHead_congr (fun i hi => hg (p + i) (by omega))
    rw [hhead]
    cases hh : headAt get len p with
    | nedata n => rfl
    | error => rfl
    | ok tok l =>
      have hl := headAt_ok hh
      simp only
      have hstep : stepTok L okA get' p tok s = stepTok L okA get p tok s := by
        apply stepTok_congr
        intro o n hp
        have := (decodeHead_ok hh).2.2 o n hp
        apply slice_congr
        intro i _ hi2
        exact hg i (by omega)
      rw [hstep]
      cases stepTok L okA get p tok s with
      | cont s' => simp only [resume]; exact ih s' (p + l)
      | done y => rfl
      | syn => rfl
      | mem => rfl

end Lemmas.Local

import Cbor.Lemmas.Half
/-! shard 4 of the exhaustive binary16 table check (patterns 4096 .. 5119), kernel-evaluated -/
namespace Lemmas
theorem half_shard_4 : halfShardOk 4 = true := by decide +kernel
end Lemmas

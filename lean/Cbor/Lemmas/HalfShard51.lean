import Cbor.Lemmas.Half
/-! shard 51 of the exhaustive binary16 table check (patterns 52224 .. 53247), kernel-evaluated -/
namespace Lemmas
theorem half_shard_51 : halfShardOk 51 = true := by decide +kernel
end Lemmas

import Cbor.Model.Client
/-!
# Threads working on disjoint items: every interleaving equals the solo runs

The heap-level client model (`Heap.step`) has no state besides the client's own items and slots — which is what the
effect census (`Props.C17`, regenerated from the C sources on every run) establishes for the library: no function a worker
thread runs writes a file-scope or static object.  A world of threads that share no item is then a family of such states,
one per thread, and a schedule is any interleaving of the threads' API calls.  The theorems: under **every** schedule,
each thread ends in the state, and obtains the sequence of results, of its solo run; and a step of one thread leaves every
other thread's state untouched (two steps of different threads never write the same location of the model).
-/
namespace Threads
open Heap

/-- one state per thread: the items it owns and its slots; threads share no item -/
structure World where
  st : Nat → St

/-- a scheduled API call: (thread, operation) -/
abbrev Ev := Nat × Op

/-- thread `e.1` performs `e.2` against its own state; `ω i` is the allocator as thread `i` experiences it -/
def stepW (ω : Nat → Oracle) (L : Nat) (w : World) (e : Ev) : World × (Nat × Res) :=
  let r := step (ω e.1) L (w.st e.1) e.2
  ({ st := fun j => if j = e.1 then r.1 else w.st j }, (e.1, r.2))

def runW (ω : Nat → Oracle) (L : Nat) : World → List Ev → World × List (Nat × Res)
  | w, [] => (w, [])
  | w, e :: es =>
    let r := stepW ω L w e
    let rest := runW ω L r.1 es
    (rest.1, r.2 :: rest.2)

/-- a thread running alone -/
def solo (ω : Oracle) (L : Nat) : St → List Op → St × List Res
  | s, [] => (s, [])
  | s, op :: ops =>
    let r := step ω L s op
    let rest := solo ω L r.1 ops
    (rest.1, r.2 :: rest.2)

/-- the calls of thread `i` in a schedule, in order -/
def mine (i : Nat) (sched : List Ev) : List Op := sched.filterMap fun e => if e.1 = i then some e.2 else none
/-- the results thread `i` obtained, in order -/
def results (i : Nat) (rs : List (Nat × Res)) : List Res := rs.filterMap fun r => if r.1 = i then some r.2 else none

/-- a step of thread `j` does not touch the state of any other thread -/
theorem stepW_other (ω : Nat → Oracle) (L : Nat) (w : World) (e : Ev) (i : Nat) (h : i ≠ e.1) : (stepW ω L w e).1.st i = w.st i := by
  simp [stepW, h]

theorem stepW_self (ω : Nat → Oracle) (L : Nat) (w : World) (e : Ev) :
    (stepW ω L w e).1.st e.1 = (step (ω e.1) L (w.st e.1) e.2).1 := by
  simp [stepW]

/-- **Every interleaving equals the solo runs.**  For every schedule of API calls by threads that share no item, every
thread's final state and the sequence of results it obtained are exactly those of running its own calls alone. -/
theorem interleaving_eq_solo (ω : Nat → Oracle) (L : Nat) (i : Nat) : ∀ (sched : List Ev) (w : World),
    (runW ω L w sched).1.st i = (solo (ω i) L (w.st i) (mine i sched)).1 ∧
    results i (runW ω L w sched).2 = (solo (ω i) L (w.st i) (mine i sched)).2
  | [], w => by simp [runW, solo, mine, results]
  | e :: es, w => by
    have ih := interleaving_eq_solo ω L i es (stepW ω L w e).1
    by_cases h : e.1 = i
    · have hm : mine i (e :: es) = e.2 :: mine i es := by simp [mine, h]
      have hs : (stepW ω L w e).1.st i = (step (ω i) L (w.st i) e.2).1 := by
        have := stepW_self ω L w e
        rw [h] at this; exact this
      rw [hm]
      simp only [runW, solo]
      rw [hs] at ih
      refine ⟨ih.1, ?_⟩
      have hr : results i ((stepW ω L w e).2 :: (runW ω L (stepW ω L w e).1 es).2) =
          (stepW ω L w e).2.2 :: results i (runW ω L (stepW ω L w e).1 es).2 := by
        simp [results, stepW, h]
      rw [hr, ih.2]
      simp [stepW, h]
    · have hm : mine i (e :: es) = mine i es := by simp [mine, h]
      have hs : (stepW ω L w e).1.st i = w.st i := stepW_other ω L w e i (fun x => h x.symm)
      rw [hm]
      simp only [runW]
      rw [hs] at ih
      refine ⟨ih.1, ?_⟩
      have hr : results i ((stepW ω L w e).2 :: (runW ω L (stepW ω L w e).1 es).2) = results i (runW ω L (stepW ω L w e).1 es).2 := by
        simp [results, stepW, h]
      rw [hr, ih.2]

/-- two schedules with the same per-thread call sequences (any two interleavings of the same threads) give every thread
the same final state and the same results -/
theorem schedule_independent (ω : Nat → Oracle) (L : Nat) (w : World) (s1 s2 : List Ev) (i : Nat) (h : mine i s1 = mine i s2) :
    (runW ω L w s1).1.st i = (runW ω L w s2).1.st i ∧ results i (runW ω L w s1).2 = results i (runW ω L w s2).2 := by
  have a := interleaving_eq_solo ω L i s1 w
  have b := interleaving_eq_solo ω L i s2 w
  rw [h] at a
  exact ⟨a.1.trans b.1.symm, a.2.trans b.2.symm⟩

end Threads

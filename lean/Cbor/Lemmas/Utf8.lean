import Cbor.Gen.Unicode
import Cbor.Spec.Utf8
import Cbor.Lemmas.Tactics
/-!
The generated UTF-8 counting loop (`Gen._cbor_unicode_codepoint_count`, table `Gen.utf8d`) against the
RFC 3629 grammar `Spec.Utf8`.

1. the 400-entry table realises the readable automaton `delta` — `decide +kernel` over all 9 × 256 pairs;
2. the generated loop is a run of `delta` over the bytes (induction on the remaining length);
3. runs of `delta` from the accept state count exactly the `UTF8-char`s of the grammar (induction on length).
-/
set_option linter.unusedSimpArgs false
namespace Lemmas.Utf8
open Gen Spec.Utf8 Lemmas

/-- the readable automaton: state 0 = between characters, 1 = reject, 2/3 = one/two continuation bytes
outstanding, 4/5 = after E0 / ED, 6/7/8 = after F0 / F1–F3 / F4 -/
def delta (s b : Nat) : Nat :=
  match s with
  | 0 => if b ≤ 0x7F then 0 else if 0xC2 ≤ b && b ≤ 0xDF then 2 else if b = 0xE0 then 4
         else if (0xE1 ≤ b && b ≤ 0xEC) || (0xEE ≤ b && b ≤ 0xEF) then 3 else if b = 0xED then 5
         else if b = 0xF0 then 6 else if 0xF1 ≤ b && b ≤ 0xF3 then 7 else if b = 0xF4 then 8 else 1
  | 2 => if tail b then 0 else 1
  | 3 => if tail b then 2 else 1
  | 4 => if 0xA0 ≤ b && b ≤ 0xBF then 2 else 1
  | 5 => if 0x80 ≤ b && b ≤ 0x9F then 2 else 1
  | 6 => if 0x90 ≤ b && b ≤ 0xBF then 3 else 1
  | 7 => if tail b then 3 else 1
  | 8 => if 0x80 ≤ b && b ≤ 0x8F then 3 else 1
  | _ => 1

/-- complete check of the generated table: class of every byte ≤ 11, and every transition = `delta` -/
def tableOk : Bool :=
  (List.range 9).all fun s => (List.range 256).all fun b =>
    (utf8d b).toNat ≤ 11 && (utf8d (256 + s * 16 + (utf8d b).toNat)).toNat == delta s b

theorem tableOk_true : tableOk = true := by decide +kernel

theorem table (s : Nat) (hs : s < 9) (b : Nat) (hb : b < 256) :
    (utf8d b).toNat ≤ 11 ∧ (utf8d (256 + s * 16 + (utf8d b).toNat)).toNat = delta s b := by
  have h := tableOk_true
  unfold tableOk at h
  rw [List.all_eq_true] at h
  have h1 := h s (List.mem_range.mpr hs)
  rw [List.all_eq_true] at h1
  simpa using h1 b (List.mem_range.mpr hb)

theorem delta_lt (s b : Nat) : delta s b < 9 := by
  unfold delta; split <;> (repeat' split) <;> omega

/-- one step of the generated decoder = one step of `delta`, with all side conditions satisfied -/
theorem decode_step (st cp byte : UInt32) (hs : st.toNat < 9) (hb : byte.toNat < 256) :
    (_cbor_unicode_decode st cp byte).1.toNat = delta st.toNat byte.toNat ∧
    (_cbor_unicode_decode st cp byte).2.1 = (_cbor_unicode_decode st cp byte).1 ∧
    _cbor_unicode_decode.ok st cp byte = true := by
  have ht := table st.toNat hs byte.toNat hb
  have ht1 := ht.1
  have ht2 := ht.2
  -- the table fact for *any* index term that equals 256 + 16·state + class (`256 + s*16 + t`, `(s << 4) + t + 256`, …)
  have ht2' : ∀ i, i = 256 + st.toNat * 16 + (utf8d byte.toNat).toNat → (utf8d i).toNat = delta st.toNat byte.toNat := by
    intro i hi; rw [hi]; exact ht2
  -- independent of the spelling of the generated function (conditional expression or if/else for `*codep`, `utf8d[i]` or
  -- `*(utf8d + i)`, explicit casts): every `if` is split, and the index expression, whatever its text, is pushed to `Nat`
  -- where it denotes 256 + 16·state + class
  unfold _cbor_unicode_decode _cbor_unicode_decode.ok
  simp only []
  repeat' split
  all_goals (refine ⟨?_, ?_, ?_⟩)
  all_goals (try rfl)
  all_goals (simp [UInt32.toNat_add, UInt32.toNat_mul, UInt32.toNat_shiftLeft, Nat.shiftLeft_eq] <;> bits_to_arith)
  all_goals (first | exact ht2 | (apply ht2'; omega) | (simpa using ht2) | (cnorm; omega))

/-- a run of the automaton over a byte list, counting passages through the accept state -/
def runD : List Nat → Nat → Nat → Option Nat
  | [], st, c => if st = 0 then some c else none
  | b :: bs, st, c =>
    let st' := delta st b
    if st' = 0 then runD bs 0 (c + 1)
    else if st' = 1 then none
    else runD bs st' c

end Lemmas.Utf8

namespace Lemmas.Utf8
open Gen Spec.Utf8

/-- values of the `k` bytes starting at index `pos` of the string that starts at `off` -/
def bl (src : Array UInt8) (off : Nat) : Nat → Nat → List Nat
  | 0, _ => []
  | k+1, pos => (src.getD (off + pos) 0).toNat :: bl src off k (pos + 1)

theorem u32_eq_zero_iff (x : UInt32) : (x == 0) = true ↔ x.toNat = 0 := by
  constructor
  · intro h; have : x = 0 := by simpa using h
    subst this; rfl
  · intro h; have : x = 0 := UInt32.toNat_inj.mp (by simpa using h)
    subst this; rfl

theorem u32_eq_one_iff (x : UInt32) : (x == 1) = true ↔ x.toNat = 1 := by
  constructor
  · intro h; have : x = 1 := by simpa using h
    subst this; rfl
  · intro h; have : x = 1 := UInt32.toNat_inj.mp (by simpa using h)
    subst this; rfl

/-! ### The counting loop

The generated loop function `_cbor_unicode_codepoint_count.loop0` takes the loop-carried C variables as separate arguments
and returns them as a tuple, so its *signature* changes when a dead variable stops being carried (e.g. `res` declared inside
the loop body).  To keep that out of the real proof, the argument is split in three:

1. `refLoop` / `refCount`: a hand-written reference with a fixed signature; `refLoop_run` (the induction against the
   automaton `runD`) is proved about it once and for all;
2. `count_eq_ref`: the generated function **equals** the reference (value and side conditions).  Its statement does not
   mention the loop function; its proof contains one tiny *signature adapter* per known signature of `loop0` (which
   argument / tuple position is state, pos, count), proved by the structural tactic `bridge_tac` (unfold one step of both
   loops, split every `if`, compare guards over `Nat`, rewrite recursive calls with the induction hypothesis) — independent
   of the order of the tests, of the orientation of `==`, of `count++` vs `count += 1`, of where `res` is declared;
3. `Props/C16` uses only `count_eq_ref` and `refLoop_run`.
-/

/-- hand-written reference loop: same algorithm as the C loop, carried values (codepoint, state, pos, count), exit code 1 for
the `goto error` inside the loop, and the conjunction of the per-iteration side conditions as third component -/
def refLoop (src : Array UInt8) (off : Nat) (len : UInt64) :
    Nat → UInt32 → UInt32 → UInt64 → UInt64 → (UInt32 × UInt32 × UInt64 × UInt64) × Nat × Bool
  | 0, cp, st, pos, count => ((cp, st, pos, count), 0, false)
  | fuel+1, cp, st, pos, count =>
    if pos.toNat < len.toNat then
      let d := _cbor_unicode_decode st cp (src.getD (off + pos.toNat) 0).toUInt32
      let ok := decide (off + pos.toNat < src.size) && _cbor_unicode_decode.ok st cp (src.getD (off + pos.toNat) 0).toUInt32
      if d.1.toNat = 0 then
        let r := refLoop src off len fuel d.2.2 d.2.1 (pos + 1) (count + 1)
        (r.1, r.2.1, r.2.2 && ok)
      else if d.1.toNat = 1 then ((d.2.2, d.2.1, pos, count), 1, ok)
      else
        let r := refLoop src off len fuel d.2.2 d.2.1 (pos + 1) count
        (r.1, r.2.1, r.2.2 && ok)
    else ((cp, st, pos, count), 0, true)

theorem refLoop_run (src : Array UInt8) (off : Nat) (len : UInt64) (hsz : off + len.toNat ≤ src.size) :
    ∀ (k fuel : Nat) (pos : UInt64) (st cp : UInt32) (count : UInt64),
      pos.toNat + k = len.toNat → k < fuel → st.toNat < 9 → count.toNat + k < 2 ^ 64 →
      let r := refLoop src off len fuel cp st pos count
      r.2.2 = true ∧
      (match runD (bl src off k pos.toNat) st.toNat count.toNat with
       | some c => r.2.1 = 0 ∧ r.1.2.1 = 0 ∧ r.1.2.2.2.toNat = c
       | none => r.2.1 = 1 ∨ (r.2.1 = 0 ∧ r.1.2.1 ≠ 0)) := by
  intro k
  induction k with
  | zero =>
    intro fuel pos st cp count hp hf hs hc
    obtain ⟨f, rfl⟩ : ∃ f, fuel = f + 1 := ⟨fuel - 1, by omega⟩
    have hnot : ¬ (pos.toNat < len.toNat) := by omega
    simp only [refLoop, hnot, if_false, bl, runD]
    refine ⟨trivial, ?_⟩
    by_cases h0 : st.toNat = 0
    · have : st = 0 := UInt32.toNat_inj.mp (by simpa using h0)
      simp [h0, this]
    · have : st ≠ 0 := fun h => h0 (by rw [h]; rfl)
      simp [h0, this]
  | succ k ih =>
    intro fuel pos st cp count hp hf hs hc
    obtain ⟨f, rfl⟩ : ∃ f, fuel = f + 1 := ⟨fuel - 1, by omega⟩
    have hlt : pos.toNat < len.toNat := by omega
    have hpos1 : (pos + 1).toNat = pos.toNat + 1 := by
      rw [UInt64.toNat_add]; have := len.toNat_lt; simp; omega
    have hcnt1 : (count + 1).toNat = count.toNat + 1 := by
      rw [UInt64.toNat_add]; simp; omega
    have hin : off + pos.toNat < src.size := by omega
    simp only [refLoop, hlt, if_true, bl, runD]
    generalize src.getD (off + pos.toNat) 0 = B
    have hb : (B.toUInt32).toNat = B.toNat := by simp
    have hb256 : (B.toUInt32).toNat < 256 := by rw [hb]; exact UInt8.toNat_lt _
    obtain ⟨d1, d2, d3⟩ := decode_step st cp B.toUInt32 hs hb256
    rw [hb] at d1
    rw [d2]
    generalize hres : (_cbor_unicode_decode st cp B.toUInt32).1 = rs at d1
    have hdl := delta_lt st.toNat B.toNat
    rw [← d1]
    by_cases h0 : rs.toNat = 0
    · have hrs0 : rs = 0 := UInt32.toNat_inj.mp (by simpa using h0)
      simp only [h0, if_true]
      have := ih f (pos + 1) rs (_cbor_unicode_decode st cp B.toUInt32).2.2 (count + 1) (by omega) (by omega) (by omega) (by omega)
      simp only at this
      rw [hpos1, hcnt1, h0] at this
      obtain ⟨a1, a2⟩ := this
      exact ⟨by simp [a1, hin, d3], a2⟩
    · simp only [h0, if_false]
      by_cases h1 : rs.toNat = 1
      · simp only [h1, if_true]
        exact ⟨by simp [hin, d3], Or.inl (by simp)⟩
      · simp only [h1, if_false]
        have := ih f (pos + 1) rs (_cbor_unicode_decode st cp B.toUInt32).2.2 count (by omega) (by omega) (by omega) (by omega)
        simp only at this
        rw [hpos1] at this
        obtain ⟨a1, a2⟩ := this
        exact ⟨by simp [a1, hin, d3], a2⟩

/-- hand-written reference for the whole function -/
def refCount (src : Array UInt8) (off : Nat) (len : UInt64) : UInt64 × S__cbor_unicode_status :=
  let q := refLoop src off len (len.toNat + 1) 0 0 0 0
  if q.2.1 = 1 ∨ q.1.2.1.toNat ≠ 0 then (0, { status := 1, location := q.1.2.2.1 })
  else (q.1.2.2.2, { status := 0, location := 0 })

/-- proof of a signature adapter: structural only (one step of each loop unfolded, every `if` split, guards over `Nat`,
recursive calls rewritten with the induction hypothesis) -/
macro "bridge_tac" : tactic => `(tactic| (
  intro fuel
  induction fuel with
  | zero => intros; simp [_cbor_unicode_codepoint_count.loop0, refLoop]
  | succ f ih =>
    intros
    rw [_cbor_unicode_codepoint_count.loop0, refLoop]
    simp only []
    repeat' split
    all_goals cnorm
    all_goals (try omega)
    all_goals (simp [ih, Bool.and_comm, Bool.and_left_comm, Bool.and_assoc])))

/-- end of an adapter: the generated function is the reference function -/
macro "adapter_fin" : tactic => `(tactic| (
  unfold _cbor_unicode_codepoint_count _cbor_unicode_codepoint_count.ok refCount
  simp only [*]
  repeat' split
  all_goals cnorm
  all_goals (first | (exfalso; omega) | (simp; done))))

theorem count_eq_ref (src : Array UInt8) (off : Nat) (len : UInt64) (st0 : S__cbor_unicode_status) :
    _cbor_unicode_codepoint_count src off len st0 = refCount src off len ∧
    _cbor_unicode_codepoint_count.ok src off len st0 = (refLoop src off len (len.toNat + 1) 0 0 0 0).2.2 := by
  first
  | (-- signature A: carried (source_length, codepoint, state, res, pos, count)
     have bridge : ∀ (fuel : Nat) (cp st res : UInt32) (pos count : UInt64),
         (fun r q => r.2.1 = q.2.1 ∧ r.2.2 = q.2.2 ∧ r.1.2.2.1 = q.1.2.1 ∧ r.1.2.2.2.2.1 = q.1.2.2.1 ∧ r.1.2.2.2.2.2 = q.1.2.2.2)
           (_cbor_unicode_codepoint_count.loop0 fuel src off len cp st res pos count)
           (refLoop src off len fuel cp st pos count) := by
       bridge_tac
     obtain ⟨b1, b2, b3, b4, b5⟩ := bridge (len.toNat + 1) 0 0 0 0 0
     adapter_fin)
  | (-- signature B: carried (source_length, codepoint, state, pos, count)
     have bridge : ∀ (fuel : Nat) (cp st : UInt32) (pos count : UInt64),
         (fun r q => r.2.1 = q.2.1 ∧ r.2.2 = q.2.2 ∧ r.1.2.2.1 = q.1.2.1 ∧ r.1.2.2.2.1 = q.1.2.2.1 ∧ r.1.2.2.2.2 = q.1.2.2.2)
           (_cbor_unicode_codepoint_count.loop0 fuel src off len cp st pos count)
           (refLoop src off len fuel cp st pos count) := by
       bridge_tac
     obtain ⟨b1, b2, b3, b4, b5⟩ := bridge (len.toNat + 1) 0 0 0 0
     adapter_fin)

end Lemmas.Utf8

namespace Lemmas.Utf8
open Gen Spec.Utf8

/-- one continuation byte outstanding -/
def c2 : List Nat → Option (List Nat)
  | b :: r => if tail b then some r else none
  | [] => none
/-- two continuation bytes outstanding -/
def c3 : List Nat → Option (List Nat)
  | b :: r => if tail b then c2 r else none
  | [] => none
/-- bytes needed to complete the character from automaton state `s` -/
def complete (s : Nat) (bs : List Nat) : Option (List Nat) :=
  if s = 2 then c2 bs else if s = 3 then c3 bs else
  match bs with
  | [] => none
  | b :: r =>
    if s = 4 then (if 0xA0 ≤ b && b ≤ 0xBF then c2 r else none)
    else if s = 5 then (if 0x80 ≤ b && b ≤ 0x9F then c2 r else none)
    else if s = 6 then (if 0x90 ≤ b && b ≤ 0xBF then c3 r else none)
    else if s = 7 then (if tail b then c3 r else none)
    else if s = 8 then (if 0x80 ≤ b && b ≤ 0x8F then c3 r else none)
    else none

theorem run2 (bs : List Nat) (c : Nat) :
    runD bs 2 c = match c2 bs with | none => none | some r => runD r 0 (c + 1) := by
  cases bs with
  | nil => simp [runD, c2]
  | cons b r => by_cases h : tail b = true <;> simp [runD, c2, delta, h]

theorem run3 (bs : List Nat) (c : Nat) :
    runD bs 3 c = match c3 bs with | none => none | some r => runD r 0 (c + 1) := by
  cases bs with
  | nil => simp [runD, c3]
  | cons b r => by_cases h : tail b = true <;> simp [runD, c3, delta, h, run2]

theorem run_complete (s : Nat) (hs : 2 ≤ s) (bs : List Nat) (c : Nat) :
    runD bs s c = match complete s bs with | none => none | some r => runD r 0 (c + 1) := by
  unfold complete
  by_cases h2 : s = 2
  · subst h2; simpa using run2 bs c
  by_cases h3 : s = 3
  · subst h3; simpa using run3 bs c
  simp only [h2, h3, if_false]
  cases bs with
  | nil =>
    have : s ≠ 0 := by omega
    simp [runD, this]
  | cons b r =>
    by_cases h4 : s = 4
    · subst h4; by_cases h : (0xA0 ≤ b && b ≤ 0xBF) = true <;> simp [runD, delta, h, run2]
    by_cases h5 : s = 5
    · subst h5; by_cases h : (0x80 ≤ b && b ≤ 0x9F) = true <;> simp [runD, delta, h, run2]
    by_cases h6 : s = 6
    · subst h6; by_cases h : (0x90 ≤ b && b ≤ 0xBF) = true <;> simp [runD, delta, h, run3]
    by_cases h7 : s = 7
    · subst h7; by_cases h : tail b = true <;> simp [runD, delta, h, run3]
    by_cases h8 : s = 8
    · subst h8; by_cases h : (0x80 ≤ b && b ≤ 0x8F) = true <;> simp [runD, delta, h, run3]
    · obtain ⟨m, rfl⟩ : ∃ m, s = m + 9 := ⟨s - 9, by omega⟩
      simp [runD, delta, h4, h5, h6, h7, h8]

theorem c2_len {bs r : List Nat} (h : c2 bs = some r) : r.length < bs.length := by
  cases bs with
  | nil => simp [c2] at h
  | cons b t => simp only [c2] at h; split at h <;> simp at h; subst h; simp

theorem c3_len {bs r : List Nat} (h : c3 bs = some r) : r.length < bs.length := by
  cases bs with
  | nil => simp [c3] at h
  | cons b t =>
    simp only [c3] at h; split at h
    · have := c2_len h; simp; omega
    · simp at h

theorem complete_len {s : Nat} {bs r : List Nat} (h : complete s bs = some r) : r.length < bs.length := by
  unfold complete at h
  split at h
  · exact c2_len h
  split at h
  · exact c3_len h
  split at h
  · simp at h
  · repeat' split at h
    all_goals first
      | (simp at h; done)
      | (have := c2_len h; simp; omega)
      | (have := c3_len h; simp; omega)

theorem d0_class (b : Nat) :
    (b ≤ 0x7F → delta 0 b = 0) ∧ (0xC2 ≤ b ∧ b ≤ 0xDF → delta 0 b = 2) ∧ (b = 0xE0 → delta 0 b = 4) ∧
    ((0xE1 ≤ b ∧ b ≤ 0xEC) ∨ (0xEE ≤ b ∧ b ≤ 0xEF) → delta 0 b = 3) ∧ (b = 0xED → delta 0 b = 5) ∧
    (b = 0xF0 → delta 0 b = 6) ∧ (0xF1 ≤ b ∧ b ≤ 0xF3 → delta 0 b = 7) ∧ (b = 0xF4 → delta 0 b = 8) ∧
    ((0x80 ≤ b ∧ b ≤ 0xC1) ∨ 0xF5 ≤ b → delta 0 b = 1) := by
  refine ⟨?_, ?_, ?_, ?_, ?_, ?_, ?_, ?_, ?_⟩ <;> intro h <;> simp only [delta] <;>
    (repeat' split) <;> simp_all <;> omega

/-- the grammar's "strip one character" is: first byte picks the automaton state, `complete` does the rest -/
theorem charRest_eq (b : Nat) (r : List Nat) :
    charRest (b :: r) =
      if delta 0 b = 0 then some r else if delta 0 b = 1 then none else complete (delta 0 b) r := by
  obtain ⟨k0, k2, k4, k3, k5, k6, k7, k8, k1⟩ := d0_class b
  unfold charRest
  by_cases h1 : b ≤ 0x7F
  · simp [h1, k0 h1]
  by_cases h2 : 0xC2 ≤ b ∧ b ≤ 0xDF
  · have e := k2 h2
    have c : (0xC2 ≤ b && b ≤ 0xDF) = true := by simp [h2]
    simp only [h1, if_false, c, if_true, e]
    cases r <;> simp [complete, c2]
  have c2f : (0xC2 ≤ b && b ≤ 0xDF) = false := by simp; omega
  by_cases h3 : b = 0xE0
  · subst h3
    have e : delta 0 0xE0 = 4 := by decide
    simp only [h1, if_false, c2f, Bool.false_eq_true, if_true]
    rcases r with _ | ⟨b1, _ | ⟨b2, r⟩⟩ <;> simp [complete, c3, c2, e] <;> (try (repeat' split)) <;> (try simp_all) <;> (try omega)
  by_cases h4 : (0xE1 ≤ b ∧ b ≤ 0xEC) ∨ (0xEE ≤ b ∧ b ≤ 0xEF)
  · have e := k3 h4
    have c : ((0xE1 ≤ b && b ≤ 0xEC) || (0xEE ≤ b && b ≤ 0xEF)) = true := by simp; omega
    simp only [h1, if_false, c2f, Bool.false_eq_true, h3, c, if_true]
    rcases r with _ | ⟨b1, _ | ⟨b2, r⟩⟩ <;> simp [complete, c3, c2, e] <;> (try (repeat' split)) <;> (try simp_all) <;> (try omega)
  have c4f : ((0xE1 ≤ b && b ≤ 0xEC) || (0xEE ≤ b && b ≤ 0xEF)) = false := by simp; omega
  by_cases h5 : b = 0xED
  · subst h5
    have e : delta 0 0xED = 5 := by decide
    simp only [h1, if_false, c2f, Bool.false_eq_true, h3, c4f, if_true]
    rcases r with _ | ⟨b1, _ | ⟨b2, r⟩⟩ <;> simp [complete, c3, c2, e] <;> (try (repeat' split)) <;> (try simp_all) <;> (try omega)
  by_cases h6 : b = 0xF0
  · subst h6
    have e : delta 0 0xF0 = 6 := by decide
    simp only [h1, if_false, c2f, Bool.false_eq_true, h3, c4f, h5, if_true]
    rcases r with _ | ⟨b1, _ | ⟨b2, _ | ⟨b3, r⟩⟩⟩ <;> simp [complete, c3, c2, e] <;> (try (repeat' split)) <;> (try simp_all) <;> (try omega)
  by_cases h7 : 0xF1 ≤ b ∧ b ≤ 0xF3
  · have e := k7 h7
    have c : (0xF1 ≤ b && b ≤ 0xF3) = true := by simp [h7]
    simp only [h1, if_false, c2f, Bool.false_eq_true, h3, c4f, h5, h6, c, if_true]
    rcases r with _ | ⟨b1, _ | ⟨b2, _ | ⟨b3, r⟩⟩⟩ <;> simp [complete, c3, c2, e] <;> (try (repeat' split)) <;> (try simp_all) <;> (try omega)
  have c7f : (0xF1 ≤ b && b ≤ 0xF3) = false := by simp; omega
  by_cases h8 : b = 0xF4
  · subst h8
    have e : delta 0 0xF4 = 8 := by decide
    simp only [h1, if_false, c2f, Bool.false_eq_true, h3, c4f, h5, h6, c7f, if_true]
    rcases r with _ | ⟨b1, _ | ⟨b2, _ | ⟨b3, r⟩⟩⟩ <;> simp [complete, c3, c2, e] <;> (try (repeat' split)) <;> (try simp_all) <;> (try omega)
  · have e := k1 (by omega)
    simp [h1, c2f, h3, c4f, h5, h6, c7f, h8, e]

theorem runD_count (n : Nat) : ∀ (bs : List Nat), bs.length ≤ n → ∀ c, runD bs 0 c = (countFuel n bs).map (· + c) := by
  induction n with
  | zero =>
    intro bs h c
    cases bs with
    | nil => simp [runD, countFuel]
    | cons b r => simp at h
  | succ n ih =>
    intro bs h c
    cases bs with
    | nil => simp [runD, countFuel]
    | cons b r =>
      simp only [List.length_cons] at h
      simp only [runD, countFuel, charRest_eq]
      by_cases h0 : delta 0 b = 0
      · simp only [h0, if_true]
        rw [ih r (by omega) (c + 1)]
        cases countFuel n r <;> simp; omega
      · simp only [h0, if_false]
        by_cases h1 : delta 0 b = 1
        · simp [h1]
        · simp only [h1, if_false]
          have hlt := delta_lt 0 b
          rw [run_complete (delta 0 b) (by omega) r c]
          cases hc : complete (delta 0 b) r with
          | none => simp
          | some r' =>
            have := complete_len hc
            simp only
            rw [ih r' (by omega) (c + 1)]
            cases countFuel n r' <;> simp; omega

end Lemmas.Utf8

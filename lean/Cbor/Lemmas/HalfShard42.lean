import Cbor.Lemmas.Half
/-! shard 42 of the exhaustive binary16 table check (patterns 43008 .. 44031), kernel-evaluated -/
namespace Lemmas
theorem half_shard_42 : halfShardOk 42 = true := by decide +kernel
end Lemmas

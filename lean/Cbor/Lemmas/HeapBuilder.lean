import Cbor.Model.HeapBuilder
import Cbor.Lemmas.Own
import Cbor.Lemmas.LoadSafe
/-!
# The incremental heap builder refines the value-level builder

`HB.load` (the heap-level model of `cbor_load` with the incremental builder callbacks) reports what the value-level
`Model.load` reports, makes the same allocator requests, never touches a pre-existing cell, hands out an exclusively
owned tree on success and has released every cell it created on every failure.
-/
set_option linter.unusedSimpArgs false
set_option linter.unusedVariables false

namespace HB
open Heap
open Spec (Item)

/-! ### heap operations as single-cell updates -/

/-- `h'` is `h` with cell `a` replaced by `c` and `k` more allocator requests made; nothing else changed -/
def Upd' (h h' : H) (a : Ref) (c : Option Cell) (k : Nat) : Prop :=
  h'.cells.length = h.cells.length ∧ h'.reqs = h.reqs + k ∧ h'.fault = h.fault ∧ h'.get a = c ∧
  ∀ r, r ≠ a → h'.get r = h.get r

theorem hdecref_rc2 {h : H} {y : Ref} {n : Node} {rc : Nat} (hg : h.get y = some ⟨n, rc + 2⟩) :
    h.decref y = h.put y (some ⟨n, rc + 1⟩) := by
  unfold H.decref H.fuel Heap.decref
  rw [hg]; simp

theorem incref_eq {h : H} {y : Ref} {n : Node} {rc : Nat} (hg : h.get y = some ⟨n, rc⟩) :
    h.incref y = h.put y (some ⟨n, rc + 1⟩) := by
  simp [H.incref, hg]

/-- taking a reference and dropping it again -/
theorem incref_decref {h : H} {y : Ref} {n : Node} {rc : Nat} (hg : h.get y = some ⟨n, rc + 1⟩) :
    Upd' h ((h.incref y).decref y) y (some ⟨n, rc + 1⟩) 0 := by
  have hl := get_lt hg
  rw [incref_eq hg]
  rw [hdecref_rc2 (n := n) (rc := rc) (by simp [hl])]
  refine ⟨by simp, by simp, by simp, by simp [hl], fun r hr => by simp [hr]⟩

/-- `h1` is `h` after `k` allocator requests that left no trace in the cells -/
def Req (h h1 : H) (k : Nat) : Prop := h1.cells = h.cells ∧ h1.fault = h.fault ∧ h1.reqs = h.reqs + k

theorem Req.refl (h : H) : Req h h 0 := ⟨rfl, rfl, rfl⟩
theorem Req.get {h h1 : H} {k : Nat} (q : Req h h1 k) (r : Ref) : h1.get r = h.get r := get_congr q.1 r
theorem req_mk (h : H) (k : Nat) : Req h { h with reqs := h.reqs + k } k := ⟨rfl, rfl, rfl⟩

theorem Upd'.ofReq {h h1 : H} {k : Nat} (q : Req h h1 k) (a : Ref) : Upd' h h1 a (h.get a) k :=
  ⟨by rw [q.1], q.2.2, q.2.1, q.get a, fun r _ => q.get r⟩

/-- store into a container, take a reference to the new member, drop the builder's reference to it -/
theorem put_incref_decref {h h1 : H} {k : Nat} (q : Req h h1 k) {a y : Ref} {A : Cell} {n : Node}
    (hal : a < h.cells.length) (hy : h.get y = some ⟨n, 1⟩) (hne : a ≠ y) :
    Upd' h (((h1.put a (some A)).incref y).decref y) a (some A) k := by
  have hyl := get_lt hy
  have hl1 : h1.cells.length = h.cells.length := by rw [q.1]
  have hy1 : (h1.put a (some A)).get y = some ⟨n, 1⟩ := by
    rw [get_put_other _ _ _ _ (Ne.symm hne), q.get]; exact hy
  rw [incref_eq hy1]
  rw [hdecref_rc2 (n := n) (rc := 0) (by simp [hl1, hyl])]
  refine ⟨by simp [hl1], by simp [q.2.2], by simp [q.2.1], ?_, fun r hr => ?_⟩
  · rw [get_put_other _ _ _ _ hne, get_put_other _ _ _ _ hne, get_put_same _ _ _ (by rw [hl1]; exact hal)]
  · by_cases e : r = y
    · subst e; rw [get_put_same _ _ _ (by simp [hl1, hyl])]; exact hy.symm
    · rw [get_put_other _ _ _ _ e, get_put_other _ _ _ _ e, get_put_other _ _ _ _ hr, q.get]

/-- complete a pair: store, take references to key and value, drop the builder's references to both -/
theorem put_incref2_decref2 {h h1 : H} {k : Nat} (q : Req h h1 k) {m x v : Ref} {M : Cell} {nx nv : Node}
    (hml : m < h.cells.length) (hx : h.get x = some ⟨nx, 1⟩) (hv : h.get v = some ⟨nv, 1⟩)
    (hmx : m ≠ x) (hmv : m ≠ v) (hxv : x ≠ v) :
    Upd' h (((((h1.put m (some M)).incref x).incref v).decref v).decref x) m (some M) k := by
  have hxl := get_lt hx
  have hvl := get_lt hv
  have hl1 : h1.cells.length = h.cells.length := by rw [q.1]
  have e1 : (h1.put m (some M)).get x = some ⟨nx, 1⟩ := by
    rw [get_put_other _ _ _ _ (Ne.symm hmx), q.get]; exact hx
  rw [incref_eq e1]
  have e2 : ((h1.put m (some M)).put x (some ⟨nx, 1 + 1⟩)).get v = some ⟨nv, 1⟩ := by
    rw [get_put_other _ _ _ _ (Ne.symm hxv), get_put_other _ _ _ _ (Ne.symm hmv), q.get]; exact hv
  rw [incref_eq e2]
  have e3 : (((h1.put m (some M)).put x (some ⟨nx, 1 + 1⟩)).put v (some ⟨nv, 1 + 1⟩)).get v = some ⟨nv, 0 + 2⟩ :=
    get_put_same _ _ _ (by simp [hl1, hvl])
  rw [hdecref_rc2 e3]
  have e4 : ((((h1.put m (some M)).put x (some ⟨nx, 1 + 1⟩)).put v (some ⟨nv, 1 + 1⟩)).put v (some ⟨nv, 0 + 1⟩)).get x
      = some ⟨nx, 0 + 2⟩ := by
    rw [get_put_other _ _ _ _ hxv, get_put_other _ _ _ _ hxv, get_put_same _ _ _ (by simp [hl1, hxl])]
  rw [hdecref_rc2 e4]
  refine ⟨by simp [hl1], by simp [q.2.2], by simp [q.2.1], ?_, fun r hr => ?_⟩
  · rw [get_put_other _ _ _ _ hmx, get_put_other _ _ _ _ hmv, get_put_other _ _ _ _ hmv, get_put_other _ _ _ _ hmx,
      get_put_same _ _ _ (by rw [hl1]; exact hml)]
  · by_cases ex : r = x
    · subst ex; rw [get_put_same _ _ _ (by simp [hl1, hxl])]; exact hx.symm
    · rw [get_put_other _ _ _ _ ex]
      by_cases ev : r = v
      · subst ev; rw [get_put_same _ _ _ (by simp [hl1, hvl])]; exact hv.symm
      · rw [get_put_other _ _ _ _ ev, get_put_other _ _ _ _ ev, get_put_other _ _ _ _ ex, get_put_other _ _ _ _ hr, q.get]

/-- the oracle the value-level model sees when the heap has already made `R0` requests -/
def orc (ω : Heap.Oracle) (R0 : Nat) : Model.Oracle := fun i _ => ω (R0 + i)

theorem alloc_orc (ω : Heap.Oracle) (R0 : Nat) (c : Model.Ctx) (b : Nat) :
    c.alloc (orc ω R0) b = (ω (R0 + c.reqs), { c with reqs := c.reqs + 1 }) := rfl

/-- the growth step of the two models: same guards, same request, same new capacity -/
theorem grow_sim (ω : Heap.Oracle) (R0 : Nat) (h : H) (c : Model.Ctx) (sz al : Nat) (hr : h.reqs = R0 + c.reqs) :
    ∃ ok k, c.growAlloc (orc ω R0) sz al = (ok, { c with reqs := c.reqs + k }) ∧
      Heap.grow ω h sz al = (if ok then some (Model.grow al) else none, { h with reqs := h.reqs + k }) := by
  unfold Model.Ctx.growAlloc Model.Ctx.allocMultiple Heap.grow mulOk Model.grow Model.growth
  by_cases g1 : Gen._cbor_safe_to_multiply (UInt64.ofNat 2) (UInt64.ofNat al) = true
  · by_cases g2 : Gen._cbor_safe_to_multiply (UInt64.ofNat sz) (UInt64.ofNat (if al = 0 then 1 else 2 * al)) = true
    · refine ⟨ω h.reqs, 1, ?_, ?_⟩
      · simp only [g1, g2, if_true, alloc_orc, hr]
      · simp only [g1, g2, Bool.not_true, Bool.false_eq_true, if_false, H.req]
        split <;> simp_all
    · refine ⟨false, 0, ?_, ?_⟩
      · simp only [g1, g2, if_true, if_false, Bool.false_eq_true]; rfl
      · simp only [g1, g2, Bool.not_true, Bool.not_false, Bool.false_eq_true, if_true, if_false]; rfl
  · refine ⟨false, 0, ?_, ?_⟩
    · simp only [g1, if_false, Bool.false_eq_true]; rfl
    · simp only [g1, Bool.not_false, if_true, Bool.false_eq_true, if_false]
      rfl

theorem upd_put' {h h1 : H} {k : Nat} (q : Req h h1 k) {a : Ref} (hal : a < h.cells.length) (A : Option Cell) :
    Upd' h (h1.put a A) a A k :=
  ⟨by simp [q.1], by simp [q.2.2], by simp [q.2.1], get_put_same _ _ _ (by rw [q.1]; exact hal),
    fun r hr => by rw [get_put_other _ _ _ _ hr, q.get]⟩

/-- an update followed by a step that changes no cell -/
theorem Upd'.then_same {h h1 h2 : H} {a y : Ref} {c : Option Cell} {k : Nat} (u : Upd' h h1 a c k)
    (v : Upd' h1 h2 y (h1.get y) 0) : Upd' h h2 a c k := by
  obtain ⟨u1, u2, u3, u4, u5⟩ := u
  obtain ⟨v1, v2, v3, v4, v5⟩ := v
  have hv : ∀ r, h2.get r = h1.get r := fun r => by
    by_cases e : r = y
    · subst e; exact v4
    · exact v5 r e
  exact ⟨v1.trans u1, by rw [v2, u2]; rfl, v3.trans u3, (hv a).trans u4, fun r hr => (hv r).trans (u5 r hr)⟩

/-! #### `cbor_array_push` + `cbor_decref` -/

theorem arrPush_room {ω : Oracle} {h : H} {a y : Ref} {d : Bool} {rs : List Ref} {al rc : Nat}
    (ha : h.get a = some ⟨.arr d rs al, rc⟩) (hlt : rs.length < al) :
    arrPush ω h a y = (true, (h.put a (some ⟨.arr d (rs ++ [y]) al, rc⟩)).incref y) := by
  cases d <;> simp [arrPush, ha, Nat.not_le.mpr hlt]

theorem pushDec_room {ω : Oracle} {h : H} {a y : Ref} {d : Bool} {rs : List Ref} {al : Nat} {n : Node}
    (ha : h.get a = some ⟨.arr d rs al, 1⟩) (hy : h.get y = some ⟨n, 1⟩) (hne : a ≠ y) (hlt : rs.length < al) :
    ∃ h', pushDec ω h a y = (true, h') ∧ Upd' h h' a (some ⟨.arr d (rs ++ [y]) al, 1⟩) 0 := by
  unfold pushDec
  rw [arrPush_room ha hlt]
  exact ⟨_, rfl, put_incref_decref (Req.refl h) (get_lt ha) hy hne⟩

theorem pushDec_full_def {ω : Oracle} {h : H} {a y : Ref} {rs : List Ref} {al rc : Nat}
    (ha : h.get a = some ⟨.arr true rs al, rc⟩) (hge : al ≤ rs.length) :
    pushDec ω h a y = (false, h.decref y) := by
  simp [pushDec, arrPush, ha, hge]

theorem pushDec_grow_ok {ω : Oracle} {h h1 : H} {a y : Ref} {rs : List Ref} {al na k : Nat} {n : Node}
    (ha : h.get a = some ⟨.arr false rs al, 1⟩) (hy : h.get y = some ⟨n, 1⟩) (hne : a ≠ y) (hge : al ≤ rs.length)
    (hg : Heap.grow ω h 8 al = (some na, h1)) (q : Req h h1 k) :
    ∃ h', pushDec ω h a y = (true, h') ∧ Upd' h h' a (some ⟨.arr false (rs ++ [y]) na, 1⟩) k := by
  have : arrPush ω h a y = (true, (h1.put a (some ⟨.arr false (rs ++ [y]) na, 1⟩)).incref y) := by
    simp [arrPush, ha, hge, hg]
  unfold pushDec
  rw [this]
  exact ⟨_, rfl, put_incref_decref q (get_lt ha) hy hne⟩

theorem pushDec_grow_fail {ω : Oracle} {h h1 : H} {a y : Ref} {rs : List Ref} {al rc : Nat}
    (ha : h.get a = some ⟨.arr false rs al, rc⟩) (hge : al ≤ rs.length)
    (hg : Heap.grow ω h 8 al = (none, h1)) :
    pushDec ω h a y = (false, h1.decref y) := by
  simp [pushDec, arrPush, ha, hge, hg]

/-! #### `cbor_(byte)string_add_chunk` + `cbor_decref` -/

theorem chunkDec_room {ω : Oracle} {h : H} {s y : Ref} {t : Bool} {cs : List Ref} {cap : Nat} {b : List UInt8}
    (hs : h.get s = some ⟨.strI t cs cap, 1⟩) (hy : h.get y = some ⟨.str t b, 1⟩) (hne : s ≠ y) (hlt : cs.length ≠ cap) :
    ∃ h', chunkDec ω h s y = (true, h') ∧ Upd' h h' s (some ⟨.strI t (cs ++ [y]) cap, 1⟩) 0 := by
  have : addChunk ω h s y = (true, (h.put s (some ⟨.strI t (cs ++ [y]) cap, 1⟩)).incref y) := by
    simp [addChunk, hs, hy, hlt]
  unfold chunkDec
  rw [this]
  exact ⟨_, rfl, put_incref_decref (Req.refl h) (get_lt hs) hy hne⟩

theorem chunkDec_grow_ok {ω : Oracle} {h h1 : H} {s y : Ref} {t : Bool} {cs : List Ref} {cap na k : Nat} {b : List UInt8}
    (hs : h.get s = some ⟨.strI t cs cap, 1⟩) (hy : h.get y = some ⟨.str t b, 1⟩) (hne : s ≠ y) (hfull : cs.length = cap)
    (hg : Heap.grow ω h 8 cap = (some na, h1)) (q : Req h h1 k) :
    ∃ h', chunkDec ω h s y = (true, h') ∧ Upd' h h' s (some ⟨.strI t (cs ++ [y]) na, 1⟩) k := by
  have : addChunk ω h s y = (true, (h1.put s (some ⟨.strI t (cs ++ [y]) na, 1⟩)).incref y) := by
    simp [addChunk, hs, hy, hfull, hg]
  unfold chunkDec
  rw [this]
  exact ⟨_, rfl, put_incref_decref q (get_lt hs) hy hne⟩

theorem chunkDec_grow_fail {ω : Oracle} {h h1 : H} {s y : Ref} {t : Bool} {cs : List Ref} {cap rc rc' : Nat} {b : List UInt8}
    (hs : h.get s = some ⟨.strI t cs cap, rc⟩) (hy : h.get y = some ⟨.str t b, rc'⟩) (hfull : cs.length = cap)
    (hg : Heap.grow ω h 8 cap = (none, h1)) :
    chunkDec ω h s y = (false, h1.decref y) := by
  simp [chunkDec, addChunk, hs, hy, hfull, hg]

/-! #### `_cbor_map_add_key` + `cbor_decref`, `_cbor_map_add_value` + `cbor_decref` -/

theorem keyDec_room {ω : Oracle} {h : H} {m y : Ref} {d : Bool} {ps : List (Ref × Ref)} {al : Nat} {n : Node}
    (hm : h.get m = some ⟨.map d ps al, 1⟩) (hy : h.get y = some ⟨n, 1⟩) (hlt : ps.length < al) :
    ∃ h', keyDec ω h m y = (true, h') ∧ Upd' h h' m (some ⟨.map d ps al, 1⟩) 0 := by
  have : mapKey ω h m = (true, h) := by cases d <;> simp [mapKey, hm, Nat.not_le.mpr hlt]
  unfold keyDec
  rw [this]
  refine ⟨_, rfl, ?_⟩
  have u := (Upd'.ofReq (Req.refl h) m).then_same (by rw [hy]; exact incref_decref (rc := 0) hy)
  rw [hm] at u; exact u

theorem keyDec_full_def {ω : Oracle} {h : H} {m y : Ref} {ps : List (Ref × Ref)} {al rc : Nat}
    (hm : h.get m = some ⟨.map true ps al, rc⟩) (hge : al ≤ ps.length) :
    keyDec ω h m y = (false, h.decref y) := by
  simp [keyDec, mapKey, hm, hge]

theorem keyDec_grow_ok {ω : Oracle} {h h1 : H} {m y : Ref} {ps : List (Ref × Ref)} {al na k : Nat} {n : Node}
    (hm : h.get m = some ⟨.map false ps al, 1⟩) (hy : h.get y = some ⟨n, 1⟩) (hne : m ≠ y) (hge : al ≤ ps.length)
    (hg : Heap.grow ω h 16 al = (some na, h1)) (q : Req h h1 k) :
    ∃ h', keyDec ω h m y = (true, h') ∧ Upd' h h' m (some ⟨.map false ps na, 1⟩) k := by
  have : mapKey ω h m = (true, h1.put m (some ⟨.map false ps na, 1⟩)) := by simp [mapKey, hm, hge, hg]
  unfold keyDec
  rw [this]
  refine ⟨_, rfl, ?_⟩
  have u := upd_put' q (get_lt hm) (some ⟨.map false ps na, 1⟩)
  have hy1 : (h1.put m (some ⟨.map false ps na, 1⟩)).get y = some ⟨n, 1⟩ := by
    rw [get_put_other _ _ _ _ (Ne.symm hne), q.get]; exact hy
  exact u.then_same (by rw [hy1]; exact incref_decref (rc := 0) hy1)

theorem keyDec_grow_fail {ω : Oracle} {h h1 : H} {m y : Ref} {ps : List (Ref × Ref)} {al rc : Nat}
    (hm : h.get m = some ⟨.map false ps al, rc⟩) (hge : al ≤ ps.length)
    (hg : Heap.grow ω h 16 al = (none, h1)) :
    keyDec ω h m y = (false, h1.decref y) := by
  simp [keyDec, mapKey, hm, hge, hg]

theorem valDec_room {ω : Oracle} {h : H} {m x v : Ref} {d : Bool} {ps : List (Ref × Ref)} {al : Nat} {nx nv : Node}
    (hm : h.get m = some ⟨.map d ps al, 1⟩) (hx : h.get x = some ⟨nx, 1⟩) (hv : h.get v = some ⟨nv, 1⟩)
    (hmx : m ≠ x) (hmv : m ≠ v) (hxv : x ≠ v) (hlt : ps.length < al) :
    ∃ h', valDec ω h m x v = (true, h') ∧ Upd' h h' m (some ⟨.map d (ps ++ [(x, v)]) al, 1⟩) 0 := by
  have : mapAdd ω h m x v = (true, ((h.put m (some ⟨.map d (ps ++ [(x, v)]) al, 1⟩)).incref x).incref v) := by
    cases d <;> simp [mapAdd, hm, Nat.not_le.mpr hlt]
  unfold valDec
  rw [this]
  exact ⟨_, rfl, put_incref2_decref2 (Req.refl h) (get_lt hm) hx hv hmx hmv hxv⟩

/-! #### `cbor_tag_set_item` + `cbor_decref` -/

theorem tagSet_dec {h : H} {t y : Ref} {n : Nat} {ny : Node}
    (ht : h.get t = some ⟨.tag n none, 1⟩) (hy : h.get y = some ⟨ny, 1⟩) (hne : t ≠ y) :
    Upd' h ((tagSet h t y).2.decref y) t (some ⟨.tag n (some y), 1⟩) 0 := by
  have : tagSet h t y = (none, (h.put t (some ⟨.tag n (some y), 1⟩)).incref y) := by simp [tagSet, ht]
  rw [this]
  exact put_incref_decref (Req.refl h) (get_lt ht) hy hne

end HB

namespace Heap
open Spec (Item)

/-! ### appending a member to an owned sequence -/

theorem ownList_snoc' {h : H} {t : Item} {x : Ref} : ∀ (ts : List Item) (xs : List Ref) (lo mid hi : Nat),
    OwnList ts h xs lo mid → Own t h x mid hi → OwnList (ts ++ [t]) h (xs ++ [x]) lo hi
  | [], [], lo, mid, hi, ho, hx => by
    simp only [OwnList] at ho; subst ho
    simp only [List.nil_append, OwnList]
    exact ⟨hi, hx, rfl⟩
  | [], _ :: _, _, _, _, ho, _ => by simp [OwnList] at ho
  | _ :: _, [], _, _, _, ho, _ => by simp [OwnList] at ho
  | a :: ts, b :: xs, lo, mid, hi, ho, hx => by
    simp only [OwnList] at ho
    obtain ⟨m, h1, h2⟩ := ho
    simp only [List.cons_append, OwnList]
    exact ⟨m, h1, ownList_snoc' ts xs m mid hi h2 hx⟩

theorem ownPairs_snoc' {h : H} {k v : Item} {a b : Ref} : ∀ (ps : List (Item × Item)) (rs : List (Ref × Ref)) (lo m1 m2 hi : Nat),
    OwnPairs ps h rs lo m1 → Own k h a m1 m2 → Own v h b m2 hi → OwnPairs (ps ++ [(k, v)]) h (rs ++ [(a, b)]) lo hi
  | [], [], lo, m1, m2, hi, ho, hk, hv => by
    simp only [OwnPairs] at ho; subst ho
    simp only [List.nil_append, OwnPairs]
    exact ⟨m2, hi, hk, hv, rfl⟩
  | [], _ :: _, _, _, _, _, ho, _, _ => by simp [OwnPairs] at ho
  | _ :: _, [], _, _, _, _, ho, _, _ => by simp [OwnPairs] at ho
  | (k', v') :: ps, (a', b') :: rs, lo, m1, m2, hi, ho, hk, hv => by
    simp only [OwnPairs] at ho
    obtain ⟨n1, n2, h1, h2, h3⟩ := ho
    simp only [List.cons_append, OwnPairs]
    exact ⟨n1, n2, h1, h2, ownPairs_snoc' ps rs n2 m1 m2 hi h3 hk hv⟩

theorem ownChunks_snoc' (t : Bool) {h : H} {b : List UInt8} : ∀ (cs : List (List UInt8)) (rs : List Ref) (lo hi : Nat),
    OwnChunks t cs h rs lo hi → h.get hi = some ⟨.str t b, 1⟩ → OwnChunks t (cs ++ [b]) h (rs ++ [hi]) lo (hi + 1)
  | [], [], lo, hi, ho, hb => by
    simp only [OwnChunks] at ho; subst ho
    simp only [List.nil_append, OwnChunks]
    exact ⟨trivial, hb, trivial⟩
  | [], _ :: _, _, _, ho, _ => by simp [OwnChunks] at ho
  | _ :: _, [], _, _, ho, _ => by simp [OwnChunks] at ho
  | c :: cs, r :: rs, lo, hi, ho, hb => by
    simp only [OwnChunks] at ho
    obtain ⟨h1, h2, h3⟩ := ho
    simp only [List.cons_append, OwnChunks]
    exact ⟨h1, h2, ownChunks_snoc' t cs rs (lo + 1) hi h3 hb⟩

theorem ownList_length {h : H} : ∀ (ts : List Item) (xs : List Ref) (lo hi : Nat), OwnList ts h xs lo hi → xs.length = ts.length
  | [], [], _, _, _ => rfl
  | [], _ :: _, _, _, ho => by simp [OwnList] at ho
  | _ :: _, [], _, _, ho => by simp [OwnList] at ho
  | _ :: ts, _ :: xs, _, hi, ho => by
    simp only [OwnList] at ho
    obtain ⟨m, _, h2⟩ := ho
    simp [ownList_length ts xs m hi h2]

theorem ownPairs_length {h : H} : ∀ (ps : List (Item × Item)) (rs : List (Ref × Ref)) (lo hi : Nat), OwnPairs ps h rs lo hi → rs.length = ps.length
  | [], [], _, _, _ => rfl
  | [], _ :: _, _, _, ho => by simp [OwnPairs] at ho
  | _ :: _, [], _, _, ho => by simp [OwnPairs] at ho
  | (_, _) :: ps, (_, _) :: rs, _, hi, ho => by
    simp only [OwnPairs] at ho
    obtain ⟨_, m2, _, _, h3⟩ := ho
    simp [ownPairs_length ps rs m2 hi h3]

theorem ownChunks_length (t : Bool) {h : H} : ∀ (cs : List (List UInt8)) (rs : List Ref) (lo hi : Nat), OwnChunks t cs h rs lo hi → rs.length = cs.length
  | [], [], _, _, _ => rfl
  | [], _ :: _, _, _, ho => by simp [OwnChunks] at ho
  | _ :: _, [], _, _, ho => by simp [OwnChunks] at ho
  | _ :: cs, _ :: rs, lo, hi, ho => by
    simp only [OwnChunks] at ho
    simp [ownChunks_length t cs rs (lo + 1) hi ho.2.2]

/-- the root of an owned tree is a live cell with count 1 -/
theorem own_root' {h : H} {t : Item} {y lo hi : Nat} (ho : Own t h y lo hi) : ∃ n, h.get y = some ⟨n, 1⟩ := by
  cases t <;> simp only [Own] at ho
  case uint | negint | bytes | text | simple | half | single | double => exact ⟨_, ho.2.2⟩
  case bytesI | textI | array | arrayI | map | mapI => obtain ⟨_, _, _, _, hg, _⟩ := ho; exact ⟨_, hg⟩
  case tag => obtain ⟨_, _, _, hg, _⟩ := ho; exact ⟨_, hg⟩

/-- releasing a one-cell item (no references held) -/
theorem hdecref_leaf {h : H} {y : Ref} {n : Node} (hg : h.get y = some ⟨n, 1⟩) (hn : n.children = []) :
    Freed h (h.decref y) y (y + 1) := by
  unfold H.decref H.fuel
  rw [decref_root hg, hn]
  simp only [List.foldl_nil]
  exact ⟨rfl, rfl, by simp, fun r hr1 hr2 => by
      have : r = y := by omega
      subst this; exact get_put_same h r none (get_lt hg),
    fun r hr => get_put_ne h y r none (by omega)⟩

end Heap

namespace HB
open Heap
open Spec (Item)

/-! ### the simulation relation -/

/-- the pending key of a map frame: an owned tree at the end of the frame's interval -/
def KeyOwn (h : H) : Option Item → Option Ref → Nat → Nat → Prop
  | none, none, mid, hi => mid = hi
  | some k, some kr, mid, hi => Own k h kr mid hi
  | _, _, _, _ => False

/-- frame `hf` of the heap builder is frame `pf` of the value-level builder, laid out in exactly the cells `lo … hi-1`:
the partially built container at `lo` (count 1, same kind, same capacity), then its members in order -/
def FrameOwn (h : H) (pf : Model.Frame) (hf : Frame) (lo hi : Nat) : Prop :=
  (hf.item : Nat) = lo ∧ hf.subitems = pf.subitems ∧
  match pf.item with
  | .arrD al xs => hf.key = none ∧ ∃ rs, h.get lo = some ⟨.arr true rs al, 1⟩ ∧ OwnList xs h rs (lo + 1) hi
  | .arrI al xs => hf.key = none ∧ ∃ rs, h.get lo = some ⟨.arr false rs al, 1⟩ ∧ OwnList xs h rs (lo + 1) hi
  | .mapD al kvs key => ∃ rs mid, h.get lo = some ⟨.map true rs al, 1⟩ ∧ OwnPairs kvs h rs (lo + 1) mid ∧
      KeyOwn h key hf.key mid hi ∧ (pf.subitems % 2 = 1 ↔ key.isSome = true) ∧
      kvs.length + (if key.isSome = true then 1 else 0) ≤ al
  | .mapI al kvs key => ∃ rs mid, h.get lo = some ⟨.map false rs al, 1⟩ ∧ OwnPairs kvs h rs (lo + 1) mid ∧
      KeyOwn h key hf.key mid hi ∧ ((pf.subitems = 0 ∧ key = none) ∨ (pf.subitems = 1 ∧ key.isSome = true)) ∧
      kvs.length + (if key.isSome = true then 1 else 0) ≤ al
  | .tag n x => hf.key = none ∧ x = none ∧ h.get lo = some ⟨.tag n none, 1⟩ ∧ hi = lo + 1
  | .bstrI cap cs => hf.key = none ∧ ∃ rs, h.get lo = some ⟨.strI false rs cap, 1⟩ ∧ OwnChunks false cs h rs (lo + 1) hi
  | .tstrI cap cs => hf.key = none ∧ ∃ rs, h.get lo = some ⟨.strI true rs cap, 1⟩ ∧ OwnChunks true cs h rs (lo + 1) hi

/-- the two stacks correspond frame by frame (top first); the frames own consecutive intervals that together make up `N … hi-1` -/
def StackOwn (h : H) : List Model.Frame → List Frame → Nat → Nat → Prop
  | [], [], N, hi => hi = N
  | pf :: ps, hf :: hs, N, hi => ∃ lo, FrameOwn h pf hf lo hi ∧ StackOwn h ps hs N lo
  | _, _, _, _ => False

theorem keyOwn_le {h : H} : ∀ (k : Option Item) (kr : Option Ref) (mid hi : Nat), KeyOwn h k kr mid hi → mid ≤ hi
  | none, none, _, _, ho => by simp only [KeyOwn] at ho; omega
  | some k, some kr, mid, hi, ho => by simp only [KeyOwn] at ho; have := own_lt k kr mid hi ho; omega
  | none, some _, _, _, ho => by simp [KeyOwn] at ho
  | some _, none, _, _, ho => by simp [KeyOwn] at ho

theorem keyOwn_congr {h h' : H} : ∀ (k : Option Item) (kr : Option Ref) (mid hi : Nat),
    (∀ r, mid ≤ r → r < hi → h'.get r = h.get r) → KeyOwn h k kr mid hi → KeyOwn h' k kr mid hi
  | none, none, _, _, _, ho => ho
  | some k, some kr, mid, hi, e, ho => by simp only [KeyOwn] at ho ⊢; exact own_congr k kr mid hi e ho
  | none, some _, _, _, _, ho => by simp [KeyOwn] at ho
  | some _, none, _, _, _, ho => by simp [KeyOwn] at ho

theorem frameOwn_lt {h : H} {pf : Model.Frame} {hf : Frame} {lo hi : Nat} (ho : FrameOwn h pf hf lo hi) : lo < hi := by
  obtain ⟨pit, sub⟩ := pf
  obtain ⟨_, _, ho⟩ := ho
  cases pit with
  | arrD al xs | arrI al xs =>
    obtain ⟨_, rs, _, h3⟩ := ho
    have := ownList_le xs rs _ _ h3; omega
  | mapD al kvs key | mapI al kvs key =>
    obtain ⟨rs, mid, _, h3, h4, _⟩ := ho
    have := ownPairs_le kvs rs _ _ h3
    have := keyOwn_le _ _ _ _ h4; omega
  | tag n x => obtain ⟨_, _, _, h4⟩ := ho; omega
  | bstrI cap cs | tstrI cap cs =>
    obtain ⟨_, rs, _, h3⟩ := ho
    have := ownChunks_le _ cs rs _ _ h3; omega

theorem frameOwn_congr {h h' : H} {pf : Model.Frame} {hf : Frame} {lo hi : Nat}
    (e : ∀ r, lo ≤ r → r < hi → h'.get r = h.get r) (ho : FrameOwn h pf hf lo hi) : FrameOwn h' pf hf lo hi := by
  have hlt := frameOwn_lt ho
  obtain ⟨pit, sub⟩ := pf
  obtain ⟨h1, h2, ho⟩ := ho
  refine ⟨h1, h2, ?_⟩
  have e0 : h'.get lo = h.get lo := e lo (Nat.le_refl _) hlt
  cases pit with
  | arrD al xs | arrI al xs =>
    obtain ⟨hk, rs, hg, h3⟩ := ho
    exact ⟨hk, rs, by rw [e0]; exact hg, ownList_congr xs rs _ _ (fun r a b => e r (by omega) b) h3⟩
  | mapD al kvs key | mapI al kvs key =>
    obtain ⟨rs, mid, hg, h3, h4, h5⟩ := ho
    have l1 := ownPairs_le kvs rs _ _ h3
    have l2 := keyOwn_le _ _ _ _ h4
    exact ⟨rs, mid, by rw [e0]; exact hg, ownPairs_congr kvs rs _ _ (fun r a b => e r (by omega) (by omega)) h3,
      keyOwn_congr _ _ _ _ (fun r a b => e r (by omega) b) h4, h5⟩
  | tag n x =>
    obtain ⟨hk, hx, hg, h4⟩ := ho
    exact ⟨hk, hx, by rw [e0]; exact hg, h4⟩
  | bstrI cap cs | tstrI cap cs =>
    obtain ⟨hk, rs, hg, h3⟩ := ho
    exact ⟨hk, rs, by rw [e0]; exact hg, ownChunks_congr _ cs rs _ _ (fun r a b => e r (by omega) b) h3⟩

theorem stackOwn_le {h : H} : ∀ (ps : List Model.Frame) (hs : List Frame) (N hi : Nat), StackOwn h ps hs N hi → N ≤ hi
  | [], [], _, _, ho => by simp only [StackOwn] at ho; omega
  | [], _ :: _, _, _, ho => by simp [StackOwn] at ho
  | _ :: _, [], _, _, ho => by simp [StackOwn] at ho
  | pf :: ps, hf :: hs, N, hi, ho => by
    simp only [StackOwn] at ho
    obtain ⟨lo, h1, h2⟩ := ho
    have := frameOwn_lt h1
    have := stackOwn_le ps hs N lo h2
    omega

theorem stackOwn_congr {h h' : H} : ∀ (ps : List Model.Frame) (hs : List Frame) (N hi : Nat),
    (∀ r, N ≤ r → r < hi → h'.get r = h.get r) → StackOwn h ps hs N hi → StackOwn h' ps hs N hi
  | [], [], _, _, _, ho => ho
  | [], _ :: _, _, _, _, ho => by simp [StackOwn] at ho
  | _ :: _, [], _, _, _, ho => by simp [StackOwn] at ho
  | pf :: ps, hf :: hs, N, hi, e, ho => by
    simp only [StackOwn] at ho ⊢
    obtain ⟨lo, h1, h2⟩ := ho
    have l1 := frameOwn_lt h1
    have l2 := stackOwn_le ps hs N lo h2
    exact ⟨lo, frameOwn_congr (fun r a b => e r (by omega) b) h1,
      stackOwn_congr ps hs N lo (fun r a b => e r a (by omega)) h2⟩

theorem stackOwn_length {h : H} : ∀ (ps : List Model.Frame) (hs : List Frame) (N hi : Nat), StackOwn h ps hs N hi → hs.length = ps.length
  | [], [], _, _, _ => rfl
  | [], _ :: _, _, _, ho => by simp [StackOwn] at ho
  | _ :: _, [], _, _, ho => by simp [StackOwn] at ho
  | _ :: ps, _ :: hs, N, _, ho => by
    simp only [StackOwn] at ho
    obtain ⟨lo, _, h2⟩ := ho
    simp [stackOwn_length ps hs N lo h2]

/-! ### finished containers are owned trees; releasing a frame releases its interval -/

theorem own_arrD {h : H} {rs : List Ref} {al lo hi : Nat} {ts : List Item}
    (hg : h.get lo = some ⟨.arr true rs al, 1⟩) (ho : OwnList ts h rs (lo + 1) hi) : Own (.array ts) h lo lo hi := by
  simp only [Own]; exact ⟨rs, al, lo + 1, hi, hg, Or.inl ⟨rfl, rfl, rfl⟩, ho⟩

theorem own_arrI {h : H} {rs : List Ref} {al lo hi : Nat} {ts : List Item}
    (hg : h.get lo = some ⟨.arr false rs al, 1⟩) (ho : OwnList ts h rs (lo + 1) hi) : Own (.arrayI ts) h lo lo hi := by
  simp only [Own]; exact ⟨rs, al, lo + 1, hi, hg, Or.inl ⟨rfl, rfl, rfl⟩, ho⟩

theorem own_mapD {h : H} {rs : List (Ref × Ref)} {al lo hi : Nat} {ps : List (Item × Item)}
    (hg : h.get lo = some ⟨.map true rs al, 1⟩) (ho : OwnPairs ps h rs (lo + 1) hi) : Own (.map ps) h lo lo hi := by
  simp only [Own]; exact ⟨rs, al, lo + 1, hi, hg, Or.inl ⟨rfl, rfl, rfl⟩, ho⟩

theorem own_mapI {h : H} {rs : List (Ref × Ref)} {al lo hi : Nat} {ps : List (Item × Item)}
    (hg : h.get lo = some ⟨.map false rs al, 1⟩) (ho : OwnPairs ps h rs (lo + 1) hi) : Own (.mapI ps) h lo lo hi := by
  simp only [Own]; exact ⟨rs, al, lo + 1, hi, hg, Or.inl ⟨rfl, rfl, rfl⟩, ho⟩

theorem own_bstrI {h : H} {rs : List Ref} {cap lo hi : Nat} {cs : List (List UInt8)}
    (hg : h.get lo = some ⟨.strI false rs cap, 1⟩) (ho : OwnChunks false cs h rs (lo + 1) hi) : Own (.bytesI cs) h lo lo hi := by
  simp only [Own]; exact ⟨rs, cap, lo + 1, hi, hg, Or.inl ⟨rfl, rfl, rfl⟩, ho⟩

theorem own_tstrI {h : H} {rs : List Ref} {cap lo hi : Nat} {cs : List (List UInt8)}
    (hg : h.get lo = some ⟨.strI true rs cap, 1⟩) (ho : OwnChunks true cs h rs (lo + 1) hi) : Own (.textI cs) h lo lo hi := by
  simp only [Own]; exact ⟨rs, cap, lo + 1, hi, hg, Or.inl ⟨rfl, rfl, rfl⟩, ho⟩

theorem own_tag {h : H} {n : Nat} {x lo hi : Nat} {t : Item}
    (hg : h.get lo = some ⟨.tag n (some x), 1⟩) (ho : Own t h x (lo + 1) hi) : Own (.tag n t) h lo lo hi := by
  simp only [Own]; exact ⟨x, lo + 1, hi, hg, Or.inl ⟨rfl, rfl, rfl⟩, ho⟩

/-- release the high interval first, then the low one -/
theorem _root_.Heap.Freed.appendRev {h h1 h2 : H} {lo mid hi : Nat} (b : Freed h h1 mid hi) (a : Freed h1 h2 lo mid) (h1' : lo ≤ mid) (h2' : mid ≤ hi) :
    Freed h h2 lo hi := by
  obtain ⟨a1, a2, a3, a4, a5⟩ := a
  obtain ⟨b1, b2, b3, b4, b5⟩ := b
  refine ⟨a1.trans b1, a2.trans b2, a3.trans b3, fun r hr1 hr2 => ?_, fun r hr => ?_⟩
  · by_cases hm : r < mid
    · exact a4 r hr1 hm
    · rw [a5 r (by omega)]; exact b4 r (by omega) hr2
  · rw [a5 r (by omega)]; exact b5 r (by omega)

/-- a map frame with a pending key: release the map (its complete pairs), then the key -/
theorem release_with_key {h : H} {t k : Item} {lo mid hi : Nat} {kr : Ref}
    (hm : Own t h lo lo mid) (hk : Own k h kr mid hi) (hhi : hi ≤ h.cells.length) :
    Freed h ((h.decref lo).decref kr) lo hi := by
  have b1 := own_lt _ _ _ _ hm
  have b2 := own_lt _ _ _ _ hk
  have f1 := hdecref_own hm (by omega)
  have hk' : Own k (h.decref lo) kr mid hi := own_congr k kr mid hi (fun r hr1 _ => f1.2.2.2.2 r (Or.inr hr1)) hk
  have f2 := hdecref_own hk' (by rw [f1.2.2.1]; exact hhi)
  exact f1.append f2 (by omega) (by omega)

/-- one iteration of the clean-up loop of `cbor_load` releases exactly the frame's interval -/
theorem frame_release {h : H} {pf : Model.Frame} {hf : Frame} {lo hi : Nat} (ho : FrameOwn h pf hf lo hi)
    (hhi : hi ≤ h.cells.length) :
    Freed h (match hf.key with | some k => (h.decref hf.item).decref k | none => h.decref hf.item) lo hi := by
  obtain ⟨pit, sub⟩ := pf
  obtain ⟨hitem, hkey, item⟩ := hf
  obtain ⟨h1, _, ho⟩ := ho
  simp only at h1; subst h1
  cases pit with
  | arrD al xs => obtain ⟨hk, rs, hg, h3⟩ := ho; simp only at hk; subst hk; exact hdecref_own (own_arrD hg h3) hhi
  | arrI al xs => obtain ⟨hk, rs, hg, h3⟩ := ho; simp only at hk; subst hk; exact hdecref_own (own_arrI hg h3) hhi
  | bstrI al xs => obtain ⟨hk, rs, hg, h3⟩ := ho; simp only at hk; subst hk; exact hdecref_own (own_bstrI hg h3) hhi
  | tstrI al xs => obtain ⟨hk, rs, hg, h3⟩ := ho; simp only at hk; subst hk; exact hdecref_own (own_tstrI hg h3) hhi
  | tag n x =>
    obtain ⟨hk, _, hg, h4⟩ := ho; simp only at hk; subst hk; subst h4
    exact hdecref_leaf hg rfl
  | mapD al kvs key =>
    obtain ⟨rs, mid, hg, h3, h4, _⟩ := ho
    cases key with
    | none =>
      cases item with
      | none => simp only [KeyOwn] at h4; subst h4; exact hdecref_own (own_mapD hg h3) hhi
      | some _ => simp [KeyOwn] at h4
    | some k =>
      cases item with
      | none => simp [KeyOwn] at h4
      | some kr => simp only [KeyOwn] at h4; exact release_with_key (own_mapD hg h3) h4 hhi
  | mapI al kvs key =>
    obtain ⟨rs, mid, hg, h3, h4, _⟩ := ho
    cases key with
    | none =>
      cases item with
      | none => simp only [KeyOwn] at h4; subst h4; exact hdecref_own (own_mapI hg h3) hhi
      | some _ => simp [KeyOwn] at h4
    | some k =>
      cases item with
      | none => simp [KeyOwn] at h4
      | some kr => simp only [KeyOwn] at h4; exact release_with_key (own_mapI hg h3) h4 hhi

/-- **the clean-up loop of `cbor_load` releases every cell the frames own** -/
theorem cleanup_freed : ∀ (ps : List Model.Frame) (hs : List Frame) (h : H) (N hi : Nat),
    StackOwn h ps hs N hi → hi ≤ h.cells.length → Freed h (cleanup h hs) N hi
  | [], [], h, N, hi, ho, _ => by simp only [StackOwn] at ho; subst ho; exact Freed.empty h hi
  | [], _ :: _, _, _, _, ho, _ => by simp [StackOwn] at ho
  | _ :: _, [], _, _, _, ho, _ => by simp [StackOwn] at ho
  | pf :: ps, hf :: hs, h, N, hi, ho, hhi => by
    simp only [StackOwn] at ho
    obtain ⟨lo, h1, h2⟩ := ho
    have l1 := frameOwn_lt h1
    have l2 := stackOwn_le ps hs N lo h2
    have f1 := frame_release h1 hhi
    simp only [cleanup]
    have h2' := stackOwn_congr ps hs N lo (fun r _ b => f1.2.2.2.2 r (Or.inl b)) h2
    have f2 := cleanup_freed ps hs _ N lo h2' (by rw [f1.2.2.1]; omega)
    exact f1.appendRev f2 l2 (by omega)

/-! ### the invariant -/

/-- what a sequence of builder steps preserves of the heap: request count in step with the value-level model, fault flag,
every cell that existed before the load -/
def Keeps (N : Nat) (h h' : H) (k : Nat) : Prop :=
  h'.reqs = h.reqs + k ∧ h'.fault = h.fault ∧ ∀ x, x < N → h'.get x = h.get x

theorem Keeps.refl (N : Nat) (h : H) : Keeps N h h 0 := ⟨rfl, rfl, fun _ _ => rfl⟩

theorem Keeps.trans {N : Nat} {h h1 h2 : H} {k1 k2 : Nat} (a : Keeps N h h1 k1) (b : Keeps N h1 h2 k2) : Keeps N h h2 (k1 + k2) :=
  ⟨by rw [b.1, a.1]; omega, b.2.1.trans a.2.1, fun x hx => (b.2.2 x hx).trans (a.2.2 x hx)⟩

theorem Upd'.keeps {h h' : H} {a : Ref} {c : Option Cell} {k N : Nat} (u : Upd' h h' a c k) (ha : N ≤ a) : Keeps N h h' k :=
  ⟨u.2.1, u.2.2.1, fun x hx => u.2.2.2.2 x (Nat.ne_of_lt (Nat.lt_of_lt_of_le hx ha))⟩

theorem Req.keeps {h h' : H} {k : Nat} (q : Req h h' k) (N : Nat) : Keeps N h h' k :=
  ⟨q.2.2, q.2.1, fun x _ => q.get x⟩

theorem freed_keeps {h h' : H} {lo hi N : Nat} (f : Freed h h' lo hi) (hlo : N ≤ lo) : Keeps N h h' 0 :=
  ⟨f.2.1, f.1, fun x hx => f.2.2.2.2 x (Or.inl (by omega))⟩

/-- the part of the simulation relation that holds at every point -/
structure Base (N : Nat) (h0 : H) (c : Model.Ctx) (hc : Ctx) : Prop where
  cf : hc.creationFailed = c.creationFailed
  se : hc.syntaxError = c.syntaxError
  keeps : Keeps N h0 hc.h c.reqs

theorem Base.step {N : Nat} {h0 : H} {c c' : Model.Ctx} {hc hc' : Ctx} {k : Nat} (b : Base N h0 c hc)
    (kp : Keeps N hc.h hc'.h k) (hr : c'.reqs = c.reqs + k)
    (hcf : hc'.creationFailed = c'.creationFailed) (hse : hc'.syntaxError = c'.syntaxError) : Base N h0 c' hc' :=
  ⟨hcf, hse, by rw [hr]; exact b.keeps.trans kp⟩

/-- between two callbacks: no error flag, no root yet, the frames own exactly the cells created so far -/
structure Good (N : Nat) (h0 : H) (c : Model.Ctx) (hc : Ctx) : Prop where
  base : Base N h0 c hc
  cf : c.creationFailed = false
  se : c.syntaxError = false
  root : c.root = none
  own : StackOwn hc.h c.stack hc.stack N hc.h.cells.length

/-- the top-level item is complete: an exclusively owned tree in exactly the cells created -/
structure Done (N : Nat) (h0 : H) (c : Model.Ctx) (hc : Ctx) : Prop where
  base : Base N h0 c hc
  cf : c.creationFailed = false
  se : c.syntaxError = false
  st : c.stack = []
  hst : hc.stack = []
  own : ∃ t y, c.root = some t ∧ hc.root = some y ∧ Own t hc.h y N hc.h.cells.length

/-- a callback failed: the frames still own their cells, every other cell created has been released -/
structure Failed (N : Nat) (h0 : H) (c : Model.Ctx) (hc : Ctx) : Prop where
  base : Base N h0 c hc
  flag : c.creationFailed = true ∨ c.syntaxError = true
  own : ∃ hi, StackOwn hc.h c.stack hc.stack N hi ∧ hi ≤ hc.h.cells.length ∧ ∀ x, hi ≤ x → hc.h.get x = none

def Post (N : Nat) (h0 : H) (c : Model.Ctx) (hc : Ctx) : Prop := Good N h0 c hc ∨ Done N h0 c hc ∨ Failed N h0 c hc

/-- in the middle of a callback: a finished item `t` at `y` occupies the cells above the frames -/
structure Mid (N : Nat) (h0 : H) (c : Model.Ctx) (hc : Ctx) (lo : Nat) (t : Item) (y : Ref) : Prop where
  base : Base N h0 c hc
  cf : c.creationFailed = false
  se : c.syntaxError = false
  root : c.root = none
  own : StackOwn hc.h c.stack hc.stack N lo
  item : Own t hc.h y lo hc.h.cells.length

/-- after some requests, everything above the frames is released and an error flag goes up -/
theorem failed_freed {N : Nat} {h0 : H} {c c' : Model.Ctx} {hc hc' : Ctx} {lo : Nat} {h1 : H} {k : Nat}
    (mb : Base N h0 c hc) (so : StackOwn hc.h c.stack hc.stack N lo) (q : Req hc.h h1 k)
    (f : Freed h1 hc'.h lo h1.cells.length) (hle : lo ≤ h1.cells.length)
    (hst : c'.stack = c.stack) (hhst : hc'.stack = hc.stack) (hr : c'.reqs = c.reqs + k)
    (hcf : hc'.creationFailed = c'.creationFailed) (hse : hc'.syntaxError = c'.syntaxError)
    (flag : c'.creationFailed = true ∨ c'.syntaxError = true) : Post N h0 c' hc' := by
  have hN := stackOwn_le _ _ _ _ so
  refine Or.inr (Or.inr ⟨mb.step (k := k) ?_ hr hcf hse, flag, lo, ?_, ?_, ?_⟩)
  · have := (q.keeps N).trans (freed_keeps f hN); simpa using this
  · rw [hst, hhst]
    exact stackOwn_congr _ _ N lo (fun r _ hr => by rw [f.2.2.2.2 r (Or.inl hr)]; exact q.get r) so
  · rw [f.2.2.1]; exact hle
  · intro x hx
    by_cases hxl : x < h1.cells.length
    · exact f.2.2.2.1 x hx hxl
    · exact get_none_of_ge _ _ (by rw [f.2.2.1]; omega)

/-- the delivered item is refused (or cannot be placed): it is released, an error flag goes up -/
theorem failed_release {N : Nat} {h0 : H} {c c' : Model.Ctx} {hc hc' : Ctx} {lo : Nat} {t : Item} {y : Ref} {h1 : H} {k : Nat}
    (m : Mid N h0 c hc lo t y) (q : Req hc.h h1 k) (hh : hc'.h = h1.decref y)
    (hst : c'.stack = c.stack) (hhst : hc'.stack = hc.stack) (hr : c'.reqs = c.reqs + k)
    (hcf : hc'.creationFailed = c'.creationFailed) (hse : hc'.syntaxError = c'.syntaxError)
    (flag : c'.creationFailed = true ∨ c'.syntaxError = true) : Post N h0 c' hc' := by
  have hl1 : h1.cells.length = hc.h.cells.length := by rw [q.1]
  have ho1 : Own t h1 y lo h1.cells.length := by
    rw [hl1]; exact own_congr t y lo _ (fun r _ _ => q.get r) m.item
  have f := hdecref_own ho1 (Nat.le_refl _)
  rw [← hh] at f
  exact failed_freed m.base m.own q f (Nat.le_of_lt (own_lt _ _ _ _ ho1).1) hst hhst hr hcf hse flag

/-! ### `_cbor_builder_append` -/

theorem upd_stackOwn {h h' : H} {a : Nat} {c : Option Cell} {k : Nat} (u : Upd' h h' a c k) {ps : List Model.Frame} {hs : List Frame}
    {N : Nat} (so : StackOwn h ps hs N a) : StackOwn h' ps hs N a :=
  stackOwn_congr ps hs N a (fun r _ hr => u.2.2.2.2 r (Nat.ne_of_lt hr)) so

theorem upd_ownList {h h' : H} {a : Nat} {c : Option Cell} {k lo : Nat} (u : Upd' h h' a c k) {xs : List Item} {rs : List Ref}
    {t : Item} {y : Ref} (ol : OwnList xs h rs (a + 1) lo) (it : Own t h y lo h.cells.length) :
    OwnList (xs ++ [t]) h' (rs ++ [y]) (a + 1) h'.cells.length := by
  have l1 := ownList_le _ _ _ _ ol
  rw [u.1]
  exact ownList_snoc' xs rs (a + 1) lo _
    (ownList_congr xs rs _ _ (fun r hr _ => u.2.2.2.2 r (Nat.ne_of_gt hr)) ol)
    (own_congr t y lo _ (fun r hr _ => u.2.2.2.2 r (Nat.ne_of_gt (by omega))) it)

theorem upd_ownPairs {h h' : H} {a : Nat} {c : Option Cell} {k mid : Nat} (u : Upd' h h' a c k) {kvs : List (Item × Item)}
    {rs : List (Ref × Ref)} (op : OwnPairs kvs h rs (a + 1) mid) : OwnPairs kvs h' rs (a + 1) mid :=
  ownPairs_congr kvs rs _ _ (fun r hr _ => u.2.2.2.2 r (Nat.ne_of_gt hr)) op

theorem upd_own {h h' : H} {a : Nat} {c : Option Cell} {k lo hi : Nat} (u : Upd' h h' a c k) (hlo : a < lo) {t : Item} {y : Ref}
    (it : Own t h y lo hi) : Own t h' y lo hi :=
  own_congr t y lo hi (fun r hr _ => u.2.2.2.2 r (Nat.ne_of_gt (Nat.lt_of_lt_of_le hlo hr))) it

theorem upd_ownPairs_val {h h' : H} {a : Nat} {c : Option Cell} {k mid lo : Nat} (u : Upd' h h' a c k) {kvs : List (Item × Item)}
    {rs : List (Ref × Ref)} {kk t : Item} {kr y : Ref} (op : OwnPairs kvs h rs (a + 1) mid) (okk : Own kk h kr mid lo)
    (it : Own t h y lo h.cells.length) : OwnPairs (kvs ++ [(kk, t)]) h' (rs ++ [(kr, y)]) (a + 1) h'.cells.length := by
  have l1 := ownPairs_le _ _ _ _ op
  have l2 := own_lt _ _ _ _ okk
  rw [u.1]
  exact ownPairs_snoc' kvs rs (a + 1) mid lo _ (upd_ownPairs u op) (upd_own u (by omega) okk) (upd_own u (by omega) it)

theorem odd_pred (s : UInt64) (h : s % 2 = 1) : ¬ (s - 1) % 2 = 1 := by
  have h1 := (Lemmas.Safe.mod2 s).mp h
  have h2 := Lemmas.Safe.sub_toNat s (by omega)
  intro e
  have := (Lemmas.Safe.mod2 _).mp e
  omega

theorem even_pred (s : UInt64) (h : ¬ s % 2 = 1) (h0 : ¬ s = 0) : (s - 1) % 2 = 1 := by
  have h1 : ¬ s.toNat % 2 = 1 := fun e => h ((Lemmas.Safe.mod2 s).mpr e)
  have h3 : s.toNat ≠ 0 := fun e => h0 ((Lemmas.Safe.eq_zero_iff s).mpr e)
  have h2 := Lemmas.Safe.sub_toNat s (by omega)
  exact (Lemmas.Safe.mod2 _).mpr (by omega)

/-- the statement proved about `append` with `fuel` units of cascade -/
def AppendOK (ω : Oracle) (N : Nat) (h0 : H) (fuel : Nat) : Prop :=
  ∀ (t : Item) (y : Ref) (c : Model.Ctx) (hc : Ctx) (lo : Nat), Mid N h0 c hc lo t y →
    (Model.append (orc ω h0.reqs) fuel t c).fault = false →
    Post N h0 (Model.append (orc ω h0.reqs) fuel t c) (append ω fuel y hc)

theorem append_sim (ω : Oracle) (N : Nat) (h0 : H) : ∀ fuel, AppendOK ω N h0 fuel
  | 0 => by intro t y c hc lo m hf; simp [Model.append] at hf
  | fuel+1 => by
    intro t y c hc lo m hf
    have ih := append_sim ω N h0 fuel
    obtain ⟨stack, root, cf, se, reqs, fault⟩ := c
    obtain ⟨h, hstack, hroot, hcf, hse⟩ := hc
    obtain ⟨mb, mcf, mse, mroot, mown, mitem⟩ := m
    simp only at mcf mse mroot mown mitem
    subst mcf mse mroot
    have hylo := own_lt _ _ _ _ mitem
    cases stack with
    | nil =>
      cases hstack with
      | cons _ _ => simp [StackOwn] at mown
      | nil =>
        simp only [StackOwn] at mown; subst mown
        simp only [Model.append, append]
        exact Or.inr (Or.inl ⟨mb.step (Keeps.refl _ _) rfl mb.cf mb.se, rfl, rfl, rfl, rfl, t, y, rfl, rfl, mitem⟩)
    | cons pf ps =>
      cases hstack with
      | nil => simp [StackOwn] at mown
      | cons fr hs =>
        simp only [StackOwn] at mown
        obtain ⟨lo'', fo, so⟩ := mown
        have hN := stackOwn_le _ _ _ _ so
        have hlo' := frameOwn_lt fo
        obtain ⟨pit, sub'⟩ := pf
        obtain ⟨lo', sub, hkey⟩ := fr
        obtain ⟨e1, e2, fo⟩ := fo
        simp only at e1 e2 fo; subst e1 e2
        have hne : lo' ≠ y := Nat.ne_of_lt (Nat.lt_of_lt_of_le hlo' hylo.2.1)
        cases pit with
        | arrD al xs =>
          obtain ⟨ek, rs, hg, ol⟩ := fo
          subst ek
          have hlen := ownList_length _ _ _ _ ol
          simp only [Model.append, append, hg, ge_iff_le] at hf ⊢
          by_cases hs0 : sub = 0
          · simp [hs0] at hf
          · simp only [hs0, if_false] at hf ⊢
            by_cases hfull : al ≤ xs.length
            · simp only [hfull, if_true] at hf ⊢
              rw [pushDec_full_def hg (by omega)]
              simp only
              exact failed_release ⟨mb, rfl, rfl, rfl, ⟨lo', ⟨rfl, rfl, rfl, rs, hg, ol⟩, so⟩, mitem⟩ (Req.refl h) rfl rfl rfl rfl
                rfl mb.se (Or.inl rfl)
            · simp only [hfull, if_false] at hf ⊢
              obtain ⟨ny, hgy⟩ : ∃ ny, h.get y = some ⟨ny, 1⟩ := own_root' mitem
              obtain ⟨h', hp, u⟩ := pushDec_room (ω := ω) hg hgy hne (by omega)
              rw [hp]
              simp only
              have so' := upd_stackOwn u so
              have ol' := upd_ownList u ol mitem
              have hb : ∀ st hst rt, Base N h0 { stack := st, reqs := reqs, fault := fault }
                  { h := h', stack := hst, root := rt, creationFailed := hcf, syntaxError := hse } :=
                fun _ _ _ => mb.step (u.keeps hN) rfl mb.cf mb.se
              by_cases hz : sub - 1 = 0
              · simp only [hz, if_true, Model.PItem.finish] at hf ⊢
                exact ih _ _ _ _ lo' ⟨hb _ _ _, rfl, rfl, rfl, so', own_arrD u.2.2.2.1 ol'⟩ hf
              · simp only [hz, if_false]
                exact Or.inl ⟨hb _ _ _, rfl, rfl, rfl, lo', ⟨rfl, rfl, rfl, _, u.2.2.2.1, ol'⟩, so'⟩
        | arrI al xs =>
          obtain ⟨ek, rs, hg, ol⟩ := fo
          subst ek
          have hlen := ownList_length _ _ _ _ ol
          obtain ⟨ny, hgy⟩ : ∃ ny, h.get y = some ⟨ny, 1⟩ := own_root' mitem
          simp only [Model.append, append, hg, ge_iff_le] at hf ⊢
          by_cases hfull : al ≤ xs.length
          · simp only [hfull, if_true] at hf ⊢
            obtain ⟨ok, k, hm, hgr⟩ := grow_sim ω h0.reqs h
              { stack := { item := Model.PItem.arrI al xs, subitems := sub } :: ps, reqs := reqs, fault := fault } Model.szPtr al mb.keeps.1
            simp only [hm] at hf ⊢
            have q := req_mk h k
            cases ok with
            | false =>
              simp only [Bool.false_eq_true, if_false] at hf hgr ⊢
              rw [pushDec_grow_fail hg (by omega) hgr]
              simp only
              exact failed_release ⟨mb, rfl, rfl, rfl, ⟨lo', ⟨rfl, rfl, rfl, rs, hg, ol⟩, so⟩, mitem⟩ q rfl rfl rfl rfl
                rfl mb.se (Or.inl rfl)
            | true =>
              simp only [if_true] at hf hgr ⊢
              obtain ⟨h', hp, u⟩ := pushDec_grow_ok hg hgy hne (by omega) hgr q
              rw [hp]
              simp only
              exact Or.inl ⟨mb.step (u.keeps hN) rfl mb.cf mb.se, rfl, rfl, rfl, lo',
                ⟨rfl, rfl, rfl, _, u.2.2.2.1, upd_ownList u ol mitem⟩, upd_stackOwn u so⟩
          · simp only [hfull, if_false] at hf ⊢
            obtain ⟨h', hp, u⟩ := pushDec_room (ω := ω) hg hgy hne (by omega)
            rw [hp]
            simp only
            exact Or.inl ⟨mb.step (u.keeps hN) rfl mb.cf mb.se, rfl, rfl, rfl, lo',
              ⟨rfl, rfl, rfl, _, u.2.2.2.1, upd_ownList u ol mitem⟩, upd_stackOwn u so⟩
        | tag n x =>
          obtain ⟨ek, ex, hg, hhi⟩ := fo
          subst ek ex hhi
          obtain ⟨ny, hgy⟩ : ∃ ny, h.get y = some ⟨ny, 1⟩ := own_root' mitem
          simp only [Model.append, append, hg, ne_eq] at hf ⊢
          by_cases hs1 : sub = 1
          · simp only [hs1, not_true_eq_false, if_false] at hf ⊢
            have u := tagSet_dec hg hgy hne
            refine ih _ _ _ _ lo' ⟨mb.step (u.keeps hN) rfl mb.cf mb.se, rfl, rfl, rfl, upd_stackOwn u so, ?_⟩ hf
            refine own_tag u.2.2.2.1 ?_
            simp only; rw [u.1]
            exact upd_own u (Nat.lt_succ_self _) mitem
          · simp [hs1] at hf
        | bstrI cap cs =>
          obtain ⟨ek, rs, hg, oc⟩ := fo
          subst ek
          simp only [Model.append, append, hg] at hf ⊢
          exact failed_release ⟨mb, rfl, rfl, rfl, ⟨lo', ⟨rfl, rfl, rfl, rs, hg, oc⟩, so⟩, mitem⟩ (Req.refl h) rfl rfl rfl rfl
            mb.cf rfl (Or.inr rfl)
        | tstrI cap cs =>
          obtain ⟨ek, rs, hg, oc⟩ := fo
          subst ek
          simp only [Model.append, append, hg] at hf ⊢
          exact failed_release ⟨mb, rfl, rfl, rfl, ⟨lo', ⟨rfl, rfl, rfl, rs, hg, oc⟩, so⟩, mitem⟩ (Req.refl h) rfl rfl rfl rfl
            mb.cf rfl (Or.inr rfl)
        | mapD al kvs key =>
          obtain ⟨rs, mid, hg, op, ko, par, hcap⟩ := fo
          have hlen := ownPairs_length _ _ _ _ op
          have hmid := ownPairs_le _ _ _ _ op
          obtain ⟨ny, hgy⟩ : ∃ ny, h.get y = some ⟨ny, 1⟩ := own_root' mitem
          simp only [Model.append, append, hg, ge_iff_le] at hf ⊢
          by_cases hodd : sub % 2 = 1
          · simp only [hodd, if_true] at hf ⊢
            cases key with
            | none => simp at hf
            | some kk =>
              cases hkey with
              | none => simp [KeyOwn] at ko
              | some kr =>
                simp only [KeyOwn] at ko
                simp only [Option.isSome_some, if_true] at hcap
                have hkb := own_lt _ _ _ _ ko
                obtain ⟨nk, hgk⟩ : ∃ nk, h.get kr = some ⟨nk, 1⟩ := own_root' ko
                obtain ⟨h', hp, u⟩ := valDec_room (ω := ω) hg hgk hgy
                  (Nat.ne_of_lt (by omega)) hne (Nat.ne_of_lt (by omega)) (by omega)
                simp only [hp] at hf ⊢
                by_cases hs0 : sub = 0
                · simp [hs0] at hf
                · simp only [hs0, if_false] at hf ⊢
                  have so' := upd_stackOwn u so
                  have op' := upd_ownPairs_val u op ko mitem
                  have hb : ∀ st hst rt, Base N h0 { stack := st, reqs := reqs, fault := fault }
                      { h := h', stack := hst, root := rt, creationFailed := hcf, syntaxError := hse } :=
                    fun _ _ _ => mb.step (u.keeps hN) rfl mb.cf mb.se
                  by_cases hz : sub - 1 = 0
                  · simp only [hz, if_true, Model.PItem.finish] at hf ⊢
                    exact ih _ _ _ _ lo' ⟨hb _ _ _, rfl, rfl, rfl, so', own_mapD u.2.2.2.1 op'⟩ hf
                  · simp only [hz, if_false, if_true]
                    refine Or.inl ⟨hb _ _ _, rfl, rfl, rfl, lo', ⟨rfl, rfl, _, _, u.2.2.2.1, op', ?_, ?_, ?_⟩, so'⟩
                    · simp [KeyOwn]
                    · simp [odd_pred sub hodd]
                    · simp; omega
          · simp only [hodd, if_false] at hf ⊢
            have hkn : key = none := by
              cases key with
              | none => rfl
              | some _ => exact absurd (par.mpr rfl) hodd
            subst hkn
            cases hkey with
            | some _ => simp [KeyOwn] at ko
            | none =>
              simp only [KeyOwn] at ko
              subst ko
              by_cases hfull : al ≤ kvs.length
              · simp only [hfull, if_true] at hf ⊢
                rw [keyDec_full_def hg (by omega)]
                simp only
                exact failed_release ⟨mb, rfl, rfl, rfl, ⟨lo', ⟨rfl, rfl, rs, mid, hg, op, by simp [KeyOwn], par, hcap⟩, so⟩, mitem⟩
                  (Req.refl h) rfl rfl rfl rfl rfl mb.se (Or.inl rfl)
              · simp only [hfull, if_false] at hf ⊢
                obtain ⟨h', hp, u⟩ := keyDec_room (ω := ω) hg hgy (by omega)
                simp only [hp] at hf ⊢
                by_cases hs0 : sub = 0
                · simp [hs0] at hf
                · simp only [hs0, if_false] at hf ⊢
                  by_cases hz : sub - 1 = 0
                  · simp [hz] at hf
                  · simp only [hz, if_false, if_true]
                    refine Or.inl ⟨mb.step (u.keeps hN) rfl mb.cf mb.se, rfl, rfl, rfl, lo',
                      ⟨rfl, rfl, _, _, u.2.2.2.1, upd_ownPairs u op, ?_, ?_, ?_⟩, upd_stackOwn u so⟩
                    · simp only [KeyOwn]; rw [u.1]; exact upd_own u hlo' mitem
                    · simp [even_pred sub hodd hs0]
                    · simp; omega
        | mapI al kvs key =>
          obtain ⟨rs, mid, hg, op, ko, inv, hcap⟩ := fo
          have hlen := ownPairs_length _ _ _ _ op
          have hmid := ownPairs_le _ _ _ _ op
          obtain ⟨ny, hgy⟩ : ∃ ny, h.get y = some ⟨ny, 1⟩ := own_root' mitem
          simp only [Model.append, append, hg, ge_iff_le] at hf ⊢
          have x01 : (0 : UInt64) ^^^ 1 = 1 := by decide
          have x10 : (1 : UInt64) ^^^ 1 = 0 := by decide
          have m0 : ¬ (0 : UInt64) % 2 = 1 := by decide
          have m1 : (1 : UInt64) % 2 = 1 := by decide
          rcases inv with ⟨hs0, hkn⟩ | ⟨hs1, hks⟩
          · subst hs0 hkn
            cases hkey with
            | some _ => simp [KeyOwn] at ko
            | none =>
              simp only [KeyOwn] at ko
              subst ko
              simp only [m0, if_false, x01] at hf ⊢
              by_cases hfull : al ≤ kvs.length
              · simp only [hfull, if_true] at hf ⊢
                obtain ⟨ok, k, hm, hgr⟩ := grow_sim ω h0.reqs h
                  { stack := { item := Model.PItem.mapI al kvs none, subitems := 0 } :: ps, reqs := reqs, fault := fault } Model.szPair al mb.keeps.1
                simp only [hm] at hf ⊢
                have q := req_mk h k
                cases ok with
                | false =>
                  simp only [Bool.false_eq_true, if_false] at hf hgr ⊢
                  rw [keyDec_grow_fail hg (by omega) hgr]
                  simp only
                  exact failed_release ⟨mb, rfl, rfl, rfl, ⟨lo', ⟨rfl, rfl, rs, mid, hg, op, by simp [KeyOwn], Or.inl ⟨rfl, rfl⟩, hcap⟩, so⟩, mitem⟩
                    q rfl rfl rfl rfl rfl mb.se (Or.inl rfl)
                | true =>
                  simp only [if_true] at hf hgr ⊢
                  obtain ⟨h', hp, u⟩ := keyDec_grow_ok hg hgy hne (by omega) hgr q
                  simp only [hp, Bool.false_eq_true, if_false]
                  refine Or.inl ⟨mb.step (u.keeps hN) rfl mb.cf mb.se, rfl, rfl, rfl, lo',
                    ⟨rfl, rfl, _, _, u.2.2.2.1, upd_ownPairs u op, ?_, Or.inr ⟨rfl, rfl⟩, ?_⟩, upd_stackOwn u so⟩
                  · simp only [KeyOwn]; rw [u.1]; exact upd_own u hlo' mitem
                  · simp only [Option.isSome_some, if_true, Model.grow, Model.growth]
                    simp only [Option.isSome_none, Bool.false_eq_true, if_false] at hcap
                    split <;> omega
              · simp only [hfull, if_false] at hf ⊢
                obtain ⟨h', hp, u⟩ := keyDec_room (ω := ω) hg hgy (by omega)
                simp only [hp, Bool.false_eq_true, if_false]
                refine Or.inl ⟨mb.step (u.keeps hN) rfl mb.cf mb.se, rfl, rfl, rfl, lo',
                  ⟨rfl, rfl, _, _, u.2.2.2.1, upd_ownPairs u op, ?_, Or.inr ⟨rfl, rfl⟩, ?_⟩, upd_stackOwn u so⟩
                · simp only [KeyOwn]; rw [u.1]; exact upd_own u hlo' mitem
                · simp; omega
          · subst hs1
            cases key with
            | none => simp at hks
            | some kk =>
              cases hkey with
              | none => simp [KeyOwn] at ko
              | some kr =>
                simp only [KeyOwn] at ko
                simp only [Option.isSome_some, if_true] at hcap
                have hkb := own_lt _ _ _ _ ko
                obtain ⟨nk, hgk⟩ : ∃ nk, h.get kr = some ⟨nk, 1⟩ := own_root' ko
                obtain ⟨h', hp, u⟩ := valDec_room (ω := ω) hg hgk hgy
                  (Nat.ne_of_lt (by omega)) hne (Nat.ne_of_lt (by omega)) (by omega)
                simp only [m1, if_true, x10, hp, Bool.false_eq_true, if_false] at hf ⊢
                refine Or.inl ⟨mb.step (u.keeps hN) rfl mb.cf mb.se, rfl, rfl, rfl, lo',
                  ⟨rfl, rfl, _, _, u.2.2.2.1, upd_ownPairs_val u op ko mitem, ?_, Or.inl ⟨rfl, rfl⟩, ?_⟩, upd_stackOwn u so⟩
                · simp [KeyOwn]
                · simp; omega

/-! ### the callbacks -/

theorem frameOwn_req {h h1 : H} {k : Nat} (q : Req h h1 k) {pf : Model.Frame} {fr : Frame} {lo hi : Nat}
    (fo : FrameOwn h pf fr lo hi) : FrameOwn h1 pf fr lo hi :=
  frameOwn_congr (fun r _ _ => q.get r) fo

theorem stackOwn_req {h h1 : H} {k : Nat} (q : Req h h1 k) {ps : List Model.Frame} {hs : List Frame} {N hi : Nat}
    (so : StackOwn h ps hs N hi) : StackOwn h1 ps hs N hi :=
  stackOwn_congr _ _ _ _ (fun r _ _ => q.get r) so

/-- `PUSH_CTX_STACK`: the new container becomes the top frame, or is released -/
theorem pushFrame_sim (ω : Oracle) (L : Nat) {N : Nat} {h0 : H} {c : Model.Ctx} {hc : Ctx} {lo : Nat} {pit : Model.PItem}
    {sub : UInt64} {r : Ref}
    (mb : Base N h0 c hc) (hcf : c.creationFailed = false) (hse : c.syntaxError = false) (hroot : c.root = none)
    (so : StackOwn hc.h c.stack hc.stack N lo)
    (fo : FrameOwn hc.h ⟨pit, sub⟩ ⟨r, sub, none⟩ lo hc.h.cells.length) :
    Post N h0 (Model.pushFrame (orc ω h0.reqs) L c pit sub) (pushFrame ω L hc r sub) := by
  obtain ⟨stack, root, cf, se, reqs, fault⟩ := c
  obtain ⟨h, hstack, hrt, hcf', hse'⟩ := hc
  simp only at hcf hse hroot so fo
  subst hcf hse hroot
  have hlen := stackOwn_length _ _ _ _ so
  have hlt := frameOwn_lt fo
  have hreq : h.reqs = h0.reqs + reqs := mb.keeps.1
  simp only [Model.pushFrame, pushFrame, hlen, alloc_orc, H.req]
  by_cases hL : stack.length = L
  · simp only [hL, if_true]
    have f := frame_release fo (Nat.le_refl _)
    simp only at f
    exact failed_freed mb so (Req.refl h) f (Nat.le_of_lt hlt) rfl rfl rfl rfl mb.se (Or.inl rfl)
  · simp only [hL, if_false, ← hreq]
    have q := req_mk h 1
    by_cases hω : ω h.reqs = true
    · simp only [hω, if_true]
      exact Or.inl ⟨mb.step (q.keeps N) rfl mb.cf mb.se, rfl, rfl, rfl, lo, frameOwn_req q fo, stackOwn_req q so⟩
    · simp only [hω, if_false]
      have f := frame_release (frameOwn_req q fo) (Nat.le_refl _)
      simp only at f
      exact failed_freed mb so q f (Nat.le_of_lt hlt) rfl rfl rfl rfl mb.se (Or.inl rfl)

/-- a new cell after `k` requests -/
theorem new_facts {h h1 : H} {k : Nat} (q : Req h h1 k) (n : Node) :
    (h1.new n).1 = h.cells.length ∧ (h1.new n).2.cells.length = h.cells.length + 1 ∧
    (h1.new n).2.get h.cells.length = some ⟨n, 1⟩ ∧ (∀ r, r < h.cells.length → (h1.new n).2.get r = h.get r) ∧
    ∀ N, N ≤ h.cells.length → Keeps N h (h1.new n).2 k := by
  have hl : h1.cells.length = h.cells.length := by rw [q.1]
  have hother : ∀ r, r < h.cells.length → (h1.new n).2.get r = h.get r := fun r hr => by
    rw [get_new_other h1 n r (by rw [hl]; exact Nat.ne_of_lt hr), q.get]
  refine ⟨by rw [← hl]; rfl, by rw [← hl]; simp [H.new], by rw [← hl]; exact get_new_same h1 n, hother, fun N hN => ?_⟩
  exact ⟨q.2.2, q.2.1, fun x hx => hother x (Nat.lt_of_lt_of_le hx hN)⟩

/-- integers, floats, simple values -/
theorem scalar_sim (ω : Oracle) {N : Nat} {h0 : H} {c : Model.Ctx} {hc : Ctx} (g : Good N h0 c hc) (extra : Nat) (t : Item) (n : Node)
    (leaf : ∀ (h : H) (y : Nat), h.get y = some ⟨n, 1⟩ → Own t h y y (y + 1))
    (hf : (Model.scalar (orc ω h0.reqs) c extra t).fault = false) :
    Post N h0 (Model.scalar (orc ω h0.reqs) c extra t) (scalar ω hc n) := by
  obtain ⟨mb, hcf, hse, hroot, so⟩ := g
  obtain ⟨stack, root, cf, se, reqs, fault⟩ := c
  obtain ⟨h, hstack, hrt, hcf', hse'⟩ := hc
  simp only at hcf hse hroot so
  subst hcf hse hroot
  have hlen := stackOwn_length _ _ _ _ so
  have hreq : h.reqs = h0.reqs + reqs := mb.keeps.1
  simp only [Model.scalar, scalar, alloc_orc, new1, H.req, ← hreq, Model.fuelOf, fuelOf, hlen] at hf ⊢
  have q := req_mk h 1
  by_cases hω : ω h.reqs = true
  · simp only [hω, if_true] at hf ⊢
    obtain ⟨e1, e2, e3, e4, e5⟩ := new_facts q n
    rw [e1]
    refine append_sim ω N h0 _ t _ _ _ h.cells.length ⟨mb.step (e5 N (stackOwn_le _ _ _ _ so)) rfl mb.cf mb.se, rfl, rfl, rfl, ?_, ?_⟩ hf
    · exact stackOwn_congr _ _ _ _ (fun r _ hr => e4 r hr) so
    · simp only; rw [e2]; exact leaf _ _ e3
  · simp only [hω, if_false]
    exact Or.inr (Or.inr ⟨mb.step (q.keeps N) rfl rfl mb.se, Or.inl rfl, h.cells.length, stackOwn_req q so, Nat.le_refl _,
      fun x hx => get_none_of_ge _ x hx⟩)

/-- a request (or two) is refused before any cell exists: only the flag and the request counter move -/
theorem failed_req {N : Nat} {h0 : H} {stack : List Model.Frame} {reqs : Nat} {fault : Bool} {h : H} {hstack : List Frame}
    {hrt : Option Ref} {hcf hse : Bool}
    (g : Good N h0 ⟨stack, none, false, false, reqs, fault⟩ ⟨h, hstack, hrt, hcf, hse⟩) {h1 : H} {k : Nat} (q : Req h h1 k)
    {reqs' : Nat} (hr : reqs' = reqs + k) :
    Post N h0 ⟨stack, none, true, false, reqs', fault⟩ ⟨h1, hstack, hrt, true, hse⟩ :=
  Or.inr (Or.inr ⟨g.base.step (q.keeps N) hr rfl g.base.se, Or.inl rfl, h.cells.length, stackOwn_req q g.own,
    by rw [q.1]; exact Nat.le_refl _, fun x hx => get_none_of_ge _ x (by rw [q.1]; exact hx)⟩)

/-- a new one-cell item is delivered to `_cbor_builder_append` -/
theorem start_append (ω : Oracle) {N : Nat} {h0 : H} {stack : List Model.Frame} {reqs : Nat} {fault : Bool} {h : H} {hstack : List Frame}
    {hrt : Option Ref} {hcf hse : Bool}
    (g : Good N h0 ⟨stack, none, false, false, reqs, fault⟩ ⟨h, hstack, hrt, hcf, hse⟩) {h1 : H} {k : Nat} (q : Req h h1 k)
    (n : Node) (t : Item) (leaf : ∀ (h : H) (y : Nat), h.get y = some ⟨n, 1⟩ → Own t h y y (y + 1))
    {reqs' : Nat} (hr : reqs' = reqs + k)
    (hf : (Model.append (orc ω h0.reqs) (stack.length + 1) t ⟨stack, none, false, false, reqs', fault⟩).fault = false) :
    Post N h0 (Model.append (orc ω h0.reqs) (stack.length + 1) t ⟨stack, none, false, false, reqs', fault⟩)
      (append ω (hstack.length + 1) (h1.new n).1 ⟨(h1.new n).2, hstack, hrt, hcf, hse⟩) := by
  obtain ⟨mb, _, _, _, so⟩ := g
  simp only at so
  rw [stackOwn_length _ _ _ _ so]
  obtain ⟨e1, e2, e3, e4, e5⟩ := new_facts q n
  rw [e1]
  refine append_sim ω N h0 _ t _ _ _ h.cells.length ⟨mb.step (e5 N (stackOwn_le _ _ _ _ so)) hr mb.cf mb.se, rfl, rfl, rfl, ?_, ?_⟩ hf
  · exact stackOwn_congr _ _ _ _ (fun r _ hr => e4 r hr) so
  · simp only; rw [e2]; exact leaf _ _ e3

/-- a new container is pushed on the stack -/
theorem start_push (ω : Oracle) (L : Nat) {N : Nat} {h0 : H} {stack : List Model.Frame} {reqs : Nat} {fault : Bool} {h : H}
    {hstack : List Frame} {hrt : Option Ref} {hcf hse : Bool}
    (g : Good N h0 ⟨stack, none, false, false, reqs, fault⟩ ⟨h, hstack, hrt, hcf, hse⟩) {h1 : H} {k : Nat} (q : Req h h1 k)
    (n : Node) (pit : Model.PItem) (sub : UInt64)
    (hfo : ∀ (h : H) (lo : Nat), h.get lo = some ⟨n, 1⟩ → FrameOwn h ⟨pit, sub⟩ ⟨lo, sub, none⟩ lo (lo + 1))
    {reqs' : Nat} (hr : reqs' = reqs + k) :
    Post N h0 (Model.pushFrame (orc ω h0.reqs) L ⟨stack, none, false, false, reqs', fault⟩ pit sub)
      (pushFrame ω L ⟨(h1.new n).2, hstack, hrt, hcf, hse⟩ (h1.new n).1 sub) := by
  obtain ⟨mb, _, _, _, so⟩ := g
  simp only at so
  obtain ⟨e1, e2, e3, e4, e5⟩ := new_facts q n
  rw [e1]
  refine pushFrame_sim ω L (lo := h.cells.length) (mb.step (e5 N (stackOwn_le _ _ _ _ so)) hr mb.cf mb.se) rfl rfl rfl ?_ ?_
  · exact stackOwn_congr _ _ _ _ (fun r _ hr => e4 r hr) so
  · simp only; rw [e2]; exact hfo _ _ e3

theorem tagCb_sim (ω : Oracle) (L : Nat) {N : Nat} {h0 : H} {c : Model.Ctx} {hc : Ctx} (g : Good N h0 c hc) (v : UInt64) :
    Post N h0 (Model.tagCb (orc ω h0.reqs) L c v) (tagCb ω L hc v) := by
  obtain ⟨stack, root, cf, se, reqs, fault⟩ := c
  obtain ⟨h, hstack, hrt, hcf', hse'⟩ := hc
  obtain ⟨hcf, hse, hroot⟩ : cf = false ∧ se = false ∧ root = none := ⟨g.cf, g.se, g.root⟩
  subst hcf hse hroot
  have hreq : h.reqs = h0.reqs + reqs := g.base.keeps.1
  simp only [Model.tagCb, tagCb, alloc_orc, new1, H.req, ← hreq]
  by_cases hω : ω h.reqs = true
  · simp only [hω, if_true, Bool.not_true, Bool.false_eq_true, if_false]
    exact start_push ω L g (req_mk h 1) (.tag v.toNat none) (.tag v.toNat none) 1 (fun h lo hg => ⟨rfl, rfl, rfl, rfl, hg, rfl⟩) rfl
  · have hω' : ω h.reqs = false := by simpa using hω
    simp only [hω', Bool.not_false, if_true, Bool.false_eq_true, if_false]
    exact failed_req g (req_mk h 1) rfl

theorem indefContainer_sim (ω : Oracle) (L : Nat) {N : Nat} {h0 : H} {c : Model.Ctx} {hc : Ctx} (g : Good N h0 c hc)
    (pit : Model.PItem) (n : Node)
    (hfo : ∀ (h : H) (lo : Nat), h.get lo = some ⟨n, 1⟩ → FrameOwn h ⟨pit, 0⟩ ⟨lo, 0, none⟩ lo (lo + 1)) :
    Post N h0 (Model.indefContainer (orc ω h0.reqs) L c pit) (indefContainer ω L hc n) := by
  obtain ⟨stack, root, cf, se, reqs, fault⟩ := c
  obtain ⟨h, hstack, hrt, hcf', hse'⟩ := hc
  obtain ⟨hcf, hse, hroot⟩ : cf = false ∧ se = false ∧ root = none := ⟨g.cf, g.se, g.root⟩
  subst hcf hse hroot
  have hreq : h.reqs = h0.reqs + reqs := g.base.keeps.1
  simp only [Model.indefContainer, indefContainer, alloc_orc, new1, H.req, ← hreq]
  by_cases hω : ω h.reqs = true
  · simp only [hω, if_true, Bool.not_true, Bool.false_eq_true, if_false]
    exact start_push ω L g (req_mk h 1) n pit 0 hfo rfl
  · have hω' : ω h.reqs = false := by simpa using hω
    simp only [hω', Bool.not_false, if_true, Bool.false_eq_true, if_false]
    exact failed_req g (req_mk h 1) rfl

theorem indefString_sim (ω : Oracle) (L : Nat) {N : Nat} {h0 : H} {c : Model.Ctx} {hc : Ctx} (g : Good N h0 c hc) (isText : Bool) :
    Post N h0 (Model.indefString (orc ω h0.reqs) L c isText) (indefString ω L hc isText) := by
  obtain ⟨stack, root, cf, se, reqs, fault⟩ := c
  obtain ⟨h, hstack, hrt, hcf', hse'⟩ := hc
  obtain ⟨hcf, hse, hroot⟩ : cf = false ∧ se = false ∧ root = none := ⟨g.cf, g.se, g.root⟩
  subst hcf hse hroot
  have hreq : h.reqs = h0.reqs + reqs := g.base.keeps.1
  simp only [Model.indefString, indefString, alloc_orc, new2, H.req, ← Nat.add_assoc, ← hreq]
  by_cases hω : ω h.reqs = true
  · simp only [hω, if_true, Bool.not_true, Bool.false_eq_true, if_false]
    by_cases hω2 : ω (h.reqs + 1) = true
    · simp only [hω2, if_true, Bool.not_true, Bool.false_eq_true, if_false]
      refine start_push ω L g (req_mk h 2) (.strI isText [] 0) _ 0 (fun h lo hg => ?_) rfl
      cases isText
      · exact ⟨rfl, rfl, rfl, [], hg, by simp only [OwnChunks]⟩
      · exact ⟨rfl, rfl, rfl, [], hg, by simp only [OwnChunks]⟩
    · have hω' : ω (h.reqs + 1) = false := by simpa using hω2
      simp only [hω', Bool.not_false, if_true, Bool.false_eq_true, if_false]
      exact failed_req g (req_mk h 2) rfl
  · have hω' : ω h.reqs = false := by simpa using hω
    simp only [hω', Bool.not_false, if_true, Bool.false_eq_true, if_false]
    exact failed_req g (req_mk h 1) rfl

theorem even_double (n : UInt64) : ¬ (n * 2) % 2 = 1 := by
  intro e
  have h1 := (Lemmas.Safe.mod2 _).mp e
  rw [UInt64.toNat_mul] at h1
  have : (2 : UInt64).toNat = 2 := rfl
  rw [this] at h1
  omega

theorem arrayStart_sim (ω : Oracle) (L : Nat) {N : Nat} {h0 : H} {c : Model.Ctx} {hc : Ctx} (g : Good N h0 c hc) (n : UInt64)
    (hf : (Model.arrayStart (orc ω h0.reqs) L c n).fault = false) :
    Post N h0 (Model.arrayStart (orc ω h0.reqs) L c n) (arrayStart ω L hc n) := by
  obtain ⟨stack, root, cf, se, reqs, fault⟩ := c
  obtain ⟨h, hstack, hrt, hcf', hse'⟩ := hc
  obtain ⟨hcf, hse, hroot⟩ : cf = false ∧ se = false ∧ root = none := ⟨g.cf, g.se, g.root⟩
  subst hcf hse hroot
  have hreq : h.reqs = h0.reqs + reqs := g.base.keeps.1
  simp only [Model.arrayStart, arrayStart, Model.Ctx.allocMultiple, alloc_orc, newMulti, mulOk, Model.szPtr, H.req,
    ← Nat.add_assoc, ← hreq] at hf ⊢
  by_cases hω : ω h.reqs = true
  · simp only [hω, if_true, Bool.not_true, Bool.false_eq_true, if_false] at hf ⊢
    by_cases hm : Gen._cbor_safe_to_multiply (UInt64.ofNat 8) (UInt64.ofNat n.toNat) = true
    · simp only [hm, if_true, Bool.not_true, Bool.false_eq_true, if_false] at hf ⊢
      by_cases hω2 : ω (h.reqs + 1) = true
      · simp only [hω2, if_true, Bool.not_true, Bool.false_eq_true, if_false] at hf ⊢
        by_cases hn : n > 0
        · simp only [hn, if_true] at hf ⊢
          exact start_push ω L g (req_mk h 2) (.arr true [] n.toNat) (.arrD n.toNat []) n
            (fun h lo hg => ⟨rfl, rfl, rfl, [], hg, by simp only [OwnList]⟩) rfl
        · simp only [hn, if_false, Model.fuelOf, fuelOf] at hf ⊢
          exact start_append ω g (req_mk h 2) (.arr true [] n.toNat) (.array [])
            (fun h y hg => own_arrD hg (by simp only [OwnList])) rfl hf
      · have hω' : ω (h.reqs + 1) = false := by simpa using hω2
        simp only [hω', Bool.not_false, if_true, Bool.false_eq_true, if_false]
        exact failed_req g (req_mk h 2) rfl
    · have hm' : Gen._cbor_safe_to_multiply (UInt64.ofNat 8) (UInt64.ofNat n.toNat) = false := by simpa using hm
      simp only [hm', Bool.not_false, if_true, Bool.false_eq_true, if_false]
      exact failed_req g (req_mk h 1) rfl
  · have hω' : ω h.reqs = false := by simpa using hω
    simp only [hω', Bool.not_false, if_true, Bool.false_eq_true, if_false]
    exact failed_req g (req_mk h 1) rfl

theorem mapStart_sim (ω : Oracle) (L : Nat) {N : Nat} {h0 : H} {c : Model.Ctx} {hc : Ctx} (g : Good N h0 c hc) (n : UInt64)
    (hf : (Model.mapStart (orc ω h0.reqs) L c n).fault = false) :
    Post N h0 (Model.mapStart (orc ω h0.reqs) L c n) (mapStart ω L hc n) := by
  obtain ⟨stack, root, cf, se, reqs, fault⟩ := c
  obtain ⟨h, hstack, hrt, hcf', hse'⟩ := hc
  obtain ⟨hcf, hse, hroot⟩ : cf = false ∧ se = false ∧ root = none := ⟨g.cf, g.se, g.root⟩
  subst hcf hse hroot
  have hreq : h.reqs = h0.reqs + reqs := g.base.keeps.1
  simp only [Model.mapStart, mapStart, Model.Ctx.allocMultiple, alloc_orc, newMulti, mulOk, Model.szPair, H.req,
    ← Nat.add_assoc, ← hreq] at hf ⊢
  by_cases hω : ω h.reqs = true
  · simp only [hω, if_true, Bool.not_true, Bool.false_eq_true, if_false] at hf ⊢
    by_cases hm : Gen._cbor_safe_to_multiply (UInt64.ofNat 16) (UInt64.ofNat n.toNat) = true
    · simp only [hm, if_true, Bool.not_true, Bool.false_eq_true, if_false] at hf ⊢
      by_cases hω2 : ω (h.reqs + 1) = true
      · simp only [hω2, if_true, Bool.not_true, Bool.false_eq_true, if_false] at hf ⊢
        by_cases hn : n > 0
        · simp only [hn, if_true] at hf ⊢
          refine start_push ω L g (req_mk h 2) (.map true [] n.toNat) (.mapD n.toNat [] none) (n * 2)
            (fun h lo hg => ⟨rfl, rfl, [], lo + 1, hg, by simp only [OwnPairs], by simp only [KeyOwn], ?_, ?_⟩) rfl
          · simp [even_double n]
          · simp
        · simp only [hn, if_false, Model.fuelOf, fuelOf] at hf ⊢
          exact start_append ω g (req_mk h 2) (.map true [] n.toNat) (.map [])
            (fun h y hg => own_mapD hg (by simp only [OwnPairs])) rfl hf
      · have hω' : ω (h.reqs + 1) = false := by simpa using hω2
        simp only [hω', Bool.not_false, if_true, Bool.false_eq_true, if_false]
        exact failed_req g (req_mk h 2) rfl
    · have hm' : Gen._cbor_safe_to_multiply (UInt64.ofNat 16) (UInt64.ofNat n.toNat) = false := by simpa using hm
      simp only [hm', Bool.not_false, if_true, Bool.false_eq_true, if_false]
      exact failed_req g (req_mk h 1) rfl
  · have hω' : ω h.reqs = false := by simpa using hω
    simp only [hω', Bool.not_false, if_true, Bool.false_eq_true, if_false]
    exact failed_req g (req_mk h 1) rfl

/-- a syntax error is detected without touching the heap -/
theorem failed_syntax {N : Nat} {h0 : H} {stack : List Model.Frame} {reqs : Nat} {fault : Bool} {h : H} {hstack : List Frame}
    {hrt : Option Ref} {hcf hse : Bool}
    (g : Good N h0 ⟨stack, none, false, false, reqs, fault⟩ ⟨h, hstack, hrt, hcf, hse⟩) :
    Post N h0 ⟨stack, none, false, true, reqs, fault⟩ ⟨h, hstack, hrt, hcf, true⟩ :=
  Or.inr (Or.inr ⟨g.base.step (Keeps.refl N h) rfl g.base.cf rfl, Or.inr rfl, h.cells.length, g.own,
    Nat.le_refl _, fun x hx => get_none_of_ge _ x hx⟩)

theorem breakCb_sim (ω : Oracle) {N : Nat} {h0 : H} {c : Model.Ctx} {hc : Ctx} (g : Good N h0 c hc)
    (hf : (Model.breakCb (orc ω h0.reqs) c).fault = false) :
    Post N h0 (Model.breakCb (orc ω h0.reqs) c) (breakCb ω hc) := by
  obtain ⟨stack, root, cf, se, reqs, fault⟩ := c
  obtain ⟨h, hstack, hrt, hcf', hse'⟩ := hc
  obtain ⟨hcf, hse, hroot⟩ : cf = false ∧ se = false ∧ root = none := ⟨g.cf, g.se, g.root⟩
  subst hcf hse hroot
  have mb := g.base
  have mown := g.own
  simp only at mown
  cases stack with
  | nil =>
    cases hstack with
    | cons _ _ => simp [StackOwn] at mown
    | nil => simp only [Model.breakCb, breakCb]; exact failed_syntax g
  | cons pf ps =>
    cases hstack with
    | nil => simp [StackOwn] at mown
    | cons fr hs =>
      have hlen := stackOwn_length _ _ _ _ mown
      simp only [StackOwn] at mown
      obtain ⟨lo'', fo, so⟩ := mown
      obtain ⟨pit, sub'⟩ := pf
      obtain ⟨lo', sub, hkey⟩ := fr
      obtain ⟨e1, e2, fo⟩ := fo
      simp only at e1 e2 fo; subst e1 e2
      have hb : Base N h0 { stack := ps, reqs := reqs, fault := fault }
          { h := h, stack := hs, root := hrt, creationFailed := hcf', syntaxError := hse' } :=
        mb.step (Keeps.refl N h) rfl mb.cf mb.se
      simp only [Model.breakCb, breakCb, Model.fuelOf, fuelOf, hlen] at hf ⊢
      cases pit with
      | arrD al xs =>
        obtain ⟨ek, rs, hg, ol⟩ := fo
        simp only [isIndefinite, isMap, hg, Bool.not_true, Bool.false_and, Bool.false_eq_true, if_false] at hf ⊢
        exact failed_syntax g
      | mapD al kvs key =>
        obtain ⟨rs, mid, hg, _⟩ := fo
        simp only [isIndefinite, isMap, hg, Bool.not_true, Bool.false_and, Bool.false_eq_true, if_false] at hf ⊢
        exact failed_syntax g
      | tag n x =>
        obtain ⟨ek, ex, hg, _⟩ := fo
        simp only [isIndefinite, isMap, hg, Bool.not_true, Bool.false_and, Bool.false_eq_true, if_false] at hf ⊢
        exact failed_syntax g
      | arrI al xs =>
        obtain ⟨ek, rs, hg, ol⟩ := fo
        simp only [isIndefinite, isMap, hg, Bool.not_false, Bool.true_and, Bool.true_or, if_true, Model.PItem.finish] at hf ⊢
        exact append_sim ω N h0 _ _ _ _ _ lo' ⟨hb, rfl, rfl, rfl, so, own_arrI hg ol⟩ hf
      | bstrI cap cs =>
        obtain ⟨ek, rs, hg, oc⟩ := fo
        simp only [isIndefinite, isMap, hg, Bool.not_false, Bool.true_and, Bool.true_or, if_true, Model.PItem.finish] at hf ⊢
        exact append_sim ω N h0 _ _ _ _ _ lo' ⟨hb, rfl, rfl, rfl, so, own_bstrI hg oc⟩ hf
      | tstrI cap cs =>
        obtain ⟨ek, rs, hg, oc⟩ := fo
        simp only [isIndefinite, isMap, hg, Bool.not_false, Bool.true_and, Bool.true_or, if_true, Model.PItem.finish] at hf ⊢
        exact append_sim ω N h0 _ _ _ _ _ lo' ⟨hb, rfl, rfl, rfl, so, own_tstrI hg oc⟩ hf
      | mapI al kvs key =>
        obtain ⟨rs, mid, hg, op, ko, inv, hcap⟩ := fo
        simp only [isIndefinite, isMap, hg, Bool.not_false, Bool.not_true, Bool.true_and, Bool.false_or, Model.PItem.finish] at hf ⊢
        rcases inv with ⟨hs0, hkn⟩ | ⟨hs1, hks⟩
        · subst hs0 hkn
          cases hkey with
          | some _ => simp [KeyOwn] at ko
          | none =>
            simp only [KeyOwn] at ko
            subst ko
            have m0 : (0 : UInt64) % 2 = 0 := by decide
            simp only [m0, decide_true, if_true] at hf ⊢
            exact append_sim ω N h0 _ _ _ _ _ lo' ⟨hb, rfl, rfl, rfl, so, own_mapI hg op⟩ hf
        · subst hs1
          have m1 : ¬ (1 : UInt64) % 2 = 0 := by decide
          simp only [m1, decide_false, Bool.false_eq_true, if_false] at hf ⊢
          exact failed_syntax g

theorem upd_ownChunks {t : Bool} {h h' : H} {a : Nat} {c : Option Cell} {k lo : Nat} (u : Upd' h h' a c k) {cs : List (List UInt8)}
    {rs : List Ref} {b : List UInt8} (oc : OwnChunks t cs h rs (a + 1) lo) (hy : h.get lo = some ⟨.str t b, 1⟩)
    (hl : h.cells.length = lo + 1) : OwnChunks t (cs ++ [b]) h' (rs ++ [lo]) (a + 1) h'.cells.length := by
  have l1 := ownChunks_le _ _ _ _ _ oc
  rw [u.1, hl]
  refine ownChunks_snoc' t cs rs (a + 1) lo (ownChunks_congr t cs rs _ _ (fun r hr _ => u.2.2.2.2 r (Nat.ne_of_gt hr)) oc) ?_
  rw [u.2.2.2.2 lo (Nat.ne_of_gt (by omega))]; exact hy

theorem leaf_str (isText : Bool) (data : List UInt8) (h : H) (y : Nat) (hg : h.get y = some ⟨.str isText data, 1⟩) :
    Own (if isText = true then Item.text data else Item.bytes data) h y y (y + 1) := by
  cases isText
  · simp only [Bool.false_eq_true, if_false, Own]; exact ⟨trivial, trivial, hg⟩
  · simp only [if_true, Own]; exact ⟨trivial, trivial, hg⟩

theorem stringCb_sim (ω : Oracle) {N : Nat} {h0 : H} {c : Model.Ctx} {hc : Ctx} (g : Good N h0 c hc) (isText : Bool) (data : List UInt8)
    (hf : (Model.stringCb (orc ω h0.reqs) c isText data).fault = false) :
    Post N h0 (Model.stringCb (orc ω h0.reqs) c isText data) (stringCb ω hc isText data) := by
  obtain ⟨stack, root, cf, se, reqs, fault⟩ := c
  obtain ⟨h, hstack, hrt, hcf', hse'⟩ := hc
  obtain ⟨hcf, hse, hroot⟩ : cf = false ∧ se = false ∧ root = none := ⟨g.cf, g.se, g.root⟩
  subst hcf hse hroot
  have hreq : h.reqs = h0.reqs + reqs := g.base.keeps.1
  simp only [Model.stringCb, stringCb, alloc_orc, H.req, ← Nat.add_assoc, ← hreq] at hf ⊢
  by_cases hω : ω h.reqs = true
  · simp only [hω, if_true, Bool.not_true, Bool.false_eq_true, if_false] at hf ⊢
    by_cases hω2 : ω (h.reqs + 1) = true
    · simp only [hω2, if_true, Bool.not_true, Bool.false_eq_true, if_false] at hf ⊢
      have q := req_mk h 2
      have happ : ∀ st hst, Good N h0 ⟨st, none, false, false, reqs, fault⟩ ⟨h, hst, hrt, hcf', hse'⟩ →
          (Model.append (orc ω h0.reqs) (st.length + 1) (if isText = true then Item.text data else Item.bytes data)
            ⟨st, none, false, false, reqs + 1 + 1, fault⟩).fault = false →
          Post N h0 (Model.append (orc ω h0.reqs) (st.length + 1) (if isText = true then Item.text data else Item.bytes data)
              ⟨st, none, false, false, reqs + 1 + 1, fault⟩)
            (append ω (hst.length + 1)
              (({ cells := h.cells, reqs := h.reqs + 1 + 1, fault := h.fault } : H).new (.str isText data)).1
              ⟨(({ cells := h.cells, reqs := h.reqs + 1 + 1, fault := h.fault } : H).new (.str isText data)).2, hst, hrt, hcf', hse'⟩) :=
        fun st hst g' hf' => start_append ω g' q (.str isText data) _ (leaf_str isText data) rfl hf'
      have mb := g.base
      have mown := g.own
      simp only at mown
      cases stack with
      | nil =>
        cases hstack with
        | cons _ _ => simp [StackOwn] at mown
        | nil => simp only [Model.fuelOf, fuelOf] at hf ⊢; exact happ _ _ g hf
      | cons pf ps =>
        cases hstack with
        | nil => simp [StackOwn] at mown
        | cons fr hs =>
          simp only [StackOwn] at mown
          obtain ⟨lo'', fo, so⟩ := mown
          have hlt := frameOwn_lt fo
          have hN := stackOwn_le _ _ _ _ so
          obtain ⟨pit, sub'⟩ := pf
          obtain ⟨lo', sub, hkey⟩ := fr
          obtain ⟨e1, e2, fo⟩ := fo
          simp only at e1 e2 fo; subst e1 e2
          obtain ⟨n1, n2, n3, n4, n5⟩ := new_facts q (.str isText data)
          simp only [n4 lo' hlt, Model.fuelOf, fuelOf] at hf ⊢
          cases pit with
          | arrD al xs => obtain ⟨ek, rs, hg, ol⟩ := fo; simp only [hg] at hf ⊢; exact happ _ _ g hf
          | arrI al xs => obtain ⟨ek, rs, hg, ol⟩ := fo; simp only [hg] at hf ⊢; exact happ _ _ g hf
          | mapD al kvs key => obtain ⟨rs, mid, hg, _⟩ := fo; simp only [hg] at hf ⊢; exact happ _ _ g hf
          | mapI al kvs key => obtain ⟨rs, mid, hg, _⟩ := fo; simp only [hg] at hf ⊢; exact happ _ _ g hf
          | tag n x => obtain ⟨ek, ex, hg, _⟩ := fo; simp only [hg] at hf ⊢; exact happ _ _ g hf
          | bstrI cap cs =>
            obtain ⟨ek, rs, hg, oc⟩ := fo
            subst ek
            cases isText with
            | true => simp only [hg, Bool.false_eq_true, if_false] at hf ⊢; exact happ _ _ g hf
            | false =>
              simp only [hg, if_true] at hf ⊢
              have hlen := ownChunks_length _ _ _ _ _ oc
              simp only [n1] at hf ⊢
              generalize hH : (({ cells := h.cells, reqs := h.reqs + 1 + 1, fault := h.fault } : H).new (Node.str false data)).2 = H' at *
              have hg' : H'.get lo' = some ⟨.strI false rs cap, 1⟩ := by rw [n4 lo' hlt]; exact hg
              have hne : lo' ≠ h.cells.length := Nat.ne_of_lt hlt
              have so' : StackOwn H' ps hs N lo' := stackOwn_congr _ _ _ _ (fun r _ hr => n4 r (by omega)) so
              have oc' : OwnChunks false cs H' rs (lo' + 1) h.cells.length :=
                ownChunks_congr _ _ _ _ _ (fun r _ hr => n4 r hr) oc
              have mb2 : ∀ st hst rt, Base N h0 { stack := st, reqs := reqs + 1 + 1, fault := fault }
                  { h := H', stack := hst, root := rt, creationFailed := hcf', syntaxError := hse' } :=
                fun _ _ _ => mb.step (n5 N (by omega)) rfl mb.cf mb.se
              by_cases hfull : cs.length = cap
              · simp only [hfull, if_true] at hf ⊢
                obtain ⟨ok, k, hm, hgr⟩ := grow_sim ω h0.reqs H'
                  { stack := { item := Model.PItem.bstrI cap cs, subitems := sub } :: ps, reqs := reqs + 1 + 1, fault := fault }
                  Model.szPtr cap (mb2 [] [] none).keeps.1
                simp only [hm] at hf ⊢
                have q' := req_mk H' k
                cases ok with
                | false =>
                  simp only [Bool.false_eq_true, if_false] at hf hgr ⊢
                  rw [chunkDec_grow_fail hg' n3 (by omega) hgr]
                  simp only
                  refine failed_release (t := Item.bytes data) (lo := h.cells.length)
                    (c := ⟨⟨.bstrI cap cs, sub⟩ :: ps, none, false, false, reqs + 1 + 1, fault⟩)
                    (hc := ⟨H', ⟨lo', sub, none⟩ :: hs, hrt, hcf', hse'⟩)
                    ⟨mb2 _ _ _, rfl, rfl, rfl, ⟨lo', ⟨rfl, rfl, rfl, rs, hg', oc'⟩, so'⟩, ?_⟩ q' rfl rfl rfl rfl rfl mb.se (Or.inl rfl)
                  simp only [Own]; exact ⟨trivial, n2, n3⟩
                | true =>
                  simp only [if_true] at hf hgr ⊢
                  obtain ⟨h'', hp, u⟩ := chunkDec_grow_ok hg' n3 hne (by omega) hgr q'
                  simp only [hp]
                  exact Or.inl ⟨(mb2 [] [] none).step (u.keeps hN) rfl mb.cf mb.se, rfl, rfl, rfl, lo',
                    ⟨rfl, rfl, rfl, _, u.2.2.2.1, upd_ownChunks u oc' n3 n2⟩, upd_stackOwn u so'⟩
              · simp only [hfull, if_false] at hf ⊢
                obtain ⟨h'', hp, u⟩ := chunkDec_room (ω := ω) hg' n3 hne (by omega)
                simp only [hp]
                exact Or.inl ⟨(mb2 [] [] none).step (u.keeps hN) rfl mb.cf mb.se, rfl, rfl, rfl, lo',
                  ⟨rfl, rfl, rfl, _, u.2.2.2.1, upd_ownChunks u oc' n3 n2⟩, upd_stackOwn u so'⟩
          | tstrI cap cs =>
            obtain ⟨ek, rs, hg, oc⟩ := fo
            subst ek
            cases isText with
            | false => simp only [hg, Bool.true_eq_false, if_false] at hf ⊢; exact happ _ _ g hf
            | true =>
              simp only [hg, if_true] at hf ⊢
              have hlen := ownChunks_length _ _ _ _ _ oc
              simp only [n1] at hf ⊢
              generalize hH : (({ cells := h.cells, reqs := h.reqs + 1 + 1, fault := h.fault } : H).new (Node.str true data)).2 = H' at *
              have hg' : H'.get lo' = some ⟨.strI true rs cap, 1⟩ := by rw [n4 lo' hlt]; exact hg
              have hne : lo' ≠ h.cells.length := Nat.ne_of_lt hlt
              have so' : StackOwn H' ps hs N lo' := stackOwn_congr _ _ _ _ (fun r _ hr => n4 r (by omega)) so
              have oc' : OwnChunks true cs H' rs (lo' + 1) h.cells.length :=
                ownChunks_congr _ _ _ _ _ (fun r _ hr => n4 r hr) oc
              have mb2 : ∀ st hst rt, Base N h0 { stack := st, reqs := reqs + 1 + 1, fault := fault }
                  { h := H', stack := hst, root := rt, creationFailed := hcf', syntaxError := hse' } :=
                fun _ _ _ => mb.step (n5 N (by omega)) rfl mb.cf mb.se
              by_cases hfull : cs.length = cap
              · simp only [hfull, if_true] at hf ⊢
                obtain ⟨ok, k, hm, hgr⟩ := grow_sim ω h0.reqs H'
                  { stack := { item := Model.PItem.tstrI cap cs, subitems := sub } :: ps, reqs := reqs + 1 + 1, fault := fault }
                  Model.szPtr cap (mb2 [] [] none).keeps.1
                simp only [hm] at hf ⊢
                have q' := req_mk H' k
                cases ok with
                | false =>
                  simp only [Bool.false_eq_true, if_false] at hf hgr ⊢
                  rw [chunkDec_grow_fail hg' n3 (by omega) hgr]
                  simp only
                  refine failed_release (t := Item.text data) (lo := h.cells.length)
                    (c := ⟨⟨.tstrI cap cs, sub⟩ :: ps, none, false, false, reqs + 1 + 1, fault⟩)
                    (hc := ⟨H', ⟨lo', sub, none⟩ :: hs, hrt, hcf', hse'⟩)
                    ⟨mb2 _ _ _, rfl, rfl, rfl, ⟨lo', ⟨rfl, rfl, rfl, rs, hg', oc'⟩, so'⟩, ?_⟩ q' rfl rfl rfl rfl rfl mb.se (Or.inl rfl)
                  simp only [Own]; exact ⟨trivial, n2, n3⟩
                | true =>
                  simp only [if_true] at hf hgr ⊢
                  obtain ⟨h'', hp, u⟩ := chunkDec_grow_ok hg' n3 hne (by omega) hgr q'
                  simp only [hp]
                  exact Or.inl ⟨(mb2 [] [] none).step (u.keeps hN) rfl mb.cf mb.se, rfl, rfl, rfl, lo',
                    ⟨rfl, rfl, rfl, _, u.2.2.2.1, upd_ownChunks u oc' n3 n2⟩, upd_stackOwn u so'⟩
              · simp only [hfull, if_false] at hf ⊢
                obtain ⟨h'', hp, u⟩ := chunkDec_room (ω := ω) hg' n3 hne (by omega)
                simp only [hp]
                exact Or.inl ⟨(mb2 [] [] none).step (u.keeps hN) rfl mb.cf mb.se, rfl, rfl, rfl, lo',
                  ⟨rfl, rfl, rfl, _, u.2.2.2.1, upd_ownChunks u oc' n3 n2⟩, upd_stackOwn u so'⟩
    · have hω' : ω (h.reqs + 1) = false := by simpa using hω2
      simp only [hω', Bool.not_false, if_true, Bool.false_eq_true, if_false]
      exact failed_req g (req_mk h 2) rfl
  · have hω' : ω h.reqs = false := by simpa using hω
    simp only [hω', Bool.not_false, if_true, Bool.false_eq_true, if_false]
    exact failed_req g (req_mk h 1) rfl

/-- **every builder callback preserves the simulation** (all refusal paths included) -/
theorem callback_sim (ω : Oracle) (L : Nat) (src : Array UInt8) {N : Nat} {h0 : H} {c : Model.Ctx} {hc : Ctx} (g : Good N h0 c hc)
    (e : Gen.Event) (hf : (Model.callback (orc ω h0.reqs) L src c e).fault = false) :
    Post N h0 (Model.callback (orc ω h0.reqs) L src c e) (callback ω L src hc e) := by
  cases e <;> simp only [Model.callback, callback] at hf ⊢
  case byte_string off len =>
    by_cases hb : off + len.toNat ≤ src.size
    · simp only [hb, if_true] at hf ⊢; exact stringCb_sim ω g _ _ hf
    · simp [hb] at hf
  case string off len =>
    by_cases hb : off + len.toNat ≤ src.size
    · simp only [hb, if_true] at hf ⊢; exact stringCb_sim ω g _ _ hf
    · simp [hb] at hf
  case byte_string_start => exact indefString_sim ω L g _
  case string_start => exact indefString_sim ω L g _
  case array_start n => exact arrayStart_sim ω L g n hf
  case map_start n => exact mapStart_sim ω L g n hf
  case indef_array_start =>
    exact indefContainer_sim ω L g _ _ (fun h lo hg => ⟨rfl, rfl, rfl, [], hg, by simp only [OwnList]⟩)
  case indef_map_start =>
    exact indefContainer_sim ω L g _ _
      (fun h lo hg => ⟨rfl, rfl, [], lo + 1, hg, by simp only [OwnPairs], by simp only [KeyOwn], Or.inl ⟨rfl, rfl⟩, by simp⟩)
  case tag v => exact tagCb_sim ω L g v
  case indef_break => exact breakCb_sim ω g hf
  all_goals exact scalar_sim ω g _ _ _ (fun h y hg => by simp only [Own]; exact ⟨trivial, trivial, hg⟩) hf

end HB

/-! ### the fault flag of the value-level builder is sticky -/
namespace Lemmas.Sticky
open Model Lemmas.Safe

theorem growAlloc_fault' {c c' : Ctx} {ω : Oracle} {a b : Nat} {ok : Bool} (h : c.growAlloc ω a b = (ok, c')) : c'.fault = c.fault := by
  have := (same_growAlloc c ω a b).2.1; rw [h] at this; exact this
theorem growAlloc_fault (c : Ctx) (ω : Oracle) (a b : Nat) : (c.growAlloc ω a b).2.fault = c.fault := (same_growAlloc c ω a b).2.1
theorem allocMultiple_fault' {c c' : Ctx} {ω : Oracle} {a b : Nat} {ok : Bool} (h : c.allocMultiple ω a b = (ok, c')) : c'.fault = c.fault := by
  have := (same_allocMultiple c ω a b).2.1; rw [h] at this; exact this

theorem append_sticky (ω : Oracle) : ∀ (fuel : Nat) (t : Spec.Item) (c : Ctx), c.fault = true → (append ω fuel t c).fault = true
  | 0, _, _, _ => rfl
  | fuel+1, t, c, hc => by
    unfold append
    have ih := append_sticky ω fuel
    repeat' (first | split | (dsimp only; split))
    all_goals first
      | exact hc
      | rfl
      | (apply ih; exact hc)
      | (have := growAlloc_fault' (by assumption); simp_all)
      | skip

theorem alloc_fault' {c c' : Ctx} {ω : Oracle} {b : Nat} {ok : Bool} (h : c.alloc ω b = (ok, c')) : c'.fault = c.fault := by
  have := (same_alloc c ω b).2.1; rw [h] at this; exact this

theorem pushFrame_sticky (ω : Oracle) (L : Nat) (c : Ctx) (it : PItem) (sub : UInt64) (hc : c.fault = true) :
    (pushFrame ω L c it sub).fault = true := by
  unfold pushFrame
  repeat' (first | split | (dsimp only; split))
  all_goals first
    | exact hc
    | (have := alloc_fault' (by assumption); simp_all)

macro "sticky_close" hc:ident : tactic => `(tactic|
  first
    | exact $hc
    | rfl
    | (apply append_sticky; exact $hc)
    | (apply pushFrame_sticky; exact $hc)
    | (have h1 := alloc_fault' (by assumption); first
        | (apply append_sticky; simp_all)
        | (apply pushFrame_sticky; simp_all)
        | simp_all)
    | (have h1 := growAlloc_fault' (by assumption); simp_all))

theorem scalar_sticky (ω : Oracle) (c : Ctx) (extra : Nat) (it : Spec.Item) (hc : c.fault = true) : (scalar ω c extra it).fault = true := by
  unfold scalar
  repeat' (first | split | (dsimp only; split))
  all_goals sticky_close hc

theorem stringCb_sticky (ω : Oracle) (c : Ctx) (isText : Bool) (data : List UInt8) (hc : c.fault = true) :
    (stringCb ω c isText data).fault = true := by
  unfold stringCb
  have hs1 := same_alloc c ω data.length
  cases hg1 : c.alloc ω data.length with
  | mk ok1 c1 =>
    rw [hg1] at hs1
    simp only
    have hc1 : c1.fault = true := by rw [hs1.2.1]; exact hc
    cases ok1 with
    | false => simp only [Bool.not_false, if_true]; exact hc1
    | true =>
      simp only [Bool.not_true, Bool.false_eq_true, if_false]
      have hs2 := same_alloc c1 ω szItem
      cases hg2 : c1.alloc ω szItem with
      | mk ok2 c2 =>
        rw [hg2] at hs2
        simp only
        have hc2 : c2.fault = true := by rw [hs2.2.1]; exact hc1
        cases ok2 with
        | false => simp only [Bool.not_false, if_true]; exact hc2
        | true =>
          simp only [Bool.not_true, Bool.false_eq_true, if_false]
          repeat' (first | split | (dsimp only; split))
          all_goals first
            | exact hc2
            | (apply append_sticky; exact hc2)
            | (simp only [growAlloc_fault]; exact hc2)

theorem indefString_sticky (ω : Oracle) (L : Nat) (c : Ctx) (isText : Bool) (hc : c.fault = true) :
    (indefString ω L c isText).fault = true := by
  unfold indefString
  have hs1 := same_alloc c ω szItem
  cases hg1 : c.alloc ω szItem with
  | mk ok1 c1 =>
    rw [hg1] at hs1
    simp only
    have hc1 : c1.fault = true := by rw [hs1.2.1]; exact hc
    cases ok1 with
    | false => simp only [Bool.not_false, if_true]; exact hc1
    | true =>
      simp only [Bool.not_true, Bool.false_eq_true, if_false]
      have hs2 := same_alloc c1 ω szIndefStr
      cases hg2 : c1.alloc ω szIndefStr with
      | mk ok2 c2 =>
        rw [hg2] at hs2
        simp only
        have hc2 : c2.fault = true := by rw [hs2.2.1]; exact hc1
        cases ok2 with
        | false => simp only [Bool.not_false, if_true]; exact hc2
        | true => simp only [Bool.not_true, Bool.false_eq_true, if_false]; exact pushFrame_sticky _ _ _ _ _ hc2

theorem arrayStart_sticky (ω : Oracle) (L : Nat) (c : Ctx) (n : UInt64) (hc : c.fault = true) : (arrayStart ω L c n).fault = true := by
  unfold arrayStart
  have hs1 := same_alloc c ω szItem
  cases hg1 : c.alloc ω szItem with
  | mk ok1 c1 =>
    rw [hg1] at hs1
    simp only
    have hc1 : c1.fault = true := by rw [hs1.2.1]; exact hc
    cases ok1 with
    | false => simp only [Bool.not_false, if_true]; exact hc1
    | true =>
      simp only [Bool.not_true, Bool.false_eq_true, if_false]
      have hs2 := same_allocMultiple c1 ω szPtr n.toNat
      cases hg2 : c1.allocMultiple ω szPtr n.toNat with
      | mk ok2 c2 =>
        rw [hg2] at hs2
        simp only
        have hc2 : c2.fault = true := by rw [hs2.2.1]; exact hc1
        cases ok2 with
        | false => simp only [Bool.not_false, if_true]; exact hc2
        | true =>
          simp only [Bool.not_true, Bool.false_eq_true, if_false]
          split
          · exact pushFrame_sticky _ _ _ _ _ hc2
          · exact append_sticky _ _ _ _ hc2

theorem mapStart_sticky (ω : Oracle) (L : Nat) (c : Ctx) (n : UInt64) (hc : c.fault = true) : (mapStart ω L c n).fault = true := by
  unfold mapStart
  have hs1 := same_alloc c ω szItem
  cases hg1 : c.alloc ω szItem with
  | mk ok1 c1 =>
    rw [hg1] at hs1
    simp only
    have hc1 : c1.fault = true := by rw [hs1.2.1]; exact hc
    cases ok1 with
    | false => simp only [Bool.not_false, if_true]; exact hc1
    | true =>
      simp only [Bool.not_true, Bool.false_eq_true, if_false]
      have hs2 := same_allocMultiple c1 ω szPair n.toNat
      cases hg2 : c1.allocMultiple ω szPair n.toNat with
      | mk ok2 c2 =>
        rw [hg2] at hs2
        simp only
        have hc2 : c2.fault = true := by rw [hs2.2.1]; exact hc1
        cases ok2 with
        | false => simp only [Bool.not_false, if_true]; exact hc2
        | true =>
          simp only [Bool.not_true, Bool.false_eq_true, if_false]
          split
          · exact pushFrame_sticky _ _ _ _ _ hc2
          · exact append_sticky _ _ _ _ hc2

theorem indefContainer_sticky (ω : Oracle) (L : Nat) (c : Ctx) (it : PItem) (hc : c.fault = true) : (indefContainer ω L c it).fault = true := by
  unfold indefContainer
  have hs1 := same_alloc c ω szItem
  cases hg1 : c.alloc ω szItem with
  | mk ok1 c1 =>
    rw [hg1] at hs1
    simp only
    have hc1 : c1.fault = true := by rw [hs1.2.1]; exact hc
    cases ok1 with
    | false => simp only [Bool.not_false, if_true]; exact hc1
    | true => simp only [Bool.not_true, Bool.false_eq_true, if_false]; exact pushFrame_sticky _ _ _ _ _ hc1

theorem tagCb_sticky (ω : Oracle) (L : Nat) (c : Ctx) (v : UInt64) (hc : c.fault = true) : (tagCb ω L c v).fault = true := by
  unfold tagCb
  have hs1 := same_alloc c ω szItem
  cases hg1 : c.alloc ω szItem with
  | mk ok1 c1 =>
    rw [hg1] at hs1
    simp only
    have hc1 : c1.fault = true := by rw [hs1.2.1]; exact hc
    cases ok1 with
    | false => simp only [Bool.not_false, if_true]; exact hc1
    | true => simp only [Bool.not_true, Bool.false_eq_true, if_false]; exact pushFrame_sticky _ _ _ _ _ hc1

theorem breakCb_sticky (ω : Oracle) (c : Ctx) (hc : c.fault = true) : (breakCb ω c).fault = true := by
  unfold breakCb
  repeat' (first | split | (dsimp only; split))
  all_goals first
    | exact hc
    | (apply append_sticky; exact hc)

theorem callback_sticky (ω : Oracle) (L : Nat) (src : Array UInt8) (c : Ctx) (e : Gen.Event) (hc : c.fault = true) :
    (callback ω L src c e).fault = true := by
  cases e <;> simp only [callback]
  case byte_string => split; exact stringCb_sticky _ _ _ _ hc; rfl
  case string => split; exact stringCb_sticky _ _ _ _ hc; rfl
  case byte_string_start => exact indefString_sticky _ _ _ _ hc
  case string_start => exact indefString_sticky _ _ _ _ hc
  case array_start => exact arrayStart_sticky _ _ _ _ hc
  case map_start => exact mapStart_sticky _ _ _ _ hc
  case indef_array_start => exact indefContainer_sticky _ _ _ _ hc
  case indef_map_start => exact indefContainer_sticky _ _ _ _ hc
  case tag => exact tagCb_sticky _ _ _ _ hc
  case indef_break => exact breakCb_sticky _ _ hc
  all_goals exact scalar_sticky _ _ _ _ hc

theorem loadLoop_sticky (ω : Oracle) (L : Nat) (src : Array UInt8) : ∀ (fuel : Nat) (c : Ctx) (read : Nat), c.fault = true →
    (loadLoop ω L src fuel c read).fault = true
  | 0, _, _, _ => rfl
  | fuel+1, c, read, hc => by
    unfold loadLoop
    have hfold : ∀ (es : List Gen.Event) (c : Ctx), c.fault = true → (es.foldl (callback ω L src) c).fault = true := by
      intro es
      induction es with
      | nil => intro c h; exact h
      | cons e es ih => intro c h; exact ih _ (callback_sticky ω L src c e h)
    have h1 := hfold (Gen.cbor_stream_decode src read (UInt64.ofNat (src.size - read))).2 c hc
    repeat' (first | split | (dsimp only; split))
    all_goals first
      | exact hc
      | rfl
      | exact h1
      | (apply loadLoop_sticky; exact h1)
      | simp [h1]

/-- a load that ends with its fault flag clear had it clear after every head -/
theorem loadLoop_fold_fault (ω : Oracle) (L : Nat) (src : Array UInt8) (fuel : Nat) (c : Ctx) (read : Nat) (hmore : src.size > read)
    (hf : (loadLoop ω L src (fuel + 1) c read).fault = false) :
    ((Gen.cbor_stream_decode src read (UInt64.ofNat (src.size - read))).2.foldl (callback ω L src) c).fault = false := by
  cases hx : ((Gen.cbor_stream_decode src read (UInt64.ofNat (src.size - read))).2.foldl (callback ω L src) c).fault with
  | false => rfl
  | true =>
    exfalso
    unfold loadLoop at hf
    rw [if_pos hmore] at hf
    have hl := loadLoop_sticky ω L src fuel _ (read + (Gen.cbor_stream_decode src read (UInt64.ofNat (src.size - read))).1.read.toNat) hx
    revert hf
    dsimp only
    repeat' split
    all_goals simp [hx, hl]

end Lemmas.Sticky

/-! ### one call of the generated decoder reports at most one event, and none unless it finishes -/
namespace Lemmas
open Gen

def EvLe (x : S_cbor_decoder_result × List Event) : Prop := x.2.length ≤ 1

theorem evLe_ite (c : Prop) [Decidable c] (a b : S_cbor_decoder_result × List Event) :
    EvLe (if c then a else b) ↔ (c → EvLe a) ∧ (¬ c → EvLe b) := by
  split <;> simp [*]

theorem evLe_nil (r : S_cbor_decoder_result) : EvLe (r, []) ↔ True := by simp [EvLe]
theorem evLe_one (r : S_cbor_decoder_result) (e : Event) : EvLe (r, [e]) ↔ True := by simp [EvLe]

set_option maxRecDepth 100000 in
theorem sd_events_le (src : Array UInt8) (off : Nat) (n : UInt64) : EvLe (cbor_stream_decode src off n) := by
  unfold cbor_stream_decode
  simp only [evLe_ite, evLe_nil, evLe_one, implies_true, and_self]

def StOk (x : S_cbor_decoder_result × List Event) : Prop := x.2 = [] ∨ x.1.status = 0

theorem stOk_ite (c : Prop) [Decidable c] (a b : S_cbor_decoder_result × List Event) :
    StOk (if c then a else b) ↔ (c → StOk a) ∧ (¬ c → StOk b) := by
  split <;> simp [*]

theorem stOk_nil (r : S_cbor_decoder_result) : StOk (r, []) ↔ True := by simp [StOk]
theorem stOk_one (r : S_cbor_decoder_result) (e : Event) : StOk (r, [e]) ↔ r.status = 0 := by simp [StOk]

theorem claim_status (a b : UInt64) (r : S_cbor_decoder_result) (h : (claim_bytes a b r).1 = true) :
    (claim_bytes a b r).2.status = r.status := by
  unfold claim_bytes at h ⊢
  simp only [] at h ⊢
  repeat' split
  all_goals simp_all

theorem claim_imp (a b : UInt64) (r : S_cbor_decoder_result) :
    ((claim_bytes a b r).1 = true → (claim_bytes a b r).2.status = 0) ↔ ((claim_bytes a b r).1 = true → r.status = 0) :=
  ⟨fun h e => by rw [← claim_status a b r e]; exact h e, fun h e => by rw [claim_status a b r e]; exact h e⟩

theorem claim_imp2 (a b : UInt64) (r : S_cbor_decoder_result) (X : Prop) :
    ((claim_bytes a b r).1 = true → X → (claim_bytes a b r).2.status = 0) ↔ ((claim_bytes a b r).1 = true → X → r.status = 0) :=
  ⟨fun h e x => by rw [← claim_status a b r e]; exact h e x, fun h e x => by rw [claim_status a b r e]; exact h e x⟩

set_option maxRecDepth 100000 in
theorem sd_status (src : Array UInt8) (off : Nat) (n : UInt64) : StOk (cbor_stream_decode src off n) := by
  unfold cbor_stream_decode
  simp only [stOk_ite, stOk_nil, stOk_one, implies_true, and_self, and_true, true_and, Bool.not_eq_true', Bool.not_eq_false]
  intro H0
  have h0 : (claim_bytes 1 n { read := 0, status := 0, required := 0 }).2.status = 0 := claim_status _ _ _ H0
  simp only [claim_imp, claim_imp2, h0, implies_true, and_self]

/-- for every buffer, offset and size argument: no event, or exactly one event and status FINISHED -/
theorem sd_events (src : Array UInt8) (off : Nat) (n : UInt64) :
    (cbor_stream_decode src off n).2 = [] ∨
    ∃ e, (cbor_stream_decode src off n).2 = [e] ∧ (cbor_stream_decode src off n).1.status = CBOR_DECODER_FINISHED := by
  have h1 := sd_events_le src off n
  have h2 := sd_status src off n
  unfold EvLe at h1
  unfold StOk at h2
  cases hl : (cbor_stream_decode src off n).2 with
  | nil => exact Or.inl rfl
  | cons e es =>
    rw [hl] at h1 h2
    cases es with
    | nil =>
      rcases h2 with h2 | h2
      · cases h2
      · exact Or.inr ⟨e, rfl, h2⟩
    | cons _ _ => simp at h1

end Lemmas

namespace HB
open Heap
open Spec (Item)

/-! ### the `cbor_load` loop -/

/-- what `hload_refines` says about a pair of results (`N` = number of cells before the load) -/
def Refines (N : Nat) (h0 : H) (o : Model.LoadOut) (r : Option Ref × Model.LoadResult × H) : Prop :=
  r.2.1 = o.result ∧ r.2.2.reqs = h0.reqs + o.reqs ∧ r.2.2.fault = h0.fault ∧
  (∀ x, x < N → r.2.2.get x = h0.get x) ∧
  match o.item with
  | some t => ∃ y, r.1 = some y ∧ Own t r.2.2 y N r.2.2.cells.length
  | none => r.1 = none ∧ ∀ x, N ≤ x → r.2.2.get x = none

/-- the `error:` exit: the clean-up loop leaves no cell of this load behind -/
theorem cleanup_refines {N : Nat} {h0 : H} {c : Model.Ctx} {hc : Ctx} (b : Base N h0 c hc) {hi : Nat}
    (so : StackOwn hc.h c.stack hc.stack N hi) (hle : hi ≤ hc.h.cells.length) (dead : ∀ x, hi ≤ x → hc.h.get x = none)
    (res : Model.LoadResult) (flt : Bool) :
    Refines N h0 ⟨none, res, c.reqs, flt⟩ (none, res, cleanup hc.h hc.stack) := by
  have f := cleanup_freed _ _ _ _ _ so hle
  have hN := stackOwn_le _ _ _ _ so
  refine ⟨rfl, by simp only; rw [f.2.1]; exact b.keeps.1, by simp only; rw [f.1]; exact b.keeps.2.1, fun x hx => ?_, rfl, fun x hx => ?_⟩
  · simp only; rw [f.2.2.2.2 x (Or.inl hx)]; exact b.keeps.2.2 x hx
  · simp only
    by_cases hxh : x < hi
    · exact f.2.2.2.1 x hx hxh
    · rw [f.2.2.2.2 x (Or.inr (by omega))]; exact dead x (by omega)

theorem Post.base {N : Nat} {h0 : H} {c : Model.Ctx} {hc : Ctx} (p : Post N h0 c hc) : Base N h0 c hc := by
  rcases p with g | d | f
  · exact g.base
  · exact d.base
  · exact f.base

theorem post_error {N : Nat} {h0 : H} {c : Model.Ctx} {hc : Ctx} (p : Post N h0 c hc) (hnd : ¬ Done N h0 c hc)
    (res : Model.LoadResult) (flt : Bool) :
    Refines N h0 ⟨none, res, c.reqs, flt⟩ (none, res, cleanup hc.h hc.stack) := by
  rcases p with g | d | f
  · exact cleanup_refines g.base g.own (Nat.le_refl _) (fun x hx => get_none_of_ge _ x hx) res flt
  · exact absurd d hnd
  · obtain ⟨hi, so, hle, dead⟩ := f.own
    exact cleanup_refines f.base so hle dead res flt

theorem good_not_done {N : Nat} {h0 : H} {c : Model.Ctx} {hc : Ctx} (g : Good N h0 c hc) : ¬ Done N h0 c hc := by
  intro d
  obtain ⟨t, y, h1, _⟩ := d.own
  rw [g.root] at h1; cases h1

/-- **the loop of `cbor_load`**, from any state between two heads -/
theorem loop_refines (ω : Oracle) (L : Nat) (src : Array UInt8) (N : Nat) (h0 : H) :
    ∀ (fuel : Nat) (c : Model.Ctx) (hc : Ctx) (read : Nat), Good N h0 c hc →
      (Model.loadLoop (orc ω h0.reqs) L src fuel c read).fault = false →
      Refines N h0 (Model.loadLoop (orc ω h0.reqs) L src fuel c read) (loadLoop ω L src fuel hc read)
  | 0, c, hc, read, g, hf => by simp [Model.loadLoop] at hf
  | fuel+1, c, hc, read, g, hf => by
    by_cases hmore : src.size > read
    · have hcf := Lemmas.Sticky.loadLoop_fold_fault _ L src fuel c read hmore hf
      unfold Model.loadLoop at hf ⊢
      unfold loadLoop
      simp only [hmore, if_true] at hf ⊢
      have hev := Lemmas.sd_events src read (UInt64.ofNat (src.size - read))
      generalize Gen.cbor_stream_decode src read (UInt64.ofNat (src.size - read)) = d at hcf hf hev ⊢
      obtain ⟨res, evs⟩ := d
      simp only at hcf hf hev ⊢
      have hp : Post N h0 (evs.foldl (Model.callback (orc ω h0.reqs) L src) c) (evs.foldl (callback ω L src) hc) ∧
          (¬ res.status = Gen.CBOR_DECODER_FINISHED →
            ¬ Done N h0 (evs.foldl (Model.callback (orc ω h0.reqs) L src) c) (evs.foldl (callback ω L src) hc)) := by
        rcases hev with rfl | ⟨e, rfl, hst⟩
        · exact ⟨Or.inl g, fun _ => good_not_done g⟩
        · exact ⟨callback_sim ω L src g e hcf, fun h => absurd hst h⟩
      obtain ⟨p, hnd⟩ := hp
      generalize evs.foldl (Model.callback (orc ω h0.reqs) L src) c = c' at hcf hf p hnd ⊢
      generalize evs.foldl (callback ω L src) hc = hc' at p hnd ⊢
      have b := p.base
      by_cases hfin : res.status = Gen.CBOR_DECODER_FINISHED
      · simp only [hfin, if_true] at hf ⊢
        rw [b.cf, b.se]
        by_cases h1 : c'.creationFailed = true
        · simp only [h1, if_true] at hf ⊢
          exact post_error p (fun d => by rw [d.cf] at h1; cases h1) _ _
        · simp only [h1, if_false] at hf ⊢
          by_cases h2 : c'.syntaxError = true
          · simp only [h2, if_true] at hf ⊢
            exact post_error p (fun d => by rw [d.se] at h2; cases h2) _ _
          · simp only [h2, if_false] at hf ⊢
            rcases p with g' | d | f
            · have hl := stackOwn_length _ _ _ _ g'.own
              rw [hl]
              by_cases h3 : c'.stack.length > 0
              · simp only [h3, if_true] at hf ⊢
                exact loop_refines ω L src N h0 fuel c' hc' _ g' hf
              · simp only [h3, if_false, g'.root] at hf
                simp at hf
            · obtain ⟨t, y, r1, r2, ho⟩ := d.own
              simp only [d.st, d.hst, List.length_nil, Nat.lt_irrefl, gt_iff_lt, if_false, r1, r2]
              exact ⟨rfl, b.keeps.1, b.keeps.2.1, b.keeps.2.2, y, rfl, ho⟩
            · rcases f.flag with e | e
              · exact absurd e h1
              · exact absurd e h2
      · simp only [hfin, if_false] at hf ⊢
        split
        · exact post_error p (hnd hfin) _ _
        · exact post_error p (hnd hfin) _ _
    · unfold Model.loadLoop loadLoop
      simp only [hmore, if_false]
      exact post_error (Or.inl g) (good_not_done g) _ _

/-- **The incremental heap builder refines the value-level builder.**  `HB.load` reports exactly what `Model.load`
reports, makes exactly the same allocator requests, never touches a pre-existing cell, on success hands out an exclusively
owned tree (every node count 1, occupying exactly the new cells) for exactly the tree the value-level model computes, and
on every failure has released every cell it created. -/
theorem hload_refines (ω : Heap.Oracle) (L : Nat) (h : Heap.H) (r0 : Model.LoadResult) (src : Array UInt8) :
    let o := Model.load (fun i _ => ω (h.reqs + i)) L r0 src
    let r := HB.load ω L h src
    o.fault = false →
    r.2.1 = o.result ∧ r.2.2.reqs = h.reqs + o.reqs ∧ r.2.2.fault = h.fault ∧
    (∀ x, x < h.cells.length → r.2.2.get x = h.get x) ∧
    match o.item with
    | some t => ∃ y, r.1 = some y ∧ Heap.Own t r.2.2 y h.cells.length r.2.2.cells.length
    | none => r.1 = none ∧ ∀ x, h.cells.length ≤ x → r.2.2.get x = none := by
  intro o r hf
  show Refines h.cells.length h o r
  by_cases hz : src.size = 0
  · have ho : o = ⟨none, { code := .noData, position := 0, read := 0 }, 0, false⟩ := by
      show Model.load _ L r0 src = _
      simp [Model.load, hz]
    have hr : r = (none, { code := .noData, position := 0, read := 0 }, h) := by
      show HB.load ω L h src = _
      simp [load, hz]
    rw [ho, hr]
    exact ⟨rfl, rfl, rfl, fun _ _ => rfl, rfl, fun x hx => get_none_of_ge _ x hx⟩
  · have ho : o = Model.loadLoop (orc ω h.reqs) L src (src.size + 1) {} 0 := by
      show Model.load _ L r0 src = _
      simp only [Model.load, hz, if_false]
      rfl
    have hr : r = loadLoop ω L src (src.size + 1) { h := h } 0 := by
      show HB.load ω L h src = _
      simp [load, hz]
    rw [ho] at hf ⊢
    rw [hr]
    refine loop_refines ω L src h.cells.length h _ _ _ 0 ⟨⟨rfl, rfl, Keeps.refl _ _⟩, rfl, rfl, rfl, ?_⟩ hf
    simp [StackOwn]

/-- the same for every buffer a C caller can pass (`size < SIZE_MAX`): the hypothesis on the fault flag is discharged by
`Lemmas.Safe.load_safe` -/
theorem hload_refines' (ω : Heap.Oracle) (L : Nat) (h : Heap.H) (r0 : Model.LoadResult) (src : Array UInt8)
    (hsz : src.size < 2 ^ 64 - 1) :
    let o := Model.load (fun i _ => ω (h.reqs + i)) L r0 src
    let r := HB.load ω L h src
    r.2.1 = o.result ∧ r.2.2.reqs = h.reqs + o.reqs ∧ r.2.2.fault = h.fault ∧
    (∀ x, x < h.cells.length → r.2.2.get x = h.get x) ∧
    match o.item with
    | some t => ∃ y, r.1 = some y ∧ Heap.Own t r.2.2 y h.cells.length r.2.2.cells.length
    | none => r.1 = none ∧ ∀ x, h.cells.length ≤ x → r.2.2.get x = none :=
  hload_refines ω L h r0 src (Lemmas.Safe.load_safe _ L r0 src hsz).1

end HB

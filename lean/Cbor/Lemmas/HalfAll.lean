import Cbor.Lemmas.HalfShard0
import Cbor.Lemmas.HalfShard1
import Cbor.Lemmas.HalfShard2
import Cbor.Lemmas.HalfShard3
import Cbor.Lemmas.HalfShard4
import Cbor.Lemmas.HalfShard5
import Cbor.Lemmas.HalfShard6
import Cbor.Lemmas.HalfShard7
import Cbor.Lemmas.HalfShard8
import Cbor.Lemmas.HalfShard9
import Cbor.Lemmas.HalfShard10
import Cbor.Lemmas.HalfShard11
import Cbor.Lemmas.HalfShard12
import Cbor.Lemmas.HalfShard13
import Cbor.Lemmas.HalfShard14
import Cbor.Lemmas.HalfShard15
import Cbor.Lemmas.HalfShard16
import Cbor.Lemmas.HalfShard17
import Cbor.Lemmas.HalfShard18
import Cbor.Lemmas.HalfShard19
import Cbor.Lemmas.HalfShard20
import Cbor.Lemmas.HalfShard21
import Cbor.Lemmas.HalfShard22
import Cbor.Lemmas.HalfShard23
import Cbor.Lemmas.HalfShard24
import Cbor.Lemmas.HalfShard25
import Cbor.Lemmas.HalfShard26
import Cbor.Lemmas.HalfShard27
import Cbor.Lemmas.HalfShard28
import Cbor.Lemmas.HalfShard29
import Cbor.Lemmas.HalfShard30
import Cbor.Lemmas.HalfShard31
import Cbor.Lemmas.HalfShard32
import Cbor.Lemmas.HalfShard33
import Cbor.Lemmas.HalfShard34
import Cbor.Lemmas.HalfShard35
import Cbor.Lemmas.HalfShard36
import Cbor.Lemmas.HalfShard37
import Cbor.Lemmas.HalfShard38
import Cbor.Lemmas.HalfShard39
import Cbor.Lemmas.HalfShard40
import Cbor.Lemmas.HalfShard41
import Cbor.Lemmas.HalfShard42
import Cbor.Lemmas.HalfShard43
import Cbor.Lemmas.HalfShard44
import Cbor.Lemmas.HalfShard45
import Cbor.Lemmas.HalfShard46
import Cbor.Lemmas.HalfShard47
import Cbor.Lemmas.HalfShard48
import Cbor.Lemmas.HalfShard49
import Cbor.Lemmas.HalfShard50
import Cbor.Lemmas.HalfShard51
import Cbor.Lemmas.HalfShard52
import Cbor.Lemmas.HalfShard53
import Cbor.Lemmas.HalfShard54
import Cbor.Lemmas.HalfShard55
import Cbor.Lemmas.HalfShard56
import Cbor.Lemmas.HalfShard57
import Cbor.Lemmas.HalfShard58
import Cbor.Lemmas.HalfShard59
import Cbor.Lemmas.HalfShard60
import Cbor.Lemmas.HalfShard61
import Cbor.Lemmas.HalfShard62
import Cbor.Lemmas.HalfShard63
/-! all 65 536 binary16 patterns -/
namespace Lemmas

theorem halfCheck_all (h : Nat) (hh : h < 65536) : halfCheck h = true := by
  have key : ∀ i, i < 64 → halfShardOk i = true := by
    intro i hi
    match i, hi with
    | 0, _ => exact half_shard_0
    | 1, _ => exact half_shard_1
    | 2, _ => exact half_shard_2
    | 3, _ => exact half_shard_3
    | 4, _ => exact half_shard_4
    | 5, _ => exact half_shard_5
    | 6, _ => exact half_shard_6
    | 7, _ => exact half_shard_7
    | 8, _ => exact half_shard_8
    | 9, _ => exact half_shard_9
    | 10, _ => exact half_shard_10
    | 11, _ => exact half_shard_11
    | 12, _ => exact half_shard_12
    | 13, _ => exact half_shard_13
    | 14, _ => exact half_shard_14
    | 15, _ => exact half_shard_15
    | 16, _ => exact half_shard_16
    | 17, _ => exact half_shard_17
    | 18, _ => exact half_shard_18
    | 19, _ => exact half_shard_19
    | 20, _ => exact half_shard_20
    | 21, _ => exact half_shard_21
    | 22, _ => exact half_shard_22
    | 23, _ => exact half_shard_23
    | 24, _ => exact half_shard_24
    | 25, _ => exact half_shard_25
    | 26, _ => exact half_shard_26
    | 27, _ => exact half_shard_27
    | 28, _ => exact half_shard_28
    | 29, _ => exact half_shard_29
    | 30, _ => exact half_shard_30
    | 31, _ => exact half_shard_31
    | 32, _ => exact half_shard_32
    | 33, _ => exact half_shard_33
    | 34, _ => exact half_shard_34
    | 35, _ => exact half_shard_35
    | 36, _ => exact half_shard_36
    | 37, _ => exact half_shard_37
    | 38, _ => exact half_shard_38
    | 39, _ => exact half_shard_39
    | 40, _ => exact half_shard_40
    | 41, _ => exact half_shard_41
    | 42, _ => exact half_shard_42
    | 43, _ => exact half_shard_43
    | 44, _ => exact half_shard_44
    | 45, _ => exact half_shard_45
    | 46, _ => exact half_shard_46
    | 47, _ => exact half_shard_47
    | 48, _ => exact half_shard_48
    | 49, _ => exact half_shard_49
    | 50, _ => exact half_shard_50
    | 51, _ => exact half_shard_51
    | 52, _ => exact half_shard_52
    | 53, _ => exact half_shard_53
    | 54, _ => exact half_shard_54
    | 55, _ => exact half_shard_55
    | 56, _ => exact half_shard_56
    | 57, _ => exact half_shard_57
    | 58, _ => exact half_shard_58
    | 59, _ => exact half_shard_59
    | 60, _ => exact half_shard_60
    | 61, _ => exact half_shard_61
    | 62, _ => exact half_shard_62
    | 63, _ => exact half_shard_63
    | n + 64, h => omega
  have hs := key (h / 1024) (by omega)
  unfold halfShardOk at hs
  rw [List.all_eq_true] at hs
  have := hs (h % 1024) (List.mem_range.mpr (by omega))
  have e : h / 1024 * 1024 + h % 1024 = h := by omega
  rwa [e] at this

end Lemmas

namespace Lemmas
/-- the hand-written bit-level model of `_cbor_decode_half` is the Spec's binary16 → binary32 conversion -/
theorem decodeHalf_spec (h : Nat) (hh : h < 65536) : (Ext.decodeHalfBits h).toNat = Spec.halfToSingle h := by
  have := halfCheck_all h hh
  unfold halfCheck at this
  rw [strict_eq] at this
  simp only [Bool.and_eq_true] at this
  exact eq_of_beq this.1.1.1

/-- the Spec's binary32 → binary16 conversion inverts it (canonical NaN) -/
theorem singleToHalf_decode (h : Nat) (hh : h < 65536) :
    Spec.Float.singleToHalf (Ext.decodeHalfBits h).toNat = Spec.Float.canonHalf h := by
  have := halfCheck_all h hh
  unfold halfCheck at this
  rw [strict_eq] at this
  simp only [Bool.and_eq_true] at this
  exact eq_of_beq this.1.1.2
end Lemmas
